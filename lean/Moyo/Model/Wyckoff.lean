import Moyo.Model.Geom3
import Moyo.Model.Hall
import Moyo.Generated.HallTable
import Moyo.Generated.WyckoffTable
/-
Model of `moyo/src/data/wyckoff.rs`:

* `Space.new?`  — `WyckoffPositionSpace::new(coordinates)`: the coordinate-string parser, giving the
  integer 3×3 `linear` and the *exact rational* `origin` (the Rust code accumulates `sign·num/den`
  in f64; the correspondence requires the f64 to be the nearest double of the rational).
  `none` is returned wherever the Rust code panics (`assert`, `unwrap`) **or** leaves the modelled
  fragment (a translation token that is not `<digits>` or `<digits>/<digits>…`); the table theorem
  `C16Wyckoff.rows_parse` shows that no tabulated string does either.
* `iterWyckoffPositions` — the lookup `iter_wyckoff_positions(hall, multiplicity)` over the
  regenerated table (table order is preserved: `assign_wyckoff_position` takes the first match).
* the table-level Bool checkers of C16(i) (kernel friendly: integers only, translations and origins
  in units of 1/24, affine maps keyed into `Nat`).

Core Lean only (linked into the native driver).
-/
namespace Moyo.Wyckoff
open Moyo Moyo.Generated

/-- `WyckoffPositionSpace`: the points `linear · y + origin`, `y ∈ ℝ³`. -/
structure Space where
  linear : M3
  origin : Q3
deriving DecidableEq, Repr, Inhabited

/-! ### the coordinate-string parser -/

/-- `str.split(',')`. -/
def splitOnChar (sep : Char) (cs : List Char) : List (List Char) :=
  let rec go : List Char → List Char → List (List Char) → List (List Char)
    | [], cur, acc => (cur.reverse :: acc).reverse
    | c :: rest, cur, acc => if c = sep then go rest [] (cur.reverse :: acc) else go rest (c :: cur) acc
  go cs [] []

/-- The sign/token loop over the characters of one term: `+` closes the current token (which must be
non-empty: the Rust code asserts) and resets the sign, `-` closes a non-empty token and sets the
sign to `-1`, every other character is appended to the token.  Tokens are kept reversed while they
grow. -/
def signedTokens : List Char → Int → List Char → List (Int × List Char) → Option (List (Int × List Char))
  | [], sign, tok, acc => some ((if tok.isEmpty then acc else (sign, tok.reverse) :: acc).reverse)
  | c :: rest, sign, tok, acc =>
    if c = '+' then
      if tok.isEmpty then none else signedTokens rest 1 [] ((sign, tok.reverse) :: acc)
    else if c = '-' then
      if tok.isEmpty then signedTokens rest (-1) [] acc
      else signedTokens rest (-1) [] ((sign, tok.reverse) :: acc)
    else signedTokens rest sign (c :: tok) acc

def isDigit (c : Char) : Bool := decide ('0' ≤ c) && decide (c ≤ '9')

/-- Non-empty string of ASCII digits as a natural number. -/
def digits? (cs : List Char) : Option Nat :=
  if cs.isEmpty then none else
  cs.foldl (fun acc c => match acc with
    | some a => if isDigit c then some (10 * a + (c.toNat - '0'.toNat)) else none
    | none => none) (some 0)

/-- Contribution of one signed token to row `i`: `(Δlinear[i,0], Δlinear[i,1], Δlinear[i,2], Δorigin[i])`.
A token ending in a digit is a translation `num` or `num/den` (further `/…` parts are ignored, as in
the Rust code); a token ending in `x`,`y`,`z` is `<integer>?<variable>`; any other token contributes
nothing (the Rust loop over the variables simply finds no match). -/
def tokenValue (sign : Int) (tok : List Char) : Option (Int × Int × Int × Rat) :=
  match tok.getLast? with
  | none => none
  | some l =>
    if isDigit l then
      match splitOnChar '/' tok with
      | [n] => (digits? n).map fun v => (0, 0, 0, ((sign * (v : Int) : Int) : Rat))
      | n :: d :: _ =>
        match digits? n, digits? d with
        | some nv, some dv => if dv = 0 then none else some (0, 0, 0, ((sign * (nv : Int) : Int) : Rat) / ((dv : Int) : Rat))
        | _, _ => none
      | [] => none
    else if l = 'x' ∨ l = 'y' ∨ l = 'z' then
      let coeff? : Option Int :=
        if tok.length - 1 = 0 then some 1 else
          (digits? tok.dropLast).bind fun v => if v ≤ 2147483647 then some (v : Int) else none
      coeff?.map fun c =>
        (if l = 'x' then sign * c else 0, if l = 'y' then sign * c else 0, if l = 'z' then sign * c else 0, 0)
    else some (0, 0, 0, 0)

/-- One row (one comma-separated term). -/
def parseTerm (term : List Char) : Option (Int × Int × Int × Rat) :=
  match signedTokens term 1 [] [] with
  | none => none
  | some toks =>
    toks.foldl (fun acc st => match acc, tokenValue st.1 st.2 with
      | some (a, b, c, o), some (a', b', c', o') => some (a + a', b + b', c + c', o + o')
      | _, _ => none) (some (0, 0, 0, 0))

/-- `WyckoffPositionSpace::new`. -/
def Space.ofChars? (cs : List Char) : Option Space :=
  match (splitOnChar ',' (cs.filter (· ≠ ' '))).map parseTerm with
  | [some (a, b, c, o1), some (d, e, f, o2), some (g, h, i, o3)] => some ⟨⟨a, b, c, d, e, f, g, h, i⟩, ⟨o1, o2, o3⟩⟩
  | _ => none

def Space.new? (s : String) : Option Space := Space.ofChars? s.toList

/-- The point of the position with parameters `y`. -/
def Space.point (sp : Space) (y : Q3) : Q3 := (sp.linear.applyQ y).add sp.origin

/-! ### table lookups -/

/-- `iter_wyckoff_positions(hall_number, multiplicity)`, in table order. -/
def iterWyckoffPositions (hall mult : Nat) : List WyckoffEntry :=
  wyckoffTableList.filter fun e => e.hallNumber == hall && e.multiplicity == mult

/-- All rows of a Hall number, in table order. -/
def rowsOfHall (hall : Nat) : List WyckoffEntry :=
  wyckoffTableList.filter fun e => e.hallNumber == hall

/-- The row with the given Hall number and letter (first one in table order). -/
def rowOfLetter? (hall : Nat) (letter : String) : Option WyckoffEntry :=
  wyckoffTableList.find? fun e => e.hallNumber == hall && letter == String.singleton e.letter

/-- Conventional operations (coset representatives × centring translations) of a Hall number, from
the regenerated Hall table and the Hall-symbol parser model; translations in twelfths. -/
def convOps (h : Nat) : Option (List HOp) :=
  if h = 0 then none else
  match hallTable[h - 1]? with
  | none => none
  | some e => (HallSymbol.new e.hallSymbol).bind HallSymbol.conventionalOps

/-! ### site-symmetry symbols -/

/-- Order of the point group named by a site-symmetry symbol with the dots removed.  The 32
Hermann–Mauguin short symbols plus the oriented spellings that occur once the place-holders are
dropped (`2mm`, `m2m` for `mm2`; `-4m2` for `-42m`; `-6m2`/`-62m`; …). -/
def pointGroupOrder? (s : String) : Option Nat :=
  match s with
  | "1" => some 1 | "-1" => some 2
  | "2" => some 2 | "m" => some 2 | "2/m" => some 4
  | "222" => some 4 | "mm2" => some 4 | "m2m" => some 4 | "2mm" => some 4 | "mmm" => some 8
  | "4" => some 4 | "-4" => some 4 | "4/m" => some 8 | "422" => some 8 | "4mm" => some 8
  | "-42m" => some 8 | "-4m2" => some 8 | "4/mmm" => some 16
  | "3" => some 3 | "-3" => some 6 | "32" => some 6 | "3m" => some 6 | "-3m" => some 12
  | "6" => some 6 | "-6" => some 6 | "6/m" => some 12 | "622" => some 12 | "6mm" => some 12
  | "-6m2" => some 12 | "-62m" => some 12 | "6/mmm" => some 24
  | "23" => some 12 | "m-3" => some 24 | "432" => some 24 | "-43m" => some 24 | "m-3m" => some 48
  | _ => none

def stripDots (s : String) : String := String.ofList (s.toList.filter (· ≠ '.'))

/-- Order of the site-symmetry group named by a tabulated symbol such as `..2`, `4/mm.m`, `.-3m`. -/
def siteSymmetryOrder? (s : String) : Option Nat := pointGroupOrder? (stripDots s)

/-! ### C16(i): table checkers (integers only; origins and translations in units of 1/24) -/

/-- A parsed row with the origin in units of 1/24. -/
structure RowZ where
  mult : Nat
  letter : Char
  sym : String
  lin : M3
  /-- `24 · origin` -/
  org : Z3
deriving Repr, Inhabited

def ratToZ24? (q : Rat) : Option Int :=
  let v := q * 24
  if v.den = 1 then some v.num else none

def Space.org24? (sp : Space) : Option Z3 :=
  match ratToZ24? sp.origin.x, ratToZ24? sp.origin.y, ratToZ24? sp.origin.z with
  | some x, some y, some z => some ⟨x, y, z⟩
  | _, _, _ => none

def RowZ.ofEntry? (e : WyckoffEntry) : Option RowZ :=
  match Space.new? e.coordinates with
  | none => none
  | some sp => sp.org24?.map fun o => ⟨e.multiplicity, e.letter, e.siteSymmetry, sp.linear, o⟩

/-- An affine map `y ↦ M y + c` with `c` in units of 1/24 modulo 1. -/
abbrev AffZ := M3 × Z3

/-- Image of the position `(L, o)` under the operation `(R, t)`: `(R·L, R·o + t mod 1)`
(`t` in twelfths, everything else in 24ths). -/
def imageZ (lin : M3) (org : Z3) (g : HOp) : AffZ :=
  (g.rot.mul lin, ((g.rot.apply org).add (Z3.smul 2 g.trans)).mod 24)

def entryBound : Int := 8

/-- All entries of the linear part lie in `[-8, 8]` and the constant part in `[0, 24)`. -/
def AffZ.bounded (a : AffZ) : Bool :=
  (a.1.toList.all fun x => decide (-entryBound ≤ x) && decide (x ≤ entryBound)) &&
  (a.2.toList.all fun x => decide (0 ≤ x) && decide (x < 24))

/-- Digit of a matrix entry in `[-8, 8]`. -/
def dig17 (x : Int) : Nat := (x + 8).toNat

/-- Mixed-radix key (base 17 for the nine matrix entries, base 24 for the constant part); injective
on bounded maps (`Proofs/OracleC07Table.lean`). -/
def AffZ.key (a : AffZ) : Nat :=
  a.2.x.toNat + 24 * (a.2.y.toNat + 24 * (a.2.z.toNat + 24 *
    (dig17 a.1.a + 17 * (dig17 a.1.b + 17 * (dig17 a.1.c + 17 * (dig17 a.1.d + 17 * (dig17 a.1.e + 17 *
      (dig17 a.1.f + 17 * (dig17 a.1.g + 17 * (dig17 a.1.h + 17 * dig17 a.1.i))))))))))

/-- The images of a position under all operations. -/
def images (ops : List HOp) (lin : M3) (org : Z3) : List AffZ := ops.map (imageZ lin org)

/-- Generic orbit size of a position: the number of distinct affine maps `(R·L, R·o + t mod 1)`. -/
def genericOrbitSize (ops : List HOp) (lin : M3) (org : Z3) : Nat :=
  ((images ops lin org).map AffZ.key).eraseDups.length

/-- Letter of the `i`-th position counted from the most special one: `a…z`, then `A`. -/
def letterOfIndex (i : Nat) : Char := if i < 26 then Char.ofNat (97 + i) else if i = 26 then 'A' else '?'

/-- Letters are contiguous from `a` (…`z`, `A`), in table order from the last letter down to `a`;
the first row is the general position (multiplicity = number of operations) and no other row has
that multiplicity. -/
def lettersOk (rows : List RowZ) (nops : Nat) : Bool :=
  let m := rows.length
  decide (0 < m) && decide (m ≤ 27) &&
  ((List.range m).all fun k => match rows[k]? with
    | some r => r.letter == letterOfIndex (m - 1 - k) && (if k = 0 then r.mult == nops else decide (r.mult < nops))
    | none => false)

/-! Generic disjointness of two positions `S₁ = (L₁,o₁)`, `S₂ = (L₂,o₂)` under an operation `g = (R,t)`:
a certificate is an integer row vector `w` with `w·L₂ = 0` (so `w` is constant on `S₂ + ℤ³` modulo 1,
with value `w·o₂`) such that `w·(R L₁) ≠ 0` or `w·(R o₁ + t − o₂) ∉ ℤ`.  Then
`g(L₁ y + o₁) ∈ S₂ + ℤ³` forces `(w R L₁)·y + w·(R o₁ + t − o₂) ∈ ℤ`, which fails for every `y` outside a
countable family of parallel planes (or for every `y`, when `w R L₁ = 0`).
Soundness: `Proofs/OracleC07Table.lean`. -/

def rowMul (w : Z3) (m : M3) : Z3 :=
  ⟨w.x * m.a + w.y * m.d + w.z * m.g, w.x * m.b + w.y * m.e + w.z * m.h, w.x * m.c + w.y * m.f + w.z * m.i⟩

def zdot (w v : Z3) : Int := w.x * v.x + w.y * v.y + w.z * v.z

/-- Candidate certificates: integer vectors with entries in `[-2,2]`, unit vectors first. -/
def certCandidates : List Z3 :=
  let units : List Z3 := [⟨1, 0, 0⟩, ⟨0, 1, 0⟩, ⟨0, 0, 1⟩]
  let r : List Int := [0, 1, -1, 2, -2]
  units ++ (r.flatMap fun a => r.flatMap fun b => r.map fun c => (⟨a, b, c⟩ : Z3)).filter fun w =>
    w != ⟨0, 0, 0⟩ && !(units.contains w)

/-- Row vectors annihilating the column space of `L₂`. -/
def annihilators (lin2 : M3) : List Z3 := certCandidates.filter fun w => rowMul w lin2 == ⟨0, 0, 0⟩

/-- `w` certifies that `g` does not carry `S₁` into `S₂ + ℤ³`. -/
def certifies (w : Z3) (lin1 : M3) (org1 : Z3) (org2 : Z3) (g : HOp) : Bool :=
  rowMul w (g.rot.mul lin1) != ⟨0, 0, 0⟩ ||
  (zdot w (((g.rot.apply org1).add (Z3.smul 2 g.trans)).sub org2)) % 24 != 0

/-- No operation carries `S₁` into `S₂ + ℤ³` (certified operation by operation). -/
def disjointFrom (ops : List HOp) (r1 r2 : RowZ) : Bool :=
  let ann := annihilators r2.lin
  ops.all fun g => ann.any fun w => certifies w r1.lin r1.org r2.org g

/-- All ordered pairs of distinct rows of equal multiplicity are generically disjoint. -/
def pairsDisjoint (ops : List HOp) (rows : List RowZ) : Bool :=
  let idx := List.range rows.length
  idx.all fun i => idx.all fun j =>
    match rows[i]?, rows[j]? with
    | some r1, some r2 => i == j || r1.mult != r2.mult || disjointFrom ops r1 r2
    | _, _ => false

/-- Entries of the linear part of a tabulated position lie in `[-2, 2]`. -/
def linSmall (m : M3) : Bool := m.toList.all fun x => decide (-2 ≤ x) && decide (x ≤ 2)

/-- Row-level clauses: coefficients in `[-2,2]` (so that, the rotations having entries in `{-1,0,1}`,
all images are bounded and the keys faithful), generic orbit size = multiplicity, site-symmetry
order × multiplicity = number of operations. -/
def rowOk (ops : List HOp) (r : RowZ) : Bool :=
  linSmall r.lin &&
  genericOrbitSize ops r.lin r.org == r.mult &&
  (match siteSymmetryOrder? r.sym with
   | some k => k * r.mult == ops.length
   | none => false)

/-- All entries are `some`. -/
def sequence? {α : Type} : List (Option α) → Option (List α)
  | [] => some []
  | none :: _ => none
  | some a :: rest => (sequence? rest).map (a :: ·)

/-- The parsed rows of Hall number `h` within `table` (`none` if some coordinate string does not
parse or an origin is not a multiple of 1/24). -/
def parsedRowsOn? (table : List WyckoffEntry) (h : Nat) : Option (List RowZ) :=
  sequence? ((table.filter fun e => e.hallNumber == h).map RowZ.ofEntry?)

def parsedRows? (h : Nat) : Option (List RowZ) := parsedRowsOn? wyckoffTableList h

/-- Everything C16(i) says about the rows of Hall number `h` found in `table`. -/
def checkHallOn (table : List WyckoffEntry) (h : Nat) : Bool :=
  match convOps h, parsedRowsOn? table h with
  | some ops, some rows =>
    (ops.all fun g => g.rot.small) && (rows.all (rowOk ops)) && lettersOk rows ops.length && pairsDisjoint ops rows
  | _, _ => false

/-- Everything C16(i) says about the rows of Hall number `h`. -/
def checkHall (h : Nat) : Bool := checkHallOn wyckoffTableList h

def inRange (lo hi : Nat) (e : WyckoffEntry) : Bool := decide (lo ≤ e.hallNumber) && decide (e.hallNumber < hi)

/-- `checkHall` for `lo ≤ h < hi`, with one pass over the table (`checkHallRange_iff` in
`Proofs/OracleC07Table.lean`). -/
def checkHallRange (lo hi : Nat) : Bool :=
  let sub := wyckoffTableList.filter (inRange lo hi)
  (List.range (hi - lo)).all fun k => checkHallOn sub (lo + k)

/-- Row-by-row diagnosis for the driver (names the failing rows and clauses). -/
def diagnoseHall (h : Nat) : List String :=
  match convOps h with
  | none => [s!"Hall {h}: no conventional operations"]
  | some ops =>
    let rows := rowsOfHall h
    let f0 := if ops.all fun g => g.rot.small then [] else [s!"Hall {h}: a rotation has an entry outside -1,0,1"]
    let f1 := f0 ++ rows.filterMap fun e =>
      match Space.new? e.coordinates with
      | none => some s!"Hall {h} letter {e.letter}: coordinate string '{e.coordinates}' does not parse"
      | some sp => match sp.org24? with
        | none => some s!"Hall {h} letter {e.letter}: origin of '{e.coordinates}' is not a multiple of 1/24"
        | some o =>
          let r : RowZ := ⟨e.multiplicity, e.letter, e.siteSymmetry, sp.linear, o⟩
          if !(linSmall r.lin) then some s!"Hall {h} letter {e.letter}: coefficient out of range"
          else if genericOrbitSize ops r.lin r.org != r.mult then
            some s!"Hall {h} letter {e.letter} '{e.coordinates}': generic orbit size {genericOrbitSize ops r.lin r.org}, tabulated multiplicity {r.mult}"
          else match siteSymmetryOrder? r.sym with
            | none => some s!"Hall {h} letter {e.letter}: unknown site-symmetry symbol '{r.sym}'"
            | some k => if k * r.mult == ops.length then none else
                some s!"Hall {h} letter {e.letter}: site symmetry '{r.sym}' of order {k}, multiplicity {r.mult}, {ops.length} operations"
    match parsedRows? h with
    | none => f1
    | some rz =>
      let f2 := if lettersOk rz ops.length then [] else [s!"Hall {h}: letters are not contiguous from 'a' with the general position first (letters in table order: {String.ofList (rz.map (·.letter))})"]
      let idx := List.range rz.length
      let f3 := idx.flatMap fun i => idx.filterMap fun j =>
        match rz[i]?, rz[j]? with
        | some r1, some r2 =>
          if i == j || r1.mult != r2.mult || disjointFrom ops r1 r2 then none
          else some s!"Hall {h}: letters {r1.letter} and {r2.letter} (multiplicity {r1.mult}) are not certified disjoint"
        | _, _ => none
      f1 ++ f2 ++ f3

end Moyo.Wyckoff
