import Moyo.Model.StageSearchPrim
import Moyo.Model.StageSearch
import Moyo.Model.StageOps
/-
Composition of the stage models S1 (`PrimitiveCell::new`), S3 (`PrimitiveSymmetrySearch::new`) and S4
(`operations_in_cell`) exactly as `MoyoDataset::new` / `iterative_symmetry_search` chain them for one value of
`symprec` (moyo/src/lib.rs, moyo/src/search/symmetry_search.rs):

    prim_cell = PrimitiveCell::new(cell, symprec)?
    search    = PrimitiveSymmetrySearch::new(&prim_cell.cell, symprec, angle_tolerance)?
    reported  = operations_in_cell(&prim_cell, &search.operations)

The stage models are used unchanged.  The float heuristics are the parameter `Heur` (DESIGN §2.1): the two
Minkowski matrices and the kd-tree proposals of S1, the list returned by `search_bravais_group` and the kd-tree
proposals of S3.  Everything the code does after a proposal is computed by the stage models in exact arithmetic.

The second half of the file contains the *decidable* hypotheses of the end-to-end theorem
`C01.reported_maps_atoms_partial` (Props/C01Pipeline.lean) as `Bool`-valued functions of the stage outputs, so that
the driver can evaluate them on every explored case (`hypReport`).  Import-free apart from the stage models.
-/
namespace Moyo.PipelineOps
open Moyo Moyo.Search Moyo.Stage

/-- All proposals of the float heuristics for one run of S1 → S3 → S4. -/
structure Heur where
  /-- S1: Minkowski matrix of the input lattice (`none` = `MinkowskiReductionError`) -/
  mink1 : Option M3
  /-- S1: `(permutation, rough translation)` proposals of the kd-tree -/
  tcands : List TCand
  /-- S1: Minkowski matrix of the primitive lattice -/
  mink2 : Option M3
  /-- S3: the list returned by `search_bravais_group` (`none` = it returned an error) -/
  brav : Option (List M3)
  /-- S3: `(rotation, rough translation, permutation)` proposals of the kd-tree -/
  cands : List Cand
deriving Repr, Inhabited

/-- `Operation { rotation, translation }` of a searched element (the permutation is dropped by `operations_in_cell`). -/
def elemOp (e : Elem) : OpQ := ⟨e.rot, e.trans⟩

/-- Outputs of the three stages. -/
structure Stages where
  /-- S1: `PrimitiveCell` -/
  prim : PrimRes
  /-- S3: `PrimitiveSymmetrySearch { operations, permutations }` -/
  primOps : List Elem
  /-- S4: the reported operations (input cell) -/
  ops : List OpQ

/-- S4 ∘ S3 ∘ S1. -/
def runStages (c : CellQ) (symprec : Rat) (h : Heur) : Except Err Stages :=
  match primitiveModel c symprec h.mink1 h.tcands h.mink2 with
  | .error e => .error e
  | .ok prim =>
    match searchModel prim.cell symprec h.brav h.cands with
    | .error e => .error e
    | .ok primOps =>
      .ok ⟨prim, primOps, operationsInCell prim.linear prim.translations (primOps.map elemOp)⟩

/-- The reported operations of the composed model. -/
def reportedOps (c : CellQ) (symprec : Rat) (h : Heur) : Except Err (List OpQ) :=
  match runStages c symprec h with
  | .error e => .error e
  | .ok st => .ok st.ops

/-! ### Decidable hypotheses over the stage outputs -/

/-- Orbit representatives of the accepted translation permutations, recomputed from the S1 output
(`representatives` of `primitive_cell_from_transformation`; the `k`-th site of the primitive cell is built from the
atom `(repsOf r)[k]` of the reduced input cell). -/
def repsOf (r : PrimRes) : List Nat :=
  let orbits := Orbits.orbitsFromPermutations r.reduced.n r.perms
  (List.range r.reduced.n).filter fun i => orbits.getD i i == i

/-- (H-p) every accepted translation permutation is onto, with `Permutation::inverse` a right inverse:
`π(π⁻¹(o)) = o` and `π⁻¹(o)` is a site index, for every site `o`.  (`solve_correspondence` does not establish
injectivity, see `permOk`.) -/
def permsInvertible (r : PrimRes) : Bool :=
  r.perms.all fun p => (List.range r.reduced.n).all fun o =>
    decide (papply (pinv p) o < r.reduced.n) && (papply p (papply (pinv p) o) == o)

/-- (H-s) `site_mapping` classes are translation orbits: every atom `i` is carried by one accepted translation
permutation onto the representative of its primitive site `site_mapping[i]`.  This is what closure of the accepted
permutations under composition and inversion (H-a, `permsClosed`) gives, see `C01.siteOrbitOk_of_closed`. -/
def siteOrbitOk (r : PrimRes) : Bool :=
  (List.range r.reduced.n).all fun i =>
    let k := r.siteMapping.getD i 0
    decide (k < (repsOf r).length) && r.perms.any fun p => papply p i == (repsOf r).getD k 0

/-- (H-i) `Permutation::inverse` is also a left inverse of every accepted translation permutation (`π⁻¹(π(i)) = i`,
i.e. `π` is injective). -/
def permsLeftInv (r : PrimRes) : Bool :=
  r.perms.all fun p => (List.range r.reduced.n).all fun i => papply (pinv p) (papply p i) == i

/-- The summand of the orbit average (Eq. (25), `averagedPosition`) contributed by the accepted pair `a = (t, π)` for
the representative `o`: the displacement `x_{π⁻¹(o)} + t − x_o`, wrapped to `[-1/2, 1/2]` (reduced input cell). -/
def avgTerm (red : CellQ) (o : Nat) (a : Q3 × Perm) : Q3 :=
  let d := ((posAt red (papply (pinv a.2) o)).add a.1).sub (posAt red o)
  d.sub (Q3.roundV d)

/-- (H-w) orbit clusters: for every orbit representative `o`, every summand of the average lies within Cartesian
distance `omega` of the average — every atom of the orbit, pulled back by its translation, lies within `omega` of the
primitive site built from the orbit.  (`omega = 2·symprec` always holds: each summand and the mean are shorter than
`symprec`; the interesting value is `omega = symprec`.)  The accepted pairs are recomputed from the reduced cell
(an S1 output) and the proposals. -/
def clusterOk (r : PrimRes) (symprec : Rat) (tcands : List TCand) (omega : Rat) : Bool :=
  let red := r.reduced
  let acc := purifyT red symprec tcands
  decide (0 ≤ omega) && (repsOf r).all fun o =>
    let terms := acc.map (avgTerm red o)
    let mean := Q3.smul (1 / (terms.length : Rat)) (sumQ3 terms)
    terms.all fun w => decide ((red.lat.apply (w.sub mean)).normSq ≤ omega * omega)

/-- (H-a) the accepted translation permutations form a group of maps of `0..n`: one of them is the identity, each
has an inverse in the list, and the composite of any two is in the list (as maps on `0..n`). -/
def permsClosed (r : PrimRes) : Bool :=
  let n := r.reduced.n
  let dom := List.range n
  (r.perms.any fun p => dom.all fun i => papply p i == i) &&
  (r.perms.all fun p => r.perms.any fun q => dom.all fun i => papply q (papply p i) == i) &&
  (r.perms.all fun p => r.perms.all fun q => r.perms.any fun m => dom.all fun i => papply m i == papply q (papply p i))

/-- The integer vector nearest to the accepted translation `t` expressed in the primitive basis, `round(L t)`. -/
def latticePoint (L : M3) (t : Q3) : Z3 :=
  let v := L.applyQ t
  ⟨ratRound v.x, ratRound v.y, ratRound v.z⟩

/-- (H-ε) every accepted translation (input cell) is, in the primitive basis, within Cartesian distance `tau` of the
integer vector `latticePoint`: `|A_prim (L t − round(L t))| ≤ tau`. -/
def transNearLattice (r : PrimRes) (tau : Rat) : Bool :=
  decide (0 ≤ tau) && r.translations.all fun t =>
    let v := r.linear.applyQ t
    decide ((r.cell.lat.apply (v.sub (Q3.roundV v))).normSq ≤ tau * tau)

/-- `adj(L) (z − c)` is divisible by `d`, i.e. (for `d = det L`) `z − c ∈ L ℤ³`. -/
def congMod (L : M3) (d : Int) (z c : Z3) : Bool :=
  let w := L.adj.apply (z.sub c)
  (w.x % d == 0) && (w.y % d == 0) && (w.z % d == 0)

/-- (H-r) the rounded translations represent every class of `ℤ³ / L ℤ³` (there are `det L` classes and `det L`
translations; every class has a representative in the box `[0, det L)³`). -/
def cosetsCovered (r : PrimRes) : Bool :=
  let d := r.linear.det
  let box := (List.range d.toNat).map fun (k : Nat) => (k : Int)
  decide (0 < d) && box.all fun x => box.all fun y => box.all fun z =>
    r.translations.any fun t => congMod r.linear d ⟨x, y, z⟩ (latticePoint r.linear t)

/-- The six coefficients of the quadratic form `v ↦ lam²·|A v|² − |A R v|²`
(`p11, p22, p33, p12, p13, p23`; the form is `Σ pᵢᵢ vᵢ² + 2 Σ_{i<j} pᵢⱼ vᵢ vⱼ`). -/
def strainForm (A : QM3) (R : M3) (lam : Rat) : Rat × Rat × Rat × Rat × Rat × Rat :=
  let B := A.mul (QM3.ofM3 R)
  let l2 := lam * lam
  (l2 * (A.col 0).dot (A.col 0) - (B.col 0).dot (B.col 0),
   l2 * (A.col 1).dot (A.col 1) - (B.col 1).dot (B.col 1),
   l2 * (A.col 2).dot (A.col 2) - (B.col 2).dot (B.col 2),
   l2 * (A.col 0).dot (A.col 1) - (B.col 0).dot (B.col 1),
   l2 * (A.col 0).dot (A.col 2) - (B.col 0).dot (B.col 2),
   l2 * (A.col 1).dot (A.col 2) - (B.col 1).dot (B.col 2))

/-- (H-η) `R` stretches no vector by more than the factor `lam` in the metric of `A`:
`|A R v| ≤ lam·|A v|` for all `v`.  Decided by Sylvester's criterion on `lam²·G − RᵀGR` (zero, or positive leading
minors with non-negative determinant).  `lam = 1` is accepted for an exact isometry. -/
def strainOk (A : QM3) (R : M3) (lam : Rat) : Bool :=
  let (p11, p22, p33, p12, p13, p23) := strainForm A R lam
  let d2 := p11 * p22 - p12 * p12
  let d3 := p11 * (p22 * p33 - p23 * p23) - p12 * (p12 * p33 - p23 * p13) + p13 * (p12 * p23 - p22 * p13)
  decide (0 ≤ lam) &&
    ((p11 == 0 && p22 == 0 && p33 == 0 && p12 == 0 && p13 == 0 && p23 == 0) ||
     (decide (0 < p11) && decide (0 < d2) && decide (0 ≤ d3)))

/-- (H-η) for every operation returned by S3. -/
def strainAll (st : Stages) (lam : Rat) : Bool :=
  st.primOps.all fun e => strainOk st.prim.cell.lat e.rot lam

/-- (H-d) every rotation proposed to S3 has determinant `±1` (true of everything that leaves
`search_bravais_group`: `C02.bravais_filter_det`). -/
def candDetOk (h : Heur) : Bool := h.cands.all fun cd => cd.rot.det.natAbs == 1

/-- Every rotation proposed to S3 is an element of the proposed Bravais list (true by construction: the candidate
loop of `PrimitiveSymmetrySearch::new` iterates over `bravais_group`). -/
def candsFromBrav (h : Heur) : Bool :=
  match h.brav with
  | some g => h.cands.all fun cd => g.contains cd.rot
  | none => false

/-- (H-c) the candidates accepted by S3 have pairwise distinct rotation parts. -/
def distinctOk (st : Stages) (symprec : Rat) (h : Heur) : Bool :=
  distinctRots (purify st.prim.cell symprec h.cands)

/-- All hypotheses of `C01.reported_maps_atoms_partial`, for the strain factor `lam` and the lattice mismatch `tau`. -/
def hypsOk (st : Stages) (symprec : Rat) (h : Heur) (lam tau : Rat) : Bool :=
  permsInvertible st.prim && siteOrbitOk st.prim && distinctOk st symprec h &&
  transNearLattice st.prim tau && cosetsCovered st.prim && strainAll st lam

/-- The same with (H-a) (closure of the accepted translation permutations) in place of (H-p) and (H-s). -/
def hypsOkClosed (st : Stages) (symprec : Rat) (h : Heur) (lam tau : Rat) : Bool :=
  permsClosed st.prim && distinctOk st symprec h &&
  transNearLattice st.prim tau && cosetsCovered st.prim && strainAll st lam

/-- All hypotheses of `C01.reported_maps_atoms_cluster_partial` (cluster radius `omega`). -/
def hypsOkCluster (st : Stages) (symprec : Rat) (h : Heur) (lam tau omega : Rat) : Bool :=
  permsInvertible st.prim && permsLeftInv st.prim && siteOrbitOk st.prim && distinctOk st symprec h &&
  transNearLattice st.prim tau && cosetsCovered st.prim && strainAll st lam &&
  clusterOk st.prim symprec h.tcands omega

/-- The same with (H-a) in place of (H-p), (H-i), (H-s). -/
def hypsOkClusterClosed (st : Stages) (symprec : Rat) (h : Heur) (lam tau omega : Rat) : Bool :=
  permsClosed st.prim && distinctOk st symprec h &&
  transNearLattice st.prim tau && cosetsCovered st.prim && strainAll st lam &&
  clusterOk st.prim symprec h.tcands omega

/-- The radius proved by `C01.reported_maps_atoms_cluster_partial`:
`symprec + (1 + lam)·omega + (2 + lam)·tau`. -/
def radiusCluster (symprec lam tau omega : Rat) : Rat := symprec + (1 + lam) * omega + (2 + lam) * tau

/-- The radius proved by `C01.reported_maps_atoms_partial`: `(3 + 2·lam)·symprec + (2 + lam)·tau`. -/
def radius (symprec lam tau : Rat) : Rat := (3 + 2 * lam) * symprec + (2 + lam) * tau

/-- One line for the evidence: which hypotheses hold on this case. -/
def hypReport (st : Stages) (symprec : Rat) (h : Heur) (lam tau : Rat) : String :=
  let b (x : Bool) : String := if x then "1" else "0"
  s!"Hp {b (permsInvertible st.prim)} ; Hs {b (siteOrbitOk st.prim)} ; Ha {b (permsClosed st.prim)} ; " ++
  s!"Hc {b (distinctOk st symprec h)} ; Hd {b (candDetOk h)} ; He {b (transNearLattice st.prim tau)} ; " ++
  s!"Hr {b (cosetsCovered st.prim)} ; Hn {b (strainAll st lam)} ; Hb {b (candsFromBrav h)} ; " ++
  s!"Hi {b (permsLeftInv st.prim)} ; Hw {b (clusterOk st.prim symprec h.tcands symprec)}"

end Moyo.PipelineOps
