import Moyo.Model.HNF
import Moyo.Model.Hall
import Moyo.Model.Dataset
import Moyo.Generated.HallTable
import Moyo.Generated.ArithTable
import Moyo.Generated.PointGroupTable
import Moyo.Generated.S5Table
/-
Stage S5: model of space-group identification `identify::space_group::SpaceGroup::new`
(moyo/src/identify/{space_group,point_group,rotation_type,normalizer}.rs,
moyo/src/math/integer_system.rs, data/point_group.rs `PointGroupRepresentative`, data/setting.rs).

Literal transcription over exact arithmetic: rotations are `M3` (integers), translations `Q3`
(rationals; every `f64` of the implementation arrives as an exact dyadic), `epsilon : Rat`.
Iterators that the code consumes lazily (`multi_cartesian_product().filter_map(..)`, `.nth(0)`,
`.into_iter().next()`) are modelled as first-success searches in the same order
(`prodFirst`: last factor fastest, as `itertools::multi_cartesian_product`).
Tables come from `Moyo/Generated/*` (regenerated from the sources).

Sites where the Rust code would panic are mapped to `Out.panic`:
`identify_rotation_type` on a matrix outside the ten (trace, det) classes and the cubic
`assert_eq!(trans_mat_basis.len(), 1)`.  Unreachable-for-tables sites are noted where they occur.
-/
namespace Moyo.S5
open Moyo Moyo.Generated

/-! ### Small helpers -/

def ratAbs (q : Rat) : Rat := if q < 0 then -q else q

/-- Entry `(i, j)` of a 3×3 matrix (0 outside the range). -/
def mget (m : M3) (i j : Nat) : Int :=
  match i, j with
  | 0, 0 => m.a | 0, 1 => m.b | 0, 2 => m.c
  | 1, 0 => m.d | 1, 1 => m.e | 1, 2 => m.f
  | 2, 0 => m.g | 2, 1 => m.h | 2, 2 => m.i
  | _, _ => 0

/-- Component `i` of a rational vector (0 outside the range). -/
def qget (v : Q3) (i : Nat) : Rat :=
  match i with
  | 0 => v.x | 1 => v.y | 2 => v.z | _ => 0

/-- Entry-wise `round(x / d)` (`f64::round`: ties away from zero) of an integer matrix divided by `d`. -/
def roundDiv (num : M3) (d : Int) : M3 :=
  let f := fun (x : Int) => ratRound ((x : Rat) / (d : Rat))
  ⟨f num.a, f num.b, f num.c, f num.d, f num.e, f num.f, f num.g, f num.h, f num.i⟩

/-- First success over the cartesian product of the factors, enumerated like
`itertools::multi_cartesian_product` (lexicographic, last factor fastest; the empty product has the
single element `[]`). -/
def prodFirst {α β : Type} : List (List α) → (List α → Option β) → Option β
  | [], f => f []
  | c :: cs, f => c.findSome? fun x => prodFirst cs fun rest => f (x :: rest)

/-- `some` of all results if every `f x` is `some` (the `?` operator inside a loop). -/
def allSome {α β : Type} (f : α → Option β) : List α → Option (List β)
  | [] => some []
  | x :: xs =>
    match f x, allSome f xs with
    | some y, some ys => some (y :: ys)
    | _, _ => none

/-! ### `identify_rotation_type`, `identify_geometric_crystal_class` -/

/-- Rotation type as the counter slot (0..9) of `identify_geometric_crystal_class`; `none` = the
`unreachable!` arm. -/
def rotType? (R : M3) : Option Nat :=
  (rotTypes.find? fun x => x.1 == R.trace && x.2.1 == R.det).map (·.2.2)

def histogram (types : List Nat) : List Nat := (List.range 10).map fun s => types.count s

/-- Index (enum order of `GeometricCrystalClass`) of the class with this histogram. -/
def geoClass? (types : List Nat) : Option Nat :=
  let h := histogram types
  geoHist.findIdx? (· == h)

/-! ### Table access -/

def hallEntry? (h : Nat) : Option HallEntry := if h = 0 then none else hallTable[h - 1]?

def hallSymbol? (h : Nat) : Option HallSymbol := (hallEntry? h).bind fun e => HallSymbol.new e.hallSymbol

/-- `PointGroupRepresentative::from_arithmetic_crystal_class`: rotation generators + centering. -/
def pgRep? (arith : Nat) : Option (List M3 × Centering) :=
  if arith = 0 then none else
  (arithRepHall[arith - 1]?).bind fun h => (hallSymbol? h).map fun hs => (hs.generators.map (·.rot), hs.centering)

/-- `PointGroupRepresentative::primitive_generators`: `round(L g L⁻¹)`. -/
def pgPrimGens (rep : List M3 × Centering) : List M3 :=
  let L := rep.2.linear
  rep.1.map fun g => roundDiv ((L.mul g).mul L.adj) L.det

/-- Name of the geometric crystal class of an arithmetic class. -/
def arithGeoName? (arith : Nat) : Option String :=
  if arith = 0 then none else (arithTable[arith - 1]?).map (·.geometricClass)

/-! ### `sylvester3` / `IntegerLinearSystem::new` -/

/-- `coeffs`: block `k` is `I₃ ⊗ A_k − B_kᵀ ⊗ I₃` (9×9), acting on the column-major `vec(P)`. -/
def sylvesterMat (As Bs : Array M3) : IMat (9 * Bs.size) 9 :=
  IMat.ofFn fun i j =>
    let kk := i.val / 9
    let ii := i.val % 9
    let p := ii / 3
    let r := ii % 3
    let q := j.val / 3
    let s := j.val % 3
    let A := As.getD kk M3.zero
    let B := Bs.getD kk M3.zero
    (if p = q then mget A r s else 0) - (if r = s then mget B q p else 0)

/-- Column `c` of `r` read as `vec(P)` (column-major): `P[s][q] = r[3q+s][c]`. -/
def colToM3 (r : IMat 9 9) (c : Fin 9) : M3 :=
  ⟨r.get 0 c, r.get 3 c, r.get 6 c,
   r.get 1 c, r.get 4 c, r.get 7 c,
   r.get 2 c, r.get 5 c, r.get 8 c⟩

/-- Null-space basis: the last `9 - rank` columns of `snf.r`. -/
def nullBasis (r : IMat 9 9) (rank : Nat) : List M3 :=
  (List.finRange 9).filterMap fun c => if rank ≤ c.val then some (colToM3 r c) else none

/-- `sylvester3(a, b)`: basis of the integer solutions `P` of `a[k] P = P b[k]` for all `k`;
`none` when the rank is 9 (only `P = 0`). -/
def sylvester3 (As Bs : Array M3) : Option (List M3) :=
  let s := snf (sylvesterMat As Bs)
  let rank := s.rank
  if rank = 9 then none else some (nullBasis s.r rank)

/-! ### `iter_trans_mat_basis`, `iter_unimodular_trans_mat` -/

/-- First success of `g` over `iter_trans_mat_basis(rots, types, gens)`.  A generator whose rotation
type is unknown (a panic in the code; impossible for tabulated generators) gets no candidates. -/
def transMatBasisFirst {β : Type} (rots : Array M3) (types : Array Nat) (gens : List M3)
    (g : List M3 → Option β) : Option β :=
  let gensA := gens.toArray
  let cands : List (List Nat) := gens.map fun gen =>
    match rotType? gen with
    | none => []
    | some t => (List.range rots.size).filter fun i => types.getD i 99 == t
  prodFirst cands fun pivot =>
    (sylvester3 (pivot.map fun i => rots.getD i M3.zero).toArray gensA).bind g

def linComb (comb : List Int) (basis : List M3) : M3 :=
  (comb.zip basis).foldl (fun acc cb => acc.add (M3.smul cb.1 cb.2)) M3.zero

/-- First success of `g` over `iter_unimodular_trans_mat(basis)`: coefficient vectors in `[-1,1]`
first, then those in `[-2,2]` with an entry of absolute value 2; only `det = 1` combinations. -/
def unimodularFirst {β : Type} (basis : List M3) (g : M3 → Option β) : Option β :=
  let f := fun (comb : List Int) =>
    let P := linComb comb basis
    if P.det = 1 then g P else none
  match prodFirst (List.replicate basis.length [-1, 0, 1]) f with
  | some b => some b
  | none =>
    prodFirst (List.replicate basis.length [-2, -1, 0, 1, 2]) fun comb =>
      if comb.any (fun e => e.natAbs == 2) then f comb else none

/-! ### `PointGroup::new` -/

inductive Err
  | geometricClass      -- GeometricCrystalClassIdentificationError
  | arithmeticClass     -- ArithmeticCrystalClassIdentificationError
  | unknownHall         -- UnknownHallNumberError
  | spaceGroupType      -- SpaceGroupTypeIdentificationError
  | panic (site : String)
deriving Repr, DecidableEq, Inhabited

def Err.name : Err → String
  | .geometricClass => "GeometricCrystalClassIdentificationError"
  | .arithmeticClass => "ArithmeticCrystalClassIdentificationError"
  | .unknownHall => "UnknownHallNumberError"
  | .spaceGroupType => "SpaceGroupTypeIdentificationError"
  | .panic s => "PANIC " ++ s

structure PointGroup where
  arith : Nat
  primTransMat : M3
deriving Repr, DecidableEq, Inhabited

/-- Arithmetic classes (in table order) of the geometric class `name`. -/
def arithOfClass (name : String) : List Nat :=
  (arithTable.toList.filter fun e => e.geometricClass == name).map (·.arithmeticNumber)

def matchWithPointGroup (rots : Array M3) (types : Array Nat) (name : String) : Except Err PointGroup :=
  let r := (arithOfClass name).findSome? fun a =>
    match pgRep? a with
    | none => none
    | some rep =>
      (transMatBasisFirst rots types (pgPrimGens rep) fun basis => unimodularFirst basis some).map
        fun P => (⟨a, P⟩ : PointGroup)
  match r with
  | some pg => .ok pg
  | none => .error .arithmeticClass

/-- Body of the `for trans_mat_basis` loop of `match_with_cubic_point_group`:
`none` = continue, `some (.ok _)`/`some (.error _)` = return. -/
def cubicStep (cands : List (Nat × (List M3 × Centering))) (basis : List M3) :
    Option (Except Err PointGroup) :=
  match basis with
  | [b0] =>
    let det0 := b0.det
    if det0 = 0 then none else
    let conv := if det0 < 0 then b0.neg else b0
    let det := if det0 < 0 then -det0 else det0
    match cands.find? fun c => (c.2.2.order : Int) == det with
    | none => none
    | some c =>
      let L := c.2.2.linear
      let P := roundDiv (conv.mul L.adj) L.det
      if P.det ≠ 1 then some (.error .arithmeticClass) else some (.ok ⟨c.1, P⟩)
  | _ => some (.error (.panic "cubic: trans_mat_basis.len() != 1"))

def matchWithCubicPointGroup (rots : Array M3) (types : Array Nat) (name : String) : Except Err PointGroup :=
  let cands := (arithOfClass name).filterMap fun a => (pgRep? a).map fun rep => (a, rep)
  match cands.find? fun c => c.2.2 == Centering.P with
  | none => .error (.panic "cubic: no primitive arithmetic class")
  | some prim =>
    match transMatBasisFirst rots types (pgPrimGens prim.2) (cubicStep cands) with
    | some r => r
    | none => .error .arithmeticClass

/-- `PointGroup::new`. -/
def pointGroupNew (rots : List M3) : Except Err PointGroup :=
  match rots.mapM rotType? with
  | none => .error (.panic "identify_rotation_type: unreachable")
  | some types =>
    match geoClass? types with
    | none => .error .geometricClass
    | some ci =>
      let name := geoNames.getD ci ""
      let sys := geoSystem.getD ci ""
      if sys == "Triclinic" then
        if name == "C1" then .ok ⟨1, M3.one⟩
        else if name == "Ci" then .ok ⟨2, M3.one⟩
        else .error (.panic "triclinic: unreachable")
      else if sys == "Cubic" then matchWithCubicPointGroup rots.toArray types.toArray name
      else matchWithPointGroup rots.toArray types.toArray name

/-! ### `solve_mod1`, `match_origin_shift` -/

def ratSumFin {n : Nat} (f : Fin n → Rat) : Rat := Fin.foldl n (fun acc k => acc + f k) 0

/-- `(A v)_i` for an integer matrix with three columns and a rational vector. -/
def rowDot {m : Nat} (a : IMat m 3) (i : Fin m) (v : Q3) : Rat :=
  (a.get i 0 : Rat) * v.x + (a.get i 1 : Rat) * v.y + (a.get i 2 : Rat) * v.z

/-- The residual test at the end of `solve_mod1`: every component of `a x − b`, reduced to
`[-1/2, 1/2]` by subtracting its rounding, has absolute value at most `eps`. -/
def residualOK {m : Nat} (a : IMat m 3) (b : Vector Rat m) (eps : Rat) (x : Q3) : Bool :=
  (List.finRange m).all fun i => !(decide (ratAbs (ratWrap (rowDot a i x - b[i])) > eps))

/-- `lb = snf.l * b`, first three components. -/
def smithLb {m : Nat} (hm : 3 ≤ m) (l : IMat m m) (b : Vector Rat m) : Vector Rat 3 :=
  Vector.ofFn fun i => ratSumFin fun j => (l.get ⟨i.val, by omega⟩ j : Rat) * b[j]

/-- The three diagonal entries `snf.d[(i, i)]`. -/
def smithDiag {m : Nat} (hm : 3 ≤ m) (d : IMat m 3) : Vector Int 3 :=
  Vector.ofFn fun i => d.get ⟨i.val, by omega⟩ i

/-- The first loop of `solve_mod1`: where `d_ii = 0` the right-hand side must be an integer up to
`eps` (else `None`); otherwise `y_i = lb_i / d_ii`. -/
def smithY (d : Vector Int 3) (lb : Vector Rat 3) (eps : Rat) : Option Q3 :=
  if (List.finRange 3).any (fun i => d[i] == 0 && decide (ratAbs (ratWrap lb[i]) > eps)) then none else
  let yi : Fin 3 → Rat := fun i => if d[i] = 0 then 0 else lb[i] / (d[i] : Rat)
  some ⟨yi 0, yi 1, yi 2⟩

/-- `x = (snf.r * y) % 1`. -/
def smithX (r : IMat 3 3) (y : Q3) : Q3 :=
  ⟨ratTruncFrac (rowDot r 0 y), ratTruncFrac (rowDot r 1 y), ratTruncFrac (rowDot r 2 y)⟩

/-- `solve_mod1(a, b, epsilon)`: solve `a x = b (mod 1)` through the Smith normal form `D = L a R`.
For fewer than three rows the code indexes `snf.d[(i, i)]` out of bounds (never happens: every Hall
symbol has at least one generator, theorem `gens_nonempty`); the model answers `none`. -/
def solveMod1 {m : Nat} (a : IMat m 3) (b : Vector Rat m) (eps : Rat) : Option Q3 :=
  if hm : 3 ≤ m then
    let s := snf a
    match smithY (smithDiag hm s.d) (smithLb hm s.l b) eps with
    | none => none
    | some y =>
      let x := smithX s.r y
      if residualOK a b eps x then some x else none
  else none

/-- `UnimodularTransformation::from_linear(P).transform_operation`: `(P⁻¹ R P, P⁻¹ t)` with
`P⁻¹ = adj P` (the code rounds the float inverse; `det P = 1` on every call path). -/
def transformOp (P : M3) (o : OpQ) : OpQ :=
  let Pinv := P.adj
  ⟨(Pinv.mul o.rot).mul P, Pinv.applyQ o.trans⟩

/-- `HashMap::get` after inserting the operations in order (last write wins). -/
def hmGet (opsRev : List OpQ) (R : M3) : Option Q3 := (opsRev.find? fun o => o.rot == R).map (·.trans)

/-- Database generators with exact translations (twelfths → rationals). -/
structure Gen where
  rot : M3
  trans : Q3
deriving Repr, Inhabited

def hallPrimGens? (h : Nat) : Option (List Gen) :=
  (hallSymbol? h).map fun hs => hs.primitiveGenerators.map fun g => ⟨g.rot, g.trans.toQ 12⟩

/-- The linear system of `match_origin_shift`: rows `3k..3k+2` are `R_k − I`. -/
def shiftMat (gens : Array Gen) : IMat (3 * gens.size) 3 :=
  IMat.ofFn fun i j =>
    let g := (gens.getD (i.val / 3) ⟨M3.zero, Q3.zero⟩).rot
    mget g (i.val % 3) j.val - (if i.val % 3 = j.val then 1 else 0)

/-- Right-hand side `t_db − t_target` (stacked), `none` if a generator rotation is not a key. -/
def shiftRhs (gens : Array Gen) (newOpsRev : List OpQ) : Option (Vector Rat (3 * gens.size)) :=
  match allSome (fun g => (hmGet newOpsRev g.rot).map fun t => g.trans.sub t) gens.toList with
  | none => none
  | some bs =>
    let ba := bs.toArray
    some (Vector.ofFn fun i => qget (ba.getD (i.val / 3) Q3.zero) (i.val % 3))

/-- `match_origin_shift(prim_operations, trans_mat, db_prim_generators, epsilon)`. -/
def matchOriginShift (ops : List OpQ) (P : M3) (gens : Array Gen) (eps : Rat) : Option Q3 :=
  let newOpsRev := (ops.map (transformOp P)).reverse
  match shiftRhs gens newOpsRev with
  | none => none
  | some b =>
    match solveMod1 (shiftMat gens) b eps with
    | none => none
    | some s => some ((P.applyQ s).map ratTruncFrac)

/-! ### `correction_transformation_matrices` -/

def correctionMatrices (arith : Nat) : List M3 :=
  match arithGeoName? arith, pgRep? arith with
  | some name, some rep =>
    let convs := ((corrConvs.find? fun x => x.1 == name).map (·.2)).getD corrConvDefault
    let L := rep.2.linear
    (convs.map fun c => roundDiv ((L.mul c).mul L.adj) L.det).filter fun corr => corr.det == 1
  | _, _ => []   -- `unwrap`/`panic!` on an unknown arithmetic number: unreachable for table entries

/-! ### `integral_normalizer(..).into_iter().next()` -/

/-- First conjugator `(P, p)` found by `integral_normalizer` (the code collects one per null-space
basis and takes the first). -/
def normalizerFirst (ops : List OpQ) (gens : Array Gen) (eps : Rat) : Option (M3 × Q3) :=
  match (ops.map (·.rot)).mapM rotType? with
  | none => none   -- unreachable: the same rotations were classified by `PointGroup::new` before
  | some types =>
    transMatBasisFirst (ops.map (·.rot)).toArray types.toArray (gens.toList.map (·.rot)) fun basis =>
      unimodularFirst basis fun P => (matchOriginShift ops P gens eps).map fun p => (P, p)

/-! ### `SpaceGroup::new` -/

def settingHallNumbers : SettingQ → List Int
  | .hall h => [h]
  | .spglib => spglibHallNumbers.toList.map Int.ofNat
  | .standard => standardHallNumbers.toList.map Int.ofNat

structure SpaceGroup where
  number : Nat
  hall : Nat
  linear : M3
  shift : Q3
deriving Repr, Inhabited

/-- One iteration of `for hall_number in setting.hall_numbers()`:
`none` = continue, `some _` = return. -/
def tryHall (ops : List OpQ) (setting : SettingQ) (eps : Rat) (pg : PointGroup) (hi : Int) :
    Option (Except Err SpaceGroup) :=
  if hi < 1 then some (.error .unknownHall) else
  let h := hi.toNat
  match hallEntry? h with
  | none => some (.error .unknownHall)
  | some entry =>
    if entry.arithmeticNumber ≠ pg.arith then none else
    match hallPrimGens? h with
    | none => some (.error .spaceGroupType)
    | some gensL =>
      let gens := gensL.toArray
      let viaCorr := (correctionMatrices entry.arithmeticNumber).findSome? fun corr =>
        let P := pg.primTransMat.mul corr
        (matchOriginShift ops P gens eps).map fun p => (P, p)
      match viaCorr with
      | some (P, p) => some (.ok ⟨entry.number, h, P, p⟩)
      | none =>
        match setting with
        | .hall _ =>
          match normalizerFirst ops gens eps with
          | some (P, p) => some (.ok ⟨entry.number, h, P, p⟩)
          | none => none
        | _ => none

/-- `SpaceGroup::new` after `PointGroup::new(&prim_rotations)?` has produced `pgr`. -/
def identifyFrom (ops : List OpQ) (setting : SettingQ) (eps : Rat) (pgr : Except Err PointGroup) :
    Except Err SpaceGroup :=
  match pgr with
  | .error e => .error e
  | .ok pg =>
    match (settingHallNumbers setting).findSome? (tryHall ops setting eps pg) with
    | some r => r
    | none => .error .spaceGroupType

/-- `SpaceGroup::new(prim_operations, setting, epsilon)`. -/
def identify (ops : List OpQ) (setting : SettingQ) (eps : Rat) : Except Err SpaceGroup :=
  identifyFrom ops setting eps (pointGroupNew (ops.map (·.rot)))

end Moyo.S5
