import Moyo.Model.StageStdRun
/-
Driver commands of the stage models S6 and S7.

`s6 <tag> ; lat 9 ; n k ; pos 3k ; num k ; nops m ; ops 12m ; perms p1 , p2 , … ; hallnum h ; ulinear 9 ;
    ushift 3 ; symprec s ; epsilon e [; rot 9] [; impltlinear 9]`
  (`rot`, `impltlinear` are the oracle parameters taken from the implementation's output) answers
`ok ; primlat … ; primn … ; primpos … ; primnum … ; ptlinear … ; ushift … ; stdlat … ; stdn … ; stdpos … ;
    stdnum … ; tlinear … ; tshift … ; sitemap … ; wyck l:m:sym … ; branch b ; fragile r,… ;
    mono ncand nnear usedParam implFirst ; rotchk orthErr detQ lowTri metricDev ; hyp compat small invariant`
or `err <name> ; fragile …`, `PANIC <site> ; fragile …`, `MISMATCH <what>`.

`s7 <tag> ; natoms n ; perms … ; sitemap …` answers `orbits …` (model `Orbits.orbitsInCell`).
-/
namespace Moyo.DriverS6
open Moyo Moyo.Wire Moyo.StageStd

/-- Split a token list at `,`. -/
def splitComma (ts : List String) : List (List String) :=
  let rec go (acc : List String) (out : List (List String)) : List String → List (List String)
    | [] => (acc.reverse :: out).reverse
    | t :: rest => if t = "," then go [] (acc.reverse :: out) rest else go (t :: acc) out rest
  go [] [] ts

def parsePerms? (ts : List String) : Option (List (List Nat)) :=
  if ts.isEmpty then some [] else (splitComma ts).mapM parseNats?

def parseInput? (ts : List String) : Option Input := do
  let segs := segments ts
  let cell ← parseCell? segs ""
  let nops ← ((← seg? segs "nops").head?).bind String.toNat?
  let ops ← parseOps? nops (← seg? segs "ops")
  let perms ← parsePerms? (← seg? segs "perms")
  let hall ← ((← seg? segs "hallnum").head?).bind String.toNat?
  let P ← (← parseInts? (← seg? segs "ulinear")) |> M3.ofList?
  let p ← (← parseRats? (← seg? segs "ushift")) |> Q3.ofList?
  let symprec ← ((← seg? segs "symprec").head?).bind parseRat?
  let epsilon ← ((← seg? segs "epsilon").head?).bind parseRat?
  let rot := (seg? segs "rot").bind fun v => (parseRats? v).bind QM3.ofList?
  let itl := (seg? segs "impltlinear").bind fun v => (parseInts? v).bind M3.ofList?
  pure { lat := cell.lat, pos := cell.pos.toList, num := cell.num.toList, ops := ops.toList, perms := perms,
         hall := hall, P := P, p := p, symprec := symprec, epsilon := epsilon, rot := rot, implTlinear := itl }

def q3sOut (l : List Q3) : String := " ".intercalate (l.map fun v => ratsToString v.toList)

def b01 (b : Bool) : String := if b then "1" else "0"

/-- 18 significant decimals are plenty for the reported diagnostics. -/
def approx (q : Rat) : String :=
  let s : Int := (q * ((10 ^ 18 : Nat) : Rat)).floor
  s!"{s}/1000000000000000000"

def fragOut (l : List String) : String := if l.isEmpty then "-" else ",".intercalate l

def resultOut (r : Result) : String :=
  let wy := " ".intercalate (r.wyckoffs.map fun e => s!"{e.letter}:{e.multiplicity}:{e.siteSymmetry}")
  s!"ok ; primlat {ratsToString r.primLat.toList} ; primn {r.primPos.length} ; primpos {q3sOut r.primPos} ; primnum {intsToString r.primNum}" ++
  s!" ; ptlinear {intsToString r.primTrans.linear.toList} ; ushift {ratsToString r.primTrans.shift.toList}" ++
  s!" ; stdlat {ratsToString r.stdLat.toList} ; stdn {r.stdPos.length} ; stdpos {q3sOut r.stdPos} ; stdnum {intsToString r.stdNum}" ++
  s!" ; tlinear {intsToString r.tlinear.toList} ; tshift {ratsToString r.tshift.toList}" ++
  s!" ; sitemap {natsToString r.siteMapping} ; wyck {wy} ; branch {r.branch.toString} ; fragile {fragOut r.fragile}" ++
  s!" ; mono {r.mono.ncand} {r.mono.nnear} {b01 r.mono.usedParam} {b01 r.mono.implFirst}" ++
  s!" ; rotchk {approx r.orthErr} {approx r.detQ} {approx r.lowTri} {approx r.metricDev}" ++
  s!" ; hyp {b01 r.hypCompat} {b01 r.hypSmall} {b01 r.exactInvariant}"

def cmdS6 (ts : List String) : String :=
  match parseInput? ts with
  | none => "bad-case"
  | some inp =>
    match run inp with
    | .ok r => resultOut r
    | .err name fr => s!"err {name} ; fragile {fragOut fr}"
    | .panic site fr => s!"PANIC {site} ; fragile {fragOut fr}"
    | .mismatch what => s!"MISMATCH {what}"

def cmdS7 (ts : List String) : String :=
  let segs := segments ts
  match (do
    let n ← ((← seg? segs "natoms").head?).bind String.toNat?
    let perms ← parsePerms? (← seg? segs "perms")
    let sm ← parseNats? (← seg? segs "sitemap")
    pure (n, perms, sm)) with
  | none => "bad-case"
  | some (n, perms, sm) => s!"orbits {natsToString (Orbits.orbitsInCell n perms sm)}"

def step? (line : String) : Option String :=
  match tokens line with
  | "s6" :: _tag :: rest => some (cmdS6 rest)
  | "s7" :: _tag :: rest => some (cmdS7 rest)
  | _ => none

end Moyo.DriverS6
