import Moyo.Model.Wire
import Moyo.Model.Tolerance
/-
Driver commands of C08.
  `tolreplay <MoyoError variant names…>` : S12 — the exponents `e_i` (tolerances = requested * 2^{e_i}) at which
  `iterative_symmetry_search` makes its attempts when the i-th attempt fails with the i-th error, followed by
  the exponent reached after the last update (`Tol.replayErrors`); rationals separated by blanks.
-/
namespace Moyo.DriverC08
open Moyo

def step? (line : String) : Option String :=
  match Wire.tokens line with
  | "tolreplay" :: errs => some (Wire.ratsToString (Tol.replayErrors errs))
  | _ => none

end Moyo.DriverC08
