import Moyo.Spec.C11
import Moyo.Proofs.MagSite
import Moyo.Proofs.OracleAlgebra
import Mathlib.Data.Finset.Card
import Mathlib.Data.Finset.Image
/-
C11: magnetic operations are symmetries of the magnetic structure and form a group.
* `moment_action`: the executable model of `act_rotation`/`act_time_reversal` (both moment kinds,
  both actions, with the code's `round(det(A R A⁻¹))`) is the moment action of the property statement.
* `timereversal_index`: in a finite set of magnetic operations closed under composition modulo
  translations the time-reversal-free elements are closed and have index 1 or 2.
* `checkC11_sound` / `checkC11_complete`: the executable oracle `MagOracle.checkC11`, run on the
  implementation's dataset, is a verified decision of `Spec.C11`.
-/
namespace Moyo.C11
open Moyo Moyo.Oracle Moyo.MagOracle Moyo.Spec Moyo.Periodic Moyo.OracleP Moyo.MagP

/-! ### the moment action -/

theorem ratRound_intCast (n : Int) : ratRound (n : Rat) = n := by
  have half : ((1 : Rat) / 2).floor = 0 := by decide +kernel
  unfold ratRound
  split
  · rw [show (n : Rat) + 1 / 2 = 1 / 2 + (n : Rat) by ring, Rat.floor_add_intCast, half]; omega
  · rw [show -(n : Rat) + 1 / 2 = 1 / 2 + ((-n : Int) : Rat) by push_cast; ring, Rat.floor_add_intCast, half]
    omega

/-- For a non-degenerate basis the Cartesian form `A R A⁻¹` has the determinant of `R`. -/
theorem cartRot_det (A : QM3) (R : M3) (hA : A.det ≠ 0) : (cartRot A R).det = (R.det : Rat) := by
  unfold cartRot
  rw [QM3.det_mul, QM3.det_mul, QM3.ofM3_det]
  have h1 : A.det * A.inv.det = 1 := by
    rw [← QM3.det_mul, QM3.mul_inv_cancel A hA]
    simp [QM3.one, QM3.det]
  calc A.det * (R.det : Rat) * A.inv.det = (R.det : Rat) * (A.det * A.inv.det) := by ring
    _ = (R.det : Rat) := by rw [h1, mul_one]

/-- **Moment action.**  The model of `MagneticMoment::act_magnetic_operation` — `act_rotation` with
the Cartesian rotation `A R A⁻¹` (polar: `Q m`; axial: `round(det Q)·Q m`; collinear: the scalar
rules) followed by `act_time_reversal` — equals, for every non-degenerate basis `A`, every integer
matrix `R`, both moment kinds and both actions, the action of the property statement
`m' = θ · (det R)^{[axial]} · (A R A⁻¹) m` (collinear `m' = θ · (det R)^{[axial]} · m`).
The `round` in the code is harmless because `det (A R A⁻¹) = det R` exactly (`cartRot_det`). -/
theorem moment_action (collinear axial : Bool) (A : QM3) (R : M3) (tr : Bool) (m : Q3)
    (hA : A.det ≠ 0) :
    actMagneticOperation collinear axial (cartRot A R) tr m =
      momentAct collinear axial (cartRot A R) R.det tr m := by
  unfold actMagneticOperation actTimeReversal actRotation momentAct
  rw [cartRot_det A R hA, ratRound_intCast]
  cases tr <;> cases axial <;> cases collinear <;> simp [Q3.smul, Q3.neg]

/-- Non-vacuity of `moment_action`: a rotated monoclinic-like basis, a twofold improper operation,
axial non-collinear moment under time reversal: the moment is `+Q m` (two sign changes cancel). -/
example : actMagneticOperation false true (cartRot ⟨2, 1, 0, 0, 3, 0, 0, 0, 5⟩ ⟨-1, 0, 0, 0, 1, 0, 0, 0, 1⟩) true ⟨1, 2, 3⟩ =
    (cartRot ⟨2, 1, 0, 0, 3, 0, 0, 0, 5⟩ ⟨-1, 0, 0, 0, 1, 0, 0, 0, 1⟩).apply ⟨1, 2, 3⟩ := by
  decide +kernel

/-! ### index of the time-reversal-free subgroup -/

/-- **Index 1 or 2.**  Let `S` be a finite set of magnetic operations modulo translations (any type
`G` with a composition `mul` and a time-reversal flag `θ` composing by xor), closed under composition
and left-cancellative.  Then the time-reversal-free elements are closed under composition, and they
are either all of `S` or exactly half of it (multiplication by a fixed primed element is a bijection
between the two halves). -/
theorem timereversal_index {G : Type} [DecidableEq G] (mul : G → G → G) (θ : G → Bool) (S : Finset G)
    (hθ : ∀ a ∈ S, ∀ b ∈ S, θ (mul a b) = (θ a != θ b))
    (hclosed : ∀ a ∈ S, ∀ b ∈ S, mul a b ∈ S)
    (hcancel : ∀ a ∈ S, ∀ b ∈ S, ∀ c ∈ S, mul a b = mul a c → b = c) :
    (∀ a ∈ S, ∀ b ∈ S, θ a = false → θ b = false → mul a b ∈ S ∧ θ (mul a b) = false) ∧
    ((S.filter fun a => θ a = false).card = S.card ∨
      2 * (S.filter fun a => θ a = false).card = S.card) := by
  refine ⟨fun a ha b hb h1 h2 => ⟨hclosed a ha b hb, by rw [hθ a ha b hb, h1, h2]; rfl⟩, ?_⟩
  by_cases hall : ∀ a ∈ S, θ a = false
  · left
    congr 1
    exact Finset.filter_true_of_mem hall
  · right
    push Not at hall
    obtain ⟨g, hg, hgθ⟩ := hall
    have hgθ' : θ g = true := by cases h : θ g <;> simp_all
    set S0 := S.filter fun a => θ a = false with hS0
    set S1 := S.filter fun a => θ a = true with hS1
    have hsplit : S0.card + S1.card = S.card := by
      have := Finset.card_filter_add_card_filter_not (s := S) (fun a => θ a = false)
      rw [← this]
      congr 2
      ext a
      simp only [hS1, Finset.mem_filter]
      cases θ a <;> simp
    have h01 : S0.card ≤ S1.card := by
      apply Finset.card_le_card_of_injOn (fun x => mul g x)
      · intro x hx
        have hx' := Finset.mem_filter.1 (Finset.mem_coe.1 hx)
        apply Finset.mem_coe.2
        apply Finset.mem_filter.2
        refine ⟨hclosed g hg x hx'.1, ?_⟩
        rw [hθ g hg x hx'.1, hgθ', hx'.2]; rfl
      · intro x hx y hy hxy
        exact hcancel g hg x (Finset.mem_filter.1 (Finset.mem_coe.1 hx)).1 y
          (Finset.mem_filter.1 (Finset.mem_coe.1 hy)).1 hxy
    have h10 : S1.card ≤ S0.card := by
      apply Finset.card_le_card_of_injOn (fun x => mul g x)
      · intro x hx
        have hx' := Finset.mem_filter.1 (Finset.mem_coe.1 hx)
        apply Finset.mem_coe.2
        apply Finset.mem_filter.2
        refine ⟨hclosed g hg x hx'.1, ?_⟩
        rw [hθ g hg x hx'.1, hgθ', hx'.2]; rfl
      · intro x hx y hy hxy
        exact hcancel g hg x (Finset.mem_filter.1 (Finset.mem_coe.1 hx)).1 y
          (Finset.mem_filter.1 (Finset.mem_coe.1 hy)).1 hxy
    omega

/-- Non-vacuity of `timereversal_index`: the point group `{1, 2_z, 1̄', m_z'}` (rotation part, flag)
under matrix multiplication and xor satisfies all hypotheses, and its unprimed half has 2 of 4 elements. -/
example :
    let S : Finset (M3 × Bool) :=
      {(M3.one, false), (⟨-1, 0, 0, 0, -1, 0, 0, 0, 1⟩, false), (M3.one.neg, true), (⟨1, 0, 0, 0, 1, 0, 0, 0, -1⟩, true)}
    let mul : M3 × Bool → M3 × Bool → M3 × Bool := fun a b => (a.1.mul b.1, a.2 != b.2)
    (∀ a ∈ S, ∀ b ∈ S, (mul a b).2 = (a.2 != b.2)) ∧ (∀ a ∈ S, ∀ b ∈ S, mul a b ∈ S) ∧
    (∀ a ∈ S, ∀ b ∈ S, ∀ c ∈ S, mul a b = mul a c → b = c) ∧
    2 * (S.filter fun a => a.2 = false).card = S.card := by
  decide +kernel

/-! ### the oracle -/

/-- Soundness of clause (a): a silent `checkC11sym` means every reported operation is a symmetry of
the magnetic structure (positions within `4·symprec`, moments within `4·mag_symprec`). -/
theorem checkC11sym_sound {cs : MagCaseQ} {d : MagDatasetQ} (h : checkC11sym cs d = []) :
    Spec.C11symmetry cs d := by
  unfold checkC11sym at h
  simp only at h
  rw [firstFail_eq_nil] at h
  intro o ho
  obtain ⟨n, hn, rfl⟩ := getElem!_of_mem ho
  have := h n hn
  split at this
  · cases this
  · rename_i hdet
    refine ⟨?_, ?_⟩
    · have hd := hdet
      simp only [Bool.not_eq_true', Bool.not_eq_false, Bool.or_eq_true, beq_iff_eq] at hd
      exact hd
    · intro i hi
      split at this
      · split at this <;> cases this
      · rename_i hnone
        rw [List.find?_eq_none] at hnone
        have hh := hnone i (List.mem_range.2 hi)
        apply findMagSite_sound
        simpa [Option.isSome_iff_ne_none] using hh

/-- Completeness of clause (a): no false alarm (non-degenerate lattice, tolerance inside the scanned window). -/
theorem checkC11sym_complete {cs : MagCaseQ} {d : MagDatasetQ} (hA : cs.mc.cell.lat.det ≠ 0)
    (hw : Window cs.mc.cell.lat ((4 * d.symprec) * (4 * d.symprec))) (h : Spec.C11symmetry cs d) :
    checkC11sym cs d = [] := by
  unfold checkC11sym
  simp only
  rw [firstFail_eq_nil]
  intro n hn
  obtain ⟨c1, c2⟩ := h _ (mem_of_getElem! hn)
  split
  · rename_i hdet
    exfalso
    simp only [Bool.not_eq_true', Bool.or_eq_false_iff, beq_eq_false_iff_ne] at hdet
    rcases c1 with c1 | c1
    · exact hdet.1 c1
    · exact hdet.2 c1
  · split
    · rename_i i hsome
      exfalso
      have h1 := List.find?_some hsome
      have h2 := List.mem_range.1 (List.mem_of_find?_eq_some hsome)
      have := findMagSite_complete hA hw (c2 i h2)
      rw [Option.isSome_iff_ne_none] at this
      simp [this] at h1
    · rfl

/-- Soundness of clauses (b)–(d): a silent `checkC11alg` means the reported operations form a group
modulo lattice translations with time reversal composing by xor (closure checked for *all* pairs),
the time-reversal-free ones are all or half of them, and the list equals the generating magnetic group
conjugated by the recorded re-description. -/
theorem checkC11alg_sound {cs : MagCaseQ} {d : MagDatasetQ} (h : checkC11alg cs d = []) :
    Spec.C11group cs d ∧ Spec.C11index d ∧ Spec.C11complete cs d := by
  unfold checkC11alg at h
  simp only [List.append_eq_nil_iff] at h
  obtain ⟨⟨⟨⟨⟨h0, h1⟩, h2⟩, h3⟩, h4⟩, h5⟩ := h
  rw [firstFail_eq_nil] at h1 h2 h3
  refine ⟨⟨?_, ?_, ?_, ?_⟩, ?_, ?_⟩
  · exact hasMOp_sound (ite_nil_singleton h0)
  · intro i j hji hi hsame
    have := h1 i hi
    split at this
    · cases this
    · rename_i hany
      apply hany
      rw [List.any_eq_true]
      refine ⟨j, List.mem_range.2 hji, ?_⟩
      obtain ⟨ht, hr, n, nx, ny, nz⟩ := hsame
      simp only [Bool.and_eq_true, beq_iff_eq, decide_eq_true_eq]
      refine ⟨⟨ht, hr⟩, ⟨?_, ?_⟩, ?_⟩
      · exact lt_of_le_of_lt (rabs_wrap_le _ n.x) nx
      · exact lt_of_le_of_lt (rabs_wrap_le _ n.y) ny
      · exact lt_of_le_of_lt (rabs_wrap_le _ n.z) nz
  · intro a ha' b hb
    obtain ⟨i, hi, rfl⟩ := getElem!_of_mem ha'
    obtain ⟨j, hj, rfl⟩ := getElem!_of_mem hb
    have := h2 i hi
    split at this
    · cases this
    · rename_i hnone
      rw [List.find?_eq_none] at hnone
      have hh := hnone j (List.mem_range.2 hj)
      apply hasMOp_sound (gi := ginvDiag cs.mc.cell.lat)
      simpa using hh
  · intro a ha'
    obtain ⟨i, hi, rfl⟩ := getElem!_of_mem ha'
    have := h3 i hi
    split at this
    · rename_i hany
      rw [side_build, Array.any_eq_true'] at hany
      obtain ⟨e, he, hcond⟩ := hany
      rw [Bool.and_eq_true, Array.any_eq_true'] at hcond
      obtain ⟨hrot, t, ht, hclose⟩ := hcond
      obtain ⟨p, hp, hr, rfl⟩ := groupByRot_sound _ e he t ht
      obtain ⟨q, hq, hqt, rfl⟩ := mem_opsWith.1 (Array.mem_toList_iff.2 hp)
      refine ⟨q, hq, ?_, ?_, withinPeriodic_sound hclose⟩
      · show (d.ops[i]!.tr != q.tr) = false
        rw [hqt]; simp
      · rw [← hr] at hrot
        exact beq_iff_eq.1 hrot
    · cases this
  · have := ite_nil_singleton h4
    rw [opsWith_size] at this
    unfold C11index
    simpa using this
  · split at h5
    · cases h5
    · rename_i exp hexp
      simp only [List.append_eq_nil_iff] at h5
      obtain ⟨⟨m1, m2⟩, m3⟩ := h5
      refine ⟨exp, hexp, ?_, ?_, ?_⟩
      · intro e he
        have hm := ite_nil_singleton m1
        rw [List.isEmpty_iff, List.filter_eq_nil_iff] at hm
        have := hm e he
        apply hasMOp_sound (gi := ginvDiag cs.mc.cell.lat)
        simpa using this
      · intro o ho
        have hm := ite_nil_singleton m2
        rw [List.isEmpty_iff, List.filter_eq_nil_iff] at hm
        have := hm o ho
        have hr : MReported cs.mc.cell.lat (4 * d.symprec * (4 * d.symprec)) exp.toArray o := by
          apply hasMOp_sound (gi := ginvDiag cs.mc.cell.lat)
          simpa using this
        obtain ⟨e, he, hnear⟩ := hr
        exact ⟨e, by simpa using he, hnear⟩
      · have := ite_nil_singleton m3
        simpa using this

/-- Completeness of clauses (b)–(d): no false alarm. -/
theorem checkC11alg_complete {cs : MagCaseQ} {d : MagDatasetQ} (hA : cs.mc.cell.lat.det ≠ 0)
    (hw : Window cs.mc.cell.lat ((4 * d.symprec) * (4 * d.symprec)))
    (hg : Spec.C11group cs d) (hi : Spec.C11index d) (hc : Spec.C11complete cs d) :
    checkC11alg cs d = [] := by
  obtain ⟨c0, c1, c2, c3⟩ := hg
  obtain ⟨exp, hexp, e1, e2, e3⟩ := hc
  unfold checkC11alg
  simp only [List.append_eq_nil_iff]
  refine ⟨⟨⟨⟨⟨?_, ?_⟩, ?_⟩, ?_⟩, ?_⟩, ?_⟩
  · exact if_pos (hasMOp_complete hA hw c0)
  · rw [firstFail_eq_nil]
    intro i hi'
    split
    · rename_i hany
      exfalso
      rw [List.any_eq_true] at hany
      obtain ⟨j, hj, hcond⟩ := hany
      simp only [Bool.and_eq_true, beq_iff_eq, decide_eq_true_eq] at hcond
      exact c1 i j (List.mem_range.1 hj) hi'
        ⟨hcond.1.1, hcond.1.2, ⟨ratRound (d.ops[j]!.trans.x - d.ops[i]!.trans.x),
          ratRound (d.ops[j]!.trans.y - d.ops[i]!.trans.y),
          ratRound (d.ops[j]!.trans.z - d.ops[i]!.trans.z)⟩, hcond.2.1.1, hcond.2.1.2, hcond.2.2⟩
    · rfl
  · rw [firstFail_eq_nil]
    intro i hi'
    split
    · rename_i j hfind
      exfalso
      have h1 := List.find?_some hfind
      have h2 := List.mem_range.1 (List.mem_of_find?_eq_some hfind)
      have := hasMOp_complete hA hw (c2 d.ops[i]! (mem_of_getElem! hi') d.ops[j]! (mem_of_getElem! h2))
      rw [this] at h1
      cases h1
    · rfl
  · rw [firstFail_eq_nil]
    intro i hi'
    split
    · rfl
    · rename_i hany
      exfalso
      apply hany
      obtain ⟨q, hq, ht, hr, hd⟩ := c3 d.ops[i]! (mem_of_getElem! hi')
      have ht' : q.tr = d.ops[i]!.tr := by
        have : (d.ops[i]!.tr != q.tr) = false := ht
        cases h1 : d.ops[i]!.tr <;> cases h2 : q.tr <;> simp_all
      have hqm : q.op ∈ (opsWith d.ops d.ops[i]!.tr).toList := mem_opsWith.2 ⟨q, hq, ht', rfl⟩
      obtain ⟨k, hk, hkq⟩ := Array.mem_iff_getElem.1 (Array.mem_toList_iff.1 hqm)
      obtain ⟨e, he, h1, h2⟩ := (groupByRot_complete (opsWith d.ops d.ops[i]!.tr)).1 k hk
      rw [side_build, Array.any_eq_true']
      refine ⟨e, he, ?_⟩
      rw [Bool.and_eq_true, Array.any_eq_true']
      rw [hkq] at h1 h2
      refine ⟨?_, _, h2, withinPeriodic_complete hA hw hd⟩
      rw [h1]
      exact beq_iff_eq.2 hr
  · apply if_pos
    rw [opsWith_size]
    unfold C11index at hi
    simp only [Bool.or_eq_true, beq_iff_eq]
    exact hi
  · split
    · rename_i hnone
      rw [hexp] at hnone
      cases hnone
    · rename_i exp' hexp'
      rw [hexp] at hexp'
      injection hexp' with hexp'
      subst hexp'
      simp only [List.append_eq_nil_iff]
      refine ⟨⟨if_pos ?_, if_pos ?_⟩, if_pos (beq_iff_eq.2 e3)⟩
      · rw [List.isEmpty_iff, List.filter_eq_nil_iff]
        intro e he
        simp [hasMOp_complete hA hw (e1 e he)]
      · rw [List.isEmpty_iff, List.filter_eq_nil_iff]
        intro o ho
        obtain ⟨e, he, hne⟩ := e2 o ho
        have : MReported cs.mc.cell.lat (4 * d.symprec * (4 * d.symprec)) exp.toArray o :=
          ⟨e, by simpa using he, hne⟩
        simp [hasMOp_complete hA hw this]

/-- **Soundness of the C11 oracle.**  A silent `checkC11` means `Spec.C11` holds of the dataset. -/
theorem checkC11_sound {cs : MagCaseQ} {d : MagDatasetQ} (h : checkC11 cs d = []) : Spec.C11 cs d := by
  unfold checkC11 at h
  rw [List.append_eq_nil_iff] at h
  obtain ⟨g, i, c⟩ := checkC11alg_sound h.2
  exact ⟨checkC11sym_sound h.1, g, i, c⟩

/-- **Completeness of the C11 oracle** (no false alarm): non-degenerate lattice, tolerance inside the
scanned window. -/
theorem checkC11_complete {cs : MagCaseQ} {d : MagDatasetQ} (hA : cs.mc.cell.lat.det ≠ 0)
    (hw : Window cs.mc.cell.lat ((4 * d.symprec) * (4 * d.symprec))) (h : Spec.C11 cs d) :
    checkC11 cs d = [] := by
  unfold checkC11
  rw [checkC11sym_complete hA hw h.symmetry, checkC11alg_complete hA hw h.group h.index h.complete]
  rfl

/-- The oracle decides C11 exactly. -/
theorem checkC11_iff {cs : MagCaseQ} {d : MagDatasetQ} (hA : cs.mc.cell.lat.det ≠ 0)
    (hw : Window cs.mc.cell.lat ((4 * d.symprec) * (4 * d.symprec))) :
    checkC11 cs d = [] ↔ Spec.C11 cs d :=
  ⟨checkC11_sound, checkC11_complete hA hw⟩

/-! ### Non-vacuity: a concrete case on which all hypotheses hold -/

/-- Two like atoms at ±(1/4,1/4,1/4) in a cubic cell of edge 2 carrying the axial moments
`(0,0,1)` and `(0,0,-1)`: generated from UNI 6 (`P -1'`) in its own setting; reported `{1, 1̄'}` (the
primed inversion with a lattice-translation offset). -/
def exCell : MagCellQ :=
  ⟨⟨⟨2, 0, 0, 0, 2, 0, 0, 0, 2⟩, #[⟨1/4, 1/4, 1/4⟩, ⟨3/4, 3/4, 3/4⟩], #[1, 1]⟩, #[⟨0, 0, 1⟩, ⟨0, 0, -1⟩]⟩
def exTruth : MagTruthQ := { (default : MagTruthQ) with uni := 6, p := M3.one, shift := Q3.zero, variant := "plain" }
def exCase : MagCaseQ := { (default : MagCaseQ) with mc := exCell, collinear := false, axial := true, truth := exTruth }
def exData : MagDatasetQ :=
  { (default : MagDatasetQ) with
    ops := #[⟨M3.one, Q3.zero, false⟩, ⟨M3.one.neg, ⟨1, 0, -1⟩, true⟩], symprec := 1 / 10000, magSymprec := 1 / 10000 }

/-- The float-free part of the oracle is silent on the example (kernel evaluation, including the
magnetic Hall symbol `P -1'` read from the regenerated table through the parser model) … -/
theorem exAlgSilent : checkC11alg exCase exData = [] := by decide +kernel

/-- … and it is not vacuous: dropping the primed inversion, or un-priming it, is detected. -/
example : checkC11alg exCase { exData with ops := #[⟨M3.one, Q3.zero, false⟩] } ≠ [] := by decide +kernel
example : checkC11alg exCase { exData with ops := #[⟨M3.one, Q3.zero, false⟩, ⟨M3.one.neg, ⟨1, 0, -1⟩, false⟩] } ≠ [] := by
  decide +kernel

/-- The symmetry clause holds of the example, by exhibiting the witnesses (the primed inversion
carries atom 0 onto atom 1 with the lattice vector `(0,1,2)`; its axial moment `−(−1)(−m) = −m`). -/
theorem exSym : Spec.C11symmetry exCase exData := by
  intro o ho
  have ho' : o = ⟨M3.one, Q3.zero, false⟩ ∨ o = ⟨M3.one.neg, ⟨1, 0, -1⟩, true⟩ := by
    simpa [exData] using ho
  rcases ho' with rfl | rfl
  · refine ⟨by decide +kernel, fun i hi => ?_⟩
    have hi' : i < 2 := hi
    obtain rfl | rfl : i = 0 ∨ i = 1 := by omega
    · exact ⟨0, by decide, by decide +kernel, ⟨⟨0, 0, 0⟩, by decide +kernel⟩, by decide +kernel⟩
    · exact ⟨1, by decide, by decide +kernel, ⟨⟨0, 0, 0⟩, by decide +kernel⟩, by decide +kernel⟩
  · refine ⟨by decide +kernel, fun i hi => ?_⟩
    have hi' : i < 2 := hi
    obtain rfl | rfl : i = 0 ∨ i = 1 := by omega
    · exact ⟨1, by decide, by decide +kernel, ⟨⟨0, 1, 2⟩, by decide +kernel⟩, by decide +kernel⟩
    · exact ⟨0, by decide, by decide +kernel, ⟨⟨0, 1, 2⟩, by decide +kernel⟩, by decide +kernel⟩

theorem exSpec : Spec.C11 exCase exData :=
  let ⟨g, i, c⟩ := checkC11alg_sound exAlgSilent
  ⟨exSym, g, i, c⟩

/-- Non-vacuity of `checkC11_complete` / `checkC11_iff` / `checkC11_sound`: determinant, window and
specification hypotheses are simultaneously satisfiable, and the oracle is then silent.  (The symmetry
part cannot be evaluated in the kernel because its candidate hint uses `Float`; this is derived.) -/
example : checkC11 exCase exData = [] :=
  checkC11_complete (by decide +kernel) (by unfold Window; decide +kernel) exSpec

example : ∃ cs d, checkC11 cs d = [] ∧ d.ops.size = 2 ∧ cs.mc.cell.n = 2 :=
  ⟨exCase, exData, checkC11_complete (by decide +kernel) (by unfold Window; decide +kernel) exSpec, rfl, rfl⟩

/-- The index clause on the example: exactly half of the reported operations are free of time reversal. -/
example : 2 * (exData.ops.toList.filter fun o => o.tr == false).length = exData.ops.size := by decide

end Moyo.C11
