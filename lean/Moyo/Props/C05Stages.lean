import Moyo.Proofs.StdCell
/-
Stage S6 (`StandardizedCell::new`), part of C05 — theorems about the stage model
`Moyo/Model/StageStd*.lean`, which is tied to `moyo/src/symmetrize/standardize.rs` and
`moyo/src/base/transformation.rs` by the stage correspondence (`stages=["s6","s7"]` of checks/c05.py:
every generated case, all outputs reproduced; the float-only pieces are checked oracle parameters).

They give the mechanism of C05 "standardized cells are the same crystal under the reported
transformation": the unimodular step `x ↦ P⁻¹(x − p)` is an exact change of coordinates that
composes as `(P₁,p₁)(P₂,p₂)`, the step to the conventional cell enumerates each coset of
`ℤ³ / M ℤ³` exactly once per site (from C15 `supercell_cosets`), and the reported `(P·C, p)` is the
composition of the two.
-/
namespace Moyo.C05
open Moyo Moyo.StageStd

/-- `UnimodularTransformation::transform_cell` with `det P = 1`: the new coordinates `x' = P⁻¹(x − p)`
satisfy `P x' + p = x`, and the Cartesian position is unchanged up to the shift of the origin:
`(A·P) x' = A (x − p)`. -/
theorem unimodular_transform_positions (u : UTrans) (h : u.linear.det = 1) (A : QM3) (x : Q3) :
    (u.linear.applyQ (u.transformPos x)).add u.shift = x ∧
    (u.transformLattice A).apply (u.transformPos x) = A.apply (x.sub u.shift) := by
  unfold UTrans.transformPos UTrans.linv UTrans.transformLattice
  refine ⟨?_, ?_⟩
  · rw [M3.applyQ_adj_cancel _ h, Q3.sub_add_cancel]
  · rw [QM3.apply_mul, ← M3.applyQ_eq, M3.applyQ_adj_cancel _ h]

example : (⟨⟨1, 1, 0, 0, 1, 0, 0, 0, 1⟩, ⟨1 / 2, 0, 0⟩⟩ : UTrans).transformPos ⟨1, 1 / 4, 0⟩ = ⟨1 / 4, 1 / 4, 0⟩ := by
  decide +kernel

/-- Composition law of `impl Mul for UnimodularTransformation`: transforming by `(P₁,p₁)` and then by
`(P₂,p₂)` is transforming by `(P₁ P₂, P₁ p₂ + p₁)`, for positions and lattices, and the product is
again unimodular (so `UnimodularTransformation::new` does not panic on it). -/
theorem unimodular_transform_compose (u1 u2 : UTrans) (h1 : u1.linear.det = 1) (h2 : u2.linear.det = 1)
    (A : QM3) (x : Q3) :
    (u1.mul u2).transformPos x = u2.transformPos (u1.transformPos x) ∧
    (u1.mul u2).transformLattice A = u2.transformLattice (u1.transformLattice A) ∧
    (u1.mul u2).linear.det = 1 := by
  unfold UTrans.transformPos UTrans.linv UTrans.transformLattice UTrans.mul
  refine ⟨?_, ?_, ?_⟩
  · simp only
    have e : x.sub ((u1.linear.applyQ u2.shift).add u1.shift) = (x.sub u1.shift).sub (u1.linear.applyQ u2.shift) := by
      simp only [Q3.sub, Q3.add, Q3.mk.injEq]; refine ⟨?_, ?_, ?_⟩ <;> ring
    rw [M3.adj_mul_rev, M3.applyQ_mul, e, M3.applyQ_sub u1.linear.adj, M3.adj_applyQ_cancel _ h1]
  · simp only
    rw [QM3.ofM3_mul, QM3.mul_assoc]
  · simp only
    rw [M3.det_mul, h1, h2]; rfl

example :
    ((⟨⟨1, 1, 0, 0, 1, 0, 0, 0, 1⟩, ⟨1 / 2, 0, 0⟩⟩ : UTrans).mul ⟨⟨0, 1, 0, 0, 0, 1, 1, 0, 0⟩, ⟨0, 1 / 3, 0⟩⟩).shift
      = ⟨5 / 6, 1 / 3, 0⟩ := by
  decide +kernel

/-- The reported transformation `(P·C, p)` (`Transformation::new(prim.linear * conv, prim.origin_shift)`)
is the primitive transformation followed by the centering / conventional matrix: positions
`(P C)⁻¹ (x − p) = C⁻¹ (P⁻¹ (x − p))`, lattice `A (P C) = (A P) C`, and `det (P C) = det C` (the number
of primitive cells in the conventional cell). -/
theorem std_linear_def (prim : UTrans) (conv : M3) (hP : prim.linear.det = 1) (hC : conv.det ≠ 0)
    (A : QM3) (x : Q3) :
    transformPosQ (composedLinear prim conv) prim.shift x = (QM3.ofM3 conv).inv.apply (prim.transformPos x) ∧
    A.mul (QM3.ofM3 (composedLinear prim conv)) = (prim.transformLattice A).mul (QM3.ofM3 conv) ∧
    (composedLinear prim conv).det = conv.det := by
  unfold transformPosQ composedLinear UTrans.transformPos UTrans.linv UTrans.transformLattice
  have hPq : (QM3.ofM3 prim.linear).det ≠ 0 := by rw [QM3.ofM3_det, hP]; norm_num
  have hCq : (QM3.ofM3 conv).det ≠ 0 := by rw [QM3.ofM3_det]; exact_mod_cast hC
  refine ⟨?_, ?_, ?_⟩
  · rw [QM3.ofM3_mul, QM3.inv_mul_rev hPq hCq, QM3.apply_mul, QM3.inv_ofM3_of_det_one _ hP, ← M3.applyQ_eq]
  · rw [QM3.ofM3_mul, QM3.mul_assoc]
  · rw [M3.det_mul, hP, one_mul]

example : composedLinear ⟨⟨1, 1, 0, 0, 1, 0, 0, 0, 1⟩, ⟨1 / 2, 0, 0⟩⟩ Centering.C.linear = ⟨2, 0, 0, 1, 1, 0, 0, 0, 1⟩ := by
  decide +kernel

/-- What the model of `StandardizedCell::new` returns is assembled from these pieces: the reported
`transformation` is the composed one, its shift is the primitive shift, and the standardized cell and
`site_mapping` are `Transformation::transform_cell` of the symmetrised primitive cell. -/
theorem run_uses_composed (inp : Input) (r : Result) (h : run inp = .ok r) :
    r.tlinear = composedLinear r.primTrans r.convLinear ∧ r.tshift = r.primTrans.shift ∧
    r.stdPos = transformCellPos r.convLinear r.primPos ∧
    r.siteMapping = transformCellMap r.convLinear r.primPos.length ∧ 0 < r.convLinear.det := by
  unfold run at h
  split at h
  · rename_i r' hr
    cases h
    unfold runE at hr
    simp only [bind, Except.bind, pure, Except.pure, orThrow, throw, throwThe, MonadExcept.throw, MonadExceptOf.throw] at hr
    repeat' split at hr
    all_goals first
      | (cases hr; done)
      | (cases hr; exact ⟨rfl, rfl, rfl, rfl, by simp only; omega⟩)
  · cases h
  · rename_i hno _
    exact absurd h (fun e => hno r e)

/-- Non-vacuity: the model returns a result on the worked P222 input. -/
example : (match run exampleInput with
    | .ok r => r.tlinear == M3.one && r.siteMapping == [0, 1, 2, 3] && r.stdPos.length == 4
    | _ => false) = true := by
  decide +kernel

/-- `Transformation::transform_cell` for an integer matrix `M` with `det M ≠ 0` (the model
`transformCellPos` / `transformCellMap`, lattice points from the Smith normal form):
* it produces `N · |det M|` sites, and `site_mapping` has the same length;
* every input site is hit exactly `|det M|` times;
* `site_mapping` is the projection: the site with index `k` of the new cell, mapped back by `M`, is
  the input site `site_mapping[k]` plus an integer vector (same point of the crystal);
* if the input sites are pairwise distinct modulo the old lattice, the new sites are pairwise distinct
  modulo the new lattice.
(From C15 `supercell_cosets`.) -/
theorem transform_cell_complete (M : M3) (hdet : M.det ≠ 0) (pos : List Q3) :
    (transformCellPos M pos).length = pos.length * M.det.natAbs ∧
    (transformCellMap M pos.length).length = (transformCellPos M pos).length ∧
    (∀ i, i < pos.length → (transformCellMap M pos.length).count i = M.det.natAbs) ∧
    (∀ (k : Nat) (y : Q3) (i : Nat), (transformCellPos M pos)[k]? = some y → (transformCellMap M pos.length)[k]? = some i →
      ∃ x : Q3, pos[i]? = some x ∧ ∃ n : Z3, M.applyQ y = x.add (Z3.toQ3 n)) ∧
    (pos.Pairwise (fun x y => ¬ ∃ n : Z3, x.sub y = Z3.toQ3 n) →
      (transformCellPos M pos).Pairwise (fun x y => ¬ ∃ n : Z3, x.sub y = Z3.toQ3 n)) := by
  have hlen := length_latticePoints M hdet
  refine ⟨?_, ?_, ?_, ?_, ?_⟩
  · unfold transformCellPos
    simp [List.length_flatMap, hlen]
  · unfold transformCellPos transformCellMap
    simp [List.length_flatMap, hlen]
  · intro i hi
    rw [count_transformCellMap M _ i hi, hlen]
  · intro k y i hy hi
    obtain ⟨x, hx, n, _, rfl⟩ := aligned_getElem? M pos k y i hy hi
    obtain ⟨t, ht⟩ := newPosition_spec M hdet x n
    refine ⟨x, hx, n.sub (M.apply t), ?_⟩
    rw [ht]
    simp only [Q3.sub, Q3.add, Z3.toQ3, Z3.sub, Q3.mk.injEq]
    refine ⟨?_, ?_, ?_⟩ <;> push_cast <;> ring
  · intro hpos
    unfold transformCellPos
    rw [List.pairwise_flatMap]
    refine ⟨fun x _ => ?_, ?_⟩
    · rw [List.pairwise_map]
      refine (latticePoints_pairwise M hdet).imp ?_
      intro n m hnm
      rintro ⟨k, hk⟩
      obtain ⟨z, hz⟩ := newPosition_diff M hdet x x n m k hk
      apply hnm
      refine ⟨z, ?_⟩
      apply toQ3_injective
      rw [← hz]
      simp [Q3.sub, Q3.add, Z3.toQ3]
    · refine hpos.imp ?_
      intro x y hxy a ha b hb
      simp only [List.mem_map] at ha hb
      obtain ⟨n, _, rfl⟩ := ha
      obtain ⟨m, _, rfl⟩ := hb
      rintro ⟨k, hk⟩
      obtain ⟨z, hz⟩ := newPosition_diff M hdet x y n m k hk
      apply hxy
      refine ⟨(M.apply z).sub (n.sub m), ?_⟩
      generalize M.apply z = w at hz
      obtain ⟨x1, x2, x3⟩ := x
      obtain ⟨y1, y2, y3⟩ := y
      obtain ⟨w1, w2, w3⟩ := w
      simp only [Q3.sub, Q3.add, Z3.toQ3, Z3.sub, Q3.mk.injEq] at hz ⊢
      obtain ⟨hz1, hz2, hz3⟩ := hz
      push_cast at hz1 hz2 hz3
      refine ⟨?_, ?_, ?_⟩ <;> push_cast <;> linarith

/-- Non-vacuity: the C-centering matrix (det 2) on two sites distinct modulo 1 gives four sites, each
input site twice, pairwise distinct modulo 1. -/
example :
    transformCellMap Centering.C.linear 2 = [0, 0, 1, 1] ∧
    transformCellPos Centering.C.linear [⟨0, 0, 0⟩, ⟨1 / 4, 1 / 3, 1 / 5⟩] =
      [⟨0, 0, 0⟩, ⟨1 / 2, 1 / 2, 0⟩, ⟨7 / 24, 1 / 24, 1 / 5⟩, ⟨19 / 24, 13 / 24, 1 / 5⟩] := by
  decide +kernel

/-- The standardized cell returned by the model of `StandardizedCell::new` has `|det C|` sites per
site of the primitive standardized cell, each primitive site exactly `det C` times in `site_mapping`. -/
theorem std_cell_sites (inp : Input) (r : Result) (h : run inp = .ok r) :
    r.stdPos.length = r.primPos.length * r.convLinear.det.natAbs ∧
    r.siteMapping.length = r.stdPos.length ∧
    ∀ i, i < r.primPos.length → r.siteMapping.count i = r.convLinear.det.natAbs := by
  obtain ⟨_, _, h3, h4, h5⟩ := run_uses_composed inp r h
  have := transform_cell_complete r.convLinear (by omega) r.primPos
  rw [h3, h4]
  exact ⟨this.1, this.2.1, this.2.2.1⟩

example : ∃ r, run exampleInput = .ok r := by
  have h : (run exampleInput).isOk = true := by decide +kernel
  cases hr : run exampleInput with
  | ok r => exact ⟨r, rfl⟩
  | err _ _ => rw [hr] at h; cases h
  | panic _ _ => rw [hr] at h; cases h
  | mismatch _ => rw [hr] at h; cases h

end Moyo.C05
