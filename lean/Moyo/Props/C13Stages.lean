import Moyo.Proofs.MagStdReynolds
import Moyo.Proofs.MagFamily
import Moyo.Props.C06Stages
/-
Stage S6m (`StandardizedMagneticCell::new`), part of C13 — theorems about the stage model `Moyo/Model/StageMagStd.lean`
(tied to moyo/src/symmetrize/magnetic_standardize.rs by the stage correspondence `s6m` of checks/stages_magid.py: on every
generated case the model reproduces transformation, site mapping, lattices, positions and moments of the implementation).

They give the mechanism of C13 "std_mag_cell is exactly symmetric" for the moments: `symmetrize_magnetic_moments` (Reynolds
average over all magnetic operations, in the frame the Cartesian rotations are expressed in) returns moments that are
**exactly** carried onto each other by every magnetic operation, under one decidable hypothesis that the driver evaluates
on every explored case (`mhyp` segment of the `s6m` answer; the counts are in the evidence), and the rigid rotation into the
standardized frame preserves this.
-/
namespace Moyo.C13Stages
open Moyo Moyo.StageStd Moyo.S5m Moyo.S6m

/-- **Reynolds-averaged moments are exactly invariant.**  Let `mops` be the magnetic operations `(R_k, t_k, θ_k)` of the
primitive magnetic cell with lattice `A` (`det A ≠ 0`) and `perms` the site permutations paired with them.  If
`magCompat mops perms n`: the permutations are bijections of the `n` sites, the keys `(R_k, θ_k)` are pairwise distinct,
`det R_k = ±1`, and the set is closed under composition (`R_c = R_k R_l`, `θ_c = θ_k xor θ_l`) with the permutations
composing accordingly — then the output `m̄` of the model of `symmetrize_magnetic_moments` satisfies
`θ_k · (det R_k)^{[axial]} · (A R_k A⁻¹) m̄_i = m̄_{π_k(i)}` (collinear: the scalar rule), **exactly**, for every
operation and site.  No smallness hypothesis is needed (moments are not reduced modulo anything). -/
theorem reynolds_moments_exact (collinear axial : Bool) (A : QM3) (hA : A.det ≠ 0)
    (mops : List MOpQ) (perms : List (List Nat)) (mom : List Q3)
    (hc : magCompat mops perms mom.length = true) :
    ∀ k, k < mops.length → ∀ i, i < mom.length →
      actMOp collinear axial (cartRot A (mopAt mops k).rot) (mopAt mops k).tr
          ((symmetrizeMoments collinear axial (actsOf A mops) perms mom).getD i Q3.zero) =
        (symmetrizeMoments collinear axial (actsOf A mops) perms mom).getD ((permAt perms k).getD i 0) Q3.zero := by
  intro k hk i hi
  obtain ⟨hlen, _, hperm, _, _, _⟩ := magCompat_spec hc
  have hj : (permAt perms k).getD i 0 < mom.length := perm_getD_lt (hperm k hk) hi
  rw [symmetrizeMoments_getD collinear axial A hlen mom hi, symmetrizeMoments_getD collinear axial A hlen mom hj,
    actMOp_smul]
  congr 1
  exact momSum_equivariant collinear axial A hA hc hk hi

/-- Non-vacuity of `reynolds_moments_exact`: the input moments of the worked example are **not** invariant, the symmetrised
ones are (axial, non-collinear; primed twofold axes along `x` and `y`). -/
example :
    let inp := S6m.exampleInput
    let acts := actsOf inp.lat inp.mops
    inp.lat.det ≠ 0 ∧ magCompat inp.mops inp.perms inp.mom.length = true ∧
    momentsInvariant false true acts inp.perms inp.mom = false ∧
    symmetrizeMoments false true acts inp.perms inp.mom =
      [⟨1 / 4, 1 / 2, 3001 / 4000⟩, ⟨-1 / 4, -1 / 2, 3001 / 4000⟩, ⟨-1 / 4, 1 / 2, 3001 / 4000⟩, ⟨1 / 4, -1 / 2, 3001 / 4000⟩] := by
  decide +kernel

/-- The same conclusion in the form the driver evaluates (`momentsInvariant`, second number of the `mhyp` segment):
whenever the hypothesis holds on a case, the symmetrised moments are exactly invariant.  The stage check reports a broken
model if this implication ever fails at run time. -/
theorem reynolds_moments_invariant (collinear axial : Bool) (A : QM3) (hA : A.det ≠ 0)
    (mops : List MOpQ) (perms : List (List Nat)) (mom : List Q3)
    (hc : magCompat mops perms mom.length = true) :
    momentsInvariant collinear axial (actsOf A mops) perms (symmetrizeMoments collinear axial (actsOf A mops) perms mom) = true := by
  obtain ⟨hlen, _, _, _, _, _⟩ := magCompat_spec hc
  unfold momentsInvariant
  rw [List.all_eq_true]
  intro ap hap
  obtain ⟨k, hk, rfl⟩ := List.mem_iff_getElem.mp hap
  have hk' : k < mops.length := by
    simp only [List.length_zip, actsOf, List.length_map] at hk; omega
  have hkp : k < perms.length := by omega
  rw [List.all_eq_true]
  intro i hi
  have hi' : i < mom.length := by simpa [symmetrizeMoments] using hi
  have := reynolds_moments_exact collinear axial A hA mops perms mom hc k hk' i hi'
  simp only [List.getElem_zip, actsOf, List.getElem_map, beq_iff_eq]
  unfold mopAt permAt at this
  rw [getD_of_lt hk', getD_of_lt hkp] at this
  exact this

/-- Non-vacuity on the worked input (UNI 101, type III, four atoms; one moment 1e-3 off in `z`): the model of
`StandardizedMagneticCell::new` succeeds, the hypothesis `magCompat` holds, and the symmetrised moments are exactly
invariant both in the input frame and in the standardized frame; the hypotheses of `reynolds_positions` hold for the
reference group and the symmetrised positions are exactly invariant under it. -/
example : (match S6m.run S6m.exampleInput with
    | .ok r => r.hypMom && r.momInvariant && r.stdMomInvariant && r.ref.hypCompat && r.ref.hypSmall && r.ref.exactInvariant &&
        r.ctype == 3
    | _ => false) = true := by
  decide +kernel

/-- **The rotation into the standardized frame preserves the invariance.**  `StandardizedMagneticCell::new` rotates the
symmetrised moments by `Q = rotation_matrix` (`act_rotation`); the Cartesian rotation of an operation in the rotated frame is
`Q C Q⁻¹`.  If moments `m` are exactly invariant under the operations `(C_k, θ_k)` with permutations `π_k`, then the rotated
moments are exactly invariant under `(Q C_k Q⁻¹, θ_k)` — for every invertible `Q` (the f64 matrix returned by the QR step is
only approximately orthogonal; orthogonality is not needed). -/
theorem std_frame_moments (collinear axial : Bool) (Q : QM3) (hQ : Q.det ≠ 0)
    (acts : List (QM3 × Bool)) (perms : List (List Nat)) (mom : List Q3)
    (h : momentsInvariant collinear axial acts perms mom = true) :
    momentsInvariant collinear axial (acts.map fun a => ((Q.mul a.1).mul Q.inv, a.2)) perms
      (mom.map (actRot collinear axial Q)) = true := by
  unfold momentsInvariant at h ⊢
  rw [List.all_eq_true] at h ⊢
  intro ap hap
  obtain ⟨k, hk, rfl⟩ := List.mem_iff_getElem.mp hap
  have hk1 : k < acts.length := by simp only [List.length_zip, List.length_map] at hk; omega
  have hk2 : k < perms.length := by simp only [List.length_zip, List.length_map] at hk; omega
  have hk0 : k < (acts.zip perms).length := by simp only [List.length_zip]; omega
  have h0 := h (acts.zip perms)[k] (List.getElem_mem hk0)
  rw [List.all_eq_true] at h0 ⊢
  intro i hi
  have hi' : i < mom.length := by simpa using hi
  have h1 := h0 i (List.mem_range.mpr hi')
  simp only [List.getElem_zip, beq_iff_eq, List.getElem_map] at h1 ⊢
  -- `mom.map f` read with `getD`: `f 0 = 0` is not needed inside the range; outside both sides use the default
  have get_map : ∀ j, j < mom.length → (mom.map (actRot collinear axial Q)).getD j Q3.zero =
      actRot collinear axial Q (mom.getD j Q3.zero) := by
    intro j hj
    rw [getD_of_lt (by simpa using hj), getD_of_lt hj, List.getElem_map]
  rw [get_map i hi']
  -- commute the rotation with the action
  have comm : ∀ v, actMOp collinear axial ((Q.mul acts[k].1).mul Q.inv) acts[k].2 (actRot collinear axial Q v) =
      actRot collinear axial Q (actMOp collinear axial acts[k].1 acts[k].2 v) := by
    intro v
    have hr : ∀ (C : QM3) (w : Q3), actRot collinear axial C w = actMOp collinear axial C false w := by
      intro C w; simp [actMOp, actTR]
    rw [hr, hr, actMOp_eq, actMOp_eq, actMOp_eq, actMOp_eq, lin_smul, lin_smul, smul_smul, smul_smul]
    have hl : lin collinear ((Q.mul acts[k].1).mul Q.inv) (lin collinear Q v) = lin collinear Q (lin collinear acts[k].1 v) := by
      unfold lin
      cases collinear
      · simp only [Bool.false_eq_true, if_false]
        rw [← qapply_mul, ← qapply_mul, qmul_assoc, qmul_assoc, qinv_mul_self Q hQ, qmul_one]
      · simp
    rw [hl]
    congr 1
    unfold scal
    rw [conj_det Q _ hQ]
    ring
  by_cases hj : perms[k].getD i 0 < mom.length
  · rw [get_map _ hj, comm, h1]
  · -- the image index is out of range: both sides read the default `0`, and `ρ (Q 0) = Q (ρ 0)` gives `0 = 0`
    have e1 : mom.getD (perms[k].getD i 0) Q3.zero = Q3.zero := by
      rw [List.getD_eq_getElem?_getD, List.getElem?_eq_none (Nat.le_of_not_lt hj)]; rfl
    have e2 : (mom.map (actRot collinear axial Q)).getD (perms[k].getD i 0) Q3.zero = Q3.zero := by
      rw [List.getD_eq_getElem?_getD, List.getElem?_eq_none (by simpa using Nat.le_of_not_lt hj)]; rfl
    rw [e2, comm, h1, e1]
    have hr : actRot collinear axial Q Q3.zero = actMOp collinear axial Q false Q3.zero := by simp [actMOp, actTR]
    rw [hr, actMOp_zero]

/-- Non-vacuity of `std_frame_moments`: the symmetrised moments of the worked example, rotated by the (orthogonal, integral)
quarter turn about `z` and — orthogonality not being needed — by a shear, stay exactly invariant under the conjugated
operations. -/
example :
    let inp := S6m.exampleInput
    let acts := actsOf inp.lat inp.mops
    let sym := symmetrizeMoments false true acts inp.perms inp.mom
    let Q : QM3 := ⟨0, -1, 0, 1, 0, 0, 0, 0, 1⟩
    let S : QM3 := ⟨1, 1 / 3, 0, 0, 1, 0, 0, 0, 2⟩
    momentsInvariant false true acts inp.perms sym = true ∧ Q.det ≠ 0 ∧ S.det ≠ 0 ∧
    momentsInvariant false true (acts.map fun a => ((Q.mul a.1).mul Q.inv, a.2)) inp.perms (sym.map (actRot false true Q)) = true ∧
    momentsInvariant false true (acts.map fun a => ((S.mul a.1).mul S.inv, a.2)) inp.perms (sym.map (actRot false true S)) = true := by
  decide +kernel

/-! ### reference operations -/

/-- **The reference group is taken from the magnetic operations.**  Every operation that
`reference_symmetry_operations_and_permutations` hands to `StandardizedCell::new` is the space-group part of one of the
magnetic operations; for type IV it is the part of an operation **without** time reversal (XSG). -/
theorem reference_ops_sound (mops : List MOpQ) (perms : List (List Nat)) (ctype : Nat) (msp : Rat) :
    ∀ o ∈ (referenceOpsPerms mops perms ctype msp).1, ∃ m ∈ mops, m.op = o ∧ (ctype = 4 → m.tr = false) := by
  intro o ho
  unfold referenceOpsPerms at ho
  split at ho
  · rename_i h4
    simp only [xsg, List.mem_map, List.mem_filter] at ho
    obtain ⟨m, ⟨hm, htr⟩, rfl⟩ := ho
    exact ⟨m, hm, rfl, fun _ => by simpa using htr⟩
  · rename_i h4
    have := family_ops_sub mops msp o ho
    obtain ⟨m, hm, he⟩ := this
    exact ⟨m, hm, he, fun h => absurd h h4⟩

/-- Non-vacuity: for the type-IV group `P 1 1c'`-like list `{1, 1'·t}` the reference group is `{1}`; for the type-III list
`{1, -1'}` it is `{1, -1}`. -/
example :
    (referenceOpsPerms [⟨M3.one, Q3.zero, false⟩, ⟨M3.one, ⟨0, 0, 1 / 2⟩, true⟩] [[0, 1], [1, 0]] 4 (1 / 100)).2 = [[0, 1]] ∧
    (referenceOpsPerms [⟨M3.one, Q3.zero, false⟩, ⟨M3.one.neg, Q3.zero, true⟩] [[0, 1], [1, 0]] 3 (1 / 100)).2 = [[0, 1], [1, 0]] := by
  decide +kernel

/- Full statement of position invariance (NOT proved): the positions of `std_mag_cell` are carried onto each other, modulo
lattice translations, by EVERY magnetic operation transformed into the standardized cell.
Proved (`C06.reynolds_positions`, `C06.conv_cell_invariant` applied to the reference cell, whose hypotheses the driver
evaluates on every `s6m` case: `hyp` segment): exact invariance under the tabulated operations of the **reference** space
group — the family group for types I–III (then every magnetic operation is covered, time reversal does not act on
positions) and the unprimed subgroup XSG for type IV.  Missing for type IV: the anti-translation coset.  The
implementation does not symmetrise over it (`reference_symmetry_operations_and_permutations` drops the primed operations),
so exact invariance under anti-translations holds only as far as the input positions already have it. -/

/-- **Position invariance under the reference group (partial, see above).**  For the reference operations `ops` (tabulated
primitive operations of the reference Hall number) with the re-ordered permutations, under the two decidable hypotheses of
`C06.reynolds_positions`, the positions of the primitive standardized magnetic cell — the output of `symmetrize_positions`
inside the reference `StandardizedCell::new` — are exactly invariant. -/
theorem mag_positions_invariant_partial (ops : List OpQ) (perms : List (List Nat)) (pos : List Q3)
    (hc : compatAction ops perms pos.length = true) (hs : smallDisp ops perms pos = true) :
    exactlyInvariant ops perms (symmetrizePositions ops perms pos) = true :=
  C06.reynolds_exactly_invariant ops perms pos hc hs

example :
    let ops : List OpQ := [⟨M3.one, Q3.zero⟩, ⟨⟨-1, 0, 0, 0, -1, 0, 0, 0, 1⟩, Q3.zero⟩]
    let perms : List (List Nat) := [[0, 1], [1, 0]]
    let pos : List Q3 := [⟨1 / 10, 1 / 5, 3 / 10⟩, ⟨-1 / 10, -1 / 5, 301 / 1000⟩]
    compatAction ops perms 2 = true ∧ smallDisp ops perms pos = true ∧ exactlyInvariant ops perms pos = false := by
  decide +kernel

end Moyo.C13Stages
