import Moyo.Proofs.MagStdReynolds
import Moyo.Proofs.MagStdAnti
import Moyo.Proofs.MagFamily
import Moyo.Props.C06Stages
/-
Stage S6m (`StandardizedMagneticCell::new`), part of C13 — theorems about the stage model `Moyo/Model/StageMagStd.lean`
(tied to moyo/src/symmetrize/magnetic_standardize.rs by the stage correspondence `s6m` of checks/stages_magid.py: on every
generated case the model reproduces transformation, site mapping, lattices, positions and moments of the implementation).

They give the mechanism of C13 "std_mag_cell is exactly symmetric" for the moments: `symmetrize_magnetic_moments` (Reynolds
average over all magnetic operations, in the frame the Cartesian rotations are expressed in) returns moments that are
**exactly** carried onto each other by every magnetic operation, under one decidable hypothesis that the driver evaluates
on every explored case (`mhyp` segment of the `s6m` answer; the counts are in the evidence), and the rigid rotation into the
standardized frame preserves this.
-/
namespace Moyo.C13Stages
open Moyo Moyo.StageStd Moyo.S5m Moyo.S6m

/-- **Reynolds-averaged moments are exactly invariant.**  Let `mops` be the magnetic operations `(R_k, t_k, θ_k)` of the
primitive magnetic cell with lattice `A` (`det A ≠ 0`) and `perms` the site permutations paired with them.  If
`magCompat mops perms n`: the permutations are bijections of the `n` sites, the keys `(R_k, θ_k)` are pairwise distinct,
`det R_k = ±1`, and the set is closed under composition (`R_c = R_k R_l`, `θ_c = θ_k xor θ_l`) with the permutations
composing accordingly — then the output `m̄` of the model of `symmetrize_magnetic_moments` satisfies
`θ_k · (det R_k)^{[axial]} · (A R_k A⁻¹) m̄_i = m̄_{π_k(i)}` (collinear: the scalar rule), **exactly**, for every
operation and site.  No smallness hypothesis is needed (moments are not reduced modulo anything). -/
theorem reynolds_moments_exact (collinear axial : Bool) (A : QM3) (hA : A.det ≠ 0)
    (mops : List MOpQ) (perms : List (List Nat)) (mom : List Q3)
    (hc : magCompat mops perms mom.length = true) :
    ∀ k, k < mops.length → ∀ i, i < mom.length →
      actMOp collinear axial (cartRot A (mopAt mops k).rot) (mopAt mops k).tr
          ((symmetrizeMoments collinear axial (actsOf A mops) perms mom).getD i Q3.zero) =
        (symmetrizeMoments collinear axial (actsOf A mops) perms mom).getD ((permAt perms k).getD i 0) Q3.zero := by
  intro k hk i hi
  obtain ⟨hlen, _, hperm, _, _, _⟩ := magCompat_spec hc
  have hj : (permAt perms k).getD i 0 < mom.length := perm_getD_lt (hperm k hk) hi
  rw [symmetrizeMoments_getD collinear axial A hlen mom hi, symmetrizeMoments_getD collinear axial A hlen mom hj,
    actMOp_smul]
  congr 1
  exact momSum_equivariant collinear axial A hA hc hk hi

/-- Non-vacuity of `reynolds_moments_exact`: the input moments of the worked example are **not** invariant, the symmetrised
ones are (axial, non-collinear; primed twofold axes along `x` and `y`). -/
example :
    let inp := S6m.exampleInput
    let acts := actsOf inp.lat inp.mops
    inp.lat.det ≠ 0 ∧ magCompat inp.mops inp.perms inp.mom.length = true ∧
    momentsInvariant false true acts inp.perms inp.mom = false ∧
    symmetrizeMoments false true acts inp.perms inp.mom =
      [⟨1 / 4, 1 / 2, 3001 / 4000⟩, ⟨-1 / 4, -1 / 2, 3001 / 4000⟩, ⟨-1 / 4, 1 / 2, 3001 / 4000⟩, ⟨1 / 4, -1 / 2, 3001 / 4000⟩] := by
  decide +kernel

/-- The same conclusion in the form the driver evaluates (`momentsInvariant`, second number of the `mhyp` segment):
whenever the hypothesis holds on a case, the symmetrised moments are exactly invariant.  The stage check reports a broken
model if this implication ever fails at run time. -/
theorem reynolds_moments_invariant (collinear axial : Bool) (A : QM3) (hA : A.det ≠ 0)
    (mops : List MOpQ) (perms : List (List Nat)) (mom : List Q3)
    (hc : magCompat mops perms mom.length = true) :
    momentsInvariant collinear axial (actsOf A mops) perms (symmetrizeMoments collinear axial (actsOf A mops) perms mom) = true := by
  obtain ⟨hlen, _, _, _, _, _⟩ := magCompat_spec hc
  unfold momentsInvariant
  rw [List.all_eq_true]
  intro ap hap
  obtain ⟨k, hk, rfl⟩ := List.mem_iff_getElem.mp hap
  have hk' : k < mops.length := by
    simp only [List.length_zip, actsOf, List.length_map] at hk; omega
  have hkp : k < perms.length := by omega
  rw [List.all_eq_true]
  intro i hi
  have hi' : i < mom.length := by simpa [symmetrizeMoments] using hi
  have := reynolds_moments_exact collinear axial A hA mops perms mom hc k hk' i hi'
  simp only [List.getElem_zip, actsOf, List.getElem_map, beq_iff_eq]
  unfold mopAt permAt at this
  rw [getD_of_lt hk', getD_of_lt hkp] at this
  exact this

/-- Non-vacuity on the worked input (UNI 101, type III, four atoms; one moment 1e-3 off in `z`): the model of
`StandardizedMagneticCell::new` succeeds, the hypothesis `magCompat` holds, and the symmetrised moments are exactly
invariant both in the input frame and in the standardized frame; the hypotheses of `reynolds_positions` hold for the
reference group and the symmetrised positions are exactly invariant under it. -/
example : (match S6m.run S6m.exampleInput with
    | .ok r => r.hypMom && r.momInvariant && r.stdMomInvariant && r.ref.hypCompat && r.ref.hypSmall && r.ref.exactInvariant &&
        r.ctype == 3
    | _ => false) = true := by
  decide +kernel

/-- **The rotation into the standardized frame preserves the invariance.**  `StandardizedMagneticCell::new` rotates the
symmetrised moments by `Q = rotation_matrix` (`act_rotation`); the Cartesian rotation of an operation in the rotated frame is
`Q C Q⁻¹`.  If moments `m` are exactly invariant under the operations `(C_k, θ_k)` with permutations `π_k`, then the rotated
moments are exactly invariant under `(Q C_k Q⁻¹, θ_k)` — for every invertible `Q` (the f64 matrix returned by the QR step is
only approximately orthogonal; orthogonality is not needed). -/
theorem std_frame_moments (collinear axial : Bool) (Q : QM3) (hQ : Q.det ≠ 0)
    (acts : List (QM3 × Bool)) (perms : List (List Nat)) (mom : List Q3)
    (h : momentsInvariant collinear axial acts perms mom = true) :
    momentsInvariant collinear axial (acts.map fun a => ((Q.mul a.1).mul Q.inv, a.2)) perms
      (mom.map (actRot collinear axial Q)) = true := by
  unfold momentsInvariant at h ⊢
  rw [List.all_eq_true] at h ⊢
  intro ap hap
  obtain ⟨k, hk, rfl⟩ := List.mem_iff_getElem.mp hap
  have hk1 : k < acts.length := by simp only [List.length_zip, List.length_map] at hk; omega
  have hk2 : k < perms.length := by simp only [List.length_zip, List.length_map] at hk; omega
  have hk0 : k < (acts.zip perms).length := by simp only [List.length_zip]; omega
  have h0 := h (acts.zip perms)[k] (List.getElem_mem hk0)
  rw [List.all_eq_true] at h0 ⊢
  intro i hi
  have hi' : i < mom.length := by simpa using hi
  have h1 := h0 i (List.mem_range.mpr hi')
  simp only [List.getElem_zip, beq_iff_eq, List.getElem_map] at h1 ⊢
  -- `mom.map f` read with `getD`: `f 0 = 0` is not needed inside the range; outside both sides use the default
  have get_map : ∀ j, j < mom.length → (mom.map (actRot collinear axial Q)).getD j Q3.zero =
      actRot collinear axial Q (mom.getD j Q3.zero) := by
    intro j hj
    rw [getD_of_lt (by simpa using hj), getD_of_lt hj, List.getElem_map]
  rw [get_map i hi']
  -- commute the rotation with the action
  have comm : ∀ v, actMOp collinear axial ((Q.mul acts[k].1).mul Q.inv) acts[k].2 (actRot collinear axial Q v) =
      actRot collinear axial Q (actMOp collinear axial acts[k].1 acts[k].2 v) := by
    intro v
    have hr : ∀ (C : QM3) (w : Q3), actRot collinear axial C w = actMOp collinear axial C false w := by
      intro C w; simp [actMOp, actTR]
    rw [hr, hr, actMOp_eq, actMOp_eq, actMOp_eq, actMOp_eq, lin_smul, lin_smul, smul_smul, smul_smul]
    have hl : lin collinear ((Q.mul acts[k].1).mul Q.inv) (lin collinear Q v) = lin collinear Q (lin collinear acts[k].1 v) := by
      unfold lin
      cases collinear
      · simp only [Bool.false_eq_true, if_false]
        rw [← qapply_mul, ← qapply_mul, qmul_assoc, qmul_assoc, qinv_mul_self Q hQ, qmul_one]
      · simp
    rw [hl]
    congr 1
    unfold scal
    rw [conj_det Q _ hQ]
    ring
  by_cases hj : perms[k].getD i 0 < mom.length
  · rw [get_map _ hj, comm, h1]
  · -- the image index is out of range: both sides read the default `0`, and `ρ (Q 0) = Q (ρ 0)` gives `0 = 0`
    have e1 : mom.getD (perms[k].getD i 0) Q3.zero = Q3.zero := by
      rw [List.getD_eq_getElem?_getD, List.getElem?_eq_none (Nat.le_of_not_lt hj)]; rfl
    have e2 : (mom.map (actRot collinear axial Q)).getD (perms[k].getD i 0) Q3.zero = Q3.zero := by
      rw [List.getD_eq_getElem?_getD, List.getElem?_eq_none (by simpa using Nat.le_of_not_lt hj)]; rfl
    rw [e2, comm, h1, e1]
    have hr : actRot collinear axial Q Q3.zero = actMOp collinear axial Q false Q3.zero := by simp [actMOp, actTR]
    rw [hr, actMOp_zero]

/-- Non-vacuity of `std_frame_moments`: the symmetrised moments of the worked example, rotated by the (orthogonal, integral)
quarter turn about `z` and — orthogonality not being needed — by a shear, stay exactly invariant under the conjugated
operations. -/
example :
    let inp := S6m.exampleInput
    let acts := actsOf inp.lat inp.mops
    let sym := symmetrizeMoments false true acts inp.perms inp.mom
    let Q : QM3 := ⟨0, -1, 0, 1, 0, 0, 0, 0, 1⟩
    let S : QM3 := ⟨1, 1 / 3, 0, 0, 1, 0, 0, 0, 2⟩
    momentsInvariant false true acts inp.perms sym = true ∧ Q.det ≠ 0 ∧ S.det ≠ 0 ∧
    momentsInvariant false true (acts.map fun a => ((Q.mul a.1).mul Q.inv, a.2)) inp.perms (sym.map (actRot false true Q)) = true ∧
    momentsInvariant false true (acts.map fun a => ((S.mul a.1).mul S.inv, a.2)) inp.perms (sym.map (actRot false true S)) = true := by
  decide +kernel

/-! ### reference operations -/

/-- **The reference group is taken from the magnetic operations.**  Every operation that
`reference_symmetry_operations_and_permutations` hands to `StandardizedCell::new` is the space-group part of one of the
magnetic operations; for type IV it is the part of an operation **without** time reversal (XSG). -/
theorem reference_ops_sound (mops : List MOpQ) (perms : List (List Nat)) (ctype : Nat) (msp : Rat) :
    ∀ o ∈ (referenceOpsPerms mops perms ctype msp).1, ∃ m ∈ mops, m.op = o ∧ (ctype = 4 → m.tr = false) := by
  intro o ho
  unfold referenceOpsPerms at ho
  split at ho
  · rename_i h4
    simp only [xsg, List.mem_map, List.mem_filter] at ho
    obtain ⟨m, ⟨hm, htr⟩, rfl⟩ := ho
    exact ⟨m, hm, rfl, fun _ => by simpa using htr⟩
  · rename_i h4
    have := family_ops_sub mops msp o ho
    obtain ⟨m, hm, he⟩ := this
    exact ⟨m, hm, he, fun h => absurd h h4⟩

/-- Non-vacuity: for the type-IV group `P 1 1c'`-like list `{1, 1'·t}` the reference group is `{1}`; for the type-III list
`{1, -1'}` it is `{1, -1}`. -/
example :
    (referenceOpsPerms [⟨M3.one, Q3.zero, false⟩, ⟨M3.one, ⟨0, 0, 1 / 2⟩, true⟩] [[0, 1], [1, 0]] 4 (1 / 100)).2 = [[0, 1]] ∧
    (referenceOpsPerms [⟨M3.one, Q3.zero, false⟩, ⟨M3.one.neg, Q3.zero, true⟩] [[0, 1], [1, 0]] 3 (1 / 100)).2 = [[0, 1], [1, 0]] := by
  decide +kernel

/-- **Positions of the standardized primitive magnetic cell are exactly invariant under the whole magnetic group
(`mag_positions_invariant`, full statement; types I–III are the case without anti-translation, see below).**
Model of the position pipeline of `StandardizedMagneticCell::new` for a type-IV group (after the repair 1c2f2a9): the
positions `pos` of the primitive magnetic cell are averaged over the anti-translation `(1, t)'` with site permutation `p`
(`antiAverageWith`), carried into the primitive standardized setting by the unimodular `u = (P, p₀)`
(`x ↦ P⁻¹ (x − p₀)`), and Reynolds-averaged over the tabulated operations `ops` of the reference group (= XSG) with the
re-ordered permutations `perms` (`symmetrize_positions`).  Hypotheses, all decidable and evaluated by the driver on every
type-IV case (`hyp`, `ahyp` segments of the `s6m` answer):
* `antiHyp t p pos`: `p` is an involutive bijection of the sites and the two wrapped displacements of every pair `i, p(i)`
  add up to less than `1/2` per component;
* `compatAction ops perms n`, `smallDisp ops perms ·`: the hypotheses of `C06.reynolds_positions` for the reference group;
* `translationCommutes ops perms s p n` for `s = P⁻¹ · round(2t)/2`, the ideal anti-translation in the standardized
  setting: `(R − 1) s ∈ ℤ³` and `π_R ∘ p = p ∘ π_R` for every operation.
Conclusion: the resulting positions `x̄` satisfy, **exactly**,
* `R x̄_i + τ = x̄_{π(i)} + n` for every tabulated operation `(R, τ)` of the reference group (`exactlyInvariant`), and
* `x̄_{p(i)} = x̄_i + s + n` for the anti-translation (`translationInvariant`),
hence (third clause) `R x̄_i + τ + s = x̄_{p(π(i))} + n` for every element `(R, τ + s)'` of the anti-translation coset:
every magnetic operation of the group generated by the reference operations and the ideal anti-translation maps the
positions onto themselves modulo lattice translations. -/
theorem mag_positions_invariant (t : Q3) (p : List Nat) (pos : List Q3) (u : UTrans) (ops : List OpQ) (perms : List (List Nat))
    (ha : antiHyp t p pos = true)
    (hc : compatAction ops perms pos.length = true)
    (hs : smallDisp ops perms ((antiAverageWith t p pos).map u.transformPos) = true)
    (hq : translationCommutes ops perms (u.linv.applyQ (idealHalf t)) p pos.length = true) :
    let fin := symmetrizePositions ops perms ((antiAverageWith t p pos).map u.transformPos)
    let s := u.linv.applyQ (idealHalf t)
    exactlyInvariant ops perms fin = true ∧ translationInvariant s p fin = true ∧
    ∀ k, k < ops.length → ∀ i, i < pos.length → ∃ n : Z3,
      (((opAt ops k).rot.applyQ (fin.getD i Q3.zero)).add (opAt ops k).trans).add s =
        (fin.getD (p.getD ((permAt perms k).getD i 0) 0) Q3.zero).add (Z3.toQ3 n) := by
  intro fin s
  have hlen : ((antiAverageWith t p pos).map u.transformPos).length = pos.length := by
    simp [antiAverageWith_length]
  have hc' : compatAction ops perms ((antiAverageWith t p pos).map u.transformPos).length = true := by rw [hlen]; exact hc
  have hq' : translationCommutes ops perms s p ((antiAverageWith t p pos).map u.transformPos).length = true := by
    rw [hlen]; exact hq
  have hp : isPerm (antiAverageWith t p pos).length p = true := by
    rw [antiAverageWith_length]; exact (antiHyp_spec ha).1
  have h1 := anti_average_invariant t p pos ha
  have h2 := transformPos_invariant u (idealHalf t) p _ hp h1
  have h3 : translationInvariant s p fin = true := reynolds_commuting_translation hc' hs hq' h2
  have h4 : exactlyInvariant ops perms fin = true := C06.reynolds_exactly_invariant ops perms _ hc' hs
  refine ⟨h4, h3, ?_⟩
  intro k hk i hi
  have hfl : fin.length = pos.length := by simp [fin, symmetrizePositions, antiAverageWith_length]
  obtain ⟨hlen2, _, hperm, _, _, _⟩ := compat_spec hc
  have hj : (permAt perms k).getD i 0 < pos.length := perm_getD_lt (hperm k hk) hi
  -- clause 1 at (k, i)
  unfold exactlyInvariant at h4
  rw [List.all_eq_true] at h4
  have hk' : k < (ops.zip perms).length := by simp only [List.length_zip]; omega
  have e1 := h4 (ops.zip perms)[k] (List.getElem_mem hk')
  rw [List.all_eq_true] at e1
  have e1' := e1 i (List.mem_range.mpr (by rw [hfl]; exact hi))
  rw [isInt3_iff] at e1'
  obtain ⟨z1, hz1⟩ := e1'
  simp only [List.getElem_zip] at hz1
  -- clause 2 at π_k i
  obtain ⟨z2, hz2⟩ := (translationInvariant_iff.mp h3) ((permAt perms k).getD i 0) (by rw [hfl]; exact hj)
  refine ⟨z1.sub z2, ?_⟩
  unfold permAt at hz2
  unfold opAt permAt
  rw [getD_of_lt (by omega : k < perms.length)] at hz2
  rw [getD_of_lt hk, getD_of_lt (by omega : k < perms.length)]
  generalize (ops[k].rot.applyQ (fin.getD i Q3.zero)).add ops[k].trans = a at hz1 ⊢
  generalize fin.getD (perms[k].getD i 0) Q3.zero = b at hz1 hz2 ⊢
  generalize fin.getD (p.getD (perms[k].getD i 0) 0) Q3.zero = c at hz2 ⊢
  obtain ⟨a1, a2, a3⟩ := a
  obtain ⟨b1, b2, b3⟩ := b
  obtain ⟨c1, c2, c3⟩ := c
  obtain ⟨s1, s2, s3⟩ := s
  obtain ⟨n1, n2, n3⟩ := z1
  obtain ⟨m1, m2, m3⟩ := z2
  simp only [Q3.add, Q3.sub, Z3.toQ3, Z3.sub, Q3.mk.injEq] at hz1 hz2 ⊢
  obtain ⟨x1, x2, x3⟩ := hz1
  obtain ⟨y1, y2, y3⟩ := hz2
  refine ⟨?_, ?_, ?_⟩ <;> push_cast <;> linarith

/-- Non-vacuity with a type-IV instance (UNI 102 `P 2 2 1a'`, eight atoms, three coordinates off by 1e-3 / 5e-4): the model of
`StandardizedMagneticCell::new` succeeds with construct type 4; the input positions are **not** invariant under the
anti-translation `a/2`; all hypotheses of `mag_positions_invariant` hold (as evaluated by the driver) and the positions of
the standardized primitive cell are exactly invariant under the reference group and under the anti-translation; the
moments are exactly invariant as well. -/
example :
    translationInvariant (idealHalf ⟨1 / 2, 0, 0⟩) [4, 5, 6, 7, 0, 1, 2, 3] S6m.exampleInput4.pos = false ∧
    (match S6m.run S6m.exampleInput4 with
      | .ok r => r.ctype == 4 && r.hypAnti && r.antiInvariant && r.ref.hypCompat && r.ref.hypSmall && r.ref.exactInvariant &&
          r.hypMom && r.momInvariant && r.stdMomInvariant
      | _ => false) = true := by
  decide +kernel

/-- The hypotheses of `mag_positions_invariant` spelled out on the same instance (anti-translation `(1, a/2)'` with the site
permutation `i ↦ i ± 4`, identity setting, the four tabulated operations of `P 2 2`). -/
example :
    let inp := S6m.exampleInput4
    let t : Q3 := ⟨1 / 2, 0, 0⟩
    let p := [4, 5, 6, 7, 0, 1, 2, 3]
    let u : UTrans := ⟨M3.one, Q3.zero⟩
    let ops : List OpQ := [⟨M3.one, Q3.zero⟩, ⟨⟨-1, 0, 0, 0, -1, 0, 0, 0, 1⟩, Q3.zero⟩, ⟨⟨1, 0, 0, 0, -1, 0, 0, 0, -1⟩, Q3.zero⟩,
      ⟨⟨-1, 0, 0, 0, 1, 0, 0, 0, -1⟩, Q3.zero⟩]
    let perms := inp.perms.take 4
    (findAnti inp.mops inp.perms).map (fun r => (r.1.rot, r.1.trans, r.1.tr, r.2)) = some (M3.one, t, true, p) ∧
    antiHyp t p inp.pos = true ∧
    compatAction ops perms inp.pos.length = true ∧
    smallDisp ops perms ((antiAverageWith t p inp.pos).map u.transformPos) = true ∧
    translationCommutes ops perms (u.linv.applyQ (idealHalf t)) p inp.pos.length = true := by
  decide +kernel

/-- **Types I–III** (no anti-translation; the reference group is the family group, which contains the space-group part of
every magnetic operation — `reference_ops_sound` — and time reversal does not act on positions): exact invariance under the
tabulated operations of the reference group is `C06.reynolds_exactly_invariant`, restated here for the positions of the
magnetic standardization. -/
theorem mag_positions_invariant_reference (ops : List OpQ) (perms : List (List Nat)) (pos : List Q3)
    (hc : compatAction ops perms pos.length = true) (hs : smallDisp ops perms pos = true) :
    exactlyInvariant ops perms (symmetrizePositions ops perms pos) = true :=
  C06.reynolds_exactly_invariant ops perms pos hc hs

example :
    let ops : List OpQ := [⟨M3.one, Q3.zero⟩, ⟨⟨-1, 0, 0, 0, -1, 0, 0, 0, 1⟩, Q3.zero⟩]
    let perms : List (List Nat) := [[0, 1], [1, 0]]
    let pos : List Q3 := [⟨1 / 10, 1 / 5, 3 / 10⟩, ⟨-1 / 10, -1 / 5, 301 / 1000⟩]
    compatAction ops perms 2 = true ∧ smallDisp ops perms pos = true ∧ exactlyInvariant ops perms pos = false := by
  decide +kernel

/- What `mag_positions_invariant` does not say: the anti-translation under which the positions are exactly invariant is the
*ideal* one, `round(2t)/2` — the translation `t` found by the symmetry search on a slightly distorted structure differs
from it by the distortion.  The reported magnetic operations carry the found translations; C13 judges them with its
numerical tolerance (the verified oracle), the exact statement is about the ideal group. -/

end Moyo.C13Stages
