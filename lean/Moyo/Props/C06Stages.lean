import Moyo.Proofs.StdReynolds
/-
Stage S6 (`StandardizedCell::new`), part of C06 — theorems about the stage model
`Moyo/Model/StageStd*.lean` (tied to moyo/src/symmetrize/standardize.rs by the stage correspondence
`stages=["s6","s7"]` of checks/c06.py).

They give the mechanism of C06 "the standardized cell is exactly symmetric": `symmetrize_positions`
(Reynolds average of the wrapped displacements) returns positions that are **exactly** mapped onto
each other by the tabulated operations, under two decidable hypotheses that the driver evaluates on
every explored case (`hyp` segment of the `s6` answer; the counts are in the evidence).
-/
namespace Moyo.C06
open Moyo Moyo.StageStd

/-- Let `ops` be the tabulated primitive operations (exact rationals) and `perms` the permutations
paired with them.  If
* `compatAction ops perms n`: the permutations are bijections of the `n` sites, the rotations are
  pairwise distinct and invertible, and the set is closed under composition modulo lattice
  translations with the permutations composing accordingly, and
* `smallDisp ops perms pos`: every wrapped displacement has all components of absolute value `< 1/4`
  and its image under every rotation of the group has all components `< 1/2` (no ambiguity in `- round`),
then the output of the model of `symmetrize_positions` satisfies `g · x̄_i = x̄_{π_g(i)} + n` with an
integer vector `n`, **exactly**, for every operation `g` and site `i`. -/
theorem reynolds_positions (ops : List OpQ) (perms : List (List Nat)) (pos : List Q3)
    (hc : compatAction ops perms pos.length = true) (hs : smallDisp ops perms pos = true) :
    ∀ k, k < ops.length → ∀ i, i < pos.length →
      ∃ n : Z3,
        ((opAt ops k).rot.applyQ ((symmetrizePositions ops perms pos).getD i Q3.zero)).add (opAt ops k).trans =
          ((symmetrizePositions ops perms pos).getD ((permAt perms k).getD i 0) Q3.zero).add (Z3.toQ3 n) := by
  intro k hk i hi
  have hj : (permAt perms k).getD i 0 < pos.length :=
    perm_getD_lt ((compat_spec hc).2.2.1 k hk) hi
  have e : ∀ a, a < pos.length → (symmetrizePositions ops perms pos).getD a Q3.zero = symmetrizeOne ops perms pos a := by
    intro a ha
    unfold symmetrizePositions
    rw [getD_of_lt (by simpa using ha)]
    simp
  rw [e i hi, e _ hj]
  exact ⟨_, reynolds_core hc hs hk hi⟩

/-- The same conclusion in the form the driver evaluates (`exactlyInvariant`, third number of the
`hyp` segment): whenever both hypotheses hold on a case, the symmetrised positions are exactly
invariant.  The stage check reports a broken model if this implication ever fails at run time. -/
theorem reynolds_exactly_invariant (ops : List OpQ) (perms : List (List Nat)) (pos : List Q3)
    (hc : compatAction ops perms pos.length = true) (hs : smallDisp ops perms pos = true) :
    exactlyInvariant ops perms (symmetrizePositions ops perms pos) = true := by
  have hlen := (compat_spec hc).1
  unfold exactlyInvariant
  rw [List.all_eq_true]
  intro op hop
  obtain ⟨k, hk, rfl⟩ := List.mem_iff_getElem.mp hop
  have hk' : k < ops.length := by
    simp only [List.length_zip] at hk; omega
  rw [List.all_eq_true]
  intro i hi
  have hi' : i < pos.length := by
    simpa [symmetrizePositions] using hi
  obtain ⟨n, hn⟩ := reynolds_positions ops perms pos hc hs k hk' i hi'
  rw [isInt3_iff]
  refine ⟨n, ?_⟩
  simp only [List.getElem_zip]
  unfold opAt permAt at hn
  have hkp : k < perms.length := by omega
  rw [getD_of_lt hk', getD_of_lt hkp] at hn
  rw [hn, Q3.add_comm, Q3.add_sub_cancel]

/-- Non-vacuity: on the worked P222 input (four atoms, one of them 1e-3 off in `z`, another 1e-3 off
in `y`) both hypotheses hold for the tabulated operations with the re-ordered permutations, the input
positions are **not** invariant, and the symmetrised ones are. -/
example : (match run exampleInput with
    | .ok r => r.hypCompat && r.hypSmall && r.exactInvariant
    | _ => false) = true := by
  decide +kernel

example :
    let ops : List OpQ := [⟨M3.one, Q3.zero⟩, ⟨⟨-1, 0, 0, 0, -1, 0, 0, 0, 1⟩, Q3.zero⟩]
    let perms : List (List Nat) := [[0, 1], [1, 0]]
    let pos : List Q3 := [⟨1 / 10, 1 / 5, 3 / 10⟩, ⟨-1 / 10, -1 / 5, 301 / 1000⟩]
    compatAction ops perms 2 = true ∧ smallDisp ops perms pos = true ∧ exactlyInvariant ops perms pos = false ∧
      symmetrizePositions ops perms pos = [⟨1 / 10, 1 / 5, 601 / 2000⟩, ⟨-1 / 10, -1 / 5, 601 / 2000⟩] := by
  decide +kernel

/-- `centering_tables`: for the seven centerings, `det(linear) = order`, and the lattice points that
`Transformation::transform_cell` enumerates through the Smith normal form of `linear`, reduced modulo
1 in the conventional basis, are exactly the tabulated `lattice_points` (as sets; for `F` the order
differs). -/
theorem centering_tables :
    ∀ c ∈ [Centering.P, Centering.A, Centering.B, Centering.C, Centering.I, Centering.R, Centering.F],
      c.linear.det = (c.order : Int) ∧
      (latticePoints c.linear).length = c.order ∧ c.latticePoints.length = c.order ∧
      (∀ n ∈ latticePoints c.linear, (newPosition c.linear Q3.zero n).frac ∈ c.latticePoints.map twelfths) ∧
      (∀ t ∈ c.latticePoints, twelfths t ∈ (latticePoints c.linear).map fun n => (newPosition c.linear Q3.zero n).frac) := by
  decide +kernel

/-- `conv_cell_invariant`: let `pos` be the sites of the primitive standardized cell and `C` the integer
matrix to the conventional cell (`det C ≠ 0`).  If a primitive operation `(R, t)` with site permutation
`π` maps every site onto its image exactly (modulo `ℤ³`), then the conventional operation `(W, w)` with
`C W = R C`, `C w = t` maps every site of the conventional cell built by `Transformation::transform_cell`
onto a site of that cell whose `site_mapping` entry is `π` of the original one, exactly modulo `ℤ³`.
Centering translations are the case `W = R = 1`, `t = C w ∈ ℤ³`, `π = id` (see the corollary below). -/
theorem conv_cell_invariant (C : M3) (hC : C.det ≠ 0) (pos : List Q3) (W R : M3) (w t : Q3) (π : Nat → Nat)
    (hconj : C.mul W = R.mul C) (htr : C.applyQ w = t)
    (hinv : ∀ (i : Nat) (x : Q3), pos[i]? = some x →
      ∃ x' : Q3, pos[π i]? = some x' ∧ ∃ n : Z3, (R.applyQ x).add t = x'.add (Z3.toQ3 n)) :
    ∀ (k : Nat) (s : Q3) (i : Nat), (transformCellPos C pos)[k]? = some s → (transformCellMap C pos.length)[k]? = some i →
      ∃ (k' : Nat) (s' : Q3), (transformCellPos C pos)[k']? = some s' ∧
        (transformCellMap C pos.length)[k']? = some (π i) ∧ ∃ n : Z3, (W.applyQ s).add w = s'.add (Z3.toQ3 n) := by
  intro k s i hs hi
  obtain ⟨x, hx, n, _, rfl⟩ := aligned_getElem? C pos k s i hs hi
  obtain ⟨τ, hτ⟩ := newPosition_spec C hC x n
  obtain ⟨x', hx', z, hz⟩ := hinv i x hx
  obtain ⟨n', hn', u, hu⟩ := latticePoints_cover C hC (z.add (R.apply n))
  obtain ⟨k', hk1, hk2⟩ := exists_site C pos (π i) x' hx' n' hn'
  obtain ⟨τ', hτ'⟩ := newPosition_spec C hC x' n'
  refine ⟨k', _, hk1, hk2, (u.sub (W.apply τ)).add τ', ?_⟩
  -- compare after applying `C`, which is injective
  have hq : (QM3.ofM3 C).det ≠ 0 := by rw [QM3.ofM3_det]; exact_mod_cast hC
  have key : C.applyQ ((W.applyQ (newPosition C x n)).add w) =
      C.applyQ ((newPosition C x' n').add (Z3.toQ3 ((u.sub (W.apply τ)).add τ'))) := by
    rw [M3.applyQ_add, ← M3.applyQ_mul, hconj, M3.applyQ_mul, hτ, htr, M3.applyQ_add C, hτ', ← toQ3_apply]
    have e1 : C.apply ((u.sub (W.apply τ)).add τ') = ((C.apply u).sub ((C.mul W).apply τ)).add (C.apply τ') := by
      simp only [M3.apply, M3.mul, Z3.add, Z3.sub, Z3.mk.injEq]
      refine ⟨?_, ?_, ?_⟩ <;> ring
    rw [e1, hconj, ← hu]
    have e2 : (R.mul C).apply τ = R.apply (C.apply τ) := by
      simp only [M3.apply, M3.mul, Z3.mk.injEq]
      refine ⟨?_, ?_, ?_⟩ <;> ring
    rw [e2]
    generalize C.apply τ = a
    generalize C.apply τ' = b
    rw [M3.applyQ_sub, M3.applyQ_add, ← toQ3_apply, ← toQ3_apply]
    generalize R.apply a = ra
    generalize R.apply n = rn
    generalize R.applyQ x = rx at hz ⊢
    obtain ⟨r1, r2, r3⟩ := rx
    obtain ⟨t1, t2, t3⟩ := t
    obtain ⟨y1, y2, y3⟩ := x'
    simp only [Q3.add, Q3.sub, Z3.toQ3, Z3.add, Z3.sub, Q3.mk.injEq] at hz ⊢
    obtain ⟨hz1, hz2, hz3⟩ := hz
    refine ⟨?_, ?_, ?_⟩ <;> push_cast <;> linarith
  have := congrArg (QM3.ofM3 C).inv.apply key
  rw [M3.applyQ_eq C, M3.applyQ_eq C, QM3.inv_apply_apply _ hq, QM3.inv_apply_apply _ hq] at this
  exact this

/-- Centering translations: a translation `w` of the conventional cell with `C w ∈ ℤ³` (a lattice
vector of the primitive cell) maps the conventional cell onto itself, site by site with the same
`site_mapping` entry. -/
theorem conv_cell_centering_invariant (C : M3) (hC : C.det ≠ 0) (pos : List Q3) (w : Q3) (v : Z3)
    (hw : C.applyQ w = Z3.toQ3 v) :
    ∀ (k : Nat) (s : Q3) (i : Nat), (transformCellPos C pos)[k]? = some s → (transformCellMap C pos.length)[k]? = some i →
      ∃ (k' : Nat) (s' : Q3), (transformCellPos C pos)[k']? = some s' ∧
        (transformCellMap C pos.length)[k']? = some i ∧ ∃ n : Z3, s.add w = s'.add (Z3.toQ3 n) := by
  intro k s i hs hi
  have := conv_cell_invariant C hC pos M3.one M3.one w (Z3.toQ3 v) id
    (by rw [M3.mul_one, M3.one_mul]) hw
    (fun i x hx => ⟨x, hx, v, by rw [M3.applyQ_one]⟩) k s i hs hi
  simpa [M3.applyQ_one] using this

/-- Non-vacuity: `C`-centering, the translation `(1/2, 1/2, 0)` is `C⁻¹ (1, 0, 0)`. -/
example : Centering.C.linear.det ≠ 0 ∧ Centering.C.linear.applyQ ⟨1 / 2, 1 / 2, 0⟩ = Z3.toQ3 ⟨0, 1, 0⟩ := by
  decide +kernel

end Moyo.C06
