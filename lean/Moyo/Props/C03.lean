import Moyo.Model.Oracle
/-
C03 — property theorems (table level).  The C03 oracle (`Oracle.checkC03`) compares the returned
ITA number with the number of the generating Hall setting and the returned Hall number with
`expectedHall`.  The theorems below show that what `expectedHall` reads from the regenerated
tables is what the property says: under `Spglib` the smallest Hall number of the type, under
`Standard` the ITA standard setting (unique axis b / cell choice 1 / hexagonal axes / origin
choice 2), and that the numbering of the Hall table is the identity (entry `h-1` has Hall number
`h`), with every type 1..230 present.

Full statement of C03 (for every crystal whose group is a tabulated setting, in any cell, the
pipeline returns that type): decided on explored inputs by the oracle; the general theorem
`identify_sound` needs the stage-S5 model and is listed in DESIGN §3 as future work.
-/
namespace Moyo.C03
open Moyo Moyo.Generated Moyo.Oracle

/-- Row `h-1` of the regenerated Hall table has Hall number `h` (so table index = Hall number). -/
theorem hallTable_indexed :
    hallTable.size = 530 ∧
    ((List.range 530).all fun i => (hallTable[i]?.map (·.hallNumber)) == some (i + 1)) = true := by
  decide +kernel

/-- ITA numbers are non-decreasing along the Hall table and cover exactly 1..230. -/
theorem hallTable_numbers :
    ((List.range 529).all fun i =>
      match hallTable[i]?, hallTable[i + 1]? with
      | some a, some b => a.number == b.number || a.number + 1 == b.number
      | _, _ => false) = true ∧
    (hallTable[0]?.map (·.number)) = some 1 ∧ (hallTable[529]?.map (·.number)) = some 230 := by
  decide +kernel

/-- Under the Spglib convention the expected Hall number of type `n` is the *smallest* Hall number
whose table entry has number `n`. -/
theorem spglib_is_smallest :
    spglibHallNumbers.size = 230 ∧
    ((List.range 230).all fun k =>
      match spglibHallNumbers[k]? with
      | none => false
      | some h =>
        (hallTable[h - 1]?.map (·.number)) == some (k + 1) &&
        (List.range (h - 1)).all fun i => (hallTable[i]?.map (·.number)) != some (k + 1)) = true := by
  decide +kernel

/-- Under the Standard convention the expected Hall number of type `n` is the *unique* entry of
number `n` whose setting string is one of "", "b", "b1", "H", "2" (ITA standard setting). -/
def isStandardSetting (s : String) : Bool :=
  s == "" || s == "b" || s == "b1" || s == "H" || s == "2"

theorem standard_is_ita :
    standardHallNumbers.size = 230 ∧
    ((List.range 230).all fun k =>
      match standardHallNumbers[k]? with
      | none => false
      | some h =>
        (match hallTable[h - 1]? with
         | some e => e.number == k + 1 && isStandardSetting e.setting
         | none => false) &&
        (hallTableList.filter fun e => e.number == k + 1 && isStandardSetting e.setting).length == 1) = true := by
  decide +kernel

/-- `expectedHall` is exactly a lookup in those two tables (and the identity for a requested setting). -/
theorem expectedHall_def (n : Nat) :
    expectedHall .spglib n = spglibHallNumbers[n - 1]? ∧
    expectedHall .standard n = standardHallNumbers[n - 1]? ∧
    ∀ h : Nat, expectedHall (.hall h) n = some h := by
  refine ⟨rfl, rfl, fun h => ?_⟩
  simp [expectedHall]

/-- Non-vacuity: type 15 (C2/c): Spglib picks Hall 90, Standard picks Hall 90 (b1); type 227
(Fd-3m): Spglib picks origin choice 1 (525), Standard origin choice 2 (526). -/
example : expectedHall .spglib 15 = some 90 ∧ expectedHall .standard 15 = some 90 ∧
    expectedHall .spglib 227 = some 525 ∧ expectedHall .standard 227 = some 526 := by
  decide +kernel

end Moyo.C03
