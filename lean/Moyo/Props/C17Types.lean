import Moyo.Proofs.C17TypesTable
import Moyo.Props.C17
/-
C17, "each group is identified as itself and as no other of its range" in the strong form:
**two different UNI entries of one ITA range are not conjugate under any proper affine map that
respects time reversal.**  Property theorems only.

What is quantified over.  `AffConj pu pv` (`Moyo/Proofs/TablesConj.lean`): an integer matrix `P`
with `det P = 1` and a rational origin shift `p / den` such that `x ↦ P x + p/den` conjugates the
magnetic group `{(R, t/12 + n, θ) : (R,t,θ) ∈ pu, n ∈ ℤ³}` onto that of `pv`, every operation being
carried to one with the same time-reversal flag `θ` (`AffMaps` demands `o0.tr = o.tr`).  Both lists
are the primitive coset representatives (modulo the lattice ℤ³ of unprimed translations) that the
model of `MagneticHallSymbol::primitive_traverse` returns.  This covers in particular every origin
shift and every (proper) integral normaliser element tried by the identification.

Method: as for C16 (g) (`Moyo/Props/C16Types.lean`); the rotation types of the unknowns carry the
time-reversal flag, so the systems count e.g. primed mirror reflections `g` with `g² ≡ 1 (mod 2T)`.
The systems per range are the searched certificates of `Moyo/Generated/C17TypeSpecs.lean`; the
kernel evaluates the vector `magInvOf` of each of the 1651 entries (`Moyo/Tables/MagTypesC*.lean`)
and checks that the vectors of each range are pairwise different (`mag_types_distinct`).
-/
namespace Moyo.C17Types
open Moyo Moyo.Generated Moyo.TableSpec Moyo.Tables Moyo.TypeInvariant

/-- The primitive operation list of every UNI entry has pairwise different (linear part,
time-reversal flag) and the certificate vector of the entry (for the systems of its range). -/
theorem mag_entry_vector : ∀ u : Nat, 1 ≤ u → u ≤ 1651 →
    ∃ (mt : MagTypeEntry) (prim : List HOp), magTypeEntry u = some mt ∧ magPrimitive u = some prim ∧
      (prim.map opKey).Nodup ∧ magInvOf mt.number prim = magCert u := by
  intro u h1 h2
  have f := magTypeRow_facts u h1 h2
  obtain ⟨r, hs, g⟩ := magRow_facts (mag_rows u h1 h2)
  obtain ⟨_, mt, _, hmt, _⟩ := magRowIn_spec g.row
  refine ⟨mt, _, hmt, magPrimitive_eq u h1 h2, f.keys, ?_⟩
  rw [← magNumberOf_eq hmt]
  exact f.inv

/-- Non-vacuity: UNI 3 (`P 1 1c'`, BNS 1.3, type IV): no unprimed-only list, vector of range 1. -/
example : ∃ (mt : MagTypeEntry) (prim : List HOp), magTypeEntry 3 = some mt ∧ magPrimitive 3 = some prim ∧
    (prim.map opKey).Nodup ∧ magInvOf mt.number prim = magCert 3 := mag_entry_vector 3 (by decide) (by decide)

/-- Proper affine conjugacy (flags preserved) of two lists with pairwise different keys preserves
the vector of any range whose systems use the moduli 2, 3, 4. -/
theorem mag_vector_invariant (n : Nat) (hn : magSpecsOK n = true) (src tgt : List HOp)
    (hs : (src.map opKey).Nodup) (ht : (tgt.map opKey).Nodup) (h : AffConj src tgt) :
    magInvOf n src = magInvOf n tgt :=
  magInvOf_eq_of_affConj hn hs ht h

example : magSpecsOK 47 = true ∧ (magSpecs 47).length = 5 := by decide +kernel

/-- **Inequivalence inside a range.**  Two different entries of one UNI range are not conjugate
under a proper affine map preserving the time-reversal flags; in particular (taking the identity
linear part) no origin shift, and no proper normaliser element followed by an origin shift, maps
one onto the other.  (`C17.mag_range_distinct_partial` is the special case of the identity map.) -/
theorem mag_range_inequivalent : ∀ n : Nat, 1 ≤ n → n ≤ 230 →
    ∃ lo hi : Nat, uniNumberRange magRanges (n : Int) = some (lo, hi) ∧
      ∀ u v : Nat, lo ≤ u → u ≤ hi → lo ≤ v → v ≤ hi → u ≠ v →
        ∀ pu pv : List HOp, magPrimitive u = some pu → magPrimitive v = some pv → ¬ AffConj pu pv := by
  intro n h1 h2
  obtain ⟨lo, hi, f⟩ := magRange_facts (range_rows n h1 h2)
  have hn : ¬ ((n : Int) ≤ 0) := by omega
  refine ⟨lo, hi, by simp only [uniNumberRange, hn, if_false, Int.toNat_natCast]; exact f.range, ?_⟩
  intro u v hu1 hu2 hv1 hv2 huv pu pv hpu hpv hconj
  have bound : ∀ w, lo ≤ w → w ≤ hi → 1 ≤ w ∧ w ≤ 1651 ∧ magNumberOf w = n := by
    intro w w1 w2
    have hw := f.number w w1 w2
    cases ht : magTypeEntry w with
    | none => simp [ht] at hw
    | some t =>
      rw [ht] at hw
      simp only [Option.map_some, Option.some.injEq] at hw
      exact ⟨by have := f.lo_pos; omega, magTypeEntry_le ht, by rw [magNumberOf_eq ht, hw]⟩
  obtain ⟨u1, u2, un⟩ := bound u hu1 hu2
  obtain ⟨v1, v2, vn⟩ := bound v hv1 hv2
  have fu := magTypeRow_facts u u1 u2
  have fv := magTypeRow_facts v v1 v2
  rw [magPrimitive_eq u u1 u2] at hpu; cases hpu
  rw [magPrimitive_eq v v1 v2] at hpv; cases hpv
  have hinv := magInvOf_eq_of_affConj (n := n) (by rw [← un]; exact fu.specs) fu.keys fv.keys hconj
  have e1 := fu.inv
  have e2 := fv.inv
  rw [un] at e1
  rw [vn] at e2
  exact magCert_ne_of_range h1 h2 f.range hu1 hu2 hv1 hv2 huv (by rw [← e1, hinv, e2])

/-- Non-vacuity: range 47 (Pmmm) is UNI 347..354; e.g. Pm'mm (BNS 47.251, UNI 349) and Pm'm'm
(BNS 47.252, UNI 350) are not conjugate. -/
example : uniNumberRange magRanges 47 = some (347, 354) := by decide +kernel

example : ∀ pu pv : List HOp, magPrimitive 349 = some pu → magPrimitive 350 = some pv → ¬ AffConj pu pv := by
  obtain ⟨lo, hi, hr, h⟩ := mag_range_inequivalent 47 (by decide) (by decide)
  have : uniNumberRange magRanges ((47 : Nat) : Int) = some (347, 354) := by decide +kernel
  rw [this] at hr
  cases hr
  exact h 349 350 (by decide) (by decide) (by decide) (by decide) (by decide)

end Moyo.C17Types
