import Moyo.Proofs.MagIdentify
/-
Stage S5m (`MagneticSpaceGroup::new`), part of C12 — theorems about the stage model `S5m.identifyMag`
(`Moyo/Model/StageMagIdentify.lean`), which is tied to `identify::magnetic_space_group::MagneticSpaceGroup::new` by the stage
correspondence `s5m` of checks/stages_magid.py: on every generated case and on the exhaustive table run (all 1651 UNI numbers,
own and re-described) the model reproduces `uni_number`, the construct type, `|XSG|`, `|FSG|`, the type-II flag and the linear
part of the transformation exactly and the origin shift to 1e-9 modulo 1.
-/
set_option maxRecDepth 100000
namespace Moyo.C12Stages
open Moyo Moyo.Generated Moyo.StageStd Moyo.S5m

/-! ### the construct-type branch -/

/-- **`type_branch_sound`: the construct-type branch is consistent with the table and with the operations.**  If the model
of `MagneticSpaceGroup::new` returns `(uni, ctype, T)` then the type table lists `uni` with construct type `ctype`, and
`ctype` is the one the operations determine: with `X` the operations without time reversal (`|X| ≠ 0`, `|X|` divides the
number of operations),
* type I   : `|ops| / |X| = 1` and no two operations share rotation and translation,
* type II  : `|ops| / |X| = 2` and two operations share rotation and translation (modulo 1, within `eps`),
* type III : `|ops| / |X| = 2`, no such pair, and no anti-translation `(1, t)'`,
* type IV  : `|ops| / |X| = 2`, no such pair, and an anti-translation. -/
theorem type_branch_sound (ops : List MOpQ) (eps : Rat) (g : MagSpaceGroup) (h : identifyMag ops eps = .ok g) :
    (∃ t, magType? g.uni = some t ∧ t.constructType = g.ctype) ∧
    (xsg ops).length ≠ 0 ∧ ops.length % (xsg ops).length = 0 ∧
    ((g.ctype = 1 ∧ ops.length / (xsg ops).length = 1 ∧ (family ops eps).isType2 = false) ∨
     (g.ctype = 2 ∧ ops.length / (xsg ops).length = 2 ∧ (family ops eps).isType2 = true) ∨
     (g.ctype = 3 ∧ ops.length / (xsg ops).length = 2 ∧ (family ops eps).isType2 = false ∧ hasAntiTranslation ops = false) ∨
     (g.ctype = 4 ∧ ops.length / (xsg ops).length = 2 ∧ (family ops eps).isType2 = false ∧ hasAntiTranslation ops = true)) := by
  obtain ⟨ref, sg, range, href, _, _, _, ht, _⟩ := identifyMag_ok h
  obtain ⟨h1, h2, hb⟩ := identifyReference_spec href
  refine ⟨ht, h1, h2, ?_⟩
  rcases hb with hb | hb | hb | hb
  · exact Or.inl ⟨hb.1, hb.2.1, hb.2.2.1⟩
  · exact Or.inr (Or.inl ⟨hb.1, hb.2.1, hb.2.2.1⟩)
  · exact Or.inr (Or.inr (Or.inl ⟨hb.1, hb.2.1, hb.2.2.1, hb.2.2.2.1⟩))
  · exact Or.inr (Or.inr (Or.inr ⟨hb.1, hb.2.1, hb.2.2.1, hb.2.2.2.1⟩))

/-- Non-vacuity: `{1, -1'}` is type III (UNI 6, `P -1'`), `{1, (1, c/2)'}` is type IV (UNI 3, `P 1 1c'`), `{1, 1'}` is type
II (UNI 2) and `{1}` type I (UNI 1). -/
example :
    (identifyMag [⟨M3.one, Q3.zero, false⟩, ⟨M3.one.neg, Q3.zero, true⟩] (1 / 100000000)).toOption.map (fun g => (g.uni, g.ctype)) = some (6, 3) ∧
    (identifyMag [⟨M3.one, Q3.zero, false⟩, ⟨M3.one, Q3.zero, true⟩] (1 / 100000000)).toOption.map (fun g => (g.uni, g.ctype)) = some (2, 2) ∧
    (identifyMag [⟨M3.one, Q3.zero, false⟩] (1 / 100000000)).toOption.map (fun g => (g.uni, g.ctype)) = some (1, 1) := by
  decide +kernel

/-! ### soundness -/

/-- **Soundness of the magnetic identification (types III and IV).**  If the model returns `(uni, ctype, (P, p))` with
`ctype ∈ {3, 4}` then `det P = 1`, `uni` lies in the UNI range of the identified family space-group number, and the input
operations transformed by `(P, p)` — `(P⁻¹ R P, P⁻¹ (R p + t − p), θ)` — match the tabulated primitive magnetic operations of
`uni`: the two lists have the same length and every tabulated `(R_db, t_db, θ_db)` is the transform of an input operation
with the same rotation, the same time-reversal flag and `t_db − t'` an integer vector up to `eps` in every component. -/
theorem identify_mag_sound (ops : List MOpQ) (eps : Rat) (g : MagSpaceGroup) (h : identifyMag ops eps = .ok g)
    (h34 : g.ctype = 3 ∨ g.ctype = 4) :
    g.T.linear.det = 1 ∧
    (∃ (sg : S5.SpaceGroup) (range : List Nat), uniRange? sg.number = some range ∧ g.uni ∈ range) ∧
    ∃ dbM, dbMagOps? g.uni = some dbM ∧ ops.length = dbM.length ∧
      ∀ m2 ∈ dbM, ∃ m1 ∈ ops, (transformMOp g.T m1).rot = m2.rot ∧ m1.tr = m2.tr ∧
        CloseMod1 (m2.trans.sub (transformMOp g.T m1).trans) eps := by
  obtain ⟨ref, sg, range, _, hsg, hrange, hu, _, _, h3, h4⟩ := identifyMag_ok h
  have hsgd : (sgTrans sg).linear.det = 1 := (S5.identify_match hsg).2.2.1
  have key : ∀ (dbM : List MOpQ) (corr : UTrans), corr.linear.det = 1 → g.T = (sgTrans sg).mul corr →
      dbMagOps? g.uni = some dbM → matchMagOps (ops.map (transformMOp g.T)) dbM eps = true →
      g.T.linear.det = 1 ∧ (∃ (sg : S5.SpaceGroup) (range : List Nat), uniRange? sg.number = some range ∧ g.uni ∈ range) ∧
      ∃ dbM, dbMagOps? g.uni = some dbM ∧ ops.length = dbM.length ∧
        ∀ m2 ∈ dbM, ∃ m1 ∈ ops, (transformMOp g.T m1).rot = m2.rot ∧ m1.tr = m2.tr ∧
          CloseMod1 (m2.trans.sub (transformMOp g.T m1).trans) eps := by
    intro dbM corr hcd hT hdb hmatch
    obtain ⟨hlen, hm⟩ := matchMagOps_spec hmatch
    refine ⟨by rw [hT]; exact mul_linear_det _ _ hsgd hcd, ⟨sg, range, hrange, hu⟩, dbM, hdb, by simpa using hlen, ?_⟩
    intro m2 hm2
    obtain ⟨m1', hm1', hr, htr, hcl⟩ := hm m2 hm2
    rw [List.mem_map] at hm1'
    obtain ⟨m1, hm1, rfl⟩ := hm1'
    exact ⟨m1, hm1, hr, htr, hcl⟩
  rcases h34 with h34 | h34
  · obtain ⟨dbM, hh, dbOps, gens, norm, corr, hdb, _, _, hnorm, hcm, hT, hmatch⟩ := h3 h34
    exact key dbM corr (normalizerAll_mem hnorm corr hcm).1 hT hdb hmatch
  · obtain ⟨dbM, hh, dbOps, gens, a, d, corr, hdb, _, _, _, _, _, _, _, _, hconj, hT, hmatch⟩ := h4 h34
    exact key dbM corr (findConjugatorType4_some hconj).1 hT hdb hmatch

/-- Non-vacuity: the type-IV list `{1, (1, (0, 1/2, 1/2))'}` (anti-translation along `b + c`) is identified as UNI 3
(`P 1 1c'`) with a unimodular change of basis that carries the anti-translation onto the tabulated `(0, 0, 1/2)`. -/
example :
    (identifyMag [⟨M3.one, Q3.zero, false⟩, ⟨M3.one, ⟨0, 1 / 2, 1 / 2⟩, true⟩] (1 / 100000000)).toOption.map
      (fun g => (g.uni, g.ctype, g.T.linear.det, (transformMOp g.T ⟨M3.one, ⟨0, 1 / 2, 1 / 2⟩, true⟩).trans.map ratFrac)) =
      some (3, 4, 1, ⟨0, 0, 1 / 2⟩) := by
  decide +kernel

/-- **As a set with time-reversal flags.**  When the tabulated primitive operations of `uni` have pairwise distinct keys
`(R, θ)` (they are coset representatives modulo translations: a table fact, evaluated by the compiled model on every
table row), the keys of the transformed operations are a permutation of the tabulated keys: nothing is missing and
nothing is left over. -/
theorem identify_mag_sound_set (ops : List MOpQ) (eps : Rat) (g : MagSpaceGroup) (h : identifyMag ops eps = .ok g)
    (h34 : g.ctype = 3 ∨ g.ctype = 4) (dbM : List MOpQ) (hdb : dbMagOps? g.uni = some dbM) (hnd : (dbM.map mkey).Nodup) :
    (dbM.map mkey).Perm ((ops.map (transformMOp g.T)).map mkey) := by
  obtain ⟨_, _, _, _, _, _, _, _, _, h3, h4⟩ := identifyMag_ok h
  rcases h34 with h34 | h34
  · obtain ⟨dbM', _, _, _, _, _, hdb', _, _, _, _, _, hmatch⟩ := h3 h34
    rw [hdb] at hdb'
    simp only [Option.some.injEq] at hdb'
    subst hdb'
    exact matchMagOps_keys_perm hmatch hnd
  · obtain ⟨dbM', _, _, _, _, _, _, hdb', _, _, _, _, _, _, _, _, _, _, hmatch⟩ := h4 h34
    rw [hdb] at hdb'
    simp only [Option.some.injEq] at hdb'
    subst hdb'
    exact matchMagOps_keys_perm hmatch hnd

/-- Non-vacuity: the type-III group `P -1'` given with the inversion centre at `(1/4, 1/6, 0)` (operation `(-1, (1/2, 1/3,
0))'`): the returned origin shift carries it onto the tabulated `(-1, 0)'`, and the tabulated keys are distinct. -/
example :
    (identifyMag [⟨M3.one, Q3.zero, false⟩, ⟨M3.one.neg, ⟨1 / 2, 1 / 3, 0⟩, true⟩] (1 / 100000000)).toOption.map
      (fun g => (g.uni, g.ctype, g.T.shift, (transformMOp g.T ⟨M3.one.neg, ⟨1 / 2, 1 / 3, 0⟩, true⟩).trans)) =
      some (6, 3, ⟨1 / 4, 1 / 6, 0⟩, ⟨0, 0, 0⟩) ∧
    ((dbMagOps? 6).map fun l => decide (l.map mkey).Nodup) = some true := by
  decide +kernel

/-- **Soundness for types I and II.**  There the code returns the transformation of `SpaceGroup::new` on the family group
without comparing magnetic operations.  If the model returns `(uni, ctype, (P, p))` with `ctype ∈ {1, 2}` then `det P = 1`
and there is a Hall number `hall` in the standard setting such that every tabulated primitive generator `(R_db, t_db)` of
`hall` is the conjugate by `(P, p)` of the space-group part `(R, t)` of an input magnetic operation: `P R_db = R P` exactly
and `P⁻¹ (R p + t − p) − t_db` is within `eps` of an integer vector. -/
theorem identify_mag_sound_type12 (ops : List MOpQ) (eps : Rat) (g : MagSpaceGroup) (h : identifyMag ops eps = .ok g)
    (h12 : g.ctype = 1 ∨ g.ctype = 2) :
    g.T.linear.det = 1 ∧
    ∃ hall : Nat, (hall : Int) ∈ S5.settingHallNumbers .standard ∧
      ∃ gens, S5.hallPrimGens? hall = some gens ∧
        ∀ gen ∈ gens, ∃ m ∈ ops, g.T.linear.mul gen.rot = m.rot.mul g.T.linear ∧
          S5.Within ((S5.conjTrans g.T.linear g.T.shift m.op).sub gen.trans) eps := by
  obtain ⟨ref, sg, range, href, hsg, _, _, _, hT, _, _⟩ := identifyMag_ok h
  obtain ⟨hmem, _, hd, gens, hg, hmatch⟩ := S5.identify_match hsg
  have hTe := hT h12
  have href' : ref = (family ops eps).ops := by
    obtain ⟨_, _, hb⟩ := identifyReference_spec href
    rcases hb with hb | hb | hb | hb
    · exact hb.2.2.2
    · exact hb.2.2.2
    · rcases h12 with h | h <;> omega
    · rcases h12 with h | h <;> omega
  refine ⟨by rw [hTe]; exact hd, sg.hall, hmem, gens, hg, ?_⟩
  intro gen hgen
  obtain ⟨o, ho, hr, hw⟩ := S5.match_affine hd hmatch gen (by simpa using hgen)
  rw [href'] at ho
  obtain ⟨m, hm, rfl⟩ := family_ops_sub ops eps o ho
  rw [hTe]
  exact ⟨m, hm, hr, hw⟩

/-- Non-vacuity: the grey group of `P-1` (four operations) is type II, UNI 5, over Hall number 2. -/
example :
    (identifyMag [⟨M3.one, Q3.zero, false⟩, ⟨M3.one.neg, ⟨1 / 2, 0, 0⟩, false⟩, ⟨M3.one, Q3.zero, true⟩,
        ⟨M3.one.neg, ⟨1 / 2, 0, 0⟩, true⟩] (1 / 100000000)).toOption.map (fun g => (g.uni, g.ctype, g.T.shift)) =
      some (5, 2, ⟨1 / 4, 0, 0⟩) := by
  decide +kernel

/-- **The normalizer elements normalize.**  Every `(P, p)` in the model of `integral_normalizer(ops, gens, eps)` has
`det P = 1` and conjugates, for every generator `(R_g, t_g)`, some operation `(R, t)` of the group onto it:
`P R_g = R P` and `P⁻¹ (R p + t − p) − t_g` within `eps` of an integer vector. -/
theorem normalizer_sound (ops : List OpQ) (gens : Array S5.Gen) (eps : Rat) (norm : List UTrans)
    (h : normalizerAll ops gens eps = some norm) :
    ∀ c ∈ norm, c.linear.det = 1 ∧
      ∀ gen ∈ gens.toList, ∃ o ∈ ops, c.linear.mul gen.rot = o.rot.mul c.linear ∧
        S5.Within ((S5.conjTrans c.linear c.shift o).sub gen.trans) eps := by
  intro c hc
  obtain ⟨hd, hm⟩ := normalizerAll_mem h c hc
  exact ⟨hd, S5.match_affine hd hm⟩

/-- Non-vacuity: the normalizer of `P-1` (Hall number 2) modulo its centralizer, as enumerated by the code (one conjugator
per null-space basis), has exactly one element, of determinant one. -/
example : ((dbRef? 2).bind fun r => (normalizerAll r.1 r.2 (1 / 100000000)).map fun n =>
    (n.length, n.all fun c => c.linear.det == 1)) = some (1, true) := by
  decide +kernel

/-! ### completeness -/

/-- **UNI ranges (table theorem, kernel-decided on the regenerated type table)**: every ITA number `1..230` has a UNI range
(`uni_number_range`), every UNI number of the range has a type entry, and the range contains an entry of construct type I
and one of construct type II (`S5m.rangeOK`). -/
theorem uni_range_table : ∀ k, k < 230 → rangeOK (k + 1) = true := by decide +kernel

/-- Non-vacuity: the range of ITA number 2 is UNI 4..7 (types I, II, III, IV), the range of number 230 ends at 1651. -/
example : uniRange? 2 = some [4, 5, 6, 7] ∧ (uniRange? 230).map (fun r => r.getLast?) = some (some 1651) ∧
    uniRange? 231 = none ∧ uniRange? 0 = none := by
  decide +kernel

/- Full completeness statement (NOT proved): for every UNI number `u`, every unimodular `(P, p)` and the tabulated
primitive operations of `u` transformed by `(P, p)`, `identifyMag` returns `u`.  It needs completeness of the conjugator
searches (`iter_unimodular_trans_mat` explores coefficients in `[-2, 2]` only) and of `SpaceGroup::new` — the open
item A-coeff of DESIGN §10.1.  Covered by the exhaustive correspondence run on every check run (harness `mag-id-gen`: all
1651 rows, own and re-based, `row 1` answers) and, kernel-decided, for the rows of `identify_mag_tables_partial`.
Proved below: completeness **relative to `SpaceGroup::new`** for the construct types I and II. -/

/-- **Completeness for construct types I and II (partial: relative to the space-group identification).**  If the operations
determine construct type `c ∈ {1, 2}` with reference (family) group `ref`, and the model of `SpaceGroup::new` identifies
`ref` in the standard setting as a space group with number `1..230`, then the magnetic identification succeeds: it returns a
UNI number of the range of that space-group number whose tabulated construct type is `c`, with the transformation of the
space-group identification. -/
theorem identify_mag_type12_complete_partial (ops : List MOpQ) (eps : Rat) (ref : List OpQ) (c : Nat) (hc : c = 1 ∨ c = 2)
    (href : identifyReference ops eps = some (ref, c)) (sg : S5.SpaceGroup) (hsg : S5.identify ref .standard eps = .ok sg)
    (hn : 1 ≤ sg.number ∧ sg.number ≤ 230) :
    ∃ g, identifyMag ops eps = .ok g ∧ g.ctype = c ∧ g.T = sgTrans sg ∧
      (∃ range, uniRange? sg.number = some range ∧ g.uni ∈ range) ∧
      ∃ t, magType? g.uni = some t ∧ t.constructType = c := by
  have htab := uni_range_table (sg.number - 1) (by omega)
  have e : sg.number - 1 + 1 = sg.number := by omega
  rw [e] at htab
  unfold rangeOK at htab
  split at htab
  · simp at htab
  · rename_i range hrange
    simp only [Bool.and_eq_true, List.all_eq_true] at htab
    have hany : (range.any fun u => (magType? u).any fun t => t.constructType == c) = true := by
      rcases hc with rfl | rfl
      · exact htab.1.2
      · exact htab.2
    obtain ⟨u, hu, hf⟩ := findSome_type12 ops eps c hc (sgTrans sg) (range.head?.bind refHall?)
      (sharedNormalizer (range.head?.bind refHall?) eps) range htab.1.1 hany
    have hid : identifyMag ops eps = .ok ⟨u, c, sgTrans sg⟩ := by
      unfold identifyMag
      rw [href]
      simp only
      unfold identifyMagFrom
      rw [hsg]
      simp only [hrange]
      rw [hf]
    refine ⟨⟨u, c, sgTrans sg⟩, hid, rfl, rfl, ⟨range, hrange, hu⟩, ?_⟩
    obtain ⟨_, _, _, _, _, _, _, ht, _⟩ := identifyMag_ok hid
    exact ht

/-- Non-vacuity: the hypotheses hold for the grey group of `P-1`. -/
example :
    let ops : List MOpQ := [⟨M3.one, Q3.zero, false⟩, ⟨M3.one.neg, Q3.zero, false⟩, ⟨M3.one, Q3.zero, true⟩, ⟨M3.one.neg, Q3.zero, true⟩]
    (identifyReference ops (1 / 100000000)).map (·.2) = some 2 ∧
    ((identifyReference ops (1 / 100000000)).bind fun r => (S5.identify r.1 .standard (1 / 100000000)).toOption.map (·.number)) = some 2 := by
  decide +kernel

/-! ### table rows -/

/- Full statement (NOT kernel-decided; covered by the exhaustive correspondence run of every check, harness command
`mag-id-gen`, where the compiled model and the Rust code agree on all 1651 rows and the model's row check is `1`):
`∀ u, 1 ≤ u → u ≤ 1651 → tableRowOK u = true`.  The kernel evaluates the Smith normal forms of the 9k×9 Sylvester systems
without sharing (≈10 s and several GB each), which rules out all but the lowest-symmetry rows. -/

/-- **Identification of the tabulated groups (partial: UNI 1–10 — the triclinic rows with all four construct types and the
types I, II, III over `P2`).**  The model applied to the tabulated primitive operations of `u` returns `u` with the
tabulated construct type, a unimodular transformation and (types III, IV) matching magnetic operations
(`S5m.tableRowOK`). -/
theorem identify_mag_tables_partial : ∀ k, k < 10 → tableRowOK (k + 1) = true := by decide +kernel

/-- Non-vacuity: rows 3 and 7 are type IV (`P 1 1c'`, `-P 1 1c'`), row 6 is type III. -/
example : (magType? 3).map (·.constructType) = some 4 ∧ (magType? 6).map (·.constructType) = some 3 ∧
    (magType? 7).map (·.constructType) = some 4 ∧ (tableMagOps 7).length = 4 := by
  decide +kernel

end Moyo.C12Stages
