import Moyo.Proofs.ReduceAlgebra
import Moyo.Proofs.ReduceMinima
import Moyo.Proofs.ReduceEnum
/-
C14: properties of the executable model of the three lattice reductions (`Moyo/Model/Reduce.lean`).
The unimodularity theorems quantify over **all traces** of the step grammar of each algorithm, i.e. they
hold whatever the floating-point comparisons of the Rust code decide.
Only property theorems live here; helper lemmas are in `Moyo/Proofs/Reduce*.lean`.
-/
namespace Moyo.C14
open Moyo Moyo.Reduce

/-! ### Transformation matrices -/

/-- Minkowski steps: a column swap has determinant −1, a CVP update `col_r -= Σ c_i col_i` has +1. -/
theorem minkowski_step_det (s : MStep) :
    s.mat.det = match s with
      | .swap01 => -1
      | .swap12 => -1
      | .sub1 _ => 1
      | .sub2 _ _ => 1 :=
  MStep.det_mat s

example : (MStep.sub2 3 (-2)).mat = ⟨1, 0, -3, 0, 1, 2, 0, 0, 1⟩ := by decide

/-- For every trace of Minkowski steps the accumulated matrix is unimodular. -/
theorem minkowski_T_unimodular (tr : List MStep) :
    (applyTrace (tr.map MStep.mat)).det = 1 ∨ (applyTrace (tr.map MStep.mat)).det = -1 := by
  rw [applyTrace_det]
  apply prod_pm_one
  intro d hd
  simp only [List.map_map, List.mem_map, Function.comp] at hd
  obtain ⟨s, -, rfl⟩ := hd
  cases s <;> simp [MStep.mat, M3.det]

example : (applyTrace ([MStep.swap01, .sub1 2, .swap12, .sub2 1 (-1)].map MStep.mat)) = ⟨0, 0, 1, 1, 0, -3, 0, 1, 1⟩ ∧
    (applyTrace ([MStep.swap01, .sub1 2, .swap12, .sub2 1 (-1)].map MStep.mat)).det = 1 := by decide

/-- Every Niggli step matrix (steps 1–8, for every value of the sign parameters, including the literal
`p`-bookkeeping of step 4) has determinant +1; in particular the `unreachable!()` arm of step 4, modelled
by the zero matrix, is never taken. -/
theorem niggli_step_det (s : NStep) : s.mat.det = 1 := NStep.det_mat s

example : (NStep.s4 .pos .zero .pos).mat = ⟨-1, 0, 0, 0, 1, 0, 0, 0, -1⟩ := by decide

/-- For every trace of Niggli steps `det T = +1`. -/
theorem niggli_T_det_one (tr : List NStep) : (applyTrace (tr.map NStep.mat)).det = 1 := by
  rw [applyTrace_det]
  apply prod_one
  intro d hd
  simp only [List.map_map, List.mem_map, Function.comp] at hd
  obtain ⟨s, -, rfl⟩ := hd
  exact NStep.det_mat s

example : (applyTrace ([NStep.s1, .s5 .neg, .s8, .s3 .neg .neg .pos].map NStep.mat)).det = 1 ∧
    applyTrace ([NStep.s1, .s5 .neg, .s8, .s3 .neg .neg .pos].map NStep.mat) ≠ M3.one := by decide

/-- …so the parity fix of `niggli_reduce` never fires. -/
theorem niggli_parity_fix_idle (tr : List NStep) :
    fixParity (applyTrace (tr.map NStep.mat)) = applyTrace (tr.map NStep.mat) := by
  simp [fixParity, niggli_T_det_one]

/-- Each superbase update of the Delaunay loop has determinant −1 (all twelve pairs `(i, j)`). -/
theorem delaunay_update_det (i : Fin 3) (j : Fin 4) : (updMat i j).det = -1 := updMat_det i j

example : updMat 0 3 = ⟨-1, 1, 1, 0, 1, 0, 0, 0, 1⟩ := by decide

/-- For every sequence of loop updates the accumulated matrix is unimodular. -/
theorem delaunay_loop_unimodular (tr : List (Fin 3 × Fin 4)) :
    (applyTrace (tr.map fun p => updMat p.1 p.2)).det = 1 ∨
    (applyTrace (tr.map fun p => updMat p.1 p.2)).det = -1 := by
  rw [applyTrace_det]
  apply prod_pm_one
  intro d hd
  simp only [List.map_map, List.mem_map, Function.comp] at hd
  obtain ⟨p, -, rfl⟩ := hd
  exact Or.inr (updMat_det p.1 p.2)

example : (applyTrace ([((0 : Fin 3), (1 : Fin 4)), (1, 3), (0, 2)].map fun p => updMat p.1 p.2)).det = -1 := by decide

/-- Parity fix: a unimodular `T` leaves with determinant +1. -/
theorem parity_fix (T : M3) (h : T.det = 1 ∨ T.det = -1) : (fixParity T).det = 1 := by
  unfold fixParity
  rcases h with h | h
  · simp [h]
  · simp [h, M3.det_neg]

example : (fixParity MStep.swap01.mat) = ⟨0, -1, 0, -1, 0, 0, 0, 0, -1⟩ := by decide

/-- The model of `minkowski_reduce` returns `det T = +1` for every basis. -/
theorem minkowski_det_one (B0 : QM3) (exact : Bool) : (minkowskiT B0 exact).det = 1 :=
  parity_fix _ (minkowski_T_unimodular _)

/-- The model of `niggli_reduce` returns `det T = +1` for every basis. -/
theorem niggli_det_one (B0 : QM3) (exact : Bool) : (niggliT B0 exact).det = 1 :=
  parity_fix _ (Or.inl (niggli_T_det_one _))

/-- `reduced = basis · T`: performing the column operations of a trace on any rational basis is right
multiplication by the accumulated matrix. -/
theorem reduced_eq_basis_T (B0 : QM3) (tr : List MStep) :
    actTrace B0 tr = B0.mul (QM3.ofM3 (applyTrace (tr.map MStep.mat))) := by
  have h := actTrace_eq_aux tr B0 M3.one
  rw [QM3.ofM3_one, QM3.mul_one] at h
  exact h

example : actTrace ⟨1, 2, 3, 0, 1, 4, 0, 0, 1⟩ [.swap01, .sub1 2, .sub2 1 1] = ⟨2, -3, 4, 1, -2, 5, 0, 0, 1⟩ := by
  simp only [actTrace, List.foldl, MStep.act, swapCols01, QM3.mk.injEq]
  norm_num

/-- Volume and handedness: `det (basis · T) = det basis` when `det T = 1`. -/
theorem basis_T_det (B0 : QM3) (T : M3) (h : T.det = 1) : (cur B0 T).det = B0.det := by
  simp [cur, QM3.det_mul, QM3.ofM3_det, h]

/-- The parity fix on the basis side (`reduced_basis *= -1`) is the same right multiplication. -/
theorem parity_fix_basis (B0 : QM3) (T : M3) :
    cur B0 (fixParity T) = if T.det < 0 then QM3.smul (-1) (cur B0 T) else cur B0 T := by
  unfold fixParity
  split
  · simp only [cur, QM3.ofM3_neg, QM3.mul, QM3.smul, QM3.mk.injEq]
    refine ⟨?_, ?_, ?_, ?_, ?_, ?_, ?_, ?_, ?_⟩ <;> ring
  · rfl

/-! ### The pinned Delaunay selection is defective; the guarded selection is not -/

/-- Negative theorem.  The final step of the pinned `delaunay_reduce` ("the three shortest of the seven
candidates") selects, for the tetragonal cell `diag(1, 1, 10)`, the dependent vectors `b1, b2, b1 + b2`:
the model returns `T = [[1,0,1],[0,1,1],[0,0,0]]` of determinant 0 (as does the implementation).
The grammar also contains selections of determinant 2 (`b1+b2, b2+b3, b3+b1`). -/
theorem delaunay_selection_singular :
    delaunayT ⟨1, 0, 0, 0, 1, 0, 0, 0, 10⟩ true = ⟨1, 0, 1, 0, 1, 1, 0, 0, 0⟩ ∧
    (delaunayT ⟨1, 0, 0, 0, 1, 0, 0, 0, 10⟩ true).det = 0 ∧
    (selMat 4 5 6).det = 2 := by
  decide +kernel

/-- The repaired selection (first triple in length order with `|det| = 1`) is unimodular for every
ordering of the candidates. -/
theorem delaunay_selection_guarded (order : List (Fin 7)) :
    let t := selectGuarded order
    (selMat t.1 t.2.1 t.2.2).det = 1 ∨ (selMat t.1 t.2.1 t.2.2).det = -1 := by
  intro t
  have key : (selMat t.1 t.2.1 t.2.2).det.natAbs = 1 := selectGuarded_spec order
  omega

example : selectGuarded [0, 1, 4, 2, 3, 5, 6] = (0, 1, 2) := by decide

/-- With the repaired selection the whole Delaunay reduction returns `det T = +1`, for every sequence of
loop updates and every ordering of the candidates. -/
theorem delaunay_guarded_det_one (loop : List (Fin 3 × Fin 4)) (order : List (Fin 7)) :
    let t := selectGuarded order
    (fixParity (applyTrace (loop.map (fun p => updMat p.1 p.2) ++ [selMat t.1 t.2.1 t.2.2]))).det = 1 := by
  intro t
  apply parity_fix
  rw [applyTrace_det]
  apply prod_pm_one
  intro d hd
  simp only [List.map_append, List.map_map, List.mem_append, List.mem_map, Function.comp, List.map_cons,
    List.map_nil, List.mem_singleton] at hd
  rcases hd with ⟨p, -, rfl⟩ | rfl
  · exact Or.inr (updMat_det p.1 p.2)
  · exact delaunay_selection_guarded order

example : (fixParity (applyTrace ([updMat 0 1] ++ [selMat 0 1 2]))).det = 1 := by decide

/-! ### The checked API -/

/-- `Lattice::minkowski_reduce` / `Lattice::niggli_reduce` return `Ok` only after their own a-posteriori
predicate: whenever the model of the checked API returns `(R, T)`, `R` passes the model of
`is_minkowski_reduced` / `is_niggli_reduced`, `R = basis·T`, `det T = +1` and `det R = det basis`. -/
theorem checked_api_sound (B0 : QM3) (exact : Bool) (d : ℚ) (R : QM3) (T : M3) :
    (minkowskiChecked B0 exact d = some (R, T) →
      isMinkowskiK R d = some true ∧ R = cur B0 T ∧ T.det = 1 ∧ R.det = B0.det) ∧
    (niggliChecked B0 exact d = some (R, T) →
      isNiggliK R d = some true ∧ R = cur B0 T ∧ T.det = 1 ∧ R.det = B0.det) := by
  constructor
  · intro h
    unfold minkowskiChecked at h
    simp only at h
    split at h
    · next hk =>
      simp only [Option.some.injEq, Prod.mk.injEq] at h
      obtain ⟨rfl, rfl⟩ := h
      exact ⟨hk, rfl, minkowski_det_one B0 exact, basis_T_det B0 _ (minkowski_det_one B0 exact)⟩
    · exact absurd h (by simp)
  · intro h
    unfold niggliChecked at h
    simp only at h
    split at h
    · next hk =>
      simp only [Option.some.injEq, Prod.mk.injEq] at h
      obtain ⟨rfl, rfl⟩ := h
      exact ⟨hk, rfl, niggli_det_one B0 exact, basis_T_det B0 _ (niggli_det_one B0 exact)⟩
    · exact absurd h (by simp)

/-- Non-vacuity: both checked reductions accept a concrete skew integer basis (kernel-evaluated model,
including the square-root enclosures), with non-trivial `T`. -/
example : (minkowskiChecked ⟨1, 2, 0, 0, 1, 0, 0, 3, 10⟩ true 0).isSome = true ∧
    (niggliChecked ⟨1, 2, 0, 0, 1, 0, 0, 3, 10⟩ true 0).isSome = true ∧
    minkowskiT ⟨1, 2, 0, 0, 1, 0, 0, 3, 10⟩ true = ⟨1, -2, 6, 0, 1, -3, 0, 0, 1⟩ := by decide +kernel

/-! ### Minimality -/

/-- Gauss (2-D), over any linearly ordered field: if `|b1| ≤ |b2|` and `2|b1·b2| ≤ |b1|²` then for all
integers `(x, y)`: `y ≠ 0 → |x b1 + y b2|² ≥ |b2|²` (`b2` is shortest among the lattice vectors independent
of `b1`) and `(x, y) ≠ 0 → |x b1 + y b2|² ≥ |b1|²` (`b1` is a shortest non-zero vector).
`a = |b1|²`, `b = |b2|²`, `p = b1·b2`, `Q2 a b p x y = a x² + 2 p x y + b y²`. -/
theorem gauss2_shortest {K : Type*} [Field K] [LinearOrder K] [IsStrictOrderedRing K]
    (a b p : K) (hab : a ≤ b) (hp1 : -a ≤ 2 * p) (hp2 : 2 * p ≤ a) (x y : ℤ) :
    (y ≠ 0 → b ≤ Minima.Q2 a b p x y) ∧ ((x ≠ 0 ∨ y ≠ 0) → a ≤ Minima.Q2 a b p x y) :=
  Minima.gauss2 a b p hab hp1 hp2 x y

/-- Non-vacuity: the hexagonal form `(2, 2, -1)` satisfies the hypotheses with equality and the bound is
attained by `(1, 1)`. -/
example : (2 : ℚ) ≤ 2 ∧ -(2 : ℚ) ≤ 2 * (-1) ∧ 2 * (-1 : ℚ) ≤ 2 ∧ Minima.Q2 (2 : ℚ) 2 (-1) (1 : ℤ) (1 : ℤ) = 2 := by
  norm_num [Minima.Q2]

/-- The twelve conditions of `is_minkowski_reduced` with `EPS = 0`, literally as in the Rust code but on
squared lengths (`√u ≥ √v ⟺ u ≥ v`): ordering, two conditions for `b2`, eight for `b3`. -/
def MinkowskiReduced0 (B : QM3) : Prop :=
  colsq B 0 ≤ colsq B 1 ∧ colsq B 1 ≤ colsq B 2 ∧
  (∀ v ∈ ([⟨1, -1, 0⟩, ⟨1, 1, 0⟩] : List Z3), colsq B 1 ≤ (comb B v).normSq) ∧
  (∀ v ∈ ([⟨1, 0, 1⟩, ⟨1, 0, -1⟩, ⟨0, 1, 1⟩, ⟨0, 1, -1⟩, ⟨1, -1, -1⟩, ⟨1, -1, 1⟩, ⟨1, 1, -1⟩, ⟨1, 1, 1⟩] : List Z3),
      colsq B 2 ≤ (comb B v).normSq)

/-- **Minkowski, dimension 3.**  A basis that passes the twelve conditions of `is_minkowski_reduced`
(with `EPS = 0`) realises the three successive minima: for all integers `n = (x, y, z)`
* `z ≠ 0 → |B n|² ≥ |b3|²`,
* `(y, z) ≠ 0 → |B n|² ≥ |b2|²`  (`b2` is shortest among lattice vectors independent of `b1`),
* `n ≠ 0 → |B n|² ≥ |b1|²`       (`b1` is a shortest lattice vector).
No non-degeneracy assumption is needed. -/
theorem minkowski3_minima (B : QM3) (h : MinkowskiReduced0 B) (n : Z3) :
    (n.z ≠ 0 → colsq B 2 ≤ (comb B n).normSq) ∧
    ((n.y ≠ 0 ∨ n.z ≠ 0) → colsq B 1 ≤ (comb B n).normSq) ∧
    ((n.x ≠ 0 ∨ n.y ≠ 0 ∨ n.z ≠ 0) → colsq B 0 ≤ (comb B n).normSq) := by
  obtain ⟨h1, h2, h3, h4⟩ := h
  have key : ∀ v : Z3, (comb B v).normSq =
      Minima.Q3 (colsq B 0) (colsq B 1) (colsq B 2) (cdot B 0 1) (cdot B 0 2) (cdot B 1 2) v.x v.y v.z := by
    intro v
    simp only [comb, QM3.apply, Q3.normSq, Q3.dot, colsq, cdot, QM3.col, Minima.Q3]
    ring
  have red : Minima.Red (colsq B 0) (colsq B 1) (colsq B 2) (cdot B 0 1) (cdot B 0 2) (cdot B 1 2) := by
    have e := fun v hv => (key v) ▸ h3 v hv
    have f := fun v hv => (key v) ▸ h4 v hv
    have e1 := e ⟨1, -1, 0⟩ (by simp)
    have e2 := e ⟨1, 1, 0⟩ (by simp)
    have f1 := f ⟨1, 0, 1⟩ (by simp)
    have f2 := f ⟨1, 0, -1⟩ (by simp)
    have f3 := f ⟨0, 1, 1⟩ (by simp)
    have f4 := f ⟨0, 1, -1⟩ (by simp)
    have f5 := f ⟨1, -1, -1⟩ (by simp)
    have f6 := f ⟨1, -1, 1⟩ (by simp)
    have f7 := f ⟨1, 1, -1⟩ (by simp)
    have f8 := f ⟨1, 1, 1⟩ (by simp)
    simp only [Minima.Q3] at e1 e2 f1 f2 f3 f4 f5 f6 f7 f8
    push_cast at e1 e2 f1 f2 f3 f4 f5 f6 f7 f8
    constructor <;> linarith
  rw [key n]
  exact Minima.mink3 red n.x n.y n.z

/-- Non-vacuity: the primitive f.c.c. basis `(0,1,1), (1,0,1), (1,1,0)` satisfies the twelve conditions
(several with equality) and is not orthogonal. -/
example : MinkowskiReduced0 ⟨0, 1, 1, 1, 0, 1, 1, 1, 0⟩ ∧ cdot ⟨0, 1, 1, 1, 0, 1, 1, 1, 0⟩ 0 1 = 1 := by
  refine ⟨⟨?_, ?_, ?_, ?_⟩, ?_⟩ <;>
    (simp [colsq, cdot, comb, QM3.col, QM3.apply, Q3.normSq, Q3.dot]; try norm_num)

/-! ### Soundness of the shortest-vector oracle -/

/-- Lagrange decomposition used by the enumeration: for a symmetric `G` with non-zero leading minors
`Q(x,y,z) = G₁₁·X² + (m/G₁₁)·Y² + (det/m)·z²`, `X = x + (G₁₂y + G₁₃z)/G₁₁`, `Y = y + (h/m)z`
(`m = G₁₁G₂₂ - G₁₂²`, `h = G₁₁G₂₃ - G₁₂G₁₃`), whence the Cauchy–Schwarz box bound
`z² ≤ r²·(G⁻¹)₃₃ = r²·m/det` and the exact intervals for `y` given `z` and `x` given `(y, z)`. -/
theorem lagrange_decomposition (G : QM3) (hd : G.d = G.b) (hg : G.g = G.c) (hh : G.h = G.f)
    (h1 : G.a ≠ 0) (h2 : G.a * G.e - G.b * G.b ≠ 0) (n : Z3) :
    qform G n =
      (Lagrange.ofGram G).g11 *
          ((n.x : ℚ) + ((Lagrange.ofGram G).g12 * n.y + (Lagrange.ofGram G).g13 * n.z) / (Lagrange.ofGram G).g11) ^ 2 +
        (Lagrange.ofGram G).m / (Lagrange.ofGram G).g11 *
          ((n.y : ℚ) + (Lagrange.ofGram G).h / (Lagrange.ofGram G).m * n.z) ^ 2 +
        (Lagrange.ofGram G).dt / (Lagrange.ofGram G).m * (n.z : ℚ) ^ 2 :=
  lagrange3 G hd hg hh h1 h2 n

example : qform ⟨2, 1, 1, 1, 2, 1, 1, 1, 2⟩ ⟨1, -1, 2⟩ = 10 := by
  simp [qform, Q3.dot, QM3.apply]; norm_num

/-- The enumeration of the oracle is complete: for the Gram matrix of any non-singular rational basis,
every integer vector `n` with `|B n|² ≤ r²` whose `(y, z)` passes the filter is in `candidates`. -/
theorem shortest_enumeration_complete (B : QM3) (hB : B.det ≠ 0) (r2 : ℚ) (okyz : ℤ → ℤ → Bool) (n : Z3)
    (hQ : (comb B n).normSq ≤ r2) (hok : okyz n.y n.z = true) :
    n ∈ candidates (gram B) r2 okyz := by
  obtain ⟨s1, s2, s3, p1, p2, p3⟩ := gram_minors B hB
  exact candidates_complete_aux (gram B) s1 s2 s3 p1 p2 p3 r2 okyz n (by rw [qform_gram]; exact hQ) hok

example : (⟨-1, 1, 0⟩ : Z3) ∈ candidates (gram ⟨0, 1, 1, 1, 0, 1, 1, 1, 0⟩) 2 (fun _ _ => true) :=
  shortest_enumeration_complete _ (by norm_num [QM3.det]) 2 _ _
    (by simp [comb, QM3.apply, Q3.normSq, Q3.dot]; norm_num) rfl

/-- A "no violation" answer of the oracle's successive-minimum check `k` (`k = 0, 1, 2`: first, second,
third minimum) is **sound and complete**: if `minimumViolation` returns `none` for the Gram matrix of a
non-singular basis `B`, then every integer vector `n` with the side condition of minimum `k`
(`n ≠ 0` / `(n_y, n_z) ≠ 0` / `n_z ≠ 0`) satisfies `|B n|² ≥ |b_k|² - 2τ·hi(√|b_k|²)`,
the squared form of `|B n| ≥ |b_k| - τ`. -/
theorem minimum_check_sound (B : QM3) (hB : B.det ≠ 0) (k : ℕ) (τ : ℚ) (hτ : 0 ≤ τ)
    (h : minimumViolation (gram B) k τ = none) (n : Z3) (hn : okVec k n = true) :
    sqMinusTol (radiusSq (gram B) k) τ ≤ (comb B n).normSq := by
  rw [← qform_gram]
  exact minimumViolation_none B hB k τ hτ h n hn

/-- The square-root enclosures used for all length comparisons are certified:
`0 ≤ lo`, `lo² ≤ q < hi²`, `hi - lo ≤ 1e-30`. -/
theorem sqrt_enclosure_sound (q : ℚ) (hq : 0 < q) :
    0 ≤ (sqrtLoHi q).1 ∧ (sqrtLoHi q).1 ^ 2 ≤ q ∧ q < (sqrtLoHi q).2 ^ 2 ∧
    (sqrtLoHi q).2 - (sqrtLoHi q).1 ≤ 1 / 10 ^ 30 :=
  sqrtLoHi_sound q hq

/-- Non-vacuity: the hypothesis is satisfiable (`q = 2`, an irrational root). -/
example : (sqrtLoHi 2).1 ^ 2 ≤ 2 ∧ (2 : ℚ) < (sqrtLoHi 2).2 ^ 2 :=
  ⟨(sqrt_enclosure_sound 2 (by norm_num)).2.1, (sqrt_enclosure_sound 2 (by norm_num)).2.2.1⟩

end Moyo.C14
