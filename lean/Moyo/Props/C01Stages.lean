import Moyo.Model.StageOps
import Moyo.Proofs.OracleAlgebra
/-
Stage S4 (operations_in_cell) — theorems about the stage model `Stage.operationsInCell`, which is tied
to `search::primitive_symmetry_search::operations_in_cell` by the stage correspondence of checks/stages
(all generated cases: identical rotations, translations equal modulo 1 to 1e-10).
Together with `conj_exact` (Props/C01.lean) they give the mechanism of C01/C02 for non-primitive input
cells: every reported rotation `N` is an exact integral conjugate `L N = R L` of a rotation `R` found in
the primitive cell, so it has the same determinant, preserves the input metric as well as `R` preserves
the primitive one, and has the same Cartesian operator.
-/
namespace Moyo.C01
open Moyo Moyo.Stage Moyo.OracleP

/-- `transformOp` returns exactly the integral conjugate: `L N = R L` and `L t' = t`. -/
theorem transformOp_conj (L : M3) (o o' : OpQ) (h : transformOp L o = some o') :
    L.det ≠ 0 ∧ L.mul o'.rot = o.rot.mul L ∧ L.applyQ o'.trans = o.trans := by
  unfold transformOp at h
  simp only at h
  split at h
  · rename_i hc
    obtain ⟨hdet, hdiv⟩ := hc
    simp only [Option.some.injEq] at h
    subst h
    refine ⟨hdet, ?_, ?_⟩
    · exact conj_of_adj hdet (M3.smul_divExact hdiv)
    · simp only
      have hq : (QM3.ofM3 L).det ≠ 0 := by
        rw [QM3.ofM3_det]; exact_mod_cast hdet
      have : QM3.smul (1 / (L.det : Rat)) (QM3.ofM3 L.adj) = (QM3.ofM3 L).inv := by
        unfold QM3.inv; rw [QM3.ofM3_det, QM3.ofM3_adj]
      rw [this, M3.applyQ_eq]
      exact QM3.apply_inv_apply _ hq _
  · simp at h

/-- A non-integral conjugate is dropped (never rounded): if `L N = R L` has no integer solution `N`,
`transformOp` returns `none`. -/
theorem transformOp_none_of_not_integral (L : M3) (o : OpQ)
    (h : ¬ ∃ N : M3, L.mul N = o.rot.mul L) : transformOp L o = none := by
  cases hres : transformOp L o with
  | none => rfl
  | some o' => exact absurd ⟨o'.rot, (transformOp_conj L o o' hres).2.1⟩ h

/-- Every operation produced by `operationsInCell` has a rotation that is the exact conjugate of the
rotation of some primitive operation, and its translation is (the truncated fractional part of) a pure
translation of the input cell plus the conjugated translation. -/
theorem operationsInCell_mem (L : M3) (ts : List Q3) (ops : List OpQ) (q : OpQ)
    (hq : q ∈ operationsInCell L ts ops) :
    ∃ o ∈ ops, ∃ o', transformOp L o = some o' ∧ q.rot = o'.rot ∧ L.mul q.rot = o.rot.mul L ∧
      ∃ t1 ∈ ts, q.trans = truncFrac3 (t1.add o'.trans) := by
  unfold operationsInCell at hq
  simp only [List.mem_flatMap, List.mem_map, List.mem_filterMap] at hq
  obtain ⟨t1, ht1, o', ⟨o, ho, hoo'⟩, rfl⟩ := hq
  exact ⟨o, ho, o', hoo', rfl, (transformOp_conj L o o' hoo').2.1, t1, ht1, rfl⟩

/-- The number of reported operations is (#pure translations) x (#primitive operations with an
integral conjugate). -/
theorem operationsInCell_length (L : M3) (ts : List Q3) (ops : List OpQ) :
    (operationsInCell L ts ops).length = ts.length * (ops.filterMap (transformOp L)).length := by
  unfold operationsInCell
  induction ts with
  | nil => simp
  | cons t ts ih => simp [List.flatMap_cons, ih, Nat.succ_mul, Nat.add_comm]

/-- Non-vacuity (the witness of defect #6, DESIGN §10.2): for `L = [[-2,0,2],[1,1,2],[3,3,0]]`
(det 12) the rotation `R = [[-1,0,0],[0,-1,0],[-1,-1,1]]` has a non-integral conjugate and is dropped,
while the inversion is kept. -/
example :
    transformOp ⟨-2, 0, 2, 1, 1, 2, 3, 3, 0⟩ ⟨⟨-1, 0, 0, 0, -1, 0, -1, -1, 1⟩, ⟨0, 0, 0⟩⟩ = none ∧
    (transformOp ⟨-2, 0, 2, 1, 1, 2, 3, 3, 0⟩ ⟨M3.one.neg, ⟨0, 0, 0⟩⟩).map (·.rot) = some M3.one.neg := by
  decide +kernel

end Moyo.C01
