import Moyo.Props.C09
import Mathlib.Tactic.Linarith
import Mathlib.Tactic.Positivity
import Mathlib.Tactic.Ring
import Mathlib.Algebra.Order.Field.Basic
/-
C09 — "the reported symprec and angle tolerance are positive and finite".

In the model every tolerance is `requested · S^e` with `S = INITIAL_SYMMETRY_SEARCH_STRIDE > 1` and
`e` the tracked exponent, so positivity is built in and finiteness is a bound on `|e|`.  Proved here
for EVERY behaviour of the attempts: each update of `ToleranceHandler` moves the exponent by a step in
(0, 1], hence after at most 64 attempts every tried (and the returned) exponent lies in [-64, 64]:
the reported tolerances lie between `requested · S^-64` and `requested · S^64`.
(That the implementation's tolerances are `requested · S^e` for the model's `e` is the S12
correspondence of checks/c09.py: recorded handler updates vs. `replayErrors`.)
-/
namespace Moyo.C09
open Moyo Moyo.Tol Moyo.Generated

/-- One `ToleranceHandler::update` moves the exponent by at most 1, in either direction. -/
theorem update_step (h : Handler) (err : String) :
    h.e - 1 ≤ (h.update err).e ∧ (h.update err).e ≤ h.e + 1 ∧ (h.update err).e ≠ h.e := by
  unfold Handler.update
  simp only
  generalize (if (h.prev.isSome && h.prev != some err) = true then h.k + 1 else h.k) = k'
  have hpos : (0 : Rat) < ((2 ^ k' : Nat) : Rat) := by positivity
  have hge : (1 : Rat) ≤ ((2 ^ k' : Nat) : Rat) := by
    exact_mod_cast Nat.one_le_two_pow
  have hs0 : (0 : Rat) < 1 / ((2 ^ k' : Nat) : Rat) := by positivity
  have hs1 : 1 / ((2 ^ k' : Nat) : Rat) ≤ 1 := by
    rw [div_le_one hpos]; exact hge
  split <;> refine ⟨by linarith, by linarith, fun h' => by linarith⟩

theorem inner_bound {α : Type} (attempt : Rat → Except String α) :
    ∀ (n : Nat) (h : Handler) (tried : List Rat) (c : Rat),
      (-c ≤ h.e ∧ h.e ≤ c) → (∀ x ∈ tried, -c ≤ x ∧ x ≤ c) →
      let r := inner attempt n h tried
      (∀ x ∈ r.2.2, -(c + n) ≤ x ∧ x ≤ c + n) ∧ (-(c + n) ≤ r.2.1.e ∧ r.2.1.e ≤ c + n) := by
  intro n
  induction n with
  | zero =>
    intro h tried c hh ht
    simpa [inner] using ⟨ht, hh⟩
  | succ n ih =>
    intro h tried c hh ht
    have hn : (0 : Rat) ≤ (n : Rat) := by positivity
    simp only [inner]
    cases hatt : attempt h.e with
    | ok a =>
      simp only [Nat.cast_add, Nat.cast_one]
      refine ⟨?_, by constructor <;> linarith⟩
      intro x hx
      rcases List.mem_cons.mp hx with rfl | hx
      · constructor <;> linarith
      · have := ht x hx; constructor <;> linarith
    | error err =>
      have hu := update_step h err
      have := ih (h.update err) (h.e :: tried) (c + 1) (by constructor <;> linarith) (by
        intro x hx
        rcases List.mem_cons.mp hx with rfl | hx
        · constructor <;> linarith
        · have := ht x hx; constructor <;> linarith)
      simp only [Nat.cast_add, Nat.cast_one]
      have e1 : c + 1 + (n : Rat) = c + ((n : Rat) + 1) := by ring
      rw [e1] at this
      exact this

theorem outer_bound {α : Type} (attempt : Rat → Except String α) (trials : Nat) :
    ∀ (m : Nat) (e0 : Rat) (tried : List Rat) (c : Rat),
      (-c ≤ e0 ∧ e0 ≤ c) → (∀ x ∈ tried, -c ≤ x ∧ x ≤ c) →
      ∀ x ∈ (outer attempt trials m e0 tried).tried, -(c + m * trials) ≤ x ∧ x ≤ c + m * trials := by
  intro m
  induction m with
  | zero =>
    intro e0 tried c _ ht x hx
    simp only [outer, List.mem_reverse] at hx
    have := ht x hx
    simpa using this
  | succ m ih =>
    intro e0 tried c he ht x hx
    have hin := inner_bound attempt trials (Handler.new e0) tried c (by simpa [Handler.new] using he) ht
    have hmt : (0 : Rat) ≤ (m : Rat) * trials := by positivity
    simp only [outer] at hx
    rcases hres : inner attempt trials (Handler.new e0) tried with ⟨v, h', tried'⟩
    rw [hres] at hin hx
    simp only at hin
    have e1 : c + ((m + 1 : Nat) : Rat) * trials = c + trials + m * trials := by push_cast; ring
    rw [e1]
    cases v with
    | some r =>
      simp only [List.mem_reverse] at hx
      have := hin.1 x hx
      constructor <;> linarith
    | none =>
      simp only at hx
      exact ih h'.e tried' (c + trials) hin.2 hin.1 x hx

/-- Every tolerance at which an attempt is made is `requested · S^e` with `-64 ≤ e ≤ 64`, whatever
the attempts return: positive and finite. -/
theorem tried_exponent_bounded {α : Type} (attempt : Rat → Except String α) :
    ∀ e ∈ (search attempt).tried, -64 ≤ e ∧ e ≤ 64 := by
  intro e he
  have := outer_bound attempt maxSymmetrySearchTrials maxToleranceHandlerTrials 0 [] 0
    (by simp) (by simp) e (by simpa [search] using he)
  have hv : ((maxToleranceHandlerTrials : Nat) : Rat) * (maxSymmetrySearchTrials : Nat) = 64 := by
    have := attempts_bound_value
    exact_mod_cast this
  rw [hv] at this
  simpa using this

/-- The returned tolerances are `requested · S^e` with `-64 ≤ e ≤ 64`. -/
theorem returned_exponent_bounded {α : Type} (attempt : Rat → Except String α) (a : α) (e : Rat)
    (h : (search attempt).value = some (a, e)) : -64 ≤ e ∧ e ≤ 64 :=
  tried_exponent_bounded attempt e
    (List.mem_of_getLast? (returned_tolerance_is_last_successful attempt a e h).2)

/-- Non-vacuity: a search that returns after two failures, at exponent -2. -/
example :
    let att : Rat → Except String Nat := fun e => if e ≤ -2 then .ok 1 else .error "TooLargeToleranceError"
    (search att).value = some (1, -2) := by
  decide +kernel

end Moyo.C09
