import Moyo.Spec.C13
import Moyo.Proofs.MagC13
import Moyo.Proofs.MagStandardize
import Mathlib.Algebra.GroupWithZero.Units.Fintype
import Mathlib.Tactic.Ring
/-
C13: magnetic standardized cells are faithful and in the tabulated BNS setting.
* `reynolds_moments`: averaging `ρ_g m_{π_g⁻¹(i)}` over a finite group, `ρ_g = θ_g·det^{[axial]}·Q_g`
  a representation **on the space (frame) the moments are expressed in**, `π` a compatible action on
  the sites, yields moments invariant under every `g`.
* `[N]` negative instances: exact rational witnesses (the inputs of `moyo_harness mag-defect …`) on
  which the formulas of the pinned tree violate that hypothesis and give wrong values — the frame
  mismatch, the conventional site map, the dropped origin shift — and on which symmetrising in the
  input frame and rotating afterwards is right.
* `checkC13_sound`: a silent oracle `MagOracle.checkC13` means every clause of `Spec.C13` holds.
-/
namespace Moyo.C13
open Moyo Moyo.Oracle Moyo.MagOracle Moyo.Spec Moyo.Periodic Moyo.OracleP Moyo.MagP Moyo.MagStd

/-! ### Reynolds operator -/

/-- **Averaged moments are invariant.**  Let `G` be a finite group, `ρ : G → End V` a linear
representation on the space `V` in which the moments are expressed (for magnetic operations
`ρ_g = θ_g · (det R_g)^{[axial]} · Q_g` with `Q_g` the Cartesian rotation *in that same frame*), and
`π` an action of `G` on the sites.  Then `M i = c · Σ_g ρ_g (m (π_g⁻¹ i))` (`c = 1/|G|`: the average
computed by `symmetrize_magnetic_moments`) satisfies `ρ_h (M i) = M (π_h i)` for every `h ∈ G`: each
operation maps the symmetrised moments onto themselves. -/
theorem reynolds_moments {G ι V : Type*} [Group G] [Fintype G] [AddCommGroup V] [Module ℚ V]
    (ρ : G → V →+ V) (hρ : ∀ g h v, ρ (g * h) v = ρ g (ρ h v))
    (π : G → ι → ι) (hπ : ∀ g h i, π (g * h) i = π g (π h i)) (hπ1 : ∀ i, π 1 i = i)
    (m : ι → V) (c : ℚ) (h : G) (i : ι) :
    ρ h (c • ∑ g, ρ g (m (π g⁻¹ i))) = c • ∑ g, ρ g (m (π g⁻¹ (π h i))) :=
  reynolds_average ρ hρ π hπ hπ1 m c h i

/-- Non-vacuity of `reynolds_moments`: the group `{1, 1'}` (`ℤˣ`) acting on scalar moments by its sign
and on two sites by exchange; the hypotheses hold and the averaged moments of `(3, 5)` are `(−1, 1)`,
which the primed operation maps onto each other. -/
example :
    let ρ : ℤˣ → ℚ →+ ℚ := fun u => AddMonoidHom.mulLeft ((u : ℤ) : ℚ)
    let π : ℤˣ → Bool → Bool := fun u b => if u = 1 then b else !b
    (∀ g h v, ρ (g * h) v = ρ g (ρ h v)) ∧ (∀ g h i, π (g * h) i = π g (π h i)) ∧ (∀ i, π 1 i = i) ∧
    ((1 / 2 : ℚ) • ∑ g, ρ g ((fun b => if b then (5 : ℚ) else 3) (π g⁻¹ false)) = -1) := by
  refine ⟨?_, by decide, by decide, by decide +kernel⟩
  intro g h v
  simp only [AddMonoidHom.coe_mulLeft, Units.val_mul, Int.cast_mul]
  ring

/-! ### [N] the three defect sites of the pinned `StandardizedMagneticCell::new` -/

/-- **[N] frame mismatch.**  Axis-aligned `P 2 2` crystal (UNI 99, cell 5×6×7, orbit of
`(1/8,1/4,5/16)` with moment `(1/4,1/2,3/4)`); the standardization returns
`std_rotation_matrix = Qswap` (axes `(b, a, −c)`).  `Qswap` is orthogonal and proper, but it does not
commute with the twofold rotations about `x` and `y`: the Cartesian rotations used by the pinned
formula are not a representation on the rotated moments.  The pinned formula returns `(0, 0, −3/4)`
for site 0 (the value the implementation returns), not the rotated moment `Qswap·m₀ = (−1/2, −1/4, −3/4)`;
symmetrising in the input frame and rotating afterwards returns the rotated moments. -/
theorem frame_defect :
    Qswap.transpose.mul Qswap = QM3.one ∧ Qswap.det = 1 ∧
    Qswap.mul (diag 1 (-1) (-1)) ≠ (diag 1 (-1) (-1)).mul Qswap ∧
    pinnedPrimMoments false true Qswap [0, 1, 2, 3] ops222 moms222 =
      [⟨0, 0, -3/4⟩, ⟨0, 0, -3/4⟩, ⟨0, 0, 3/4⟩, ⟨0, 0, 3/4⟩] ∧
    moms222.map Qswap.apply = [⟨-1/2, -1/4, -3/4⟩, ⟨1/2, 1/4, -3/4⟩, ⟨1/2, -1/4, 3/4⟩, ⟨-1/2, 1/4, 3/4⟩] ∧
    framedPrimMoments false true Qswap ops222 moms222 = moms222.map Qswap.apply := by
  decide +kernel

/-- **[N] conventional site map.**  `C 2 2` crystal (UNI 136) in its own C-centred cell: the primitive
cell has the four sites `x, 2_z x, 2_x x, 2_y x`, the conventional cell eight, and
`site_mapping = [0,0,1,1,2,2,3,3]`; the pinned formula reads the moment of primitive site `i` at
`site_mapping[i]`, i.e. `[0,0,1,1]`.  Here `std_rotation_matrix = diag(−1,−1,1)` commutes with the point
group, so the frame mismatch is harmless, yet the pinned formula returns zero moments (the value the
implementation returns) where reading site `i` itself returns the rotated moments. -/
theorem sitemap_defect :
    (∀ o ∈ ops222, (diag (-1) (-1) 1).mul o.1 = o.1.mul (diag (-1) (-1) 1)) ∧
    pinnedPrimMoments false true (diag (-1) (-1) 1) [0, 0, 1, 1] ops222 moms222 =
      [⟨0, 0, 0⟩, ⟨0, 0, 0⟩, ⟨0, 0, 0⟩, ⟨0, 0, 0⟩] ∧
    pinnedPrimMoments false true (diag (-1) (-1) 1) [0, 1, 2, 3] ops222 moms222 =
      moms222.map (diag (-1) (-1) 1).apply := by
  decide +kernel

/-- **[N] dropped origin shift.**  `P 2 2` crystal with the origin moved off the axes: reported
transformation `L = Qswap`, `s = (−1/8, −1/16, −3/16)`; input atom 0 at `(0, 3/16, 1/8)`.  The position
formula of `Transformation::transform_cell` gives `L⁻¹ x = (−3/16, 0, −1/8)` (the reported
`std_mag_cell` site), the transformation `(L, s)` carries the atom to `(−1/4, −1/8, −5/16)` (the reported
`prim_std_mag_cell` site); the two differ by `L⁻¹ s`, which is not a lattice vector. -/
theorem shift_defect :
    let Linv : QM3 := Qswap.inv
    let s : Q3 := ⟨-1/8, -1/16, -3/16⟩
    let x : Q3 := ⟨0, 3/16, 1/8⟩
    pinnedConvPosition Linv s x Q3.zero = ⟨-3/16, 0, -1/8⟩ ∧
    shiftedConvPosition Linv s x Q3.zero = ⟨-1/4, -1/8, -5/16⟩ ∧
    ((pinnedConvPosition Linv s x Q3.zero).sub (shiftedConvPosition Linv s x Q3.zero)).frac ≠ Q3.zero := by
  decide +kernel

/-! ### the oracle -/

/-- Soundness of the clause list: a silent `checkC13core` means every clause of `Spec.C13` holds of the
dataset.  (Floats never enter: `nearestF` only proposes a candidate, every verdict is the exact test.) -/
theorem checkC13core_sound {cs : MagCaseQ} {d : MagDatasetQ} (h : checkC13core cs d = []) : Spec.C13 cs d := by
  unfold checkC13core at h
  simp only [List.append_eq_nil_iff] at h
  obtain ⟨⟨⟨⟨⟨⟨⟨⟨h1, h2⟩, h3⟩, h4⟩, h5⟩, h6⟩, h7⟩, h8⟩, h9⟩ := h
  replace h1 := ite_nil_singleton h1
  replace h2 := ite_nil_singleton h2
  replace h3 := ite_nil_singleton h3
  replace h6 := ite_nil_singleton h6
  rw [Bool.and_eq_true, decide_eq_true_eq] at h1
  rw [firstFail_eq_nil] at h4 h5 h7 h8
  refine ⟨?_, h1.2, matClose_sound h2, matClose_sound h3, ?_, ?_, h6, ?_, ?_, ?_⟩
  · have := matClose_sound h1.1
    unfold EntriesClose at this
    rw [one_maxAbs] at this
    norm_num at this ⊢
    exact this
  · intro i hi
    have := h4 i hi
    split at this
    · rename_i hsome
      exact findMagSite_sound hsome
    · split at this <;> cases this
  · intro j hj
    have := h5 j hj
    split at this
    · rename_i hsome
      obtain ⟨i, hi⟩ := Option.isSome_iff_exists.1 hsome
      obtain ⟨a, b, c, e⟩ := findSel2_sound hi
      refine ⟨i, a, ?_, withinPeriodic_sound e, momClose_iff.1 c⟩
      simpa [SiteIndex.build] using b
    · split at this <;> cases this
  · intro i hi
    have := h7 i hi
    split at this
    · cases this
    · rename_i j hj
      split at this
      · cases this
      · rename_i hc
        split at this
        · cases this
        · rename_i hm
          simp only [Bool.not_eq_true, Bool.not_eq_false', Bool.and_eq_true, decide_eq_true_eq, beq_iff_eq] at hc hm
          exact ⟨j, hj, hc.1.1, hc.1.2, withinPeriodic_sound hc.2, momClose_iff.1 hm⟩
  · intro o ho
    obtain ⟨k, hk, rfl⟩ := getElem!_of_mem ho
    have := h8 k hk
    split at this
    · rename_i hnone
      exact symFail_none_mag hnone
    · split at this <;> cases this
  · split at h9
    · cases h9
    · rename_i e he
      rw [List.append_eq_nil_iff] at h9
      obtain ⟨hr, ht⟩ := h9
      refine ⟨e, he, ?_, ?_⟩
      · split at hr
        · cases hr
        · rename_i conv hconv
          rw [firstFail_eq_nil] at hr
          refine ⟨conv, hconv, ?_⟩
          intro o ho
          obtain ⟨k, hk, rfl⟩ := List.getElem_of_mem ho
          have := hr k hk
          rw [getElem!_pos conv k hk] at this
          split at this
          · rename_i hnone
            exact symFail_none_pos hnone
          · cases this
      · intro hex
        rw [hex] at ht
        simp only [Bool.false_eq_true, if_false] at ht
        split at ht
        · cases ht
        · rename_i conv hconv
          rw [firstFail_eq_nil] at ht
          refine ⟨conv, hconv, ?_⟩
          intro o ho
          obtain ⟨k, hk, rfl⟩ := List.getElem_of_mem ho
          have := ht k hk
          rw [getElem!_pos conv k hk] at this
          split at this
          · rename_i hnone
            exact symFail_none_mag hnone
          · split at this <;> cases this

/-- Completeness of the clause list (no false alarm): non-degenerate lattices and tolerances inside
the scanned windows. -/
theorem checkC13core_complete {cs : MagCaseQ} {d : MagDatasetQ}
    (hI : cs.mc.cell.lat.det ≠ 0) (hwI : Window cs.mc.cell.lat ((4 * d.symprec) * (4 * d.symprec)))
    (hS : d.std.cell.lat.det ≠ 0) (hwS : Window d.std.cell.lat ((4 * d.symprec) * (4 * d.symprec)))
    (hwE : Window d.std.cell.lat ((1 / 100000000) * (1 / 100000000)))
    (hP : d.prim.cell.lat.det ≠ 0) (hwP : Window d.prim.cell.lat ((4 * d.symprec) * (4 * d.symprec)))
    (h : Spec.C13 cs d) : checkC13core cs d = [] := by
  unfold checkC13core
  simp only [List.append_eq_nil_iff]
  refine ⟨⟨⟨⟨⟨⟨⟨⟨?_, ?_⟩, ?_⟩, ?_⟩, ?_⟩, ?_⟩, ?_⟩, ?_⟩, ?_⟩
  · apply if_pos
    rw [Bool.and_eq_true, decide_eq_true_eq]
    refine ⟨matClose_complete ?_, h.rot_proper⟩
    unfold EntriesClose
    rw [one_maxAbs]
    have := h.rot_orthogonal
    norm_num at this ⊢
    exact this
  · exact if_pos (matClose_complete h.std_lattice)
  · exact if_pos (matClose_complete h.prim_lattice)
  · rw [firstFail_eq_nil]
    intro i hi
    rw [if_pos (findMagSite_complete hS hwS (h.input_lands i hi))]
  · rw [firstFail_eq_nil]
    intro j hj
    obtain ⟨i, hi, hn, hp, hm⟩ := h.std_reached j hj
    rw [if_pos]
    refine findSel2_complete (j := i) hi ?_ (momClose_iff.2 hm) (withinPeriodic_complete hI hwI hp)
    simpa [SiteIndex.build] using hn
  · exact if_pos h.atom_count
  · rw [firstFail_eq_nil]
    intro i hi
    obtain ⟨j, hj, c1, c2, c3, c4⟩ := h.prim_mapping i hi
    rw [hj]
    simp only
    rw [if_neg, if_neg]
    · simp only [Bool.not_eq_true, Bool.not_eq_false']
      exact momClose_iff.2 c4
    · simp only [Bool.not_eq_true, Bool.not_eq_false', Bool.and_eq_true, decide_eq_true_eq, beq_iff_eq]
      exact ⟨⟨c1, c2⟩, withinPeriodic_complete hP hwP c3⟩
  · rw [firstFail_eq_nil]
    intro k hk
    rw [symFail_mag_complete hS hwE (h.reported_symmetric _ (mem_of_getElem! hk))]
  · obtain ⟨e, he, ⟨conv, hconv, hr⟩, ht⟩ := h.tabulated_symmetric
    rw [he]
    simp only [List.append_eq_nil_iff]
    refine ⟨?_, ?_⟩
    · rw [hconv]
      simp only
      rw [firstFail_eq_nil]
      intro k hk
      rw [getElem!_pos conv k hk, symFail_pos_complete hS hwE (hr _ (List.getElem_mem hk))]
    · cases hex : exceptedEntry e
      · obtain ⟨conv', hconv', hm⟩ := ht hex
        simp only [Bool.false_eq_true, if_false]
        rw [hconv']
        simp only
        rw [firstFail_eq_nil]
        intro k hk
        rw [getElem!_pos conv' k hk, symFail_mag_complete hS hwE (hm _ (List.getElem_mem hk))]
      · simp

/-- **Soundness of the C13 oracle.**  `checkC13` appends a diagnostic line to a non-empty clause list
and is otherwise the clause list, so a silent `checkC13` means `Spec.C13` holds of the dataset. -/
theorem checkC13_sound {cs : MagCaseQ} {d : MagDatasetQ} (h : checkC13 cs d = []) : Spec.C13 cs d := by
  apply checkC13core_sound
  unfold checkC13 at h
  simp only at h
  split at h
  · rename_i he
    exact List.isEmpty_iff.1 he
  · simp at h

/-- The diagnostic line never hides a failure: `checkC13` is silent exactly when the clause list is empty. -/
theorem checkC13_nil_iff {cs : MagCaseQ} {d : MagDatasetQ} : checkC13 cs d = [] ↔ checkC13core cs d = [] := by
  unfold checkC13
  simp only
  constructor
  · intro h
    split at h
    · rename_i he
      exact List.isEmpty_iff.1 he
    · simp at h
  · intro h
    rw [h]
    rfl

/-- The oracle decides C13 exactly (non-degenerate lattices, tolerances inside the scanned windows). -/
theorem checkC13_iff {cs : MagCaseQ} {d : MagDatasetQ}
    (hI : cs.mc.cell.lat.det ≠ 0) (hwI : Window cs.mc.cell.lat ((4 * d.symprec) * (4 * d.symprec)))
    (hS : d.std.cell.lat.det ≠ 0) (hwS : Window d.std.cell.lat ((4 * d.symprec) * (4 * d.symprec)))
    (hwE : Window d.std.cell.lat ((1 / 100000000) * (1 / 100000000)))
    (hP : d.prim.cell.lat.det ≠ 0) (hwP : Window d.prim.cell.lat ((4 * d.symprec) * (4 * d.symprec))) :
    checkC13 cs d = [] ↔ Spec.C13 cs d :=
  ⟨checkC13_sound, fun h => checkC13_nil_iff.2 (checkC13core_complete hI hwI hS hwS hwE hP hwP h)⟩

/-! ### Non-vacuity: a concrete case on which all hypotheses hold -/

/-- Two like atoms at ±(1/4,1/4,1/4) in a cubic cell of edge 2 carrying the axial moments `(0,0,1)` and
`(0,0,-1)` (UNI 6, `P -1'`); the dataset reports `{1, 1̄'}`, the identity transformation, and the input
cell itself as `std_mag_cell` and `prim_std_mag_cell`. -/
def exCell : MagCellQ :=
  ⟨⟨⟨2, 0, 0, 0, 2, 0, 0, 0, 2⟩, #[⟨1/4, 1/4, 1/4⟩, ⟨3/4, 3/4, 3/4⟩], #[1, 1]⟩, #[⟨0, 0, 1⟩, ⟨0, 0, -1⟩]⟩
def exCase : MagCaseQ := { (default : MagCaseQ) with mc := exCell, collinear := false, axial := true }
def exData : MagDatasetQ :=
  { (default : MagDatasetQ) with
    uni := 6, ops := #[⟨M3.one, Q3.zero, false⟩, ⟨M3.one.neg, ⟨1, 0, -1⟩, true⟩],
    std := exCell, stdLinear := QM3.one, stdShift := Q3.zero, stdRot := QM3.one,
    prim := exCell, primLinear := QM3.one, primShift := Q3.zero, mapping := #[0, 1],
    symprec := 1 / 10000, magSymprec := 1 / 10000 }

theorem exRef : refConvOps 2 = some [⟨M3.one, Z3.zero, false⟩, ⟨M3.one.neg, Z3.zero, false⟩] := by decide +kernel
theorem exTab : magConvOpsOfUni 6 = some [⟨M3.one, Z3.zero, false⟩, ⟨M3.one.neg, Z3.zero, true⟩] := by decide +kernel

/-- The specification holds of the example, by exhibiting the witnesses. -/
theorem exSpec : Spec.C13 exCase exData := by
  refine ⟨by decide +kernel, by decide +kernel, by unfold EntriesClose; decide +kernel,
    by unfold EntriesClose; decide +kernel, ?_, ?_, by decide +kernel, ?_, ?_, ?_⟩
  · intro i hi
    have hlt : i < 2 := hi
    obtain rfl | rfl : i = 0 ∨ i = 1 := by omega
    · exact ⟨0, by decide, by decide +kernel, ⟨⟨0, 0, 0⟩, by decide +kernel⟩, by decide +kernel⟩
    · exact ⟨1, by decide, by decide +kernel, ⟨⟨0, 0, 0⟩, by decide +kernel⟩, by decide +kernel⟩
  · intro j hj
    have hlt : j < 2 := hj
    obtain rfl | rfl : j = 0 ∨ j = 1 := by omega
    · exact ⟨0, by decide, by decide +kernel, ⟨⟨0, 0, 0⟩, by decide +kernel⟩, by decide +kernel⟩
    · exact ⟨1, by decide, by decide +kernel, ⟨⟨0, 0, 0⟩, by decide +kernel⟩, by decide +kernel⟩
  · intro i hi
    have hlt : i < 2 := hi
    obtain rfl | rfl : i = 0 ∨ i = 1 := by omega
    · exact ⟨0, by decide +kernel, by decide, by decide +kernel, ⟨⟨0, 0, 0⟩, by decide +kernel⟩, by decide +kernel⟩
    · exact ⟨1, by decide +kernel, by decide, by decide +kernel, ⟨⟨0, 0, 0⟩, by decide +kernel⟩, by decide +kernel⟩
  · intro o ho
    have ho' : o = ⟨M3.one, Q3.zero, false⟩ ∨ o = ⟨M3.one.neg, ⟨1, 0, -1⟩, true⟩ := by
      simpa [exData] using ho
    rcases ho' with rfl | rfl
    · intro i hi
      have hlt : i < 2 := hi
      obtain rfl | rfl : i = 0 ∨ i = 1 := by omega
      · exact ⟨0, by decide, by decide +kernel, ⟨⟨0, 0, 0⟩, by decide +kernel⟩, by decide +kernel⟩
      · exact ⟨1, by decide, by decide +kernel, ⟨⟨0, 0, 0⟩, by decide +kernel⟩, by decide +kernel⟩
    · intro i hi
      have hlt : i < 2 := hi
      obtain rfl | rfl : i = 0 ∨ i = 1 := by omega
      · exact ⟨1, by decide, by decide +kernel, ⟨⟨0, 1, 2⟩, by decide +kernel⟩, by decide +kernel⟩
      · exact ⟨0, by decide, by decide +kernel, ⟨⟨0, 1, 2⟩, by decide +kernel⟩, by decide +kernel⟩
  · have h6 : (magTypeOf exData.uni).map (fun e => e.number) = some 2 := by decide +kernel
    obtain ⟨e, he, hnum⟩ : ∃ e, magTypeOf exData.uni = some e ∧ e.number = 2 := by
      cases hm : magTypeOf exData.uni with
      | none => rw [hm] at h6; cases h6
      | some e => rw [hm] at h6; exact ⟨e, rfl, by simpa using h6⟩
    refine ⟨e, he, ⟨_, by rw [hnum]; exact exRef, ?_⟩, fun _ => ⟨_, exTab, ?_⟩⟩
    · intro o ho
      have ho' : o = ⟨M3.one, Z3.zero, false⟩ ∨ o = ⟨M3.one.neg, Z3.zero, false⟩ := by simpa using ho
      rcases ho' with rfl | rfl
      · intro i hi
        have hlt : i < 2 := hi
        obtain rfl | rfl : i = 0 ∨ i = 1 := by omega
        · exact ⟨0, by decide, by decide +kernel, ⟨0, 0, 0⟩, by decide +kernel⟩
        · exact ⟨1, by decide, by decide +kernel, ⟨0, 0, 0⟩, by decide +kernel⟩
      · intro i hi
        have hlt : i < 2 := hi
        obtain rfl | rfl : i = 0 ∨ i = 1 := by omega
        · exact ⟨1, by decide, by decide +kernel, ⟨1, 1, 1⟩, by decide +kernel⟩
        · exact ⟨0, by decide, by decide +kernel, ⟨1, 1, 1⟩, by decide +kernel⟩
    · intro o ho
      have ho' : o = ⟨M3.one, Z3.zero, false⟩ ∨ o = ⟨M3.one.neg, Z3.zero, true⟩ := by simpa using ho
      rcases ho' with rfl | rfl
      · intro i hi
        have hlt : i < 2 := hi
        obtain rfl | rfl : i = 0 ∨ i = 1 := by omega
        · exact ⟨0, by decide, by decide +kernel, ⟨⟨0, 0, 0⟩, by decide +kernel⟩, by decide +kernel⟩
        · exact ⟨1, by decide, by decide +kernel, ⟨⟨0, 0, 0⟩, by decide +kernel⟩, by decide +kernel⟩
      · intro i hi
        have hlt : i < 2 := hi
        obtain rfl | rfl : i = 0 ∨ i = 1 := by omega
        · exact ⟨1, by decide, by decide +kernel, ⟨⟨1, 1, 1⟩, by decide +kernel⟩, by decide +kernel⟩
        · exact ⟨0, by decide, by decide +kernel, ⟨⟨1, 1, 1⟩, by decide +kernel⟩, by decide +kernel⟩

/-- Non-vacuity of `checkC13core_complete` / `checkC13_iff` / `checkC13_sound`: all hypotheses are
simultaneously satisfiable and the oracle is then silent.  (The oracle itself cannot be evaluated in
the kernel because its candidate hint uses `Float`; this is derived, not computed.) -/
example : checkC13 exCase exData = [] :=
  (checkC13_iff (by decide +kernel) (by unfold Window; decide +kernel) (by decide +kernel)
    (by unfold Window; decide +kernel) (by unfold Window; decide +kernel) (by decide +kernel)
    (by unfold Window; decide +kernel)).2 exSpec

/-- … and a wrong standardized moment is not `Spec.C13`: with the moment of `std_mag_cell` site 0
replaced by `(0, 0, −3/4)` the clause `input_lands` fails for atom 0 (no site of the cell carries a
moment within `4·mag_symprec` of `(0,0,1)`). -/
example : ¬ Spec.C13 exCase { exData with std := { exCell with mom := #[⟨0, 0, -3/4⟩, ⟨0, 0, -1⟩] } } := by
  intro h
  obtain ⟨j, hj, _, _, hm⟩ := h.input_lands 0 (by decide)
  have hj' : j < 2 := hj
  obtain rfl | rfl : j = 0 ∨ j = 1 := by omega
  · revert hm; decide +kernel
  · revert hm; decide +kernel

end Moyo.C13
