import Moyo.Model.Tolerance
import Moyo.Model.Oracle
/-
C09 — property theorems.

What is proved (for the model `Tol.search` of `iterative_symmetry_search`, for EVERY behaviour of the
attempts, i.e. for all inputs and all outcomes of the float heuristics inside an attempt):
* if the first attempt succeeds, the returned tolerances are exactly the requested ones;
* the returned exponent is one at which an attempt was actually made and succeeded (the reported
  tolerances are the ones the reported operations were found with);
* at most MAX_TOLERANCE_HANDLER_TRIALS * MAX_SYMMETRY_SEARCH_TRIALS attempts are made (constants
  regenerated from the source).
What is decided on explored inputs only (oracle `checkC09` + the twin comparison of checks/c09.py):
that for a symmetric crystal with noise <= 5% symprec the first attempt does succeed and the answer
equals the undistorted one, and scaling covariance.  The acceptance bounds `noise_accept` /
`rough_match_unique` of DESIGN §3 C09 are not proved yet.
-/
namespace Moyo.C09
open Moyo Moyo.Tol Moyo.Generated

theorem inner_first {α : Type} (attempt : Rat → Except String α) (n : Nat) (h : Handler) (tried : List Rat)
    (a : α) (ha : attempt h.e = .ok a) :
    inner attempt (n + 1) h tried = (some (a, h.e), h, h.e :: tried) := by
  simp [inner, ha]

/-- If the very first attempt (at the requested tolerances, exponent 0) succeeds, the search returns
its value together with exponent 0: returned symprec / angle tolerance = requested ones. -/
theorem first_attempt_returns_request {α : Type} (attempt : Rat → Except String α) (a : α)
    (h0 : attempt 0 = .ok a) :
    (search attempt).value = some (a, 0) ∧ (search attempt).tried = [0] := by
  have hpos1 : maxSymmetrySearchTrials = 15 + 1 := by decide
  have hpos2 : maxToleranceHandlerTrials = 3 + 1 := by decide
  unfold search
  rw [hpos1, hpos2]
  simp [outer, inner, Handler.new, h0]

/-- Non-vacuity: an attempt function that succeeds at once. -/
example : (search (fun _ => (.ok 7 : Except String Nat))).value = some (7, 0) := by
  exact (first_attempt_returns_request _ 7 rfl).1

theorem inner_spec {α : Type} (attempt : Rat → Except String α) :
    ∀ (n : Nat) (h : Handler) (tried : List Rat),
      let r := inner attempt n h tried
      (∃ new : List Rat, r.2.2 = new ++ tried ∧ new.length ≤ n) ∧
      (∀ a e, r.1 = some (a, e) → attempt e = .ok a ∧ r.2.2.head? = some e) := by
  intro n
  induction n with
  | zero => intro h tried; simp [inner]
  | succ n ih =>
    intro h tried
    simp only [inner]
    cases hatt : attempt h.e with
    | ok a =>
      refine ⟨⟨[h.e], by simp, by simp⟩, ?_⟩
      intro a' e' heq
      simp at heq
      obtain ⟨rfl, rfl⟩ := heq
      exact ⟨hatt, by simp⟩
    | error err =>
      have := ih (h.update err) (h.e :: tried)
      obtain ⟨⟨new, hnew, hlen⟩, hval⟩ := this
      refine ⟨⟨new ++ [h.e], by simp [hnew], by simp; omega⟩, ?_⟩
      intro a e heq
      exact hval a e heq

theorem outer_spec {α : Type} (attempt : Rat → Except String α) (trials : Nat) :
    ∀ (m : Nat) (e0 : Rat) (tried : List Rat),
      let r := outer attempt trials m e0 tried
      r.tried.length ≤ tried.length + m * trials ∧
      (∀ a e, r.value = some (a, e) → attempt e = .ok a ∧ r.tried.getLast? = some e) := by
  intro m
  induction m with
  | zero => intro e0 tried; simp [outer]
  | succ m ih =>
    intro e0 tried
    simp only [outer]
    have hin := inner_spec attempt trials (Handler.new e0) tried
    obtain ⟨⟨new, hnew, hlen⟩, hval⟩ := hin
    rcases hres : inner attempt trials (Handler.new e0) tried with ⟨v, h', tried'⟩
    rw [hres] at hnew hval
    simp only at hnew hval
    subst hnew
    cases v with
    | some r =>
      simp only
      refine ⟨by simp; rw [Nat.add_mul]; omega, ?_⟩
      intro a e heq
      have := hval a e (by simpa using heq)
      refine ⟨this.1, ?_⟩
      rw [List.getLast?_reverse]; exact this.2
    | none =>
      simp only
      have := ih h'.e (new ++ tried)
      refine ⟨?_, this.2⟩
      have h1 := this.1
      simp only [List.length_append] at h1
      rw [Nat.add_mul]; omega

/-- The retry loop makes at most `MAX_TOLERANCE_HANDLER_TRIALS * MAX_SYMMETRY_SEARCH_TRIALS`
attempts (constants regenerated from symmetry_search.rs), whatever the attempts return. -/
theorem attempts_bounded {α : Type} (attempt : Rat → Except String α) :
    (search attempt).tried.length ≤ maxToleranceHandlerTrials * maxSymmetrySearchTrials := by
  have := (outer_spec attempt maxSymmetrySearchTrials maxToleranceHandlerTrials 0 []).1
  simpa [search] using this

/-- The regenerated bound is 64. -/
theorem attempts_bound_value : maxToleranceHandlerTrials * maxSymmetrySearchTrials = 64 := by decide

/-- The reported tolerances are the ones of the *last* attempt, and that attempt succeeded: the
operations in the dataset were found (and validated) at exactly the returned tolerances. -/
theorem returned_tolerance_is_last_successful {α : Type} (attempt : Rat → Except String α) (a : α) (e : Rat)
    (h : (search attempt).value = some (a, e)) :
    attempt e = .ok a ∧ (search attempt).tried.getLast? = some e := by
  exact (outer_spec attempt maxSymmetrySearchTrials maxToleranceHandlerTrials 0 []).2 a e (by simpa [search] using h)

/-- Non-vacuity for the last two theorems: an attempt that fails twice (too large), then succeeds:
the tolerances go requested → /2 → /4 (exponents 0, -1, -2). -/
example :
    let att : Rat → Except String Nat := fun e => if e ≤ -2 then .ok 1 else .error "TooLargeToleranceError"
    (search att).value = some (1, -2) ∧ (search att).tried = [0, -1, -2] := by
  decide +kernel

/-- Model of `ToleranceHandler::update`: the stride is square-rooted exactly when the error differs
from the previous one (here: too large, too large, too small → steps 1, 1, then 1/2 upwards). -/
example : replayErrors ["TooLargeToleranceError", "TooLargeToleranceError", "TooSmallToleranceError"]
    = [0, -1, -2, -3/2] := by
  decide +kernel

end Moyo.C09
