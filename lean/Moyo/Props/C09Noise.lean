import Moyo.Proofs.NoiseAccept
/-
C09 — why noise of a few percent of `symprec` does not change what the candidate loop of
`PrimitiveSymmetrySearch::new` accepts.  Exact rational arithmetic, arbitrary (non-singular) cells, any number
of atoms.  The objects are those of the stage model (Moyo/Model/StageSearch.lean):
`Search.roughTranslation` (`x_dst - R x_src`), `Search.symTranslation` (the least-squares translation of
`symmetrize_translation_from_permutation` with its `- rough, - round, + rough` trick), `Search.residual`
(`R x_i + t - x_{π(i)}` wrapped by `e - e.round()`), `Search.accept` (`distance < symprec`).

Setting.  `c` is the actual (noisy) cell with positions `x_i`; `y i` are the positions of an ideal crystal with
the EXACT symmetry `(R, t₀, π)`: `R y_i + t₀ = y_{π(i)} + n_i`, `n_i ∈ ℤ³`; `d_i = x_i - y_i` has Cartesian length
`|A d_i| ≤ δ` in the actual lattice `A = c.lat`.  Lengths are stated without square roots:
`LenLe v r :⇔ 0 ≤ r ∧ |v|² ≤ r²` (triangle inequality `Noise.LenLe.add`, by Cauchy–Schwarz).
`NoWrap A r :⇔ r·|row_i A⁻¹| < ½ (i = 1,2,3)` is the explicit "δ is small against the cell" condition: a
fractional vector of Cartesian length `≤ r` then has all components in `(-½, ½)`, so neither of the two
`e - e.round()` steps of the code touches it.

Constants obtained.
* exact isometry of the actual metric (`A = A₀`): every residual has length `≤ 4δ`
  (`|A(R d_i - d_{π(i)})| ≤ 2δ`, the mean adds another `2δ`); accepted whenever `4δ < symprec`.
* `|A R v| ≤ κ|A v|` only: `≤ 2(1+κ)δ`.
* lattice strained by relative `η` (`(1-η)|A₀v| ≤ |Av| ≤ (1+η)|A₀v|`, e.g. `A = S·A₀`, `‖S-I‖_F ≤ η`), `R` an exact
  isometry of the *ideal* metric: `κ = (1+η)/(1-η)`, residuals `≤ 4δ/(1-η)`; accepted whenever `4δ < (1-η)·symprec`.
  There is NO additive `η·diam` term (DESIGN §3 C09 anticipated one): the ideal relation `R y_i + t₀ = y_{π(i)} + n_i`
  is a statement about fractional coordinates and survives any strain of the lattice verbatim; strain enters only
  through the length of `R d_i`.
* uniqueness of the correspondence at radius `ρ`: same-species separation `> 2ρ`; at the rough tolerance
  `ρ = 2·symprec`: `> 4·symprec` in the actual crystal, for which `> 4·symprec + 2δ` in the ideal one suffices.
The non-vacuity examples use the noisy monoclinic 2-atom crystal `Noise.exCell` (Moyo/Proofs/NoiseAccept.lean, last
section): mirror `y ↦ -y`, `δ = 1/200 = symprec/20`, `symprec = 1/10`.
-/
namespace Moyo.C09
open Moyo Moyo.Search Moyo.Spec Moyo.Noise Moyo.Oracle

/-! ### 1. `noise_accept` -/

/-- General form (`|A R v| ≤ κ |A v|`).  With the rough translation `x_{π(src)} - R x_src` of the candidate loop
(`src` any atom; the code takes the pivot) and `2(1+κ)δ` short against the cell:
* the least-squares translation is `t₀ - n_src + mean_i (d_{π(i)} - R d_i)` — all wrapped differences are the
  unwrapped ones;
* every wrapped residual has Cartesian length `≤ 2(1+κ)δ`;
* the candidate is accepted whenever `2(1+κ)δ < symprec`. -/
theorem noise_accept_near (c : CellQ) (y : Nat → Q3) (R : M3) (t0 : Q3) (p : Perm) (nn : Nat → Z3)
    (κ δ symprec : Rat) (src : Nat)
    (hdet : c.lat.det ≠ 0) (hsrc : src < c.n)
    (hperm : ∀ i, i < c.n → papply p i < c.n)
    (hsym : ∀ i, i < c.n → (R.applyQ (y i)).add t0 = (y (papply p i)).add (zq (nn i)))
    (hiso : NearIso c.lat R κ)
    (hδ : ∀ i, i < c.n → LenLe (c.lat.apply (dsp c y i)) δ)
    (hcell : NoWrap c.lat (2 * ((1 + κ) * δ)))
    (hacc : 2 * ((1 + κ) * δ) < symprec) :
    let t := symTranslation c p R (roughTranslation c R src (papply p src))
    t = (t0.add (zq ⟨-(nn src).x, -(nn src).y, -(nn src).z⟩)).add (meanQ3 c.n (eVec c y R p)) ∧
    (∀ i, i < c.n → LenLe (c.lat.apply (residual c p R t i)) (2 * ((1 + κ) * δ))) ∧
    accept c symprec p R t = true := by
  have hn : 0 < c.n := Nat.lt_of_le_of_lt (Nat.zero_le _) hsrc
  have hw1 : NoWrap c.lat ((1 + κ) * δ + (1 + κ) * δ) := by
    have : (1 + κ) * δ + (1 + κ) * δ = 2 * ((1 + κ) * δ) := by ring
    rw [this]; exact hcell
  obtain ⟨htr, hres⟩ := noise_core hdet hn hperm hsym hiso hδ (rough_pivot (c := c) (hsym src hsrc))
    (eVec_lenLe hperm hiso hδ hsrc) hw1 hcell
  exact ⟨htr, fun i hi => (hres i hi).2, accept_of_residuals hacc (fun i hi => (hres i hi).2) hn⟩

/-- Non-vacuity (`κ = 1` from the exact mirror): all hypotheses hold for the example crystal. -/
example : accept exCell (1 / 10) exP exR
    (symTranslation exCell exP exR (roughTranslation exCell exR 0 (papply exP 0))) = true :=
  (noise_accept_near exCell exY exR ⟨0, 0, 0⟩ exP exN 1 (1 / 200) (1 / 10) 0 ex_det (by decide +kernel)
    ex_perm ex_sym ex_iso.nearIso ex_noise (by decide +kernel) (by decide +kernel)).2.2

/-- `noise_accept` (actual lattice = ideal lattice).  `(R, t₀, π)` an exact symmetry of the ideal crystal `y`,
`R` an exact isometry of the metric, atoms displaced by `≤ δ`, `4δ` short against the cell.  Then the
least-squares translation is `t₀ - n_src + mean_i (d_{π(i)} - R d_i)`, every residual has Cartesian length
`≤ 4δ`, and the candidate is accepted whenever `4δ < symprec` — in particular for `δ ≤ 0.05·symprec`. -/
theorem noise_accept (c : CellQ) (y : Nat → Q3) (R : M3) (t0 : Q3) (p : Perm) (nn : Nat → Z3)
    (δ symprec : Rat) (src : Nat)
    (hdet : c.lat.det ≠ 0) (hsrc : src < c.n)
    (hperm : ∀ i, i < c.n → papply p i < c.n)
    (hsym : ∀ i, i < c.n → (R.applyQ (y i)).add t0 = (y (papply p i)).add (zq (nn i)))
    (hiso : IsIsometry c.lat R)
    (hδ : ∀ i, i < c.n → LenLe (c.lat.apply (dsp c y i)) δ)
    (hcell : NoWrap c.lat (4 * δ))
    (hacc : 4 * δ < symprec) :
    let t := symTranslation c p R (roughTranslation c R src (papply p src))
    t = (t0.add (zq ⟨-(nn src).x, -(nn src).y, -(nn src).z⟩)).add (meanQ3 c.n (eVec c y R p)) ∧
    (∀ i, i < c.n → LenLe (c.lat.apply (residual c p R t i)) (4 * δ)) ∧
    accept c symprec p R t = true := by
  have e : 2 * ((1 + 1) * δ) = 4 * δ := by ring
  have := noise_accept_near c y R t0 p nn 1 δ symprec src hdet hsrc hperm hsym hiso.nearIso hδ
    (by rw [e]; exact hcell) (by rw [e]; exact hacc)
  rw [e] at this
  exact this

/-- Non-vacuity: the hypotheses hold for the example crystal (`δ = symprec/20`), and the noise is really there —
the least-squares translation is the ideal `t₀ - n_src = (0,1,0)` plus `mean e = (0, 1/1000, 0)` and the residual of
atom 0 is `mean e - e_0 = (1/1000, 0, -1/2000) ≠ 0`. -/
example :
    accept exCell (1 / 10) exP exR
      (symTranslation exCell exP exR (roughTranslation exCell exR 0 (papply exP 0))) = true ∧
    symTranslation exCell exP exR (roughTranslation exCell exR 0 (papply exP 0)) = ⟨0, 1 + 1 / 1000, 0⟩ ∧
    residual exCell exP exR
      (symTranslation exCell exP exR (roughTranslation exCell exR 0 (papply exP 0))) 0 =
        ⟨1 / 1000, 0, -1 / 2000⟩ :=
  ⟨(noise_accept exCell exY exR ⟨0, 0, 0⟩ exP exN (1 / 200) (1 / 10) 0 ex_det (by decide +kernel)
      ex_perm ex_sym ex_iso ex_noise ex_nowrap (by decide +kernel)).2.2,
    by decide +kernel, by decide +kernel⟩

/-- A matrix strain `A = S·A₀` with Frobenius norm `‖S - I‖_F ≤ η < 1` is a strain of relative size `≤ η`. -/
theorem strain_of_matrix (A0 S : QM3) (η : Rat) (h0 : 0 ≤ η) (h1 : η < 1)
    (hS : frobSq (S.sub QM3.one) ≤ η * η) : Strained A0 (S.mul A0) η :=
  strained_of_matrix h0 h1 hS

/-- Non-vacuity: the example lattice is `exA0` (columns `(4,0,0)`, `(0,5,0)`, `(0,0,6)`) sheared by
`exS = I + E_13/6`, `‖exS - I‖_F = 1/6`. -/
example : exS.mul exA0 = exCell.lat ∧ Strained exA0 exCell.lat (1 / 6) := by
  have h := strain_of_matrix exA0 exS (1 / 6) (by decide +kernel) (by decide +kernel) (by decide +kernel)
  have e : exS.mul exA0 = exCell.lat := by decide +kernel
  exact ⟨e, e ▸ h⟩

/-- `noise_accept` on a strained lattice.  `R` is an exact isometry of the *ideal* metric `A₀ᵀA₀`, the actual
lattice `A = c.lat` is `A₀` strained by relative `≤ η < 1`, displacements `|A d_i| ≤ δ` measured in the actual
lattice.  Then `|A R v| ≤ (1+η)/(1-η)·|A v|`, every residual has Cartesian length `≤ 4δ/(1-η)`, and the candidate is
accepted whenever `4δ/(1-η) < symprec`.  No term proportional to the size of the cell appears. -/
theorem noise_accept_strained (c : CellQ) (A0 : QM3) (y : Nat → Q3) (R : M3) (t0 : Q3) (p : Perm)
    (nn : Nat → Z3) (η δ symprec : Rat) (src : Nat)
    (hdet : c.lat.det ≠ 0) (hsrc : src < c.n)
    (hperm : ∀ i, i < c.n → papply p i < c.n)
    (hsym : ∀ i, i < c.n → (R.applyQ (y i)).add t0 = (y (papply p i)).add (zq (nn i)))
    (hiso : IsIsometry A0 R) (hstrain : Strained A0 c.lat η)
    (hδ : ∀ i, i < c.n → LenLe (c.lat.apply (dsp c y i)) δ)
    (hcell : NoWrap c.lat (4 * δ / (1 - η)))
    (hacc : 4 * δ / (1 - η) < symprec) :
    let t := symTranslation c p R (roughTranslation c R src (papply p src))
    t = (t0.add (zq ⟨-(nn src).x, -(nn src).y, -(nn src).z⟩)).add (meanQ3 c.n (eVec c y R p)) ∧
    (∀ i, i < c.n → LenLe (c.lat.apply (residual c p R t i)) (4 * δ / (1 - η))) ∧
    accept c symprec p R t = true := by
  have hpos : (1 - η) ≠ 0 := by have := hstrain.2.1; intro h; linarith
  have e : 2 * ((1 + (1 + η) / (1 - η)) * δ) = 4 * δ / (1 - η) := by field_simp; ring
  have := noise_accept_near c y R t0 p nn ((1 + η) / (1 - η)) δ symprec src hdet hsrc hperm hsym
    (nearIso_of_strained hiso hstrain) hδ (by rw [e]; exact hcell) (by rw [e]; exact hacc)
  rw [e] at this
  exact this

/-- Non-vacuity: strain `η = 1/6` of the example lattice against `exA0`, the mirror is an isometry of `exA0`;
`4δ/(1-η) = 0.024 < symprec`. -/
example :
    accept exCell (1 / 10) exP exR
      (symTranslation exCell exP exR (roughTranslation exCell exR 0 (papply exP 0))) = true := by
  have hs : Strained exA0 exCell.lat (1 / 6) := by
    have h := strain_of_matrix exA0 exS (1 / 6) (by decide +kernel) (by decide +kernel) (by decide +kernel)
    have e : exS.mul exA0 = exCell.lat := by decide +kernel
    rwa [e] at h
  exact (noise_accept_strained exCell exA0 exY exR ⟨0, 0, 0⟩ exP exN (1 / 6) (1 / 200) (1 / 10) 0
    ex_det (by decide +kernel) ex_perm ex_sym (by decide +kernel) hs ex_noise (by decide +kernel)
    (by decide +kernel)).2.2

/-! ### 2. `rough_match_unique` -/

/-- `rough_match_unique`.  If same-species atoms of the (actual) crystal are farther apart than `2ρ`
(periodically: no lattice translate of `x_j - x_k` has length `≤ 2ρ`), then any point `pt` has at most one atom of a
given species within `ρ` (periodically). -/
theorem rough_match_unique (c : CellQ) (ρ : Rat)
    (hsep : SepGt c.lat c.n (numAt c) (posAt c) ((2 * ρ) * (2 * ρ)))
    (pt : Q3) (j k : Nat) (hj : j < c.n) (hk : k < c.n) (hnum : numAt c j = numAt c k)
    (h1 : PeriodicWithin c.lat (pt.sub (posAt c j)) (ρ * ρ))
    (h2 : PeriodicWithin c.lat (pt.sub (posAt c k)) (ρ * ρ)) : j = k := by
  have e : (2 * ρ) * (2 * ρ) = 4 * (ρ * ρ) := by ring
  rw [e] at hsep
  exact site_unique hsep pt hj hk hnum h1 h2

/-- The correspondence test of the candidate loop at the rough tolerance `2·symprec`: `q` sends every atom to an
atom of its species lying within `2·symprec` of `R x_i + rough` (periodically). -/
def RoughMatch (c : CellQ) (R : M3) (rough : Q3) (symprec : Rat) (q : Perm) : Prop :=
  ∀ i, i < c.n → papply q i < c.n ∧ numAt c (papply q i) = numAt c i ∧
    PeriodicWithin c.lat (((R.applyQ (posAt c i)).add rough).sub (posAt c (papply q i)))
      ((2 * symprec) * (2 * symprec))

/-- With `ρ = 2·symprec`: when same-species atoms are farther apart than `4·symprec`, two correspondences within
the rough tolerance of the same `(R, rough)` coincide. -/
theorem rough_perm_unique (c : CellQ) (R : M3) (rough : Q3) (symprec : Rat) (q q' : Perm)
    (hsep : SepGt c.lat c.n (numAt c) (posAt c) ((4 * symprec) * (4 * symprec)))
    (hq : RoughMatch c R rough symprec q) (hq' : RoughMatch c R rough symprec q') :
    ∀ i, i < c.n → papply q i = papply q' i := by
  intro i hi
  obtain ⟨a1, a2, a3⟩ := hq i hi
  obtain ⟨b1, b2, b3⟩ := hq' i hi
  have e : (4 * symprec) * (4 * symprec) = (2 * (2 * symprec)) * (2 * (2 * symprec)) := by ring
  rw [e] at hsep
  exact rough_match_unique c (2 * symprec) hsep _ _ _ a1 b1 (a2.trans b2.symm) a3 b3

/-- Non-vacuity: in the example crystal the point `R x_0 + rough` has atom 1 within `2·symprec`, and only atom 1. -/
example (k : Nat) (hk : k < exCell.n)
    (h : PeriodicWithin exCell.lat
      (((exR.applyQ (posAt exCell 0)).add (roughTranslation exCell exR 0 1)).sub (posAt exCell k))
      ((2 * (1 / 10)) * (2 * (1 / 10)))) : 1 = k :=
  rough_match_unique exCell (2 * (1 / 10)) (by
      have e : (2 * (2 * (1 / 10 : Rat))) * (2 * (2 * (1 / 10))) = (4 * (1 / 10)) * (4 * (1 / 10)) := by ring
      rw [e]; exact ex_sep_actual) _ 1 k
    (by decide +kernel) hk (by
      have hk' : k < 2 := hk
      interval_cases k <;> decide +kernel)
    ⟨⟨0, 0, 0⟩, by decide +kernel⟩ h

/-- Non-vacuity of `rough_perm_unique`: the exchange `[1,0]` is within the rough tolerance in the example, hence
every correspondence within the rough tolerance is the exchange. -/
example (q : Perm) (hq : RoughMatch exCell exR (roughTranslation exCell exR 0 1) (1 / 10) q) :
    ∀ i, i < exCell.n → papply q i = papply exP i :=
  rough_perm_unique exCell exR _ (1 / 10) q exP ex_sep_actual hq (by
    intro i hi
    have hi' : i < 2 := hi
    interval_cases i
    · exact ⟨by decide +kernel, by decide +kernel, ⟨⟨0, 0, 0⟩, by decide +kernel⟩⟩
    · exact ⟨by decide +kernel, by decide +kernel, ⟨⟨0, 0, 0⟩, by decide +kernel⟩⟩)

/-! ### 3. both together -/

/-- `noise_stable`.  Ideal crystal `y` with the exact symmetry `(R, t₀, π)` (`π` species-preserving), `R` an exact
isometry of the metric, atoms displaced by `δ ≤ symprec/20`, `4δ` short against the cell, same-species atoms of the
ideal crystal farther apart than `4·symprec + 2δ`.  Then, for the rough translation `x_{π(src)} - R x_src`:
* the ideal permutation `π` passes the correspondence test at the rough tolerance `2·symprec`,
* every correspondence that passes it IS `π` (on all atoms), and
* `π` with the least-squares translation is accepted at `symprec`. -/
theorem noise_stable (c : CellQ) (y : Nat → Q3) (R : M3) (t0 : Q3) (p : Perm) (nn : Nat → Z3)
    (δ symprec : Rat) (src : Nat)
    (hdet : c.lat.det ≠ 0) (hsrc : src < c.n) (hs : 0 < symprec)
    (hperm : ∀ i, i < c.n → papply p i < c.n)
    (hspec : ∀ i, i < c.n → numAt c (papply p i) = numAt c i)
    (hsym : ∀ i, i < c.n → (R.applyQ (y i)).add t0 = (y (papply p i)).add (zq (nn i)))
    (hiso : IsIsometry c.lat R)
    (hδ : ∀ i, i < c.n → LenLe (c.lat.apply (dsp c y i)) δ)
    (hδs : 20 * δ ≤ symprec)
    (hcell : NoWrap c.lat (4 * δ))
    (hsep : SepGt c.lat c.n (numAt c) y ((4 * symprec + 2 * δ) * (4 * symprec + 2 * δ))) :
    let rough := roughTranslation c R src (papply p src)
    RoughMatch c R rough symprec p ∧
    (∀ q, RoughMatch c R rough symprec q → ∀ i, i < c.n → papply q i = papply p i) ∧
    accept c symprec p R (symTranslation c p R rough) = true := by
  intro rough
  have hδ0 : 0 ≤ δ := (hδ src hsrc).1
  have h4 : 4 * δ < symprec := by linarith
  have hmatch : RoughMatch c R rough symprec p := by
    intro i hi
    refine ⟨hperm i hi, hspec i hi, ideal_within_rough hsrc hperm hsym hiso.nearIso hδ hi ?_⟩
    have e : 2 * ((1 + 1) * δ) = 4 * δ := by ring
    rw [e]
    have h1 : 4 * δ ≤ 2 * symprec := by linarith
    exact mul_le_mul h1 h1 (by linarith) (by linarith)
  have hsepx : SepGt c.lat c.n (numAt c) (posAt c) ((4 * symprec) * (4 * symprec)) :=
    sep_transfer (by linarith) hδ hsep
  exact ⟨hmatch, fun q hq => rough_perm_unique c R rough symprec q p hsepx hq hmatch,
    (noise_accept c y R t0 p nn δ symprec src hdet hsrc hperm hsym hiso hδ hcell h4).2.2⟩

/-- Non-vacuity: the example crystal (`δ = symprec/20` exactly, atoms `2.5` apart) satisfies every hypothesis. -/
example :
    RoughMatch exCell exR (roughTranslation exCell exR 0 (papply exP 0)) (1 / 10) exP ∧
    (∀ q, RoughMatch exCell exR (roughTranslation exCell exR 0 (papply exP 0)) (1 / 10) q →
      ∀ i, i < exCell.n → papply q i = papply exP i) ∧
    accept exCell (1 / 10) exP exR
      (symTranslation exCell exP exR (roughTranslation exCell exR 0 (papply exP 0))) = true :=
  noise_stable exCell exY exR ⟨0, 0, 0⟩ exP exN (1 / 200) (1 / 10) 0 ex_det (by decide +kernel)
    (by decide +kernel) ex_perm ex_spec ex_sym ex_iso ex_noise (by decide +kernel) ex_nowrap ex_sep_ideal

end Moyo.C09
