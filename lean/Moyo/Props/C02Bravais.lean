import Moyo.Proofs.ReduceAutomorphism
import Moyo.Props.C14
/-
C02, assumption **A-bravais** (DESIGN §C02, §6): `search_bravais_group` enumerates the images of the basis
vectors of the Minkowski-reduced primitive lattice only among lattice vectors with coefficients in {-1,0,1}³.
This file proves (for `EPS = 0`, exact rational bases, same hypothesis `C14.MinkowskiReduced0` as
`C14.minkowski3_minima`) that nothing is lost:

* `automorphism_entries_small` — every integral `R` with `Rᵀ(BᵀB)R = BᵀB` has all nine entries in {-1,0,1}
  (and `automorphism_det`: determinant ±1);
* `reduced_same_length_coeffs` — the coefficient bound for lattice vectors no longer than `b3`, with the
  exceptional families made explicit;
* `same_length_not_small_*` — the plain statement "a lattice vector as long as some `b_i` has coefficients
  in {-1,0,1}" (the literal reading of the comment in the Rust code) is **false**: kernel-checked
  counterexamples.  The exceptional vectors can never be columns of an automorphism, which is why the
  code's restriction is nevertheless complete.

Helper lemmas (over any linearly ordered field): Proofs/ReduceAutomorphism.lean.
-/
namespace Moyo.C02
open Moyo Moyo.Reduce

/-- **Coefficients of short lattice vectors in a Minkowski-reduced basis.**
Let `B` be non-singular and satisfy the twelve conditions of `is_minkowski_reduced` (`EPS = 0`), and let
`n = (x, y, z) ∈ ℤ³` with `|B n|² ≤ |b3|²`.  Then
* `|z| ≤ 1`;
* if `z ≠ 0`: `|x| ≤ 1` and `|y| ≤ 1`;
* if `z = 0` and `|B n|² ≤ |b2|²`: `|y| ≤ 1`, and if moreover `y ≠ 0`: `|x| ≤ 1`.
The two families not covered — `(x, 0, 0)` (multiples of `b1`) and `(x, y, 0)` with `|b2|² < |B n|² ≤ |b3|²` —
are genuine exceptions: `same_length_not_small_b3`, `same_length_not_small_b3_primitive`,
`same_length_not_small_b2`. -/
theorem reduced_same_length_coeffs (B : QM3) (h : C14.MinkowskiReduced0 B) (hB : B.det ≠ 0) (n : Z3)
    (hn : (comb B n).normSq ≤ colsq B 2) :
    n.z.natAbs ≤ 1 ∧
    (n.z ≠ 0 → n.x.natAbs ≤ 1 ∧ n.y.natAbs ≤ 1) ∧
    (n.z = 0 → (comb B n).normSq ≤ colsq B 1 → n.y.natAbs ≤ 1 ∧ (n.y ≠ 0 → n.x.natAbs ≤ 1)) := by
  obtain ⟨h1, h2, h3, h4⟩ := h
  have red := red_of_twelve B h1 h2 h3 h4
  rw [normSq_comb] at hn ⊢
  obtain ⟨hz, ha, hb⟩ := Minima.coeffs_small red (colsq0_pos B hB) n.x n.y n.z hn
  refine ⟨by omega, fun hz0 => ?_, fun hz0 hq => ?_⟩
  · have := ha hz0
    omega
  · obtain ⟨hy, hx⟩ := hb hz0 hq
    refine ⟨by omega, fun hy0 => ?_⟩
    have := hx hy0
    omega

/-- Non-vacuity: in the primitive f.c.c. basis the vector `b1 - b2` is as long as `b3` (tie) and the bound
applies to it. -/
example : C14.MinkowskiReduced0 ⟨0, 1, 1, 1, 0, 1, 1, 1, 0⟩ ∧ (⟨0, 1, 1, 1, 0, 1, 1, 1, 0⟩ : QM3).det ≠ 0 ∧
    (comb ⟨0, 1, 1, 1, 0, 1, 1, 1, 0⟩ ⟨1, -1, 0⟩).normSq = colsq ⟨0, 1, 1, 1, 0, 1, 1, 1, 0⟩ 2 := by
  refine ⟨⟨?_, ?_, ?_, ?_⟩, ?_, ?_⟩ <;>
    (simp [colsq, comb, QM3.col, QM3.apply, Q3.normSq, Q3.dot, QM3.det]; try norm_num)

/-- The plain statement is false (1): tetragonal `a = b = 1, c = 2`: the lattice vector `2·b1` is exactly as
long as `b3`, and its coefficient vector `(2, 0, 0)` is outside {-1,0,1}³. -/
theorem same_length_not_small_b3 :
    C14.MinkowskiReduced0 ⟨1, 0, 0, 0, 1, 0, 0, 0, 2⟩ ∧ (⟨1, 0, 0, 0, 1, 0, 0, 0, 2⟩ : QM3).det ≠ 0 ∧
    (comb ⟨1, 0, 0, 0, 1, 0, 0, 0, 2⟩ ⟨2, 0, 0⟩).normSq = colsq ⟨1, 0, 0, 0, 1, 0, 0, 0, 2⟩ 2 := by
  refine ⟨⟨?_, ?_, ?_, ?_⟩, ?_, ?_⟩ <;>
    (simp [colsq, comb, QM3.col, QM3.apply, Q3.normSq, Q3.dot, QM3.det]; try norm_num)

/-- The plain statement is false (2), with a *primitive* coefficient vector: `b1 = (1,2,0)`, `b2 = (-2,1,0)`,
`b3 = (0,0,5)` (tetragonal, `|b1|² = |b2|² = 5`, `|b3|² = 25`): `2·b1 + b2 = (0,5,0)` is as long as `b3`. -/
theorem same_length_not_small_b3_primitive :
    C14.MinkowskiReduced0 ⟨1, -2, 0, 2, 1, 0, 0, 0, 5⟩ ∧ (⟨1, -2, 0, 2, 1, 0, 0, 0, 5⟩ : QM3).det ≠ 0 ∧
    (comb ⟨1, -2, 0, 2, 1, 0, 0, 0, 5⟩ ⟨2, 1, 0⟩).normSq = colsq ⟨1, -2, 0, 2, 1, 0, 0, 0, 5⟩ 2 := by
  refine ⟨⟨?_, ?_, ?_, ?_⟩, ?_, ?_⟩ <;>
    (simp [colsq, comb, QM3.col, QM3.apply, Q3.normSq, Q3.dot, QM3.det]; try norm_num)

/-- The plain statement is false (3), for the length of `b2`: `diag(1, 2, 2)`: `2·b1` is as long as `b2`. -/
theorem same_length_not_small_b2 :
    C14.MinkowskiReduced0 ⟨1, 0, 0, 0, 2, 0, 0, 0, 2⟩ ∧ (⟨1, 0, 0, 0, 2, 0, 0, 0, 2⟩ : QM3).det ≠ 0 ∧
    (comb ⟨1, 0, 0, 0, 2, 0, 0, 0, 2⟩ ⟨2, 0, 0⟩).normSq = colsq ⟨1, 0, 0, 0, 2, 0, 0, 0, 2⟩ 1 := by
  refine ⟨⟨?_, ?_, ?_, ?_⟩, ?_, ?_⟩ <;>
    (simp [colsq, comb, QM3.col, QM3.apply, Q3.normSq, Q3.dot, QM3.det]; try norm_num)

/-- An integral matrix that preserves the metric of a non-singular Minkowski-reduced basis is unimodular. -/
theorem automorphism_det (B : QM3) (h : C14.MinkowskiReduced0 B) (hB : B.det ≠ 0) (R : M3)
    (hR : ((QM3.ofM3 R).transpose.mul (gram B)).mul (QM3.ofM3 R) = gram B) :
    R.det = 1 ∨ R.det = -1 := by
  obtain ⟨h1, h2, h3, h4⟩ := h
  exact Minima.aut_det (ne_of_gt (Minima.D3_pos (red_of_twelve B h1 h2 h3 h4) (colsq0_pos B hB))) R
    (isAut_of_gram B R hR)

/-- **A-bravais.**  Let `B` be a non-singular rational basis that satisfies the twelve conditions of
`is_minkowski_reduced` (`EPS = 0`), `G = BᵀB` its metric tensor.  Every integer matrix `R` with `RᵀGR = G`
(every lattice automorphism, written in the basis `B`) has all nine entries in {-1, 0, 1}.  Hence the
enumeration of candidate columns over `{-1,0,1}³` in `search_bravais_group` loses no element of the Bravais
group. -/
theorem automorphism_entries_small (B : QM3) (h : C14.MinkowskiReduced0 B) (hB : B.det ≠ 0) (R : M3)
    (hR : ((QM3.ofM3 R).transpose.mul (gram B)).mul (QM3.ofM3 R) = gram B) :
    R.small = true := by
  obtain ⟨h1, h2, h3, h4⟩ := h
  exact Minima.aut_small (red_of_twelve B h1 h2 h3 h4) (colsq0_pos B hB) R (isAut_of_gram B R hR)

/-- The same, for the hypothesis "`B·R` has the same metric tensor as `B`". -/
theorem automorphism_entries_small_basis (B : QM3) (h : C14.MinkowskiReduced0 B) (hB : B.det ≠ 0) (R : M3)
    (hR : gram (B.mul (QM3.ofM3 R)) = gram B) : R.small = true :=
  automorphism_entries_small B h hB R (by rw [← gram_mul]; exact hR)

/-- **The enumeration of `search_bravais_group` reaches every lattice automorphism** (exact arithmetic).
Under the hypotheses of `automorphism_entries_small`, `R` is `Rotation::from_columns(c0, c1, c2)` for three
members `c0, c1, c2` of `iproduct!(-1..=1, -1..=1, -1..=1)` (`SearchBravais.coeffs27`) that pass the exact
versions of all filters of the loop: `|B c_i| = |b_i|` (candidate lists), `(B c0)·(B c1) = b1·b2`,
`(B c1)·(B c2) = b2·b3`, `(B c2)·(B c0) = b3·b1` (metric-tensor elements), `|det| = 1`. -/
theorem automorphism_columns_enumerated (B : QM3) (h : C14.MinkowskiReduced0 B) (hB : B.det ≠ 0) (R : M3)
    (hR : ((QM3.ofM3 R).transpose.mul (gram B)).mul (QM3.ofM3 R) = gram B) :
    ∃ c0 ∈ SearchBravais.coeffs27, ∃ c1 ∈ SearchBravais.coeffs27, ∃ c2 ∈ SearchBravais.coeffs27,
      R = fromColumns c0 c1 c2 ∧
      (comb B c0).normSq = colsq B 0 ∧ (comb B c1).normSq = colsq B 1 ∧ (comb B c2).normSq = colsq B 2 ∧
      (comb B c0).dot (comb B c1) = cdot B 0 1 ∧ (comb B c1).dot (comb B c2) = cdot B 1 2 ∧
      (comb B c2).dot (comb B c0) = cdot B 0 2 ∧ R.det.natAbs = 1 := by
  have hs := automorphism_entries_small B h hB R hR
  have hd := automorphism_det B h hB R hR
  have ha := isAut_of_gram B R hR
  obtain ⟨⟨x0, y0, z0⟩, ⟨x1, y1, z1⟩, ⟨x2, y2, z2⟩⟩ := small_bounds R hs
  refine ⟨⟨R.a, R.d, R.g⟩, mem_coeffs27 _ _ _ x0 y0 z0, ⟨R.b, R.e, R.h⟩, mem_coeffs27 _ _ _ x1 y1 z1,
    ⟨R.c, R.f, R.i⟩, mem_coeffs27 _ _ _ x2 y2 z2, rfl, ?_, ?_, ?_, ?_, ?_, ?_, by omega⟩
  · rw [normSq_comb]; exact ha.h11
  · rw [normSq_comb]; exact ha.h22
  · rw [normSq_comb]; exact ha.h33
  · rw [dot_comb]; exact ha.h12
  · rw [dot_comb]; exact ha.h23
  · have e := ha.h13
    rw [dot_comb]
    simp only [Minima.B3] at e ⊢
    linarith

/-- Non-vacuity, f.c.c. (`G = [[2,1,1],[1,2,1],[1,1,2]]`, many ties): the four-fold rotation about `z`,
`b1 ↦ b1 - b3`, `b2 ↦ b1`, `b3 ↦ b1 - b2`, satisfies the hypotheses. -/
example : C14.MinkowskiReduced0 ⟨0, 1, 1, 1, 0, 1, 1, 1, 0⟩ ∧ (⟨0, 1, 1, 1, 0, 1, 1, 1, 0⟩ : QM3).det ≠ 0 ∧
    gram ⟨0, 1, 1, 1, 0, 1, 1, 1, 0⟩ = ⟨2, 1, 1, 1, 2, 1, 1, 1, 2⟩ ∧
    ((QM3.ofM3 ⟨1, 1, 1, 0, 0, -1, -1, 0, 0⟩).transpose.mul (gram ⟨0, 1, 1, 1, 0, 1, 1, 1, 0⟩)).mul
      (QM3.ofM3 ⟨1, 1, 1, 0, 0, -1, -1, 0, 0⟩) = gram ⟨0, 1, 1, 1, 0, 1, 1, 1, 0⟩ := by
  refine ⟨⟨?_, ?_, ?_, ?_⟩, ?_, ?_, ?_⟩ <;>
    (simp [colsq, comb, QM3.col, QM3.apply, Q3.normSq, Q3.dot, QM3.det, gram, QM3.mul, QM3.transpose,
      QM3.ofM3]; try norm_num)

/-- Non-vacuity, b.c.c. primitive cell `(-1,1,1), (1,-1,1), (1,1,-1)` (`G = [[3,-1,-1],[-1,3,-1],[-1,-1,3]]`,
condition `|b1+b2+b3| ≥ |b3|` tight): the automorphism `b1 ↦ b2`, `b2 ↦ b3`, `b3 ↦ -(b1+b2+b3)`. -/
example : C14.MinkowskiReduced0 ⟨-1, 1, 1, 1, -1, 1, 1, 1, -1⟩ ∧ (⟨-1, 1, 1, 1, -1, 1, 1, 1, -1⟩ : QM3).det ≠ 0 ∧
    ((QM3.ofM3 ⟨0, 0, -1, 1, 0, -1, 0, 1, -1⟩).transpose.mul (gram ⟨-1, 1, 1, 1, -1, 1, 1, 1, -1⟩)).mul
      (QM3.ofM3 ⟨0, 0, -1, 1, 0, -1, 0, 1, -1⟩) = gram ⟨-1, 1, 1, 1, -1, 1, 1, 1, -1⟩ := by
  refine ⟨⟨?_, ?_, ?_, ?_⟩, ?_, ?_⟩ <;>
    (simp [colsq, comb, QM3.col, QM3.apply, Q3.normSq, Q3.dot, QM3.det, gram, QM3.mul, QM3.transpose,
      QM3.ofM3]; try norm_num)

/-- Non-vacuity, hexagonal (`b1 = (1,-1,0)`, `b2 = (0,1,-1)`, `b3 = (1,1,1)`; `G = [[2,-1,0],[-1,2,0],[0,0,3]]`,
`2|b1·b2| = |b1|²` tight): the six-fold rotation `b1 ↦ b1 + b2`, `b2 ↦ -b1`. -/
example : C14.MinkowskiReduced0 ⟨1, 0, 1, -1, 1, 1, 0, -1, 1⟩ ∧ (⟨1, 0, 1, -1, 1, 1, 0, -1, 1⟩ : QM3).det ≠ 0 ∧
    ((QM3.ofM3 ⟨1, -1, 0, 1, 0, 0, 0, 0, 1⟩).transpose.mul (gram ⟨1, 0, 1, -1, 1, 1, 0, -1, 1⟩)).mul
      (QM3.ofM3 ⟨1, -1, 0, 1, 0, 0, 0, 0, 1⟩) = gram ⟨1, 0, 1, -1, 1, 1, 0, -1, 1⟩ := by
  refine ⟨⟨?_, ?_, ?_, ?_⟩, ?_, ?_⟩ <;>
    (simp [colsq, comb, QM3.col, QM3.apply, Q3.normSq, Q3.dot, QM3.det, gram, QM3.mul, QM3.transpose,
      QM3.ofM3]; try norm_num)

/-- Non-vacuity, simple cubic: a signed permutation. -/
example : C14.MinkowskiReduced0 ⟨3, 0, 0, 0, 3, 0, 0, 0, 3⟩ ∧ (⟨3, 0, 0, 0, 3, 0, 0, 0, 3⟩ : QM3).det ≠ 0 ∧
    ((QM3.ofM3 ⟨0, -1, 0, 0, 0, 1, 1, 0, 0⟩).transpose.mul (gram ⟨3, 0, 0, 0, 3, 0, 0, 0, 3⟩)).mul
      (QM3.ofM3 ⟨0, -1, 0, 0, 0, 1, 1, 0, 0⟩) = gram ⟨3, 0, 0, 0, 3, 0, 0, 0, 3⟩ := by
  refine ⟨⟨?_, ?_, ?_, ?_⟩, ?_, ?_⟩ <;>
    (simp [colsq, comb, QM3.col, QM3.apply, Q3.normSq, Q3.dot, QM3.det, gram, QM3.mul, QM3.transpose,
      QM3.ofM3]; try norm_num)

/-- The reduction hypothesis cannot be dropped: for the (unreduced) basis `b1 = (1,0,0)`, `b2 = (2,1,0)`,
`b3 = (0,0,1)` of the cubic lattice the automorphism `b1 ↦ -b1`, `b2 ↦ b2 - 4 b1` (mirror `x ↦ -x`) has an
entry `-4`. -/
example : (⟨1, 2, 0, 0, 1, 0, 0, 0, 1⟩ : QM3).det ≠ 0 ∧
    ((QM3.ofM3 ⟨-1, -4, 0, 0, 1, 0, 0, 0, 1⟩).transpose.mul (gram ⟨1, 2, 0, 0, 1, 0, 0, 0, 1⟩)).mul
      (QM3.ofM3 ⟨-1, -4, 0, 0, 1, 0, 0, 0, 1⟩) = gram ⟨1, 2, 0, 0, 1, 0, 0, 0, 1⟩ ∧
    (⟨-1, -4, 0, 0, 1, 0, 0, 0, 1⟩ : M3).small = false := by
  refine ⟨?_, ?_, ?_⟩ <;>
    (simp [QM3.det, gram, QM3.mul, QM3.transpose, QM3.ofM3, M3.small, M3.toList]; try norm_num)

end Moyo.C02
