import Moyo.Proofs.C16TypesTable
import Moyo.Props.C16
/-
C16, clause (g) at full strength: **the 230 space-group types of the Hall table are mutually
inequivalent** — two table settings with different ITA numbers are never conjugate under a proper
affine map.  Property theorems only.

What is quantified over.  `AffConj prim prim'` (`Moyo/Proofs/TablesConj.lean`) says: there are an
integer matrix `P` with `det P = 1` and a rational origin shift `p / den` (`den > 0`, `12 ∣ den`)
such that `x ↦ P x + p/den` conjugates the group `{(R, t/12 + n) : (R,t) ∈ prim, n ∈ ℤ³}` onto the
corresponding group of `prim'` (both given by coset representatives modulo the lattice ℤ³ of a
primitive basis, so every affine conjugacy of the two space groups that preserves orientation has
this form up to the choice of a rational origin; real origin shifts are not quantified over).
Orientation-reversing maps are excluded, which is why the 11 enantiomorphic pairs count as
different types.

Method.  `Moyo/Model/TypeInvariant.lean` defines, for a system `s : Spec` of word equations and
determinant conditions in unknowns ranging over the elements of prescribed rotation type of the
finite quotient `G / mT`, the number of solutions `count s prim`, and the subset `satRots s prim` of
the point group cut out by a one-unknown system.  `Moyo/Proofs/C16Types*.lean` prove, for all lists
with pairwise different linear parts, `AffConj prim prim' → count s prim = count s prim'` and
`Conjugate (satRots s prim) (satRots s prim')` (no table involved).  For every arithmetic class
`Moyo/Generated/C16TypeSpecs.lean` lists searched systems (certificates); the kernel evaluates the
resulting vector `typeInvOf` for the first setting of each of the 230 types
(`Moyo/Tables/TypesC*.lean`) and checks that the 230 pairs (arithmetic class, vector) are pairwise
different (`types_distinct`).  Different arithmetic classes are handled by
`C16.types_inequivalent_across_classes_partial`; settings of one type are conjugate to its first
setting by `C16.hall_settings_conjugate`.
-/
namespace Moyo.C16Types
open Moyo Moyo.Generated Moyo.TableSpec Moyo.Tables Moyo.TypeInvariant

/-- **Invariance (general, no table).**  Lists of coset representatives with pairwise different
(linear part, time-reversal flag) that are conjugate under a proper affine map have the same number of solutions of
every system whose modulus `m` has a duplicate-free residue list (true for every `m`; needed
here for `m = 2, 3, 4`). -/
theorem count_invariant (s : Spec) (hv : (vecsMod s.m).Nodup) (src tgt : List HOp)
    (hs : (src.map opKey).Nodup) (ht : (tgt.map opKey).Nodup) (h : AffConj src tgt) :
    count s src = count s tgt :=
  TypeInv.count_eq_of_affConj s hv hs ht h

/-- Non-vacuity: the handedness system (fourfold rotations, modulus 4, determinant ≡ 1) has 4096
solutions in P4₁ (Hall 350) and none in P4₃ (Hall 352). -/
example : count (chirSpec 4 (1, 1, false) 4 1) (hallPrimOps 350) = 4096 ∧
    count (chirSpec 4 (1, 1, false) 4 1) (hallPrimOps 352) = 0 := by decide +kernel

/-- `count` is the number of solutions: it equals the defining enumeration `countSpec` (all tuples
of elements of `G / mT` of the prescribed types, filtered by `sat`). -/
theorem count_is_number_of_solutions (s : Spec) (hv : (vecsMod s.m).Nodup) (prim : List HOp)
    (hnd : (prim.map opKey).Nodup) :
    count s prim = (tuples (s.types.map (slotElems s.m prim))).countP (sat s) :=
  TypeInv.count_eq_countSpec s hv hnd

example : count (eqSpec 2 [(-1, 1, false)] [([0, 0], [])]) (hallPrimOps 3) =
    (tuples ([(-1, 1, false)].map (slotElems 2 (hallPrimOps 3)))).countP (sat (eqSpec 2 [(-1, 1, false)] [([0, 0], [])])) :=
  count_is_number_of_solutions _ Tables.vecsMod_nodup_2 _ (TypeInv.keyNodup_of_rotNodup (prim_rots_nodup 3 (by decide) (by decide)))

/-- The class vector is an invariant of the type: the primitive operations of any table setting have
the certificate vector of their ITA number (for the arithmetic class of that number's first setting). -/
theorem setting_has_type_vector : ∀ h : Nat, 1 ≤ h → h ≤ 530 → ∀ (e : HallEntry) (prim : List HOp),
    hallEntry h = some e → hallPrimitive h = some prim →
    typeInvOf (classOfType e.number) prim = typeCert e.number ∧ classOfType e.number = e.arithmeticNumber := by
  intro h h1 h2 e prim he hp
  obtain ⟨n1, n2, _, _⟩ := hallEntry_ranges he
  obtain ⟨e0, prim0, first, he0, hp0, hf, hconj⟩ := C16.hall_settings_conjugate h h1 h2
  rw [he] at he0; cases he0
  rw [hp] at hp0; cases hp0
  obtain ⟨f1, f2⟩ := spglib_range n1 n2
  have hfm := (hallRow_model (hall_rows _ f1 f2)).2
  have hpm := (hallRow_model (hall_rows h h1 h2)).2
  rw [hfm] at hf; cases hf
  rw [hpm] at hp; cases hp
  have facts := typeRow_facts e.number n1 n2
  have hinv := typeInvOf_eq_of_affConj facts.specs (prim_rots_nodup h h1 h2) (prim_rots_nodup _ f1 f2) hconj
  refine ⟨hinv.trans facts.inv, ?_⟩
  -- the first setting has the arithmetic class of `e`
  obtain ⟨ef, _, _, hef, _, _, _⟩ := C16.hall_settings_conjugate _ f1 f2
  show arithOfHall ((spglibHallNumbers.toList[e.number - 1]?).getD 0) = e.arithmeticNumber
  rw [arithOfHall_eq hef]
  by_contra hne
  exact C16.types_inequivalent_across_classes_partial h _ h1 h2 f1 f2 e ef _ _ he hef hpm hfm
    (fun hh => hne hh.symm) hconj

example : typeInvOf (classOfType 92) (hallPrimOps 369) = typeCert 92 := by
  obtain ⟨e, _, _, he, hp, _, _⟩ := C16.hall_settings_conjugate 369 (by decide) (by decide)
  have hn : e.number = 92 := by
    have : hallEntry 369 = some e := he
    have h2 : (hallEntry 369).map (·.number) = some 92 := by decide +kernel
    rw [this] at h2
    simpa using h2
  have := (setting_has_type_vector 369 (by decide) (by decide) e _ he ((hallRow_model (hall_rows 369 (by decide) (by decide))).2)).1
  rwa [hn] at this

/-- The 230 pairs (arithmetic class, certificate vector) are pairwise different. -/
theorem type_vectors_distinct : ∀ n n' : Nat, 1 ≤ n → n ≤ 230 → 1 ≤ n' → n' ≤ 230 → n ≠ n' →
    classOfType n = classOfType n' → typeCert n ≠ typeCert n' := by
  intro n n' h1 h2 h1' h2' hne hc hv
  exact hne (type_eq_of_cert_eq h1 h2 h1' h2' hc hv)

/-- Non-vacuity / sample: I222 and I2₁2₁2₁ (numbers 23, 24, arithmetic class 222I). -/
example : classOfType 23 = classOfType 24 ∧ typeCert 23 ≠ typeCert 24 :=
  ⟨by decide +kernel, type_vectors_distinct 23 24 (by decide) (by decide) (by decide) (by decide) (by decide) (by decide +kernel)⟩

/-- **(g), full statement.**  Two table settings with different ITA numbers are not conjugate under
any proper affine map (integral unimodular linear part of determinant +1 in the primitive bases,
rational origin shift): the 230 space-group types are mutually inequivalent.  Together with
`C16.hall_settings_conjugate` (settings of one number are conjugate) the ITA number is a complete
invariant of the proper affine conjugacy class of a table setting. -/
theorem types_inequivalent : ∀ h h' : Nat, 1 ≤ h → h ≤ 530 → 1 ≤ h' → h' ≤ 530 →
    ∀ (e e' : HallEntry) (prim prim' : List HOp),
      hallEntry h = some e → hallEntry h' = some e' → hallPrimitive h = some prim →
      hallPrimitive h' = some prim' →
      e.number ≠ e'.number → ¬ AffConj prim prim' := by
  intro h h' h1 h2 h1' h2' e e' prim prim' he he' hp hp' hne hconj
  by_cases harith : e.arithmeticNumber = e'.arithmeticNumber
  · obtain ⟨n1, n2, _, _⟩ := hallEntry_ranges he
    obtain ⟨n1', n2', _, _⟩ := hallEntry_ranges he'
    obtain ⟨hv, hc⟩ := setting_has_type_vector h h1 h2 e prim he hp
    obtain ⟨hv', hc'⟩ := setting_has_type_vector h' h1' h2' e' prim' he' hp'
    have hcc : classOfType e.number = classOfType e'.number := by rw [hc, hc', harith]
    have hpm := (hallRow_model (hall_rows h h1 h2)).2
    have hpm' := (hallRow_model (hall_rows h' h1' h2')).2
    rw [hpm] at hp; cases hp
    rw [hpm'] at hp'; cases hp'
    have hinv := typeInvOf_eq_of_affConj (typeRow_facts e.number n1 n2).specs (prim_rots_nodup h h1 h2)
      (prim_rots_nodup h' h1' h2') hconj
    rw [hcc] at hv hinv
    exact type_vectors_distinct e.number e'.number n1 n2 n1' n2' hne hcc (by rw [← hv, hinv, hv'])
  · exact C16.types_inequivalent_across_classes_partial h h' h1 h2 h1' h2' e e' prim prim' he he' hp hp' harith hconj

/-- Non-vacuity: P4₁ (Hall 350, number 76) and P4₃ (Hall 352, number 78), an enantiomorphic pair of
one arithmetic class, are not conjugate under a proper affine map. -/
example : ∃ (e e' : HallEntry) (prim prim' : List HOp), hallEntry 350 = some e ∧ hallEntry 352 = some e' ∧
    hallPrimitive 350 = some prim ∧ hallPrimitive 352 = some prim' ∧
    e.arithmeticNumber = e'.arithmeticNumber ∧ e.number ≠ e'.number ∧ ¬ AffConj prim prim' := by
  obtain ⟨e, prim, _, he, hp, _, _⟩ := C16.hall_settings_conjugate 350 (by decide) (by decide)
  obtain ⟨e', prim', _, he', hp', _, _⟩ := C16.hall_settings_conjugate 352 (by decide) (by decide)
  have hn : (hallEntry 350).map (fun x => (x.number, x.arithmeticNumber)) = some (76, 22) := by decide +kernel
  have hn' : (hallEntry 352).map (fun x => (x.number, x.arithmeticNumber)) = some (78, 22) := by decide +kernel
  rw [he] at hn; rw [he'] at hn'
  simp only [Option.map_some, Option.some.injEq, Prod.mk.injEq] at hn hn'
  have hne : e.number ≠ e'.number := by rw [hn.1, hn'.1]; decide
  exact ⟨e, e', prim, prim', he, he', hp, hp', by rw [hn.2, hn'.2], hne,
    types_inequivalent 350 352 (by decide) (by decide) (by decide) (by decide) e e' prim prim' he he' hp hp' hne⟩

end Moyo.C16Types
