import Moyo.Proofs.Glue
/-
Stage S9 (the body of `MoyoDataset::new` after the stages, moyo/src/lib.rs), part of C05 — theorems about the
stage model `Moyo/Model/StageGlue.lean`, which is tied to lib.rs by the stage correspondence `s9`
(`stages=[…,"s9"]` of checks/c05.py: for every generated case the model, fed with the outputs of the separately
called stages, reproduces every field of the dataset that the real `MoyoDataset::new` returns for the same input —
which also checks the dataflow, i.e. that the composition of the stage models is the composition the code performs).

They close the chain of C05 "the standardized cell is the same crystal under the reported transformation": stage S6
proves it for the transformation `(P, p)` from the *primitive* cell (`std_linear_def`, `transform_cell_complete`,
`Props/C05Stages.lean`); here the reported pair `(std_linear, std_origin_shift) = (L⁻¹P, L⁻¹p)` is shown to be exactly
that transformation preceded by the change to the primitive cell `x_prim = L x`, `A_in = A_prim L`
(`L = prim_cell.linear`), so nothing is lost or re-interpreted between the stage and the dataset.
-/
namespace Moyo.C05
open Moyo Moyo.Glue

/-- The reported `(std_linear, std_origin_shift)`: `L · std_linear = P` and `L · std_origin_shift = p` exactly
(`L = prim_cell.linear`, `(P, p) = std_cell.transformation`); hence for every primitive basis `A_prim` the input basis
`A_in = A_prim L` satisfies `A_in · std_linear = A_prim · P` (the standardized lattice before the rigid rotation), and
mapping an input position with the reported pair, `std_linear⁻¹ (x − std_origin_shift)`, equals mapping it to the
primitive cell first (`x_prim = L x`) and then with the stage-S6 transformation, `P⁻¹ (x_prim − p)`. -/
theorem std_linear_glue (inp : Input) (d : Output) (h : glue inp = .ok d) :
    inp.primLinear.det ≠ 0 ∧
    (QM3.ofM3 inp.primLinear).mul d.stdLinear = QM3.ofM3 inp.tlinear ∧
    inp.primLinear.applyQ d.stdOriginShift = inp.tshift ∧
    (∀ Aprim : QM3, (Aprim.mul (QM3.ofM3 inp.primLinear)).mul d.stdLinear = Aprim.mul (QM3.ofM3 inp.tlinear)) ∧
    (inp.tlinear.det ≠ 0 → ∀ x : Q3,
      d.stdLinear.inv.apply (x.sub d.stdOriginShift) =
        (QM3.ofM3 inp.tlinear).inv.apply ((inp.primLinear.applyQ x).sub inp.tshift)) := by
  obtain ⟨tbl, wys, Linv, bravais, _, _, hL, _, rfl⟩ := glue_ok h
  obtain ⟨hdet, rfl⟩ := linearInv_some hL
  dsimp only
  refine ⟨hdet, compose_linear hdet inp.tlinear inp.tshift, compose_shift hdet inp.tlinear inp.tshift, ?_, ?_⟩
  · intro Aprim
    rw [QM3.mul_assoc, compose_linear hdet]
  · intro hP x
    exact compose_position hdet hP inp.tshift x

/-- The same for the primitive standardized cell: `(prim_std_linear, prim_std_origin_shift) = (L⁻¹P', L⁻¹p')` with
`(P', p') = std_cell.prim_transformation`. -/
theorem prim_std_linear_glue (inp : Input) (d : Output) (h : glue inp = .ok d) :
    inp.primLinear.det ≠ 0 ∧
    (QM3.ofM3 inp.primLinear).mul d.primStdLinear = QM3.ofM3 inp.ptlinear ∧
    inp.primLinear.applyQ d.primStdOriginShift = inp.ptshift ∧
    (∀ Aprim : QM3, (Aprim.mul (QM3.ofM3 inp.primLinear)).mul d.primStdLinear = Aprim.mul (QM3.ofM3 inp.ptlinear)) ∧
    (inp.ptlinear.det ≠ 0 → ∀ x : Q3,
      d.primStdLinear.inv.apply (x.sub d.primStdOriginShift) =
        (QM3.ofM3 inp.ptlinear).inv.apply ((inp.primLinear.applyQ x).sub inp.ptshift)) := by
  obtain ⟨tbl, wys, Linv, bravais, _, _, hL, _, rfl⟩ := glue_ok h
  obtain ⟨hdet, rfl⟩ := linearInv_some hL
  dsimp only
  refine ⟨hdet, compose_linear hdet inp.ptlinear inp.ptshift, compose_shift hdet inp.ptlinear inp.ptshift, ?_, ?_⟩
  · intro Aprim
    rw [QM3.mul_assoc, compose_linear hdet]
  · intro hP x
    exact compose_position hdet hP inp.ptshift x

/-- Non-vacuity: the worked input (`L = diag(1,1,2)`, body-centred standardization) is accepted, and
`std_linear = L⁻¹ P`, `std_origin_shift = L⁻¹ p` come out as expected. -/
example :
    (glue exampleInput).get?.map (fun d => (d.stdLinear, d.stdOriginShift, d.primStdLinear, d.operations.length)) =
      some (⟨0, 1, 1, 1, 0, 1, 1 / 2, 1 / 2, 0⟩, ⟨1 / 4, 0, 1 / 4⟩, ⟨1, 0, 0, 0, 1, 0, 0, 0, 1 / 2⟩, 4) := by
  decide +kernel

/-- Wyckoff letters and site-symmetry symbols of the input atoms: `mapping_std_prim` is `prim_cell.site_mapping`,
there is one letter and one symbol per input atom, and what is reported for input atom `i` is the letter and the
site-symmetry symbol of a site `k` of the standardized cell whose `site_mapping[k]` is `mapping_std_prim[i]` — namely
of the FIRST such site. -/
theorem wyckoff_glue (inp : Input) (d : Output) (h : glue inp = .ok d) :
    d.mappingStdPrim = inp.primSiteMapping ∧
    d.wyckoffs.length = inp.primSiteMapping.length ∧
    d.siteSymmetrySymbols.length = inp.primSiteMapping.length ∧
    ∀ (i j : Nat), d.mappingStdPrim[i]? = some j →
      ∃ (k : Nat) (w : Wy), inp.wyckoffs[k]? = some w ∧ inp.stdSiteMapping[k]? = some j ∧
        (∀ k' < k, inp.stdSiteMapping[k']? ≠ some j) ∧
        d.wyckoffs[i]? = some w.letter ∧ d.siteSymmetrySymbols[i]? = some w.siteSymmetry := by
  obtain ⟨tbl, wys, Linv, bravais, htbl, hwys, _, _, rfl⟩ := glue_ok h
  obtain ⟨hlen, hl⟩ := lookupWy_spec tbl _ wys hwys
  refine ⟨rfl, by simp [hlen], by simp [hlen], ?_⟩
  intro i j hij
  obtain ⟨w, hw, htj⟩ := hl i j hij
  obtain ⟨k, hk1, hk2, hk3⟩ := stdPrimWyckoffs_spec htbl htj
  exact ⟨k, w, hk1, hk2, hk3, by simp [hw], by simp [hw]⟩

/-- Non-vacuity of "first wins", and the error path: with two std sites mapped to primitive site 0 carrying different
(hypothetical) letters the first one is reported; a primitive site that no std site maps to gives
`WyckoffPositionAssignmentError`. -/
example :
    (stdPrimWyckoffs 2 [⟨"a", 1, "m"⟩, ⟨"b", 1, "1"⟩, ⟨"c", 2, "2"⟩] [0, 0, 1]).toOption =
      some [some ⟨"a", 1, "m"⟩, some ⟨"c", 2, "2"⟩] ∧
    (glue exampleInput).get?.map (·.wyckoffs) = some ["a", "a"] ∧
    (glue { exampleInput with stdSiteMapping := [1, 1], primNatoms := 2 }).tag = "err WyckoffPositionAssignmentError" ∧
    (glue { exampleInput with stdSiteMapping := [0, 2] }).tag = "panic std_prim_wyckoffs[j]" := by
  decide +kernel

/-- The Pearson symbol is the Bravais class of the arithmetic crystal class of the reported Hall number (rows of the
regenerated tables `Generated/HallTable.lean`, `Generated/ArithTable.lean`) followed by the number of atoms of the
standardized cell. -/
theorem pearson_glue (inp : Input) (d : Output) (h : glue inp = .ok d) :
    0 < inp.hallNumber ∧
    ∃ e a, Generated.hallTable[inp.hallNumber.toNat - 1]? = some e ∧
      Generated.arithTable[e.arithmeticNumber - 1]? = some a ∧
      d.pearsonSymbol = a.bravaisClass ++ toString d.stdCell.n := by
  obtain ⟨tbl, wys, Linv, bravais, _, _, _, hb, rfl⟩ := glue_ok h
  unfold bravaisOfHall at hb
  split at hb
  · cases hb
  · rename_i hpos
    split at hb
    · cases hb
    · rename_i e he
      split at hb
      · cases hb
      · split at hb
        · cases hb
        · rename_i a ha
          simp only [Except.ok.injEq] at hb
          subst hb
          exact ⟨by omega, e, a, he, ha, rfl⟩

example : (bravaisOfHall 529).toOption = some "cI" ∧ (bravaisOfHall 1).toOption = some "aP" ∧
    (bravaisOfHall 0).toOption = none ∧ (bravaisOfHall 531).toOption = none ∧
    (glue exampleInput).get?.map (·.pearsonSymbol) = some "cI2" := by
  decide +kernel

/-- Everything else is passed through: number, Hall number, the two cells, the rigid rotation and the tolerances are
copies of the stage outputs; `operations` is the stage-S4 function and `orbits` the stage-S7 function of the stage
outputs (so the theorems of `Props/C01Stages.lean` and `orbits_in_cell_lift` apply to the reported fields). -/
theorem glue_fields (inp : Input) (d : Output) (h : glue inp = .ok d) :
    d.number = inp.number ∧ d.hallNumber = inp.hallNumber ∧
    d.operations = Stage.operationsInCell inp.primLinear inp.translations inp.ops ∧
    d.orbits = Orbits.orbitsInCell inp.primNatoms inp.perms inp.primSiteMapping ∧
    d.stdCell = inp.stdCell ∧ d.primStdCell = inp.primStdCell ∧ d.stdRotationMatrix = inp.rot ∧
    d.symprec = inp.symprec ∧ d.angtol = inp.angtol := by
  obtain ⟨tbl, wys, Linv, bravais, _, _, _, _, rfl⟩ := glue_ok h
  exact ⟨rfl, rfl, rfl, rfl, rfl, rfl, rfl, rfl, rfl⟩

example : (glue exampleInput).get?.map (fun d => (d.number, d.orbits, d.mappingStdPrim)) = some (229, [0, 0], [0, 0]) := by
  decide +kernel

end Moyo.C05
