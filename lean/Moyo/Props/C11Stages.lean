import Moyo.Proofs.GlueMag
import Moyo.Props.C01Stages
import Moyo.Props.C11
/-
Magnetic stages S8m, S9m, S4m, S10m, part of C11 — theorems about the stage models `Moyo/Model/StageMag.lean`, which are
tied to `PrimitiveMagneticCell::new`, `PrimitiveMagneticSymmetrySearch::new`, `magnetic_operations_in_magnetic_cell`
(moyo/src/search) and the body of `MoyoMagneticDataset::new` (moyo/src/lib.rs) by the stage correspondence of
checks/stages_mag.py (harness `mag-stage-gen`: every generated case, every stage output reproduced from the same stage
inputs; the `s10m` line compares with what the real pipeline returns, which also checks the dataflow).

They give the mechanism of C11 "reported magnetic operations are symmetries of the magnetic structure":
* a translation kept by the primitive-magnetic-cell filter carries every moment onto a moment within `mag_symprec`
  (`mag_translations_sound`);
* a `(R, t, θ)` kept by the time-reversal assignment carries every site onto a site of the same species within `symprec`
  and, under the moment action of the property statement (`moment_action`, Props/C11.lean), every moment onto the moment
  of the image site within `mag_symprec` (`mag_accept_sound`); `θ = true` is tried first and both may be kept;
* the operations reported for the input cell are exact integral conjugates `L N = R L`, `L t' = t` of the primitive ones
  with the time-reversal flag unchanged (`mag_transformOp_conj`, `magOperationsInCell_mem/_length`);
* the reported transformation pairs are `(L⁻¹P, L⁻¹p)` exactly (`mag_std_linear_glue`).
-/
namespace Moyo.C11
open Moyo Moyo.Search Moyo.StageMag Moyo.MagOracle Moyo.Oracle

/-! ### S4m -/

/-- `transformMOp` returns exactly the integral conjugate of the space-group part, `L N = R L` and `L t' = t`, and does
not touch the time-reversal flag. -/
theorem mag_transformOp_conj (L : M3) (o o' : MOpQ) (h : transformMOp L o = some o') :
    L.det ≠ 0 ∧ L.mul o'.rot = o.rot.mul L ∧ L.applyQ o'.trans = o.trans ∧ o'.tr = o.tr := by
  unfold transformMOp at h
  cases hq : Stage.transformOp L o.op with
  | none => rw [hq] at h; simp at h
  | some q =>
    rw [hq] at h
    simp only [Option.map_some, Option.some.injEq] at h
    subst h
    obtain ⟨h1, h2, h3⟩ := C01.transformOp_conj L o.op q hq
    exact ⟨h1, h2, h3, rfl⟩

/-- Every operation produced by `magOperationsInCell` is the exact conjugate of a primitive magnetic operation with the
same time-reversal flag, composed with a pure translation of the input cell. -/
theorem magOperationsInCell_mem (L : M3) (ts : List Q3) (ops : List MOpQ) (q : MOpQ)
    (hq : q ∈ magOperationsInCell L ts ops) :
    ∃ o ∈ ops, ∃ o', transformMOp L o = some o' ∧ q.rot = o'.rot ∧ L.mul q.rot = o.rot.mul L ∧ q.tr = o.tr ∧
      ∃ t1 ∈ ts, q.trans = Stage.truncFrac3 (t1.add o'.trans) := by
  unfold magOperationsInCell at hq
  simp only [List.mem_flatMap, List.mem_map, List.mem_filterMap] at hq
  obtain ⟨t1, ht1, o', ⟨o, ho, hoo'⟩, rfl⟩ := hq
  obtain ⟨_, h2, _, h4⟩ := mag_transformOp_conj L o o' hoo'
  exact ⟨o, ho, o', hoo', rfl, h2, h4, t1, ht1, rfl⟩

/-- The number of reported magnetic operations is (#pure translations) x (#primitive magnetic operations with an integral
conjugate). -/
theorem magOperationsInCell_length (L : M3) (ts : List Q3) (ops : List MOpQ) :
    (magOperationsInCell L ts ops).length = ts.length * (ops.filterMap (transformMOp L)).length := by
  unfold magOperationsInCell
  induction ts with
  | nil => simp
  | cons t ts ih => simp [List.flatMap_cons, ih, Nat.succ_mul, Nat.add_comm]

/-- Non-vacuity: for `L = diag(1,1,2)` the anti-translation `(1, (0,0,1/2))'` of the primitive cell becomes
`(1, (0,0,1/4))'` and is reported with both pure translations of the input cell, flag kept. -/
example :
    (magOperationsInCell ⟨1, 0, 0, 0, 1, 0, 0, 0, 2⟩ [⟨0, 0, 0⟩, ⟨0, 0, 1 / 2⟩] [⟨M3.one, ⟨0, 0, 1 / 2⟩, true⟩]).map
      (fun o => (o.trans, o.tr)) = [(⟨0, 0, 1 / 4⟩, true), (⟨0, 0, 3 / 4⟩, true)] := by
  decide +kernel

/-! ### S8m -/

/-- **Filter of `PrimitiveMagneticCell::new`.**  A candidate translation (with its permutation `π`) is kept exactly when
every moment is within `mag_symprec` of the moment of the site it is carried to: `|m_i − m_{π(i)}| < mag_symprec`. -/
theorem mag_translations_sound (mom : Array Q3) (n : Nat) (cands : List (Q3 × Perm)) (msp : Rat) (c : Q3 × Perm) :
    c ∈ filterTranslations mom n cands msp ↔
      c ∈ cands ∧ ∀ i < n, 0 < msp ∧ ((momAt mom i).sub (momAt mom (papply c.2 i))).normSq < msp * msp := by
  unfold filterTranslations
  rw [List.mem_filter, keepsMoments_iff]

/-- The translations and permutations returned by the S8m model are (in order) the kept candidates: each of them is a
translation of the non-magnetic cell that carries every moment onto a moment within `mag_symprec`; their number divides
the number of atoms, and `linear` is a unimodular multiple of the HNF transformation matrix, hence
`det linear = #translations` up to the `det M = size` test of `transformation_matrix_from_translations`. -/
theorem prim_mag_translations_sound (mc : MagCellQ) (cands : List (Q3 × Perm)) (msp : Rat) (lin : Option M3)
    (r : PrimMagRes) (h : primitiveMagModel mc (.ok cands) msp lin = .ok r) :
    r.translations.length = r.perms.length ∧ r.translations.length ≠ 0 ∧ mc.cell.n % r.translations.length = 0 ∧
    (∀ (k : Nat) (t : Q3) (p : Perm), r.translations[k]? = some t → r.perms[k]? = some p →
      (t, p) ∈ cands ∧ ∀ i < mc.cell.n, 0 < msp ∧
        ((momAt mc.mom i).sub (momAt mc.mom (papply p i))).normSq < msp * msp) ∧
    ∃ T2inv : M3, T2inv.det = 1 ∧ r.linear = T2inv.mul r.transMat := by
  obtain ⟨ht, hp, hne, hdiv, _, hlin⟩ := primitiveMagModel_ok h
  refine ⟨by rw [ht, hp]; simp, by rw [ht]; simpa using hne, by rw [ht]; simpa using hdiv, ?_, hlin⟩
  intro k t p hkt hkp
  rw [ht, List.getElem?_map] at hkt
  rw [hp, List.getElem?_map] at hkp
  cases hc : (filterTranslations mc.mom mc.cell.n cands msp)[k]? with
  | none => rw [hc] at hkt; simp at hkt
  | some c =>
    rw [hc] at hkt hkp
    simp only [Option.map_some, Option.some.injEq] at hkt hkp
    have hmem := List.mem_of_getElem? hc
    obtain ⟨h1, h2⟩ := (mag_translations_sound _ _ _ _ c).1 hmem
    subst hkt hkp
    exact ⟨h1, h2⟩

/-- Non-vacuity: two collinear moments `+1, −1` on a body-centred pair: the centring translation swaps the sites and is
refused at `mag_symprec = 1/100`, kept when the moments are equal. -/
example :
    filterTranslations #[⟨1, 0, 0⟩, ⟨-1, 0, 0⟩] 2 [(⟨0, 0, 0⟩, [0, 1]), (⟨1 / 2, 1 / 2, 1 / 2⟩, [1, 0])] (1 / 100) =
      [(⟨0, 0, 0⟩, [0, 1])] ∧
    filterTranslations #[⟨1, 0, 0⟩, ⟨1, 0, 0⟩] 2 [(⟨0, 0, 0⟩, [0, 1]), (⟨1 / 2, 1 / 2, 1 / 2⟩, [1, 0])] (1 / 100) =
      [(⟨0, 0, 0⟩, [0, 1]), (⟨1 / 2, 1 / 2, 1 / 2⟩, [1, 0])] := by
  decide +kernel

/-! ### S9m -/

/-- **Time-reversal assignment.**  Every `(R, t, θ)` kept by the loop of `PrimitiveMagneticSymmetrySearch::new` (with its
permutation `π`) comes from a candidate operation `(R, t)`; `π` sends every site `i` to a site of the same species within
`symprec` (periodic distance) of `R x_i + t`; and the moment action of the property statement,
`m' = θ · (det R)^{[axial]} · (A R A⁻¹) m` (collinear: the scalar rule), carries every moment onto the moment of the image
site within `mag_symprec`. -/
theorem mag_accept_sound (collinear axial : Bool) (mc : MagCellQ) (symprec msp : Rat) (cands : List OpQ)
    (hA : mc.cell.lat.det ≠ 0) (x : MOpQ × Perm)
    (hx : x ∈ assignTimeReversal collinear axial mc msp (candPerms (SiteIndex.build mc.cell) mc.cell symprec cands)) :
    (⟨x.1.rot, x.1.trans⟩ : OpQ) ∈ cands ∧ x.2.length = mc.cell.n ∧
    ∀ i < mc.cell.n,
      papply x.2 i < mc.cell.n ∧ numAt mc.cell i = numAt mc.cell (papply x.2 i) ∧
      withinPeriodic mc.cell.lat (ginvDiag mc.cell.lat)
        ((opAct ⟨x.1.rot, x.1.trans⟩ (posAt mc.cell i)).sub mc.cell.pos[papply x.2 i]!) (symprec * symprec) = true ∧
      0 < msp ∧
      ((momentAct collinear axial (cartRot mc.cell.lat x.1.rot) x.1.rot.det x.1.tr (momAt mc.mom i)).sub
        (momAt mc.mom (papply x.2 i))).normSq < msp * msp := by
  obtain ⟨o, ho, hperm, tr, hacc, hx1⟩ := mem_assignTimeReversal hx
  obtain ⟨hlen, hsite⟩ := permOf_sound hperm
  rw [hx1]
  refine ⟨ho, hlen, ?_⟩
  intro i hi
  obtain ⟨h1, h2, h3⟩ := hsite i hi
  obtain ⟨h4, h5⟩ := (acceptTheta_iff.1 hacc) i hi
  rw [moment_action collinear axial mc.cell.lat o.rot tr _ hA] at h5
  exact ⟨h1, h2, h3, h4, h5⟩

/-- `θ = true` is tried before `θ = false`; for one candidate at most these two are kept, in this order (both are kept
e.g. for vanishing moments: grey groups). -/
theorem mag_theta_order (collinear axial : Bool) (cart : QM3) (mom : Array Q3) (n : Nat) (msp : Rat) (o : OpQ) (p : Perm) :
    (thetasOf collinear axial cart mom n msp o p).map (·.1.tr) =
      [true, false].filter fun tr => acceptTheta collinear axial cart mom n p msp tr :=
  thetasOf_order collinear axial cart mom n msp o p

/-- Non-vacuity: orthorhombic cell, two sites related by the twofold axis along `z`, axial non-collinear moments
`(1,2,3)` and `(−1,−2,3)`: the rotation is kept without time reversal only; with both moments zero it is kept with both
flags; a mirror-related moment pattern `(1,2,3)`, `(1,2,−3)` is kept with time reversal only. -/
example :
    let A : QM3 := ⟨5, 0, 0, 0, 6, 0, 0, 0, 7⟩
    let c2 : OpQ := ⟨⟨-1, 0, 0, 0, -1, 0, 0, 0, 1⟩, Q3.zero⟩
    (thetasOf false true (cartRot A c2.rot) #[⟨1, 2, 3⟩, ⟨-1, -2, 3⟩] 2 (1 / 1000) c2 [1, 0]).map (·.1.tr) = [false] ∧
    (thetasOf false true (cartRot A c2.rot) #[⟨0, 0, 0⟩, ⟨0, 0, 0⟩] 2 (1 / 1000) c2 [1, 0]).map (·.1.tr) = [true, false] ∧
    (thetasOf false true (cartRot A c2.rot) #[⟨1, 2, 3⟩, ⟨1, 2, -3⟩] 2 (1 / 1000) c2 [1, 0]).map (·.1.tr) = [true] := by
  decide +kernel

/-! ### S10m -/

/-- The reported `(std_linear, std_origin_shift)` and `(prim_std_linear, prim_std_origin_shift)` of
`MoyoMagneticDataset::new`: `L · std_linear = P`, `L · std_origin_shift = p` exactly (`L = prim_mag_cell.linear`,
`(P, p) = std_mag_cell.transformation`, resp. `prim_transformation`), and mapping an input position with the reported
pair equals mapping it into the primitive magnetic cell first (`x_prim = L x`) and then with the stage transformation. -/
theorem mag_std_linear_glue (inp : GlueInput) (d : GlueOutput) (h : glueMag inp = some d) :
    inp.primLinear.det ≠ 0 ∧
    (QM3.ofM3 inp.primLinear).mul d.stdLinear = QM3.ofM3 inp.tlinear ∧
    inp.primLinear.applyQ d.stdOriginShift = inp.tshift ∧
    (QM3.ofM3 inp.primLinear).mul d.primStdLinear = QM3.ofM3 inp.ptlinear ∧
    inp.primLinear.applyQ d.primStdOriginShift = inp.ptshift ∧
    (inp.tlinear.det ≠ 0 → ∀ x : Q3,
      d.stdLinear.inv.apply (x.sub d.stdOriginShift) =
        (QM3.ofM3 inp.tlinear).inv.apply ((inp.primLinear.applyQ x).sub inp.tshift)) ∧
    (inp.ptlinear.det ≠ 0 → ∀ x : Q3,
      d.primStdLinear.inv.apply (x.sub d.primStdOriginShift) =
        (QM3.ofM3 inp.ptlinear).inv.apply ((inp.primLinear.applyQ x).sub inp.ptshift)) := by
  obtain ⟨Linv, hL, rfl⟩ := glueMag_some h
  obtain ⟨hdet, rfl⟩ := Glue.linearInv_some hL
  dsimp only
  exact ⟨hdet, Glue.compose_linear hdet inp.tlinear inp.tshift, Glue.compose_shift hdet inp.tlinear inp.tshift,
    Glue.compose_linear hdet inp.ptlinear inp.ptshift, Glue.compose_shift hdet inp.ptlinear inp.ptshift,
    fun hP x => Glue.compose_position hdet hP inp.tshift x, fun hP x => Glue.compose_position hdet hP inp.ptshift x⟩

/-- Everything else is passed through: `magnetic_operations` is the S4m function and `orbits` the S7 function of the
stage outputs (with `mapping_std_prim = prim_mag_cell.site_mapping`), the rest are copies. -/
theorem mag_glue_fields (inp : GlueInput) (d : GlueOutput) (h : glueMag inp = some d) :
    d.uni = inp.uni ∧
    d.magneticOperations = magOperationsInCell inp.primLinear inp.translations inp.mops ∧
    d.mappingStdPrim = inp.primSiteMapping ∧
    d.orbits = Orbits.orbitsInCell inp.primNatoms inp.perms inp.primSiteMapping ∧
    d.stdCell = inp.stdCell ∧ d.primStdCell = inp.primStdCell ∧ d.stdRotationMatrix = inp.rot ∧
    d.symprec = inp.symprec ∧ d.magSymprec = inp.magSymprec ∧ d.angtol = inp.angtol := by
  obtain ⟨Linv, _, rfl⟩ := glueMag_some h
  exact ⟨rfl, rfl, rfl, rfl, rfl, rfl, rfl, rfl, rfl, rfl⟩

example :
    (glueMag { primLinear := ⟨1, 0, 0, 0, 1, 0, 0, 0, 2⟩, primSiteMapping := [0, 0], primNatoms := 1,
               translations := [⟨0, 0, 0⟩, ⟨0, 0, 1 / 2⟩], mops := [⟨M3.one, Q3.zero, false⟩], perms := [[0]], uni := 1,
               stdCell := default, primStdCell := default, tlinear := M3.one, tshift := ⟨0, 0, 1 / 2⟩,
               ptlinear := M3.one, ptshift := ⟨0, 0, 1 / 2⟩, rot := QM3.one, symprec := 1 / 10000,
               magSymprec := 1 / 10000, angtol := none }).map
      (fun d => (d.stdLinear, d.stdOriginShift, d.magneticOperations.length, d.orbits)) =
      some (⟨1, 0, 0, 0, 1, 0, 0, 0, 1 / 2⟩, ⟨0, 0, 1 / 4⟩, 2, [0, 0]) := by
  decide +kernel

end Moyo.C11
