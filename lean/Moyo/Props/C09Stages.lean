import Moyo.Proofs.SearchAccept
/-
Tolerances in stages S1/S3 (C09): what the acceptance test of the stage models
(`Search.accept`, `Search.guardTooLarge`; Moyo/Model/StageSearch.lean — tied to
`symmetrize_translation_from_permutation` + `distance < symprec` by the stage correspondence `s1`, `s3`)
decides, and why candidates are collected with the *rough* tolerance `2·symprec`.
-/
namespace Moyo.C09
open Moyo Moyo.Search Moyo.Spec

/-- The acceptance test `distance < symprec` is exactly: `symprec` is positive and **every** atom `i` lands on
the atom `π(i)` the proposed permutation assigns to it with squared Cartesian residual `< symprec²`, the residual
being `R x_i + t - x_{π(i)}` with each component wrapped by `e - e.round()`. -/
theorem accept_meaning (c : CellQ) (symprec : Rat) (p : Perm) (R : M3) (t : Q3) :
    accept c symprec p R t = true ↔
      0 < symprec ∧ ∀ i, i < c.n → (c.lat.apply (residual c p R t i)).normSq < symprec * symprec :=
  accept_iff c symprec p R t

/-- Non-vacuity: in the cubic cell of edge 4 with atoms at `0` and `(½,½,0.501)`, the inversion with `t = 0` and
the identity permutation has residual `(0,0,-0.002)·4 = 0.008 Å` on the second atom: accepted at `symprec = 1/100`,
rejected at `symprec = 1/200`. -/
example :
    accept ⟨⟨4, 0, 0, 0, 4, 0, 0, 0, 4⟩, #[⟨0, 0, 0⟩, ⟨1 / 2, 1 / 2, 501 / 1000⟩], #[1, 1]⟩ (1 / 100) [0, 1]
      M3.one.neg ⟨0, 0, 0⟩ = true ∧
    accept ⟨⟨4, 0, 0, 0, 4, 0, 0, 0, 4⟩, #[⟨0, 0, 0⟩, ⟨1 / 2, 1 / 2, 501 / 1000⟩], #[1, 1]⟩ (1 / 200) [0, 1]
      M3.one.neg ⟨0, 0, 0⟩ = false := by
  decide +kernel

/-- The guard `rough_symprec > minimum_basis_norm / 2` (with `rough_symprec = 2·symprec`) refuses exactly the
tolerances with `4·symprec` longer than the shortest basis vector (stated on squares). -/
theorem guard_meaning (minNormSq symprec : Rat) :
    guardTooLarge minNormSq symprec = true ↔ 0 < symprec ∧ minNormSq < (4 * symprec) * (4 * symprec) := by
  simp only [guardTooLarge, Bool.and_eq_true, decide_eq_true_eq]
  constructor <;> rintro ⟨h1, h2⟩ <;> exact ⟨h1, by linarith⟩

example : guardTooLarge 16 (1001 / 1000) = true ∧ guardTooLarge 16 1 = false := by decide +kernel

/-- `pivot_enumeration_complete` — why the rough tolerance is twice the final one.
Let `(R, t)` be a symmetry of the cell within `symprec`: every atom `i` is mapped to within `symprec` of some atom
of its species (periodically; `s2 = symprec²`).  Then among the destinations `dst` that the candidate loop tries
for the pivot atom `src` (all atoms of the pivot species, `pivot_site_indices`) there is one whose rough
translation `x_dst - R x_src`
* lies within `symprec` of `t` modulo the lattice (a fortiori within `2·symprec`), and
* with that rough translation *every* atom still lands within `2·symprec` of a same-species atom
  (squared distance `≤ 4·s2`) — the radius with which `solve_correspondence` queries the kd-tree.
So the loop reaches a candidate for every such `(R, t)`, provided `R` is proposed and the kd-tree answers
within its radius. -/
theorem pivot_enumeration_complete (c : CellQ) (R : M3) (t : Q3) (s2 : Rat) (src : Nat) (rest : List Nat)
    (hp : pivotSiteIndices c = src :: rest)
    (hsym : ∀ i, i < c.n → ∃ j, j < c.n ∧ numAt c j = numAt c i ∧
      PeriodicWithin c.lat (((R.applyQ (posAt c i)).add t).sub (posAt c j)) s2) :
    ∃ dst ∈ pivotSiteIndices c,
      PeriodicWithin c.lat ((roughTranslation c R src dst).sub t) s2 ∧
      ∀ i, i < c.n → ∃ j, j < c.n ∧ numAt c j = numAt c i ∧
        PeriodicWithin c.lat
          (((R.applyQ (posAt c i)).add (roughTranslation c R src dst)).sub (posAt c j)) (4 * s2) :=
  pivot_complete hp hsym

/-- Non-vacuity of the hypothesis on the pivot: two species, the rarer one (species 7, one atom) is the pivot. -/
example : pivotSiteIndices ⟨QM3.one, #[⟨0, 0, 0⟩, ⟨1 / 2, 0, 0⟩, ⟨0, 1 / 2, 0⟩], #[3, 7, 3]⟩ = [1] := by
  decide +kernel

end Moyo.C09
