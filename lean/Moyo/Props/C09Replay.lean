import Moyo.Props.C09
/-
C09 — tie between the function the S12 correspondence replays recorded error sequences with
(`Tol.replayErrors`, compared by checks/c09.py with the tolerances `ToleranceHandler` actually produced)
and the model the C09 theorems are about (`Tol.inner` / `Tol.search`): both walk the same sequence of
handler states `handlerStates`, the fold of `ToleranceHandler::update` over the errors met.
Stated for one handler budget (`MAX_SYMMETRY_SEARCH_TRIALS` attempts); the hand-over between handlers
(`outer`: a fresh handler starts from the last exponent) is covered by the recorded cases only.
-/
namespace Moyo.C09
open Moyo Moyo.Tol Moyo.Generated

/-- Handler states met when the errors `errs` are fed to one `ToleranceHandler` in order. -/
def handlerStates : Handler → List String → List Handler
  | h, [] => [h]
  | h, err :: rest => h :: handlerStates (h.update err) rest

theorem handlerStates_ne_nil (h : Handler) (errs : List String) : handlerStates h errs ≠ [] := by
  cases errs <;> simp [handlerStates]

theorem replayGo_within_budget (errs : List String) :
    ∀ (fi fo : Nat) (h : Handler) (acc : List Rat), errs.length ≤ fi →
      replayGo errs fi fo h acc = acc.reverse ++ (handlerStates h errs).map (·.e) := by
  induction errs with
  | nil => intro fi fo h acc _; simp [replayGo, handlerStates]
  | cons err rest ih =>
    intro fi fo h acc hlen
    have hfi : fi ≠ 0 := by simp at hlen; omega
    simp only [replayGo, hfi, if_false, handlerStates, List.map_cons]
    rw [ih (fi - 1) fo (h.update err) (h.e :: acc) (by simp at hlen; omega)]
    simp

/-- The function the S12 correspondence of checks/c09.py replays recorded error sequences with is, as long
as the errors fit into the budget of one handler (`MAX_SYMMETRY_SEARCH_TRIALS`), exactly the fold of
`ToleranceHandler::update` over the errors, started at the requested tolerances: the exponents of the
handler before each update, followed by the exponent after the last one. -/
theorem replay_is_update_fold (errs : List String) (h : errs.length ≤ maxSymmetrySearchTrials) :
    replayErrors errs = (handlerStates (Handler.new 0) errs).map (·.e) := by
  simpa [replayErrors] using
    replayGo_within_budget errs maxSymmetrySearchTrials (maxToleranceHandlerTrials - 1) (Handler.new 0) [] h

/-- The exponents `inner` tries are those same handler states: if the attempts fail with `errs` (in
order) and then succeed, `inner` reports the attempts at the exponents of `handlerStates`. -/
theorem inner_follows_updates {α : Type} (attempt : Rat → Except String α) :
    ∀ (errs : List String) (n : Nat) (h : Handler) (tried : List Rat) (a : α),
      errs.length < n →
      (∀ i (hi : i < errs.length), attempt ((handlerStates h errs)[i]'(by
          have : (handlerStates h errs).length = errs.length + 1 := by
            clear hi; induction errs generalizing h with
            | nil => simp [handlerStates]
            | cons e r ih => simp [handlerStates, ih]
          omega)).e = .error errs[i]) →
      attempt ((handlerStates h errs).getLast (by cases errs <;> simp [handlerStates])).e = .ok a →
      (inner attempt n h tried).2.2 = ((handlerStates h errs).map (·.e)).reverse ++ tried := by
  intro errs
  induction errs with
  | nil =>
    intro n h tried a hn _ hok
    obtain ⟨n, rfl⟩ : ∃ k, n = k + 1 := ⟨n - 1, by simp at hn; omega⟩
    simp [handlerStates] at hok
    simp [inner, hok, handlerStates]
  | cons err rest ih =>
    intro n h tried a hn herr hok
    obtain ⟨n, rfl⟩ : ∃ k, n = k + 1 := ⟨n - 1, by simp at hn; omega⟩
    have h0 := herr 0 (by simp)
    simp [handlerStates] at h0
    simp only [inner, h0]
    rw [ih n (h.update err) (h.e :: tried) a (by simp at hn; omega)
      (fun i hi => by
        have := herr (i + 1) (by simp; omega)
        simpa [handlerStates] using this)
      (by
        have hk := hok
        simp only [handlerStates] at hk
        rw [List.getLast_cons (handlerStates_ne_nil _ _)] at hk
        exact hk)]
    simp [handlerStates]

/-- Non-vacuity: two failures then success; `replayErrors` and `inner` agree on the exponents 0, -1, -2. -/
example :
    let att : Rat → Except String Nat := fun e => if e ≤ -2 then .ok 1 else .error "TooLargeToleranceError"
    replayErrors ["TooLargeToleranceError", "TooLargeToleranceError"] = [0, -1, -2] ∧
    (inner att 16 (Handler.new 0) []).2.2 = [-2, -1, 0] := by
  decide +kernel

end Moyo.C09
