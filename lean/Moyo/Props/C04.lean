import Moyo.Model.Enantiomorph
import Moyo.Spec.Periodic
import Moyo.Proofs.OracleAlgebra
import Mathlib.Tactic.LinearCombination
import Mathlib.Tactic.Ring
import Mathlib.Tactic.Positivity
/-
C04 — identification does not depend on the description.

Level `other`: the statement about the implementation's answers is decided by metamorphic
exploration (checks/c04.py: the real code is run on a crystal and on a random word of re-descriptions
of it, the invariants are extracted by the Lean oracle driver and compared through the recorded site
map).  What is proved here is the covariance of the *specification* under the listed re-descriptions:
if an operation maps a crystal onto itself within a given distance, the transported operation maps the
re-described crystal onto itself within the same distance — so the true symmetry group of the
re-described crystal is the conjugate group, and the invariants compared by the check (type, operations
per primitive cell, orbit partition, stabilizer orders) are invariants of the crystal.
-/
namespace Moyo.C04
open Moyo Moyo.Oracle

/-- The mirror-image map on ITA numbers is an involution that moves exactly the 22 numbers of the 11
enantiomorphic pairs and fixes every other type. -/
theorem partner_involutive : ∀ n, n ≤ 230 → partner (partner n) = n := by
  decide +kernel

theorem partner_moves_exactly_pairs :
    ((List.range 231).filter fun n => partner n != n) =
      [76, 78, 91, 92, 95, 96, 144, 145, 151, 152, 153, 154, 169, 170, 171, 172, 178, 179, 180, 181, 212, 213] := by
  decide +kernel

/-- `op = (R, t)` maps atom position `x` onto atom position `y` of the crystal with basis `A` within
squared distance `r2` under periodic boundary conditions. -/
def Maps (A : QM3) (R : M3) (t : Q3) (x y : Q3) (r2 : Rat) : Prop :=
  Spec.PeriodicWithin A (((R.applyQ x).add t).sub y) r2

/-- Origin shift: positions `x ↦ x - p`; the operation `(R, t)` becomes `(R, t + R p - p)`. -/
theorem covariant_origin_shift (A : QM3) (R : M3) (t p x y : Q3) (r2 : Rat)
    (h : Maps A R t x y r2) :
    Maps A R ((t.add (R.applyQ p)).sub p) (x.sub p) (y.sub p) r2 := by
  unfold Maps Spec.PeriodicWithin at *
  obtain ⟨n, hn⟩ := h
  refine ⟨n, ?_⟩
  have e : (((R.applyQ (x.sub p)).add ((t.add (R.applyQ p)).sub p)).sub (y.sub p)) = (((R.applyQ x).add t).sub y) := by
    simp only [M3.applyQ, Q3.add, Q3.sub, Q3.mk.injEq]
    refine ⟨?_, ?_, ?_⟩ <;> ring
  rw [e]; exact hn

/-- Adding lattice vectors to positions changes nothing: `x ↦ x + a`, `y ↦ y + b` with integer `a`, `b`. -/
theorem covariant_add_integers (A : QM3) (R : M3) (t x y : Q3) (a b : Z3) (r2 : Rat)
    (h : Maps A R t x y r2) :
    Maps A R t (x.add ⟨a.x, a.y, a.z⟩) (y.add ⟨b.x, b.y, b.z⟩) r2 := by
  unfold Maps Spec.PeriodicWithin at *
  obtain ⟨n, hn⟩ := h
  -- the integer vector R a - b is absorbed into the periodic image
  refine ⟨⟨n.x - (R.a * a.x + R.b * a.y + R.c * a.z) + b.x, n.y - (R.d * a.x + R.e * a.y + R.f * a.z) + b.y,
           n.z - (R.g * a.x + R.h * a.y + R.i * a.z) + b.z⟩, ?_⟩
  have e : (⟨(((R.applyQ (x.add ⟨a.x, a.y, a.z⟩)).add t).sub (y.add ⟨b.x, b.y, b.z⟩)).x + ((n.x - (R.a * a.x + R.b * a.y + R.c * a.z) + b.x : Int) : Rat),
             (((R.applyQ (x.add ⟨a.x, a.y, a.z⟩)).add t).sub (y.add ⟨b.x, b.y, b.z⟩)).y + ((n.y - (R.d * a.x + R.e * a.y + R.f * a.z) + b.y : Int) : Rat),
             (((R.applyQ (x.add ⟨a.x, a.y, a.z⟩)).add t).sub (y.add ⟨b.x, b.y, b.z⟩)).z + ((n.z - (R.g * a.x + R.h * a.y + R.i * a.z) + b.z : Int) : Rat)⟩ : Q3)
      = ⟨(((R.applyQ x).add t).sub y).x + n.x, (((R.applyQ x).add t).sub y).y + n.y, (((R.applyQ x).add t).sub y).z + n.z⟩ := by
    simp only [M3.applyQ, Q3.add, Q3.sub, Q3.mk.injEq]
    refine ⟨?_, ?_, ?_⟩ <;> push_cast <;> ring
  rw [e]; exact hn

theorem normSq_rotation (Q : QM3) (hQ : Q.transpose.mul Q = QM3.one) (w : Q3) :
    (Q.apply w).normSq = w.normSq := by
  have h1 := congrArg QM3.a hQ
  have h2 := congrArg QM3.b hQ
  have h3 := congrArg QM3.c hQ
  have h5 := congrArg QM3.e hQ
  have h6 := congrArg QM3.f hQ
  have h9 := congrArg QM3.i hQ
  simp only [QM3.transpose, QM3.mul, QM3.one] at h1 h2 h3 h5 h6 h9
  simp only [QM3.apply, Q3.normSq, Q3.dot]
  linear_combination w.x * w.x * h1 + 2 * w.x * w.y * h2 + 2 * w.x * w.z * h3 + w.y * w.y * h5 +
    2 * w.y * w.z * h6 + w.z * w.z * h9

theorem mul_apply (Q A : QM3) (v : Q3) : (Q.mul A).apply v = Q.apply (A.apply v) := by
  simp only [QM3.mul, QM3.apply, Q3.mk.injEq]
  refine ⟨?_, ?_, ?_⟩ <;> ring

/-- Rigid rotation of the Cartesian frame: `A ↦ Q A` with `QᵀQ = 1` changes no distance. -/
theorem covariant_rotation (A Q : QM3) (hQ : Q.transpose.mul Q = QM3.one) (R : M3) (t x y : Q3) (r2 : Rat)
    (h : Maps A R t x y r2) : Maps (Q.mul A) R t x y r2 := by
  unfold Maps Spec.PeriodicWithin at *
  obtain ⟨n, hn⟩ := h
  refine ⟨n, ?_⟩
  rw [mul_apply, normSq_rotation Q hQ]; exact hn

/-- Uniform scaling of all lengths by `s` scales every squared distance by `s²`
(so with symprec scaled along, acceptance is unchanged). -/
theorem covariant_scaling (A : QM3) (s : Rat) (R : M3) (t x y : Q3) (r2 : Rat)
    (h : Maps A R t x y r2) : Maps (QM3.smul s A) R t x y (s * s * r2) := by
  unfold Maps Spec.PeriodicWithin at *
  obtain ⟨n, hn⟩ := h
  refine ⟨n, ?_⟩
  have key : ∀ v : Q3, ((QM3.smul s A).apply v).normSq = s * s * (A.apply v).normSq := by
    intro v
    simp only [QM3.smul, QM3.apply, Q3.normSq, Q3.dot]; ring
  rw [key]
  have hs : 0 ≤ s * s := mul_self_nonneg s
  exact mul_le_mul_of_nonneg_left hn hs

/-- Unimodular (or any invertible integer) change of basis `A ↦ A U`, `x ↦ U⁻¹ x` written without
inverses: if the new coordinates `x'`, `y'`, the new operation `(N, s)` satisfy `U x' = x`, `U y' = y`,
`U N = R U`, `U s = t`, then `(N, s)` maps `x'` onto `y'` in the basis `A U` within the same distance.
(For a unimodular `U` every integer vector is `U n'` for an integer `n'`; here the hypothesis
`hn` provides it.) -/
theorem covariant_rebase (A : QM3) (U N R : M3) (s t x y x' y' : Q3) (r2 : Rat)
    (hx : U.applyQ x' = x) (hy : U.applyQ y' = y) (hN : U.mul N = R.mul U) (hs : U.applyQ s = t)
    (hsurj : ∀ n : Z3, ∃ n' : Z3, U.apply n' = n)
    (h : Maps A R t x y r2) : Maps (A.mul (QM3.ofM3 U)) N s x' y' r2 := by
  unfold Maps Spec.PeriodicWithin at *
  obtain ⟨n, hn⟩ := h
  obtain ⟨n', hn'⟩ := hsurj n
  refine ⟨n', ?_⟩
  have e : (A.mul (QM3.ofM3 U)).apply ⟨(((N.applyQ x').add s).sub y').x + n'.x, (((N.applyQ x').add s).sub y').y + n'.y, (((N.applyQ x').add s).sub y').z + n'.z⟩
      = A.apply ⟨(((R.applyQ x).add t).sub y).x + n.x, (((R.applyQ x).add t).sub y).y + n.y, (((R.applyQ x).add t).sub y).z + n.z⟩ := by
    subst hx hy hs
    rw [← hn']
    have a1 := congrArg M3.a hN; have a2 := congrArg M3.b hN; have a3 := congrArg M3.c hN
    have a4 := congrArg M3.d hN; have a5 := congrArg M3.e hN; have a6 := congrArg M3.f hN
    have a7 := congrArg M3.g hN; have a8 := congrArg M3.h hN; have a9 := congrArg M3.i hN
    simp only [M3.mul] at a1 a2 a3 a4 a5 a6 a7 a8 a9
    have b1 : ((U.a * N.a + U.b * N.d + U.c * N.g : Int) : Rat) = ((R.a * U.a + R.b * U.d + R.c * U.g : Int) : Rat) := by rw [a1]
    have b2 : ((U.a * N.b + U.b * N.e + U.c * N.h : Int) : Rat) = ((R.a * U.b + R.b * U.e + R.c * U.h : Int) : Rat) := by rw [a2]
    have b3 : ((U.a * N.c + U.b * N.f + U.c * N.i : Int) : Rat) = ((R.a * U.c + R.b * U.f + R.c * U.i : Int) : Rat) := by rw [a3]
    have b4 : ((U.d * N.a + U.e * N.d + U.f * N.g : Int) : Rat) = ((R.d * U.a + R.e * U.d + R.f * U.g : Int) : Rat) := by rw [a4]
    have b5 : ((U.d * N.b + U.e * N.e + U.f * N.h : Int) : Rat) = ((R.d * U.b + R.e * U.e + R.f * U.h : Int) : Rat) := by rw [a5]
    have b6 : ((U.d * N.c + U.e * N.f + U.f * N.i : Int) : Rat) = ((R.d * U.c + R.e * U.f + R.f * U.i : Int) : Rat) := by rw [a6]
    have b7 : ((U.g * N.a + U.h * N.d + U.i * N.g : Int) : Rat) = ((R.g * U.a + R.h * U.d + R.i * U.g : Int) : Rat) := by rw [a7]
    have b8 : ((U.g * N.b + U.h * N.e + U.i * N.h : Int) : Rat) = ((R.g * U.b + R.h * U.e + R.i * U.h : Int) : Rat) := by rw [a8]
    have b9 : ((U.g * N.c + U.h * N.f + U.i * N.i : Int) : Rat) = ((R.g * U.c + R.h * U.f + R.i * U.i : Int) : Rat) := by rw [a9]
    push_cast at b1 b2 b3 b4 b5 b6 b7 b8 b9
    simp only [QM3.mul, QM3.ofM3, QM3.apply, M3.applyQ, M3.apply, Q3.add, Q3.sub, Q3.mk.injEq]
    push_cast
    refine ⟨?_, ?_, ?_⟩
    · linear_combination A.a * (x'.x * b1 + x'.y * b2 + x'.z * b3) + A.b * (x'.x * b4 + x'.y * b5 + x'.z * b6) + A.c * (x'.x * b7 + x'.y * b8 + x'.z * b9)
    · linear_combination A.d * (x'.x * b1 + x'.y * b2 + x'.z * b3) + A.e * (x'.x * b4 + x'.y * b5 + x'.z * b6) + A.f * (x'.x * b7 + x'.y * b8 + x'.z * b9)
    · linear_combination A.g * (x'.x * b1 + x'.y * b2 + x'.z * b3) + A.h * (x'.x * b4 + x'.y * b5 + x'.z * b6) + A.i * (x'.x * b7 + x'.y * b8 + x'.z * b9)
  rw [e]; exact hn

/-- Non-vacuity: the inversion at (1/4,1/4,1/4) of a cubic cell maps (0.1,0.2,0.3) onto (0.4,0.3,0.2),
and after shifting the origin to the inversion centre the transported operation is the inversion at 0. -/
example : Maps QM3.one M3.one.neg ⟨1/2, 1/2, 1/2⟩ ⟨1/10, 1/5, 3/10⟩ ⟨2/5, 3/10, 1/5⟩ 0 := by
  refine ⟨⟨0, 0, 0⟩, ?_⟩
  decide +kernel

end Moyo.C04
