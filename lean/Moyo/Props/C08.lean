import Moyo.Props.C09
import Moyo.Props.C15
import Moyo.Model.C08Retry
import Moyo.Proofs.C08Retry
import Moyo.Proofs.C08Traverse
import Moyo.Proofs.OracleGroup
/-
C08 — analysis always ends with Ok or Err: no panic, hang or unbounded memory.  Property theorems only.

What is proved (about the models; the tie to the code is the correspondence S12 for the retry loop, the
regenerated constants, and the exploration of checks/c08.py):

* retry loops (`iterative_symmetry_search`, `iterative_magnetic_symmetry_search`): at most
  MAX_TOLERANCE_HANDLER_TRIALS * MAX_SYMMETRY_SEARCH_TRIALS = 64 attempts whatever the attempts return, and
  when the loop gives up (`PrimitiveSymmetrySearchError`) every one of the 64 attempts failed;
* group-closure loops (`base::operation::traverse`, the closure loop of `PrimitiveSymmetrySearch::new`,
  `HallSymbol::traverse`, `MagneticHallSymbol::traverse`): NEGATIVE — as written they do not terminate on
  generator sets that contain an element of infinite order, and such sets pass the only pre-check of
  `search_bravais_group` (`48 % len == 0`, entries in {-1,0,1}, |det| = 1); the visited set grows by one
  element per iteration for ever (this is the hang with growing memory of DESIGN §7);
  POSITIVE — with the cap of the proposed fix the loop makes at most `1 + cap * (|gens| + 1)` dequeues and
  returns at most `cap + 1` elements;
* integer normal forms: the loops of `HNF::new` / `SNF::new` always end by their own `break`
  (`Moyo.C15.hnf_completed`, `snf_completed`, re-stated here).

Not proved (explored only, DESIGN §6): termination of the Minkowski / Niggli / Delaunay main loops (needs f64
semantics), real time and memory, panic freedom of the sites listed in `Moyo/Props/C08Sites.lean` beyond
their discharge records.
-/
namespace Moyo.C08
open Moyo Moyo.Tol Moyo.Trav Moyo.Generated

/-! ## Retry loops -/

/-- `iterative_symmetry_search` makes at most 64 attempts (= MAX_TOLERANCE_HANDLER_TRIALS *
MAX_SYMMETRY_SEARCH_TRIALS, constants regenerated from symmetry_search.rs), whatever the attempts return
(`Moyo.C09.attempts_bounded`). -/
theorem attempts_bounded {α : Type} (attempt : Rat → Except String α) :
    (search attempt).tried.length ≤ maxToleranceHandlerTrials * maxSymmetrySearchTrials ∧
    maxToleranceHandlerTrials * maxSymmetrySearchTrials = 64 :=
  ⟨C09.attempts_bounded attempt, C09.attempts_bound_value⟩

/-- Non-vacuity: an attempt that always fails uses exactly the 64 attempts. -/
example : (search (fun _ => (.error "TooSmallToleranceError" : Except String Nat))).tried.length = 64 := by
  decide +kernel

/-- The same for `iterative_magnetic_symmetry_search` (three tolerances, one exponent; see
`Moyo/Model/C08Retry.lean`). -/
theorem magnetic_attempts_bounded {α : Type} (attempt : Rat → Rat → Rat → Except String α) :
    (magSearch attempt).tried.length ≤ maxToleranceHandlerTrials * maxSymmetrySearchTrials ∧
    maxToleranceHandlerTrials * maxSymmetrySearchTrials = 64 :=
  ⟨C09.attempts_bounded _, C09.attempts_bound_value⟩

/-- Non-vacuity: a magnetic attempt that succeeds once `mag_symprec` was halved twice. -/
example :
    let att : Rat → Rat → Rat → Except String Nat :=
      fun _ _ em => if em ≤ -2 then .ok 1 else .error "TooLargeToleranceError"
    (magSearch att).value = some (1, -2) ∧ (magSearch att).tried = [0, -1, -2] := by
  decide +kernel

/-- When the loop gives up (the model's `none` = `Err(PrimitiveSymmetrySearchError)`), exactly 64 attempts
were made and every one of them failed: the error is never returned early. -/
theorem exhausted_after_all_attempts {α : Type} (attempt : Rat → Except String α)
    (h : (search attempt).value = none) :
    (search attempt).tried.length = 64 ∧
    ∀ e, e ∈ (search attempt).tried → ∃ err, attempt e = .error err := by
  have := outer_none_length attempt maxSymmetrySearchTrials maxToleranceHandlerTrials 0 [] (by simpa [search] using h)
  constructor
  · have h1 := this.1
    simp only [List.length_nil, Nat.zero_add] at h1
    rw [show (search attempt).tried.length = _ from h1]
    decide
  · intro e he
    rcases this.2 e (by simpa [search] using he) with hm | hx
    · cases hm
    · exact hx

/-- Non-vacuity: the always-failing attempt does give up. -/
example : (search (fun _ => (.error "TooLargeToleranceError" : Except String Nat))).value = none := by
  decide +kernel

/-! ## Group-closure loops: unbounded as written -/

/-- **Negative.**  There is a generator set that passes every pre-check `search_bravais_group` applies before
calling `traverse` (entries in {-1,0,1}, |det| = 1, `48 % len == 0`) on which `base::operation::traverse` never
terminates, and its visited set has exactly `n` elements after `n` iterations, for every `n`: time and
memory grow without bound. -/
theorem traverse_unbounded :
    ∃ gens : List M3,
      (∀ g, g ∈ gens → g.small = true ∧ (g.det = 1 ∨ g.det = -1)) ∧ gens ≠ [] ∧ 48 % gens.length = 0 ∧
      ∀ n : Nat, (rotSys.run gens n rotSys.init).queue ≠ [] ∧ (rotSys.run gens n rotSys.init).seen.length = n := by
  refine ⟨[shear], ?_, by simp, by decide, ?_⟩
  · intro g hg
    rw [List.mem_singleton.mp hg]
    decide
  · intro n
    have h := run_shear false n 0
    have hinit : (rotSys.init : St M3 M3) = ⟨[shearPow 0], shearSeen 0, shearSeen 0⟩ := rfl
    have hsys : (rotSys : Sys M3 M3) = ⟨id, M3.mul, M3.one, false⟩ := rfl
    rw [hinit, hsys, h]
    exact ⟨by simp, by simp [shearSeen_length]⟩

/-- Non-vacuity / illustration: after 50 iterations 50 distinct matrices were stored (more than any
crystallographic point group has) and the next one is `shear^50`. -/
example : (rotSys.run [shear] 50 rotSys.init).queue = [⟨1, 50, 0, 0, 1, 0, 0, 0, 1⟩] ∧
    (rotSys.run [shear] 50 rotSys.init).seen.length = 50 ∧ rotSys.terminated [shear] 50 = false := by
  decide +kernel

/-- The same for the loop of `HallSymbol::traverse` / `MagneticHallSymbol::traverse` (products whose key is
already in the map are not enqueued): that optimisation does not help. -/
theorem hall_traverse_unbounded :
    ∀ n : Nat, (hallRotSys.run [shear] n hallRotSys.init).queue ≠ [] ∧
      (hallRotSys.run [shear] n hallRotSys.init).seen.length = n := by
  intro n
  have h := run_shear true n 0
  have hinit : (hallRotSys.init : St M3 M3) = ⟨[shearPow 0], shearSeen 0, shearSeen 0⟩ := rfl
  have hsys : (hallRotSys : Sys M3 M3) = ⟨id, M3.mul, M3.one, true⟩ := rfl
  rw [hinit, hsys, h]
  exact ⟨by simp, by simp [shearSeen_length]⟩

/-- Non-vacuity: a malformed Hall symbol on which the pinned tree hangs, `"P 2 3"`: its second generator is
`3x` (default axis after a two-fold), and `2z * 3x` has infinite order — 60 iterations
find 60 distinct rotations (kernel-computed), so the visited set has already left every crystallographic point group. -/
example :
    let a : M3 := ⟨-1, 0, 0, 0, -1, 0, 0, 0, 1⟩   -- 2z
    let b : M3 := ⟨1, 0, 0, 0, 0, -1, 0, 1, -1⟩   -- 3x
    48 < (hallRotSys.run [a, b] 60 hallRotSys.init).seen.length := by
  decide +kernel

/-- **General mechanism.**  For every closure loop of the three kinds (any element type, any key, with or
without the enqueue filter) whose key is multiplicative: if some generator's key has pairwise distinct
powers, the queue is non-empty after every number of iterations — the loop does not terminate. -/
theorem closure_loop_diverges {α κ : Type} [DecidableEq κ] (S : Sys α κ) (gens : List α) (kmul : κ → κ → κ)
    (hmul : ∀ a b, S.key (S.mul a b) = kmul (S.key a) (S.key b))
    (g : α) (hg : g ∈ gens) (pow : Nat → κ) (hpow0 : pow 0 = S.key S.one)
    (hpows : ∀ n, pow (n + 1) = kmul (pow n) (S.key g)) (hinj : ∀ i j, pow i = pow j → i = j) :
    ∀ n : Nat, S.terminated gens n = false := by
  intro n
  have := run_queue_nonempty S gens kmul hmul g hg pow hpow0 hpows hinj n
  simp only [Sys.terminated]
  cases hq : (S.run gens n S.init).queue with
  | nil => exact absurd hq this
  | cons _ _ => rfl

/-- Instance 1: `base::operation::traverse` on a candidate set as a loose tolerance produces it
(identity, a shear, and their negatives: 4 elements, `48 % 4 == 0`, entries in {-1,0,1}, |det| = 1). -/
theorem traverse_diverges_on_shear_set :
    (∀ g, g ∈ shearSet → g.small = true ∧ (g.det = 1 ∨ g.det = -1)) ∧ 48 % shearSet.length = 0 ∧
    ∀ n : Nat, rotSys.terminated shearSet n = false := by
  refine ⟨by decide, by decide, ?_⟩
  exact closure_loop_diverges rotSys shearSet M3.mul (fun _ _ => rfl) shear (by decide) shearPow rfl
    (fun n => (shearPow_succ n).symm) (fun _ _ h => shearPow_inj h)

/-- Instance 2: the closure loop of `PrimitiveSymmetrySearch::new` (elements carry a translation /
permutation payload, keyed by rotation), for every payload arithmetic. -/
theorem symmetry_search_closure_diverges {β : Type} (pmul : M3 × β → M3 × β → β) (pone : β)
    (gens : List (M3 × β)) (b : β) (hg : (shear, b) ∈ gens) :
    ∀ n : Nat, (payloadSys pmul pone).terminated gens n = false :=
  closure_loop_diverges (payloadSys pmul pone) gens M3.mul (fun _ _ => rfl) (shear, b) hg shearPow rfl
    (fun n => (shearPow_succ n).symm) (fun _ _ h => shearPow_inj h)

/-- Non-vacuity of instance 2 (payload = a translation in twelfths, added up). -/
example : ∀ n : Nat, (payloadSys (β := Int) (fun a b => a.2 + b.2) 0).terminated [(shear, 6)] n = false :=
  symmetry_search_closure_diverges _ _ _ 6 (by simp)

/-! ## What a terminated closure loop returns -/

/-- **Invariant `check_closure_key_present`** (cited by the discharge record of `translations_map[&ops12.rotation]`
in `PrimitiveSymmetrySearch::check_closure`): when the closure loop of `PrimitiveSymmetrySearch::new` has ended, the
rotation of the product of any two returned operations is the rotation of a returned operation — the map built
from the returned operations has that key, the index expression cannot panic.  (Holds for every payload
arithmetic; the rotations returned are the monoid generated by the accepted rotations.) -/
theorem check_closure_key_present {β : Type} (pmul : M3 × β → M3 × β → β) (pone : β) (gens : List (M3 × β))
    (n : Nat) (hend : ((payloadSys pmul pone).run gens n (payloadSys pmul pone).init).queue = []) :
    ∀ x, x ∈ ((payloadSys pmul pone).run gens n (payloadSys pmul pone).init).out →
    ∀ y, y ∈ ((payloadSys pmul pone).run gens n (payloadSys pmul pone).init).out →
      (x.1.mul y.1) ∈ (((payloadSys pmul pone).run gens n (payloadSys pmul pone).init).out.map Prod.fst) := by
  intro x hx y hy
  have hkeys := seen_eq_out_keys (payloadSys pmul pone) gens M3.mul (fun _ _ => rfl) n
  have hclosed := seen_closed_of_terminated (payloadSys pmul pone) gens M3.mul (fun _ _ => rfl)
    M3.mul_assoc (fun a => M3.mul_one a) n hend
  have hxs : x.1 ∈ ((payloadSys pmul pone).run gens n (payloadSys pmul pone).init).seen := by
    rw [hkeys]; exact List.mem_map_of_mem hx
  have hys : y.1 ∈ ((payloadSys pmul pone).run gens n (payloadSys pmul pone).init).seen := by
    rw [hkeys]; exact List.mem_map_of_mem hy
  have := hclosed x.1 hxs y.1 hys
  rw [hkeys] at this
  exact this

/-- Non-vacuity: generators `4z` with translation 3/12 and `2x` (payload = translation in twelfths along z, added
up): the loop ends within 30 iterations and returns the 8 rotations of the point group 422. -/
example :
    let S := payloadSys (β := Int) (fun a b => (a.2 + b.2) % 12) 0
    let gens : List (M3 × Int) := [(⟨0, -1, 0, 1, 0, 0, 0, 0, 1⟩, 3), (⟨1, 0, 0, 0, -1, 0, 0, 0, -1⟩, 0)]
    (S.run gens 30 S.init).queue = [] ∧ (S.run gens 30 S.init).out.length = 8 := by
  decide +kernel

/-! ## Group-closure loops: bounded with the cap of the proposed fix -/

/-- **Positive.**  `traverse` with the cap (stop as soon as more than `cap` elements were found — the proposed
fix uses `cap = 48`, the maximal order of a finite subgroup of GL(3, Z)) makes at most
`1 + cap * (|gens| + 1)` dequeues and returns at most `cap + 1` elements, for every generator set. -/
theorem traverse_capped (gens : List M3) (cap : Nat) :
    (traverseCapped gens cap).2 ≤ 1 + cap * (gens.length + 1) ∧
    (traverseCapped gens cap).1.length ≤ cap + 1 := by
  have h := capGo_bound gens cap [M3.one] [] 0 (Nat.zero_le _)
  simp only [List.length_cons, List.length_nil, Nat.zero_add, Nat.sub_zero] at h
  refine ⟨?_, h.2⟩
  have h1 := h.1
  simp only [traverseCapped]
  rw [Nat.mul_add, Nat.mul_one, Nat.mul_comm cap gens.length]
  omega

/-- Non-vacuity: on the diverging set the capped loop stops with 49 elements after few dequeues, and on the
generators `4z`, `2x` of a real point group (order 8) it returns the whole group, untouched by the cap. -/
example :
    (traverseCapped shearSet 48).1.length = 49 ∧ (traverseCapped shearSet 48).2 ≤ 1 + 48 * 5 ∧
    (traverseCapped [⟨0, -1, 0, 1, 0, 0, 0, 0, 1⟩, ⟨1, 0, 0, 0, -1, 0, 0, 0, -1⟩] 48).1.length = 8 := by
  decide +kernel

/-! ## Integer normal forms -/

/-- The loops of `HNF::new` always end by their own `break` (`Moyo.C15.hnf_completed`). -/
theorem hnf_terminates {m n : Nat} (A : IMat m n) : (hnf A).completed = true := C15.hnf_completed A

/-- The `while let` loops of `SNF::new` always end (`Moyo.C15.snf_completed`). -/
theorem snf_terminates {m n : Nat} (A : IMat m n) : (snf A).completed = true := C15.snf_completed A

example : (snf (IMat.ofFlat 3 3 #[-9, -10, -10, -3, -9, 6, 8, -12, -5])).completed = true := snf_terminates _

end Moyo.C08
