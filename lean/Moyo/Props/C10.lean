import Moyo.Model.Oracle
import Moyo.Props.C03
/-
C10 — property theorems (oracle level).  `Oracle.checkAll` is the executable statement of C10 on
one run: for a request `Setting::HallNumber(h)`
* if `h` is a Hall number of the crystal's own type, an error is a failure and a returned dataset
  must carry Hall number `h` (its std_cell invariance under the tabulated operations of `h` is the
  C06 clause, proved sound in Props/C06.lean, evaluated with the returned = requested Hall number);
* if `h` is out of range or of another type, a returned dataset is a failure.
The theorems below prove that this is what `checkAll` does, for every case, and that "out of range"
means outside 1..=530 for the regenerated table.
-/
namespace Moyo.C10
open Moyo Moyo.Generated Moyo.Oracle

/-- Out-of-range Hall numbers have no type: the oracle then demands an error. -/
theorem numberOfHall_none_of_out_of_range (h : Int) (hh : h < 1 ∨ 530 < h) : numberOfHall h = none := by
  unfold numberOfHall
  rcases hh with h1 | h2
  · simp [h1]
  · have hs : hallTable.size = 530 := C03.hallTable_indexed.1
    have : ¬ h < 1 := by omega
    simp only [this, if_false]
    have hidx : hallTable.size ≤ h.toNat - 1 := by omega
    simp [Array.getElem?_eq_none hidx]

/-- In-range Hall numbers do have a type. -/
theorem numberOfHall_some_of_in_range (h : Int) (h1 : 1 ≤ h) (h2 : h ≤ 530) : (numberOfHall h).isSome = true := by
  unfold numberOfHall
  have hs : hallTable.size = 530 := C03.hallTable_indexed.1
  have : ¬ h < 1 := by omega
  simp only [this, if_false]
  have hidx : h.toNat - 1 < hallTable.size := by omega
  simp [Array.getElem?_eq_getElem hidx]

/-- A dataset returned for a request whose type differs from the crystal's (or whose Hall number is
out of range) is always reported by the oracle. -/
theorem mismatch_dataset_is_reported (cs : CaseQ) (h : Int) (d : DatasetQ)
    (hs : cs.setting = .hall h) (hout : cs.out = .ok d)
    (hmis : ¬ (numberOfHall h == numberOfHall cs.truth.hall && (numberOfHall cs.truth.hall).isSome) = true) :
    checkAll cs ≠ [] := by
  unfold checkAll
  simp only [hs, hout]
  simp only [Bool.not_eq_true] at hmis
  simp [hmis]

/-- A refusal of a matching request is always reported by the oracle. -/
theorem matching_refusal_is_reported (cs : CaseQ) (h : Int) (name : String)
    (hs : cs.setting = .hall h) (hout : cs.out = .err name)
    (hmatch : (numberOfHall h == numberOfHall cs.truth.hall && (numberOfHall cs.truth.hall).isSome) = true) :
    checkAll cs ≠ [] := by
  unfold checkAll
  simp only [hs, hout]
  simp [hmatch]

/-- An honoured matching request that returns another Hall number is always reported. -/
theorem replaced_setting_is_reported (cs : CaseQ) (h : Int) (d : DatasetQ)
    (hs : cs.setting = .hall h) (hout : cs.out = .ok d)
    (hmatch : (numberOfHall h == numberOfHall cs.truth.hall && (numberOfHall cs.truth.hall).isSome) = true)
    (hne : d.hallNumber ≠ h) :
    checkAll cs ≠ [] := by
  unfold checkAll
  simp only [hs, hout]
  have : (d.hallNumber == h) = false := by simpa using hne
  simp [hmatch, this]

/-- Non-vacuity: Hall 531 has no type, Hall 4 and Hall 3 share type 3, Hall 6 is of type 4. -/
example : numberOfHall 531 = none ∧ numberOfHall 0 = none ∧ numberOfHall 4 = some 3 ∧
    numberOfHall 3 = some 3 ∧ numberOfHall 6 = some 4 := by
  decide +kernel

end Moyo.C10
