import Moyo.Model.C08Discharge
/-
C08 — panic freedom as an obligation inventory (translator T6).

Only theorems live here.  `Moyo/Generated/C08Sites.lean` is regenerated from /repo on every run by
`tools/translate_c08.py` and lists every potential panic site of moyo's non-test, non-verif code (`unwrap`,
`expect`, `assert*!`, `unreachable!`, `panic!`, indexing, unsigned subtraction, integer division, panicking
slice / nalgebra calls).  `Moyo/Model/C08Discharge.lean` is the hand-written table of reasons.  The theorems say:
every site is matched by a record (so a new `unwrap()` or a changed guard breaks the build of this file), the
scan is not empty, and the only sites conceded to be able to fire are those of the listed known findings.
(The fingerprints of the fn bodies the records were reviewed against are pinned in the table and compared by
`tools/c08_undischarged.lean` — `REVIEW file|fn` lines, reported in the evidence — but deliberately NOT a theorem:
an edit that leaves the panic sites of a fn alone must not break the obligations.)

What this does NOT prove: that the reasons are true.  They are reviewed text (each names its guard, caller,
table or invariant); the ones named `Moyo.C15.…` are Lean theorems about the model, the exploration of
checks/c08.py attacks the rest.
-/
namespace Moyo.C08
open Moyo.C08Inv Moyo.C08Inv.Table Moyo.Generated.C08

/-- **Every regenerated panic site is matched by a discharge record** (of its fn, or by a global bulk rule). -/
theorem all_sites_discharged : undischarged sitesByFile table bulkRules = [] := by decide +kernel

/-- Non-vacuity: the predicate rejects an invented site, a site of a discharged fn whose guard text changed, and a
second textually identical `unwrap()` in a fn where one is discharged (multiplicity is part of the match). -/
example :
    undischarged
      [⟨"x.rs", [⟨"f", 7, [⟨.unwrap, "foo . unwrap ( )", "none", "", 1, 1⟩]⟩]⟩,
       ⟨"base/cell.rs", [⟨"orbits_from_permutations", 7,
          [⟨.unwrap, "identifier_mapping . get ( & uf . find ( j ) ) . unwrap ( )", "none", "", 68, 1⟩,
           ⟨.unwrap, "identifier_mapping . get ( & uf . find ( i ) ) . unwrap ( )", "none", "", 68, 2⟩,
           ⟨.unwrap, "identifier_mapping . get ( & uf . find ( i ) ) . unwrap ( )", "none", "", 68, 1⟩]⟩]⟩]
      table bulkRules
    = [("x.rs", "f", ⟨.unwrap, "foo . unwrap ( )", "none", "", 1, 1⟩),
       ("base/cell.rs", "orbits_from_permutations",
          ⟨.unwrap, "identifier_mapping . get ( & uf . find ( j ) ) . unwrap ( )", "none", "", 68, 1⟩),
       ("base/cell.rs", "orbits_from_permutations",
          ⟨.unwrap, "identifier_mapping . get ( & uf . find ( i ) ) . unwrap ( )", "none", "", 68, 2⟩)] := by
  decide +kernel

/-- **The scan saw the crate**: at least 40 source files, at least 300 sites, and sites of every major kind. -/
theorem inventory_scan_nonempty :
    40 ≤ filesScanned ∧ 300 ≤ (allSites sitesByFile).length ∧ (allSites sitesByFile).length = sitesTotal ∧
    20 ≤ sitesByFile.length ∧
    50 ≤ countKind sitesByFile .unwrap ∧ 150 ≤ countKind sitesByFile .index ∧ 5 ≤ countKind sitesByFile .assert ∧
    1 ≤ countKind sitesByFile .panic ∧ 1 ≤ countKind sitesByFile .unreachable ∧ 10 ≤ countKind sitesByFile .div ∧
    10 ≤ countKind sitesByFile .sub ∧ 20 ≤ countKind sitesByFile .call ∧ 1 ≤ cfgItemsRemoved := by
  decide +kernel

/-- Non-vacuity: the counting functions count (a two-site inventory has one `unwrap` and no `panic`). -/
example :
    countKind [⟨"a.rs", [⟨"f", 7, [⟨.unwrap, "x . unwrap ( )", "none", "", 1, 1⟩, ⟨.index, "v [ i ]", "none", "", 2, 1⟩]⟩]⟩] .unwrap = 1 ∧
    countKind [⟨"a.rs", [⟨"f", 7, [⟨.unwrap, "x . unwrap ( )", "none", "", 1, 1⟩]⟩]⟩] .panic = 0 := by decide

/-- **Only the listed findings are conceded to fire**: every `knownFinding` key that occurs anywhere in the table
(hence every key that discharges a site) is one of `allowedFindingKeys` — eight keys: six malformed-Hall-symbol
parser panics, the magnetic closure map and the division by the number of operations without time reversal.  Every other record claims that its site cannot fire. -/
theorem known_findings_bounded :
    ((tableFindingKeys table bulkRules).all fun k => allowedFindingKeys.contains k) = true := by decide +kernel

/-- Non-vacuity: a key outside the list is rejected, the table does contain finding records, and such a record
really is what discharges its site (`tokens[0]` in `parse`, the empty-string panic). -/
example : allowedFindingKeys.contains "panic:made-up" = false ∧ 0 < (tableFindingKeys table bulkRules).length ∧
    knownFindingKeys [⟨"data/hall_symbol.rs", [⟨"parse", 7, [⟨.index, "tokens [ 0 ]", "literal-index", "max=0", 261, 1⟩]⟩]⟩]
        table bulkRules
      = [("panic:hall_symbol.rs:parse:index-oob", "data/hall_symbol.rs", "parse", "tokens [ 0 ]")] := by
  decide +kernel

/-- **Global bulk rules are class rules only** (kind + lexical class computed by the translator), never text. -/
theorem bulk_rules_are_class_rules : (bulkRules.all fun r => r.m.isCls) = true := by decide

example : (Matcher.exact .unwrap "foo . unwrap ( )" 1).isCls = false := by decide

end Moyo.C08
