import Moyo.Model.C08Discharge
/-
C08 — panic freedom as an obligation inventory (translator T6).

Only theorems live here.  `Moyo/Generated/C08Sites.lean` is regenerated from /repo on every run by
`tools/translate_c08.py` and lists every potential panic site of moyo's non-test, non-verif code (`unwrap`,
`expect`, `assert*!`, `unreachable!`, `panic!`, indexing, unsigned subtraction, integer division, panicking
slice / nalgebra calls).  `Moyo/Model/C08Discharge.lean` is the hand-written table of reasons.  The theorems say:
every site is matched by a record (so a new `unwrap()` or a changed guard breaks the build of this file), the
scan is not empty, and the only sites admitted to be able to fire are those of the listed known findings.

What this does NOT prove: that the reasons are true.  They are reviewed text (each names its guard, caller,
table or invariant); the ones named `Moyo.C15.…` are Lean theorems about the model, the exploration of
checks/c08.py attacks the rest.
-/
namespace Moyo.C08
open Moyo.C08Inv Moyo.C08Inv.Table Moyo.Generated.C08

/-- **Every regenerated panic site is matched by a discharge record** (of its fn, or by a global bulk rule). -/
theorem all_sites_discharged : undischarged sitesByFile table bulkRules = [] := by decide +kernel

/-- Non-vacuity: the predicate rejects an invented site, a site of a discharged fn whose guard text changed, and a
second textually identical `unwrap()` in a fn where one is discharged (multiplicity is part of the match). -/
example :
    undischarged
      [⟨"x.rs", [⟨"f", [⟨.unwrap, "foo . unwrap ( )", "none", "", 1, 1⟩]⟩]⟩,
       ⟨"base/cell.rs", [⟨"orbits_from_permutations",
          [⟨.unwrap, "identifier_mapping . get ( & uf . find ( j ) ) . unwrap ( )", "none", "", 68, 1⟩,
           ⟨.unwrap, "identifier_mapping . get ( & uf . find ( i ) ) . unwrap ( )", "none", "", 68, 2⟩,
           ⟨.unwrap, "identifier_mapping . get ( & uf . find ( i ) ) . unwrap ( )", "none", "", 68, 1⟩]⟩]⟩]
      table bulkRules
    = [("x.rs", "f", ⟨.unwrap, "foo . unwrap ( )", "none", "", 1, 1⟩),
       ("base/cell.rs", "orbits_from_permutations",
          ⟨.unwrap, "identifier_mapping . get ( & uf . find ( j ) ) . unwrap ( )", "none", "", 68, 1⟩),
       ("base/cell.rs", "orbits_from_permutations",
          ⟨.unwrap, "identifier_mapping . get ( & uf . find ( i ) ) . unwrap ( )", "none", "", 68, 2⟩)] := by
  decide +kernel

/-- The Boolean form used by the checker agrees on the real data. -/
theorem all_sites_discharged_bool : allDischarged sitesByFile table bulkRules = true := by decide +kernel

/-- **The scan saw the crate**: at least 40 source files, at least 300 sites, and sites of every major kind. -/
theorem inventory_scan_nonempty :
    40 ≤ filesScanned ∧ 300 ≤ (allSites sitesByFile).length ∧ (allSites sitesByFile).length = sitesTotal ∧
    20 ≤ sitesByFile.length ∧
    50 ≤ countKind sitesByFile .unwrap ∧ 150 ≤ countKind sitesByFile .index ∧ 5 ≤ countKind sitesByFile .assert ∧
    1 ≤ countKind sitesByFile .panic ∧ 1 ≤ countKind sitesByFile .unreachable ∧ 10 ≤ countKind sitesByFile .div ∧
    10 ≤ countKind sitesByFile .sub ∧ 20 ≤ countKind sitesByFile .call ∧ 1 ≤ cfgItemsRemoved := by
  decide +kernel

/-- Non-vacuity: the counting functions count (a two-site inventory has one `unwrap` and no `panic`). -/
example :
    countKind [⟨"a.rs", [⟨"f", [⟨.unwrap, "x . unwrap ( )", "none", "", 1, 1⟩, ⟨.index, "v [ i ]", "none", "", 2, 1⟩]⟩]⟩] .unwrap = 1 ∧
    countKind [⟨"a.rs", [⟨"f", [⟨.unwrap, "x . unwrap ( )", "none", "", 1, 1⟩]⟩]⟩] .panic = 0 := by decide

/-- **Only the listed findings are admitted to fire**: every known-finding key that discharges an existing site is
one of `allowedFindingKeys` (seven keys: six malformed-Hall-symbol parser panics and the magnetic closure map). -/
theorem known_findings_bounded :
    ((knownFindingKeys sitesByFile table bulkRules).all fun k => allowedFindingKeys.contains k.1) = true := by
  decide +kernel

/-- Non-vacuity: there are such sites on the current tree (so the statement above is about something), and a
record with another key would be rejected by it. -/
example : (knownFindingKeys sitesByFile table bulkRules).length ≠ 0 ∧
    allowedFindingKeys.contains "panic:made-up" = false := by decide +kernel

/-- **Global bulk rules are class rules only** (kind + lexical class computed by the translator), never text. -/
theorem bulk_rules_are_class_rules : (bulkRules.all fun r => r.m.isCls) = true := by decide

example : (Matcher.exact .unwrap "foo . unwrap ( )" 1).isCls = false := by decide

end Moyo.C08
