import Moyo.Proofs.NormalForm
/-
C15: properties of the executable Hermite / Smith normal form model (`Moyo/Model/HNF.lean`),
stated for arbitrary `m n : Nat` and arbitrary `A : IMat m n`.
Only property theorems live here; all helper lemmas are in `Moyo/Proofs/NormalForm.lean`.
-/
namespace Moyo.C15
open Moyo Moyo.IMat Moyo.NF

variable {m n : Nat}

/-- H = A·R. -/
theorem hnf_decomp (A : IMat m n) : (hnf A).h = A.mul (hnf A).r :=
  hnf_preserves (colClosed_decomp A) A (mul_one_right A).symm

/-- R has a two-sided integer inverse. -/
theorem hnf_unimodular (A : IMat m n) :
    ∃ R' : IMat n n, (hnf A).r.mul R' = IMat.one n ∧ R'.mul (hnf A).r = IMat.one n :=
  (hnf_preserves colClosed_unimod A (unimod_one n)).exists_inv

/-- D = L·A·R. -/
theorem snf_decomp (A : IMat m n) : (snf A).d = ((snf A).l.mul A).mul (snf A).r :=
  snf_preserves (rcClosed_decomp A) A (by rw [one_mul_left, mul_one_right])

/-- L has a two-sided integer inverse. -/
theorem snf_unimodular_l (A : IMat m n) :
    ∃ L' : IMat m m, (snf A).l.mul L' = IMat.one m ∧ L'.mul (snf A).l = IMat.one m :=
  (snf_preserves rcClosed_unimod_l A (unimod_one m)).exists_inv

/-- R has a two-sided integer inverse. -/
theorem snf_unimodular_r (A : IMat m n) :
    ∃ R' : IMat n n, (snf A).r.mul R' = IMat.one n ∧ R'.mul (snf A).r = IMat.one n :=
  (snf_preserves rcClosed_unimod_r A (unimod_one n)).exists_inv

/-- The fuel of the model's row loops is always sufficient: every `loop` of `HNF::new`
terminates by its own `break`. -/
theorem hnf_completed (A : IMat m n) : (hnf A).completed = true :=
  (hnf_spec A).2

/-- The same for the `while let` loops of `SNF::new`. -/
theorem snf_completed (A : IMat m n) : (snf A).completed = true :=
  (snf_spec A).2

/-- H is lower triangular: entries right of the diagonal vanish. -/
theorem hnf_lower (A : IMat m n) :
    ∀ (i : Fin m) (j : Fin n), i.val < j.val → (hnf A).h.get i j = 0 :=
  fun i j hij => ((hnf_spec A).1 i i.isLt).1 j hij

/-- Non-vacuity of `hnf_lower`: there are positions right of the diagonal, and the input has
non-zero entries there (so the conclusion is not inherited from the input). -/
example : ∃ (i j : Fin 3), i.val < j.val ∧ exH.get i j ≠ 0 ∧ (hnf exH).h.get i j = 0 :=
  ⟨1, 2, by decide, by decide, hnf_lower exH 1 2 (by decide)⟩

/-- Diagonal entries of H are non-negative. -/
theorem hnf_diag_nonneg (A : IMat m n) :
    ∀ (i : Fin m) (hi : i.val < n), 0 ≤ (hnf A).h.get i ⟨i, hi⟩ :=
  fun i hi => (((hnf_spec A).1 i i.isLt).2 hi).1

/-- Non-vacuity of `hnf_diag_nonneg`: the hypothesis `i < n` is satisfiable, and the input's
diagonal entry there is negative. -/
example : ∃ (i : Fin 3) (hi : i.val < 3), exH.get i ⟨i, hi⟩ < 0 ∧ 0 ≤ (hnf exH).h.get i ⟨i, hi⟩ :=
  ⟨0, by decide, by decide, hnf_diag_nonneg exH 0 (by decide)⟩

/-- Entries left of a non-zero diagonal entry are reduced modulo it. -/
theorem hnf_left_reduced (A : IMat m n) :
    ∀ (i : Fin m) (j : Fin n) (hi : i.val < n), j.val < i.val →
      (hnf A).h.get i ⟨i, hi⟩ ≠ 0 →
      0 ≤ (hnf A).h.get i j ∧ (hnf A).h.get i j < (hnf A).h.get i ⟨i, hi⟩ :=
  fun i j hi hji hne => (((hnf_spec A).1 i i.isLt).2 hi).2 hne j hji

/-- Non-vacuity of `hnf_left_reduced`: both hypotheses hold at position (1, 0) of the HNF of the
Rust unit-test matrix (H = [[1,0,0],[1,2,0],[0,0,1]]), and the reduced entry is non-zero. -/
example : ∃ (i j : Fin 3) (hi : i.val < 3), j.val < i.val ∧ (hnf exH).h.get i ⟨i, hi⟩ ≠ 0 ∧
    (hnf exH).h.get i j ≠ 0 :=
  ⟨1, 0, by decide, by decide, by decide, by decide⟩

example : (hnf exH).h.toFlat = [1, 0, 0, 1, 2, 0, 0, 0, 1] := by decide

/-- D is diagonal. -/
theorem snf_diagonal (A : IMat m n) :
    ∀ (i : Fin m) (j : Fin n), i.val ≠ j.val → (snf A).d.get i j = 0 :=
  fun i j hij => (snf_spec A).1.1 i j (by have := i.isLt; have := j.isLt; omega) hij

/-- Non-vacuity of `snf_diagonal`: off-diagonal positions exist and the input is non-zero there. -/
example : ∃ (i j : Fin 3), i.val ≠ j.val ∧ exS.get i j ≠ 0 ∧ (snf exS).d.get i j = 0 :=
  ⟨0, 1, by decide, by decide, snf_diagonal exS 0 1 (by decide)⟩

example : (snf exS).d.toFlat = [2, 0, 0, 0, 6, 0, 0, 0, 12] := by decide

/-- All entries of D are non-negative. -/
theorem snf_nonneg (A : IMat m n) :
    ∀ (i : Fin m) (j : Fin n), 0 ≤ (snf A).d.get i j := by
  intro i j
  by_cases hij : i.val = j.val
  · exact (snf_spec A).1.2 i j hij (by have := i.isLt; have := j.isLt; omega)
  · rw [snf_diagonal A i j hij]

/-- `SNF::rank` (number of non-zero diagonal entries of D) is the rank of `A` over ℚ. -/
theorem snf_rank (A : IMat m n) :
    (snf A).rank = (Matrix.of fun (i : Fin m) (j : Fin n) => ((A.get i j : ℤ) : ℚ)).rank :=
  (rank_toQ_diag (snf A) (snf_diagonal A)).symm.trans
    (rank_toQ_of_decomp (snf_decomp A) (snf_unimod_l A) (snf_unimod_r A))

example : (snf exS).rank = 3 := by decide

/-- Supercell cosets (stated for any size `n`; moyo uses `n = 3`).  For a square integer matrix
`M` with non-zero determinant, `D = L·M·R` its model SNF and `Linv` an inverse of `L`, the points
`Linv·f` with `f` in the box `∏ᵢ [0, Dᵢᵢ)`
* are `|det M|` many (`Fintype.piFinset` is the box as a finite set),
* are pairwise inequivalent modulo the lattice `M ℤⁿ`,
* and every integer vector is equivalent modulo `M ℤⁿ` to one of them.
(`toM X` is the Mathlib matrix `fun i j => X.get i j`, `*ᵥ` is matrix-vector multiplication.) -/
theorem supercell_cosets {n : Nat} (M : IMat n n) (hdet : (toM M).det ≠ 0) (Linv : IMat n n)
    (hLinv : (snf M).l.mul Linv = IMat.one n) :
    ((Fintype.piFinset fun i : Fin n => Finset.Ico (0 : ℤ) ((snf M).d.get i i)).card
        = (toM M).det.natAbs) ∧
    (∀ f ∈ Fintype.piFinset fun i : Fin n => Finset.Ico (0 : ℤ) ((snf M).d.get i i),
      ∀ g ∈ Fintype.piFinset fun i : Fin n => Finset.Ico (0 : ℤ) ((snf M).d.get i i),
      (∃ z : Fin n → ℤ, (toM Linv).mulVec f - (toM Linv).mulVec g = (toM M).mulVec z) → f = g) ∧
    (∀ v : Fin n → ℤ,
      ∃ f ∈ Fintype.piFinset fun i : Fin n => Finset.Ico (0 : ℤ) ((snf M).d.get i i),
      ∃ z : Fin n → ℤ, v - (toM Linv).mulVec f = (toM M).mulVec z) :=
  snf_cosets M hdet Linv hLinv

/-- Non-vacuity of `supercell_cosets`: a 3×3 matrix with non-zero determinant and an inverse of
its `L` exist (the Rust unit-test matrix, `|det| = 144 = 2·6·12`). -/
example : (toM exS).det.natAbs = 144 ∧ ∃ Linv : IMat 3 3, (snf exS).l.mul Linv = IMat.one 3 := by
  refine ⟨?_, (snf_unimodular_l exS).imp fun _ h => h.1⟩
  rw [Matrix.det_fin_three]
  decide

/-- det R = ±1 for the column transformation of `HNF::new`. -/
theorem hnf_det_r (A : IMat m n) : (toM (hnf A).r).det = 1 ∨ (toM (hnf A).r).det = -1 :=
  Int.isUnit_iff.mp (hnf_preserves colClosed_unimod A (unimod_one n))

/-- det L = ±1 for `SNF::new`. -/
theorem snf_det_l (A : IMat m n) : (toM (snf A).l).det = 1 ∨ (toM (snf A).l).det = -1 :=
  Int.isUnit_iff.mp (snf_unimod_l A)

/-- det R = ±1 for `SNF::new`. -/
theorem snf_det_r (A : IMat m n) : (toM (snf A).r).det = 1 ∨ (toM (snf A).r).det = -1 :=
  Int.isUnit_iff.mp (snf_unimod_r A)

/-- For a square matrix the determinant of H is the product of its diagonal. -/
theorem hnf_det_diag (A : IMat n n) :
    (toM (hnf A).h).det = ∏ i : Fin n, (hnf A).h.get i i := by
  have : (toM (hnf A).h).BlockTriangular (⇑OrderDual.toDual) := by
    intro i j hij
    exact hnf_lower A i j (by simpa using hij)
  rw [Matrix.det_of_isLowerTriangular _ this]
  rfl

/-- Index of the sublattice: for a square matrix the product of the diagonal of H is `|det A|`
(all sizes: the index in ℤⁿ of the lattice spanned by the columns of `A`; implied on every
implementation output by the oracle clauses H = A·R, R unimodular, H lower triangular with
non-negative diagonal, which `checks/c15.py` evaluates).  No hypothesis on `det A`: for a singular matrix both
sides vanish. -/
theorem hnf_index (A : IMat n n) :
    (∏ i : Fin n, (hnf A).h.get i i) = ((toM A).det).natAbs := by
  have hnn : ∀ i : Fin n, 0 ≤ (hnf A).h.get i i := fun i => hnf_diag_nonneg A i i.isLt
  have h1 : (∏ i : Fin n, (hnf A).h.get i i) = ((∏ i : Fin n, (hnf A).h.get i i).natAbs : ℤ) :=
    (Int.natAbs_of_nonneg (Finset.prod_nonneg fun i _ => hnn i)).symm
  rw [h1, ← hnf_det_diag, hnf_decomp, toM_mul, Matrix.det_mul, Int.natAbs_mul]
  rcases hnf_det_r A with h | h <;> simp [h]

/-- Non-vacuity of `hnf_index`: the Rust unit-test matrix has index 2 (H = diag-product 1·2·1). -/
example : ((toM exH).det).natAbs = 2 ∧ (∏ i : Fin 3, (hnf exH).h.get i i) = 2 := by
  have h : ((toM exH).det).natAbs = 2 := by rw [Matrix.det_fin_three]; decide
  exact ⟨h, by rw [hnf_index, h]; rfl⟩

/-- For a square matrix `|det D| = |det M|`: the Smith form keeps the index of the sublattice. -/
theorem snf_det_abs (M : IMat n n) : (toM (snf M).d).det.natAbs = (toM M).det.natAbs := by
  rw [snf_decomp, toM_mul, toM_mul, Matrix.det_mul, Matrix.det_mul, Int.natAbs_mul, Int.natAbs_mul]
  rcases snf_det_l M with h | h <;> rcases snf_det_r M with h' | h' <;> simp [h, h']

end Moyo.C15
