import Moyo.Proofs.Tables
import Moyo.Tables.MagAll
import Moyo.Tables.RangeAll
import Moyo.Tables.HallAll
import Moyo.Props.C16
/-
C17 — the magnetic space-group tables are mutually consistent.  Property theorems only.

Statements about the regenerated tables `magHallTable` (1651 magnetic Hall symbols) and
`magTypeTable` (1651 type rows: UNI, Litvin, BNS, OG numbers, `number`, construct type) of
`Moyo/Generated/MagTable.lean` and the model of `MagneticHallSymbol::new/traverse/primitive_traverse`
(`Moyo/Model/Hall.lean`, exhaustive correspondence on all 1651 strings).  The quantifier "for all
1651 entries" is discharged by kernel evaluation of `Moyo.Tables.magRowOK` in the chunk modules
`Moyo/Tables/MagC*.lean` (assembled in `mag_rows`), "for all 230 ranges" by `RangeC*.lean`.

`magTraverse u` / `magPrimitive u`: what the model of `traverse` / `primitive_traverse` returns
for the magnetic Hall symbol of UNI number `u` (operations `(R, t, θ)`, `t` in twelfths, coset
representatives modulo the centring lattice of the symbol; primitive translations modulo 1).

What is proved of "each group is identified as itself and as no other of its range": inside every
UNI range the tabulated groups are pairwise different *sets of operations* (in the common BNS
setting in which they are tabulated), the entries of construct type I and II are unique in their
range (the identification returns the first entry of the right construct type for these), and the
reference group of every entry is the Standard setting of its `number` up to an origin shift.
NOT proved (`_partial`): that two different entries of a range are inequivalent under the
normaliser elements / origin shifts that the identification tries (that needs the model of
`integral_normalizer`, stage S10), nor inequivalence under arbitrary affine maps.
-/
namespace Moyo.C17
open Moyo Moyo.Generated Moyo.TableSpec Moyo.Tables

/-- The row checker holds on all 1651 rows and the range checker on all 230 ranges. -/
theorem rows_checked :
    (∀ u : Nat, 1 ≤ u → u ≤ 1651 → magRowOK u = true) ∧ (∀ n : Nat, 1 ≤ n → n ≤ 230 → magRangeOK n = true) :=
  ⟨mag_rows, range_rows⟩

/-- Every magnetic Hall string parses, its `traverse` list is computed, contains the identity and
is closed under composition (rotation, translation modulo the centring lattice, time-reversal
flag): the symbol generates a group. -/
theorem mag_parses_closed : ∀ u : Nat, 1 ≤ u → u ≤ 1651 →
    ∃ (mh : MagHallEntry) (hs : HallSymbol) (ops : List HOp),
      magHallEntry u = some mh ∧ HallSymbol.newMagnetic mh.symbol = some hs ∧ hs.traverse = some ops ∧
      ClosedMod hs.centering ops := by
  intro u h1 h2
  obtain ⟨r, hs, f⟩ := magRow_facts (mag_rows u h1 h2)
  obtain ⟨mh, _, hmh, _, hsym, _⟩ := magRowIn_spec f.row
  exact ⟨mh, hs, _, hmh, hsym ▸ f.parse, f.trav, f.closed⟩

/-- Non-vacuity: UNI 1651 (`I 4bd 2c 3 -1'`, type III over Ia-3d) has 48 coset representatives. -/
example : ∃ (mh : MagHallEntry) (hs : HallSymbol) (ops : List HOp),
    magHallEntry 1651 = some mh ∧ HallSymbol.newMagnetic mh.symbol = some hs ∧ hs.traverse = some ops ∧
    ClosedMod hs.centering ops := mag_parses_closed 1651 (by decide) (by decide)

/-- The construct type recomputed from the generated group equals the `construct_type` of the
type table.  `constructType c ops` is: 1 if no operation is primed; otherwise the unprimed
operations must be exactly half of the list (index-2 subgroup), and the type is 2 if the primed
operation with identity rotation has a translation in the centring lattice (pure time reversal),
4 if it has one outside (anti-translation), 3 if there is no primed identity rotation. -/
theorem mag_construct_type : ∀ u : Nat, 1 ≤ u → u ≤ 1651 →
    ∃ (mt : MagTypeEntry) (hs : HallSymbol) (ops : List HOp),
      magTypeEntry u = some mt ∧ magSymbolOf u = some hs ∧ hs.traverse = some ops ∧
      constructType hs.centering ops = mt.constructType ∧ 1 ≤ mt.constructType ∧ mt.constructType ≤ 4 := by
  intro u h1 h2
  obtain ⟨r, hs, f⟩ := magRow_facts (mag_rows u h1 h2)
  obtain ⟨mh, mt, hmh, hmt, hsym, _, _, _, _, _, hct, _⟩ := magRowIn_spec f.row
  have hp := f.parse
  rw [hsym] at hp
  refine ⟨mt, hs, _, hmt, by simp only [magSymbolOf, hmh, Option.bind_some, hp], f.trav, hct ▸ f.ctype,
    hct ▸ f.ctypePos, ?_⟩
  rw [← hct, ← f.ctype]
  exact constructType_le _ _

/-- Non-vacuity: UNI 3 (`P 1 1c'`, BNS 1.3) is of type IV. -/
example : ∃ (mt : MagTypeEntry) (hs : HallSymbol) (ops : List HOp),
    magTypeEntry 3 = some mt ∧ magSymbolOf 3 = some hs ∧ hs.traverse = some ops ∧
    constructType hs.centering ops = mt.constructType ∧ 1 ≤ mt.constructType ∧ mt.constructType ≤ 4 :=
  mag_construct_type 3 (by decide) (by decide)

/-- The reference space group in the BNS setting — the family group (all operations with primes
dropped) for construct types I–III, the unprimed subgroup for type IV — *is* the Standard-setting
Hall entry of the entry's `number` up to a proper affine map (in fact an origin shift: the
certificates have `P = 1`): same lattice letter, same number of coset representatives, and every
primitive operation is carried onto one of that Hall entry and conversely. -/
theorem mag_reference_group : ∀ u : Nat, 1 ≤ u → u ≤ 1651 →
    ∃ (mt : MagTypeEntry) (hs : HallSymbol) (prim ref : List HOp) (e : HallEntry),
      magTypeEntry u = some mt ∧ magSymbolOf u = some hs ∧ magPrimitive u = some prim ∧
      hallEntry ((standardHallNumbers.toList[mt.number - 1]?).getD 0) = some e ∧ e.number = mt.number ∧
      Centering.ofString? e.centering = some hs.centering ∧
      hallPrimitive ((standardHallNumbers.toList[mt.number - 1]?).getD 0) = some ref ∧
      AffConj (refOps mt.constructType prim) ref := by
  intro u h1 h2
  obtain ⟨r, hs, f⟩ := magRow_facts (mag_rows u h1 h2)
  obtain ⟨mh, mt, hmh, hmt, hsym, _, _, _, _, hnum, hct, _, hprim, _, hrc, href⟩ := magRowIn_spec f.row
  have hp := f.parse
  rw [hsym] at hp
  obtain ⟨n1, n2⟩ := magTypeEntry_range hmt
  obtain ⟨z1, z2⟩ := standard_range n1 n2
  have hmodel := (hallRow_model (hall_rows _ z1 z2)).2
  -- the Standard entry exists and carries the same number (C03.standard_is_ita, restated via the row)
  obtain ⟨e, he, hen⟩ := standard_entry_number mt.number n1 n2
  have hcen : Centering.ofString? e.centering = some hs.centering := by
    have := f.refCent
    rw [hrc, he] at this
    simpa using this
  have hpm : magPrimitive u = some (unpackOps r.primC) := by
    simp only [magPrimitive, magSymbolOf, hmh, Option.bind_some, hp, f.prim]
  refine ⟨mt, hs, unpackOps r.primC, _, e, hmt, by simp only [magSymbolOf, hmh, Option.bind_some, hp],
    hpm, he, hen, hcen, hmodel, ?_⟩
  have := f.ref
  rwa [hct, href] at this

/-- Consequence: the point group of the reference group has the arithmetic class of the Standard
entry of `number` (conjugate in GL₃(ℤ) to the representative of that class). -/
theorem mag_reference_arithmetic_class : ∀ u : Nat, 1 ≤ u → u ≤ 1651 →
    ∃ (mt : MagTypeEntry) (prim : List HOp) (e : HallEntry),
      magTypeEntry u = some mt ∧ magPrimitive u = some prim ∧
      hallEntry ((standardHallNumbers.toList[mt.number - 1]?).getD 0) = some e ∧
      Conjugate ((refOps mt.constructType prim).map (·.rot)) (arithRep e.arithmeticNumber) := by
  intro u h1 h2
  obtain ⟨mt, hs, prim, ref, e, hmt, _, hprim, he, _, _, href, hconj⟩ := mag_reference_group u h1 h2
  obtain ⟨n1, n2⟩ := magTypeEntry_range hmt
  obtain ⟨z1, z2⟩ := standard_range n1 n2
  obtain ⟨e', prim', he', hp', hc'⟩ := C16.hall_arithmetic_class _ z1 z2
  rw [he] at he'; cases he'
  rw [href] at hp'; cases hp'
  exact ⟨mt, prim, e, hmt, hprim, he, (conjugate_rots_of_affConj hconj).trans hc'⟩

example : ∃ (mt : MagTypeEntry) (prim : List HOp) (e : HallEntry),
    magTypeEntry 1000 = some mt ∧ magPrimitive 1000 = some prim ∧
    hallEntry ((standardHallNumbers.toList[mt.number - 1]?).getD 0) = some e ∧
    Conjugate ((refOps mt.constructType prim).map (·.rot)) (arithRep e.arithmeticNumber) :=
  mag_reference_arithmetic_class 1000 (by decide) (by decide)

/-- Row `u` of both tables carries UNI number `u`, and the BNS number starts with the `number`
field followed by a dot. -/
theorem mag_numbering : ∀ u : Nat, 1 ≤ u → u ≤ 1651 →
    ∃ (mh : MagHallEntry) (mt : MagTypeEntry), magHallEntry u = some mh ∧ magTypeEntry u = some mt ∧
      mh.uniNumber = u ∧ mt.uniNumber = u ∧ bnsPrefix mt.bnsNumber = some mt.number := by
  intro u h1 h2
  obtain ⟨r, hs, f⟩ := magRow_facts (mag_rows u h1 h2)
  obtain ⟨mh, mt, hmh, hmt, _, hu, huh, hut, hbns, hnum, _⟩ := magRowIn_spec f.row
  exact ⟨mh, mt, hmh, hmt, by rw [← huh, f.uniHall, hu], by rw [← hut, f.uniType, hu],
    by rw [← hbns, ← hnum]; exact f.bns⟩

example : bnsPrefix "123.340" = some 123 := by decide

/-- Model of `ITA_NUMBER_TO_UNI_NUMBERS` (`magRanges = uniRanges` of the `number` column, the
literal loop of the Rust initialiser): exactly 230 ranges, the first starts at UNI 1, each next
one starts right after the previous one, the last ends at 1651. -/
theorem uni_ranges_partition :
    magRanges.length = 230 ∧ rangesContiguous magRanges 1 = true ∧
    (magRanges.getLast?.map (·.2)) = some 1651 := by
  have h := mag_ranges
  rw [table_sizes.2.2.2.2.2.2.1] at h
  exact h

/-- Range `n` consists exactly of entries whose `number` is `n` (so UNI numbers are grouped
contiguously by ITA number, and with `mag_numbering` the BNS prefix of every entry of range `n`
is `n`); it contains exactly one entry of construct type I and one of type II. -/
theorem uni_range_number : ∀ n : Nat, 1 ≤ n → n ≤ 230 →
    ∃ lo hi : Nat, uniNumberRange magRanges (n : Int) = some (lo, hi) ∧ 1 ≤ lo ∧ lo ≤ hi ∧
      (∀ u, lo ≤ u → u ≤ hi → (magTypeEntry u).map (·.number) = some n) ∧
      ((List.range' lo (hi + 1 - lo)).filter fun u => (magTypeEntry u).map (·.constructType) == some 1).length = 1 ∧
      ((List.range' lo (hi + 1 - lo)).filter fun u => (magTypeEntry u).map (·.constructType) == some 2).length = 1 := by
  intro n h1 h2
  obtain ⟨lo, hi, f⟩ := magRange_facts (range_rows n h1 h2)
  refine ⟨lo, hi, ?_, f.lo_pos, f.le, f.number, f.type1, f.type2⟩
  have hn : ¬ ((n : Int) ≤ 0) := by omega
  simp only [uniNumberRange, hn, if_false, Int.toNat_natCast]
  exact f.range

example : uniNumberRange magRanges 230 = some (1647, 1651) ∧ uniNumberRange magRanges 0 = none ∧
    uniNumberRange magRanges 231 = none ∧ uniNumberRange magRanges (-1) = none := by decide +kernel

/-- **Partial** form of "each group is identified as itself and as no other of its range":
two different entries of one UNI range are different sets of primitive operations modulo ℤ³ (no
reordering of one list gives the other) in the BNS setting in which both are tabulated.
Not proved: inequivalence under the origin shifts and normaliser elements tried by the
identification (see the header). -/
theorem mag_range_distinct_partial : ∀ n : Nat, 1 ≤ n → n ≤ 230 →
    ∃ lo hi : Nat, uniNumberRange magRanges (n : Int) = some (lo, hi) ∧
      ∀ u v : Nat, lo ≤ u → u ≤ hi → lo ≤ v → v ≤ hi → u ≠ v →
        ∀ pu pv : List HOp, magPrimitive u = some pu → magPrimitive v = some pv → ¬ pu.Perm pv := by
  intro n h1 h2
  obtain ⟨lo, hi, f⟩ := magRange_facts (range_rows n h1 h2)
  have hn : ¬ ((n : Int) ≤ 0) := by omega
  refine ⟨lo, hi, by simp only [uniNumberRange, hn, if_false, Int.toNat_natCast]; exact f.range, ?_⟩
  intro u v hu1 hu2 hv1 hv2 huv pu pv hpu hpv hperm
  have bound : ∀ w, lo ≤ w → w ≤ hi → 1 ≤ w ∧ w ≤ 1651 := by
    intro w w1 w2
    have hw := f.number w w1 w2
    cases ht : magTypeEntry w with
    | none => simp [ht] at hw
    | some t => exact ⟨by have := f.lo_pos; omega, magTypeEntry_le ht⟩
  have code : ∀ w p, 1 ≤ w → w ≤ 1651 → magPrimitive w = some p → setCode p = magSetCert w := by
    intro w p w1 w2 hw
    obtain ⟨r, hs, g⟩ := magRow_facts (mag_rows w w1 w2)
    obtain ⟨mh, _, hmh, _, hsym, _, _, _, _, _, _, _, _, hset, _⟩ := magRowIn_spec g.row
    have hp := g.parse
    rw [hsym] at hp
    have : magPrimitive w = some (unpackOps r.primC) := by
      simp only [magPrimitive, magSymbolOf, hmh, Option.bind_some, hp, g.prim]
    rw [hw] at this; cases this
    rw [g.setC, hset, magSetCert]
  have := f.distinct u v hu1 hu2 hv1 hv2 huv
  rw [← code u pu (bound u hu1 hu2).1 (bound u hu1 hu2).2 hpu,
    ← code v pv (bound v hv1 hv2).1 (bound v hv1 hv2).2 hpv] at this
  exact this (setCode_of_perm hperm)

end Moyo.C17
