import Moyo.Proofs.Tables
import Moyo.Tables.HallAll
import Moyo.Tables.ArithAll
import Moyo.Props.C03
/-
C16 — the space-group tables are mutually consistent.  Property theorems only.

Everything is a statement about the *regenerated* tables (`Moyo/Generated/HallTable.lean`,
`ArithTable.lean`, `PointGroupTable.lean`) and the hand-written model of the Hall-symbol parser and
generator (`Moyo/Model/Hall.lean`, tied to the Rust code by the exhaustive correspondence on all
530 strings).  The quantifier "for all 530 Hall entries" is discharged by kernel evaluation
(`decide +kernel`) of the Boolean row checker `Moyo.Tables.hallRowOK` in the chunk modules
`Moyo/Tables/HallC*.lean` (assembled in `Moyo.Tables.hall_rows`), and the step from the Boolean
checker to the mathematical statement by the lemmas of `Moyo/Proofs/Tables*.lean`
(`closed_of_closedCert`, `conjugate_of_arithOK`, `invVec_eq_of_conjugate`, `affConj_of_conjOK`).
The searched certificates of `Moyo/Generated/C16Certs.lean` are not trusted: a wrong certificate
makes a chunk theorem fail.

Notation.  `hallEntry h` is row `h` of the table (1-based); `hallTraverse h` / `hallPrimitive h`
are what the model of `HallSymbol::traverse` / `primitive_traverse` returns for its Hall string
(coset representatives modulo the centring lattice; translations are integer vectors in units of
1/12, primitive translations are reduced modulo 1); `ClosedMod`, `EqvMod`, `LatVec`, `Conjugate`,
`AffConj` are defined in `Moyo/Proofs/TablesClosed.lean` and `TablesConj.lean`.

Clause (i) of C16 (Wyckoff positions: multiplicities, site-symmetry orders, letters, disjointness)
lives in `Moyo/Props/C16Wyckoff.lean` (owned by the Wyckoff-position model); nothing about the
Wyckoff table is stated here.

Clause (g) is proved in the partial form `types_inequivalent_across_classes_partial` below: two
table settings whose arithmetic classes differ are not affinely conjugate.  NOT proved: that two
settings with the same arithmetic class and different ITA numbers are never conjugate under *any*
proper affine map (this needs a complete invariant of space-group types within an arithmetic
class, e.g. the H¹ classification of the translation parts, which is not modelled).
-/
namespace Moyo.C16
open Moyo Moyo.Generated Moyo.TableSpec Moyo.Tables

/-- The row checker holds on all 530 rows (assembly of the chunk theorems). -/
theorem rows_checked : ∀ h : Nat, 1 ≤ h → h ≤ 530 → hallRowOK h = true := hall_rows

/-- **(a)** Every Hall string parses, its `traverse` list is computed (no fuel exhaustion, no
non-crystallographic matrix) and the list contains the identity and is closed under composition
modulo the centring lattice: for all `a, b` in the list some `s` in the list has the rotation and
prime flag of `a·b` and a translation differing from that of `a·b` by a centring-lattice vector. -/
theorem hall_parses_closed : ∀ h : Nat, 1 ≤ h → h ≤ 530 →
    ∃ (e : HallEntry) (hs : HallSymbol) (ops : List HOp),
      hallEntry h = some e ∧ HallSymbol.new e.hallSymbol = some hs ∧ hs.traverse = some ops ∧
      ClosedMod hs.centering ops := by
  intro h h1 h2
  obtain ⟨r, hs, f⟩ := hallRow_facts (hall_rows h h1 h2)
  obtain ⟨e, he, hsym, _⟩ := hallRowIn_spec f.row
  exact ⟨e, hs, _, he, hsym ▸ f.parse, f.trav, f.closed⟩

/-- Non-vacuity: Hall number 530 (`-I 4bd 2c 3`, Ia-3d) yields 48 coset representatives. -/
example : ∃ (e : HallEntry) (hs : HallSymbol) (ops : List HOp),
    hallEntry 530 = some e ∧ HallSymbol.new e.hallSymbol = some hs ∧ hs.traverse = some ops ∧
    ClosedMod hs.centering ops := hall_parses_closed 530 (by decide) (by decide)

/-- **(b)** The number of coset representatives is the order of the geometric crystal class of the
entry's arithmetic class (sum of the histogram row of `identify_geometric_crystal_class`; equal to
the order table of the Rust test module by `Moyo.Tables.geo_rows`), their rotations are pairwise
different, none is primed, and the full list of conventional operations has
`order(centring) × order(class)` elements. -/
theorem hall_order : ∀ h : Nat, 1 ≤ h → h ≤ 530 →
    ∃ (e : HallEntry) (hs : HallSymbol) (ops all : List HOp),
      hallEntry h = some e ∧ HallSymbol.new e.hallSymbol = some hs ∧ hs.traverse = some ops ∧
      ops.length = geoOrderOfArith e.arithmeticNumber ∧ (ops.map (·.rot)).Nodup ∧
      (∀ o ∈ ops, o.tr = false) ∧
      hs.conventionalOps = some all ∧ all.length = hs.centering.order * geoOrderOfArith e.arithmeticNumber := by
  intro h h1 h2
  obtain ⟨r, hs, f⟩ := hallRow_facts (hall_rows h h1 h2)
  obtain ⟨e, he, hsym, _, _, _, hhist, hord, _⟩ := hallRowIn_spec f.row
  obtain ⟨all, hall, hlen⟩ := conventionalOps_length f.trav
  have ho : (unpackOps r.opsC).length = geoOrderOfArith e.arithmeticNumber := by
    rw [f.order, hord, hhist]; rfl
  exact ⟨e, hs, _, all, he, hsym ▸ f.parse, f.trav, ho, f.distinct, f.unprimed, hall, by rw [hlen, ho]⟩

/-- Non-vacuity: Fd-3m, origin choice 2 (Hall 526, `-F 4vw 2vw 3`): 48 cosets, 192 operations. -/
example : geoOrderOfArith 72 = 48 ∧ (Centering.F).order * geoOrderOfArith 72 = 192 := by decide

/-- **(c)** The rotation-type histogram (by trace and determinant, as `identify_rotation_type`) of
the generated point group equals the histogram row of the entry's geometric class in
`identify_geometric_crystal_class`. -/
theorem hall_histogram : ∀ h : Nat, 1 ≤ h → h ≤ 530 →
    ∃ (e : HallEntry) (ops : List HOp),
      hallEntry h = some e ∧ hallTraverse h = some ops ∧
      histogram rotTypes (ops.map (·.rot)) = (geoHist[geoIdxOfArith e.arithmeticNumber]?).getD [] := by
  intro h h1 h2
  have hok := hall_rows h h1 h2
  obtain ⟨r, hs, f⟩ := hallRow_facts hok
  obtain ⟨e, he, _, _, hops, _, hhist, _⟩ := hallRowIn_spec f.row
  refine ⟨e, _, he, (hallRow_model hok).1, ?_⟩
  rw [← hhist, ← f.hist, hallOpsCert, hops]

/-- Non-vacuity: the histogram row of m-3m is the one of Table 6 (6 fourfold rotoinversions, 8
threefold rotoinversions, 9 mirrors, inversion, identity, 9 twofold, 8 threefold, 6 fourfold). -/
example : (geoHist[geoIdxOfArith 73]?).getD [] = [0, 6, 8, 9, 1, 1, 9, 8, 6, 0] := by decide

/-- **(d)** The lattice letter of the Hall string is the `centering` field of the entry, and it is
one of the conventional centrings of the Bravais class of the entry's arithmetic class
(`allowedCenterings`: P for aP, mP, oP, tP, hP, cP; A, B, C, I for mC; A, B, C for oS; F; I; R or P
for hR). -/
theorem hall_centering : ∀ h : Nat, 1 ≤ h → h ≤ 530 →
    ∃ (e : HallEntry) (hs : HallSymbol) (a : ArithEntry),
      hallEntry h = some e ∧ HallSymbol.new e.hallSymbol = some hs ∧
      Centering.ofString? e.centering = some hs.centering ∧
      arithTable.toList[e.arithmeticNumber - 1]? = some a ∧ e.centering ∈ allowedCenterings a.bravaisClass := by
  intro h h1 h2
  obtain ⟨r, hs, f⟩ := hallRow_facts (hall_rows h h1 h2)
  obtain ⟨e, he, hsym, hcen, _, _, _, _, _, _, hallow⟩ := hallRowIn_spec f.row
  obtain ⟨_, _, a1, a2⟩ := hallEntry_ranges he
  obtain ⟨a, fa⟩ := arithRow_facts (arith_rows e.arithmeticNumber a1 a2)
  refine ⟨e, hs, a, he, hsym ▸ f.parse, hcen ▸ f.cent, fa.row, ?_⟩
  have := f.centAllowed
  rw [hallow, fa.bravaisName, hcen] at this
  simpa using this

example : ∃ (e : HallEntry) (hs : HallSymbol) (a : ArithEntry), hallEntry 450 = some e ∧
    HallSymbol.new e.hallSymbol = some hs ∧ Centering.ofString? e.centering = some hs.centering ∧
    arithTable.toList[e.arithmeticNumber - 1]? = some a ∧ e.centering ∈ allowedCenterings a.bravaisClass :=
  hall_centering 450 (by decide) (by decide)

/-- The rows of the arithmetic-class table are numbered 1..73, their geometric class is one of the
32 names, and the Hall number that `PointGroupRepresentative::from_arithmetic_crystal_class`
assigns to class `k` is an entry of arithmetic class `k`. -/
theorem arith_table_consistent : ∀ k : Nat, 1 ≤ k → k ≤ 73 →
    ∃ a : ArithEntry, arithTable.toList[k - 1]? = some a ∧ a.arithmeticNumber = k ∧
      geoNames[geoIdxOfArith k]? = some a.geometricClass ∧ a.bravaisClass ∈ bravaisNames ∧
      (hallEntry ((arithRepHall[k - 1]?).getD 0)).map (·.arithmeticNumber) = some k := by
  intro k h1 h2
  obtain ⟨a, f⟩ := arithRow_facts (arith_rows k h1 h2)
  exact ⟨a, f.row, f.number, f.geoName, List.mem_of_getElem? f.bravaisName, f.repArith⟩

example : ∃ a : ArithEntry, arithTable.toList[72]? = some a ∧ a.arithmeticNumber = 73 :=
  (arith_table_consistent 73 (by decide) (by decide)).imp fun _ h => ⟨h.1, h.2.1⟩

/-- The representative group of arithmetic class `k` (`arithRep k`, a list of 3×3 integer
matrices) is the set of primitive rotations the model computes for the Hall number that
`from_arithmetic_crystal_class` assigns to `k`. -/
theorem arithRep_is_model : ∀ k : Nat, 1 ≤ k → k ≤ 73 →
    (hallPrimitive ((arithRepHall[k - 1]?).getD 0)).map (fun l => l.map (·.rot)) = some (arithRep k) := by
  intro k h1 h2
  obtain ⟨a, f⟩ := arithRow_facts (arith_rows k h1 h2)
  have hpos := f.repPos
  have hle : (arithRepHall[k - 1]?).getD 0 ≤ 530 := by
    have := f.repArith
    cases he : hallEntry ((arithRepHall[k - 1]?).getD 0) with
    | none => simp [he] at this
    | some e =>
      have hlt : (arithRepHall[k - 1]?).getD 0 - 1 < hallTableList.length := by
        by_contra hc
        rw [hallEntry, List.getElem?_eq_none (by omega)] at he
        cases he
      rw [table_sizes.1] at hlt
      omega
  rw [(hallRow_model (hall_rows _ hpos hle)).2]
  rfl

/-- **(e), first half.**  The primitive rotations of every Hall entry are carried onto the
representative group of the entry's `arithmetic_number` by conjugation with a unimodular matrix. -/
theorem hall_arithmetic_class : ∀ h : Nat, 1 ≤ h → h ≤ 530 →
    ∃ (e : HallEntry) (prim : List HOp),
      hallEntry h = some e ∧ hallPrimitive h = some prim ∧
      Conjugate (prim.map (·.rot)) (arithRep e.arithmeticNumber) := by
  intro h h1 h2
  have hok := hall_rows h h1 h2
  obtain ⟨r, hs, f⟩ := hallRow_facts hok
  obtain ⟨e, he, _, _, _, hprim, _, _, hrep, _⟩ := hallRowIn_spec f.row
  refine ⟨e, _, he, (hallRow_model hok).2, ?_⟩
  rw [← hrep, hallPrimOps, ← hprim]
  exact f.arith

example : ∃ (e : HallEntry) (prim : List HOp), hallEntry 525 = some e ∧ hallPrimitive 525 = some prim ∧
    Conjugate (prim.map (·.rot)) (arithRep e.arithmeticNumber) := hall_arithmetic_class 525 (by decide) (by decide)

/-- **(e), second half.**  The 73 representative groups are pairwise non-conjugate in GL₃(ℤ):
their invariant vectors (rotation-type histogram; for p = 2, 3 the number of points of (ℤ/p)³
fixed by all elements of each rotation type and by the whole group, for the group and for its
transpose) are pairwise different (`arithInv_distinct`), and conjugate groups have equal invariant
vectors (`invVec_eq_of_conjugate`). -/
theorem arith_reps_not_conjugate : ∀ i j : Nat, 1 ≤ i → i ≤ 73 → 1 ≤ j → j ≤ 73 → i ≠ j →
    ¬ Conjugate (arithRep i) (arithRep j) := by
  intro i j hi1 hi2 hj1 hj2 hij hc
  obtain ⟨_, fi⟩ := arithRow_facts (arith_rows i hi1 hi2)
  obtain ⟨_, fj⟩ := arithRow_facts (arith_rows j hj1 hj2)
  have heq := invVec_eq_of_conjugate rotTypes fi.distinct fj.distinct hc
  rw [fi.inv, fj.inv] at heq
  have hnd := (pairwiseDistinct_iff _).1 arithInv_distinct.2
  have hlen := arithInv_distinct.1
  have hi : i - 1 < C16.arithInv.length := by omega
  have hj : j - 1 < C16.arithInv.length := by omega
  rw [List.getElem?_eq_getElem hi, List.getElem?_eq_getElem hj] at heq
  simp only [Option.getD_some] at heq
  have := (List.Nodup.getElem_inj_iff hnd).1 heq
  omega

/-- Non-vacuity / sample: 222C and 222I (arithmetic classes 10 and 12, same geometric class). -/
example : ¬ Conjugate (arithRep 10) (arithRep 12) :=
  arith_reps_not_conjugate 10 12 (by decide) (by decide) (by decide) (by decide) (by decide)

/-- **(e), consequence.**  The `arithmetic_number` field is *the* arithmetic class of the entry:
the primitive point group of Hall entry `h` is conjugate to the representative of class `k` only
for `k = arithmetic_number`. -/
theorem hall_arithmetic_class_unique : ∀ h : Nat, 1 ≤ h → h ≤ 530 → ∀ k : Nat, 1 ≤ k → k ≤ 73 →
    ∀ (e : HallEntry) (prim : List HOp), hallEntry h = some e → hallPrimitive h = some prim →
      Conjugate (prim.map (·.rot)) (arithRep k) → k = e.arithmeticNumber := by
  intro h h1 h2 k k1 k2 e prim he hp hc
  obtain ⟨_, _, a1, a2⟩ := hallEntry_ranges he
  obtain ⟨e', prim', he', hp', hc'⟩ := hall_arithmetic_class h h1 h2
  rw [he] at he'; cases he'
  rw [hp] at hp'; cases hp'
  by_contra hne
  exact arith_reps_not_conjugate k e.arithmeticNumber k1 k2 a1 a2 hne (hc.symm.trans hc')

/-- **(f)** Settings sharing an ITA number are conjugate descriptions of one type: the primitive
operations of every Hall entry are carried, by a proper (det = +1) integral change of basis with
a rational origin shift, onto the primitive operations of the first setting of its type
(`spglibHallNumbers[number − 1]`, the smallest Hall number of the type by `C03.spglib_is_smallest`). -/
theorem hall_settings_conjugate : ∀ h : Nat, 1 ≤ h → h ≤ 530 →
    ∃ (e : HallEntry) (prim first : List HOp),
      hallEntry h = some e ∧ hallPrimitive h = some prim ∧
      hallPrimitive ((spglibHallNumbers.toList[e.number - 1]?).getD 0) = some first ∧
      AffConj prim first := by
  intro h h1 h2
  have hok := hall_rows h h1 h2
  obtain ⟨r, hs, f⟩ := hallRow_facts hok
  obtain ⟨e, he, _, _, _, hprim, _, _, _, hfirst, _⟩ := hallRowIn_spec f.row
  -- the first setting is itself a row 1..530 of the table, so its certificate list is the model's list
  have hset := f.setting
  rw [hfirst] at hset
  obtain ⟨n1, n2, _, _⟩ := hallEntry_ranges he
  obtain ⟨z1, z2⟩ := spglib_range n1 n2
  have hfirst_model := (hallRow_model (hall_rows _ z1 z2)).2
  refine ⟨e, _, _, he, (hallRow_model hok).2, hfirst_model, ?_⟩
  rw [hallPrimOps, ← hprim]
  exact hset

example : ∃ (e : HallEntry) (prim first : List HOp), hallEntry 526 = some e ∧ hallPrimitive 526 = some prim ∧
    hallPrimitive ((spglibHallNumbers.toList[e.number - 1]?).getD 0) = some first ∧ AffConj prim first :=
  hall_settings_conjugate 526 (by decide) (by decide)

/-- **(g), partial.**  Two table settings with different arithmetic classes are not affinely
conjugate (their primitive point groups are not even conjugate in GL₃(ℤ)).  Full statement of
(g) — *any* two settings with different ITA numbers are not conjugate under a proper affine map —
is proved only across arithmetic classes; within an arithmetic class it is not proved (see the
header). -/
theorem types_inequivalent_across_classes_partial : ∀ h h' : Nat, 1 ≤ h → h ≤ 530 → 1 ≤ h' → h' ≤ 530 →
    ∀ (e e' : HallEntry) (prim prim' : List HOp),
      hallEntry h = some e → hallEntry h' = some e' → hallPrimitive h = some prim →
      hallPrimitive h' = some prim' →
      e.arithmeticNumber ≠ e'.arithmeticNumber → ¬ AffConj prim prim' := by
  intro h h' h1 h2 h1' h2' e e' prim prim' he he' hp hp' hne hconj
  obtain ⟨_, _, a1, a2⟩ := hallEntry_ranges he
  obtain ⟨e0, prim0, he0, hp0, hc0⟩ := hall_arithmetic_class h h1 h2
  rw [he] at he0; cases he0
  rw [hp] at hp0; cases hp0
  have hc := (conjugate_rots_of_affConj hconj).symm.trans hc0
  exact hne (hall_arithmetic_class_unique h' h1' h2' e.arithmeticNumber a1 a2 e' prim' he' hp' hc)

set_option maxRecDepth 100000 in
/-- **(h)** (proved in `Props/C03.lean`, re-exported): `SPGLIB_HALL_NUMBERS[n]` is the least Hall
number with number `n`; `STANDARD_HALL_NUMBERS[n]` is the unique entry of number `n` whose setting
string is one of "", "b", "b1", "H", "2". -/
theorem spglib_is_smallest :
    spglibHallNumbers.size = 230 ∧
    ((List.range 230).all fun k =>
      match spglibHallNumbers[k]? with
      | none => false
      | some h =>
        (hallTable[h - 1]?.map (·.number)) == some (k + 1) &&
        (List.range (h - 1)).all fun i => (hallTable[i]?.map (·.number)) != some (k + 1)) = true :=
  C03.spglib_is_smallest

set_option maxRecDepth 100000 in
theorem standard_is_ita :
    standardHallNumbers.size = 230 ∧
    ((List.range 230).all fun k =>
      match standardHallNumbers[k]? with
      | none => false
      | some h =>
        (match hallTable[h - 1]? with
         | some e => e.number == k + 1 && C03.isStandardSetting e.setting
         | none => false) &&
        (hallTableList.filter fun e => e.number == k + 1 && C03.isStandardSetting e.setting).length == 1) = true :=
  C03.standard_is_ita

/-- The translated match-arm tables are consistent with each other: see `Moyo.Tables.geo_rows`. -/
theorem geometric_classes_consistent :
    (List.range 32).all geoRowOK = true ∧ pairwiseDistinct geoHist = true ∧ pairwiseDistinct geoNames = true ∧
    pairwiseDistinct (rotTypes.map fun x => (x.1, x.2.1)) = true ∧
    pairwiseDistinct (rotTypes.map fun x => x.2.2) = true ∧ rotTypes.all (fun x => x.2.2 < 10) = true :=
  geo_rows

/-! Hook for clause (i): the theorems `wyckoff_*` of `Moyo/Props/C16Wyckoff.lean` are counted by
`checks/c16.py` when that module exists (see `WYCKOFF_HOOK` there). -/

end Moyo.C16
