import Moyo.Spec.C12
import Moyo.Proofs.OracleSite
/-
C12: the magnetic space-group type.
* `grey_unique` (table theorem, kernel-decided on the regenerated `magTypeTable`): every ITA number
  1..230 has exactly one construct-type-2 (grey) entry, so "the grey group of the non-magnetic space
  group" is well defined and `MagOracle.greyOfNumber` returns it.
* `checkC12_iff`: the executable oracle decides `Spec.C12`.
-/
namespace Moyo.C12
open Moyo Moyo.MagOracle Moyo.Spec Moyo.Generated Moyo.OracleP

/-- Kernel-decided: for each ITA number `k+1`, `k < 230`, the table has exactly one grey entry. -/
theorem grey_count : ∀ k, k < 230 → (greyEntries (k + 1)).length = 1 := by decide +kernel

/-- **Uniqueness of the grey group.**  For every ITA number `n ∈ 1..230` the regenerated table of
magnetic space-group types contains exactly one entry of construct type 2 whose (BNS reference)
space-group number is `n`; `greyOfNumber n` is its UNI number. -/
theorem grey_unique (n : Nat) (h1 : 1 ≤ n) (h2 : n ≤ 230) :
    ∃ u, greyEntries n = [u] ∧ greyOfNumber n = some u ∧ IsGreyOf n u ∧ ∀ v, IsGreyOf n v → v = u := by
  have hc := grey_count (n - 1) (by omega)
  have hn : n - 1 + 1 = n := by omega
  rw [hn] at hc
  match hg : greyEntries n, hc with
  | [u], _ =>
    refine ⟨u, rfl, by simp [greyOfNumber, hg], ?_, ?_⟩
    · have hu : u ∈ greyEntries n := by simp [hg]
      unfold greyEntries at hu
      obtain ⟨e, he, rfl⟩ := List.mem_map.1 hu
      rw [List.mem_filter] at he
      simp only [Bool.and_eq_true, beq_iff_eq] at he
      exact ⟨e, he.1, rfl, he.2.1, he.2.2⟩
    · rintro v ⟨e, he, rfl, hnum, hct⟩
      have hv : e.uniNumber ∈ greyEntries n := by
        unfold greyEntries
        exact List.mem_map.2 ⟨e, List.mem_filter.2 ⟨he, by simp [hnum, hct]⟩, rfl⟩
      rw [hg] at hv
      simpa using hv

/-- Non-vacuity of `grey_unique`: the grey group of `P4_2/mnm` (ITA 136) is UNI 1156, that of `P1` is UNI 2. -/
example : greyOfNumber 136 = some 1156 ∧ greyOfNumber 1 = some 2 := by decide +kernel

/-- Kernel-decided: every grey entry is found back from its own OG number (the first component of the OG
number of a type-II entry is its ITA number), i.e. `expectedUni` maps a grey generating group with zero
moments to itself. -/
theorem grey_fixed : ∀ e ∈ magTypeTableList, e.constructType = 2 →
    (ogFamily e.ogNumber).bind greyOfNumber = some e.uniNumber := by decide +kernel

/-- **The oracle decides C12.** -/
theorem checkC12_iff {cs : MagCaseQ} {d : MagDatasetQ} : checkC12 cs d = [] ↔ Spec.C12 cs d := by
  unfold checkC12 Spec.C12
  constructor
  · intro h
    split at h
    · cases h
    · rename_i u hu
      exact ⟨u, hu, ite_nil_singleton h⟩
  · rintro ⟨u, hu, hd⟩
    rw [hu]
    exact if_pos hd

theorem checkC12_sound {cs : MagCaseQ} {d : MagDatasetQ} (h : checkC12 cs d = []) : Spec.C12 cs d :=
  checkC12_iff.1 h

/-- Non-vacuity: a structure generated from UNI 1159 (BNS 136.499, type III) with all moments zero must be
reported as the grey group UNI 1156 of ITA 136; one generated from UNI 13 (`P_C 2`, BNS 3.6, type IV,
OG 5.5.23) with all moments zero as the grey group UNI 21 of its family group `C2` (ITA 5). -/
example : expectedUni { (default : MagTruthQ) with uni := 1159, variant := "zero" } = some 1156 ∧
    expectedUni { (default : MagTruthQ) with uni := 13, variant := "zero" } = some 21 ∧
    expectedUni { (default : MagTruthQ) with uni := 13, variant := "reversed" } = some 13 := by
  decide +kernel

example : checkC12 { (default : MagCaseQ) with truth := { (default : MagTruthQ) with uni := 13, variant := "zero" } }
    { (default : MagDatasetQ) with uni := 21 } = [] := by decide +kernel

example : checkC12 { (default : MagCaseQ) with truth := { (default : MagTruthQ) with uni := 13, variant := "zero" } }
    { (default : MagDatasetQ) with uni := 13 } ≠ [] := by decide +kernel

end Moyo.C12
