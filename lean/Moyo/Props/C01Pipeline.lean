import Moyo.Proofs.PipelineAssemble
import Moyo.Proofs.PipelineOrbits
import Moyo.Props.C01
/-
C01, end to end: theorems about the **composed** stage model `PipelineOps.runStages` = S4 ∘ S3 ∘ S1
(`operations_in_cell(prim_cell, PrimitiveSymmetrySearch::new(prim_cell.cell).operations)` with
`prim_cell = PrimitiveCell::new(cell)`, moyo/src/lib.rs), for all input cells and ALL proposals `H : Heur` of the
float heuristics (Minkowski matrices, kd-tree candidate lists, Bravais list).  The stage models are the ones tied to
the code by the stage-wise correspondence (checks/pipe.py `run_stages`); they are used unchanged.

1. `reported_rotation_props`: every reported rotation is the exact integral conjugate of a rotation returned by S3,
   has determinant `±1`, and has the same Cartesian operator / the congruent metric defect (`A = A_prim · L` exactly).
2. `reported_maps_atoms_partial`: every reported operation carries every atom of the *input* cell onto an atom of the
   same species within `(3 + 2·lam)·symprec + (2 + lam)·tau` (periodic), under six decidable hypotheses on the stage
   outputs (`PipelineOps.hypsOk`).  For an exact lattice symmetry (`lam = 1`) and exact centring translations
   (`tau = 0`) this is `5·symprec`; `≤ 6·symprec` whenever `lam ≤ 5/4` and `tau ≤ symprec/8`.
   `reported_maps_atoms_cluster_partial`: with the additional decidable hypotheses (H-i) and (H-w) — every atom of a
   translation orbit, pulled back by its translation, lies within `omega` of the primitive site averaged from the
   orbit — the radius is `symprec + (1 + lam)·omega + (2 + lam)·tau`: `3·symprec` for `omega = symprec`, `lam = 1`,
   `tau = 0`, and `≤ 4·symprec` (the constant of the property) whenever `omega ≤ symprec`, `lam ≤ 5/4`,
   `tau ≤ symprec/5` (`reported_maps_atoms_four_partial`).
3. Non-vacuity: a 1×1×2 supercell with noise and a mirror, the composed model evaluated by the kernel.
-/
namespace Moyo.C01
open Moyo Moyo.Search Moyo.Stage Moyo.PipelineOps Moyo.Spec Moyo.Pipeline

/-! ### (1) rotation parts -/

/-- `reported_rotation_props`.  For every reported operation `(N, t)` of the composed model there is an operation
`(R, s)` returned by S3 (primitive cell) such that, with `L = prim.linear` (primitive → input, `det L ≠ 0`):
* `L N = R L` (exact integral conjugate) and `A = A_prim L` (the input basis is the primitive basis times `L`);
* `det N = det R = ±1` (given (H-d): the rotations proposed to S3 have determinant `±1`, which `C02.bravais_filter_det`
  / `bravais_result_det` prove of everything leaving the S2 model);
* the metric defect of `N` in the input cell is the defect of `R` in the primitive cell carried by congruence:
  `Nᵀ G N − G = Lᵀ (Rᵀ G_p R − G_p) L` for `G = AᵀA`, `G_p = A_primᵀ A_prim` — so `N` preserves the input metric
  exactly as well as `R` preserves the primitive one;
* the Cartesian operators agree: `A N A⁻¹ = A_prim R A_prim⁻¹`. -/
theorem reported_rotation_props (c : CellQ) (symprec : Rat) (H : Heur) (st : Stages)
    (hrun : runStages c symprec H = .ok st) (Hd : candDetOk H = true) :
    ∀ q ∈ st.ops, ∃ e ∈ st.primOps,
      st.prim.linear.det ≠ 0 ∧
      st.prim.linear.mul q.rot = e.rot.mul st.prim.linear ∧
      c.lat = st.prim.cell.lat.mul (QM3.ofM3 st.prim.linear) ∧
      q.rot.det = e.rot.det ∧ (q.rot.det = 1 ∨ q.rot.det = -1) ∧
      (let G := c.lat.transpose.mul c.lat
       let Gp := st.prim.cell.lat.transpose.mul st.prim.cell.lat
       (((QM3.ofM3 q.rot).transpose.mul G).mul (QM3.ofM3 q.rot)).sub G =
         ((QM3.ofM3 st.prim.linear).transpose.mul
           ((((QM3.ofM3 e.rot).transpose.mul Gp).mul (QM3.ofM3 e.rot)).sub Gp)).mul (QM3.ofM3 st.prim.linear)) ∧
      (st.prim.cell.lat.det ≠ 0 →
        (c.lat.mul (QM3.ofM3 q.rot)).mul c.lat.inv =
          (st.prim.cell.lat.mul (QM3.ofM3 e.rot)).mul st.prim.cell.lat.inv) := by
  intro q hq
  obtain ⟨e, he, _, _, _, hdet, hconj, _, _⟩ := reported_mem hrun hq
  obtain ⟨_, hS3, _⟩ := runStages_ok hrun
  have hA := lat_matrix hrun
  obtain ⟨c1, c2, c3⟩ := conj_exact st.prim.linear q.rot e.rot hconj hdet
  have hRdet := primOps_det hS3 ((candDetOk_iff H).mp Hd) e he
  refine ⟨e, he, hdet, hconj, hA, c1, by rw [c1]; exact hRdet, ?_, ?_⟩
  · have := c2 (st.prim.cell.lat.transpose.mul st.prim.cell.lat)
    simp only at this ⊢
    have hG : c.lat.transpose.mul c.lat =
        ((QM3.ofM3 st.prim.linear).transpose.mul (st.prim.cell.lat.transpose.mul st.prim.cell.lat)).mul
          (QM3.ofM3 st.prim.linear) := by
      rw [hA, QM3.transpose_mul]; simp only [QM3.mul_assoc]
    rw [hG]; exact this
  · intro hAp
    rw [hA]; exact c3 _ hAp

/-- (H-d) holds whenever the proposed Bravais list is what the S2 model of `search_bravais_group` returns for some
basis and tolerances (`C02.bravais_result_det`) and the S3 candidates take their rotations from it (`candsFromBrav`). -/
theorem candDetOk_of_bravais (H : Heur) (B : QM3) (sp : Rat) (ang : Option Rat) (g : List M3)
    (hS2 : (SearchBravais.searchBravais B sp ang).res = .ok g) (hb : H.brav = some g)
    (hsub : candsFromBrav H = true) : candDetOk H = true := by
  obtain ⟨_, _, _, _, hdet⟩ := C02.bravais_result_det B sp ang g hS2
  rw [candDetOk_iff]
  intro cd hcd
  unfold candsFromBrav at hsub
  rw [hb] at hsub
  simp only [List.all_eq_true, List.contains_iff_mem] at hsub
  exact (hdet _ (hsub cd hcd)).2

/-! ### (2) atoms of the input cell -/

/-
Full statement asked by C01 (not proved; kept visible):

  theorem reported_maps_atoms (hrun : runStages c symprec H = .ok st) :
      ∀ q ∈ st.ops, ∀ i, i < c.n →
        OnSite c ((q.rot.applyQ c.pos[i]!).add q.trans) c.num[i]! ((4 * symprec) * (4 * symprec))

What is proved instead (`_partial`): the radius `(3 + 2·lam)·symprec + (2 + lam)·tau` in place of `4·symprec`, under
the hypotheses (H-p), (H-s), (H-c), (H-ε), (H-r), (H-η) below, each a `Bool` computed from the stage outputs
(`PipelineOps.hypReport` prints them for the evidence).  Missing for the full statement:
  * the constant: the chain atom → representative atom (1) → primitive site (1) → [rotation, both errors stretched
    by `lam`] → image site (1) → its representative atom (1) → atom reached by the pure translation (1) costs
    `3 + 2·lam ≥ 5` units of `symprec`; no link is proved with a smaller constant;
  * the removal of the hypotheses, in particular (H-ε)/(H-r) (that the accepted translations sit on the lattice
    `L⁻¹ℤ³` built from them by `transformation_matrix_from_translations`, up to `tau`) and (H-η) (that the Bravais
    filter bounds the strain of `R`: `bravais_filter_strain_partial`, DESIGN §3 C01, is not proved).
  (H-s) follows from the closure hypothesis (H-a) of DESIGN: `siteOrbitOk_of_closed`.
-/

/-- `reported_maps_atoms_partial`.  Let the composed model return `st` for the input cell `c`, tolerance `symprec`
and proposals `H`.  Assume, for a strain factor `lam` and a lattice mismatch `tau` (both rational parameters):
* (H-p) `permsInvertible`: each accepted translation permutation `π` satisfies `π(π⁻¹(o)) = o` (`Permutation::inverse`
  is a right inverse, i.e. `π` is a bijection);
* (H-s) `siteOrbitOk`: every atom is carried onto the representative of its `site_mapping` class by an accepted
  translation permutation (what closure (H-a) of these permutations gives);
* (H-c) `distinctOk`: the candidates accepted by S3 have pairwise distinct rotations;
* (H-ε) `transNearLattice … tau`: each accepted translation `t` has `|A_prim (L t − round(L t))| ≤ tau`;
* (H-r) `cosetsCovered`: the vectors `round(L t)` represent every class of `ℤ³ / L ℤ³`;
* (H-η) `strainAll … lam`: every rotation `R` returned by S3 has `|A_prim R v| ≤ lam·|A_prim v|` for all `v`.
Then every reported operation `(N, t)` maps every atom `i` of the input cell to within Cartesian distance
`radius symprec lam tau = (3 + 2·lam)·symprec + (2 + lam)·tau` of an atom of the same species, modulo the input
lattice (`Spec.OnSite`, the vocabulary of `Spec.C01`). -/
theorem reported_maps_atoms_partial (c : CellQ) (symprec : Rat) (H : Heur) (st : Stages)
    (hrun : runStages c symprec H = .ok st) (lam tau : Rat)
    (Hp : permsInvertible st.prim = true) (Hs : siteOrbitOk st.prim = true)
    (Hc : distinctOk st symprec H = true) (He : transNearLattice st.prim tau = true)
    (Hr : cosetsCovered st.prim = true) (Hη : strainAll st lam = true) :
    ∀ q ∈ st.ops, ∀ i, i < c.n →
      OnSite c ((q.rot.applyQ c.pos[i]!).add q.trans) c.num[i]!
        (radius symprec lam tau * radius symprec lam tau) :=
  reported_maps_atoms hrun Hp Hs Hc He Hr Hη

/-- (H-a) ⇒ (H-s) ∧ (H-p) ∧ (H-i): if the translation permutations accepted by S1 contain the identity and are closed under
inversion and composition (as maps of `0..n`), then every atom is carried onto the representative of its
`site_mapping` class by one of them, and `Permutation::inverse` is a two-sided inverse of each.  (Uses the correctness
of the quick-find model of `orbits_from_permutations`, `OrbitsP.orbits_inv`, and the fact that
`site_mapping_from_orbits` numbers the class minima in increasing order.) -/
theorem siteOrbitOk_of_closed (c : CellQ) (symprec : Rat) (H : Heur) (st : Stages)
    (hrun : runStages c symprec H = .ok st) (Ha : permsClosed st.prim = true) :
    siteOrbitOk st.prim = true ∧ permsInvertible st.prim = true ∧ permsLeftInv st.prim = true :=
  closed_imp (runStages_ok hrun).1 Ha

/-- `reported_maps_atoms_partial` with the closure hypothesis (H-a) of DESIGN in place of (H-p), (H-s). -/
theorem reported_maps_atoms_closed_partial (c : CellQ) (symprec : Rat) (H : Heur) (st : Stages)
    (hrun : runStages c symprec H = .ok st) (lam tau : Rat)
    (hyp : hypsOkClosed st symprec H lam tau = true) :
    ∀ q ∈ st.ops, ∀ i, i < c.n →
      OnSite c ((q.rot.applyQ c.pos[i]!).add q.trans) c.num[i]!
        (radius symprec lam tau * radius symprec lam tau) := by
  simp only [hypsOkClosed, Bool.and_eq_true] at hyp
  obtain ⟨⟨⟨⟨h1, h3⟩, h4⟩, h5⟩, h6⟩ := hyp
  obtain ⟨hs, hp, _⟩ := siteOrbitOk_of_closed c symprec H st hrun h1
  exact reported_maps_atoms hrun hp hs h3 h4 h5 h6

/-- The same with the single test `hypsOk`, about `reportedOps`. -/
theorem ops_sound_input_cell_partial (c : CellQ) (symprec : Rat) (H : Heur) (ops : List OpQ)
    (h : reportedOps c symprec H = .ok ops) (lam tau : Rat)
    (hyp : ∀ st, runStages c symprec H = .ok st → hypsOk st symprec H lam tau = true) :
    ∀ q ∈ ops, ∀ i, i < c.n →
      OnSite c (Oracle.opAct q c.pos[i]!) c.num[i]! (radius symprec lam tau * radius symprec lam tau) := by
  obtain ⟨st, hst, rfl⟩ := reportedOps_ok h
  have hy := hyp st hst
  simp only [hypsOk, Bool.and_eq_true] at hy
  obtain ⟨⟨⟨⟨⟨h1, h2⟩, h3⟩, h4⟩, h5⟩, h6⟩ := hy
  exact reported_maps_atoms hst h1 h2 h3 h4 h5 h6

theorem onSite_mono {c : CellQ} {y : Q3} {sp : Int} {r2 r2' : Rat} (h : OnSite c y sp r2) (hr : r2 ≤ r2') :
    OnSite c y sp r2' := by
  obtain ⟨j, hj, hn, n, hle⟩ := h
  exact ⟨j, hj, hn, n, le_trans hle hr⟩

/-- The constant: `K = 6` whenever `lam ≤ 5/4` and `tau ≤ symprec/8`; `K = 5` for `lam = 1`, `tau = 0`. -/
theorem radius_le_six {symprec lam tau : Rat} (hs : 0 ≤ symprec) (hl0 : 0 ≤ lam) (hl : lam ≤ 5 / 4) (ht0 : 0 ≤ tau)
    (ht : tau ≤ symprec / 8) : 0 ≤ radius symprec lam tau ∧ radius symprec lam tau ≤ 6 * symprec := by
  unfold radius
  constructor
  · positivity
  · nlinarith

theorem radius_exact (symprec : Rat) : radius symprec 1 0 = 5 * symprec := by
  unfold radius; ring

/-- `K = 6`: under the hypotheses of `reported_maps_atoms_partial` with `lam ≤ 5/4` and `tau ≤ symprec/8`, every
reported operation maps every input atom to within `6·symprec` of an atom of the same species. -/
theorem reported_maps_atoms_six_partial (c : CellQ) (symprec : Rat) (H : Heur) (st : Stages)
    (hrun : runStages c symprec H = .ok st) (lam tau : Rat) (hl : lam ≤ 5 / 4) (ht : tau ≤ symprec / 8)
    (hyp : hypsOk st symprec H lam tau = true) :
    ∀ q ∈ st.ops, ∀ i, i < c.n →
      OnSite c (Oracle.opAct q c.pos[i]!) c.num[i]! ((6 * symprec) * (6 * symprec)) := by
  intro q hq i hi
  have hy := hyp
  simp only [hypsOk, Bool.and_eq_true] at hy
  obtain ⟨⟨⟨⟨⟨h1, h2⟩, h3⟩, h4⟩, h5⟩, h6⟩ := hy
  have hbase := reported_maps_atoms hrun h1 h2 h3 h4 h5 h6 q hq i hi
  -- `0 ≤ tau`, `0 ≤ lam`, `0 < symprec`
  have ht0 : 0 ≤ tau := (transNearLattice_sound h4).1
  obtain ⟨hS1, hS3, _⟩ := runStages_ok hrun
  obtain ⟨_, _, _, hne, _, hlen, _⟩ := searchModel_ok hS3
  have hs : 0 < symprec := by
    obtain ⟨g, hg⟩ := List.exists_mem_of_ne_nil _ hne
    obtain ⟨cd, _, hacc, _⟩ := mem_purify.mp hg
    exact ((accept_iff _ symprec _ _ _).mp hacc).1
  have hl0 : 0 ≤ lam := by
    have hops : st.primOps ≠ [] := by
      intro h0
      rw [h0] at hlen
      exact hne (List.eq_nil_of_length_eq_zero hlen.symm)
    obtain ⟨e, he⟩ := List.exists_mem_of_ne_nil _ hops
    exact (strainOk_sound ((strainAll_iff _ _).mp h6 e he) Q3.zero).1
  obtain ⟨hr0, hr6⟩ := radius_le_six (le_of_lt hs) hl0 hl ht0 ht
  exact onSite_mono hbase (by nlinarith)

/-! ### (2') the constant 4: going through the sites instead of the representative atoms -/

/-- `reported_maps_atoms_cluster_partial`.  In addition to the hypotheses of `reported_maps_atoms_partial` assume
* (H-i) `permsLeftInv`: `π⁻¹(π(i)) = i` for every accepted translation permutation (injectivity);
* (H-w) `clusterOk … omega`: for every orbit representative `o`, every summand `wrap(x_{π⁻¹(o)} + t − x_o)` of the
  average of Eq. (25) lies within Cartesian distance `omega` of the average — i.e. every atom of the orbit, pulled
  back by its translation, lies within `omega` of the primitive site built from the orbit (`omega = 2·symprec` is
  always true; `omega = symprec` is what holds when the noise is at most half the tolerance).
Then every reported operation maps every atom of the input cell to within
`radiusCluster symprec lam tau omega = symprec + (1 + lam)·omega + (2 + lam)·tau` of an atom of the same species.
(Chain: atom → its site (`omega`) → [rotation, stretched by `lam`; accept test of S3: `symprec`] → image site →
an atom of that site (`omega`), the atom being chosen in the lattice class of the accumulated integer vector.) -/
theorem reported_maps_atoms_cluster_partial (c : CellQ) (symprec : Rat) (H : Heur) (st : Stages)
    (hrun : runStages c symprec H = .ok st) (lam tau omega : Rat)
    (hyp : hypsOkCluster st symprec H lam tau omega = true) :
    ∀ q ∈ st.ops, ∀ i, i < c.n →
      OnSite c ((q.rot.applyQ c.pos[i]!).add q.trans) c.num[i]!
        (radiusCluster symprec lam tau omega * radiusCluster symprec lam tau omega) := by
  simp only [hypsOkCluster, Bool.and_eq_true] at hyp
  obtain ⟨⟨⟨⟨⟨⟨⟨h1, h2⟩, h3⟩, h4⟩, h5⟩, h6⟩, h7⟩, h8⟩ := hyp
  exact reported_maps_atoms_cluster hrun h1 h2 h3 h4 h5 h6 h7 h8

/-- The same with closure (H-a) in place of (H-p), (H-i), (H-s). -/
theorem reported_maps_atoms_cluster_closed_partial (c : CellQ) (symprec : Rat) (H : Heur) (st : Stages)
    (hrun : runStages c symprec H = .ok st) (lam tau omega : Rat)
    (hyp : hypsOkClusterClosed st symprec H lam tau omega = true) :
    ∀ q ∈ st.ops, ∀ i, i < c.n →
      OnSite c ((q.rot.applyQ c.pos[i]!).add q.trans) c.num[i]!
        (radiusCluster symprec lam tau omega * radiusCluster symprec lam tau omega) := by
  simp only [hypsOkClusterClosed, Bool.and_eq_true] at hyp
  obtain ⟨⟨⟨⟨⟨h1, h4⟩, h5⟩, h6⟩, h7⟩, h8⟩ := hyp
  obtain ⟨hs, hp, hi⟩ := siteOrbitOk_of_closed c symprec H st hrun h1
  exact reported_maps_atoms_cluster hrun hp hi hs h4 h5 h6 h7 h8

theorem radiusCluster_le_four {symprec lam tau omega : Rat} (hs : 0 ≤ symprec) (hl0 : 0 ≤ lam) (hl : lam ≤ 5 / 4)
    (ht0 : 0 ≤ tau) (ht : tau ≤ symprec / 5) (hw0 : 0 ≤ omega) (hw : omega ≤ symprec) :
    0 ≤ radiusCluster symprec lam tau omega ∧ radiusCluster symprec lam tau omega ≤ 4 * symprec := by
  unfold radiusCluster
  constructor
  · positivity
  · nlinarith

theorem radiusCluster_exact (symprec : Rat) : radiusCluster symprec 1 0 symprec = 3 * symprec := by
  unfold radiusCluster; ring

/-- `reported_maps_atoms_four_partial`: **the constant of C01**.  If the run satisfies (H-a), (H-c), (H-ε), (H-r),
(H-η), (H-w) with `omega ≤ symprec`, `lam ≤ 5/4`, `tau ≤ symprec/5`, every reported operation maps every atom of the
input cell to within `4·symprec` of an atom of the same species — the third clause of `Spec.C01`. -/
theorem reported_maps_atoms_four_partial (c : CellQ) (symprec : Rat) (H : Heur) (st : Stages)
    (hrun : runStages c symprec H = .ok st) (lam tau omega : Rat) (hl : lam ≤ 5 / 4) (ht : tau ≤ symprec / 5)
    (hw : omega ≤ symprec) (hyp : hypsOkClusterClosed st symprec H lam tau omega = true) :
    ∀ q ∈ st.ops, ∀ i, i < c.n →
      OnSite c (Oracle.opAct q c.pos[i]!) c.num[i]! ((4 * symprec) * (4 * symprec)) := by
  intro q hq i hi
  have hbase := reported_maps_atoms_cluster_closed_partial c symprec H st hrun lam tau omega hyp q hq i hi
  simp only [hypsOkClusterClosed, Bool.and_eq_true] at hyp
  obtain ⟨⟨⟨⟨⟨_, _⟩, h5⟩, _⟩, h7⟩, h8⟩ := hyp
  have ht0 : 0 ≤ tau := (transNearLattice_sound h5).1
  have hw0 : 0 ≤ omega := by
    simp only [clusterOk, Bool.and_eq_true, decide_eq_true_eq] at h8
    exact h8.1
  obtain ⟨_, hS3, _⟩ := runStages_ok hrun
  obtain ⟨_, _, _, hne, _, hlen, _⟩ := searchModel_ok hS3
  have hs : 0 < symprec := by
    obtain ⟨g, hg⟩ := List.exists_mem_of_ne_nil _ hne
    obtain ⟨cd, _, hacc, _⟩ := mem_purify.mp hg
    exact ((accept_iff _ symprec _ _ _).mp hacc).1
  have hl0 : 0 ≤ lam := by
    have hops : st.primOps ≠ [] := by
      intro h0
      rw [h0] at hlen
      exact hne (List.eq_nil_of_length_eq_zero hlen.symm)
    obtain ⟨e, he⟩ := List.exists_mem_of_ne_nil _ hops
    exact (strainOk_sound ((strainAll_iff _ _).mp h7 e he) Q3.zero).1
  obtain ⟨hr0, hr4⟩ := radiusCluster_le_four (le_of_lt hs) hl0 hl ht0 ht hw0 hw
  exact onSite_mono hbase (by nlinarith)

/-! ### (3) non-vacuity: the composed model evaluated by the kernel -/

/-- Two like atoms at `z = 0` and `z = 0.501` in an orthorhombic cell `3 × 4 × 10`: a `1×1×2` supercell (with noise
`0.001·c = 0.01 Å`) of a one-atom primitive cell `3 × 4 × 5` with the mirror `z ↦ -z`. -/
def pipeCell : CellQ := ⟨⟨3, 0, 0, 0, 4, 0, 0, 0, 10⟩, #[⟨0, 0, 0⟩, ⟨0, 0, 501 / 1000⟩], #[1, 1]⟩

def pipeMirror : M3 := ⟨1, 0, 0, 0, 1, 0, 0, 0, -1⟩

/-- Proposals: identity Minkowski matrices; the two pivot translations with their correspondences; Bravais list and
candidates `{1, m_z}` (rough translation of the mirror: `x₀ − m_z x₀ = (0, 0, 0.002)`). -/
def pipeHeur : Heur :=
  { mink1 := some M3.one
    tcands := [⟨[0, 1], ⟨0, 0, 0⟩⟩, ⟨[1, 0], ⟨0, 0, 501 / 1000⟩⟩]
    mink2 := some M3.one
    brav := some [M3.one, pipeMirror]
    cands := [⟨M3.one, ⟨0, 0, 0⟩, [0]⟩, ⟨pipeMirror, ⟨0, 0, 1 / 500⟩, [0]⟩] }

/-- The composed model at `symprec = 1/10` reports the four operations `{1, m_z} × {0, c/2}` (the mirror with the
translation `0.001` that puts the plane through the averaged site), and all hypotheses of
`reported_maps_atoms_partial` hold with `lam = 1`, `tau = 0`; so does (H-d) of `reported_rotation_props`. -/
theorem pipeRun : (runStages pipeCell (1 / 10) pipeHeur).toOption.map
      (fun st => (st.ops.map fun o => (o.rot, o.trans), st.prim.linear, st.prim.siteMapping,
        hypsOk st (1 / 10) pipeHeur 1 0, hypsOkClosed st (1 / 10) pipeHeur 1 0, candDetOk pipeHeur)) =
    some ([(M3.one, ⟨0, 0, 0⟩), (pipeMirror, ⟨0, 0, 1 / 1000⟩), (M3.one, ⟨0, 0, 1 / 2⟩), (pipeMirror, ⟨0, 0, 501 / 1000⟩)],
      ⟨1, 0, 0, 0, 1, 0, 0, 0, 2⟩, [0, 0], true, true, true) := by
  decide +kernel

/-- On the same run the hypotheses of the cluster theorems hold with `omega = symprec = 1/10` (both forms); the two
atoms of the orbit lie `0.005` from the averaged site, so (H-w) holds down to `omega = 1/200` and fails for
`omega = 1/250`. -/
theorem pipeRunCluster : (runStages pipeCell (1 / 10) pipeHeur).toOption.map
      (fun st => [hypsOkCluster st (1 / 10) pipeHeur 1 0 (1 / 10), hypsOkClusterClosed st (1 / 10) pipeHeur 1 0 (1 / 10),
        clusterOk st.prim (1 / 10) pipeHeur.tcands (1 / 200), clusterOk st.prim (1 / 10) pipeHeur.tcands (1 / 250)]) =
    some [true, true, true, false] := by
  decide +kernel

def pipeCheck : Bool :=
  match runStages pipeCell (1 / 10) pipeHeur with
  | .ok st => hypsOk st (1 / 10) pipeHeur 1 0 && (st.ops.length == 4) &&
      hypsOkClusterClosed st (1 / 10) pipeHeur 1 0 (1 / 10) && candDetOk pipeHeur
  | .error _ => false

/-- Non-vacuity of `reported_maps_atoms_partial` / `ops_sound_input_cell_partial`: all hypotheses hold together on
a run that reports four operations. -/
theorem pipeHyps : ∃ st, runStages pipeCell (1 / 10) pipeHeur = .ok st ∧ hypsOk st (1 / 10) pipeHeur 1 0 = true ∧
    st.ops.length = 4 ∧ hypsOkClusterClosed st (1 / 10) pipeHeur 1 0 (1 / 10) = true ∧ candDetOk pipeHeur = true := by
  have h : pipeCheck = true := by decide +kernel
  unfold pipeCheck at h
  split at h
  · rename_i st hst
    simp only [Bool.and_eq_true, beq_iff_eq] at h
    exact ⟨st, hst, h.1.1.1, h.1.1.2, h.1.2, h.2⟩
  · cases h

/-- The theorem applied to the instance: each of the four reported operations maps both atoms to within
`5·symprec = 1/2` of an atom. -/
example : ∃ st, runStages pipeCell (1 / 10) pipeHeur = .ok st ∧ st.ops.length = 4 ∧
    ∀ q ∈ st.ops, ∀ i, i < pipeCell.n → OnSite pipeCell ((q.rot.applyQ pipeCell.pos[i]!).add q.trans) pipeCell.num[i]!
      ((1 / 2) * (1 / 2)) := by
  obtain ⟨st, hst, hy, hlen, _, _⟩ := pipeHyps
  refine ⟨st, hst, hlen, ?_⟩
  simp only [hypsOk, Bool.and_eq_true] at hy
  obtain ⟨⟨⟨⟨⟨h1, h2⟩, h3⟩, h4⟩, h5⟩, h6⟩ := hy
  have := reported_maps_atoms_partial pipeCell (1 / 10) pipeHeur st hst 1 0 h1 h2 h3 h4 h5 h6
  have hr : radius (1 / 10) 1 0 = 1 / 2 := by unfold radius; norm_num
  rwa [hr] at this

/-- `reported_maps_atoms_four_partial` and `reported_rotation_props` applied to the instance: within `4·symprec`
(indeed `3·symprec`), determinant `±1`. -/
example : ∃ st, runStages pipeCell (1 / 10) pipeHeur = .ok st ∧ st.ops.length = 4 ∧
    (∀ q ∈ st.ops, ∀ i, i < pipeCell.n →
      OnSite pipeCell (Oracle.opAct q pipeCell.pos[i]!) pipeCell.num[i]! ((4 * (1 / 10)) * (4 * (1 / 10)))) ∧
    (∀ q ∈ st.ops, q.rot.det = 1 ∨ q.rot.det = -1) := by
  obtain ⟨st, hst, _, hlen, hy, hd⟩ := pipeHyps
  refine ⟨st, hst, hlen, ?_, ?_⟩
  · exact reported_maps_atoms_four_partial pipeCell (1 / 10) pipeHeur st hst 1 0 (1 / 10) (by norm_num) (by norm_num)
      (le_refl _) hy
  · intro q hq
    obtain ⟨e, _, _, _, _, _, h, _⟩ := reported_rotation_props pipeCell (1 / 10) pipeHeur st hst hd q hq
    exact h

/-- The same crystal in a slightly sheared cell (`c = (0.01, 0, 10)`): the mirror is no longer an exact isometry of
the lattice, the strain test fails for `lam = 1` and `lam = 1.001` and holds for `lam = 1.01`; all other hypotheses
hold.  The theorem then gives the radius `5.02·symprec`. -/
def pipeCellSheared : CellQ := ⟨⟨3, 0, 1 / 100, 0, 4, 0, 0, 0, 10⟩, #[⟨0, 0, 0⟩, ⟨0, 0, 501 / 1000⟩], #[1, 1]⟩

theorem pipeRunSheared : (runStages pipeCellSheared (1 / 10) pipeHeur).toOption.map
      (fun st => (st.ops.length, strainAll st 1, strainAll st (1001 / 1000), hypsOk st (1 / 10) pipeHeur (101 / 100) 0)) =
    some (4, false, false, true) := by
  decide +kernel

/-- Non-vacuity of `candDetOk_of_bravais`: the S2 model on the primitive lattice `3 × 4 × 5` of the example returns a
list (the eight elements of `mmm`) that contains the rotations of the S3 candidates. -/
def pipeBravCheck : Bool :=
  match (SearchBravais.searchBravais ⟨3, 0, 0, 0, 4, 0, 0, 0, 5⟩ (1 / 10) none).res with
  | .ok g => (g.length == 8) && candsFromBrav { pipeHeur with brav := some g }
  | _ => false

example : ∃ g, (SearchBravais.searchBravais ⟨3, 0, 0, 0, 4, 0, 0, 0, 5⟩ (1 / 10) none).res = .ok g ∧ g.length = 8 ∧
    candDetOk { pipeHeur with brav := some g } = true := by
  have h : pipeBravCheck = true := by decide +kernel
  unfold pipeBravCheck at h
  split at h
  · rename_i g hg
    simp only [Bool.and_eq_true, beq_iff_eq] at h
    exact ⟨g, hg, h.1, candDetOk_of_bravais _ _ _ _ g hg rfl h.2⟩
  · cases h

end Moyo.C01
