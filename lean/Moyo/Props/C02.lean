import Moyo.Spec.C02
import Moyo.Proofs.OracleC02
import Moyo.Proofs.OracleAlgebra
/-
C02: soundness of the executable oracle `Oracle.checkC02` with respect to the group statement
`Spec.C02group` / `Spec.C02groupOn` and the completeness statement `Spec.C02complete`, and the
finite-group lemma behind "closed ⇒ has inverses".
-/
namespace Moyo.C02
open Moyo Moyo.Oracle Moyo.Spec Moyo.Periodic Moyo.OracleP

/-- What a silent `checkC02` establishes about the group structure, for any number of operations:
closure is checked for every left factor and the right factors `ops[j]` with
`size ≤ 48 ∨ j < 8 ∨ j % 7 = 0` (all of them when at most 48 operations are reported, a fixed
sub-family otherwise).
Full statement (`Spec.C02group`, closure for all pairs) is `checkC02_group_sound` below and needs
`d.ops.size ≤ 48`; for larger lists the unchecked pairs are exactly those with
`j ≥ 8 ∧ j % 7 ≠ 0`. -/
theorem checkC02_group_sound_partial {cs : CaseQ} {d : DatasetQ} (h : checkC02 cs d = []) :
    Spec.C02groupOn cs d (fun j => d.ops.size ≤ 48 ∨ j < 8 ∨ j % 7 = 0) := by
  unfold checkC02 at h
  have h' := cap_eq_nil h
  simp only [List.append_eq_nil_iff] at h'
  obtain ⟨⟨⟨⟨⟨h0, h1⟩, h2⟩, h3⟩, _⟩, _⟩ := h'
  have h1 := take_succ_eq_nil h1
  have h2 := take_succ_eq_nil h2
  have h3 := take_succ_eq_nil h3
  refine ⟨?_, ?_, ?_, ?_⟩
  · exact hasOpG_sound (ite_nil_singleton h0)
  · intro i j hji hi hsame
    rw [List.filterMap_eq_nil_iff] at h1
    have := h1 i (List.mem_range.2 hi)
    split at this
    · cases this
    · rename_i hany
      apply hany
      rw [List.any_eq_true]
      refine ⟨j, List.mem_range.2 hji, ?_⟩
      obtain ⟨hr, n, nx, ny, nz⟩ := hsame
      simp only [Bool.and_eq_true, beq_iff_eq, decide_eq_true_eq]
      refine ⟨hr, ⟨?_, ?_⟩, ?_⟩
      · exact lt_of_le_of_lt (rabs_wrap_le _ n.x) nx
      · exact lt_of_le_of_lt (rabs_wrap_le _ n.y) ny
      · exact lt_of_le_of_lt (rabs_wrap_le _ n.z) nz
  · intro a ha j hj hright
    obtain ⟨i, hi, rfl⟩ := getElem!_of_mem ha
    rw [List.filterMap_eq_nil_iff] at h2
    have := h2 i (List.mem_range.2 hi)
    split at this
    · cases this
    · rename_i hnone
      rw [List.find?_eq_none] at hnone
      have hjm : j ∈ (if d.ops.size ≤ 48 then List.range d.ops.size
          else (List.range d.ops.size).filter fun j => decide (j < 8) || j % 7 == 0) := by
        split
        · exact List.mem_range.2 hj
        · rename_i hbig
          rw [List.mem_filter]
          refine ⟨List.mem_range.2 hj, ?_⟩
          rcases hright with h48 | h8 | h7
          · exact absurd h48 hbig
          · simp [h8]
          · simp [h7]
      have := hnone j hjm
      apply hasOpG_sound (gi := ginvDiag cs.cell.lat)
      simpa using this
  · intro a ha
    obtain ⟨i, hi, rfl⟩ := getElem!_of_mem ha
    rw [List.filterMap_eq_nil_iff] at h3
    have := h3 i (List.mem_range.2 hi)
    split at this
    · rename_i hany
      rw [Array.any_eq_true'] at hany
      obtain ⟨e, he, hcond⟩ := hany
      rw [Bool.and_eq_true, Array.any_eq_true'] at hcond
      obtain ⟨hrot, t, ht, hclose⟩ := hcond
      obtain ⟨p, hp, hr, rfl⟩ := groupByRot_sound d.ops e he t ht
      refine ⟨p, Array.mem_toList_iff.2 hp, ?_, withinPeriodic_sound hclose⟩
      rw [← hr] at hrot
      exact beq_iff_eq.1 hrot
    · cases this

/-- Soundness of the group clauses when all pairs are checked (at most 48 operations). -/
theorem checkC02_group_sound {cs : CaseQ} {d : DatasetQ} (h : checkC02 cs d = [])
    (hk : d.ops.size ≤ 48) : Spec.C02group cs d := by
  obtain ⟨c0, c1, c2, c3⟩ := checkC02_group_sound_partial h
  refine ⟨c0, c1, ?_, c3⟩
  intro a ha b hb
  obtain ⟨j, hj, rfl⟩ := getElem!_of_mem hb
  exact c2 a ha j hj (Or.inl hk)

/-- Soundness of the completeness clauses: a silent oracle means the reported list equals the
independently constructed group modulo lattice translations, and the pure translations count the
index of the primitive cell. -/
theorem checkC02_complete_sound {cs : CaseQ} {d : DatasetQ} (h : checkC02 cs d = []) :
    Spec.C02complete cs d := by
  unfold checkC02 at h
  have h' := cap_eq_nil h
  simp only [List.append_eq_nil_iff] at h'
  obtain ⟨⟨_, h4⟩, h5⟩ := h'
  refine ⟨?_, ?_⟩
  · split at h4
    · cases h4
    · rename_i exp hexp
      simp only [List.append_eq_nil_iff] at h4
      obtain ⟨⟨m1, m2⟩, m3⟩ := h4
      refine ⟨exp, hexp, ?_, ?_, ?_⟩
      · intro e he
        have hm := ite_nil_singleton m1
        rw [List.isEmpty_iff, List.filter_eq_nil_iff] at hm
        have := hm e he
        apply hasOpG_sound (gi := ginvDiag cs.cell.lat)
        simpa using this
      · intro o ho
        have hm := ite_nil_singleton m2
        rw [List.isEmpty_iff, List.filter_eq_nil_iff] at hm
        have := hm o ho
        have hr : Reported cs.cell.lat (4 * d.symprec * (4 * d.symprec)) exp.toArray o := by
          apply hasOpG_sound (gi := ginvDiag cs.cell.lat)
          simpa using this
        obtain ⟨e, he, hne⟩ := hr
        exact ⟨e, by simpa using he, hne⟩
      · have := ite_nil_singleton m3
        exact beq_iff_eq.1 this
  · have := ite_nil_singleton h5
    exact beq_iff_eq.1 this

/-- Completeness (no false alarm): if the group statement (with closure for the right factors the
oracle looks at) and the completeness statement hold, the oracle is silent — for a non-degenerate
lattice and a tolerance inside the scanned window. -/
theorem checkC02_complete {cs : CaseQ} {d : DatasetQ} (hA : cs.cell.lat.det ≠ 0)
    (hw : Window cs.cell.lat ((4 * d.symprec) * (4 * d.symprec)))
    (hg : Spec.C02groupOn cs d (fun j => d.ops.size ≤ 48 ∨ j < 8 ∨ j % 7 = 0))
    (hc : Spec.C02complete cs d) : checkC02 cs d = [] := by
  obtain ⟨c0, c1, c2, c3⟩ := hg
  obtain ⟨⟨exp, hexp, e1, e2, e3⟩, c5⟩ := hc
  unfold checkC02
  simp only
  apply cap_nil_of
  simp only [List.append_eq_nil_iff]
  refine ⟨⟨⟨⟨⟨?_, ?_⟩, ?_⟩, ?_⟩, ?_⟩, ?_⟩
  · exact if_pos (hasOpG_complete hA hw c0)
  · apply take_nil_of
    rw [List.filterMap_eq_nil_iff]
    intro i hi
    split
    · rename_i hany
      exfalso
      rw [List.any_eq_true] at hany
      obtain ⟨j, hj, hcond⟩ := hany
      simp only [Bool.and_eq_true, beq_iff_eq, decide_eq_true_eq] at hcond
      exact c1 i j (List.mem_range.1 hj) (List.mem_range.1 hi)
        ⟨hcond.1, ⟨ratRound (d.ops[j]!.trans.x - d.ops[i]!.trans.x),
          ratRound (d.ops[j]!.trans.y - d.ops[i]!.trans.y),
          ratRound (d.ops[j]!.trans.z - d.ops[i]!.trans.z)⟩, hcond.2.1.1, hcond.2.1.2, hcond.2.2⟩
    · rfl
  · apply take_nil_of
    rw [List.filterMap_eq_nil_iff]
    intro i hi
    split
    · rename_i j hfind
      exfalso
      have h1 := List.find?_some hfind
      have h2 := List.mem_of_find?_eq_some hfind
      have hj : j < d.ops.size ∧ (d.ops.size ≤ 48 ∨ j < 8 ∨ j % 7 = 0) := by
        split at h2
        · rename_i hk; exact ⟨List.mem_range.1 h2, Or.inl hk⟩
        · rw [List.mem_filter] at h2
          refine ⟨List.mem_range.1 h2.1, Or.inr ?_⟩
          simpa using h2.2
      have := hasOpG_complete hA hw
        (c2 d.ops[i]! (mem_of_getElem! (List.mem_range.1 hi)) j hj.1 hj.2)
      rw [this] at h1
      cases h1
    · rfl
  · apply take_nil_of
    rw [List.filterMap_eq_nil_iff]
    intro i hi
    split
    · rfl
    · rename_i hany
      exfalso
      apply hany
      obtain ⟨p, hp, hr, hd⟩ := c3 d.ops[i]! (mem_of_getElem! (List.mem_range.1 hi))
      obtain ⟨k, hk, rfl⟩ := Array.mem_iff_getElem.1 (Array.mem_toList_iff.1 hp)
      obtain ⟨e, he, h1, h2⟩ := (groupByRot_complete d.ops).1 k hk
      rw [Array.any_eq_true']
      refine ⟨e, he, ?_⟩
      rw [Bool.and_eq_true, Array.any_eq_true']
      refine ⟨?_, _, h2, withinPeriodic_complete hA hw hd⟩
      rw [h1]
      exact beq_iff_eq.2 hr
  · split
    · rename_i hnone
      rw [hexp] at hnone
      cases hnone
    · rename_i exp' hexp'
      rw [hexp] at hexp'
      injection hexp' with hexp'
      subst hexp'
      simp only [List.append_eq_nil_iff]
      refine ⟨⟨if_pos ?_, if_pos ?_⟩, if_pos (beq_iff_eq.2 e3)⟩
      · rw [List.isEmpty_iff, List.filter_eq_nil_iff]
        intro e he
        simp [hasOpG_complete hA hw (e1 e he)]
      · rw [List.isEmpty_iff, List.filter_eq_nil_iff]
        intro o ho
        obtain ⟨e, he, hne⟩ := e2 o ho
        have : Reported cs.cell.lat (4 * d.symprec * (4 * d.symprec)) exp.toArray o :=
          ⟨e, by simpa using he, hne⟩
        simp [hasOpG_complete hA hw this]
  · exact if_pos (beq_iff_eq.2 c5)

/-- The oracle decides C02 (group axioms with the closure pairs it examines, and completeness
against the constructed group) exactly. -/
theorem checkC02_iff {cs : CaseQ} {d : DatasetQ} (hA : cs.cell.lat.det ≠ 0)
    (hw : Window cs.cell.lat ((4 * d.symprec) * (4 * d.symprec))) :
    checkC02 cs d = [] ↔
      Spec.C02groupOn cs d (fun j => d.ops.size ≤ 48 ∨ j < 8 ∨ j % 7 = 0) ∧ Spec.C02complete cs d :=
  ⟨fun h => ⟨checkC02_group_sound_partial h, checkC02_complete_sound h⟩,
   fun h => checkC02_complete hA hw h.1 h.2⟩

/-- Group-theory lemma: a finite set of invertible integer matrices (det ±1) containing 1 and
closed under multiplication is closed under inverse. -/
theorem closed_finite_has_inverses (S : List M3)
    (hdet : ∀ g ∈ S, g.det = 1 ∨ g.det = -1) (hone : M3.one ∈ S)
    (hmul : ∀ g ∈ S, ∀ h ∈ S, g.mul h ∈ S) :
    ∀ g ∈ S, ∃ h ∈ S, g.mul h = M3.one ∧ h.mul g = M3.one :=
  OracleGroup.closed_finite_has_inverses S hdet hone hmul

/-- Consequence for a dataset: if the group statement holds and every rotation part has det ±1
(C01), the set of reported rotation parts is a group — in particular every rotation part has its
two-sided inverse among the reported rotation parts.  (Follows from identity + closure alone.) -/
theorem rotations_form_group {cs : CaseQ} {d : DatasetQ} (hg : Spec.C02group cs d)
    (hdet : ∀ o ∈ d.ops.toList, o.rot.det = 1 ∨ o.rot.det = -1) :
    ∀ a ∈ d.ops.toList, ∃ p ∈ d.ops.toList, a.rot.mul p.rot = M3.one ∧ p.rot.mul a.rot = M3.one := by
  obtain ⟨c0, _, c2, _⟩ := hg
  have key := closed_finite_has_inverses (d.ops.toList.map (·.rot))
    (by
      intro g hg
      obtain ⟨o, ho, rfl⟩ := List.mem_map.1 hg
      exact hdet o ho)
    (by
      obtain ⟨p, hp, hr, _⟩ := c0
      exact List.mem_map.2 ⟨p, hp, hr⟩)
    (by
      intro g hg h hh
      obtain ⟨a, ha, rfl⟩ := List.mem_map.1 hg
      obtain ⟨b, hb, rfl⟩ := List.mem_map.1 hh
      obtain ⟨p, hp, hr, _⟩ := c2 a ha b hb
      exact List.mem_map.2 ⟨p, hp, hr⟩)
  intro a ha
  obtain ⟨h, hh, e1, e2⟩ := key a.rot (List.mem_map.2 ⟨a, ha, rfl⟩)
  obtain ⟨p, hp, rfl⟩ := List.mem_map.1 hh
  exact ⟨p, hp, e1, e2⟩

/-! ### Non-vacuity (`checkC02` uses no floats, so the kernel evaluates it) -/

/-- Two like atoms at ±(1/4,1/4,1/4) in a cubic cell of edge 2, generated from Hall number 2
(`-P 1`) in its own setting; reported: identity and the inversion with a lattice-translation
offset `(1,0,-1)`. -/
def exCell : CellQ := ⟨⟨2, 0, 0, 0, 2, 0, 0, 0, 2⟩, #[⟨1/4, 1/4, 1/4⟩, ⟨3/4, 3/4, 3/4⟩], #[1, 1]⟩
def exCase : CaseQ :=
  { (default : CaseQ) with cell := exCell, truth := ⟨2, M3.one, Q3.zero, 1, #[], #[], false, ""⟩ }
def exData : DatasetQ :=
  { (default : DatasetQ) with
    ops := #[⟨M3.one, Q3.zero⟩, ⟨M3.one.neg, ⟨1, 0, -1⟩⟩], symprec := 1 / 10000, primCell := exCell }

/-- The hypothesis of all three soundness theorems holds for the example … -/
theorem exSilent : checkC02 exCase exData = [] := by decide +kernel

/-- … and the oracle is not vacuous: dropping the inversion is detected. -/
example : checkC02 exCase { exData with ops := #[⟨M3.one, Q3.zero⟩] } ≠ [] := by decide +kernel

example : Spec.C02group exCase exData := checkC02_group_sound exSilent (by decide)
example : Spec.C02groupOn exCase exData (fun j => exData.ops.size ≤ 48 ∨ j < 8 ∨ j % 7 = 0) :=
  checkC02_group_sound_partial exSilent
example : Spec.C02complete exCase exData := checkC02_complete_sound exSilent
example : ∀ a ∈ exData.ops.toList, ∃ p ∈ exData.ops.toList,
    a.rot.mul p.rot = M3.one ∧ p.rot.mul a.rot = M3.one :=
  rotations_form_group (checkC02_group_sound exSilent (by decide)) (by decide +kernel)

/-- The hypotheses of `checkC02_complete` / `checkC02_iff` hold for the example. -/
example : exCase.cell.lat.det ≠ 0 ∧
    Window exCase.cell.lat ((4 * exData.symprec) * (4 * exData.symprec)) ∧
    Spec.C02groupOn exCase exData (fun j => exData.ops.size ≤ 48 ∨ j < 8 ∨ j % 7 = 0) ∧
    Spec.C02complete exCase exData :=
  ⟨by decide +kernel, by unfold Window; decide +kernel, checkC02_group_sound_partial exSilent,
    checkC02_complete_sound exSilent⟩

/-- Non-vacuity of `closed_finite_has_inverses`: the cyclic group of order 3. -/
example : ∀ g ∈ [M3.one, ⟨0, 0, 1, 1, 0, 0, 0, 1, 0⟩, ⟨0, 1, 0, 0, 0, 1, 1, 0, 0⟩],
    ∃ h ∈ [M3.one, ⟨0, 0, 1, 1, 0, 0, 0, 1, 0⟩, ⟨0, 1, 0, 0, 0, 1, 1, 0, 0⟩],
      g.mul h = M3.one ∧ h.mul g = M3.one :=
  closed_finite_has_inverses _ (by decide) (by decide) (by decide)

end Moyo.C02
