import Moyo.Proofs.Identify
import Moyo.Proofs.IdentifySolve
import Moyo.Proofs.IdentifyAffine
import Moyo.Proofs.IdentifyTables
import Moyo.Proofs.IdentifyTableRows
/-
Stage S5 (space-group identification) — theorems about the stage model `S5.identify`
(`Moyo/Model/StageIdentify.lean`), which is tied to `identify::space_group::SpaceGroup::new` by the
stage correspondence of checks/pipe.py (`stages=["s5"]`: every generated case and the exhaustive table
run reproduce number, Hall number and `linear` exactly and the origin shift to 1e-9 modulo 1).
-/
set_option maxRecDepth 100000
namespace Moyo.C03Stages
open Moyo Moyo.S5 Moyo.Generated

/-- **Soundness of the identification.**  If the model of `SpaceGroup::new` returns
`(number, h, (P, p))` then
* `h` is one of the candidates of the requested setting,
* `number` is the space-group number tabulated for `h`,
* `det P = 1`,
* every tabulated primitive generator `(R_db, t_db)` of `h` is matched: some input operation `(R, t)`
  satisfies `P R_db = R P` (i.e. `P⁻¹ R P = R_db`), and with `p = (P s) % 1` the origin-shift system
  `(R_db − I) s = t_db − P⁻¹ t (mod 1)` holds up to `eps` in every component (`adj P = P⁻¹`). -/
theorem identify_sound (ops : List OpQ) (setting : SettingQ) (eps : Rat) (sg : SpaceGroup)
    (h : identify ops setting eps = .ok sg) :
    (sg.hall : Int) ∈ settingHallNumbers setting ∧
    (∃ e, hallEntry? sg.hall = some e ∧ sg.number = e.number) ∧
    sg.linear.det = 1 ∧
    ∃ gens, hallPrimGens? sg.hall = some gens ∧
      ∃ s : Q3, sg.shift = (sg.linear.applyQ s).map ratTruncFrac ∧
        ∀ g ∈ gens, ∃ o ∈ ops, sg.linear.mul g.rot = o.rot.mul sg.linear ∧
          Within (residual g (sg.linear.adj.applyQ o.trans) s) eps := by
  obtain ⟨hm, he, hd, gens, hg, hmatch⟩ := identify_match h
  obtain ⟨s, hs, hgs⟩ := match_sound hd hmatch
  exact ⟨hm, he, hd, gens, hg, s, hs, fun g hgm => hgs g (by simpa using hgm)⟩

/-- **Soundness, affine form.**  With `conjTrans P p (R, t) = P⁻¹ (R p + t − p)` — the translation
part of `(P, p)⁻¹ (R, t) (P, p)` — a returned `(number, h, (P, p))` conjugates, for every tabulated
primitive generator `(R_db, t_db)` of `h`, some input operation `(R, t)` onto it: `P R_db = R P`
exactly and `conjTrans − t_db` is within `eps` of an integer vector in every component. -/
theorem identify_sound_affine (ops : List OpQ) (setting : SettingQ) (eps : Rat) (sg : SpaceGroup)
    (h : identify ops setting eps = .ok sg) :
    sg.linear.det = 1 ∧
    ∃ gens, hallPrimGens? sg.hall = some gens ∧
      ∀ g ∈ gens, ∃ o ∈ ops, sg.linear.mul g.rot = o.rot.mul sg.linear ∧
        Within ((conjTrans sg.linear sg.shift o).sub g.trans) eps := by
  obtain ⟨_, _, hd, gens, hg, hmatch⟩ := identify_match h
  exact ⟨hd, gens, hg, fun g hgm => match_affine hd hmatch g (by simpa using hgm)⟩

/-- Non-vacuity of `identify_sound_affine`: P-1 with the inversion centre at `(1/4, 1/6, 0)`: the returned
origin shift is `(1/4, 1/6, 0)` and conjugates the inversion onto the tabulated `(-1, 0)` exactly. -/
example :
    (identify [⟨M3.one, ⟨0, 0, 0⟩⟩, ⟨M3.one.neg, ⟨1 / 2, 1 / 3, 0⟩⟩] .spglib (1 / 100000000)).toOption.map
      (fun sg => (sg.number, sg.shift, conjTrans sg.linear sg.shift ⟨M3.one.neg, ⟨1 / 2, 1 / 3, 0⟩⟩)) =
    some (2, ⟨1 / 4, 1 / 6, 0⟩, ⟨0, 0, 0⟩) := by
  decide +kernel

/-- Non-vacuity of `identify_sound`: the model identifies the tabulated operations of Hall number 7
(`P 2c`, P2₁ unique axis c) as type 4 in the Spglib setting 6 (`P 2yb`), through a correction matrix. -/
example : (identify (tableOps 7) .spglib (1 / 100000000)).toOption.map (fun sg => (sg.number, sg.hall, sg.linear)) =
    some (4, 6, ⟨-1, 0, -1, 0, 0, -1, 0, -1, 0⟩) := by
  decide +kernel

/-- **Soundness of `solve_mod1`**: a returned `x` satisfies `‖a x − b‖ ≤ eps` in every component
modulo 1 (this is the final residual test of the code). -/
theorem solve_mod1_sound {m : Nat} (a : IMat m 3) (b : Vector Rat m) (eps : Rat) (x : Q3)
    (h : solveMod1 a b eps = some x) :
    ∀ i : Fin m, ratAbs (ratWrap (rowDot a i x - b[i])) ≤ eps :=
  (residualOK_iff a b eps x).1 (solveMod1_residualOK h)

/-- Non-vacuity: the unit test of `solve_mod1` (inconsistent system) is refused, a consistent
variant is solved. -/
example :
    solveMod1 (IMat.ofFlat 6 3 #[-2, 0, 0, 0, -2, 0, 0, 0, -2, -2, 0, 0, 0, 0, 0, 0, 0, -2])
      #v[0, 0, 0, 0, 1 / 2, 0] (1 / 100000) = none ∧
    solveMod1 (IMat.ofFlat 6 3 #[-2, 0, 0, 0, -2, 0, 0, 0, -2, -2, 0, 0, 0, 0, 0, 0, 0, -2])
      #v[1 / 2, 0, 0, 1 / 2, 0, 0] (1 / 100000) = some ⟨-1 / 4, 0, 0⟩ := by
  decide +kernel

/- Full completeness statement (NOT proved): if some `x₀` satisfies `‖a x₀ − b‖_{mod 1, ∞} ≤ δ` then
`solve_mod1 a b eps` succeeds for `eps ≥ c(a)·δ` with an explicit constant `c(a)` depending on the
Smith transformation matrices.  Proved below: the exact case `δ = 0`. -/

/-- **Completeness of `solve_mod1` for exactly solvable systems** (partial: exact solutions only).
If `a x₀ − b` is an integer vector for some rational `x₀`, then for every tolerance `eps ≥ 0` the
procedure returns some `x`, and `a x − b` is again an integer vector.  Uses `D = L a R`
(`C15.snf_decomp`), unimodularity of `L` and `R` and diagonality of `D`. -/
theorem solve_mod1_complete_partial {m : Nat} (hm : 3 ≤ m) (a : IMat m 3) (b : Vector Rat m) (eps : Rat)
    (heps : 0 ≤ eps) (x0 : Q3) (hx0 : ∀ i : Fin m, ∃ n : Int, rowDot a i x0 - b[i] = n) :
    ∃ x, solveMod1 a b eps = some x ∧ ∀ i : Fin m, ∃ n : Int, rowDot a i x - b[i] = n :=
  solveMod1_complete hm a b eps heps x0 hx0

/-- Non-vacuity: a singular 6×3 system (`2_1` screw along `c` plus a redundant block) with the exact
solution `x₀ = (1/4, 0, 1/3)`. -/
example : ∃ x, solveMod1 (IMat.ofFlat 6 3 #[-2, 0, 0, 0, -2, 0, 0, 0, 0, -2, 0, 0, 0, -2, 0, 0, 0, 0])
    #v[1 / 2, 0, 0, -1 / 2, 1, 0] 0 = some x := by
  have hden : ∀ i : Fin 6,
      (rowDot (IMat.ofFlat 6 3 #[-2, 0, 0, 0, -2, 0, 0, 0, 0, -2, 0, 0, 0, -2, 0, 0, 0, 0]) i ⟨1 / 4, 0, 1 / 3⟩ -
        (#v[1 / 2, 0, 0, -1 / 2, 1, 0] : Vector Rat 6)[i]).den = 1 := by decide +kernel
  obtain ⟨x, hx, _⟩ := solve_mod1_complete_partial (by decide) _ _ 0 (le_refl _) ⟨1 / 4, 0, 1 / 3⟩
    (fun i => ⟨_, (Rat.coe_int_num_of_den_eq_one (hden i)).symm⟩)
  exact ⟨x, hx⟩

/-! ### Table theorem -/

/- Full statement (NOT kernel-decided; covered by the exhaustive correspondence run of every check,
harness command `s5-table`, where the compiled model and the Rust code agree on all rows):
`∀ h, 1 ≤ h → h ≤ 530 → tableRow h = true`.
The kernel evaluates the Smith normal forms of the 9k×9 Sylvester systems lazily and without sharing
(≈10 s and several GB each), which rules out all but the lowest-symmetry rows. -/

/-- **Identification of the tabulated groups (partial: Hall numbers 1–8).**  For the triclinic and
primitive monoclinic P2 / P2₁ settings the model applied to `primitive_traverse` of `h` returns
`hallTable[h-1].number` with the Hall number of the convention under `Spglib` and `Standard`, and
returns `h` itself under `HallNumber(h)`. -/
theorem identify_tables_partial (h : Nat) (h1 : 1 ≤ h) (h8 : h ≤ 8) :
    ∃ e, hallEntry? h = some e ∧
      (∃ sg, identify (tableOps h) .spglib tableEps = .ok sg ∧ sg.number = e.number ∧
        sg.hall = spglibHallNumbers.getD (e.number - 1) 0) ∧
      (∃ sg, identify (tableOps h) .standard tableEps = .ok sg ∧ sg.number = e.number ∧
        sg.hall = standardHallNumbers.getD (e.number - 1) 0) ∧
      (∃ sg, identify (tableOps h) (.hall h) tableEps = .ok sg ∧ sg.number = e.number ∧ sg.hall = h) := by
  have key := tableRows_1_8
  rw [List.all_eq_true] at key
  have hrow := key (h - 1) (List.mem_range.2 (by omega))
  have e1 : h - 1 + 1 = h := by omega
  rw [e1] at hrow
  unfold tableRow at hrow
  split at hrow
  · simp at hrow
  · rename_i e he
    simp only [Bool.and_eq_true] at hrow
    have okIs_iff : ∀ (r : Except Err SpaceGroup) (n k : Nat), okIs r n k = true →
        ∃ sg, r = .ok sg ∧ sg.number = n ∧ sg.hall = k := by
      intro r n k hr
      unfold okIs at hr
      split at hr
      · rename_i sg
        simp only [Bool.and_eq_true, beq_iff_eq] at hr
        exact ⟨sg, rfl, hr.1, hr.2⟩
      · simp at hr
    exact ⟨e, he, okIs_iff _ _ _ hrow.1.1, okIs_iff _ _ _ hrow.1.2, okIs_iff _ _ _ hrow.2⟩

/-- Non-vacuity: row 7 (`P 2c`) is type 4; Spglib/Standard choose Hall number 6, the request 7 is honoured. -/
example : (hallEntry? 7).map (·.number) = some 4 ∧ spglibHallNumbers.getD 3 0 = 6 ∧ tableRow 7 = true := by
  decide +kernel

/-! ### Requested Hall numbers (C10) -/

/-- **A requested Hall setting is honoured or refused**: under `Setting::HallNumber(h)` an `Ok` answer
carries exactly the requested Hall number (and, by `identify_sound`, a determinant-one transformation
onto the tabulated generators of `h`); there is no silent replacement by another setting. -/
theorem hall_request_sound (ops : List OpQ) (h : Int) (eps : Rat) (sg : SpaceGroup)
    (hok : identify ops (.hall h) eps = .ok sg) :
    (sg.hall : Int) = h ∧ sg.linear.det = 1 ∧ ∃ e, hallEntry? sg.hall = some e ∧ sg.number = e.number := by
  obtain ⟨hm, he, hd, _⟩ := identify_sound ops (.hall h) eps sg hok
  simp only [settingHallNumbers, List.mem_singleton] at hm
  exact ⟨hm, hd, he⟩

/-- A Hall number outside `1..=530` is reported as `UnknownHallNumberError` (after the point group
has been identified — `PointGroup::new(..)?` comes first in the code), never a panic. -/
theorem hall_out_of_range_err (ops : List OpQ) (h : Int) (eps : Rat) (pg : PointGroup)
    (hpg : pointGroupNew (ops.map (·.rot)) = .ok pg) (hr : h < 1 ∨ 530 < h) :
    identify ops (.hall h) eps = .error .unknownHall := by
  unfold identify identifyFrom
  rw [hpg]
  simp only [settingHallNumbers, List.findSome?_cons, List.findSome?_nil]
  have : tryHall ops (.hall h) eps pg h = some (.error .unknownHall) := by
    unfold tryHall
    split
    · rfl
    · have hsz : hallTable.size = 530 := by decide +kernel
      have hn : hallEntry? h.toNat = none := by
        unfold hallEntry?
        rw [if_neg (by omega)]
        exact Array.getElem?_eq_none (by omega)
      simp only [hn]
  rw [this]

/-- Non-vacuity: the hypotheses are met by the operations of Hall number 7 and the request 531. -/
example : (match identify (tableOps 7) (.hall 531) (1 / 100000000) with
      | .error .unknownHall => true
      | _ => false) = true ∧
    (pointGroupNew ((tableOps 7).map (·.rot))).toOption.map (·.arith) = some 3 := by
  decide +kernel

/-! ### Rotation types -/

/-- **Rotation-type table.**  The ten (trace, det) arms of `identify_rotation_type` are pairwise
distinct and occupy the ten counter slots; the 32 histogram arms are pairwise distinct (so the
first-match semantics of the `match` is irrelevant); and they are exhaustive on the crystallographic
point groups of the tables: for each of the 32 geometric-class representatives (conventional basis)
and each of the 73 arithmetic-class representatives (primitive basis — the matrices
`PointGroup::new` actually meets, up to unimodular conjugation, which preserves trace and
determinant) every rotation has a type and the histogram selects exactly the class of the group. -/
theorem rotation_type_table :
    (rotTypes.map fun x => (x.1, x.2.1)).Nodup ∧ rotTypes.map (·.2.2) = List.range 10 ∧ geoHist.Nodup ∧
    (∀ k, k < 32 → rotRowOK (geoRepHall.getD k 0) false k = true) ∧
    (∀ a, 1 ≤ a → a ≤ 73 → ∃ name, arithGeoName? a = some name ∧
      rotRowOK (arithRepHall.getD (a - 1) 0) true (geoNames.idxOf name) = true) := by
  refine ⟨by decide, by decide, by decide, ?_, ?_⟩
  · intro k hk
    have := geoRows_ok
    unfold geoRows at this
    rw [List.all_eq_true] at this
    exact this k (List.mem_range.2 hk)
  · intro a h1 h2
    have := arithRows_ok
    unfold arithRows at this
    rw [List.all_eq_true] at this
    have h := this (a - 1) (List.mem_range.2 (by omega))
    have e : a - 1 + 1 = a := by omega
    rw [e] at h
    split at h
    · simp at h
    · rename_i name hn
      exact ⟨name, hn, h⟩

/-- Non-vacuity: the fourfold rotation about `z` has type slot 8 (`Rotation4`), a matrix of infinite
order (trace 4) has none, and the full cubic group `Oh` (48 rotations) is row 31. -/
example : rotType? ⟨0, -1, 0, 1, 0, 0, 0, 0, 1⟩ = some 8 ∧ rotType? ⟨2, 1, 0, 1, 1, 0, 0, 0, 1⟩ = none ∧
    (groupRots 517 false).map List.length = some 48 ∧ rotRowOK 517 false 31 = true := by
  decide +kernel

/-- Every Hall symbol of the table has at least one primitive generator, so the linear system of
`match_origin_shift` has at least three rows (`solve_mod1` never indexes out of bounds). -/
theorem gens_nonempty : ∀ h, 1 ≤ h → h ≤ 530 → ∃ g gs, hallPrimGens? h = some (g :: gs) := by
  have key := gensRows_ok
  unfold gensRows at key
  intro h h1 h2
  rw [List.all_eq_true] at key
  have := key (h - 1) (List.mem_range.2 (by omega))
  have e : h - 1 + 1 = h := by omega
  rw [e] at this
  split at this
  · rename_i g gs hg
    exact ⟨g, gs, hg⟩
  · simp at this

end Moyo.C03Stages
