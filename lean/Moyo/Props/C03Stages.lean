import Moyo.Proofs.Identify
/-
Stage S5 (space-group identification) — theorems about the stage model `S5.identify`
(`Moyo/Model/StageIdentify.lean`), which is tied to `identify::space_group::SpaceGroup::new` by the
stage correspondence of checks/pipe.py (`stages=["s5"]`: every generated case and the exhaustive table
run reproduce number, Hall number and `linear` exactly and the origin shift to 1e-9 modulo 1).
-/
namespace Moyo.C03Stages
open Moyo Moyo.S5 Moyo.Generated

/-- **Soundness of the identification.**  If the model of `SpaceGroup::new` returns
`(number, h, (P, p))` then
* `h` is one of the candidates of the requested setting,
* `number` is the space-group number tabulated for `h`,
* `det P = 1`,
* every tabulated primitive generator `(R_db, t_db)` of `h` is matched: some input operation `(R, t)`
  satisfies `P R_db = R P` (i.e. `P⁻¹ R P = R_db`), and with `p = (P s) % 1` the origin-shift system
  `(R_db − I) s = t_db − P⁻¹ t (mod 1)` holds up to `eps` in every component (`adj P = P⁻¹`). -/
theorem identify_sound (ops : List OpQ) (setting : SettingQ) (eps : Rat) (sg : SpaceGroup)
    (h : identify ops setting eps = .ok sg) :
    (sg.hall : Int) ∈ settingHallNumbers setting ∧
    (∃ e, hallEntry? sg.hall = some e ∧ sg.number = e.number) ∧
    sg.linear.det = 1 ∧
    ∃ gens, hallPrimGens? sg.hall = some gens ∧
      ∃ s : Q3, sg.shift = (sg.linear.applyQ s).map ratTruncFrac ∧
        ∀ g ∈ gens, ∃ o ∈ ops, sg.linear.mul g.rot = o.rot.mul sg.linear ∧
          Within (residual g (sg.linear.adj.applyQ o.trans) s) eps := by
  unfold identify identifyFrom at h
  split at h
  · simp at h
  · rename_i pg hpg
    have hdet := pointGroupNew_det hpg
    split at h
    · rename_i r hr
      subst h
      obtain ⟨hi, hmem, hi2⟩ := List.exists_of_findSome?_eq_some hr
      obtain ⟨hh, he, hd, hg⟩ := tryHall_ok hdet hi2
      exact ⟨by rw [hh]; exact hmem, he, hd, hg⟩
    · simp at h

end Moyo.C03Stages
