import Moyo.Proofs.JsonCodec
import Moyo.Generated.C19Schema
/-
C19: cells and datasets round-trip through their serialized form.

Model (`Moyo/Model/Json.lean`): `Json` trees, the schema language `Ty`, typed values `Val`,
`encode : Ty → Val → Json`, `decode : Ty → Json → Option Val`.  The schema of moyo's types is
regenerated from the Rust sources on every run (`Moyo/Generated/C19Schema.lean`).
Only property theorems live here; helper lemmas are in `Moyo/Proofs/JsonCodec.lean`.

Not proved (trusted base): which f64 a decimal token denotes and which token an f64 is printed as
(ryu / serde_json); assumed law: parse ∘ print is within 1e-15 relative.  In the model a float *is*
its token, so the theorems below are exact.  The lexical layer (`Moyo/Model/JsonText.lean`) is
executed on every explored document, not proved.
-/
namespace Moyo.C19
open Moyo.Json Moyo.Generated.C19

/-! ### the codec is invertible on every schema -/

/-- Decoding an encoded value gives the value back: for every schema and every well-typed value. -/
theorem decode_encode (t : Ty) (v : Val) (h : WellTyped t v) : decode t (encode t v) = some v :=
  de_val v t h

/-- A nested struct with a lattice (non-symmetric 3×3 float matrix), an integer rotation matrix, both
kinds of enum variant, a vector, integer / char / string sequences and a newtype. -/
def exTy : Ty := .struct [
  ("lattice", .struct [("basis", .matrix 3 3 .float)]),
  ("rotation", .matrix 3 3 (.int (-2147483648) 2147483647)),
  ("shift", .matrix 3 1 .float),
  ("tolerances", .seq (.enum [("Radian", some .float), ("Default", none)])),
  ("numbers", .seq (.int (-2147483648) 2147483647)),
  ("wyckoffs", .seq .char),
  ("symbol", .string),
  ("moment", .newtype (.matrix 3 1 .float)),
  ("flag", .bool)]

def exVal : Val := .struct [
  ("lattice", .struct [("basis", .list [
      .list [.float "1.0", .float "0.5", .float "0.0"],
      .list [.float "0.0", .float "1.0", .float "0.25"],
      .list [.float "1e-16", .float "0.0", .float "1.5"]])]),
  ("rotation", .list [
      .list [.int 0, .int (-1), .int 0],
      .list [.int 1, .int (-1), .int 0],
      .list [.int 0, .int 0, .int 1]]),
  ("shift", .list [.list [.float "0.25"], .list [.float "0.0"], .list [.float "-0.5"]]),
  ("tolerances", .list [.variant "Radian" (some (.float "0.01")), .variant "Default" none]),
  ("numbers", .list [.int 26, .int 8]),
  ("wyckoffs", .list [.char 'a', .char 'c']),
  ("symbol", .str "m-3m"),
  ("moment", .newtype (.list [.list [.float "0.1"], .list [.float "0.2"], .list [.float "0.3"]])),
  ("flag", .bool true)]

/-- Non-vacuity: the example value is well-typed, so the theorem applies to it. -/
example : WellTyped exTy exVal := by decide
example : decode exTy (encode exTy exVal) = some exVal := decode_encode exTy exVal (by decide)

/-- What the encoding of the example looks like: matrices are flat and column-major
(the hexagonal rotation `[[0,-1,0],[1,-1,0],[0,0,1]]` is written `0,1,0,-1,-1,0,0,0,1`). -/
example : encode exTy exVal = .obj [
    ("lattice", .obj [("basis", .arr [.dec "1.0", .dec "0.0", .dec "1e-16", .dec "0.5", .dec "1.0", .dec "0.0",
                                      .dec "0.0", .dec "0.25", .dec "1.5"])]),
    ("rotation", .arr [.int 0, .int 1, .int 0, .int (-1), .int (-1), .int 0, .int 0, .int 0, .int 1]),
    ("shift", .arr [.dec "0.25", .dec "0.0", .dec "-0.5"]),
    ("tolerances", .arr [.obj [("Radian", .dec "0.01")], .str "Default"]),
    ("numbers", .arr [.int 26, .int 8]),
    ("wyckoffs", .arr [.str "a", .str "c"]),
    ("symbol", .str "m-3m"),
    ("moment", .arr [.dec "0.1", .dec "0.2", .dec "0.3"]),
    ("flag", .bool true)] := by
  simp [encode, encodeList, encodeRows, encodeFields, exTy, exVal, cmFlatten, lookupVariant, List.range,
    List.range.loop]

/-- Nothing is lost: two well-typed values with the same encoding are equal. -/
theorem encode_injective (t : Ty) (v w : Val) (hv : WellTyped t v) (hw : WellTyped t w)
    (h : encode t v = encode t w) : v = w := by
  have h1 := decode_encode t v hv
  rw [h, decode_encode t w hw] at h1
  exact (Option.some.inj h1).symm

/-- Non-vacuity: there are different well-typed values of one schema (so `v = w` is not automatic),
and their encodings differ. -/
example : ∃ t v w, WellTyped t v ∧ WellTyped t w ∧ encode t v ≠ encode t w :=
  ⟨.seq (.int 0 10), .list [.int 1], .list [.int 2], by decide, by decide, by simp [encode, encodeList]⟩

/-- Conversely, whatever the decoder accepts is the encoding of the value it returns: the schema
admits one JSON tree per value (no second spelling that would be read as the same value). -/
theorem encode_decode (t : Ty) (j : Json) (v : Val) (h : decode t j = some v) : encode t v = j :=
  (ed_val t j v h).1

/-- The decoder only returns well-typed values (integers in the range of the Rust type, arrays of the
declared shape, declared variants only). -/
theorem decode_wellTyped (t : Ty) (j : Json) (v : Val) (h : decode t j = some v) : WellTyped t v :=
  (ed_val t j v h).2

/-- Non-vacuity: the decoder does accept documents (here: the encoding of the example value), and
rejects an out-of-range integer, a float token in an integer field and a matrix of the wrong length. -/
example : ∃ v, decode exTy (encode exTy exVal) = some v := ⟨exVal, decode_encode exTy exVal (by decide)⟩
example : decode (.int (-2147483648) 2147483647) (.int 2147483648) = none := by simp [decode]
example : decode (.int 0 10) (.dec "1.0") = none := by simp [decode]
example : decode (.matrix 3 3 .float) (.arr [.dec "1.0", .dec "2.0", .dec "3.0"]) = none := by
  simp [decode, decodeList]

/-! ### floats: printing and parsing are parameters -/

/-- How floats are printed and parsed is not modelled: it is a parameter.  `law` is the assumption
A-float of the trusted base ("parse ∘ print is within 1e-15 relative"), for an arbitrary notion
`close` of closeness. -/
structure FloatIO (F : Type) where
  print : F → String
  parse : String → Option F
  close : F → F → Prop
  law : ∀ x, ∃ y, parse (print x) = some y ∧ close x y

/-- Reading a float field back from the JSON tree: the token the codec returns, parsed. -/
def readFloat {F : Type} (io : FloatIO F) (j : Json) : Option F :=
  match decode .float j with
  | some (.float tok) => io.parse tok
  | _ => none

/-- Under the assumed law a float written through the codec is read back close to itself: the
codec adds no error of its own (it hands the printed token through verbatim). -/
theorem float_roundtrip_of_law {F : Type} (io : FloatIO F) (x : F) :
    ∃ y, readFloat io (encode .float (.float (io.print x))) = some y ∧ io.close x y := by
  obtain ⟨y, hy, hc⟩ := io.law x
  exact ⟨y, by simp [readFloat, encode, decode, hy], hc⟩

/-- Non-vacuity: the structure is inhabited (tokens themselves, with equality as closeness). -/
example : FloatIO String := { print := id, parse := some, close := Eq, law := fun x => ⟨x, rfl, rfl⟩ }

/-! ### matrices: column-major, not transposed -/

/-- In the serialised sequence of an `r × c` matrix, position `j*r + i` holds entry `(i, j)`. -/
theorem matrix_column_major {α : Type} [Inhabited α] (r c : Nat) (M : List (List α)) (i j : Nat)
    (hi : i < r) (hj : j < c) :
    (cmFlatten r c M).getD (j * r + i) default = (M.getD i []).getD j default := by
  rw [cmFlatten_getD M (idx_lt hi hj), idx_mod hi, idx_div hi]

/-- Non-vacuity on a non-symmetric 3×3 matrix: entry (0,1) = 2 is at position 3, entry (1,0) = 4 at position 1. -/
example : cmFlatten 3 3 [[1, 2, 3], [4, 5, 6], [7, 8, 9]] = [1, 4, 7, 2, 5, 8, 3, 6, 9] := by decide

/-- Reading the sequence back restores every entry at its own place (no transposition, no reshaping). -/
theorem matrix_layout_inverse {α : Type} [Inhabited α] (r c : Nat) (M : List (List α))
    (hlen : M.length = r) (hrow : ∀ row ∈ M, row.length = c) :
    cmUnflatten r c (cmFlatten r c M) = M :=
  cmUnflatten_cmFlatten ⟨hlen, hrow⟩

example : cmUnflatten 3 3 (cmFlatten 3 3 [[1, 2, 3], [4, 5, 6], [7, 8, 9]]) = [[1, 2, 3], [4, 5, 6], [7, 8, 9]] := by
  decide

/-! ### no field lost, added or renamed: enforced by the decoder -/

/-- A struct schema accepts only objects whose keys are exactly the schema's field names, in order;
the decoded value carries exactly these names. -/
theorem decode_struct_exact_fields (fs : List (String × Ty)) (j : Json) (v : Val)
    (h : decode (.struct fs) j = some v) :
    ∃ kvs vs, j = .obj kvs ∧ v = .struct vs ∧
      kvs.map Prod.fst = fs.map Prod.fst ∧ vs.map Prod.fst = fs.map Prod.fst := by
  obtain ⟨kvs, vs, hj, hv, hd⟩ := decode_struct_inv fs j v h
  exact ⟨kvs, vs, hj, hv, (decodeFields_keys fs kvs vs hd).1, (decodeFields_keys fs kvs vs hd).2⟩

/-- Objects with a missing, an extra or a renamed field are rejected. -/
theorem decode_rejects_wrong_fields (fs : List (String × Ty)) (kvs : List (String × Json))
    (h : kvs.map Prod.fst ≠ fs.map Prod.fst) : decode (.struct fs) (.obj kvs) = none := by
  cases hd : decode (.struct fs) (.obj kvs) with
  | none => rfl
  | some v =>
    obtain ⟨kvs', _, hj, _, hk, _⟩ := decode_struct_exact_fields fs _ v hd
    cases hj
    exact absurd hk h

/-- Non-vacuity, on a two-field schema: the right object is accepted; a missing field, an extra
field, a renamed field and swapped fields are rejected. -/
def exPair : List (String × Ty) := [("rotation", .bool), ("translation", .string)]
example : decode (.struct exPair) (.obj [("rotation", .bool true), ("translation", .str "t")])
    = some (.struct [("rotation", .bool true), ("translation", .str "t")]) := by
  simp [decode, decodeFields, exPair]
example : decode (.struct exPair) (.obj [("rotation", .bool true)]) = none :=
  decode_rejects_wrong_fields _ _ (by decide)
example : decode (.struct exPair) (.obj [("rotation", .bool true), ("translation", .str "t"), ("extra", .null)]) = none :=
  decode_rejects_wrong_fields _ _ (by decide)
example : decode (.struct exPair) (.obj [("rotation", .bool true), ("trans", .str "t")]) = none :=
  decode_rejects_wrong_fields _ _ (by decide)
example : decode (.struct exPair) (.obj [("translation", .str "t"), ("rotation", .bool true)]) = none :=
  decode_rejects_wrong_fields _ _ (by decide)

/-! ### table theorems over the regenerated schema -/

/-- serde attributes that change neither the representation nor its symmetry.  Everything else
(`skip`, `skip_serializing`, `skip_deserializing`, `skip_serializing_if`, `default`, `rename`,
`rename_all`, `alias`, `flatten`, `with`, `serialize_with`, `deserialize_with`, `tag`, `content`,
`untagged`, `transparent`, `from`, `try_from`, `into`, `other`, `remote`, `getter`, `borrow`, a
`cfg_attr` mentioning serde, …) makes `schema_symmetric` fail. -/
def harmlessAttrs : List String := ["deny_unknown_fields", "bound", "crate", "expecting"]

def symmetricInfo (ti : TypeInfo) : Bool :=
  ti.serialize && ti.deserialize && ti.attrs.all fun a => harmlessAttrs.contains a.2.1

/-- Every struct/enum reachable from `Cell`, `MagneticCell<M>`, `MoyoDataset`, `MoyoMagneticDataset<M>`
(and every Python wrapper class around them) derives both `Serialize` and `Deserialize` and carries
no serde attribute that renames, skips, defaults, flattens or re-routes anything: the representation
is the derived one, with the Rust field names, in both directions. -/
theorem schema_symmetric : ∀ ti ∈ typeInfos, symmetricInfo ti = true := by decide

/-- Non-vacuity: the table is not empty and contains the dataset with its 17 fields. -/
example : typeInfos.length ≥ 10 ∧
    (typeInfos.find? (·.name = "MoyoDataset")).map (·.members.length) = some 17 := by decide

/-- A one-sided derive or a `skip` attribute is what the theorem excludes. -/
example : symmetricInfo ⟨"X", "", "struct", true, false, [], []⟩ = false := by decide
example : symmetricInfo ⟨"X", "", "struct", true, true, [("a", "skip", "skip")], ["a"]⟩ = false := by decide
example : symmetricInfo ⟨"X", "", "struct", true, true, [("", "deny_unknown_fields", "deny_unknown_fields")], ["a"]⟩ = true := by
  decide

/-- Every root type (Rust and Python side) has a schema. -/
theorem schema_covers_roots : ∀ r ∈ roots ++ pyRoots, (schema.find? (·.1 = r)).isSome = true := by decide

example : roots.length = 6 ∧ pyRoots.length = 6 := by decide

end Moyo.C19
