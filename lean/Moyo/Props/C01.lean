import Moyo.Spec.C01
import Moyo.Proofs.OracleSite
import Moyo.Proofs.OracleAlgebra
/-
C01: the executable oracle `Oracle.checkC01`, run on the implementation's dataset, is a verified
decision of `Spec.C01`.
-/
namespace Moyo.C01
open Moyo Moyo.Oracle Moyo.Spec Moyo.Periodic Moyo.OracleP

/-- Soundness: a silent oracle means the mathematical statement holds of the dataset.
(Floats never enter: `nearestF` only proposes a candidate, every verdict is the exact test.) -/
theorem checkC01_sound {cs : CaseQ} {d : DatasetQ} (h : checkC01 cs d = []) : Spec.C01 cs d := by
  unfold checkC01 at h
  have h' := cap_eq_nil h
  rw [List.flatMap_eq_nil_iff] at h'
  intro o ho
  obtain ⟨k, hk, rfl⟩ := getElem!_of_mem ho
  have hk' := h' k (List.mem_range.2 hk)
  simp only [List.append_eq_nil_iff] at hk'
  obtain ⟨⟨h1, h2⟩, h3⟩ := hk'
  refine ⟨?_, ?_, ?_⟩
  · have := ite_nil_singleton h1
    simpa using this
  · exact ite_nil_singleton h2
  · intro i hi
    split at h3
    · cases h3
    · rename_i hnone
      rw [List.find?_eq_none] at hnone
      have := hnone i (List.mem_range.2 hi)
      apply find_isSome_sound
      simpa [Option.isSome_iff_ne_none] using this

/-- Completeness: the oracle raises no false alarm (non-degenerate lattice, tolerance inside the
scanned window). -/
theorem checkC01_complete {cs : CaseQ} {d : DatasetQ} (hA : cs.cell.lat.det ≠ 0)
    (hw : Window cs.cell.lat ((4 * d.symprec) * (4 * d.symprec))) (h : Spec.C01 cs d) :
    checkC01 cs d = [] := by
  unfold checkC01
  simp only
  rw [List.flatMap_eq_nil_iff.2, cap_nil]
  intro k hk
  obtain ⟨c1, c2, c3⟩ := h _ (mem_of_getElem! (List.mem_range.1 hk))
  simp only [List.append_eq_nil_iff]
  refine ⟨⟨if_pos (by simpa using c1), if_pos c2⟩, ?_⟩
  split
  · rename_i i hsome
    have h1 := List.find?_some hsome
    have h2 := List.mem_range.1 (List.mem_of_find?_eq_some hsome)
    have := find_isSome_complete hA hw (c3 i h2)
    rw [Option.isSome_iff_ne_none] at this
    simp [this] at h1
  · rfl

/-- The oracle decides C01 exactly. -/
theorem checkC01_iff {cs : CaseQ} {d : DatasetQ} (hA : cs.cell.lat.det ≠ 0)
    (hw : Window cs.cell.lat ((4 * d.symprec) * (4 * d.symprec))) :
    checkC01 cs d = [] ↔ Spec.C01 cs d :=
  ⟨checkC01_sound, checkC01_complete hA hw⟩

/-! ### Why operations found in another cell description are symmetries of the input cell -/

/-- **Exact conjugation.**  Let `R` act in a cell with basis `A` and metric `G`, and let the input
cell have basis `A·P` (`P` integer, `det P ≠ 0`; supercells allowed).  If the integer matrix `N`
satisfies `P N = R P` then `det N = det R`, the metric defect of `N` in the input cell is that of
`R` conjugated by `P` (`NᵀG'N − G' = Pᵀ(RᵀGR − G)P`, `G' = PᵀGP`), and the Cartesian operators
agree (`(A P) N (A P)⁻¹ = A R A⁻¹`). -/
theorem conj_exact (P N R : M3) (h : P.mul N = R.mul P) (hP : P.det ≠ 0) :
    N.det = R.det ∧
    (∀ G : QM3,
      let G' := ((QM3.ofM3 P).transpose.mul G).mul (QM3.ofM3 P)
      (((QM3.ofM3 N).transpose.mul G').mul (QM3.ofM3 N)).sub G' =
        ((QM3.ofM3 P).transpose.mul ((((QM3.ofM3 R).transpose.mul G).mul (QM3.ofM3 R)).sub G)).mul
          (QM3.ofM3 P)) ∧
    (∀ A : QM3, A.det ≠ 0 →
      ((A.mul (QM3.ofM3 P)).mul (QM3.ofM3 N)).mul (A.mul (QM3.ofM3 P)).inv =
        (A.mul (QM3.ofM3 R)).mul A.inv) :=
  OracleP.conj_exact P N R h hP

/-- Non-vacuity of `conj_exact`: the body-centred re-description `P` (det 2) and the fourfold
rotation about z; `N = P⁻¹ R P` is integral and differs from `R`. -/
example : ∃ P N R : M3, P.mul N = R.mul P ∧ P.det ≠ 0 ∧ N ≠ R :=
  ⟨⟨0, 1, 1, 1, 0, 1, 1, 1, 0⟩, ⟨1, 1, 1, 0, 0, -1, -1, 0, 0⟩, ⟨0, -1, 0, 1, 0, 0, 0, 0, 1⟩,
    by decide, by decide, by decide⟩

/-- **What the expected group is.**  Every element `(N, s)` of `Oracle.expectedOps t` is the exact
conjugate, by the recorded re-description `(P, p) = (t.p, t.shift)`, of a tabulated operation
`(R, τ)` of the generating Hall setting: `P N = R P` and `P s = R p + τ − p + z`, `z ∈ ℤ³`. -/
theorem expectedOps_conj {t : TruthQ} {l : List OpQ} (h : expectedOps t = some l) {o : OpQ}
    (ho : o ∈ l) :
    ∃ conv, convOpsOfHall t.hall = some conv ∧ ∃ g ∈ conv,
      t.p.mul o.rot = g.rot.mul t.p ∧
      ∃ z : Z3, t.p.applyQ o.trans =
        (((g.rot.applyQ t.shift).add (g.trans.toQ 12)).sub t.shift).add
          ⟨(z.x : Rat), (z.y : Rat), (z.z : Rat)⟩ :=
  OracleP.expectedOps_conj h ho

/-- Non-vacuity of `expectedOps_conj`: Hall number 2 (`-P 1`) re-described in a C-centred-like
supercell of index 2 with a shifted origin yields four expected operations. -/
example : (expectedOps ⟨2, ⟨1, 1, 0, -1, 1, 0, 0, 0, 1⟩, ⟨1/3, 0, 1/5⟩, 1, #[], #[], false, ""⟩).map
    List.length = some 4 := by decide +kernel

/-! ### Non-vacuity: a concrete case on which all hypotheses hold -/

/-- Two like atoms at ±(1/4,1/4,1/4) in a cubic cell of edge 2; reported group `{1, −1}`. -/
def exCell : CellQ := ⟨⟨2, 0, 0, 0, 2, 0, 0, 0, 2⟩, #[⟨1/4, 1/4, 1/4⟩, ⟨3/4, 3/4, 3/4⟩], #[1, 1]⟩
def exCase : CaseQ := { (default : CaseQ) with cell := exCell }
def exData : DatasetQ :=
  { (default : DatasetQ) with
    ops := #[⟨M3.one, Q3.zero⟩, ⟨M3.one.neg, Q3.zero⟩], symprec := 1 / 10000 }

/-- The specification holds of the example (the inversion carries atom 0 onto atom 1 with the
lattice vector `(1,1,1)`), by exhibiting the witnesses. -/
theorem exSpec : Spec.C01 exCase exData := by
  intro o ho
  have ho' : o = ⟨M3.one, Q3.zero⟩ ∨ o = ⟨M3.one.neg, Q3.zero⟩ := by
    simpa [exData] using ho
  rcases ho' with rfl | rfl
  · refine ⟨by decide +kernel, by decide +kernel, fun i hi => ?_⟩
    have hi' : i < 2 := hi
    obtain rfl | rfl : i = 0 ∨ i = 1 := by omega
    · exact ⟨0, by decide, by decide +kernel, ⟨0, 0, 0⟩, by decide +kernel⟩
    · exact ⟨1, by decide, by decide +kernel, ⟨0, 0, 0⟩, by decide +kernel⟩
  · refine ⟨by decide +kernel, by decide +kernel, fun i hi => ?_⟩
    have hi' : i < 2 := hi
    obtain rfl | rfl : i = 0 ∨ i = 1 := by omega
    · exact ⟨1, by decide, by decide +kernel, ⟨1, 1, 1⟩, by decide +kernel⟩
    · exact ⟨0, by decide, by decide +kernel, ⟨1, 1, 1⟩, by decide +kernel⟩

/-- Non-vacuity of `checkC01_complete` / `checkC01_iff`: determinant, window and specification
hypotheses are simultaneously satisfiable, and the oracle is then silent.  (The oracle itself cannot
be evaluated in the kernel because its candidate hint uses `Float`; this is derived, not computed.) -/
example : checkC01 exCase exData = [] :=
  checkC01_complete (by decide +kernel) (by unfold Window; decide +kernel) exSpec

/-- Non-vacuity of `checkC01_sound`: its hypothesis holds for the example. -/
example : ∃ cs d, checkC01 cs d = [] ∧ d.ops.size = 2 ∧ cs.cell.n = 2 :=
  ⟨exCase, exData, checkC01_complete (by decide +kernel) (by unfold Window; decide +kernel) exSpec, rfl, rfl⟩

end Moyo.C01
