import Moyo.Spec.C06
import Moyo.Proofs.OracleC06
/-
C06: the executable oracle `Oracle.checkC06`, run on the implementation's dataset, is a verified
test of `Spec.C06` (sound unconditionally for the clauses f1, f2, f3, f5, f6; the clause f4
"prim_std_cell has no non-trivial pure translation" and the no-false-alarm direction need the
non-degeneracy / window hypotheses under which the periodic box search is exhaustive).
-/
namespace Moyo.C06
open Moyo Moyo.Oracle Moyo.Spec Moyo.Periodic Moyo.OracleP

/-- Soundness: a silent oracle means the clauses f1 (exactly symmetric in the tabulated setting),
f2, f3 (lattice relation), f5 (orientation), f6 (Pearson symbol) hold of the dataset.
(Floats never enter: `nearestF` only proposes a candidate, every verdict is the exact test.) -/
theorem checkC06_sound {cs : CaseQ} {d : DatasetQ} (h : checkC06 cs d = []) : Spec.C06 cs d := by
  unfold checkC06 at h
  have h' := cap_eq_nil h
  simp only [List.append_eq_nil_iff] at h'
  obtain ⟨⟨⟨⟨⟨h1, h2⟩, h3⟩, -⟩, h5⟩, h6⟩ := h'
  clear h
  refine ⟨?_, ?_, ?_, ?_, ?_⟩
  · -- f1
    have h1' := take_succ_eq_nil h1
    clear h1
    split at h1'
    · cases h1'
    · rename_i conv hconv
      refine ⟨conv, hconv, ?_⟩
      intro o ho i hi
      obtain ⟨k, hk, rfl⟩ := List.mem_iff_getElem.1 ho
      rw [List.filterMap_eq_nil_iff] at h1'
      have hk' := h1' k (List.mem_range.2 hk)
      rw [getElem!_pos conv k hk] at hk'
      split at hk'
      · cases hk'
      · rename_i hnone
        rw [List.find?_eq_none] at hnone
        have := hnone i (List.mem_range.2 hi)
        apply find_isSome_sound
        simpa [Option.isSome_iff_ne_none] using this
  · -- f2
    have := ite_nil_singleton h2
    rw [maxAbs_le_iff] at this
    exact this
  · -- f3
    split at h3
    · cases h3
    · rename_i c hc
      simp only [List.append_eq_nil_iff] at h3
      obtain ⟨⟨a1, a2⟩, a3⟩ := h3
      refine ⟨c, hc, ?_, ?_, ?_⟩
      · exact of_decide_eq_true (ite_nil_singleton a1)
      · have := ite_nil_singleton a2
        rw [Bool.or_eq_true] at this
        rcases this with h | h
        · exact Or.inl h
        · exact Or.inr (of_decide_eq_true h)
      · exact of_decide_eq_true (ite_nil_singleton a3)
  · -- f5
    intro hn
    rw [if_neg (by simp [hn])] at h5
    have := ite_nil_singleton h5
    simp only [Bool.and_eq_true, decide_eq_true_eq, rabs_le_iff] at this
    exact ⟨this.1.1, this.1.2, this.2⟩
  · -- f6
    split at h6
    · rename_i b hb
      exact ⟨b, hb, of_decide_eq_true (ite_nil_singleton h6)⟩
    · cases h6

/-- Soundness of clause f4: a silent oracle means prim_std_cell has no non-trivial pure
translation.  This is a negative statement about the periodic search, hence needs its
completeness: non-degenerate lattice, `symprec` inside the scanned window. -/
theorem checkC06_f4_sound {cs : CaseQ} {d : DatasetQ} (hA : d.primCell.lat.det ≠ 0)
    (hw : Window d.primCell.lat (d.symprec * d.symprec)) (h : checkC06 cs d = []) :
    Spec.C06.PrimitiveNoTranslation d := by
  unfold checkC06 at h
  have h' := cap_eq_nil h
  simp only [List.append_eq_nil_iff] at h'
  obtain ⟨⟨⟨⟨⟨-, -⟩, -⟩, h4⟩, -⟩, -⟩ := h'
  clear h
  unfold Spec.C06.PrimitiveNoTranslation
  split at h4
  · cases h4
  · rename_i hn
    refine ⟨by simpa using hn, ?_⟩
    intro j hj hj0 hnum hall
    split at h4
    · cases h4
    · rename_i hnone
      rw [List.find?_eq_none] at hnone
      apply hnone j (List.mem_range.2 hj)
      simp only [Bool.and_eq_true, bne_iff_ne, ne_eq, beq_iff_eq, List.all_eq_true, List.mem_range]
      exact ⟨⟨hj0, hnum⟩, fun i hi => find_isSome_complete hA hw (hall i hi)⟩

/-- All clauses of C06 from a silent oracle. -/
theorem checkC06_sound_full {cs : CaseQ} {d : DatasetQ} (hA : d.primCell.lat.det ≠ 0)
    (hw : Window d.primCell.lat (d.symprec * d.symprec)) (h : checkC06 cs d = []) :
    Spec.C06Full cs d :=
  ⟨checkC06_sound h, checkC06_f4_sound hA hw h⟩

/-- Integer form of the centering clause: `det Z = order c` in `ℤ` and `Z = c.linear` in `ℤ³ˣ³`. -/
theorem centeringRelationZ_of {d : DatasetQ} (h : Spec.C06.CenteringRelation d) :
    Spec.C06.CenteringRelationZ d := by
  obtain ⟨c, hc, h1, h2, h3⟩ := h
  refine ⟨c, hc, ?_, ?_, h3⟩
  · rw [det_ofM3] at h1
    exact_mod_cast h1
  · exact h2.imp id ofM3_injective

theorem checkC06_sound_Z {cs : CaseQ} {d : DatasetQ} (h : checkC06 cs d = []) :
    Spec.C06.CenteringRelationZ d :=
  centeringRelationZ_of (checkC06_sound h).2.2.1

/-- Completeness: the oracle raises no false alarm (non-degenerate std lattice, `1e-8` inside the
scanned window).  The f4 clause needs no hypothesis in this direction. -/
theorem checkC06_complete {cs : CaseQ} {d : DatasetQ} (hA : d.stdCell.lat.det ≠ 0)
    (hw : Window d.stdCell.lat ((1 / 100000000) * (1 / 100000000)))
    (h : Spec.C06Full cs d) : checkC06 cs d = [] := by
  obtain ⟨⟨⟨conv, hconv, c1⟩, c2, ⟨c, hc, c3a, c3b, c3c⟩, c5, ⟨b, hb, c6⟩⟩, c4n, c4⟩ := h
  unfold checkC06
  simp only
  have e1 : ∀ xs : List String, xs = [] → List.take 2 xs = [] := by rintro _ rfl; rfl
  have e2 : ∀ a b c d e f : List String, a = [] → b = [] → c = [] → d = [] → e = [] → f = [] →
      cap (a ++ b ++ c ++ d ++ e ++ f) 6 = [] := by
    rintro _ _ _ _ _ _ rfl rfl rfl rfl rfl rfl; rfl
  apply e2
  · apply e1
    rw [hconv]
    simp only
    rw [List.filterMap_eq_nil_iff]
    intro k hk
    have hk' := List.mem_range.1 hk
    rw [getElem!_pos conv k hk']
    split
    · rename_i i hsome
      have h1 := List.find?_some hsome
      have h2 := List.mem_range.1 (List.mem_of_find?_eq_some hsome)
      have := find_isSome_complete hA hw (c1 _ (List.getElem_mem hk') i h2)
      rw [Option.isSome_iff_ne_none] at this
      exact absurd (Option.isNone_iff_eq_none.1 h1) this
    · rfl
  · exact if_pos ((maxAbs_le_iff _ _).2 c2)
  · rw [hc]
    simp only [List.append_eq_nil_iff]
    refine ⟨⟨if_pos ?_, if_pos ?_⟩, if_pos ?_⟩
    · exact decide_eq_true c3a
    · rw [Bool.or_eq_true]
      rcases c3b with h | h
      · exact Or.inl h
      · exact Or.inr (decide_eq_true h)
    · exact decide_eq_true c3c
  · rw [if_neg (by simpa using c4n)]
    split
    · rename_i j hsome
      exfalso
      have h1 := List.find?_some hsome
      have h2 := List.mem_range.1 (List.mem_of_find?_eq_some hsome)
      simp only [Bool.and_eq_true, bne_iff_ne, ne_eq, beq_iff_eq, List.all_eq_true,
        List.mem_range] at h1
      exact c4 j h2 h1.1.1 h1.1.2 fun i hi => find_isSome_sound (h1.2 i hi)
    · rfl
  · by_cases hn : cs.truth.noisy = true
    · exact if_pos hn
    · rw [if_neg hn, if_pos]
      have := c5 (by simpa using hn)
      simp only [Bool.and_eq_true, decide_eq_true_eq, rabs_le_iff]
      exact ⟨⟨this.1, this.2.1⟩, this.2.2⟩
  · rw [hb]
    exact if_pos (decide_eq_true c6)

/-- The oracle decides C06 exactly. -/
theorem checkC06_iff {cs : CaseQ} {d : DatasetQ}
    (hS : d.stdCell.lat.det ≠ 0) (hwS : Window d.stdCell.lat ((1 / 100000000) * (1 / 100000000)))
    (hP : d.primCell.lat.det ≠ 0) (hwP : Window d.primCell.lat (d.symprec * d.symprec)) :
    checkC06 cs d = [] ↔ Spec.C06Full cs d :=
  ⟨checkC06_sound_full hP hwP, checkC06_complete hS hwS⟩

/-! ### Non-vacuity: a concrete case on which all hypotheses hold -/

/-- Two like atoms at ±(1/8,1/8,1/8) in a primitive cell of edge 2 (std_cell = prim_std_cell),
reported as Hall number 2 (`-P 1`, tabulated operations `{1, −1}`), Pearson symbol `aP2`. -/
def exCell : CellQ := ⟨⟨2, 0, 0, 0, 2, 0, 0, 0, 2⟩, #[⟨1/8, 1/8, 1/8⟩, ⟨7/8, 7/8, 7/8⟩], #[1, 1]⟩
def exCase : CaseQ := default
def exData : DatasetQ :=
  { (default : DatasetQ) with
    hallNumber := 2, stdCell := exCell, primCell := exCell, pearson := "aP2", symprec := 1 / 10000 }

/-- The table lookups and the Hall-symbol parser are evaluated by the kernel. -/
theorem exConv : convOpsOfHall exData.hallNumber.toNat = some [HOp.one, ⟨M3.one.neg, Z3.zero, false⟩] := by
  decide +kernel

/-- The specification holds of the example: the inversion carries atom 0 onto atom 1 with the
lattice vector `(1,1,1)`; the translation from atom 0 to atom 1 carries atom 1 to `(5/8,5/8,5/8)`,
which is `√3/2` away from the nearest atom (the exact box search, evaluated by the kernel on
rationals, finds nothing, and the box is exhaustive by `withinPeriodic_complete`). -/
theorem exSpec : Spec.C06Full exCase exData := by
  refine ⟨⟨?_, ?_, ?_, ?_, ?_⟩, ?_, ?_⟩
  · refine ⟨_, exConv, ?_⟩
    intro o ho i hi
    have ho' : o = HOp.one ∨ o = ⟨M3.one.neg, Z3.zero, false⟩ := by simpa using ho
    have hi' : i < 2 := hi
    obtain rfl | rfl : i = 0 ∨ i = 1 := by omega
    · rcases ho' with rfl | rfl
      · exact ⟨0, by decide, by decide +kernel, ⟨0, 0, 0⟩, by decide +kernel⟩
      · exact ⟨1, by decide, by decide +kernel, ⟨1, 1, 1⟩, by decide +kernel⟩
    · rcases ho' with rfl | rfl
      · exact ⟨1, by decide, by decide +kernel, ⟨0, 0, 0⟩, by decide +kernel⟩
      · exact ⟨0, by decide, by decide +kernel, ⟨1, 1, 1⟩, by decide +kernel⟩
  · unfold Spec.C06.IntegerRelation; decide +kernel
  · exact ⟨Centering.P, by decide +kernel, by decide +kernel, Or.inr (by decide +kernel), by decide +kernel⟩
  · intro _; decide +kernel
  · exact ⟨"aP", by decide +kernel, by decide +kernel⟩
  · decide
  · intro j hj hj0 _ hall
    have hj' : j < 2 := hj
    obtain rfl : j = 1 := by omega
    obtain ⟨k, hk, -, hp⟩ := hall 1 (by decide)
    have hk' : k < 2 := hk
    have hA : exData.primCell.lat.det ≠ 0 := by decide +kernel
    have hw : Window exData.primCell.lat (exData.symprec * exData.symprec) := by
      unfold Window; decide +kernel
    have := withinPeriodic_complete hA hw hp
    obtain rfl | rfl : k = 0 ∨ k = 1 := by omega
    · exact absurd this (by decide +kernel)
    · exact absurd this (by decide +kernel)

/-- Non-vacuity of `checkC06_complete` / `checkC06_iff`: determinant, window and specification
hypotheses are simultaneously satisfiable, and the oracle is then silent.  (The oracle itself cannot
be evaluated in the kernel because its candidate hint uses `Float`; this is derived, not computed.) -/
example : checkC06 exCase exData = [] :=
  checkC06_complete (by decide +kernel) (by unfold Window; decide +kernel) exSpec

/-- Non-vacuity of `checkC06_sound`, `checkC06_sound_Z`: the hypothesis holds for the example. -/
example : ∃ cs d, checkC06 cs d = [] ∧ d.stdCell.n = 2 ∧ d.hallNumber = 2 :=
  ⟨exCase, exData, checkC06_complete (by decide +kernel) (by unfold Window; decide +kernel) exSpec,
    rfl, rfl⟩

/-- Non-vacuity of `checkC06_f4_sound`, `checkC06_sound_full`, `checkC06_iff`: all hypotheses hold
for the example. -/
example : ∃ cs d, d.primCell.lat.det ≠ 0 ∧ Window d.primCell.lat (d.symprec * d.symprec) ∧
    d.stdCell.lat.det ≠ 0 ∧ Window d.stdCell.lat ((1 / 100000000) * (1 / 100000000)) ∧
    checkC06 cs d = [] ∧ d.primCell.n = 2 :=
  ⟨exCase, exData, by decide +kernel, by unfold Window; decide +kernel, by decide +kernel,
    by unfold Window; decide +kernel,
    checkC06_complete (by decide +kernel) (by unfold Window; decide +kernel) exSpec, rfl⟩

/-- Non-vacuity of `centeringRelationZ_of`. -/
example : Spec.C06.CenteringRelation exData := exSpec.1.2.2.1

end Moyo.C06
