import Moyo.Tables.WyckoffAll
/-
C16(i) — the Wyckoff table (all 3467 rows of the *regenerated* `wyckoffTable`, all 530 Hall numbers).

Every theorem below is a consequence of the kernel-decided chunk theorems `Tables/WyckoffNN.lean`
(`Wyckoff.checkHallRange lo hi = true`, by `decide +kernel`, one chunk per range of Hall numbers)
lifted to `∀ rows` / `∀ Hall numbers`.  The objects:

* `Space.new?` is the model of `WyckoffPositionSpace::new` (exhaustive correspondence with the
  running parser on all rows: `checks/c07.py`, harness `wyck-gen`);
* `convOps h` are the conventional operations of Hall number `h`: coset representatives from the
  Hall-symbol model × centring translations, translations in twelfths;
* `images ops L o` are the affine maps `(R·L, R·o + t mod 1)`, constants in units of 1/24.
-/
namespace Moyo.C16Wyckoff
open Moyo Moyo.Wyckoff Moyo.WyckoffP Moyo.Generated Moyo.Tables

/-! ### the property theorems -/

/-- Size and range of the regenerated table (validates the translator's row count): 3467 rows, every
Hall number in 1 … 530. -/
theorem table_shape :
    wyckoffTableList.length = 3467 ∧
    (wyckoffTableList.all fun e => decide (1 ≤ e.hallNumber) && decide (e.hallNumber ≤ 530)) = true :=
  wyckoff_table_shape

/-- C16(i), parsing: every tabulated coordinate string is accepted by the model of
`WyckoffPositionSpace::new`, and its origin is a multiple of 1/24. -/
theorem rows_parse : ∀ e ∈ wyckoffTableList,
    ∃ sp o, Space.new? e.coordinates = some sp ∧ sp.org24? = some o := by
  intro e he
  obtain ⟨_, _, r, _, _, hre⟩ := row_facts he
  obtain ⟨sp, h1, h2, _⟩ := ofEntry?_some hre
  exact ⟨sp, r.org, h1, h2⟩

/-- C16(i), multiplicity: the generic orbit of the tabulated coordinate triplet — the number of
*distinct* affine maps `(R·L, R·o + t mod 1)` over the conventional operations, centring included —
is the tabulated multiplicity. -/
theorem generic_orbit_size : ∀ e ∈ wyckoffTableList,
    ∃ ops sp o, convOps e.hallNumber = some ops ∧ Space.new? e.coordinates = some sp ∧ sp.org24? = some o ∧
      (images ops sp.linear o).eraseDups.length = e.multiplicity := by
  intro e he
  obtain ⟨ops, rows, r, f, hr, hre⟩ := row_facts he
  obtain ⟨sp, h1, h2, h3, h4, _⟩ := ofEntry?_some hre
  have hok := f.row_ok r hr
  unfold rowOk at hok
  simp only [Bool.and_eq_true, beq_iff_eq] at hok
  obtain ⟨⟨k1, k2⟩, _⟩ := hok
  refine ⟨ops, sp, r.org, f.ops_eq, h1, h2, ?_⟩
  rw [← h3, ← genericOrbitSize_eq k1 f.small, k2, h4]

/-- C16(i), site symmetry: the site-symmetry string names (dots stripped) a point group whose order
is `#operations / multiplicity`.  In particular every string of the table is covered by the
symbol → order map `pointGroupOrder?`. -/
theorem site_symmetry_order : ∀ e ∈ wyckoffTableList,
    ∃ ops k, convOps e.hallNumber = some ops ∧ siteSymmetryOrder? e.siteSymmetry = some k ∧
      k * e.multiplicity = ops.length := by
  intro e he
  obtain ⟨ops, rows, r, f, hr, hre⟩ := row_facts he
  obtain ⟨sp, _, _, _, h4, _, h6⟩ := ofEntry?_some hre
  have hok := f.row_ok r hr
  unfold rowOk at hok
  simp only [Bool.and_eq_true] at hok
  obtain ⟨_, k3⟩ := hok
  split at k3
  swap
  · cases k3
  rename_i k hk
  refine ⟨ops, k, f.ops_eq, by rw [← h6]; exact hk, ?_⟩
  rw [← h4]
  simpa using k3

/-- Every site-symmetry string of the table is in the domain of the symbol → order map. -/
theorem site_symmetry_symbols_covered : ∀ e ∈ wyckoffTableList, (siteSymmetryOrder? e.siteSymmetry).isSome = true := by
  intro e he
  obtain ⟨_, k, _, hk, _⟩ := site_symmetry_order e he
  rw [hk]; rfl

/-- C16(i), letters: for every Hall number the positions carry the letters `a, b, …` (`…z, A`)
without gap, listed from the last letter down to `a`; the first row — the last letter — is the
general position (multiplicity = number of operations) and every other row has a smaller
multiplicity. -/
theorem letters_contiguous : ∀ h, 1 ≤ h → h ≤ 530 →
    ∃ ops, convOps h = some ops ∧ 0 < (rowsOfHall h).length ∧ (rowsOfHall h).length ≤ 27 ∧
      ∀ k e, (rowsOfHall h)[k]? = some e →
        e.letter = letterOfIndex ((rowsOfHall h).length - 1 - k) ∧
        (k = 0 → e.multiplicity = ops.length) ∧ (k ≠ 0 → e.multiplicity < ops.length) := by
  intro h h1 h2
  obtain ⟨ops, rows, f⟩ := hallFacts h h1 h2
  have hl := f.letters
  unfold lettersOk at hl
  simp only [Bool.and_eq_true, decide_eq_true_eq, List.all_eq_true, List.mem_range] at hl
  obtain ⟨⟨l1, l2⟩, l3⟩ := hl
  rw [f.length_eq] at l1 l2
  refine ⟨ops, f.ops_eq, l1, l2, ?_⟩
  intro k e hke
  obtain ⟨r, hr, hre⟩ := f.get hke
  obtain ⟨_, _, _, _, h4, h5, _⟩ := ofEntry?_some hre
  have hk : k < rows.length := by
    rcases Nat.lt_or_ge k rows.length with hlt | hge
    · exact hlt
    · rw [List.getElem?_eq_none hge] at hr; cases hr
  have := l3 k hk
  rw [hr] at this
  simp only [Bool.and_eq_true, beq_iff_eq] at this
  obtain ⟨t1, t2⟩ := this
  rw [f.length_eq, h5] at t1
  refine ⟨t1, ?_, ?_⟩
  · intro hk0
    rw [if_pos hk0] at t2
    rw [← h4]; simpa using t2
  · intro hk0
    rw [if_neg hk0] at t2
    rw [← h4]; simpa using t2

/-- C16(i), disjointness: two different positions of one Hall number with equal multiplicity are
generically disjoint.  For rows `i ≠ j` of the Hall number, parsed as `S₁ = (L₁, o₁)`, `S₂ = (L₂, o₂)`,
and every conventional operation `g` there are an integer vector `a` and an integer `b`, not both
trivial (`a ≠ 0` or `24 ∤ b`), such that `g(L₁ y + o₁) ∈ S₂ + ℤ³` forces `a·y + b/24 ∈ ℤ`: the
parameters `y` whose image lies on the other position form a countable family of parallel planes
(or are absent), so no operation + lattice translation carries `S₁` into `S₂`. -/
theorem equal_multiplicity_disjoint : ∀ h, 1 ≤ h → h ≤ 530 →
    ∃ ops, convOps h = some ops ∧
      ∀ (i j : Nat) (e1 e2 : WyckoffEntry), i ≠ j → (rowsOfHall h)[i]? = some e1 → (rowsOfHall h)[j]? = some e2 →
        e1.multiplicity = e2.multiplicity →
        ∃ r1 r2, RowZ.ofEntry? e1 = some r1 ∧ RowZ.ofEntry? e2 = some r2 ∧
          ∀ g ∈ ops, ∃ (a : Z3) (b : Int), (a ≠ ⟨0, 0, 0⟩ ∨ b % 24 ≠ 0) ∧
            ∀ y : Q3, CarriesInto r1.lin r1.org r2.lin r2.org g y →
              ∃ m : Int, (a.x : Rat) * y.x + (a.y : Rat) * y.y + (a.z : Rat) * y.z + (b : Rat) / 24 = (m : Rat) := by
  intro h h1 h2
  obtain ⟨ops, rows, f⟩ := hallFacts h h1 h2
  refine ⟨ops, f.ops_eq, ?_⟩
  intro i j e1 e2 hij he1 he2 hm
  obtain ⟨r1, hr1, hre1⟩ := f.get he1
  obtain ⟨r2, hr2, hre2⟩ := f.get he2
  obtain ⟨_, _, _, _, m1, _, _⟩ := ofEntry?_some hre1
  obtain ⟨_, _, _, _, m2, _, _⟩ := ofEntry?_some hre2
  refine ⟨r1, r2, hre1, hre2, ?_⟩
  have hd := f.disjoint
  unfold pairsDisjoint at hd
  simp only [List.all_eq_true, List.mem_range] at hd
  have hi : i < rows.length := by
    rcases Nat.lt_or_ge i rows.length with hlt | hge
    · exact hlt
    · rw [List.getElem?_eq_none hge] at hr1; cases hr1
  have hj : j < rows.length := by
    rcases Nat.lt_or_ge j rows.length with hlt | hge
    · exact hlt
    · rw [List.getElem?_eq_none hge] at hr2; cases hr2
  have := hd i hi j hj
  rw [hr1, hr2] at this
  simp only [Bool.or_eq_true, beq_iff_eq, bne_iff_ne, ne_eq] at this
  rcases this with (hh | hh) | hh
  · exact absurd hh hij
  · exact absurd (by rw [m1, m2, hm]) hh
  · exact disjointFrom_sound hh

/-- … hence, for such a pair and every operation, some parameter value `y` is *not* carried into the
other position: `g(S₁) ⊄ S₂ + ℤ³`. -/
theorem equal_multiplicity_not_contained : ∀ h, 1 ≤ h → h ≤ 530 →
    ∃ ops, convOps h = some ops ∧
      ∀ (i j : Nat) (e1 e2 : WyckoffEntry), i ≠ j → (rowsOfHall h)[i]? = some e1 → (rowsOfHall h)[j]? = some e2 →
        e1.multiplicity = e2.multiplicity →
        ∃ r1 r2, RowZ.ofEntry? e1 = some r1 ∧ RowZ.ofEntry? e2 = some r2 ∧
          ∀ g ∈ ops, ∃ y : Q3, ¬ CarriesInto r1.lin r1.org r2.lin r2.org g y := by
  intro h h1 h2
  obtain ⟨ops, hops, hall⟩ := equal_multiplicity_disjoint h h1 h2
  refine ⟨ops, hops, ?_⟩
  intro i j e1 e2 hij he1 he2 hm
  obtain ⟨r1, r2, p1, p2, hg⟩ := hall i j e1 e2 hij he1 he2 hm
  refine ⟨r1, r2, p1, p2, ?_⟩
  intro g hgm
  obtain ⟨a, b, hab, hy⟩ := hg g hgm
  obtain ⟨y, hny⟩ := exists_not_carried hab
  exact ⟨y, fun hc => hny (hy y hc)⟩

/-! ### non-vacuity -/

/-- The table contains Hall 530 (`Ia-3d`), position `48g  ..2  1/8,y,-y+1/4`: it parses to
`L = [[0,0,0],[0,1,0],[0,-1,0]]`, `o = (1/8, 0, 1/4)`; the group has 96 conventional operations;
the symbol `..2` names a group of order 2 = 96/48. -/
example : ((rowsOfHall 530)[1]?.map fun e => (e.multiplicity, e.letter, e.siteSymmetry, e.coordinates)) =
      some (48, 'g', "..2", "1/8,y,-y+1/4") ∧
    Space.new? "1/8,y,-y+1/4" = some ⟨⟨0, 0, 0, 0, 1, 0, 0, -1, 0⟩, ⟨1 / 8, 0, 1 / 4⟩⟩ ∧
    (convOps 530).map List.length = some 96 ∧ siteSymmetryOrder? "..2" = some 2 := by
  decide +kernel

/-- Hall 530 has two positions of multiplicity 48 (`g`, `f`: rows 1 and 2 of the Hall number) and
two of multiplicity 16 (`b`, `a`), so `equal_multiplicity_disjoint` is not vacuous there. -/
example : ((rowsOfHall 530).map fun e => (e.multiplicity, e.letter)) =
    [(96, 'h'), (48, 'g'), (48, 'f'), (32, 'e'), (24, 'd'), (24, 'c'), (16, 'b'), (16, 'a')] := by
  decide +kernel

/-- A certificate at work: in Hall 530 the identity does not carry `48g` (`1/8,y,-y+1/4`) into `48f`
(`x,0,1/4`): with `w = (0,1,0)`, `w·L₂ = 0` and `w·L₁ = (0,1,0) ≠ 0`. -/
example : rowMul ⟨0, 1, 0⟩ ⟨1, 0, 0, 0, 0, 0, 0, 0, 0⟩ = ⟨0, 0, 0⟩ ∧
    certifies ⟨0, 1, 0⟩ ⟨0, 0, 0, 0, 1, 0, 0, -1, 0⟩ ⟨3, 0, 6⟩ ⟨0, 0, 6⟩ HOp.one = true := by
  decide +kernel

/-- Pmmm (Hall 227) uses all 27 letters `a … z, A`. -/
example : (rowsOfHall 227).length = 27 ∧ ((rowsOfHall 227).head?.map (·.letter)) = some 'A' := by
  decide +kernel

end Moyo.C16Wyckoff
