import Moyo.Proofs.SharedMap
import Moyo.Proofs.SharedLazy
import Moyo.Generated.C18Inventory
/-
C18 — results are deterministic and independent of threads, process and history.

Only property theorems live here.  Models: `Moyo/Model/SharedMap.lean` (hash map with an adversarial
iteration order), `Moyo/Model/SharedLazy.lean` (threads racing on a `Lazy`), vocabulary of the source
inventory `Moyo/Model/SharedInventory.lean`; lemmas: `Moyo/Proofs/Shared*.lean`; the inventory itself is
regenerated from /repo by `tools/translate_c18.py` on every run (`Moyo/Generated/C18Inventory.lean`).

What is proved is about the models.  The tie to the code is (a) the inventory theorems below, which say
that moyo's non-test code touches hash containers only through the interface of the first theorem and
has no process-wide state other than `Lazy` tables with pure initialisers, and (b) the trusted contracts
of `std::collections::HashMap` and `once_cell::sync::Lazy` (listed in the evidence).  The real scheduler
and the real hash seeds are explored by the harness, not modelled.
-/
namespace Moyo.C18
open Moyo.Shared

/-! ## Hash maps: lookup-only use is independent of the iteration order -/

/-- Refinement: against every adversary (who re-orders the table after every step, knowing everything
observed so far), every adaptive program that uses only the lookup-only interface
(`insert` last-write-wins, `get`, `contains_key`, `entry().or_insert`, `len`, `is_empty`, indexing, `remove`)
observes exactly what the abstract map `Key → Option Val` prescribes. -/
theorem lookup_only_map_refines_spec {K V : Type} [DecidableEq K] (adv : Adversary K V) (p : Prog K V)
    (hp : ∀ h op, p h = some op → op.lookupOnly = true) (n : Nat) :
    runC adv p n [] [] = runA p n AMap.empty [] :=
  runC_eq_runA adv p hp n [] AMap.empty [] rel_empty

/-- Non-vacuity: a program of the interface whose observations are not trivial — the second insert
sees the first value, `entry().or_insert` keeps the old value, `len` counts distinct keys, indexing
an absent key panics — computed against the reversing adversary. -/
example :
    runC (Adversary.rev : Adversary Nat Nat)
      (Prog.ofList [.insert 1 10, .insert 2 20, .insert 1 11, .entryOrInsert 2 99, .len, .get 1, .remove 2,
                    .containsKey 2, .index 2]) 9 [] []
      = [.val none, .val none, .val (some 10), .val (some 20), .nat 2, .val (some 11), .val (some 20),
         .bool false, .panic] := by
  decide

/-- **Order freedom.**  Any two orderings (hash seeds, growth policies, processes) give the same
observations to every adaptive program over the lookup-only interface, for every number of steps. -/
theorem lookup_only_map_order_free {K V : Type} [DecidableEq K] (adv₁ adv₂ : Adversary K V) (p : Prog K V)
    (hp : ∀ h op, p h = some op → op.lookupOnly = true) (n : Nat) :
    runC adv₁ p n [] [] = runC adv₂ p n [] [] :=
  (lookup_only_map_refines_spec adv₁ p hp n).trans (lookup_only_map_refines_spec adv₂ p hp n).symm

/-- Non-vacuity: the hypothesis is satisfiable by a program that really stores and reads, and the two
adversaries really produce different tables for it (so equality of observations is not equality of states). -/
example :
    (∀ h op, Prog.ofList [Op.insert 1 10, .insert 2 20, .get 1] h = some op → op.lookupOnly = true) ∧
    (Adversary.id : Adversary Nat Nat).shuffle [] [(2, 20), (1, 10)] ≠
      (Adversary.rev : Adversary Nat Nat).shuffle [] [(2, 20), (1, 10)] :=
  ⟨ofList_lookupOnly (by decide), by decide⟩

/-- The same for a fixed operation sequence (the form in which moyo's functions use their maps). -/
theorem lookup_only_ops_order_free {K V : Type} [DecidableEq K] (adv₁ adv₂ : Adversary K V)
    (ops : List (Op K V)) (hops : ∀ op ∈ ops, op.lookupOnly = true) :
    runC adv₁ (Prog.ofList ops) ops.length [] [] = runC adv₂ (Prog.ofList ops) ops.length [] [] :=
  lookup_only_map_order_free adv₁ adv₂ _ (ofList_lookupOnly hops) _

example : ∀ op ∈ [Op.insert 3 1, Op.index 3, Op.len (K := Nat) (V := Nat)], op.lookupOnly = true := by decide

/-- **Negative twin.**  With `iter().next()` the order is observable: the same three-step program gives
different observations under two orderings of a two-element map. -/
theorem iter_next_order_dependent :
    runC (Adversary.id : Adversary Nat Nat) (Prog.ofList [.insert 1 10, .insert 2 20, .iterNext]) 3 [] [] ≠
    runC (Adversary.rev : Adversary Nat Nat) (Prog.ofList [.insert 1 10, .insert 2 20, .iterNext]) 3 [] [] := by
  decide

/-- The witness spelled out: the first element is `(2, 20)` under one ordering and `(1, 10)` under the other. -/
example :
    runC (Adversary.id : Adversary Nat Nat) (Prog.ofList [.insert 1 10, .insert 2 20, .iterNext]) 3 [] []
      = [.val none, .val none, .item (some (2, 20))] ∧
    runC (Adversary.rev : Adversary Nat Nat) (Prog.ofList [.insert 1 10, .insert 2 20, .iterNext]) 3 [] []
      = [.val none, .val none, .item (some (1, 10))] := by
  decide

/-! ## Lazily initialised globals: every interleaving reads `init ()` -/

/-- **Schedule freedom.**  `k` threads race to force a lazily initialised global whose initialiser is pure
(returns `c` whatever ambient input — here the calling thread's id — it is given).  Under every schedule
(arbitrary list of thread ids, threads may run the initialiser concurrently, the cell is written at most
once) every thread that has finished has read `c`. -/
theorem lazy_schedule_free {V : Type} (init : Nat → V) (c : V) (hpure : ∀ i, init i = c) (k : Nat)
    (sched : List Nat) (i : Nat) (v : V)
    (h : (runSched init sched (initial k)).read i = some v) : v = c := by
  have hinv := linv_run hpure sched (linv_initial c k)
  unfold LState.read at h
  split at h
  · rename_i w hw
    cases h
    exact (hinv.2 _ (List.mem_of_getElem? hw)).2 _ rfl
  · cases h

/-- Non-vacuity: three threads, an interleaving in which all three run the initialiser before anybody
stores; everybody reads the value. -/
example :
    let s := runSched (fun _ => 42) [0, 1, 2, 0, 1, 2, 2, 1, 0, 0, 1, 2] (initial 3)
    s.read 0 = some 42 ∧ s.read 1 = some 42 ∧ s.read 2 = some 42 := by
  decide

/-- **Totality.**  In every schedule that lets each of the `k` threads take at least four steps, every
thread finishes and reads `c`: all threads, all fair interleavings, one value. -/
theorem lazy_all_read {V : Type} (init : Nat → V) (c : V) (hpure : ∀ i, init i = c) (k : Nat)
    (sched : List Nat) (hfair : ∀ i, i < k → 4 ≤ sched.count i) (i : Nat) (hi : i < k) :
    (runSched init sched (initial k)).read i = some c := by
  have hlen : i < (initial k : LState V).threads.length := by simp [initial, hi]
  have hr := rank_run init i sched (cellSet_initial k) hlen
  have h4 := hfair i hi
  obtain ⟨v, hv⟩ := done_of_rank (s := runSched init sched (initial k)) (i := i) (by omega)
  have hread : (runSched init sched (initial k)).read i = some v := by
    unfold LState.read; rw [hv]
  rw [hread, lazy_schedule_free init c hpure k sched i v hread]

/-- Non-vacuity: the fairness hypothesis is satisfiable (16 threads, round-robin four times). -/
example : ∀ i, i < 16 → 4 ≤ ((List.range 16) ++ (List.range 16) ++ (List.range 16) ++ (List.range 16)).count i := by
  decide

/-- **Negative twin.**  If the initialiser reads ambient state (here: which thread runs it), the value
everybody reads depends on the schedule. -/
theorem lazy_impure_schedule_dependent :
    (runSched (fun i => i) [0, 0, 0, 0, 1, 1, 1, 1] (initial 2)).read 0 ≠
    (runSched (fun i => i) [1, 1, 1, 1, 0, 0, 0, 0] (initial 2)).read 0 := by
  decide

/-! ## The source inventory stays inside the hypotheses (regenerated from /repo on every run) -/

open Moyo.Generated.C18

/-- Every `HashMap` / `HashSet` binding of the non-test code is used only through the lookup-only interface. -/
theorem inventory_hash_lookup_only : hashUses.all HashUse.ok = true := by decide

/-- Non-vacuity: the inventory is not empty, hash containers are among its entries, some are indexed
and some go through `entry`; and the predicate rejects a hash map that is iterated while it accepts the
same use of a B-tree map. -/
example :
    (hashUses.filter (fun u => u.kind.isHash)).length ≥ 10 ∧
    (hashUses.any fun u => u.kind.isHash && u.uses.any fun s => match s.method with | .index => true | _ => false) = true ∧
    (hashUses.any fun u => u.kind.isHash && u.uses.any fun s => match s.method with | .entryOrInsert => true | _ => false) = true ∧
    HashUse.ok ⟨"x.rs", "f", "m", .hashMap, .letBinding, 1, [⟨.insert, [2]⟩, ⟨.iter, [3]⟩]⟩ = false ∧
    HashUse.ok ⟨"x.rs", "f", "m", .hashMap, .letBinding, 1, [⟨.forIter, [3]⟩]⟩ = false ∧
    HashUse.ok ⟨"x.rs", "f", "m", .btreeMap, .letBinding, 1, [⟨.insert, [2]⟩, ⟨.iter, [3]⟩]⟩ = true := by
  decide

/-- No hash container leaves the region the translator can follow (returned, moved, passed to a function
that is not itself inventoried, nested in another type, built by an adaptor that hands out a `HashMap`). -/
theorem inventory_no_escape : escaped.length = 0 := by decide

/-- Non-vacuity: the statement is about a list the translator can populate (one escaped container refutes it),
and it is stated about a scan that saw the crate's hash containers. -/
example : ([⟨"x.rs", "f", "m", 3, "returned by fn f"⟩] : List Escape).length ≠ 0 ∧ hashUses.length ≥ 12 := by decide

/-- The only `static` items are `Lazy` tables (or immutable plain data) whose initialisers contain no ambient
input; there is no `static mut`, no interior mutability in a static, no `thread_local!`, no `lazy_static!`. -/
theorem inventory_statics_lazy_pure : statics.all StaticItem.ok = true := by decide

/-- Non-vacuity: the two lazily initialised tables named in the property are in the inventory, and the
predicate rejects a mutable static and an impure initialiser. -/
example :
    statics.length ≥ 2 ∧
    StaticItem.ok ⟨"x.rs", "COUNTER", 1, .mutable, "usize", true, []⟩ = false ∧
    StaticItem.ok ⟨"x.rs", "SEED", 1, .lazy, "Lazy<u64>", false, []⟩ = false ∧
    StaticItem.ok ⟨"x.rs", "TL", 1, .threadLocal, "Cell<u32>", true, []⟩ = false := by
  decide

/-- No RNG, clock, environment, thread id, pointer-address formatting, hasher state, thread creation, file
read or `unsafe` in non-test code. -/
theorem inventory_no_ambient : ambient.length = 0 := by decide

/-- Non-vacuity: one clock read refutes the statement; the scan covered the whole crate. -/
example : ([⟨"x.rs", "f", 7, .clock, "Instant::now()"⟩] : List AmbientUse).length ≠ 0 ∧ filesScanned ≥ 40 := by decide

/-- The translator looked at the crate (a run that found no source files proves nothing). -/
theorem inventory_nonempty_scan : 40 ≤ filesScanned ∧ 20 ≤ cfgTestItemsRemoved ∧ 10 ≤ consts.length := by decide

end Moyo.C18
