import Moyo.Spec.C05
import Moyo.Proofs.OracleC05
/-
C05: the executable oracle `Oracle.checkC05`, run on the implementation's dataset, is a verified
decision of `Spec.C05` ("the standardized cells are the same crystal under the reported
transformation"): sound unconditionally, complete for non-degenerate lattices, tolerances inside
the scanned window and input cells whose like atoms are separated by more than the tolerance.
Clauses (f8a)+(f8b) of the oracle give "same primitive site ⇔ related by a reported pure
translation" for such cells (`same_prim_site_iff`).
-/
namespace Moyo.C05
open Moyo Moyo.Oracle Moyo.Spec Moyo.Periodic Moyo.OracleP

/-- Soundness: a silent oracle means every clause of `Spec.C05` holds of the dataset.
(Floats never enter: `nearestF` only proposes a candidate, every verdict is the exact test.)
For (f8, ⇒) the count `sharing.length == js.length` is turned into a statement: the duplicate-free
list `js` of found translates is contained in `sharing`, so equal lengths force `sharing ⊆ js`. -/
theorem checkC05_sound {cs : CaseQ} {d : DatasetQ} (h : checkC05 cs d = []) : Spec.C05 cs d := by
  unfold checkC05 at h
  have h' := cap_eq_nil h
  clear h
  simp only [List.append_eq_nil_iff] at h'
  obtain ⟨⟨⟨⟨⟨⟨⟨h1, h2⟩, h3⟩, h4⟩, h5⟩, h6⟩, h7⟩, h8⟩ := h'
  replace h7 := take_succ_eq_nil h7
  replace h8 := take_succ_eq_nil h8
  replace h1 := ite_nil_singleton h1
  replace h2 := ite_nil_singleton h2
  replace h3 := ite_nil_singleton h3
  replace h6 := ite_nil_singleton h6
  rw [Bool.and_eq_true, decide_eq_true_eq] at h1
  rw [List.filterMap_eq_nil_iff] at h7 h8
  refine ⟨?_, h1.2, matClose_sound h2, matClose_sound h3, ?_, ?_, h6, ?_, ?_, ?_⟩
  · have := matClose_sound h1.1
    unfold EntriesClose at this
    rw [one_maxAbs] at this
    norm_num at this ⊢
    exact this
  · intro i hi
    split at h4
    · cases h4
    · rename_i hnone
      rw [List.find?_eq_none] at hnone
      have := hnone i (List.mem_range.2 hi)
      rw [range_map_getElem! _ hi] at this
      apply find_isSome_sound
      simpa [Option.isSome_iff_ne_none] using this
  · intro j hj
    split at h5
    · cases h5
    · rename_i hnone
      rw [List.find?_eq_none] at hnone
      have := hnone j (List.mem_range.2 hj)
      apply find_isSome_sound
      simpa [Option.isSome_iff_ne_none] using this
  · intro i hi
    have := h7 i (List.mem_range.2 hi)
    split at this
    · cases this
    · rename_i j hj
      split at this
      · rename_i hc
        simp only [Bool.and_eq_true, decide_eq_true_eq, beq_iff_eq] at hc
        exact ⟨j, hj, hc.1.1, hc.1.2, withinPeriodic_sound hc.2⟩
      · cases this
  · intro i hi t ht hrot
    have := h8 i (List.mem_range.2 hi)
    split at this
    · cases this
    rename_i ha
    split at this
    · cases this
    rename_i hb
    rw [Bool.not_eq_true, List.any_eq_false] at ha hb
    have htr : t ∈ List.filter (fun o => o.rot == M3.one) d.ops.toList :=
      List.mem_filter.2 ⟨ht, by simpa using hrot⟩
    have hne := ha _ (List.mem_map.2 ⟨t, htr, rfl⟩)
    obtain ⟨j, hj⟩ := Option.ne_none_iff_exists'.1 (by simpa using hne)
    obtain ⟨s1, s2, s3⟩ := find_sound hj
    refine ⟨j, s1, s2, s3, ?_⟩
    have hjs := hb j (List.mem_eraseDups.2 (List.mem_filterMap.2 ⟨some j, List.mem_map.2 ⟨t, htr, hj⟩, rfl⟩))
    simpa using hjs
  · intro i hi j hj hmap
    have := h8 i (List.mem_range.2 hi)
    split at this
    · cases this
    rename_i ha
    split at this
    · cases this
    rename_i hb
    split at this
    swap
    · cases this
    rename_i hc
    rw [Bool.not_eq_true, List.any_eq_false] at hb
    rw [beq_iff_eq] at hc
    have key : ∀ k, k ∈ (List.filterMap id (List.map (fun t => (SiteIndex.build cs.cell).find
        (cs.cell.pos[i]!.add t.trans) cs.cell.num[i]! (4 * d.symprec * (4 * d.symprec)))
        (List.filter (fun o => o.rot == M3.one) d.ops.toList))).eraseDups →
        ∃ t ∈ d.ops.toList, t.rot = M3.one ∧ (SiteIndex.build cs.cell).find
          (cs.cell.pos[i]!.add t.trans) cs.cell.num[i]! (4 * d.symprec * (4 * d.symprec)) = some k := by
      intro k hk
      rw [List.mem_eraseDups, List.mem_filterMap] at hk
      obtain ⟨o, ho, hok⟩ := hk
      obtain ⟨t, ht, hto⟩ := List.mem_map.1 ho
      rw [List.mem_filter] at ht
      refine ⟨t, ht.1, by simpa using ht.2, ?_⟩
      rw [hto]; simpa using hok
    have hsub := subset_of_nodup_subset_length (nodup_eraseDups _) (fun k hk => by
      obtain ⟨t, _, _, hf⟩ := key k hk
      have hm := hb k hk
      exact List.mem_filter.2 ⟨List.mem_range.2 (find_sound hf).1, by simpa using hm⟩) hc
    have hjs := hsub (List.mem_filter.2 ⟨List.mem_range.2 hj, by simpa using hmap⟩)
    obtain ⟨t, ht, hrot, hf⟩ := key j hjs
    exact ⟨t, ht, hrot, (find_sound hf).2⟩

/-- Completeness: the oracle raises no false alarm (non-degenerate lattices, tolerance inside the
scanned windows, like atoms of the input separated by more than the tolerance — without separation
the count of clause (f8b) depends on which of several admissible atoms the search returns). -/
theorem checkC05_complete {cs : CaseQ} {d : DatasetQ}
    (hI : cs.cell.lat.det ≠ 0) (hwI : Window cs.cell.lat ((4 * d.symprec) * (4 * d.symprec)))
    (hS : d.stdCell.lat.det ≠ 0) (hwS : Window d.stdCell.lat ((4 * d.symprec) * (4 * d.symprec)))
    (hP : d.primCell.lat.det ≠ 0) (hwP : Window d.primCell.lat ((4 * d.symprec) * (4 * d.symprec)))
    (hsep : Separated cs.cell ((4 * d.symprec) * (4 * d.symprec)))
    (h : Spec.C05 cs d) : checkC05 cs d = [] := by
  unfold checkC05
  simp only
  apply cap_of_nil
  simp only [List.append_eq_nil_iff]
  refine ⟨⟨⟨⟨⟨⟨⟨?_, ?_⟩, ?_⟩, ?_⟩, ?_⟩, ?_⟩, take_of_nil ?_⟩, take_of_nil ?_⟩
  · apply if_pos
    rw [Bool.and_eq_true, decide_eq_true_eq]
    refine ⟨matClose_complete ?_, h.rot_proper⟩
    unfold EntriesClose
    rw [one_maxAbs]
    have := h.rot_orthogonal
    norm_num at this ⊢
    exact this
  · exact if_pos (matClose_complete h.std_lattice)
  · exact if_pos (matClose_complete h.prim_lattice)
  · split
    · rename_i i hsome
      have h1 := List.find?_some hsome
      have h2 := List.mem_range.1 (List.mem_of_find?_eq_some hsome)
      rw [range_map_getElem! _ h2] at h1
      have := find_isSome_complete hS hwS (h.input_lands i h2)
      rw [Option.isSome_iff_ne_none] at this
      simp [this] at h1
    · rfl
  · split
    · rename_i j hsome
      have h1 := List.find?_some hsome
      have h2 := List.mem_range.1 (List.mem_of_find?_eq_some hsome)
      have := find_isSome_complete hI hwI (h.std_reached j h2)
      rw [Option.isSome_iff_ne_none] at this
      simp [this] at h1
    · rfl
  · exact if_pos h.atom_count
  · rw [List.filterMap_eq_nil_iff]
    intro i hi
    obtain ⟨j, hj, c1, c2, c3⟩ := h.prim_mapping i (List.mem_range.1 hi)
    rw [hj]
    simp only
    apply if_pos
    simp only [Bool.and_eq_true, decide_eq_true_eq, beq_iff_eq]
    exact ⟨⟨c1, c2⟩, withinPeriodic_complete hP hwP c3⟩
  · rw [List.filterMap_eq_nil_iff]
    intro i hi
    replace hi := List.mem_range.1 hi
    have trans_mem : ∀ t, t ∈ List.filter (fun o => o.rot == M3.one) d.ops.toList ↔
        t ∈ d.ops.toList ∧ t.rot = M3.one := by
      intro t; rw [List.mem_filter, beq_iff_eq]
    have found : ∀ t, t ∈ d.ops.toList → t.rot = M3.one → ∃ j, j < cs.cell.n ∧
        d.mapping[j]? = d.mapping[i]? ∧ (SiteIndex.build cs.cell).find
          (cs.cell.pos[i]!.add t.trans) cs.cell.num[i]! (4 * d.symprec * (4 * d.symprec)) = some j := by
      intro t ht hrot
      obtain ⟨j, j1, j2, j3, j4⟩ := h.translate_same_site i hi t ht hrot
      exact ⟨j, j1, j4, find_eq_some_of_separated hI hwI hsep j1 j2 j3⟩
    have key : ∀ k, k ∈ (List.filterMap id (List.map (fun t => (SiteIndex.build cs.cell).find
        (cs.cell.pos[i]!.add t.trans) cs.cell.num[i]! (4 * d.symprec * (4 * d.symprec)))
        (List.filter (fun o => o.rot == M3.one) d.ops.toList))).eraseDups ↔
        ∃ t ∈ d.ops.toList, t.rot = M3.one ∧ (SiteIndex.build cs.cell).find
          (cs.cell.pos[i]!.add t.trans) cs.cell.num[i]! (4 * d.symprec * (4 * d.symprec)) = some k := by
      intro k
      rw [List.mem_eraseDups, List.mem_filterMap]
      constructor
      · rintro ⟨o, ho, hok⟩
        obtain ⟨t, ht, hto⟩ := List.mem_map.1 ho
        rw [trans_mem] at ht
        refine ⟨t, ht.1, ht.2, ?_⟩
        rw [hto]; simpa using hok
      · rintro ⟨t, ht, hrot, hf⟩
        exact ⟨some k, List.mem_map.2 ⟨t, (trans_mem t).2 ⟨ht, hrot⟩, hf⟩, rfl⟩
    split
    · rename_i ha
      exfalso
      rw [List.any_eq_true] at ha
      obtain ⟨o, ho, hnone⟩ := ha
      obtain ⟨t, ht, rfl⟩ := List.mem_map.1 ho
      rw [trans_mem] at ht
      obtain ⟨j, _, _, hf⟩ := found t ht.1 ht.2
      rw [hf] at hnone
      cases hnone
    · split
      · rename_i hb
        exfalso
        rw [List.any_eq_true] at hb
        obtain ⟨k, hk, hne⟩ := hb
        obtain ⟨t, ht, hrot, hf⟩ := (key k).1 hk
        obtain ⟨j, _, hm, hf'⟩ := found t ht hrot
        rw [hf] at hf'
        cases hf'
        simp [hm] at hne
      · split
        · rfl
        · rename_i hc
          exfalso
          apply hc
          rw [beq_iff_eq]
          refine List.Perm.length_eq ?_
          rw [List.perm_ext_iff_of_nodup (List.nodup_range.sublist List.filter_sublist) (nodup_eraseDups _)]
          intro k
          rw [key, List.mem_filter, List.mem_range, beq_iff_eq]
          constructor
          · rintro ⟨hk, hm⟩
            obtain ⟨t, ht, hrot, hnum, hpw⟩ := h.same_site_translate i hi k hk hm
            exact ⟨t, ht, hrot, find_eq_some_of_separated hI hwI hsep hk hnum hpw⟩
          · rintro ⟨t, ht, hrot, hf⟩
            obtain ⟨j, hj, hm, hf'⟩ := found t ht hrot
            rw [hf] at hf'
            cases hf'
            exact ⟨hj, hm⟩

/-- The oracle decides C05 exactly. -/
theorem checkC05_iff {cs : CaseQ} {d : DatasetQ}
    (hI : cs.cell.lat.det ≠ 0) (hwI : Window cs.cell.lat ((4 * d.symprec) * (4 * d.symprec)))
    (hS : d.stdCell.lat.det ≠ 0) (hwS : Window d.stdCell.lat ((4 * d.symprec) * (4 * d.symprec)))
    (hP : d.primCell.lat.det ≠ 0) (hwP : Window d.primCell.lat ((4 * d.symprec) * (4 * d.symprec)))
    (hsep : Separated cs.cell ((4 * d.symprec) * (4 * d.symprec))) :
    checkC05 cs d = [] ↔ Spec.C05 cs d :=
  ⟨checkC05_sound, checkC05_complete hI hwI hS hwS hP hwP hsep⟩

/-- "Two input atoms share a primitive site exactly when a reported pure translation relates
them": clauses (f8, ⇐) and (f8, ⇒) of the specification give the equivalence when no two distinct
like atoms lie within the tolerance of one point. -/
theorem same_prim_site_iff {cs : CaseQ} {d : DatasetQ} (hspec : Spec.C05 cs d)
    (hsep : Separated cs.cell ((4 * d.symprec) * (4 * d.symprec))) :
    ∀ i j, i < cs.cell.n → j < cs.cell.n →
      (d.mapping[j]? = d.mapping[i]? ↔
        ∃ t ∈ d.ops.toList, t.rot = M3.one ∧ cs.cell.num[j]! = cs.cell.num[i]! ∧
          PeriodicWithin cs.cell.lat ((cs.cell.pos[i]!.add t.trans).sub cs.cell.pos[j]!)
            ((4 * d.symprec) * (4 * d.symprec))) := by
  intro i j hi hj
  constructor
  · exact hspec.same_site_translate i hi j hj
  · rintro ⟨t, ht, hrot, hnum, hpw⟩
    obtain ⟨j', hj', hnum', hpw', hmap⟩ := hspec.translate_same_site i hi t ht hrot
    have : j = j' := hsep _ j j' hj hj' (hnum.trans hnum'.symm) hpw hpw'
    rw [this]; exact hmap

/-- The same, directly from a silent oracle. -/
theorem same_prim_site_iff_of_check {cs : CaseQ} {d : DatasetQ} (h : checkC05 cs d = [])
    (hsep : Separated cs.cell ((4 * d.symprec) * (4 * d.symprec))) :
    ∀ i j, i < cs.cell.n → j < cs.cell.n →
      (d.mapping[j]? = d.mapping[i]? ↔
        ∃ t ∈ d.ops.toList, t.rot = M3.one ∧ cs.cell.num[j]! = cs.cell.num[i]! ∧
          PeriodicWithin cs.cell.lat ((cs.cell.pos[i]!.add t.trans).sub cs.cell.pos[j]!)
            ((4 * d.symprec) * (4 * d.symprec))) :=
  same_prim_site_iff (checkC05_sound h) hsep

/-! ### Non-vacuity: a concrete case on which all hypotheses hold -/

/-- Two like atoms at (1/4,1/4,1/4), (3/4,3/4,3/4) in a cubic cell of edge 2; identity
transformation (std cell = prim cell = input cell), only the identity reported. -/
def exCell : CellQ := ⟨⟨2, 0, 0, 0, 2, 0, 0, 0, 2⟩, #[⟨1/4, 1/4, 1/4⟩, ⟨3/4, 3/4, 3/4⟩], #[1, 1]⟩
def exCase : CaseQ := { (default : CaseQ) with cell := exCell }
def exData : DatasetQ :=
  { (default : DatasetQ) with
    ops := #[⟨M3.one, Q3.zero⟩], symprec := 1 / 10000,
    stdCell := exCell, stdLinear := QM3.one, stdShift := Q3.zero, stdRot := QM3.one,
    primCell := exCell, primLinear := QM3.one, primShift := Q3.zero, mapping := #[0, 1] }

/-- The specification holds of the example, by exhibiting the witnesses. -/
theorem exSpec : Spec.C05 exCase exData := by
  refine ⟨by decide +kernel, by decide +kernel, by unfold EntriesClose; decide +kernel,
    by unfold EntriesClose; decide +kernel, ?_, ?_, by decide +kernel, ?_, ?_, ?_⟩
  · intro i hi
    have hi' : i < 2 := hi
    obtain rfl | rfl : i = 0 ∨ i = 1 := by omega
    · exact ⟨0, by decide, by decide +kernel, ⟨0, 0, 0⟩, by decide +kernel⟩
    · exact ⟨1, by decide, by decide +kernel, ⟨0, 0, 0⟩, by decide +kernel⟩
  · intro i hi
    have hi' : i < 2 := hi
    obtain rfl | rfl : i = 0 ∨ i = 1 := by omega
    · exact ⟨0, by decide, by decide +kernel, ⟨0, 0, 0⟩, by decide +kernel⟩
    · exact ⟨1, by decide, by decide +kernel, ⟨0, 0, 0⟩, by decide +kernel⟩
  · intro i hi
    have hi' : i < 2 := hi
    obtain rfl | rfl : i = 0 ∨ i = 1 := by omega
    · exact ⟨0, by decide +kernel, by decide, by decide +kernel, ⟨0, 0, 0⟩, by decide +kernel⟩
    · exact ⟨1, by decide +kernel, by decide, by decide +kernel, ⟨0, 0, 0⟩, by decide +kernel⟩
  · intro i hi t ht hrot
    have ht' : t = ⟨M3.one, Q3.zero⟩ := by simpa [exData] using ht
    subst ht'
    have hi' : i < 2 := hi
    obtain rfl | rfl : i = 0 ∨ i = 1 := by omega
    · exact ⟨0, by decide, by decide +kernel, ⟨⟨0, 0, 0⟩, by decide +kernel⟩, rfl⟩
    · exact ⟨1, by decide, by decide +kernel, ⟨⟨0, 0, 0⟩, by decide +kernel⟩, rfl⟩
  · intro i hi j hj hmap
    have hi' : i < 2 := hi
    have hj' : j < 2 := hj
    refine ⟨⟨M3.one, Q3.zero⟩, by simp [exData], rfl, ?_⟩
    obtain rfl | rfl : i = 0 ∨ i = 1 := by omega
    · obtain rfl | rfl : j = 0 ∨ j = 1 := by omega
      · exact ⟨by decide +kernel, ⟨0, 0, 0⟩, by decide +kernel⟩
      · exact absurd hmap (by decide +kernel)
    · obtain rfl | rfl : j = 0 ∨ j = 1 := by omega
      · exact absurd hmap (by decide +kernel)
      · exact ⟨by decide +kernel, ⟨0, 0, 0⟩, by decide +kernel⟩

/-- The two atoms of the example are separated: along the first axis their fractional coordinates
differ by `1/2` modulo 1, i.e. by at least 1 in Cartesian length, while the tolerance is `4·10⁻⁴`. -/
theorem exSep : Separated exCase.cell ((4 * exData.symprec) * (4 * exData.symprec)) := by
  have e0 : exCase.cell.pos[0]! = ⟨1/4, 1/4, 1/4⟩ := by decide +kernel
  have e1 : exCase.cell.pos[1]! = ⟨3/4, 3/4, 3/4⟩ := by decide +kernel
  have eA : exCase.cell.lat = ⟨2, 0, 0, 0, 2, 0, 0, 0, 2⟩ := rfl
  have er : (4 * exData.symprec) * (4 * exData.symprec) = 16 / 100000000 := by decide +kernel
  intro y j j' hj hj' _ hp hp'
  have hj2 : j < 2 := hj
  have hj2' : j' < 2 := hj'
  rw [er] at hp hp'
  obtain ⟨n, hn⟩ := hp
  obtain ⟨m, hm⟩ := hp'
  obtain rfl | rfl : j = 0 ∨ j = 1 := by omega
  · obtain rfl | rfl : j' = 0 ∨ j' = 1 := by omega
    · rfl
    · exfalso
      rw [e0, eA] at hn
      rw [e1, eA] at hm
      simp only [Q3.sub, QM3.apply, Q3.normSq, Q3.dot] at hn hm
      have := int_half_sq (n.x - m.x)
      push_cast at this
      nlinarith [sq_nonneg ((y.x - 1/4 + n.x) + (y.x - 3/4 + m.x)), sq_nonneg (y.y - 1/4 + n.y),
        sq_nonneg (y.z - 1/4 + n.z), sq_nonneg (y.y - 3/4 + m.y), sq_nonneg (y.z - 3/4 + m.z)]
  · obtain rfl | rfl : j' = 0 ∨ j' = 1 := by omega
    · exfalso
      rw [e1, eA] at hn
      rw [e0, eA] at hm
      simp only [Q3.sub, QM3.apply, Q3.normSq, Q3.dot] at hn hm
      have := int_half_sq (m.x - n.x)
      push_cast at this
      nlinarith [sq_nonneg ((y.x - 1/4 + m.x) + (y.x - 3/4 + n.x)), sq_nonneg (y.y - 1/4 + m.y),
        sq_nonneg (y.z - 1/4 + m.z), sq_nonneg (y.y - 3/4 + n.y), sq_nonneg (y.z - 3/4 + n.z)]
    · rfl

/-- Non-vacuity of `checkC05_complete` / `checkC05_iff`: determinant, window, separation and
specification hypotheses are simultaneously satisfiable, and the oracle is then silent.  (The oracle
itself cannot be evaluated in the kernel because its candidate hint uses `Float`; this is derived,
not computed.) -/
theorem exCheck : checkC05 exCase exData = [] :=
  checkC05_complete (by decide +kernel) (by unfold Window; decide +kernel)
    (by decide +kernel) (by unfold Window; decide +kernel)
    (by decide +kernel) (by unfold Window; decide +kernel) exSep exSpec

/-- Non-vacuity of `checkC05_sound` and `same_prim_site_iff_of_check`: their hypotheses hold for the
example. -/
example : ∃ cs d, checkC05 cs d = [] ∧ Separated cs.cell ((4 * d.symprec) * (4 * d.symprec)) ∧
    d.ops.size = 1 ∧ cs.cell.n = 2 :=
  ⟨exCase, exData, exCheck, exSep, rfl, rfl⟩

/-- Non-vacuity of `same_prim_site_iff`: both hypotheses hold for the example, and both sides of
the equivalence occur (atoms 0, 1 have different primitive sites; each atom shares its own). -/
example : Spec.C05 exCase exData ∧ Separated exCase.cell ((4 * exData.symprec) * (4 * exData.symprec)) ∧
    exData.mapping[1]? ≠ exData.mapping[0]? ∧ exData.mapping[0]? = exData.mapping[0]? :=
  ⟨exSpec, exSep, by decide +kernel, rfl⟩

end Moyo.C05
