import Moyo.Model.Bindings
import Moyo.Generated.C20Bindings
/-
C20: the Python bindings are a faithful view of the Rust results.

Part 1 (`colmajor_rows`, `conv_orientation_sound`, `lattice_roundtrip`, `lattice_columns`,
`vector_plain`): theorems about the model of nalgebra's column-major storage and of the conversions
the bindings use (`Moyo/Model/Bindings.lean`), for every element type and every matrix.

Part 2 (table theorems, by `decide` over `Moyo/Generated/C20Bindings.lean`, which
tools/translate_c20.py regenerates from /repo/moyopy/src on every run): every matrix-valued getter
uses a conversion whose model yields the documented orientation, vector getters are plain triples,
every getter reads the field it is named after, the constructor signatures carry the documented
defaults and pass them on in the documented way, and every error path ends in `ValueError`.
-/
namespace Moyo.C20
open Moyo.Bindings Moyo.Generated.C20

/-! ### Part 1 — storage model -/

/-- For column-major storage: the nested list of `M.transpose().into()` (equally
`*M.transpose().as_ref()`) is row-major, `[i][j] = M(i,j)`; the nested list of `M.into()` /
`*M.as_ref()` has **column** `i` of `M` as its `i`-th entry, `[i][j] = M(j,i)`. -/
theorem colmajor_rows {α : Type} (M : Matrix3 α) (i j : Fin 3) :
    (M.transpose.toArrays)[i][j] = M.get i j ∧ (M.toArrays)[i][j] = M.get j i := by
  obtain ⟨⟨⟨l⟩, h⟩⟩ := M
  match l, h with
  | [a, b, c, d, e, f, g, h', k], _ =>
    match i, j with
    | 0, 0 => exact ⟨rfl, rfl⟩
    | 0, 1 => exact ⟨rfl, rfl⟩
    | 0, 2 => exact ⟨rfl, rfl⟩
    | 1, 0 => exact ⟨rfl, rfl⟩
    | 1, 1 => exact ⟨rfl, rfl⟩
    | 1, 2 => exact ⟨rfl, rfl⟩
    | 2, 0 => exact ⟨rfl, rfl⟩
    | 2, 1 => exact ⟨rfl, rfl⟩
    | 2, 2 => exact ⟨rfl, rfl⟩

/-- Non-vacuity: a non-symmetric matrix (`M(i,j) = 10 i + j`, storage `0,10,20,1,11,21,2,12,22`):
the transposing conversion returns its rows, the plain one returns its transpose, and they differ. -/
example :
    let M : Matrix3 Int := ⟨#v[0, 10, 20, 1, 11, 21, 2, 12, 22]⟩
    M.get 1 2 = 12 ∧ M.get 2 1 = 21 ∧
    M.transpose.toArrays = #v[#v[0, 1, 2], #v[10, 11, 12], #v[20, 21, 22]] ∧
    M.toArrays = #v[#v[0, 10, 20], #v[1, 11, 21], #v[2, 12, 22]] ∧
    M.transpose.toArrays ≠ M.toArrays := by decide

/-- Each conversion class yields exactly the orientation `Conv.orientation` assigns to it. -/
theorem conv_orientation_sound {α : Type} (c : Conv) (M : Matrix3 α) (i j : Fin 3) :
    (c.orientation = .rowMajor → (c.apply M)[i][j] = M.get i j) ∧
    (c.orientation = .columnsAsRows → (c.apply M)[i][j] = M.get j i) := by
  cases c <;> simp only [Conv.orientation, Conv.apply, reduceCtorEq, false_imp_iff,
    forall_const, true_and, and_true]
  · exact (colmajor_rows M i j).1
  · exact (colmajor_rows M i j).1
  · exact (colmajor_rows M i j).2
  · exact (colmajor_rows M i j).2

/-- Non-vacuity: both orientations occur, and on a non-symmetric matrix they give different lists. -/
example :
    Conv.transposeInto.orientation = .rowMajor ∧ Conv.derefAsRef.orientation = .columnsAsRows ∧
    Conv.transposeInto.apply (⟨#v[0, 10, 20, 1, 11, 21, 2, 12, 22]⟩ : Matrix3 Int)
      ≠ Conv.derefAsRef.apply ⟨#v[0, 10, 20, 1, 11, 21, 2, 12, 22]⟩ := by decide

/-- `Lattice::from_basis(b)` stores basis vector `i` (row `i` of the argument) as **column** `i`
(`Lattice::new` stores the transpose of the row-wise matrix). -/
theorem lattice_columns {α : Type} (b : Nested α) (i j : Fin 3) :
    (Lattice.fromBasis b).basis.get j i = b[i][j] := by
  obtain ⟨⟨r⟩, h⟩ := b
  match r, h with
  | [⟨⟨[a0, a1, a2]⟩, _⟩, ⟨⟨[b0, b1, b2]⟩, _⟩, ⟨⟨[c0, c1, c2]⟩, _⟩], _ =>
    match i, j with
    | 0, 0 => rfl
    | 0, 1 => rfl
    | 0, 2 => rfl
    | 1, 0 => rfl
    | 1, 1 => rfl
    | 1, 2 => rfl
    | 2, 0 => rfl
    | 2, 1 => rfl
    | 2, 2 => rfl

/-- Non-vacuity: a skew basis; the third basis vector `(5, 7, 4)` is column 2 of the stored matrix. -/
example :
    let b : Nested Int := #v[#v[3, 0, 0], #v[-1, 2, 0], #v[5, 7, 4]]
    (Lattice.fromBasis b).basis.get 0 2 = 5 ∧ (Lattice.fromBasis b).basis.get 1 2 = 7 ∧
    (Lattice.fromBasis b).basis.get 2 0 = 0 := by decide

/-- Round trip `Cell(basis).basis = basis`: the `basis` getter (`*lattice.basis.as_ref()`) returns
the basis vectors as rows, exactly the nested list the constructor received. -/
theorem lattice_roundtrip {α : Type} (b : Nested α) :
    (Lattice.fromBasis b).pyBasis = b := by
  obtain ⟨⟨r⟩, h⟩ := b
  match r, h with
  | [⟨⟨[a0, a1, a2]⟩, _⟩, ⟨⟨[b0, b1, b2]⟩, _⟩, ⟨⟨[c0, c1, c2]⟩, _⟩], _ => rfl

/-- Non-vacuity: a skew (non-symmetric) basis; the stored matrix is the transpose of the row-wise
input, the getter gives the input back, and a transposing getter would not. -/
example :
    let b : Nested Int := #v[#v[3, 0, 0], #v[-1, 2, 0], #v[5, 7, 4]]
    (Lattice.fromBasis b).basis.data = #v[3, 0, 0, -1, 2, 0, 5, 7, 4] ∧
    (Lattice.fromBasis b).basis.get 0 2 = 5 ∧
    (Lattice.fromBasis b).pyBasis = b ∧
    Conv.transposeInto.apply (Lattice.fromBasis b).basis ≠ b := by decide

/-- Vectors are plain triples: a `Vector3` is its three components in order, so every vector
conversion class (`.into()`, `*v.as_ref()`, `[v.x, v.y, v.z]`, `[v[0], v[1], v[2]]`) is the
identity on the triple. -/
theorem vector_plain {α : Type} (v : Vector3 α) :
    (#v[v[0], v[1], v[2]] : Vector α 3) = v := by
  obtain ⟨⟨l⟩, h⟩ := v
  match l, h with
  | [a, b, c], _ => rfl

example : (#v[((#v[1, 2, 3] : Vector3 Int))[0], (#v[1, 2, 3] : Vector3 Int)[1], (#v[1, 2, 3] : Vector3 Int)[2]]
    : Vector Int 3) = #v[1, 2, 3] := by decide

/-! ### Part 2 — table theorems over the regenerated binding inventory -/

/-- Equality of two lists as sets (the order of items in the source files is irrelevant). -/
def sameSet {α : Type} [DecidableEq α] (a b : List α) : Bool :=
  a.all (b.contains ·) && b.all (a.contains ·)

example : sameSet [1, 2] [2, 1] = true ∧ sameSet [1, 2] [1] = false ∧ sameSet [1] [1, 2] = false := by decide

/-- Documented orientation of the matrix-valued attributes: basis vectors as rows (the stored
matrix has them as columns), rotation / transformation matrices row-major. -/
def expectedOrientation (attr : String) : Option Orientation :=
  if attr = "basis" then some .columnsAsRows
  else if attr = "rotations" ∨ attr = "std_linear" ∨ attr = "prim_std_linear" ∨ attr = "std_rotation_matrix"
  then some .rowMajor
  else none

def isMatrixType (ret : String) : Bool :=
  ret = "[[f64; 3]; 3]" || ret = "[[i32; 3]; 3]" || ret = "Vec<[[i32; 3]; 3]>" || ret = "Vec<[[f64; 3]; 3]>"

def isVectorType (ret : String) : Bool :=
  ret = "[f64; 3]" || ret = "Vec<[f64; 3]>"

/-- A matrix-valued getter follows the convention when its conversion class is one of the
modelled ones and the model's orientation of that class is the documented one of the attribute. -/
def getterFollowsConvention (g : Getter) : Bool :=
  match Conv.ofString? g.conv, expectedOrientation g.attr with
  | some c, some o => c.orientation == o
  | _, _ => false

/-- The matrix-valued getters (recognised by their Rust return type), as (class, attribute). -/
def matrixGetters : List (String × String) :=
  (getters.filter fun g => isMatrixType g.ret).map fun g => (g.cls, g.attr)

/-- [T] Every matrix-valued getter of every class uses a conversion whose model returns the
documented orientation; and the matrix-valued getters are exactly the documented ones (so no
matrix attribute escapes the statement). -/
theorem getter_conventions :
    (getters.all fun g => !isMatrixType g.ret || getterFollowsConvention g) = true ∧
    sameSet matrixGetters
      [("Cell", "basis"), ("CollinearMagneticCell", "basis"), ("NonCollinearMagneticCell", "basis"),
       ("Operations", "rotations"), ("MagneticOperations", "rotations"),
       ("MoyoCollinearMagneticDataset", "std_linear"), ("MoyoCollinearMagneticDataset", "std_rotation_matrix"),
       ("MoyoCollinearMagneticDataset", "prim_std_linear"),
       ("MoyoNonCollinearMagneticDataset", "std_linear"), ("MoyoNonCollinearMagneticDataset", "std_rotation_matrix"),
       ("MoyoNonCollinearMagneticDataset", "prim_std_linear"),
       ("MoyoDataset", "std_linear"), ("MoyoDataset", "std_rotation_matrix"), ("MoyoDataset", "prim_std_linear")] = true := by
  decide

/-- Non-vacuity: the checker is not constantly true — the same getter with the transpose dropped
(`self.0.std_linear.into()`), or a transposing `basis` getter, is rejected. -/
example :
    getterFollowsConvention ⟨"MoyoDataset", "std_linear", "[[f64; 3]; 3]", "transpose_into", "0.std_linear", "", 0⟩ = true ∧
    getterFollowsConvention ⟨"MoyoDataset", "std_linear", "[[f64; 3]; 3]", "into", "0.std_linear", "", 0⟩ = false ∧
    getterFollowsConvention ⟨"Operations", "rotations", "Vec<[[i32; 3]; 3]>", "map_deref_as_ref", "0[].rotation", "", 0⟩ = false ∧
    getterFollowsConvention ⟨"Cell", "basis", "[[f64; 3]; 3]", "transpose_into", "0.lattice.basis", "", 0⟩ = false := by
  decide

/-- Semantic reading of `getter_conventions` through the storage model: for every matrix-valued
getter `g` of the inventory there is a modelled conversion `c` with `g.conv` naming it, such that
for **every** stored matrix `M` the Python value `c.apply M` is `M` row by row — or, for `basis`,
the columns of `M` (the basis vectors) row by row. -/
theorem getter_conventions_semantic {α : Type} (g : Getter) (hg : g ∈ getters)
    (hm : isMatrixType g.ret = true) :
    ∃ c : Conv, Conv.ofString? g.conv = some c ∧ ∀ (M : Matrix3 α) (i j : Fin 3),
      (g.attr = "basis" → (c.apply M)[i][j] = M.get j i) ∧
      (g.attr ≠ "basis" → (c.apply M)[i][j] = M.get i j) := by
  have hall := getter_conventions.1
  rw [List.all_eq_true] at hall
  have h := hall g hg
  rw [hm] at h
  simp only [Bool.not_true, Bool.false_or, getterFollowsConvention] at h
  cases hc : Conv.ofString? g.conv with
  | none => rw [hc] at h; cases h
  | some c =>
    rw [hc] at h
    refine ⟨c, rfl, fun M i j => ?_⟩
    have hs := conv_orientation_sound c M i j
    cases ho : expectedOrientation g.attr with
    | none => rw [ho] at h; cases h
    | some o =>
      rw [ho] at h
      have ho' : c.orientation = o := by simpa using h
      unfold expectedOrientation at ho
      constructor
      · intro hb
        rw [if_pos hb] at ho
        cases ho
        exact hs.2 ho'
      · intro hb
        rw [if_neg hb] at ho
        split at ho
        · cases ho
          exact hs.1 ho'
        · cases ho

/-- Non-vacuity: the hypotheses are satisfiable (a matrix-valued getter is in the inventory). -/
example : ∃ g ∈ getters, isMatrixType g.ret = true ∧ g.attr = "rotations" := by decide

/-- [T] Vector-valued getters (`[f64; 3]`, `Vec<[f64; 3]>`) are plain triples, and they are
exactly the documented ones (origin shifts, translations, positions, non-collinear moments). -/
theorem vector_getters_plain :
    (getters.all fun g => !isVectorType g.ret || isPlainVectorConv g.conv) = true ∧
    sameSet ((getters.filter fun g => isVectorType g.ret).map fun g => (g.cls, g.attr))
      [("Cell", "positions"), ("CollinearMagneticCell", "positions"),
       ("NonCollinearMagneticCell", "positions"), ("NonCollinearMagneticCell", "magnetic_moments"),
       ("Operations", "translations"), ("MagneticOperations", "translations"),
       ("MoyoCollinearMagneticDataset", "std_origin_shift"), ("MoyoCollinearMagneticDataset", "prim_std_origin_shift"),
       ("MoyoNonCollinearMagneticDataset", "std_origin_shift"), ("MoyoNonCollinearMagneticDataset", "prim_std_origin_shift"),
       ("MoyoDataset", "std_origin_shift"), ("MoyoDataset", "prim_std_origin_shift")] = true := by
  decide

example : isPlainVectorConv "vec_into" = true ∧ isPlainVectorConv "transpose_into" = false := by decide

/-- Field a getter is expected to read (last path component), where it is not its own name. -/
def expectedField (attr : String) : String :=
  if attr = "rotations" then "rotation"
  else if attr = "translations" then "translation"
  else if attr = "time_reversals" then "time_reversal"
  else if attr = "positions" then "positions[]"
  else if attr = "magnetic_moments" then "0"
  else attr

/-- The getter reads the field it is named after: `x.std_linear` for `std_linear` (not
`prim_std_linear`), `…basis` for `basis`, `….rotation` of each operation for `rotations`, … ;
`num_atoms`/`num_operations`/`__len__` are calls on the wrapped value itself. -/
def getterReadsOwnField (g : Getter) : Bool :=
  if g.attr = "num_atoms" ∨ g.attr = "num_operations" then g.path == "0"
  else if g.attr = "__len__" then g.conv == "alias_num_operations"
  else if g.attr = "magnetic_moments" then g.path == "0.magnetic_moments[].0"
  else lastComponent g.path == expectedField g.attr

/-- [T] Every getter reads the field it is named after. -/
theorem getters_read_own_field : (getters.all getterReadsOwnField) = true := by decide

/-- Non-vacuity: a copy-paste slip (getter `std_linear` returning `prim_std_linear`) is rejected. -/
example :
    getterReadsOwnField ⟨"MoyoDataset", "std_linear", "[[f64; 3]; 3]", "transpose_into", "0.prim_std_linear", "", 0⟩ = false ∧
    getterReadsOwnField ⟨"MoyoDataset", "std_linear", "[[f64; 3]; 3]", "transpose_into", "0.std_linear", "", 0⟩ = true := by
  decide

def sigOf (cls func : String) : Option (List (String × Bool × String)) :=
  (signatures.find? fun s => s.cls == cls && s.func == func).map
    fun s => s.params.map fun p => (p.name, p.kwOnly, p.default)

/-- [T] Defaults of the Python signatures: `symprec = 1e-4`, `angle_tolerance = None`,
`setting = None`, `mag_symprec = None`, `is_axial = false` for the collinear class and `true` for
the non-collinear class (this is what both the code and the `.pyi` stubs say), all keyword-only;
the structure argument is positional and required. -/
theorem defaults_signatures :
    [sigOf "MoyoDataset" "new", sigOf "MoyoCollinearMagneticDataset" "new",
     sigOf "MoyoNonCollinearMagneticDataset" "new", sigOf "" "operations_from_number",
     sigOf "Cell" "new", sigOf "CollinearMagneticCell" "new", sigOf "NonCollinearMagneticCell" "new"] =
    [some [("cell", false, ""), ("symprec", true, "1e-4"), ("angle_tolerance", true, "None"), ("setting", true, "None")],
     some [("magnetic_cell", false, ""), ("symprec", true, "1e-4"), ("angle_tolerance", true, "None"),
           ("mag_symprec", true, "None"), ("is_axial", true, "false")],
     some [("magnetic_cell", false, ""), ("symprec", true, "1e-4"), ("angle_tolerance", true, "None"),
           ("mag_symprec", true, "None"), ("is_axial", true, "true")],
     some [("number", false, ""), ("setting", true, "None")],
     some [("basis", false, ""), ("positions", false, ""), ("numbers", false, "")],
     some [("basis", false, ""), ("positions", false, ""), ("numbers", false, ""), ("magnetic_moments", false, "")],
     some [("basis", false, ""), ("positions", false, ""), ("numbers", false, ""), ("magnetic_moments", false, "")]] := by
  decide

/-- Non-vacuity: `sigOf` distinguishes signatures (a default of `1e-5` would not satisfy the statement). -/
example : sigOf "MoyoDataset" "new" ≠
    some [("cell", false, ""), ("symprec", true, "1e-5"), ("angle_tolerance", true, "None"), ("setting", true, "None")] := by
  decide

/-- [T] What the constructors do with the defaults: `angle_tolerance = None ↦ AngleTolerance::Default`
(`Some x ↦ Radian x`), `setting = None ↦ Setting::Spglib` (`Some s ↦ s`), `is_axial ↦ Axial / Polar`,
and `symprec`, `mag_symprec` (an `Option`, `None` by default) are passed on unchanged, in the
argument order of `MoyoDataset::new` / `MoyoMagneticDataset::new`. -/
theorem defaults_branches :
    sameSet optBranches
      [⟨"", "operations_from_number", "setting", "setting", "PySetting(Setting::Spglib)"⟩,
       ⟨"MoyoCollinearMagneticDataset", "new", "angle_tolerance", "AngleTolerance::Radian(angle_tolerance)", "AngleTolerance::Default"⟩,
       ⟨"MoyoNonCollinearMagneticDataset", "new", "angle_tolerance", "AngleTolerance::Radian(angle_tolerance)", "AngleTolerance::Default"⟩,
       ⟨"MoyoDataset", "new", "angle_tolerance", "AngleTolerance::Radian(angle_tolerance)", "AngleTolerance::Default"⟩,
       ⟨"MoyoDataset", "new", "setting", "setting.into()", "Setting::Spglib"⟩] = true ∧
    sameSet boolBranches
      [⟨"MoyoCollinearMagneticDataset", "new", "is_axial", "RotationMagneticMomentAction::Axial", "RotationMagneticMomentAction::Polar"⟩,
       ⟨"MoyoNonCollinearMagneticDataset", "new", "is_axial", "RotationMagneticMomentAction::Axial", "RotationMagneticMomentAction::Polar"⟩] = true ∧
    sameSet (calls.filter fun c => c.callee == "MoyoDataset::new" || c.callee == "MoyoMagneticDataset::new")
      [⟨"MoyoCollinearMagneticDataset", "new", "MoyoMagneticDataset::new",
          ["&magnetic_cell.to_owned().into()", "symprec", "angle_tolerance", "mag_symprec", "action"]⟩,
       ⟨"MoyoNonCollinearMagneticDataset", "new", "MoyoMagneticDataset::new",
          ["&magnetic_cell.to_owned().into()", "symprec", "angle_tolerance", "mag_symprec", "action"]⟩,
       ⟨"MoyoDataset", "new", "MoyoDataset::new", ["&cell.to_owned().into()", "symprec", "angle_tolerance", "setting"]⟩] = true ∧
    sameSet ((calls.filter fun c => c.callee == "Lattice::from_basis").map (fun c => (c.cls, c.args)))
      [("Cell", ["basis"]), ("CollinearMagneticCell", ["basis"]), ("NonCollinearMagneticCell", ["basis"])] = true := by
  decide

/-- Non-vacuity: the inventories are not empty (the equalities above are about real rows). -/
example : optBranches.length = 5 ∧ boolBranches.length = 2 ∧ calls.length ≥ 10 := by decide

/-- [T] Every error path ends in `ValueError`: `From<PyMoyoError> for PyErr` builds a
`PyValueError` from the `MoyoError` message; no other pyo3 exception type occurs anywhere in the
bindings; every fallible constructor / function declares `PyMoyoError` or `PyErr`; the length
checks of the three cell constructors raise `PyValueError` before the (panicking) moyo constructors
are reached; table look-ups refuse unknown numbers with a `MoyoError` or a `PyValueError`. -/
theorem errors_are_value_errors :
    errFrom = [⟨"PyMoyoError", "PyErr", "PyValueError", "error.0.to_string()"⟩] ∧
    (excUses.all fun e => e.exc == "PyValueError") = true ∧
    (signatures.all fun s => s.errType == "PyMoyoError" || s.errType == "PyErr") = true ∧
    sameSet validations
      [⟨"Cell", "new", "positions.len()!=numbers.len()", "PyValueError", "\"positions and numbers should be the same length\""⟩,
       ⟨"CollinearMagneticCell", "new", "numbers.len()!=positions.len()", "PyValueError", "\"positions and numbers should be the same length\""⟩,
       ⟨"CollinearMagneticCell", "new", "magnetic_moments.len()!=positions.len()", "PyValueError", "\"positions and magnetic_moments should be the same length\""⟩,
       ⟨"NonCollinearMagneticCell", "new", "numbers.len()!=positions.len()", "PyValueError", "\"positions and numbers should be the same length\""⟩,
       ⟨"NonCollinearMagneticCell", "new", "magnetic_moments.len()!=positions.len()", "PyValueError", "\"positions and magnetic_moments should be the same length\""⟩] = true ∧
    sameSet (refusals.map fun r => (r.cls, r.func, r.expr, r.err))
      [("", "operations_from_number", "setting.0.hall_numbers().get((numberasusize).wrapping_sub(1))", "MoyoError::UnknownNumberError"),
       ("", "operations_from_number", "hall_symbol_entry(hall_number)", "MoyoError::UnknownHallNumberError"),
       ("", "operations_from_number", "HallSymbol::new(entry.hall_symbol)", "MoyoError::HallSymbolParsingError"),
       ("HallSymbolEntry", "new", "hall_symbol_entry(hall_number)", "MoyoError::UnknownHallNumberError"),
       ("MagneticSpaceGroupType", "new", "get_magnetic_space_group_type(uni_number)", "PyValueError::new_err"),
       ("SpaceGroupType", "new", "Setting::Standard.hall_number(number)", "PyValueError::new_err")] = true := by
  decide

/-- Non-vacuity: exception uses exist, and the test rejects another exception type. -/
example : excUses.length ≥ 10 ∧
    (([⟨"PyTypeError", "moyopy/src/base/error.rs", 13⟩] : List ExcUse).all fun e => e.exc == "PyValueError") = false := by
  decide

/-- [T] Inventory of `unwrap()`/`expect(` behind the constructors and functions of the bindings
(each is a potential `PanicException`).  The two in `SpaceGroupType::new` act on table-derived
values.  (The pinned tree had a third one in `operations_from_number`, acting on a caller-supplied
Hall number; it was repaired by a `fix:` commit, see /verif/known_findings.txt.)
Any new site changes this list and sends the check searching. -/
theorem unwrap_inventory :
    sameSet (unwraps.map fun u => (u.cls, u.func, u.expr))
      [("SpaceGroupType", "new", "hall_symbol_entry(ita_hall_number).unwrap()"),
       ("SpaceGroupType", "new", "arithmetic_crystal_class_entry(arithmetic_number).unwrap()")] = true := by
  decide

example : unwraps.length = 2 := by decide

/-- [T] The extension module is `_moyopy`, and every class that has getters or a constructor is
registered in it (so the compared attributes are reachable from Python). -/
theorem module_complete :
    moduleName = "_moyopy" ∧ registeredFunctions = ["operations_from_number"] ∧
    (pyClasses.all fun c =>
      !((getters.any fun g => g.cls == c.py) || (signatures.any fun s => s.cls == c.py))
        || registeredClasses.contains c.rust) = true := by
  decide

/-- Non-vacuity: there are classes with getters, and an unregistered class would be rejected. -/
example : (pyClasses.filter fun c => getters.any fun g => g.cls == c.py).length ≥ 10 ∧
    registeredClasses.contains "PyMagneticCell" = false := by decide

end Moyo.C20
