import Moyo.Spec.Periodic
/-
C06 as a mathematical statement about a case (generator ground truth) and the dataset returned
for it: the standardized cell is exactly in the tabulated setting and exactly symmetric.
Conventions as in `Spec/Periodic.lean`: lattices have the basis vectors as columns, positions are
fractional, `OnSite c y sp r2` = "the point `y` lies on a site of species `sp` of `c`, modulo the
lattice, within squared Cartesian distance `r2`".
-/
namespace Moyo.Spec
open Moyo Moyo.Oracle

namespace C06

/-- The rational matrix `M = prim_std_lat⁻¹ · std_lat` (std_cell basis in terms of the
prim_std_cell basis). -/
def relQ (d : DatasetQ) : QM3 := d.primCell.lat.inv.mul d.stdCell.lat

/-- The integer matrix `Z` nearest to `M` (entrywise `ratRound`). -/
def relZ (d : DatasetQ) : M3 :=
  let M := relQ d
  ⟨ratRound M.a, ratRound M.b, ratRound M.c, ratRound M.d, ratRound M.e, ratRound M.f,
   ratRound M.g, ratRound M.h, ratRound M.i⟩

/-- (f1) Every tabulated operation `(W, w/12)` of the reported Hall number (centering translations
included) maps every std_cell site onto a std_cell site of the same species within `1e-8`
(squared distance `≤ (1e-8)²`). -/
def ExactlySymmetric (d : DatasetQ) : Prop :=
  ∃ conv, convOpsOfHall d.hallNumber.toNat = some conv ∧
    ∀ o ∈ conv, ∀ i, i < d.stdCell.n →
      OnSite d.stdCell ((o.rot.applyQ d.stdCell.pos[i]!).add (o.trans.toQ 12)) d.stdCell.num[i]!
        ((1 / 100000000) * (1 / 100000000))

/-- (f2) std_lat is an integer multiple of prim_std_lat: every entry of `M − Z` lies in
`[-1e-7, 1e-7]`. -/
def IntegerRelation (d : DatasetQ) : Prop :=
  ∀ x ∈ ((relQ d).sub (QM3.ofM3 (relZ d))).toList, -(1 / 10000000 : Rat) ≤ x ∧ x ≤ 1 / 10000000

/-- (f3) `det Z` is the order of the tabulated centering `c` of the Hall number; outside the
monoclinic system `Z` is the tabulated centering matrix itself; std_cell holds `order c` times the
atoms of prim_std_cell. -/
def CenteringRelation (d : DatasetQ) : Prop :=
  ∃ c, centeringOfHall d.hallNumber.toNat = some c ∧
    (QM3.ofM3 (relZ d)).det = (c.order : Rat) ∧
    (isMonoclinic d.hallNumber.toNat = true ∨ QM3.ofM3 (relZ d) = QM3.ofM3 c.linear) ∧
    d.stdCell.n = d.primCell.n * c.order

/-- (f3, integer form) the same with integer determinant and integer matrices. -/
def CenteringRelationZ (d : DatasetQ) : Prop :=
  ∃ c, centeringOfHall d.hallNumber.toNat = some c ∧
    (relZ d).det = (c.order : Int) ∧
    (isMonoclinic d.hallNumber.toNat = true ∨ relZ d = c.linear) ∧
    d.stdCell.n = d.primCell.n * c.order

/-- (f4) prim_std_cell is non-empty and has no non-trivial pure translation: for no site `j ≠ 0`
of the species of site 0 does the translation `x_j − x_0` map every site onto a site of its
species within `symprec`.  (A pure translation of the cell maps site 0 onto some site `j` of the
same species, and is the identity modulo the lattice iff `j = 0` for cells without coincident
sites; so this enumerates all candidates.) -/
def PrimitiveNoTranslation (d : DatasetQ) : Prop :=
  let P := d.primCell
  P.n ≠ 0 ∧
  ∀ j, j < P.n → j ≠ 0 → P.num[j]! = P.num[0]! →
    ¬ ∀ i, i < P.n →
      OnSite P (P.pos[i]!.add (P.pos[j]!.sub P.pos[0]!)) P.num[i]! (d.symprec * d.symprec)

/-- (f5) For undistorted input the std_cell basis is upper triangular (a along x, b in the
xy-plane): the three sub-diagonal entries of the lattice matrix vanish within
`1e-8 · (1 + max|entry|)`. -/
def UpperTriangular (cs : CaseQ) (d : DatasetQ) : Prop :=
  cs.truth.noisy = false →
    let L := d.stdCell.lat
    let b : Rat := (1 / 100000000) * (1 + L.maxAbs)
    (-b ≤ L.d ∧ L.d ≤ b) ∧ (-b ≤ L.g ∧ L.g ≤ b) ∧ (-b ≤ L.h ∧ L.h ≤ b)

/-- (f6) The Pearson symbol is the Bravais class of the Hall number followed by the number of
atoms of std_cell. -/
def PearsonSymbol (d : DatasetQ) : Prop :=
  ∃ b, bravaisOfHall d.hallNumber.toNat = some b ∧ d.pearson = s!"{b}{d.stdCell.n}"

end C06

/-- C06 without the clause that needs the completeness of the periodic search
(`C06.PrimitiveNoTranslation`, see `Moyo.C06.checkC06_f4_sound`). -/
def C06 (cs : CaseQ) (d : DatasetQ) : Prop :=
  C06.ExactlySymmetric d ∧ C06.IntegerRelation d ∧ C06.CenteringRelation d ∧
  C06.UpperTriangular cs d ∧ C06.PearsonSymbol d

/-- All clauses of C06. -/
def C06Full (cs : CaseQ) (d : DatasetQ) : Prop :=
  C06 cs d ∧ C06.PrimitiveNoTranslation d

end Moyo.Spec
