import Moyo.Model.MagOracle
/-
C12 as a statement about a magnetic case and the dataset returned for it: the returned UNI number is
the one the generated structure has.
-/
namespace Moyo.Spec
open Moyo Moyo.MagOracle Moyo.Generated

/-- The returned UNI number is the expected one: the UNI number of the generating magnetic space group
(whatever the description: re-based, shifted, rotated, permuted, supercell, all moments reversed),
and, for a structure whose moments are all zero, the grey (construct type 2) entry whose ITA number is
that of the family space group of the generating entry. -/
def C12 (cs : MagCaseQ) (d : MagDatasetQ) : Prop :=
  ∃ u : Nat, expectedUni cs.truth = some u ∧ d.uni = (u : Int)

/-- `u` is a grey group of ITA number `n` according to the regenerated table. -/
def IsGreyOf (n u : Nat) : Prop :=
  ∃ e ∈ magTypeTableList, e.uniNumber = u ∧ e.number = n ∧ e.constructType = 2

end Moyo.Spec
