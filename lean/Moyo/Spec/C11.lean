import Moyo.Spec.Periodic
import Moyo.Model.MagOracle
/-
C11 as mathematical statements about a magnetic case (input magnetic cell, moment kind, action) and
the `MoyoMagneticDataset` returned for it.
Notation: `A` input basis (columns), `xᵢ`/`zᵢ`/`mᵢ` position / species / moment of input atom `i`
(a collinear moment `m` is the vector `(m,0,0)`), `r2 = (4·symprec)²`, `mr2 = (4·mag_symprec)²` with
the *returned* tolerances.
-/
namespace Moyo.Spec
open Moyo Moyo.Oracle Moyo.MagOracle

/-- The fractional point `y` lies, modulo the lattice and within squared distance `r2`, on a site of
the magnetic cell that carries species `sp` and a moment within squared distance `mr2` of `m'`
(Euclidean norm for non-collinear moments; for collinear `(m,0,0)` this is `|m − m'|² ≤ mr2`). -/
def OnMagSite (mc : MagCellQ) (y : Q3) (sp : Int) (m' : Q3) (r2 mr2 : Rat) : Prop :=
  ∃ j, j < mc.cell.n ∧ mc.cell.num[j]! = sp ∧ PeriodicWithin mc.cell.lat (y.sub mc.cell.pos[j]!) r2 ∧
    ((mc.mom[j]!).sub m').normSq ≤ mr2

/-- Every reported magnetic operation `(R, t, θ)` has `det R = ±1` and carries every atom `i` onto an
atom of the same species within `4·symprec` whose moment equals
`θ · (det R)^{[axial]} · (A R A⁻¹) mᵢ` (collinear: `θ · (det R)^{[axial]} · mᵢ`) within `4·mag_symprec`. -/
def C11symmetry (cs : MagCaseQ) (d : MagDatasetQ) : Prop :=
  ∀ o ∈ d.ops.toList,
    (o.rot.det = 1 ∨ o.rot.det = -1) ∧
    ∀ i, i < cs.mc.cell.n →
      OnMagSite cs.mc (mopAct o cs.mc.cell.pos[i]!) cs.mc.cell.num[i]!
        (momentAct cs.collinear cs.axial (cartRot cs.mc.cell.lat o.rot) o.rot.det o.tr cs.mc.mom[i]!)
        ((4 * d.symprec) * (4 * d.symprec)) ((4 * d.magSymprec) * (4 * d.magSymprec))

/-- Same time-reversal flag, same rotation part, translation parts equal modulo `ℤ³` within `r2`. -/
def MOpNear (A : QM3) (r2 : Rat) (p q : MOpQ) : Prop :=
  p.tr = q.tr ∧ p.rot = q.rot ∧ PeriodicWithin A (p.trans.sub q.trans) r2

/-- `o` is, modulo lattice translations and within `r2`, one of the magnetic operations in `ops`. -/
def MReported (A : QM3) (r2 : Rat) (ops : Array MOpQ) (o : MOpQ) : Prop :=
  ∃ p ∈ ops.toList, MOpNear A r2 p o

/-- The identity without time reversal. -/
def idMOp : MOpQ := ⟨M3.one, Q3.zero, false⟩

/-- Same flag and rotation, translations equal modulo `ℤ³` up to `tiny` per fractional coordinate. -/
def MSameModLattice (tiny : Rat) (p q : MOpQ) : Prop :=
  p.tr = q.tr ∧ p.rot = q.rot ∧ ∃ n : Z3,
    rabs (p.trans.x - q.trans.x - n.x) < tiny ∧ rabs (p.trans.y - q.trans.y - n.y) < tiny ∧
    rabs (p.trans.z - q.trans.z - n.z) < tiny

/-- Group axioms modulo lattice translations, time reversal composing by xor (`mopMul`): the identity
is reported; no two reported operations coincide modulo `ℤ³`; all products are reported; every
operation has a reported right inverse. -/
def C11group (cs : MagCaseQ) (d : MagDatasetQ) : Prop :=
  let A := cs.mc.cell.lat
  let r2 := (4 * d.symprec) * (4 * d.symprec)
  MReported A r2 d.ops idMOp ∧
  (∀ i j, j < i → i < d.ops.size → ¬ MSameModLattice (1 / 1000000) d.ops[j]! d.ops[i]!) ∧
  (∀ a ∈ d.ops.toList, ∀ b ∈ d.ops.toList, MReported A r2 d.ops (mopMul a b)) ∧
  (∀ a ∈ d.ops.toList, ∃ p ∈ d.ops.toList, MOpNear A r2 (mopMul a p) idMOp)

/-- The time-reversal-free operations are all of the reported operations or exactly half of them. -/
def C11index (d : MagDatasetQ) : Prop :=
  (d.ops.toList.filter fun o => o.tr == false).length = d.ops.size ∨
  2 * (d.ops.toList.filter fun o => o.tr == false).length = d.ops.size

/-- Equality with the independently constructed magnetic group (`MagOracle.expectedMagOps`, the
generating group conjugated by the recorded re-description): nothing missed, nothing invented, same
count. -/
def C11complete (cs : MagCaseQ) (d : MagDatasetQ) : Prop :=
  let A := cs.mc.cell.lat
  let r2 := (4 * d.symprec) * (4 * d.symprec)
  ∃ exp, expectedMagOps cs.truth = some exp ∧
    (∀ e ∈ exp, MReported A r2 d.ops e) ∧
    (∀ o ∈ d.ops.toList, ∃ e ∈ exp, MOpNear A r2 e o) ∧
    exp.length = d.ops.size

structure C11 (cs : MagCaseQ) (d : MagDatasetQ) : Prop where
  symmetry : C11symmetry cs d
  group : C11group cs d
  index : C11index d
  complete : C11complete cs d

end Moyo.Spec
