import Moyo.Model.Oracle
/-
Prop-valued vocabulary shared by the pipeline specifications (C01, C02, C05, C06):
periodic (minimum-image) Cartesian distance, "a point lies on a site of a given species", and the
window hypothesis under which the executable box search of `Oracle.withinPeriodic` is exhaustive.
Conventions: `A : QM3` has the basis vectors as columns, so `A.apply x` is the Cartesian image of
the fractional vector `x`; `Q3.normSq` is the squared Euclidean norm.
-/
namespace Moyo.Spec
open Moyo Moyo.Oracle

/-- Some lattice translate of the fractional vector `d` has squared Cartesian length `≤ r2`:
`∃ n ∈ ℤ³, |A (d + n)|² ≤ r2`. -/
def PeriodicWithin (A : QM3) (d : Q3) (r2 : Rat) : Prop :=
  ∃ n : Z3, (A.apply ⟨d.x + n.x, d.y + n.y, d.z + n.z⟩).normSq ≤ r2

/-- The fractional point `y` lies, modulo the lattice and within squared distance `r2`, on a site
of cell `c` that carries species `sp`. -/
def OnSite (c : CellQ) (y : Q3) (sp : Int) (r2 : Rat) : Prop :=
  ∃ j, j < c.n ∧ c.num[j]! = sp ∧ PeriodicWithin c.lat (y.sub c.pos[j]!) r2

/-- Window hypothesis for completeness of the box search: the radius is smaller than 64 lattice
planes along each axis (`r2 · |row_i A⁻¹|² < 64²`).  `axisCands` scans 64 integers to each side of
the nearest one; under this hypothesis nothing lies outside the scanned window. -/
def Window (A : QM3) (r2 : Rat) : Prop :=
  r2 * (ginvDiag A).x < 4096 ∧ r2 * (ginvDiag A).y < 4096 ∧ r2 * (ginvDiag A).z < 4096

end Moyo.Spec
