import Moyo.Spec.Periodic
import Moyo.Model.OracleWyckoff
/-
C07 as a mathematical statement about a case (input cell + generator ground truth) and the dataset
returned for it.  Notation: `n` input atoms, `h` the reported Hall number, `ops` its tabulated
conventional operations `(W, w/12)` (centring translations included), `S = std_cell`,
`yᵢ = std_linear⁻¹ (xᵢ − std_origin_shift)`, `r2 = (4·symprec)²`, `ε2 = (1e-6)²`.
-/
namespace Moyo.Spec
open Moyo Moyo.Oracle Moyo.Wyckoff Moyo.Generated

/-- Labelling clauses (decided by `Oracle.checkC07orbits` against the generator's orbit ids, which are
the classes of the generating space group: atoms generated from one point by its operations). -/
structure C07Labels (cs : CaseQ) (d : DatasetQ) : Prop where
  sizes : d.orbits.size = cs.cell.n ∧ d.wyck.size = cs.cell.n ∧ d.siteSym.size = cs.cell.n
  /-- same label ⇔ equivalent in the generating group -/
  same_iff : ∀ i j, i < cs.cell.n → j < cs.cell.n →
    (d.orbits[i]! = d.orbits[j]! ↔ cs.truth.orbit[i]! = cs.truth.orbit[j]!)
  /-- the label is an atom of the class, labelled by itself, and the smallest index carrying it -/
  label_least : ∀ i, i < cs.cell.n →
    d.orbits[i]! ≤ i ∧ d.orbits[d.orbits[i]!]! = d.orbits[i]! ∧ ∀ j, d.orbits[j]! = d.orbits[i]! → d.orbits[i]! ≤ j
  /-- letter and symbol are constant on classes -/
  constant : ∀ i, i < cs.cell.n →
    d.wyck[i]! = d.wyck[d.orbits[i]!]! ∧ d.siteSym[i]! = d.siteSym[d.orbits[i]!]!

namespace C07

/-- Input atom `i` is carried by `x ↦ std_linear⁻¹ (x − shift)` onto std_cell site `j` (same species,
within `4·symprec`, modulo the lattice). -/
def LandsOn (cs : CaseQ) (d : DatasetQ) (i j : Nat) : Prop :=
  j < d.stdCell.n ∧ d.stdCell.num[j]! = cs.cell.num[i]! ∧
    PeriodicWithin d.stdCell.lat
      ((d.stdLinear.inv.apply (cs.cell.pos[i]!.sub d.stdShift)).sub d.stdCell.pos[j]!)
      ((4 * d.symprec) * (4 * d.symprec))

/-- The image of std_cell site `j` under `g`, minus site `j'`. -/
def siteDiff (d : DatasetQ) (g : HOp) (j j' : Nat) : Q3 :=
  ((g.rot.applyQ d.stdCell.pos[j]!).add (g.trans.toQ 12)).sub d.stdCell.pos[j']!

/-- Order of the stabilizer of std_cell site `j` computed directly in std_cell: the number of
tabulated operations `g` with `g·s ≡ s` modulo the lattice within `1e-6` (`stabilizer_mem_iff` in
`Props/C07.lean` turns the executable count into the `PeriodicWithin` statement). -/
def stabOrder (d : DatasetQ) (ops : List HOp) (j : Nat) : Nat :=
  stabilizerCount d.stdCell.lat (ginvDiag d.stdCell.lat) ops d.stdCell.pos[j]! tinyEps2

/-- The point `q` lies, modulo ℤ³ and within squared Cartesian distance `r2`, on the coordinate
subspace `{L y + o}` of a tabulated position. -/
def OnSubspace (A : QM3) (sp : Space) (q : Q3) (r2 : Rat) : Prop :=
  ∃ (n : Z3) (y : Q3), (A.apply (((sp.point y).sub q).sub ⟨(n.x : Rat), (n.y : Rat), (n.z : Rat)⟩)).normSq ≤ r2

/-- The clauses of C07 about input atom `i` (names follow `Model/OracleWyckoff.lean`). -/
structure Atom (cs : CaseQ) (d : DatasetQ) (ops : List HOp) (cen : Centering) (i : Nat) : Prop where
  clauses : ∃ (j : Nat) (row : WyckoffEntry) (k : Nat),
    LandsOn cs d i j ∧
    rowOfLetter? d.hallNumber.toNat d.wyck[i]! = some row ∧
    -- (W1) tabulated multiplicity of the letter = #operations / |Stab|
    row.multiplicity * stabOrder d ops j = ops.length ∧
    -- (W2) the point group named by the symbol has order |Stab|; the symbol is the letter's
    siteSymmetryOrder? d.siteSym[i]! = some k ∧ k = stabOrder d ops j ∧
    d.siteSym[i]! = row.siteSymmetry ∧
    -- (W3) some atom of the orbit (translated by a centring vector) lies on the tabulated subspace
    (∃ (k' j' : Nat) (c : Q3) (sp : Space), k' < cs.cell.n ∧ d.orbits[k']! = d.orbits[i]! ∧ LandsOn cs d k' j' ∧
      c ∈ centeringShifts cen ∧ Space.new? row.coordinates = some sp ∧
      OnSubspace d.stdCell.lat sp (d.stdCell.pos[j']!.add c) ((4 * d.symprec) * (4 * d.symprec))) ∧
    -- (W0a) the atom is equivalent to its label atom under a tabulated operation, same species
    (d.orbits[i]! < cs.cell.n ∧ cs.cell.num[d.orbits[i]!]! = cs.cell.num[i]! ∧
      ∃ (jl : Nat) (g : HOp), LandsOn cs d d.orbits[i]! jl ∧ g ∈ ops ∧
        PeriodicWithin d.stdCell.lat (siteDiff d g jl j) ((4 * d.symprec) * (4 * d.symprec))) ∧
    -- (W4) agreement with the generator's Wyckoff row, per operation (settings may differ)
    (0 ≤ cs.truth.wyck[i]! → ∃ trow, wyckoffTable[(cs.truth.wyck[i]!).toNat]? = some trow ∧
      trow.hallNumber = cs.truth.hall ∧
      row.multiplicity * nopsOfHall cs.truth.hall = trow.multiplicity * ops.length ∧
      siteSymmetryOrder? trow.siteSymmetry = some k)

/-- (W0b) the std_cell sites of two different label atoms of one species are related by no
tabulated operation (no `g` with `g·s₁ ≡ s₂` within `1e-6`). -/
def LabelsSeparated (cs : CaseQ) (d : DatasetQ) (ops : List HOp) : Prop :=
  ∀ l1 l2, l1 < l2 → l2 < cs.cell.n → d.orbits[l1]! = l1 → d.orbits[l2]! = l2 →
    cs.cell.num[l1]! = cs.cell.num[l2]! →
    ∃ j1 j2, LandsOn cs d l1 j1 ∧ LandsOn cs d l2 j2 ∧
      ∀ g ∈ ops, ¬ PeriodicWithin d.stdCell.lat (siteDiff d g j1 j2) tinyEps2

/-- (W5) same label ⇔ related by a tabulated operation, through the label atoms: for every label atom
`l` and every atom `j` of its species, `orbits[j] = l` exactly when the exact site search from the
images `g·s_l` (all tabulated operations `g` of the reported Hall number, within `4·symprec`) returns
the std_cell site of `j`.  `Props/C07.lean` turns membership in `siteImages` into
`∃ g, g·s_l ≡ s_j` (`siteImages_mem_sound`; conversely `siteImages_mem_complete` when like sites of
std_cell are separated by more than the tolerance). -/
def LabelsMatchOps (cs : CaseQ) (d : DatasetQ) (ops : List HOp) : Prop :=
  ∀ l j, l < cs.cell.n → j < cs.cell.n → d.orbits[l]! = l → cs.cell.num[l]! = cs.cell.num[j]! →
    ∃ sl sj, LandsOn cs d l sl ∧ LandsOn cs d j sj ∧
      (d.orbits[j]! = l ↔ sj ∈ siteImages d ops sl ((4 * d.symprec) * (4 * d.symprec)))

end C07

/-- The Wyckoff clauses of C07. -/
structure C07Wyckoff (cs : CaseQ) (d : DatasetQ) : Prop where
  spec : ∃ (ops : List HOp) (cen : Centering),
    convOps d.hallNumber.toNat = some ops ∧ centeringOfHall d.hallNumber.toNat = some cen ∧
    (∀ i, i < cs.cell.n → C07.Atom cs d ops cen i) ∧ C07.LabelsSeparated cs d ops ∧
    C07.LabelsMatchOps cs d ops

end Moyo.Spec
