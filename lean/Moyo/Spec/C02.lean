import Moyo.Spec.Periodic
/-
C02 as mathematical statements about a case and the dataset returned for it: the reported
operations form a group modulo lattice translations, and they are exactly the expected ones.
-/
namespace Moyo.Spec
open Moyo Moyo.Oracle

/-- `p` and `q` have the same rotation part and their translation parts agree modulo `ℤ³` within
squared Cartesian distance `r2` (in the cell with basis `A`). -/
def OpNear (A : QM3) (r2 : Rat) (p q : OpQ) : Prop :=
  p.rot = q.rot ∧ PeriodicWithin A (p.trans.sub q.trans) r2

/-- `o` is, modulo lattice translations and within `r2`, one of the operations in `ops`. -/
def Reported (A : QM3) (r2 : Rat) (ops : Array OpQ) (o : OpQ) : Prop :=
  ∃ p ∈ ops.toList, OpNear A r2 p o

/-- Same rotation part, and translation parts equal modulo `ℤ³` up to `tiny` in every fractional
coordinate. -/
def SameModLattice (tiny : Rat) (p q : OpQ) : Prop :=
  p.rot = q.rot ∧ ∃ n : Z3,
    rabs (p.trans.x - q.trans.x - n.x) < tiny ∧ rabs (p.trans.y - q.trans.y - n.y) < tiny ∧
    rabs (p.trans.z - q.trans.z - n.z) < tiny

/-- The identity `(1, 0)`. -/
def idOp : OpQ := ⟨M3.one, Q3.zero⟩

/-- Group axioms modulo lattice translations, with closure required for all left factors and
those right factors `ops[j]` whose index satisfies `rights j`:
identity present; no two reported operations equal modulo `ℤ³` (1e-6); products reported; every
operation has a reported right inverse (`a ∘ p ≈ 1`). Tolerance `(4·symprec)²`. -/
def C02groupOn (cs : CaseQ) (d : DatasetQ) (rights : Nat → Prop) : Prop :=
  let A := cs.cell.lat
  let r2 := (4 * d.symprec) * (4 * d.symprec)
  Reported A r2 d.ops idOp ∧
  (∀ i j, j < i → i < d.ops.size → ¬ SameModLattice (1 / 1000000) d.ops[j]! d.ops[i]!) ∧
  (∀ a ∈ d.ops.toList, ∀ j, j < d.ops.size → rights j → Reported A r2 d.ops (opMul a d.ops[j]!)) ∧
  (∀ a ∈ d.ops.toList, ∃ p ∈ d.ops.toList, OpNear A r2 (opMul a p) idOp)

/-- The full group statement: closure for all pairs. -/
def C02group (cs : CaseQ) (d : DatasetQ) : Prop :=
  let A := cs.cell.lat
  let r2 := (4 * d.symprec) * (4 * d.symprec)
  Reported A r2 d.ops idOp ∧
  (∀ i j, j < i → i < d.ops.size → ¬ SameModLattice (1 / 1000000) d.ops[j]! d.ops[i]!) ∧
  (∀ a ∈ d.ops.toList, ∀ b ∈ d.ops.toList, Reported A r2 d.ops (opMul a b)) ∧
  (∀ a ∈ d.ops.toList, ∃ p ∈ d.ops.toList, OpNear A r2 (opMul a p) idOp)

/-- Completeness against the independently constructed group (`Oracle.expectedOps`, characterised
by `OracleP.expectedOps_conj`): nothing missed, nothing invented, same count; and the number of
reported pure translations is the index of the primitive cell. -/
def C02complete (cs : CaseQ) (d : DatasetQ) : Prop :=
  let A := cs.cell.lat
  let r2 := (4 * d.symprec) * (4 * d.symprec)
  (∃ exp, expectedOps cs.truth = some exp ∧
    (∀ e ∈ exp, Reported A r2 d.ops e) ∧
    (∀ o ∈ d.ops.toList, ∃ e ∈ exp, OpNear A r2 e o) ∧
    exp.length = d.ops.size) ∧
  d.primCell.n * (d.ops.toList.filter fun o => o.rot == M3.one).length = cs.cell.n

end Moyo.Spec
