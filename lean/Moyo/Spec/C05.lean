import Moyo.Spec.Periodic
/-
C05 as a mathematical statement about a case (input cell) and the dataset returned for it:
"the standardized cells are the same crystal under the reported transformation".
Notation: `A` input basis (columns), `n` number of input atoms, `xᵢ`/`zᵢ` position / species of
input atom `i`, `(L, s) = (stdLinear, stdShift)`, `(P, p) = (primLinear, primShift)`,
`Q = stdRot`, `r2 = (4·symprec)²`, `tol = 10⁻⁹`.
-/
namespace Moyo.Spec
open Moyo Moyo.Oracle

/-- Every entry of `M − N` lies in `[-β, β]`, `β = tol · (1 + maxAbs N)` (relative entrywise
closeness; `QM3.maxAbs` is the largest absolute entry). -/
def EntriesClose (M N : QM3) (tol : Rat) : Prop :=
  ∀ x ∈ (M.sub N).toList, -(tol * (1 + N.maxAbs)) ≤ x ∧ x ≤ tol * (1 + N.maxAbs)

/-- No two distinct atoms of the same species of `c` lie (periodically) within squared distance
`r2` of one and the same point. -/
def Separated (c : CellQ) (r2 : Rat) : Prop :=
  ∀ (y : Q3) (j j' : Nat), j < c.n → j' < c.n → c.num[j]! = c.num[j']! →
    PeriodicWithin c.lat (y.sub c.pos[j]!) r2 → PeriodicWithin c.lat (y.sub c.pos[j']!) r2 → j = j'

/-- The clauses of C05 (names follow the failure lists `f1 … f8` of `Oracle.checkC05`). -/
structure C05 (cs : CaseQ) (d : DatasetQ) : Prop where
  /-- (f1) `Q` is orthogonal: every entry of `QᵀQ − 1` lies in `[-2·tol, 2·tol]` … -/
  rot_orthogonal : ∀ x ∈ ((d.stdRot.transpose.mul d.stdRot).sub QM3.one).toList,
    -(2 / 1000000000 : Rat) ≤ x ∧ x ≤ 2 / 1000000000
  /-- … and proper: `det Q > 0`. -/
  rot_proper : d.stdRot.det > 0
  /-- (f2) `Q · A · L` is the lattice of `std_cell` (entrywise, relative `tol`). -/
  std_lattice : EntriesClose ((d.stdRot.mul cs.cell.lat).mul d.stdLinear) d.stdCell.lat (1 / 1000000000)
  /-- (f3) `Q · A · P` is the lattice of `prim_std_cell`. -/
  prim_lattice : EntriesClose ((d.stdRot.mul cs.cell.lat).mul d.primLinear) d.primCell.lat (1 / 1000000000)
  /-- (f4) every input atom is carried by `x ↦ L⁻¹ (x − s)` onto a `std_cell` site of its species. -/
  input_lands : ∀ i, i < cs.cell.n →
    OnSite d.stdCell (d.stdLinear.inv.apply (cs.cell.pos[i]!.sub d.stdShift)) cs.cell.num[i]!
      ((4 * d.symprec) * (4 * d.symprec))
  /-- (f5) every `std_cell` site is reached: its pre-image `L y + s` is an input atom of its species. -/
  std_reached : ∀ j, j < d.stdCell.n →
    OnSite cs.cell ((d.stdLinear.apply d.stdCell.pos[j]!).add d.stdShift) d.stdCell.num[j]!
      ((4 * d.symprec) * (4 * d.symprec))
  /-- (f6) `std_cell` holds `n · |det L|` atoms. -/
  atom_count : rabs ((d.stdCell.n : Rat) - (cs.cell.n : Rat) * rabs d.stdLinear.det) ≤ 1 / 1000
  /-- (f7) the primitive transformation carries atom `i` onto exactly the site `mapping_std_prim[i]`. -/
  prim_mapping : ∀ i, i < cs.cell.n → ∃ j, d.mapping[i]? = some j ∧ j < d.primCell.n ∧
    d.primCell.num[j]! = cs.cell.num[i]! ∧
    PeriodicWithin d.primCell.lat
      ((d.primLinear.inv.apply (cs.cell.pos[i]!.sub d.primShift)).sub d.primCell.pos[j]!)
      ((4 * d.symprec) * (4 * d.symprec))
  /-- (f8, ⇐) every translate of atom `i` by a reported pure translation is an atom of the same
  species with the same primitive site. -/
  translate_same_site : ∀ i, i < cs.cell.n → ∀ t ∈ d.ops.toList, t.rot = M3.one →
    ∃ j, j < cs.cell.n ∧ cs.cell.num[j]! = cs.cell.num[i]! ∧
      PeriodicWithin cs.cell.lat ((cs.cell.pos[i]!.add t.trans).sub cs.cell.pos[j]!)
        ((4 * d.symprec) * (4 * d.symprec)) ∧
      d.mapping[j]? = d.mapping[i]?
  /-- (f8, ⇒) every atom with the primitive site of atom `i` is a translate of atom `i` by a
  reported pure translation. -/
  same_site_translate : ∀ i, i < cs.cell.n → ∀ j, j < cs.cell.n → d.mapping[j]? = d.mapping[i]? →
    ∃ t ∈ d.ops.toList, t.rot = M3.one ∧ cs.cell.num[j]! = cs.cell.num[i]! ∧
      PeriodicWithin cs.cell.lat ((cs.cell.pos[i]!.add t.trans).sub cs.cell.pos[j]!)
        ((4 * d.symprec) * (4 * d.symprec))

end Moyo.Spec
