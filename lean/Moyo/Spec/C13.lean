import Moyo.Spec.C05
import Moyo.Spec.C11
/-
C13 as a mathematical statement about a magnetic case and the dataset returned for it: the
standardized magnetic cells are the same magnetic crystal as the input under the reported
transformation, and `std_mag_cell` is exactly symmetric and in the tabulated (BNS) setting.
Notation: `A` input basis, `xᵢ`/`zᵢ`/`mᵢ` position / species / moment of input atom `i`,
`(L, s) = (stdLinear, stdShift)`, `(P, p) = (primLinear, primShift)`, `Q = stdRot`,
`r2 = (4·symprec)²`, `mr2 = (4·mag_symprec)²`, `e2 = (10⁻⁸)²`, `tol = 10⁻⁹`;
`Q·m` is the input moment rotated into the standardized frame (`Q` is proper, so this is the action
for polar and axial moments alike; collinear moments are frame independent).
-/
namespace Moyo.Spec
open Moyo Moyo.Oracle Moyo.MagOracle Moyo.Generated

/-- `(W, w)` carries every site of `c` onto a site of the same species within `e2` (positions only). -/
def PosInvariant (c : CellQ) (W : QM3) (w : Q3) (e2 : Rat) : Prop :=
  ∀ i, i < c.n → OnSite c ((W.apply c.pos[i]!).add w) c.num[i]! e2

/-- The magnetic operation `(W, w, θ)` (rational linear part `W` with determinant `det`, acting in the
cell's own frame through `S W S⁻¹`) carries every site of the magnetic cell onto a site of the same
species within `e2` whose moment is the transformed moment within `me2`. -/
def MagInvariant (mc : MagCellQ) (collinear axial : Bool) (W : QM3) (w : Q3) (det : Int) (tr : Bool)
    (e2 me2 : Rat) : Prop :=
  ∀ i, i < mc.cell.n →
    OnMagSite mc ((W.apply mc.cell.pos[i]!).add w) mc.cell.num[i]!
      (momentAct collinear axial (cartOf mc.cell.lat W) det tr mc.mom[i]!) e2 me2

/-- The clauses of C13 (names follow the failure lists `f1 … f9` of `MagOracle.checkC13core`). -/
structure C13 (cs : MagCaseQ) (d : MagDatasetQ) : Prop where
  /-- (f1) `Q` is orthogonal (entries of `QᵀQ − 1` within `2·tol`) and proper. -/
  rot_orthogonal : ∀ x ∈ ((d.stdRot.transpose.mul d.stdRot).sub QM3.one).toList,
    -(2 / 1000000000 : Rat) ≤ x ∧ x ≤ 2 / 1000000000
  rot_proper : d.stdRot.det > 0
  /-- (f2), (f3) lattice relations of the non-magnetic case. -/
  std_lattice : EntriesClose ((d.stdRot.mul cs.mc.cell.lat).mul d.stdLinear) d.std.cell.lat (1 / 1000000000)
  prim_lattice : EntriesClose ((d.stdRot.mul cs.mc.cell.lat).mul d.primLinear) d.prim.cell.lat (1 / 1000000000)
  /-- (f4) every input atom is carried by `x ↦ L⁻¹ (x − s)` onto a `std_mag_cell` site of its species
  whose moment equals the input moment rotated by `Q`. -/
  input_lands : ∀ i, i < cs.mc.cell.n →
    OnMagSite d.std (d.stdLinear.inv.apply (cs.mc.cell.pos[i]!.sub d.stdShift)) cs.mc.cell.num[i]!
      (rotMoment cs.collinear d.stdRot cs.mc.mom[i]!)
      ((4 * d.symprec) * (4 * d.symprec)) ((4 * d.magSymprec) * (4 * d.magSymprec))
  /-- (f5) every `std_mag_cell` site is reached: its pre-image `L y + s` is an input atom of its species
  whose rotated moment is the site's moment. -/
  std_reached : ∀ j, j < d.std.cell.n → ∃ i, i < cs.mc.cell.n ∧ cs.mc.cell.num[i]! = d.std.cell.num[j]! ∧
    PeriodicWithin cs.mc.cell.lat
      (((d.stdLinear.apply d.std.cell.pos[j]!).add d.stdShift).sub cs.mc.cell.pos[i]!)
      ((4 * d.symprec) * (4 * d.symprec)) ∧
    ((rotMoment cs.collinear d.stdRot cs.mc.mom[i]!).sub d.std.mom[j]!).normSq ≤
      (4 * d.magSymprec) * (4 * d.magSymprec)
  /-- (f6) `std_mag_cell` holds `n · |det L|` atoms. -/
  atom_count : rabs ((d.std.cell.n : Rat) - (cs.mc.cell.n : Rat) * rabs d.stdLinear.det) ≤ 1 / 1000
  /-- (f7) the primitive transformation carries atom `i` onto exactly the site `mapping_std_prim[i]`,
  which carries the rotated moment. -/
  prim_mapping : ∀ i, i < cs.mc.cell.n → ∃ j, d.mapping[i]? = some j ∧ j < d.prim.cell.n ∧
    d.prim.cell.num[j]! = cs.mc.cell.num[i]! ∧
    PeriodicWithin d.prim.cell.lat
      ((d.primLinear.inv.apply (cs.mc.cell.pos[i]!.sub d.primShift)).sub d.prim.cell.pos[j]!)
      ((4 * d.symprec) * (4 * d.symprec)) ∧
    ((d.prim.mom[j]!).sub (rotMoment cs.collinear d.stdRot cs.mc.mom[i]!)).normSq ≤
      (4 * d.magSymprec) * (4 * d.magSymprec)
  /-- (f8) exact symmetry: every reported magnetic operation, carried into the standardized cell by
  `(L, s)`, maps `std_mag_cell` — positions and moments — onto itself (`10⁻⁸`). -/
  reported_symmetric : ∀ o ∈ d.ops.toList,
    MagInvariant d.std cs.collinear cs.axial
      (carryOp d.stdLinear d.stdLinear.inv d.stdShift o.rot o.trans).1
      (carryOp d.stdLinear d.stdLinear.inv d.stdShift o.rot o.trans).2 o.rot.det o.tr
      ((1 / 100000000) * (1 / 100000000)) ((1 / 100000000) * (1 / 100000000))
  /-- (f9) the reported UNI number has a table entry `e`; every tabulated operation of the reference
  space-group setting (Standard setting of `e.number`) maps the atoms of `std_mag_cell` onto atoms;
  and, unless `e` is a type-IV group of the triclinic or monoclinic system, every tabulated magnetic
  operation of the reported UNI number maps positions and moments onto themselves. -/
  tabulated_symmetric : ∃ e, magTypeOf d.uni = some e ∧
    (∃ conv, refConvOps e.number = some conv ∧ ∀ o ∈ conv,
      PosInvariant d.std.cell (QM3.ofM3 o.rot) (o.trans.toQ 12) ((1 / 100000000) * (1 / 100000000))) ∧
    (exceptedEntry e = false → ∃ conv, magConvOpsOfUni d.uni.toNat = some conv ∧ ∀ o ∈ conv,
      MagInvariant d.std cs.collinear cs.axial (QM3.ofM3 o.rot) (o.trans.toQ 12) o.rot.det o.tr
        ((1 / 100000000) * (1 / 100000000)) ((1 / 100000000) * (1 / 100000000)))

end Moyo.Spec
