import Moyo.Spec.Periodic
/-
C01 as a mathematical statement about a case (input cell) and the dataset returned for it.
-/
namespace Moyo.Spec
open Moyo Moyo.Oracle

/-- Every reported operation `(N, t)` (fractional, input basis `A`):
* `det N = ±1`;
* the Cartesian operator `Q = A N A⁻¹` is orthogonal within the tolerance actually used:
  every entry of `QᵀQ − 1` lies in `[-β, β]`, `β = angleBound symprec angtol (diag (AᵀA)⁻¹)`
  (`QM3.maxAbs` is the largest absolute entry, `OracleP.maxAbs_le_iff`);
* for every atom `i` there are an atom `j` of the same species and `n ∈ ℤ³` with
  `|A (N xᵢ + t − xⱼ + n)|² ≤ (4·symprec)²`. -/
def C01 (cs : CaseQ) (d : DatasetQ) : Prop :=
  ∀ o ∈ d.ops.toList,
    (o.rot.det = 1 ∨ o.rot.det = -1) ∧
    (let A := cs.cell.lat
     let Q := (A.mul (QM3.ofM3 o.rot)).mul A.inv
     ((Q.transpose.mul Q).sub QM3.one).maxAbs ≤ angleBound d.symprec d.angtol (ginvDiag A)) ∧
    ∀ i, i < cs.cell.n →
      OnSite cs.cell (opAct o cs.cell.pos[i]!) cs.cell.num[i]! ((4 * d.symprec) * (4 * d.symprec))

end Moyo.Spec
