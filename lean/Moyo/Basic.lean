def hello := "world"
