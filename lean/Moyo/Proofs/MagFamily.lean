import Moyo.Model.StageMagIdentify
import Mathlib.Data.List.Perm.Subperm
import Mathlib.Tactic.Ring
/-
Helper lemmas shared by `Props/C12Stages.lean` and `Props/C13Stages.lean`: reading of the translation comparison
`closeMod1`, of the family-group loop (`family`), and of `match_prim_mag_operations` (`matchMagOps`).
Only the model is imported (the helper files of stages S5 and S6 prove some 3×3 facts under clashing names).
-/
namespace Moyo.S5m
open Moyo Moyo.StageStd

/-- `|x − round x| < eps` in every component. -/
def CloseMod1 (d : Q3) (eps : Rat) : Prop :=
  S5.ratAbs (ratWrap d.x) < eps ∧ S5.ratAbs (ratWrap d.y) < eps ∧ S5.ratAbs (ratWrap d.z) < eps

theorem closeMod1_iff (d : Q3) (eps : Rat) : closeMod1 d eps = true ↔ CloseMod1 d eps := by
  simp [closeMod1, CloseMod1, and_assoc]

/-! ### `family_space_group_from_magnetic_space_group` -/

/-- Loop invariant: every operation pushed so far is the space-group part of an input operation. -/
theorem familyStep_sub (eps : Rat) (all : List MOpQ) (st : List OpQ × Bool × List Bool) (o : MOpQ) (ho : o ∈ all)
    (h : ∀ q ∈ st.1, ∃ m ∈ all, m.op = q) : ∀ q ∈ (familyStep eps st o).1, ∃ m ∈ all, m.op = q := by
  intro q hq
  unfold familyStep at hq
  split at hq
  · split at hq
    · exact h q hq
    · simp only [List.mem_cons] at hq
      rcases hq with rfl | hq
      · exact ⟨o, ho, rfl⟩
      · exact h q hq
  · simp only [List.mem_cons] at hq
    rcases hq with rfl | hq
    · exact ⟨o, ho, rfl⟩
    · exact h q hq

theorem foldl_familyStep_sub (eps : Rat) (all : List MOpQ) : ∀ (l : List MOpQ) (st : List OpQ × Bool × List Bool),
    (∀ m ∈ l, m ∈ all) → (∀ q ∈ st.1, ∃ m ∈ all, m.op = q) →
    ∀ q ∈ (l.foldl (familyStep eps) st).1, ∃ m ∈ all, m.op = q
  | [], st, _, h => by simpa using h
  | o :: l, st, hl, h => by
    rw [List.foldl_cons]
    exact foldl_familyStep_sub eps all l _ (fun m hm => hl m (List.mem_cons_of_mem _ hm))
      (familyStep_sub eps all st o (hl o List.mem_cons_self) h)

/-- Every operation of the family group is the space-group part of an input magnetic operation. -/
theorem family_ops_sub (ops : List MOpQ) (eps : Rat) : ∀ q ∈ (family ops eps).ops, ∃ m ∈ ops, m.op = q := by
  intro q hq
  unfold family at hq
  simp only [List.mem_reverse] at hq
  exact foldl_familyStep_sub eps ops ops _ (fun m hm => hm) (by simp) q hq

/-- The `contained` flags have one entry per operation. -/
theorem foldl_familyStep_contained (eps : Rat) : ∀ (l : List MOpQ) (st : List OpQ × Bool × List Bool),
    (l.foldl (familyStep eps) st).2.2.length = st.2.2.length + l.length
  | [], st => by simp
  | o :: l, st => by
    rw [List.foldl_cons, foldl_familyStep_contained eps l]
    unfold familyStep
    split
    · split <;> simp <;> omega
    · simp; omega

theorem family_contained_length (ops : List MOpQ) (eps : Rat) : (family ops eps).contained.length = ops.length := by
  unfold family
  simp [foldl_familyStep_contained]

/-! ### `match_prim_mag_operations` -/

theorem lastTrans_some {rev : List MOpQ} {R : M3} {tr : Bool} {t : Q3} (h : lastTrans rev R tr = some t) :
    ∃ m ∈ rev, m.rot = R ∧ m.tr = tr ∧ m.trans = t := by
  unfold lastTrans at h
  simp only [Option.map_eq_some_iff] at h
  obtain ⟨m, hm, rfl⟩ := h
  have h1 := List.mem_of_find?_eq_some hm
  have h2 := List.find?_some hm
  simp only [Bool.and_eq_true, beq_iff_eq] at h2
  exact ⟨m, h1, h2.1, h2.2, rfl⟩

/-- Reading of a successful `match_prim_mag_operations`: equally many operations, and every operation `(R, t₂, θ)` of the
second list has a partner `(R, t₁, θ)` in the first with `t₂ − t₁` an integer vector up to `eps`. -/
theorem matchMagOps_spec {a b : List MOpQ} {eps : Rat} (h : matchMagOps a b eps = true) :
    a.length = b.length ∧
    ∀ m2 ∈ b, ∃ m1 ∈ a, m1.rot = m2.rot ∧ m1.tr = m2.tr ∧ CloseMod1 (m2.trans.sub m1.trans) eps := by
  unfold matchMagOps at h
  simp only [Bool.and_eq_true, beq_iff_eq, List.all_eq_true] at h
  refine ⟨h.1, ?_⟩
  intro m2 hm2
  have := h.2 m2 hm2
  split at this
  · rename_i t1 ht1
    obtain ⟨m1, hm1, hr, htr, rfl⟩ := lastTrans_some ht1
    exact ⟨m1, by simpa using hm1, hr, htr, (closeMod1_iff _ _).1 this⟩
  · simp at this

/-- Key of a magnetic operation for set comparisons: rotation and time-reversal flag. -/
def mkey (o : MOpQ) : M3 × Bool := (o.rot, o.tr)

/-- **As a set with time-reversal flags.**  If the second list has pairwise distinct keys `(R, θ)` (a table fact for the
tabulated primitive operations: they are coset representatives modulo translations), a successful match makes the key
lists permutations of each other. -/
theorem matchMagOps_keys_perm {a b : List MOpQ} {eps : Rat} (h : matchMagOps a b eps = true)
    (hnd : (b.map mkey).Nodup) : (b.map mkey).Perm (a.map mkey) := by
  obtain ⟨hlen, hm⟩ := matchMagOps_spec h
  have hsub : b.map mkey ⊆ a.map mkey := by
    intro k hk
    rw [List.mem_map] at hk
    obtain ⟨m2, hm2, rfl⟩ := hk
    obtain ⟨m1, hm1, hr, htr, _⟩ := hm m2 hm2
    rw [List.mem_map]
    exact ⟨m1, hm1, by simp [mkey, hr, htr]⟩
  exact (List.subperm_of_subset hnd hsub).perm_of_length_le (by simp [hlen])

/-! ### `identify_reference_space_group` -/

/-- Reading of `identify_reference_space_group`: the branch conditions of the construct type. -/
theorem identifyReference_spec {ops : List MOpQ} {eps : Rat} {ref : List OpQ} {ctype : Nat}
    (h : identifyReference ops eps = some (ref, ctype)) :
    (xsg ops).length ≠ 0 ∧ ops.length % (xsg ops).length = 0 ∧
    ((ctype = 1 ∧ ops.length / (xsg ops).length = 1 ∧ (family ops eps).isType2 = false ∧ ref = (family ops eps).ops) ∨
     (ctype = 2 ∧ ops.length / (xsg ops).length = 2 ∧ (family ops eps).isType2 = true ∧ ref = (family ops eps).ops) ∨
     (ctype = 3 ∧ ops.length / (xsg ops).length = 2 ∧ (family ops eps).isType2 = false ∧ hasAntiTranslation ops = false ∧
        ref = (family ops eps).ops) ∨
     (ctype = 4 ∧ ops.length / (xsg ops).length = 2 ∧ (family ops eps).isType2 = false ∧ hasAntiTranslation ops = true ∧
        ref = xsg ops)) := by
  unfold identifyReference at h
  simp only at h
  split at h
  · simp at h
  · rename_i hne
    split at h
    · simp at h
    · rename_i hmod
      simp only [Bool.or_eq_true, List.isEmpty_iff, not_or] at hne
      simp only [ne_eq, Bool.or_eq_true, decide_eq_true_eq, not_or, Decidable.not_not] at hmod
      refine ⟨by simpa using hne.1, hmod.1, ?_⟩
      split at h
      · rename_i h1 h2
        simp only [Option.some.injEq, Prod.mk.injEq] at h
        exact Or.inl ⟨h.2.symm, h1, h2, h.1.symm⟩
      · rename_i h1 h2
        simp only [Option.some.injEq, Prod.mk.injEq] at h
        exact Or.inr (Or.inl ⟨h.2.symm, h1, h2, h.1.symm⟩)
      · rename_i h1 h2
        split at h
        · rename_i ha
          simp only [Option.some.injEq, Prod.mk.injEq] at h
          exact Or.inr (Or.inr (Or.inr ⟨h.2.symm, h1, h2, ha, h.1.symm⟩))
        · rename_i ha
          simp only [Option.some.injEq, Prod.mk.injEq] at h
          exact Or.inr (Or.inr (Or.inl ⟨h.2.symm, h1, h2, by simpa using ha, h.1.symm⟩))
      · simp at h

end Moyo.S5m
