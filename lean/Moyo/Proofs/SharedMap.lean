import Moyo.Model.SharedMap
/-
C18 — helper lemmas for `lookup_only_map_order_free`: the concrete table (association list with
distinct keys, re-ordered by the adversary) simulates the abstract map on the lookup-only interface.
-/
namespace Moyo.Shared
variable {K V : Type} [DecidableEq K]

/-- keys are pairwise distinct -/
def NodupKeys : List (K × V) → Prop
  | [] => True
  | (k, _) :: l => find k l = none ∧ NodupKeys l

theorem find_cons (k k' : K) (v : V) (l : List (K × V)) :
    find k ((k', v) :: l) = if k' = k then some v else find k l := rfl

theorem erase_cons (k k' : K) (v : V) (l : List (K × V)) :
    erase k ((k', v) :: l) = if k' = k then erase k l else (k', v) :: erase k l := rfl

theorem find_erase_self (k : K) (l : List (K × V)) : find k (erase k l) = none := by
  induction l with
  | nil => rfl
  | cons x l ih =>
    obtain ⟨k', v⟩ := x
    rw [erase_cons]
    split
    · exact ih
    · rename_i h; rw [find_cons, if_neg h]; exact ih

theorem find_erase_ne {x k : K} (h : x ≠ k) (l : List (K × V)) : find x (erase k l) = find x l := by
  induction l with
  | nil => rfl
  | cons y l ih =>
    obtain ⟨k', v⟩ := y
    rw [erase_cons]
    split
    · rename_i hk
      rw [find_cons, if_neg (by intro h'; exact h (h'.symm.trans hk ▸ rfl))]
      exact ih
    · rw [find_cons, find_cons, ih]

theorem erase_of_find_none {k : K} {l : List (K × V)} (h : find k l = none) : erase k l = l := by
  induction l with
  | nil => rfl
  | cons y l ih =>
    obtain ⟨k', v⟩ := y
    rw [find_cons] at h
    split at h
    · cases h
    · rename_i hk; rw [erase_cons, if_neg hk, ih h]

theorem find_erase_none {x k : K} {l : List (K × V)} (h : find x l = none) : find x (erase k l) = none := by
  by_cases hx : x = k
  · subst hx; exact find_erase_self _ _
  · rw [find_erase_ne hx]; exact h

theorem nodupKeys_erase (k : K) {l : List (K × V)} (h : NodupKeys l) : NodupKeys (erase k l) := by
  induction l with
  | nil => trivial
  | cons y l ih =>
    obtain ⟨k', v⟩ := y
    obtain ⟨h1, h2⟩ := h
    rw [erase_cons]
    split
    · exact ih h2
    · exact ⟨find_erase_none h1, ih h2⟩

theorem length_pos_of_find {k : K} {l : List (K × V)} (h : (find k l).isSome = true) : 0 < l.length := by
  cases l with
  | nil => simp [find] at h
  | cons y l => simp

theorem length_erase (k : K) {l : List (K × V)} (h : NodupKeys l) :
    (erase k l).length = if (find k l).isSome then l.length - 1 else l.length := by
  induction l with
  | nil => simp [erase, find]
  | cons y l ih =>
    obtain ⟨k', v⟩ := y
    obtain ⟨h1, h2⟩ := h
    rw [erase_cons, find_cons]
    by_cases hk : k' = k
    · subst hk
      rw [if_pos rfl, if_pos rfl, erase_of_find_none h1]
      simp
    · rw [if_neg hk, if_neg hk, List.length_cons, ih h2]
      by_cases hs : (find k l).isSome = true
      · have := length_pos_of_find hs
        rw [if_pos hs, if_pos hs, List.length_cons]; omega
      · rw [if_neg hs, if_neg hs, List.length_cons]

/-- A permutation of a table with distinct keys has distinct keys and answers every lookup alike. -/
theorem perm_inv {l₁ l₂ : List (K × V)} (p : l₁.Perm l₂) :
    NodupKeys l₁ → NodupKeys l₂ ∧ ∀ k, find k l₁ = find k l₂ := by
  induction p with
  | nil => intro h; exact ⟨h, fun _ => rfl⟩
  | cons x _ ih =>
    obtain ⟨k', v⟩ := x
    intro ⟨h1, h2⟩
    obtain ⟨n2, f2⟩ := ih h2
    refine ⟨⟨by rw [← f2]; exact h1, n2⟩, fun k => ?_⟩
    rw [find_cons, find_cons, f2]
  | swap x y l =>
    obtain ⟨kx, vx⟩ := x
    obtain ⟨ky, vy⟩ := y
    intro ⟨h1, h2, h3⟩
    rw [find_cons] at h1
    by_cases hxy : kx = ky
    · rw [if_pos hxy] at h1; cases h1
    · rw [if_neg hxy] at h1
      refine ⟨⟨?_, h1, h3⟩, fun k => ?_⟩
      · rw [find_cons, if_neg (fun h => hxy h.symm)]; exact h2
      · rw [find_cons, find_cons, find_cons, find_cons]
        by_cases hx : kx = k
        · have hy : ¬ ky = k := fun h => hxy (hx.trans h.symm)
          simp only [if_pos hx, if_neg hy]
        · simp only [if_neg hx]
  | trans _ _ ih₁ ih₂ =>
    intro h
    obtain ⟨n2, f2⟩ := ih₁ h
    obtain ⟨n3, f3⟩ := ih₂ n2
    exact ⟨n3, fun k => (f2 k).trans (f3 k)⟩

/-- The simulation relation between the concrete table and the abstract map. -/
def Rel (l : List (K × V)) (a : AMap K V) : Prop :=
  NodupKeys l ∧ (∀ k, find k l = a.f k) ∧ l.length = a.size

theorem rel_empty : Rel ([] : List (K × V)) AMap.empty := ⟨trivial, fun _ => rfl, rfl⟩

/-- The adversary cannot break the relation. -/
theorem rel_perm {l l' : List (K × V)} {a : AMap K V} (h : Rel l a) (p : l'.Perm l) : Rel l' a := by
  obtain ⟨hn, hf, hl⟩ := h
  obtain ⟨n', f'⟩ := perm_inv p.symm hn
  exact ⟨n', fun k => (f' k).symm.trans (hf k), p.length_eq.trans hl⟩

/-- One step of the lookup-only interface: same observation, relation preserved. -/
theorem step_sim {l : List (K × V)} {a : AMap K V} (h : Rel l a) (op : Op K V)
    (hop : op.lookupOnly = true) :
    (stepC l op).2 = (stepA a op).2 ∧ Rel (stepC l op).1 (stepA a op).1 := by
  obtain ⟨hn, hf, hl⟩ := h
  cases op with
  | insert k v =>
    refine ⟨by simp only [stepC, stepA, hf], ⟨find_erase_self k l, nodupKeys_erase k hn⟩, fun x => ?_, ?_⟩
    · show find x ((k, v) :: erase k l) = if x = k then some v else a.f x
      rw [find_cons]
      by_cases hx : x = k
      · subst hx; rw [if_pos rfl, if_pos rfl]
      · rw [if_neg (fun h => hx h.symm), if_neg hx, find_erase_ne hx, hf]
    · show ((k, v) :: erase k l).length = if (a.f k).isSome then a.size else a.size + 1
      rw [List.length_cons, length_erase k hn, hf, hl]
      by_cases hs : (a.f k).isSome = true
      · have : 0 < l.length := length_pos_of_find (by rw [hf]; exact hs)
        rw [if_pos hs, if_pos hs]; omega
      · rw [if_neg hs, if_neg hs]
  | get k => exact ⟨by simp only [stepC, stepA, hf], hn, hf, hl⟩
  | containsKey k => exact ⟨by simp only [stepC, stepA, hf], hn, hf, hl⟩
  | entryOrInsert k v =>
    simp only [stepC, stepA]
    rw [hf k]
    cases hk : a.f k with
    | some w => exact ⟨rfl, hn, hf, hl⟩
    | none =>
      refine ⟨rfl, ⟨by rw [hf]; exact hk, hn⟩, fun x => ?_, by simp [hl]⟩
      show find x ((k, v) :: l) = if x = k then some v else a.f x
      rw [find_cons]
      by_cases hx : x = k
      · subst hx; rw [if_pos rfl, if_pos rfl]
      · rw [if_neg (fun h => hx h.symm), if_neg hx, hf]
  | len => exact ⟨by simp only [stepC, stepA, hl], hn, hf, hl⟩
  | isEmpty => exact ⟨by simp only [stepC, stepA, hl], hn, hf, hl⟩
  | index k =>
    simp only [stepC, stepA]
    rw [hf k]
    cases a.f k with
    | some w => exact ⟨rfl, hn, hf, hl⟩
    | none => exact ⟨rfl, hn, hf, hl⟩
  | remove k =>
    refine ⟨by simp only [stepC, stepA, hf], nodupKeys_erase k hn, fun x => ?_, ?_⟩
    · show find x (erase k l) = if x = k then none else a.f x
      by_cases hx : x = k
      · subst hx; rw [if_pos rfl, find_erase_self]
      · rw [if_neg hx, find_erase_ne hx, hf]
    · show (erase k l).length = if (a.f k).isSome then a.size - 1 else a.size
      rw [length_erase k hn, hf, hl]
  | iterNext => cases hop

/-- Whole runs agree, for every adversary and every adaptive lookup-only program. -/
theorem runC_eq_runA (adv : Adversary K V) (p : Prog K V)
    (hp : ∀ h op, p h = some op → op.lookupOnly = true) (n : Nat) :
    ∀ (l : List (K × V)) (a : AMap K V) (h : List (Obs K V)), Rel l a → runC adv p n l h = runA p n a h := by
  induction n with
  | zero => intro l a h _; rfl
  | succ n ih =>
    intro l a h hr
    simp only [runC, runA]
    cases hph : p h with
    | none => rfl
    | some op =>
      obtain ⟨ho, hr'⟩ := step_sim hr op (hp h op hph)
      simp only
      rw [ho]
      exact ih _ _ _ (rel_perm hr' (adv.perm _ _))

omit [DecidableEq K] in
theorem ofList_lookupOnly {ops : List (Op K V)} (hops : ∀ op ∈ ops, op.lookupOnly = true) :
    ∀ h op, Prog.ofList ops h = some op → op.lookupOnly = true := by
  intro h op hh
  exact hops op (List.mem_of_getElem? hh)

end Moyo.Shared
