import Moyo.Proofs.OracleSite
import Moyo.Proofs.OracleC05
import Moyo.Spec.C07
/-
Soundness lemmas for the C07 oracles (`Oracle.checkC07orbits`, `Oracle.checkC07wyckoff`): a silent
checker exhibits the witnesses the specification `Spec.C07Labels` / `Spec.C07Wyckoff` asks for.
Floats and least squares only *propose*; every accepted witness passed an exact rational test.
-/
namespace Moyo.OracleC07
open Moyo Moyo.Oracle Moyo.Spec Moyo.Spec.C07 Moyo.Wyckoff Moyo.Generated Moyo.OracleP Moyo.Periodic

theorem map_range_getElem! {α : Type} [Inhabited α] (f : Nat → α) {n i : Nat} (hi : i < n) :
    ((List.range n).map f)[i]! = f i := by
  rw [getElem!_pos _ i (by simpa using hi)]
  simp

theorem mem_of_getElem!_eq {α : Type} [Inhabited α] {l : List α} {i : Nat} {a : α} (hi : i < l.length)
    (h : l[i]! = a) : a ∈ l := by
  rw [getElem!_pos l i hi] at h
  rw [← h]
  exact List.getElem_mem hi

theorem landingSites_length (cs : CaseQ) (d : DatasetQ) (r2 : Rat) : (landingSites cs d r2).length = cs.cell.n := by
  simp [landingSites]

/-- A recorded landing site is a landing site. -/
theorem landing_sound {cs : CaseQ} {d : DatasetQ} {i j : Nat} (hi : i < cs.cell.n)
    (h : (landingSites cs d ((4 * d.symprec) * (4 * d.symprec)))[i]! = some j) : LandsOn cs d i j := by
  unfold landingSites at h
  simp only at h
  rw [map_range_getElem! _ hi] at h
  exact find_sound h

/-- The memoised stabilizer order of a landed-on site is the stabilizer order. -/
theorem stabs_getElem {d : DatasetQ} {ops : List HOp} {sites : List (Option Nat)} {j : Nat}
    (hj : j < d.stdCell.n) (hc : some j ∈ sites) : (siteStabilizers d ops sites)[j]! = stabOrder d ops j := by
  unfold siteStabilizers
  simp only
  rw [map_range_getElem! _ hj]
  rw [if_pos (by simpa using hc)]
  rfl

/-- A pass of the subspace test exhibits the offset and the parameters. -/
theorem onSubspace_sound {A : QM3} {gi : Q3} {sp : Space} {q : Q3} {r2 : Rat}
    (h : onSubspace A gi sp q r2 = true) : OnSubspace A sp q r2 := by
  unfold onSubspace at h
  simp only [List.any_eq_true, decide_eq_true_eq] at h
  obtain ⟨nx, _, ny, _, nz, _, hle⟩ := h
  exact ⟨⟨nx, ny, nz⟩, _, hle⟩

/-- The nearest-integer representative has the smallest square among all integer translates. -/
theorem wrap_sq_le (x : Rat) (n : Int) : ratWrap x * ratWrap x ≤ (x + n) * (x + n) := by
  obtain ⟨h1, h2⟩ := ratRound_close x
  have hk : x + n = ratWrap x + ((ratRound x + n : Int) : Rat) := by
    unfold ratWrap; push_cast; ring
  rw [hk]
  generalize hw : ratWrap x = w
  have hw1 : w ≤ 1 / 2 := by rw [← hw]; unfold ratWrap; linarith
  have hw2 : -(1 / 2) ≤ w := by rw [← hw]; unfold ratWrap; linarith
  generalize ratRound x + n = k
  rcases Int.lt_trichotomy k 0 with hk | hk | hk
  · have : (k : Rat) ≤ -1 := by exact_mod_cast (by omega : k ≤ -1)
    nlinarith
  · subst hk; simp
  · have : (1 : Rat) ≤ k := by exact_mod_cast (by omega : 1 ≤ k)
    nlinarith

/-- The pre-test never rejects a point that has a lattice translate within `r2`. -/
theorem quickFar_false {A : QM3} {d : Q3} {r2 : Rat} (hA : A.det ≠ 0) (h : PeriodicWithin A d r2) :
    quickFar (ginvDiag A) d r2 = false := by
  obtain ⟨n, hn⟩ := h
  obtain ⟨bx, by', bz⟩ := cauchy_schwarz_box A hA ⟨d.x + n.x, d.y + n.y, d.z + n.z⟩
  obtain ⟨gx, gy, gz⟩ := ginvDiag_nonneg A
  simp only at bx by' bz
  have wx := wrap_sq_le d.x n.x
  have wy := wrap_sq_le d.y n.y
  have wz := wrap_sq_le d.z n.z
  unfold quickFar axisFar
  simp only [Bool.or_eq_false_iff, decide_eq_false_iff_not, not_lt]
  refine ⟨⟨?_, ?_⟩, ?_⟩ <;> nlinarith

/-- An operation counted in the stabilizer fixes the site (soundness of the count). -/
theorem stabilizer_mem_sound {A : QM3} {gi : Q3} {ops : List HOp} {s : Q3} {eps2 : Rat} {g : HOp}
    (h : g ∈ ops.filter (fixesSite A gi s eps2)) :
    g ∈ ops ∧ PeriodicWithin A (((g.rot.applyQ s).add (g.trans.toQ 12)).sub s) eps2 := by
  rw [List.mem_filter] at h
  refine ⟨h.1, ?_⟩
  have := h.2
  unfold fixesSite at this
  simp only [Bool.and_eq_true] at this
  exact withinPeriodic_sound this.2

/-- … and, for non-degenerate lattices and radii inside the scanned window, exactly those. -/
theorem stabilizer_mem_iff {A : QM3} {ops : List HOp} {s : Q3} {eps2 : Rat} (hA : A.det ≠ 0) (hw : Window A eps2) (g : HOp) :
    (g ∈ ops.filter (fixesSite A (ginvDiag A) s eps2)) ↔
    (g ∈ ops ∧ PeriodicWithin A (((g.rot.applyQ s).add (g.trans.toQ 12)).sub s) eps2) := by
  constructor
  · exact stabilizer_mem_sound
  · rintro ⟨hg, hp⟩
    rw [List.mem_filter]
    refine ⟨hg, ?_⟩
    unfold fixesSite
    simp only [Bool.and_eq_true, Bool.not_eq_true']
    exact ⟨quickFar_false hA hp, withinPeriodic_complete hA hw hp⟩

/-! ### labelling clauses -/

theorem filterMap_range_nil {α : Type} {n : Nat} {f : Nat → Option α}
    (h : (List.range n).filterMap f = []) {i : Nat} (hi : i < n) : f i = none := by
  rw [List.filterMap_eq_nil_iff] at h
  exact h i (List.mem_range.2 hi)

theorem checkC07orbits_sound {cs : CaseQ} {d : DatasetQ} (h : checkC07orbits cs d = []) : C07Labels cs d := by
  unfold checkC07orbits at h
  simp only at h
  split at h
  swap
  · simp at h
  rename_i hsz
  have hsz' : d.orbits.size = cs.cell.n ∧ d.wyck.size = cs.cell.n ∧ d.siteSym.size = cs.cell.n := by
    simpa [and_assoc] using hsz
  simp only [List.isEmpty_nil, Bool.not_true, Bool.false_eq_true, if_false] at h
  have h' := cap_eq_nil h
  clear h
  simp only [List.append_eq_nil_iff] at h'
  obtain ⟨⟨h1, h2⟩, h3⟩ := h'
  replace h1 := take_succ_eq_nil h1
  replace h2 := take_succ_eq_nil h2
  replace h3 := take_succ_eq_nil h3
  have pair : ∀ i j, j < i → i < cs.cell.n →
      (d.orbits[i]! = d.orbits[j]! ↔ cs.truth.orbit[i]! = cs.truth.orbit[j]!) := by
    intro i j hji hi
    have := filterMap_range_nil h1 hi
    rw [List.findSome?_eq_none_iff] at this
    have := this j (List.mem_range.2 hji)
    split at this
    · rename_i hc
      have hc' : (d.orbits[i]! == d.orbits[j]!) = (cs.truth.orbit[i]! == cs.truth.orbit[j]!) := by
        simpa using hc
      constructor
      · intro e
        have : (d.orbits[i]! == d.orbits[j]!) = true := by simpa using e
        rw [hc'] at this
        simpa using this
      · intro e
        have : (cs.truth.orbit[i]! == cs.truth.orbit[j]!) = true := by simpa using e
        rw [← hc'] at this
        simpa using this
    · cases this
  refine ⟨hsz', ?_, ?_, ?_⟩
  · intro i j hi hj
    rcases Nat.lt_trichotomy i j with hlt | heq | hgt
    · have := pair j i hlt hj
      constructor
      · intro e; exact (this.1 e.symm).symm
      · intro e; exact (this.2 e.symm).symm
    · subst heq; simp
    · exact pair i j hgt hi
  · intro i hi
    have := filterMap_range_nil h2 hi
    split at this
    · rename_i hc
      simp only [Bool.and_eq_true, decide_eq_true_eq, beq_iff_eq, Bool.not_eq_true', List.any_eq_false,
        List.mem_range] at hc
      obtain ⟨⟨c1, c2⟩, c3⟩ := hc
      refine ⟨c1, c2, ?_⟩
      intro j hj
      by_contra hlt
      exact c3 j (by omega) hj
    · cases this
  · intro i hi
    have := filterMap_range_nil h3 hi
    split at this
    · rename_i hc
      simp only [Bool.and_eq_true, decide_eq_true_eq, beq_iff_eq] at hc
      exact ⟨hc.1.2, hc.2⟩
    · cases this

/-! ### Wyckoff clauses -/

/-- What `atomOk` certifies about atom `i`. -/
theorem atomOk_sound {cs : CaseQ} {d : DatasetQ} {ops : List HOp} {cen : Centering} {i : Nat}
    (hi : i < cs.cell.n) (h : atomOk cs d (WCtx.build cs d ops cen) i = true) : Atom cs d ops cen i := by
  unfold atomOk at h
  simp only at h
  split at h
  swap
  · cases h
  rename_i j row k hs hrow hk
  simp only [Bool.and_eq_true, decide_eq_true_eq, beq_iff_eq] at h
  obtain ⟨⟨⟨⟨⟨w1, w2⟩, w2'⟩, ⟨⟨⟨s1, s2⟩, s3⟩, s4⟩⟩, ⟨e1, e2⟩⟩, w4⟩ := h
  -- the context fields
  have hsites : (WCtx.build cs d ops cen).sites = landingSites cs d ((4 * d.symprec) * (4 * d.symprec)) := rfl
  have hstabs : (WCtx.build cs d ops cen).stabs =
      siteStabilizers d ops (landingSites cs d ((4 * d.symprec) * (4 * d.symprec))) := rfl
  have hops : (WCtx.build cs d ops cen).ops = ops := rfl
  have hh : (WCtx.build cs d ops cen).h = d.hallNumber.toNat := rfl
  rw [hsites] at hs
  rw [hh] at hrow
  have hland := landing_sound hi hs
  have hmem : some j ∈ landingSites cs d ((4 * d.symprec) * (4 * d.symprec)) :=
    mem_of_getElem!_eq (by rw [landingSites_length]; exact hi) hs
  have hst : (WCtx.build cs d ops cen).stabs[j]! = stabOrder d ops j := by
    rw [hstabs]; exact stabs_getElem hland.1 hmem
  rw [hst, hops] at w1
  rw [hst] at w2
  refine ⟨j, row, k, hland, hrow, w1, hk, w2, w2', ?_, ?_, ?_⟩
  · -- (W3)
    have hsub : (WCtx.build cs d ops cen).subOk = (List.range cs.cell.n).map fun l =>
        if d.orbits[l]! == l then
          match (rowOfLetter? d.hallNumber.toNat d.wyck[l]!).bind fun row => Space.new? row.coordinates with
          | some sp => orbitOnSubspace d cen (landingSites cs d ((4 * d.symprec) * (4 * d.symprec))) sp l ((4 * d.symprec) * (4 * d.symprec))
          | none => false
        else true := rfl
    rw [hsub, map_range_getElem! _ s1] at s4
    rw [if_pos (by simpa using s2), s3, hrow] at s4
    simp only [Option.bind_some] at s4
    split at s4
    swap
    · cases s4
    rename_i sp hsp
    unfold orbitOnSubspace at s4
    simp only [List.any_eq_true, List.mem_range, Bool.and_eq_true, beq_iff_eq] at s4
    obtain ⟨k', hk', hlab, hrest⟩ := s4
    rw [landingSites_length] at hk'
    split at hrest
    · cases hrest
    rename_i j' hj'
    simp only [List.any_eq_true] at hrest
    obtain ⟨c, hc, hon⟩ := hrest
    exact ⟨k', j', c, sp, hk', hlab, landing_sound hk' hj', hc, hsp, onSubspace_sound hon⟩
  · -- (W0a)
    have hreach : (WCtx.build cs d ops cen).reach = (List.range cs.cell.n).map fun l =>
        if d.orbits[l]! == l then
          match (landingSites cs d ((4 * d.symprec) * (4 * d.symprec)))[l]! with
          | some j => siteImages d ops j ((4 * d.symprec) * (4 * d.symprec))
          | none => []
        else [] := rfl
    rw [hreach, map_range_getElem! _ s1, if_pos (by simpa using s2)] at e2
    refine ⟨s1, e1, ?_⟩
    split at e2
    swap
    · simp at e2
    rename_i jl hjl
    have hmemj : j ∈ siteImages d ops jl ((4 * d.symprec) * (4 * d.symprec)) := by simpa using e2
    unfold siteImages at hmemj
    simp only [List.mem_filterMap] at hmemj
    obtain ⟨g, hg, hfind⟩ := hmemj
    obtain ⟨_, _, hp⟩ := find_sound hfind
    exact ⟨jl, g, landing_sound s1 hjl, hg, hp⟩
  · -- (W4)
    intro ht
    unfold truthOk at w4
    rw [if_neg (by omega)] at w4
    split at w4
    · cases w4
    rename_i trow htrow
    simp only [Bool.and_eq_true, beq_iff_eq] at w4
    obtain ⟨⟨t1, t2⟩, t3⟩ := w4
    rw [hops] at t2
    exact ⟨trow, htrow, t1, t2, t3⟩

/-- What `labelsSeparated` certifies (Bool form: the exact periodic test fails for every operation). -/
theorem labelsSeparated_sound {cs : CaseQ} {d : DatasetQ} {ops : List HOp} {cen : Centering}
    (h : labelsSeparated cs d (WCtx.build cs d ops cen) = true) :
    ∀ l1 l2, l1 < l2 → l2 < cs.cell.n → d.orbits[l1]! = l1 → d.orbits[l2]! = l2 →
      cs.cell.num[l1]! = cs.cell.num[l2]! →
      ∃ j1 j2, LandsOn cs d l1 j1 ∧ LandsOn cs d l2 j2 ∧
        ∀ g ∈ ops, withinPeriodic d.stdCell.lat (ginvDiag d.stdCell.lat) (siteDiff d g j1 j2) tinyEps2 = false := by
  intro l1 l2 hlt hl2 ho1 ho2 hnum
  unfold labelsSeparated at h
  simp only [List.all_eq_true, List.mem_range] at h
  have := h l1 (by omega) l2 hl2
  have hsites : (WCtx.build cs d ops cen).sites = landingSites cs d ((4 * d.symprec) * (4 * d.symprec)) := rfl
  have hops : (WCtx.build cs d ops cen).ops = ops := rfl
  rw [hsites, hops] at this
  have hcond : (decide (l1 < l2) && d.orbits[l1]! == l1 && d.orbits[l2]! == l2 && cs.cell.num[l1]! == cs.cell.num[l2]!) = true := by
    simp [hlt, ho1, ho2, hnum]
  rw [hcond] at this
  simp only [Bool.not_true, Bool.false_or] at this
  split at this
  swap
  · cases this
  rename_i j1 j2 h1 h2
  refine ⟨j1, j2, landing_sound (by omega) h1, landing_sound hl2 h2, ?_⟩
  intro g hg
  simp only [List.all_eq_true, Bool.not_eq_true'] at this
  exact this g hg

/-- Membership in `siteImages`: some operation carries site `sl` onto site `sj` (same species). -/
theorem siteImages_mem_sound {d : DatasetQ} {ops : List HOp} {sl sj : Nat} {r2 : Rat}
    (h : sj ∈ siteImages d ops sl r2) :
    ∃ g ∈ ops, sj < d.stdCell.n ∧ d.stdCell.num[sj]! = d.stdCell.num[sl]! ∧
      PeriodicWithin d.stdCell.lat (siteDiff d g sl sj) r2 := by
  unfold siteImages at h
  simp only [List.mem_filterMap] at h
  obtain ⟨g, hg, hfind⟩ := h
  obtain ⟨h1, h2, h3⟩ := find_sound hfind
  exact ⟨g, hg, h1, h2, h3⟩

/-- Conversely, when like sites of std_cell are separated by more than the tolerance, an operation
carrying `sl` onto `sj` puts `sj` into `siteImages`. -/
theorem siteImages_mem_complete {d : DatasetQ} {ops : List HOp} {sl sj : Nat} {r2 : Rat}
    (hS : d.stdCell.lat.det ≠ 0) (hw : Window d.stdCell.lat r2) (hsep : Separated d.stdCell r2)
    (hj : sj < d.stdCell.n) (hnum : d.stdCell.num[sj]! = d.stdCell.num[sl]!)
    {g : HOp} (hg : g ∈ ops) (hp : PeriodicWithin d.stdCell.lat (siteDiff d g sl sj) r2) :
    sj ∈ siteImages d ops sl r2 := by
  unfold siteImages
  simp only [List.mem_filterMap]
  exact ⟨g, hg, find_eq_some_of_separated hS hw hsep hj hnum hp⟩

/-- What `labelsMatchOps` certifies. -/
theorem labelsMatchOps_sound {cs : CaseQ} {d : DatasetQ} {ops : List HOp} {cen : Centering}
    (h : labelsMatchOps cs d (WCtx.build cs d ops cen) = true) : LabelsMatchOps cs d ops := by
  have hsites : (WCtx.build cs d ops cen).sites = landingSites cs d ((4 * d.symprec) * (4 * d.symprec)) := rfl
  have hreach : (WCtx.build cs d ops cen).reach = (List.range cs.cell.n).map fun l =>
      if d.orbits[l]! == l then
        match (landingSites cs d ((4 * d.symprec) * (4 * d.symprec)))[l]! with
        | some j => siteImages d ops j ((4 * d.symprec) * (4 * d.symprec))
        | none => []
      else [] := rfl
  unfold labelsMatchOps at h
  simp only [List.all_eq_true, List.mem_range, Bool.or_eq_true, Bool.not_eq_true', beq_eq_false_iff_ne, ne_eq] at h
  rw [hsites, hreach] at h
  -- every label atom lands, because it is related to itself
  have self : ∀ l, l < cs.cell.n → d.orbits[l]! = l →
      ∃ sl, (landingSites cs d ((4 * d.symprec) * (4 * d.symprec)))[l]! = some sl := by
    intro l hl ho
    rcases h l hl with hne | hall
    · exact absurd ho hne
    rcases hall l hl with hne | hm
    · exact absurd rfl hne
    rw [map_range_getElem! _ hl, if_pos (by simpa using ho)] at hm
    cases hs : (landingSites cs d ((4 * d.symprec) * (4 * d.symprec)))[l]! with
    | some sl => exact ⟨sl, rfl⟩
    | none =>
      rw [hs] at hm
      simp at hm
  intro l j hl hj ho hnum
  obtain ⟨sl, hsl⟩ := self l hl ho
  rcases h l hl with hne | hall
  · exact absurd ho hne
  rcases hall j hj with hne | hm
  · exact absurd hnum hne
  rw [map_range_getElem! _ hl, if_pos (by simpa using ho), hsl] at hm
  split at hm
  swap
  · cases hm
  rename_i sj hsj
  refine ⟨sl, sj, landing_sound hl hsl, landing_sound hj hsj, ?_⟩
  simp only at hm
  constructor
  · intro e
    have : (d.orbits[j]! == l) = true := by simpa using e
    rw [this] at hm
    simpa using hm.symm
  · intro e
    have : (siteImages d ops sl ((4 * d.symprec) * (4 * d.symprec))).contains sj = true := by simpa using e
    rw [this] at hm
    simpa using hm

/-! ### helpers for concrete instances -/

/-- A species that occurs once: the exact search returns its site. -/
theorem find_of_unique {c : CellQ} {y : Q3} {sp : Int} {r2 : Rat} {j : Nat} (hj : j < c.n) (hs : c.num[j]! = sp)
    (hu : ∀ k, k < c.n → c.num[k]! = sp → k = j)
    (hw : withinPeriodic c.lat (ginvDiag c.lat) (y.sub c.pos[j]!) r2 = true) :
    (SiteIndex.build c).find y sp r2 = some j := by
  have hsome : ((SiteIndex.build c).find y sp r2).isSome = true := by
    unfold SiteIndex.find
    refine findSel_complete (j := j) hj ?_ hw
    simpa [SiteIndex.build] using hs
  obtain ⟨k, hk⟩ := Option.isSome_iff_exists.1 hsome
  obtain ⟨k1, k2, _⟩ := find_sound hk
  rw [hk, hu k k1 k2]

theorem filterMap_pair {α β : Type} (f : α → Option β) (a b : α) (x y : β) (h1 : f a = some x) (h2 : f b = some y) :
    [a, b].filterMap f = [x, y] := by
  simp [h1, h2]

end Moyo.OracleC07
