import Moyo.Proofs.SearchAccept
import Moyo.Model.StageSearchPrim
/-
Stage S1 (`PrimitiveCell::new`): lemmas about `Search.primitiveModel`.
-/
namespace Moyo.Search
open Moyo

theorem M3.det_mul' (p q : M3) : (p.mul q).det = p.det * q.det := by
  cases p; cases q; simp only [M3.mul, M3.det]; ring

theorem M3.det_adj' (p : M3) : p.adj.det = p.det * p.det := by
  cases p; simp only [M3.adj, M3.det]; ring

theorem M3.mul_assoc' (p q r : M3) : (p.mul q).mul r = p.mul (q.mul r) := by
  cases p; cases q; cases r; simp only [M3.mul, M3.mk.injEq]
  refine ⟨?_, ?_, ?_, ?_, ?_, ?_, ?_, ?_, ?_⟩ <;> ring

theorem M3.mul_one' (p : M3) : p.mul M3.one = p := by
  cases p; simp [M3.one, M3.mul]

theorem unimodInv_det {T Ti : M3} (h : unimodInv? T = some Ti) : T.det = 1 ∧ Ti.det = 1 := by
  unfold unimodInv? at h
  split at h
  · rename_i hd
    cases h
    exact ⟨hd, by rw [M3.det_adj', hd]; rfl⟩
  · cases h

theorem mem_purifyT {c : CellQ} {s : Rat} {cands : List TCand} {tp : Q3 × Perm} :
    tp ∈ purifyT c s cands ↔ ∃ cd ∈ cands,
      accept c s cd.perm M3.one (symTranslation c cd.perm M3.one cd.rough) = true ∧
      tp = (symTranslation c cd.perm M3.one cd.rough, cd.perm) := by
  simp only [purifyT, List.mem_filterMap]
  constructor
  · rintro ⟨cd, hcd, h⟩
    split at h
    · rename_i hacc
      exact ⟨cd, hcd, hacc, by simpa using h.symm⟩
    · simp at h
  · rintro ⟨cd, hcd, hacc, rfl⟩
    exact ⟨cd, hcd, by simp [hacc]⟩

theorem purifyT_sound {c : CellQ} {s : Rat} {cands : List TCand}
    (hok : ∀ cd ∈ cands, permOk c cd.perm = true) :
    ∀ tp ∈ purifyT c s cands, ∀ i, i < c.n →
      papply tp.2 i < c.n ∧ numAt c (papply tp.2 i) = numAt c i ∧
      dist2 c tp.2 M3.one tp.1 i < s * s := by
  intro tp htp i hi
  obtain ⟨cd, hcd, hacc, rfl⟩ := mem_purifyT.mp htp
  obtain ⟨_, hp⟩ := (permOk_iff c cd.perm).mp (hok cd hcd)
  exact ⟨(hp i hi).1, (hp i hi).2, ((accept_iff c s _ _ _).mp hacc).2 i hi⟩

theorem transMat_det {ts : List Q3} {M : M3} (h : transformationMatrixFromTranslations ts = .ok M) :
    M.det = ts.length := by
  unfold transformationMatrixFromTranslations at h
  simp only at h
  split at h
  · cases h
  · split at h
    · cases h
    · rename_i hdet
      cases h
      simpa using hdet

theorem primitiveModel_det {c : CellQ} {s : Rat} {mink1 mink2 : Option M3} {cands : List TCand} {r : PrimRes}
    (h : primitiveModel c s mink1 cands mink2 = .ok r) :
    r.linear.det = r.translations.length ∧ r.transMat.det = r.translations.length ∧
    0 < r.translations.length ∧ c.n % r.translations.length = 0 ∧ r.perms.length = r.translations.length := by
  unfold primitiveModel at h
  split at h
  · cases h
  · rename_i T1
    split at h
    · cases h
    · rename_i T1inv h1
      simp only at h
      split at h
      · cases h
      · split at h
        · cases h
        · split at h
          · cases h
          · split at h
            · cases h
            · rename_i hsz
              split at h
              · cases h
              · cases h
              · rename_i M hM
                split at h
                · cases h
                · rename_i T2
                  split at h
                  · cases h
                  · rename_i T2inv h2
                    cases h
                    have hd := transMat_det hM
                    simp only [List.length_map] at hd ⊢
                    have d1 := (unimodInv_det h1).2
                    have d2 := (unimodInv_det h2).2
                    rw [not_or] at hsz
                    refine ⟨?_, hd, by omega, ?_, trivial⟩
                    · rw [M3.det_mul', M3.det_mul', d1, d2, hd]; ring
                    · have := hsz.2; simp only [transformCellU, CellQ.n] at this ⊢; omega

end Moyo.Search
