import Moyo.Proofs.C16TypesCount
import Mathlib.Data.List.Perm.Basic
/-
C16 (g) / C17, part 3: the evaluation strategy of `TypeInvariant.count` is correct,
`count s prim = countSpec s prim` (`count_eq_countSpec`), for lists of coset representatives
with pairwise different linear parts.

* `evalWord_lift`: on a lifted tuple `(lift n₁ o₁, …)` a word evaluates to the lift of its value on
  `(o₁, …)` by `Σⱼ Cⱼ nⱼ` (`coef`), so every condition is a linear congruence in the `nⱼ`
  (`eqOK_lift`, `detOK_lift`, `countOs_eq`);
* the solutions are enumerated by coset representatives first (`nested`), a rearrangement of the
  enumeration used by `countSpec` (`nested_perm`).
-/
namespace Moyo.TypeInv
open Moyo Moyo.TableSpec Moyo.Tables Moyo.TypeInvariant

/-! ### more forcing combinators -/

theorem forceM3_eq {α : Type} (p : M3) (k : M3 → α) : forceM3 p k = k p := by
  simp only [forceM3, forceInt_eq]
theorem forceZ3_eq {α : Type} (p : Z3) (k : Z3 → α) : forceZ3 p k = k p := by
  simp only [forceZ3, forceInt_eq]
theorem forceM3s_eq {α : Type} (l : List M3) (k : List M3 → α) : forceM3s l k = k l := by
  induction l generalizing k with
  | nil => rfl
  | cons o rest ih => simp only [forceM3s, forceM3_eq, ih]
theorem forceZ3s_eq {α : Type} (l : List Z3) (k : List Z3 → α) : forceZ3s l k = k l := by
  induction l generalizing k with
  | nil => rfl
  | cons o rest ih => simp only [forceZ3s, forceZ3_eq, ih]
theorem forceZ3ss_eq {α : Type} (l : List (List Z3)) (k : List (List Z3) → α) : forceZ3ss l k = k l := by
  induction l generalizing k with
  | nil => rfl
  | cons o rest ih => simp only [forceZ3ss, forceZ3s_eq, ih]
theorem forcePair_eq {α : Type} (p : PairData) (k : PairData → α) : forcePair p k = k p := by
  simp only [forcePair, forceBool_eq, forceZ3_eq, forceM3s_eq]
theorem forcePairs_eq {α : Type} (l : List PairData) (k : List PairData → α) : forcePairs l k = k l := by
  induction l generalizing k with
  | nil => rfl
  | cons o rest ih => simp only [forcePairs, forcePair_eq, ih]
theorem forceDet_eq {α : Type} (p : DetData) (k : DetData → α) : forceDet p k = k p := by
  simp only [forceDet, forcePair_eq, forceInt_eq]
theorem forceDets_eq {α : Type} (l : List DetData) (k : List DetData → α) : forceDets l k = k l := by
  induction l generalizing k with
  | nil => rfl
  | cons o rest ih => simp only [forceDets, forceDet_eq, ih]

/-! ### words on lifted tuples -/

theorem HOp.ext' {a b : HOp} (h1 : a.rot = b.rot) (h2 : a.trans = b.trans) (h3 : a.tr = b.tr) : a = b := by
  cases a; cases b; simp_all

/-- The tuple `(lift n₁ o₁, …, lift n_r o_r)`. -/
def zipLift (ns : List Z3) (os : List HOp) : List HOp := List.zipWith lift ns os

theorem lift_zero (o : HOp) : lift 0 o = o := by
  refine HOp.ext' rfl ?_ rfl
  show o.trans + (12 : Int) • (0 : Z3) = o.trans
  module

theorem slot_zipLift : ∀ (ns : List Z3) (os : List HOp), ns.length = os.length → ∀ i : Nat,
    slot (zipLift ns os) i = lift (nslot ns i) (slot os i)
  | [], [], _, i => by
    simp only [zipLift, List.zipWith_nil_left, slot, nslot, List.getElem?_nil, Option.getD_none]
    exact (lift_zero _).symm
  | [], _ :: _, h, _ => by simp at h
  | _ :: _, [], h, _ => by simp at h
  | n :: ns, o :: os, h, i => by
    cases i with
    | zero => simp [zipLift, slot, nslot]
    | succ j =>
      have := slot_zipLift ns os (by simpa using h) j
      simpa [zipLift, slot, nslot] using this

theorem mul_lift (acc g : HOp) (a n : Z3) :
    (lift a acc).mul (lift n g) = lift (a + acc.rot.apply n) (acc.mul g) := by
  refine HOp.ext' rfl ?_ rfl
  show acc.rot.apply (g.trans + (12 : Int) • n) + (acc.trans + (12 : Int) • a) =
    (acc.rot.apply g.trans + acc.trans) + (12 : Int) • (a + acc.rot.apply n)
  rw [apply_add', apply_smul']; module

/-- The shift of a word: `a + Σ_p (linear part of the prefix before position p) n_{w_p}`. -/
def shiftAcc (os : List HOp) (ns : List Z3) : M3 → Z3 → Word → Z3
  | _, a, [] => a
  | r, a, i :: w => shiftAcc os ns (r.mul (slot os i).rot) (a + r.apply (nslot ns i)) w

theorem evalAcc_lift {ns : List Z3} {os : List HOp} (h : ns.length = os.length) : ∀ (w : Word) (acc : HOp) (a : Z3),
    evalAcc (zipLift ns os) (lift a acc) w = lift (shiftAcc os ns acc.rot a w) (evalAcc os acc w) := by
  intro w
  induction w with
  | nil => intro acc a; rfl
  | cons i w ih =>
    intro acc a
    simp only [evalAcc, forceOp_eq, slot_zipLift ns os h, mul_lift, shiftAcc]
    exact ih (acc.mul (slot os i)) (a + acc.rot.apply (nslot ns i))

theorem M3.add_apply (a b : M3) (n : Z3) : (a.add b).apply n = a.apply n + b.apply n := by
  show (a.add b).apply n = (a.apply n).add (b.apply n)
  ext <;> simp only [M3.add, M3.apply, Z3.add] <;> ring

theorem M3.sub_apply (a b : M3) (n : Z3) : (a.sub b).apply n = a.apply n - b.apply n := by
  show (a.sub b).apply n = (a.apply n).sub (b.apply n)
  ext <;> simp only [M3.sub, M3.apply, Z3.sub] <;> ring

theorem M3.zero_apply (n : Z3) : M3.zero.apply n = 0 := by
  show M3.zero.apply n = Z3.zero
  ext <;> simp [M3.zero, M3.apply, Z3.zero]

theorem dot_cons (a : M3) (c : List M3) (n : Z3) (ns : List Z3) : dot (a :: c) (n :: ns) = a.apply n + dot c ns := rfl

theorem dot_nil_left (ns : List Z3) : dot [] ns = 0 := by cases ns <;> rfl

theorem dot_nil_right (c : List M3) : dot c [] = 0 := by cases c <;> rfl

theorem length_addAt : ∀ (c : List M3) (i : Nat) (r : M3), (addAt c i r).length = c.length
  | [], _, _ => rfl
  | _ :: _, 0, _ => rfl
  | _ :: c, j + 1, r => by simp [addAt, length_addAt c j r]

theorem dot_addAt : ∀ (c : List M3) (ns : List Z3) (i : Nat) (r : M3), c.length = ns.length →
    dot (addAt c i r) ns = dot c ns + r.apply (nslot ns i)
  | [], [], i, r, _ => by
    simp only [addAt, dot_nil_left, nslot, List.getElem?_nil, Option.getD_none]
    rw [zero_def, apply_zero']; module
  | [], _ :: _, _, _, h => by simp at h
  | _ :: _, [], _, _, h => by simp at h
  | a :: c, n :: ns, 0, r, _ => by
    simp only [addAt, dot_cons, M3.add_apply, nslot, List.getElem?_cons_zero, Option.getD_some]
    module
  | a :: c, n :: ns, j + 1, r, h => by
    have ih := dot_addAt c ns j r (by simpa using h)
    simp only [addAt, dot_cons, nslot, List.getElem?_cons_succ] at ih ⊢
    rw [ih]; module

theorem length_coefAcc (os : List HOp) : ∀ (w : Word) (r : M3) (c : List M3), (coefAcc os r c w).length = c.length := by
  intro w
  induction w with
  | nil => intro r c; rfl
  | cons i w ih =>
    intro r c
    simp only [coefAcc, forceM3_eq, forceM3s_eq, ih, length_addAt]

theorem length_coef (os : List HOp) (w : Word) : (coef os w).length = os.length := by
  simp [coef, length_coefAcc]

theorem shift_coef (os : List HOp) (ns : List Z3) : ∀ (w : Word) (r : M3) (c : List M3) (a : Z3),
    c.length = ns.length → shiftAcc os ns r (a + dot c ns) w = a + dot (coefAcc os r c w) ns := by
  intro w
  induction w with
  | nil => intro r c a _; rfl
  | cons i w ih =>
    intro r c a hc
    simp only [shiftAcc, coefAcc, forceM3_eq, forceM3s_eq]
    rw [← ih _ (addAt c i r) a (by rw [length_addAt, hc]), dot_addAt c ns i r hc, add_assoc]

theorem dot_replicate_zero : ∀ (ns : List Z3), dot (List.replicate ns.length M3.zero) ns = 0
  | [] => rfl
  | n :: ns => by
    simp only [List.length_cons, List.replicate_succ, dot_cons, M3.zero_apply, dot_replicate_zero ns]
    module

/-- **Words on lifted tuples.** -/
theorem evalWord_lift {ns : List Z3} {os : List HOp} (h : ns.length = os.length) (w : Word) :
    evalWord (zipLift ns os) w = lift (dot (coef os w) ns) (evalWord os w) := by
  unfold evalWord
  have h1 := evalAcc_lift h w HOp.one 0
  rw [lift_zero] at h1
  rw [h1]
  congr 1
  have h2 := shift_coef os ns w M3.one (List.replicate os.length M3.zero) 0 (by simp [h])
  rw [← h, dot_replicate_zero, add_zero, zero_add] at h2
  rw [coef, ← h]
  exact h2

theorem dot_subL : ∀ (a b : List M3) (ns : List Z3), a.length = ns.length → b.length = ns.length →
    dot (subL a b) ns = dot a ns - dot b ns
  | [], [], ns, _, _ => by simp only [subL, dot_nil_left]; module
  | [], _ :: _, [], _, h => by simp at h
  | _ :: _, [], [], h, _ => by simp at h
  | [], _ :: _, _ :: _, h, _ => by simp at h
  | _ :: _, [], _ :: _, _, h => by simp at h
  | x :: a, y :: b, [], h, _ => by simp at h
  | x :: a, y :: b, n :: ns, ha, hb => by
    have ih := dot_subL a b ns (by simpa using ha) (by simpa using hb)
    simp only [subL, dot_cons, M3.sub_apply, ih]
    module

/-! ### the conditions on lifted tuples -/

theorem lift_trans_sub (A B : HOp) (x y : Z3) :
    (lift x A).trans.sub (lift y B).trans = (A.trans.sub B.trans).add (Z3.smul 12 (x - y)) := by
  show (A.trans + (12 : Int) • x) - (B.trans + (12 : Int) • y) = (A.trans - B.trans) + (12 : Int) • (x - y)
  module

theorem eqOK_lift {ns : List Z3} {os : List HOp} (h : ns.length = os.length) (m : Int) (e : Word × Word) :
    eqOK m (zipLift ns os) e = ((compilePair os e.1 e.2).ok && eqN m ns (compilePair os e.1 e.2)) := by
  simp only [eqOK, forceOp_eq, evalWord_lift h, compilePair, forceZ3_eq, forceM3s_eq, eqN, eqMod, lift_trans_sub]
  rw [dot_subL _ _ _ (by rw [length_coef, h]) (by rw [length_coef, h])]
  rfl

theorem mod12_add (d z : Z3) : (d.add (Z3.smul 12 z)).mod 12 = d.mod 12 := by
  ext <;> simp only [Z3.mod, Z3.add, Z3.smul] <;> omega

theorem div12_add (d z : Z3) : div12 (d.add (Z3.smul 12 z)) = (div12 d).add z := by
  ext <;> simp only [div12, Z3.add, Z3.smul] <;> omega

theorem diffVec_lift (A B : HOp) (x y : Z3) :
    diffVec (lift x A) (lift y B) =
      if (A.rot == B.rot && A.tr == B.tr && (A.trans.sub B.trans).mod 12 == Z3.zero) = true
      then some ((div12 (A.trans.sub B.trans)).add (x - y)) else none := by
  unfold diffVec
  simp only [lift_trans_sub, mod12_add]
  have hr : (lift x A).rot = A.rot := rfl
  have ht : (lift x A).tr = A.tr := rfl
  have hr' : (lift y B).rot = B.rot := rfl
  have ht' : (lift y B).tr = B.tr := rfl
  rw [hr, ht, hr', ht']
  split
  · congr 1
    exact div12_add _ _
  · rfl

theorem detOK_lift {ns : List Z3} {os : List HOp} (h : ns.length = os.length) (m : Int) (d : DetCond) :
    detOK m (zipLift ns os) d = ((compileDet os d).ok && detN m ns (compileDet os d)) := by
  simp only [detOK, forceOp_eq, evalWord_lift h, detOK3, diffVec_lift, compileDet, DetData.ok, compilePair,
    forceZ3_eq, forceM3s_eq, detN]
  rw [dot_subL _ _ _ (by rw [length_coef, h]) (by rw [length_coef, h]),
    dot_subL _ _ _ (by rw [length_coef, h]) (by rw [length_coef, h]),
    dot_subL _ _ _ (by rw [length_coef, h]) (by rw [length_coef, h])]
  rw [Bool.eq_iff_iff]
  simp only [Bool.and_eq_true, beq_iff_eq]
  split
  · rename_i u v w hu hv hw
    split at hu
    · split at hv
      · split at hw
        · rename_i c1 c2 c3
          cases hu; cases hv; cases hw
          constructor
          · intro hd; exact ⟨⟨⟨⟨⟨⟨c1.1, c2.1⟩, c3.1⟩, c1.2⟩, c2.2⟩, c3.2⟩, beq_iff_eq.1 hd⟩
          · intro hd; exact beq_iff_eq.2 hd.2
        · cases hw
      · cases hv
    · cases hu
  · rename_i hnone
    constructor
    · intro hf; cases hf
    · rintro ⟨⟨⟨⟨⟨⟨⟨a1, a2⟩, b12⟩, c12⟩, a3⟩, b3⟩, c3⟩, _⟩
      exfalso
      exact hnone _ _ _ (if_pos ⟨⟨a1, a2⟩, a3⟩) (if_pos ⟨b12, b3⟩) (if_pos ⟨c12, c3⟩)

theorem all_and_all {α : Type} (l : List α) (p q : α → Bool) :
    l.all (fun x => p x && q x) = (l.all p && l.all q) := by
  induction l with
  | nil => rfl
  | cons a t ih =>
    simp only [List.all_cons, ih]
    cases p a <;> cases q a <;> simp

/-- On lifted tuples the system is the conjunction of the `ok` flags and the linear congruences. -/
theorem sat_lift (s : Spec) {ns : List Z3} {os : List HOp} (h : ns.length = os.length) :
    sat s (zipLift ns os) =
      ((((s.eqs.map fun e => compilePair os e.1 e.2).all (·.ok)) && (s.dets.map (compileDet os)).all (·.ok)) &&
        (((s.eqs.map fun e => compilePair os e.1 e.2).all (eqN s.m ns)) && (s.dets.map (compileDet os)).all (detN s.m ns))) := by
  unfold sat
  have h1 : s.eqs.all (eqOK s.m (zipLift ns os)) =
      s.eqs.all (fun e => (compilePair os e.1 e.2).ok && eqN s.m ns (compilePair os e.1 e.2)) :=
    List.all_congr rfl (fun e => eqOK_lift h s.m e)
  have h2 : s.dets.all (detOK s.m (zipLift ns os)) =
      s.dets.all (fun d => (compileDet os d).ok && detN s.m ns (compileDet os d)) :=
    List.all_congr rfl (fun d => detOK_lift h s.m d)
  rw [h1, h2, all_and_all, all_and_all]
  simp only [List.all_map, Function.comp_def]
  generalize (s.eqs.all fun e => (compilePair os e.1 e.2).ok) = a
  generalize (s.eqs.all fun e => eqN s.m ns (compilePair os e.1 e.2)) = b
  generalize (s.dets.all fun d => (compileDet os d).ok) = c
  generalize (s.dets.all fun d => detN s.m ns (compileDet os d)) = e
  cases a <;> cases b <;> cases c <;> cases e <;> rfl

theorem countOs_eq (s : Spec) (nts : List (List Z3)) (os : List HOp) (h : ∀ ns ∈ nts, ns.length = os.length) :
    countOs s nts os = nts.countP fun ns => sat s (zipLift ns os) := by
  simp only [countOs, forcePairs_eq, forceDets_eq]
  split
  · rename_i hok
    refine List.countP_congr fun ns hns => ?_
    rw [sat_lift s (h ns hns), hok, Bool.true_and]
  · rename_i hok
    symm
    rw [List.countP_eq_zero]
    intro ns hns
    rw [sat_lift s (h ns hns)]
    simp only [Bool.not_eq_true] at hok
    rw [hok, Bool.false_and]
    simp

/-! ### enumeration by coset representatives -/

/-- The solutions candidates, enumerated by coset representatives first. -/
def nested (m : Nat) (prim : List HOp) (types : List SlotType) : List (List HOp) :=
  (tuples (types.map (reps prim))).flatMap fun os => (ntuples m types.length).map fun ns => zipLift ns os

theorem mem_ntuples {m : Nat} : ∀ {r : Nat} {ns : List Z3},
    ns ∈ ntuples m r ↔ ns.length = r ∧ ∀ n ∈ ns, n ∈ vecsMod m
  | 0, ns => by
    simp only [ntuples, List.mem_singleton]
    constructor
    · rintro rfl; exact ⟨rfl, by simp⟩
    · rintro ⟨h, _⟩; exact List.length_eq_zero_iff.1 h
  | r + 1, ns => by
    simp only [ntuples, List.mem_flatMap, List.mem_map]
    constructor
    · rintro ⟨n, hn, t, ht, rfl⟩
      obtain ⟨h1, h2⟩ := mem_ntuples.1 ht
      refine ⟨by simp [h1], ?_⟩
      intro x hx
      rcases List.mem_cons.1 hx with rfl | hx
      · exact hn
      · exact h2 x hx
    · rintro ⟨h1, h2⟩
      cases ns with
      | nil => simp at h1
      | cons n t =>
        exact ⟨n, h2 n List.mem_cons_self, t,
          mem_ntuples.2 ⟨by simpa using h1, fun x hx => h2 x (List.mem_cons_of_mem _ hx)⟩, rfl⟩

theorem ntuples_nodup {m : Nat} (hv : (vecsMod m).Nodup) : ∀ r : Nat, (ntuples m r).Nodup
  | 0 => by simp [ntuples]
  | r + 1 => by
    simp only [ntuples]
    rw [List.nodup_flatMap]
    refine ⟨fun x _ => (ntuples_nodup hv r).map (fun a b hab => List.cons_injective hab), ?_⟩
    refine hv.imp ?_
    intro x x' hne
    simp only [Function.onFun, List.disjoint_left, List.mem_map]
    rintro t ⟨a, _, rfl⟩ ⟨b, _, hb⟩
    exact hne (List.head_eq_of_cons_eq hb).symm

theorem mem_reps {prim : List HOp} {τ : SlotType} {o : HOp} : o ∈ reps prim τ ↔ o ∈ prim ∧ typeIs τ o = true := by
  simp [reps, List.mem_filter]

/-- Characterization of the members of the nested enumeration. -/
theorem nested_spec (m : Nat) (prim : List HOp) : ∀ (types : List SlotType) (t : List HOp),
    (∃ os ns, List.Forall₂ (fun o τ => o ∈ reps prim τ) os types ∧ ns.length = types.length ∧
        (∀ n ∈ ns, n ∈ vecsMod m) ∧ zipLift ns os = t) ↔
      List.Forall₂ (fun x τ => x ∈ slotElems m prim τ) t types := by
  intro types
  induction types with
  | nil =>
    intro t
    constructor
    · rintro ⟨os, ns, hos, hlen, _, rfl⟩
      cases hos
      simp [zipLift]
    · intro h
      cases h
      exact ⟨[], [], List.Forall₂.nil, rfl, by simp, rfl⟩
  | cons τ rest ih =>
    intro t
    constructor
    · rintro ⟨os, ns, hos, hlen, hns, rfl⟩
      cases hos with
      | cons ho hos' =>
        cases ns with
        | nil => simp at hlen
        | cons n ns' =>
          simp only [zipLift, List.zipWith_cons_cons]
          refine List.Forall₂.cons ?_ ?_
          · exact mem_slotElems.2 ⟨_, (mem_reps.1 ho).1, (mem_reps.1 ho).2, n, hns n List.mem_cons_self, rfl⟩
          · exact (ih _).1 ⟨_, ns', hos', by simpa using hlen, fun x hx => hns x (List.mem_cons_of_mem _ hx), rfl⟩
    · intro h
      cases h with
      | cons hx ht =>
        obtain ⟨o, ho, hty, n, hn, rfl⟩ := mem_slotElems.1 hx
        obtain ⟨os, ns, hos, hlen, hns, rfl⟩ := (ih _).2 ht
        refine ⟨o :: os, n :: ns, List.Forall₂.cons (mem_reps.2 ⟨ho, hty⟩) hos, by simp [hlen], ?_, rfl⟩
        intro x hx
        rcases List.mem_cons.1 hx with rfl | hx
        · exact hn
        · exact hns x hx

theorem mem_nested {m : Nat} {prim : List HOp} {types : List SlotType} {t : List HOp} :
    t ∈ nested m prim types ↔ t ∈ tuples (types.map (slotElems m prim)) := by
  rw [mem_tuples, List.forall₂_map_right_iff, ← nested_spec]
  simp only [nested, List.mem_flatMap, List.mem_map, mem_tuples, List.forall₂_map_right_iff, mem_ntuples]
  constructor
  · rintro ⟨os, hos, ns, ⟨hlen, hns⟩, rfl⟩
    exact ⟨os, ns, hos, hlen, hns, rfl⟩
  · rintro ⟨os, ns, hos, hlen, hns, rfl⟩
    exact ⟨os, hos, ns, ⟨hlen, hns⟩, rfl⟩

theorem zipLift_inj : ∀ (ns ns' : List Z3) (os : List HOp), ns.length = os.length → ns'.length = os.length →
    zipLift ns os = zipLift ns' os → ns = ns'
  | [], [], _, _, _, _ => rfl
  | [], _ :: _, [], _, h, _ => by simp at h
  | _ :: _, [], [], h, _, _ => by simp at h
  | [], _ :: _, _ :: _, h, _, _ => by simp at h
  | _ :: _, [], _ :: _, _, h, _ => by simp at h
  | _ :: _, _ :: _, [], h, _, _ => by simp at h
  | n :: ns, n' :: ns', o :: os, h, h', he => by
    simp only [zipLift, List.zipWith_cons_cons, List.cons.injEq] at he
    rw [lift_inj he.1, zipLift_inj ns ns' os (by simpa using h) (by simpa using h') he.2]

theorem zipLift_os_inj {prim : List HOp} (hnd : (prim.map opKey).Nodup) : ∀ (ns ns' : List Z3) (os os' : List HOp),
    ns.length = os.length → ns'.length = os'.length → (∀ o ∈ os, o ∈ prim) → (∀ o ∈ os', o ∈ prim) →
    zipLift ns os = zipLift ns' os' → os = os'
  | [], [], [], [], _, _, _, _, _ => rfl
  | [], _, _ :: _, _, h, _, _, _, _ => by simp at h
  | _ :: _, _, [], _, h, _, _, _, _ => by simp at h
  | _, [], _, _ :: _, _, h, _, _, _ => by simp at h
  | _, _ :: _, _, [], _, h, _, _, _ => by simp at h
  | [], _ :: _, [], _ :: _, _, _, _, _, he => by simp [zipLift] at he
  | _ :: _, [], _ :: _, [], _, _, _, _, he => by simp [zipLift] at he
  | n :: ns, n' :: ns', o :: os, o' :: os', h, h', hp, hp', he => by
    simp only [zipLift, List.zipWith_cons_cons, List.cons.injEq] at he
    have hr : (lift n o).rot = (lift n' o').rot := congrArg HOp.rot he.1
    have htr : (lift n o).tr = (lift n' o').tr := congrArg HOp.tr he.1
    have ho : o = o' := List.inj_on_of_nodup_map hnd (hp o List.mem_cons_self) (hp' o' List.mem_cons_self)
      (Prod.ext hr htr : opKey o = opKey o')
    rw [ho, zipLift_os_inj hnd ns ns' os os' (by simpa using h) (by simpa using h')
      (fun x hx => hp x (List.mem_cons_of_mem _ hx)) (fun x hx => hp' x (List.mem_cons_of_mem _ hx)) he.2]

theorem length_of_mem_tuples_reps {prim : List HOp} {types : List SlotType} {os : List HOp}
    (h : os ∈ tuples (types.map (reps prim))) : os.length = types.length ∧ ∀ o ∈ os, o ∈ prim := by
  rw [mem_tuples, List.forall₂_map_right_iff] at h
  refine ⟨h.length_eq, ?_⟩
  induction h with
  | nil => simp
  | cons ha _ ih =>
    intro o ho
    rcases List.mem_cons.1 ho with rfl | ho
    · exact (mem_reps.1 ha).1
    · exact ih o ho

theorem nested_nodup {m : Nat} (hv : (vecsMod m).Nodup) {prim : List HOp} (hnd : (prim.map opKey).Nodup)
    (types : List SlotType) : (nested m prim types).Nodup := by
  have hp : prim.Nodup := List.Nodup.of_map _ hnd
  unfold nested
  rw [List.nodup_flatMap]
  constructor
  · intro os hos
    obtain ⟨hlen, _⟩ := length_of_mem_tuples_reps hos
    refine (ntuples_nodup hv _).map_on ?_
    intro ns hns ns' hns' he
    exact zipLift_inj ns ns' os ((mem_ntuples.1 hns).1.trans hlen.symm) ((mem_ntuples.1 hns').1.trans hlen.symm) he
  · have hT : (tuples (types.map (reps prim))).Nodup := by
      refine tuples_nodup ?_
      intro l hl
      obtain ⟨τ, _, rfl⟩ := List.mem_map.1 hl
      exact hp.filter _
    refine hT.imp_of_mem ?_
    intro os os' hos hos' hne
    simp only [Function.onFun, List.disjoint_left, List.mem_map]
    rintro t ⟨ns, hns, rfl⟩ ⟨ns', hns', he⟩
    obtain ⟨hlen, hmem⟩ := length_of_mem_tuples_reps hos
    obtain ⟨hlen', hmem'⟩ := length_of_mem_tuples_reps hos'
    exact hne (zipLift_os_inj hnd ns ns' os os' ((mem_ntuples.1 hns).1.trans hlen.symm)
      ((mem_ntuples.1 hns').1.trans hlen'.symm) hmem hmem' he.symm)

theorem sumNat_eq (l : List Nat) : sumNat l = l.sum := by
  induction l with
  | nil => rfl
  | cons a t ih => simp [sumNat, ih]

theorem count_eq_nested (s : Spec) (prim : List HOp) :
    count s prim = (nested s.m prim s.types).countP (sat s) := by
  simp only [count, forceOps_eq, forceZ3ss_eq, nested, List.countP_flatMap, sumNat_eq]
  congr 1
  refine List.map_congr_left fun os hos => ?_
  obtain ⟨hlen, _⟩ := length_of_mem_tuples_reps hos
  rw [countOs_eq s _ os (fun ns hns => (mem_ntuples.1 hns).1.trans hlen.symm)]
  simp only [Function.comp_apply, List.countP_map, Function.comp_def]

/-- **The evaluation strategy is correct.** -/
theorem count_eq_countSpec (s : Spec) (hv : (vecsMod s.m).Nodup) {prim : List HOp} (hnd : (prim.map opKey).Nodup) :
    count s prim = countSpec s prim := by
  rw [count_eq_nested, countSpec]
  refine List.Perm.countP_eq _ ?_
  rw [List.perm_ext_iff_of_nodup (nested_nodup hv hnd _)]
  · intro t; exact mem_nested
  · refine tuples_nodup ?_
    intro l hl
    obtain ⟨τ, _, rfl⟩ := List.mem_map.1 hl
    exact slotElems_nodup hv hnd τ

/-- **Invariance.**  Affinely conjugate lists of coset representatives (pairwise different linear
parts) have the same number of solutions of every system. -/
theorem count_eq_of_affConj (s : Spec) (hv : (vecsMod s.m).Nodup) {src tgt : List HOp}
    (hs : (src.map opKey).Nodup) (ht : (tgt.map opKey).Nodup) (h : AffConj src tgt) :
    count s src = count s tgt := by
  rw [count_eq_countSpec s hv hs, count_eq_countSpec s hv ht]
  exact countSpec_eq_of_affConj s hv hs ht h

theorem invVecT_eq_of_affConj (specs : List Spec) (hv : ∀ s ∈ specs, (vecsMod s.m).Nodup) {src tgt : List HOp}
    (hs : (src.map opKey).Nodup) (ht : (tgt.map opKey).Nodup) (h : AffConj src tgt) :
    invVecT specs src = invVecT specs tgt := by
  unfold invVecT
  exact List.map_congr_left fun s hsm => count_eq_of_affConj s (hv s hsm) hs ht h

/-! ### subsets of the point group cut out by a system -/

theorem satRots_into (F : Frame) {src tgt : List HOp} (h1 : ∀ o ∈ src, ∃ o0 ∈ tgt, CC F 1 o o0) (s : Spec) :
    ∀ a ∈ satRots s src, (F.Q.mul a).mul F.P ∈ satRots s tgt := by
  intro a ha
  unfold satRots at ha ⊢
  split at ha
  · rename_i τ hτ
    simp only [List.mem_map, List.mem_filter, List.any_eq_true] at ha ⊢
    obtain ⟨o, ⟨ho, n, hn, hsat⟩, rfl⟩ := ha
    have hx : lift n o ∈ slotElems s.m src τ :=
      mem_slotElems.2 ⟨o, (mem_reps.1 ho).1, (mem_reps.1 ho).2, n, hn, rfl⟩
    obtain ⟨y, hy, hcc⟩ := slot_total F h1 τ _ hx
    obtain ⟨o0, ho0, hty0, n0, hn0, rfl⟩ := mem_slotElems.1 hy
    refine ⟨o0, ⟨mem_reps.2 ⟨ho0, hty0⟩, n0, hn0, ?_⟩, ?_⟩
    · exact sat_of_forall₂ F s (List.Forall₂.cons hcc List.Forall₂.nil) hsat
    · show o0.rot = (F.Q.mul o.rot).mul F.P
      have := hcc.1
      change o.rot.mul F.P = F.P.mul o0.rot at this
      rw [M3.mul_assoc, this, ← M3.mul_assoc, F.unimod.2, M3.one_mul]
  · cases ha

/-- Conjugate groups have conjugate subsets. -/
theorem satRots_conjugate (s : Spec) {src tgt : List HOp} (h : AffConj src tgt) :
    Conjugate (satRots s src) (satRots s tgt) := by
  obtain ⟨_, c, hd, hpos, h12, h1, h2⟩ := h
  let F := frameOf c hd hpos h12
  refine ⟨F.P, F.Q, F.unimod, ?_, ?_⟩
  · refine satRots_into F ?_ s
    intro o ho
    obtain ⟨o0, ho0, hm⟩ := h1 o ho
    exact ⟨o0, ho0, cc_of_affMaps hd hpos h12 hm⟩
  · have := satRots_into (F.inv hd) (src := tgt) (tgt := src) ?_ s
    · exact this
    · intro o0 ho0
      obtain ⟨o, ho, hm⟩ := h2 o0 ho0
      exact ⟨o, ho, CC.symm F hd (cc_of_affMaps hd hpos h12 hm)⟩

theorem satRots_nodup (s : Spec) {prim : List HOp} (hnd : (prim.map opKey).Nodup) : (satRots s prim).Nodup := by
  unfold satRots
  split
  · rename_i τ _
    have hp : prim.Nodup := List.Nodup.of_map _ hnd
    refine ((hp.filter _).filter _).map_on ?_
    intro o ho o' ho' hr
    have h1 := mem_reps.1 (List.mem_of_mem_filter ho)
    have h2 := mem_reps.1 (List.mem_of_mem_filter ho')
    have t1 : o.tr = τ.2.2 := by
      have := h1.2; simp only [typeIs, Bool.and_eq_true, beq_iff_eq] at this; exact this.2
    have t2 : o'.tr = τ.2.2 := by
      have := h2.2; simp only [typeIs, Bool.and_eq_true, beq_iff_eq] at this; exact this.2
    exact List.inj_on_of_nodup_map hnd h1.1 h2.1 (Prod.ext hr (t1.trans t2.symm) : opKey o = opKey o')
  · exact List.nodup_nil

/-- The GL₃(ℤ)-invariants of the subset are invariants of the affine conjugacy class. -/
theorem rotInv_eq_of_affConj (types : List (Int × Int × Nat)) (s : Spec) {src tgt : List HOp}
    (hs : (src.map opKey).Nodup) (ht : (tgt.map opKey).Nodup) (h : AffConj src tgt) :
    invVec types (satRots s src) = invVec types (satRots s tgt) :=
  invVec_eq_of_conjugate types (satRots_nodup s hs) (satRots_nodup s ht) (satRots_conjugate s h)

end Moyo.TypeInv
