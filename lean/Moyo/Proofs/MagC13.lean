import Moyo.Spec.C13
import Moyo.Proofs.MagSite
import Moyo.Proofs.OracleC05
/-
Helpers for `Props/C13.lean`: a silent exact-symmetry scan `symFail` certifies invariance of the
(magnetic) cell under the operation.
-/
namespace Moyo.MagP
open Moyo Moyo.Oracle Moyo.MagOracle Moyo.Spec Moyo.Periodic Moyo.OracleP

theorem symFail_none_mag {mc : MagCellQ} {collinear axial : Bool} {W : QM3} {w : Q3} {det : Int} {tr : Bool}
    {e2 me2 : Rat}
    (h : symFail mc (SiteIndex.build mc.cell) collinear axial W w det tr e2 me2 true = none) :
    MagInvariant mc collinear axial W w det tr e2 me2 := by
  unfold symFail at h
  rw [List.find?_eq_none] at h
  intro i hi
  have := h i (List.mem_range.2 hi)
  unfold siteCarried at this
  simp only [if_true, Bool.not_eq_true, Bool.not_eq_false'] at this
  exact findMagSite_sound (by simpa using this)

theorem symFail_none_pos {mc : MagCellQ} {collinear axial : Bool} {W : QM3} {w : Q3} {det : Int} {tr : Bool}
    {e2 me2 : Rat}
    (h : symFail mc (SiteIndex.build mc.cell) collinear axial W w det tr e2 me2 false = none) :
    PosInvariant mc.cell W w e2 := by
  unfold symFail at h
  rw [List.find?_eq_none] at h
  intro i hi
  have := h i (List.mem_range.2 hi)
  unfold siteCarried at this
  simp only [Bool.false_eq_true, if_false, Bool.not_eq_true, Bool.not_eq_false'] at this
  exact find_isSome_sound (by simpa using this)

theorem symFail_mag_complete {mc : MagCellQ} {collinear axial : Bool} {W : QM3} {w : Q3} {det : Int} {tr : Bool}
    {e2 me2 : Rat} (hA : mc.cell.lat.det ≠ 0) (hw : Window mc.cell.lat e2)
    (h : MagInvariant mc collinear axial W w det tr e2 me2) :
    symFail mc (SiteIndex.build mc.cell) collinear axial W w det tr e2 me2 true = none := by
  unfold symFail
  rw [List.find?_eq_none]
  intro i hi
  unfold siteCarried
  simp only [if_true, Bool.not_eq_true, Bool.not_eq_false']
  exact findMagSite_complete hA hw (h i (List.mem_range.1 hi))

theorem symFail_pos_complete {mc : MagCellQ} {collinear axial : Bool} {W : QM3} {w : Q3} {det : Int} {tr : Bool}
    {e2 me2 : Rat} (hA : mc.cell.lat.det ≠ 0) (hw : Window mc.cell.lat e2)
    (h : PosInvariant mc.cell W w e2) :
    symFail mc (SiteIndex.build mc.cell) collinear axial W w det tr e2 me2 false = none := by
  unfold symFail
  rw [List.find?_eq_none]
  intro i hi
  unfold siteCarried
  simp only [Bool.false_eq_true, if_false, Bool.not_eq_true, Bool.not_eq_false']
  exact find_isSome_complete hA hw (h i (List.mem_range.1 hi))

end Moyo.MagP
