import Moyo.Proofs.Identify
import Moyo.Proofs.IdentifySolve
import Mathlib.Tactic.LinearCombination
/-
Stage S5: from the origin-shift system to the affine conjugation.
`match_origin_shift` solves `(R_db − I) s = t_db − P⁻¹ t (mod 1)` and returns `p = (P s) % 1`.
Here: for `det P = 1` and `P⁻¹ R P = R_db` this is the statement that the returned transformation
`(P, p)` conjugates `(R, t)` onto `(R_db, t_db)` modulo lattice translations, up to `eps`:
`P⁻¹ (R p + t − p) − t_db` is within `eps` of an integer vector.
-/
namespace Moyo.S5
open Moyo

/-! ### Linear algebra on the plain structures -/

theorem applyQ_add (M : M3) (u v : Q3) : M.applyQ (u.add v) = (M.applyQ u).add (M.applyQ v) := by
  simp only [M3.applyQ, Q3.add, Q3.mk.injEq]; refine ⟨?_, ?_, ?_⟩ <;> ring

theorem applyQ_sub (M : M3) (u v : Q3) : M.applyQ (u.sub v) = (M.applyQ u).sub (M.applyQ v) := by
  simp only [M3.applyQ, Q3.sub, Q3.mk.injEq]; refine ⟨?_, ?_, ?_⟩ <;> ring

theorem applyQ_mul (A B : M3) (v : Q3) : (A.mul B).applyQ v = A.applyQ (B.applyQ v) := by
  simp only [M3.applyQ, M3.mul, Q3.mk.injEq]; push_cast; refine ⟨?_, ?_, ?_⟩ <;> ring

theorem sub_one_applyQ (A : M3) (v : Q3) : (A.sub M3.one).applyQ v = (A.applyQ v).sub v := by
  cases v
  simp only [M3.applyQ, M3.sub, M3.one, Q3.sub, Q3.mk.injEq]; push_cast; refine ⟨?_, ?_, ?_⟩ <;> ring

theorem adj_applyQ_applyQ (P : M3) (hP : P.det = 1) (v : Q3) : P.adj.applyQ (P.applyQ v) = v := by
  have hd : ((P.det : Int) : Rat) = 1 := by rw [hP]; simp
  simp only [M3.det] at hd
  push_cast at hd
  cases v with | mk x y z =>
  simp only [M3.applyQ, M3.adj, Q3.mk.injEq]; push_cast
  refine ⟨?_, ?_, ?_⟩
  · linear_combination x * hd
  · linear_combination y * hd
  · linear_combination z * hd

/-! ### Integer vectors -/

def IsIntQ3 (v : Q3) : Prop := IsInt v.x ∧ IsInt v.y ∧ IsInt v.z

theorem applyQ_isInt (M : M3) {v : Q3} (hv : IsIntQ3 v) : IsIntQ3 (M.applyQ v) := by
  obtain ⟨hx, hy, hz⟩ := hv
  refine ⟨?_, ?_, ?_⟩ <;>
    exact ((IsInt.intCast _).mul hx |>.add ((IsInt.intCast _).mul hy)).add ((IsInt.intCast _).mul hz)

theorem IsIntQ3.sub {u v : Q3} (hu : IsIntQ3 u) (hv : IsIntQ3 v) : IsIntQ3 (u.sub v) :=
  ⟨hu.1.sub hv.1, hu.2.1.sub hv.2.1, hu.2.2.sub hv.2.2⟩

theorem truncFrac_sub (v : Q3) : ∃ n : Q3, IsIntQ3 n ∧ v.map ratTruncFrac = v.sub n := by
  refine ⟨⟨v.x - ratTruncFrac v.x, v.y - ratTruncFrac v.y, v.z - ratTruncFrac v.z⟩,
    ⟨ratTruncFrac_isInt _, ratTruncFrac_isInt _, ratTruncFrac_isInt _⟩, ?_⟩
  simp only [Q3.map, Q3.sub, Q3.mk.injEq]
  refine ⟨?_, ?_, ?_⟩ <;> ring

/-! ### The distance to the nearest integer is invariant under integer shifts -/

theorem ratRound_close' (q : Rat) : (ratRound q : Rat) - q ≤ 1 / 2 ∧ q - ratRound q ≤ 1 / 2 := by
  unfold ratRound
  split
  · have h1 := Rat.floor_le (q + 1 / 2)
    have h2 := Rat.lt_floor_add_one (q + 1 / 2)
    push_cast at h2
    constructor <;> linarith
  · have h1 := Rat.floor_le (-q + 1 / 2)
    have h2 := Rat.lt_floor_add_one (-q + 1 / 2)
    push_cast at h2 ⊢
    constructor <;> linarith

/-- The nearest-integer residual is the smallest residual. -/
theorem ratAbs_wrap_le (q : Rat) (n : Int) : ratAbs (ratWrap q) ≤ ratAbs (q - n) := by
  obtain ⟨c1, c2⟩ := ratRound_close' q
  unfold ratWrap
  rcases lt_trichotomy n (ratRound q) with hlt | rfl | hgt
  · have : (n : Rat) + 1 ≤ ratRound q := by exact_mod_cast hlt
    unfold ratAbs; split <;> split <;> linarith
  · exact le_refl _
  · have : (ratRound q : Rat) + 1 ≤ n := by exact_mod_cast hgt
    unfold ratAbs; split <;> split <;> linarith

theorem ratAbs_wrap_sub_int {q k : Rat} (hk : IsInt k) : ratAbs (ratWrap (q - k)) ≤ ratAbs (ratWrap q) := by
  obtain ⟨m, rfl⟩ := hk
  have := ratAbs_wrap_le (q - m) (ratRound q - m)
  have e : q - (m : Rat) - ((ratRound q - m : Int) : Rat) = ratWrap q := by
    unfold ratWrap; push_cast; ring
  rw [e] at this
  exact this

theorem Within.sub_int {v n : Q3} {eps : Rat} (h : Within v eps) (hn : IsIntQ3 n) : Within (v.sub n) eps :=
  ⟨le_trans (ratAbs_wrap_sub_int hn.1) h.1, le_trans (ratAbs_wrap_sub_int hn.2.1) h.2.1,
    le_trans (ratAbs_wrap_sub_int hn.2.2) h.2.2⟩

/-! ### The conjugated translation -/

/-- Translation part of `(P, p)⁻¹ (R, t) (P, p)` for `det P = 1`: `P⁻¹ (R p + t − p)`. -/
def conjTrans (P : M3) (p : Q3) (o : OpQ) : Q3 :=
  P.adj.applyQ (((o.rot.applyQ p).add o.trans).sub p)

theorem conjTrans_eq {P : M3} (hP : P.det = 1) {o : OpQ} {g : Gen} (hrot : (P.adj.mul o.rot).mul P = g.rot)
    (s n : Q3) :
    (conjTrans P ((P.applyQ s).sub n) o).sub g.trans =
      (residual g (P.adj.applyQ o.trans) s).sub (P.adj.applyQ ((o.rot.applyQ n).sub n)) := by
  have h1 : P.adj.applyQ (o.rot.applyQ (P.applyQ s)) = g.rot.applyQ s := by
    rw [← hrot, applyQ_mul, applyQ_mul]
  unfold conjTrans residual
  rw [applyQ_sub, applyQ_add, applyQ_sub, applyQ_sub, applyQ_sub, applyQ_sub, h1, adj_applyQ_applyQ P hP,
    sub_one_applyQ]
  simp only [Q3.sub, Q3.add, Q3.mk.injEq]
  refine ⟨?_, ?_, ?_⟩ <;> ring

/-- A successful origin-shift match means that `(P, p)` conjugates a matched input operation onto
each database generator, modulo integer translations, up to `eps` in every component. -/
theorem match_affine {ops : List OpQ} {P : M3} {gens : Array Gen} {eps : Rat} {p : Q3}
    (hP : P.det = 1) (h : matchOriginShift ops P gens eps = some p) :
    ∀ g ∈ gens.toList, ∃ o ∈ ops, P.mul g.rot = o.rot.mul P ∧ Within ((conjTrans P p o).sub g.trans) eps := by
  obtain ⟨s, hs, hg⟩ := matchOriginShift_some h
  obtain ⟨n, hn, hpn⟩ := truncFrac_sub (P.applyQ s)
  intro g hgm
  obtain ⟨o, ho, hr, hw⟩ := hg g hgm
  refine ⟨o, ho, conj_of_adj_det_one hP hr, ?_⟩
  rw [hs, hpn, conjTrans_eq hP hr]
  exact hw.sub_int (applyQ_isInt _ ((applyQ_isInt _ hn).sub hn))

end Moyo.S5
