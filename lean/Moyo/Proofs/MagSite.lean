import Moyo.Spec.C11
import Moyo.Proofs.OracleSite
import Moyo.Proofs.OracleC02
/-
Helpers for the magnetic oracles (`Props/C11.lean`, `Props/C13.lean`): the two-stage site search
`findSel2`/`findMagSite`, `firstFail`, and the membership test `hasMOp` (magnetic operations through
the verified non-magnetic `hasOpG ∘ groupByRot` on the two time-reversal halves).
-/
namespace Moyo.MagP
open Moyo Moyo.Oracle Moyo.MagOracle Moyo.Spec Moyo.Periodic Moyo.OracleP

/-! ### `firstFail` -/

theorem firstFail_eq_nil {n : Nat} {f : Nat → Option String} :
    firstFail n f = [] ↔ ∀ i, i < n → f i = none := by
  unfold firstFail
  constructor
  · intro h i hi
    split at h
    · cases h
    · rename_i hnone
      rw [List.findSome?_eq_none_iff] at hnone
      exact hnone i (List.mem_range.2 hi)
  · intro h
    have : (List.range n).findSome? f = none := by
      rw [List.findSome?_eq_none_iff]
      intro i hi
      exact h i (List.mem_range.1 hi)
    rw [this]

/-! ### two-stage site search -/

theorem findSel2_sound {ix : SiteIndex} {y : Q3} {sel extra : Nat → Bool} {r2 : Rat} {j : Nat}
    (h : findSel2 ix y sel extra r2 = some j) :
    j < ix.cell.n ∧ sel j = true ∧ extra j = true ∧
      withinPeriodic ix.cell.lat ix.gi (y.sub ix.cell.pos[j]!) r2 = true := by
  unfold findSel2 at h
  split at h
  · cases h
  · rename_i j' hj'
    split at h
    · rename_i he
      injection h with h
      subst h
      obtain ⟨a, b, c⟩ := findSel_sound hj'
      exact ⟨a, b, he, c⟩
    · obtain ⟨a, b, c⟩ := findSel_sound h
      rw [Bool.and_eq_true] at b
      exact ⟨a, b.1, b.2, c⟩

theorem findSel2_complete {ix : SiteIndex} {y : Q3} {sel extra : Nat → Bool} {r2 : Rat} {j : Nat}
    (hj : j < ix.cell.n) (hs : sel j = true) (he : extra j = true)
    (hw : withinPeriodic ix.cell.lat ix.gi (y.sub ix.cell.pos[j]!) r2 = true) :
    (findSel2 ix y sel extra r2).isSome = true := by
  unfold findSel2
  have h1 := findSel_complete (ix := ix) (y := y) (sel := sel) (r2 := r2) hj hs hw
  split
  · rename_i hnone
    rw [hnone] at h1
    cases h1
  · split
    · rfl
    · exact findSel_complete (sel := fun k => sel k && extra k) hj (by simp [hs, he]) hw

theorem momClose_iff {a b : Q3} {mr2 : Rat} : momClose a b mr2 = true ↔ (a.sub b).normSq ≤ mr2 := by
  unfold momClose
  exact decide_eq_true_iff

/-- A successful magnetic site search certifies `OnMagSite`. -/
theorem findMagSite_sound {mc : MagCellQ} {y : Q3} {sp : Int} {m' : Q3} {r2 mr2 : Rat}
    (h : (findMagSite (SiteIndex.build mc.cell) mc.mom y sp m' r2 mr2).isSome = true) :
    OnMagSite mc y sp m' r2 mr2 := by
  obtain ⟨j, hj⟩ := Option.isSome_iff_exists.1 h
  unfold findMagSite at hj
  obtain ⟨h1, h2, h3, h4⟩ := findSel2_sound hj
  refine ⟨j, h1, ?_, withinPeriodic_sound h4, momClose_iff.1 h3⟩
  simpa [SiteIndex.build] using h2

/-- No false alarm (non-degenerate lattice, radius inside the scanned window). -/
theorem findMagSite_complete {mc : MagCellQ} {y : Q3} {sp : Int} {m' : Q3} {r2 mr2 : Rat}
    (hA : mc.cell.lat.det ≠ 0) (hw : Window mc.cell.lat r2) (h : OnMagSite mc y sp m' r2 mr2) :
    (findMagSite (SiteIndex.build mc.cell) mc.mom y sp m' r2 mr2).isSome = true := by
  obtain ⟨j, hj, hs, hp, hm⟩ := h
  unfold findMagSite
  refine findSel2_complete (j := j) hj ?_ (momClose_iff.2 hm) ?_
  · simpa [SiteIndex.build] using hs
  · exact withinPeriodic_complete hA hw hp

theorem findMagSite_isNone_false {ix : SiteIndex} {mom : Array Q3} {y : Q3} {sp : Int} {m' : Q3} {r2 mr2 : Rat} :
    (findMagSite ix mom y sp m' r2 mr2).isNone = false ↔ (findMagSite ix mom y sp m' r2 mr2).isSome = true := by
  cases findMagSite ix mom y sp m' r2 mr2 <;> simp

/-! ### magnetic operations through the two halves -/

theorem mem_opsWith {ops : Array MOpQ} {tr : Bool} {p : OpQ} :
    p ∈ (opsWith ops tr).toList ↔ ∃ q ∈ ops.toList, q.tr = tr ∧ q.op = p := by
  unfold opsWith
  simp only [List.mem_map, List.mem_filter, beq_iff_eq]
  constructor
  · rintro ⟨q, ⟨hq, ht⟩, rfl⟩
    exact ⟨q, hq, ht, rfl⟩
  · rintro ⟨q, hq, ht, rfl⟩
    exact ⟨q, ⟨hq, ht⟩, rfl⟩

theorem side_build (ops : Array MOpQ) (tr : Bool) :
    (MGroups.build ops).side tr = groupByRot (opsWith ops tr) := by
  cases tr <;> rfl

/-- The membership test accepts only reported magnetic operations. -/
theorem hasMOp_sound {A : QM3} {gi : Q3} {ops : Array MOpQ} {o : MOpQ} {r2 : Rat}
    (h : hasMOp A gi (MGroups.build ops) o r2 = true) : MReported A r2 ops o := by
  unfold hasMOp at h
  rw [side_build] at h
  obtain ⟨p, hp, hr, hd⟩ := hasOpG_sound h
  obtain ⟨q, hq, ht, rfl⟩ := mem_opsWith.1 hp
  exact ⟨q, hq, ht, hr, hd⟩

/-- No false negative. -/
theorem hasMOp_complete {A : QM3} {ops : Array MOpQ} {o : MOpQ} {r2 : Rat} (hA : A.det ≠ 0)
    (hw : Window A r2) (h : MReported A r2 ops o) :
    hasMOp A (ginvDiag A) (MGroups.build ops) o r2 = true := by
  obtain ⟨q, hq, ht, hr, hd⟩ := h
  unfold hasMOp
  rw [side_build]
  apply hasOpG_complete hA hw
  exact ⟨q.op, mem_opsWith.2 ⟨q, hq, ht, rfl⟩, hr, hd⟩

theorem opsWith_size (ops : Array MOpQ) (tr : Bool) :
    (opsWith ops tr).size = (ops.toList.filter fun o => o.tr == tr).length := by
  unfold opsWith
  simp

end Moyo.MagP
