import Moyo.Model.StageSearchBravais
import Batteries.Data.List.Perm
import Mathlib.Tactic.Ring
import Mathlib.Tactic.Linarith
import Mathlib.Tactic.Positivity
import Mathlib.Algebra.Order.Field.Rat
/-
Structural theorems about the model of `search_bravais_group` (`Moyo/Model/StageSearchBravais.lean`).
They hold for every outcome of the floating-point comparisons (the loops are generic in the tests).
-/
namespace Moyo.SearchBravais
open Moyo Moyo.Reduce

/-! ## The filter -/

theorem coeffs27_small : ∀ c ∈ coeffs27, c.x.natAbs ≤ 1 ∧ c.y.natAbs ≤ 1 ∧ c.z.natAbs ≤ 1 := by decide

theorem mkInfo_c (B : QM3) (c : Z3) : (mkInfo B c).c = c := by
  simp only [mkInfo]

theorem mem_collect_candItems {test : VInfo → Bool × Bool} {pts : List VInfo} {w : VInfo}
    (h : w ∈ collect (candItems test pts)) : w ∈ pts := by
  simp only [collect, candItems, List.mem_filterMap, List.mem_map] at h
  obtain ⟨it, ⟨w', hw', rfl⟩, h2⟩ := h
  split at h2
  · cases h2; exact hw'
  · cases h2

theorem mem_points_c {B : QM3} {w : VInfo} (h : w ∈ points B) : w.c ∈ coeffs27 := by
  simp only [points, List.mem_map] at h
  obtain ⟨c, hc, rfl⟩ := h
  rw [mkInfo_c]; exact hc

/-- Every matrix collected by the loops is `fromColumns` of three candidates and passed the determinant test. -/
theorem mem_collect_pairItems {test : Nat → VInfo → VInfo → Bool × Bool} {c0 c1 c2 : List VInfo} {m : M3}
    (h : m ∈ collect (pairItems test c0 c1 c2)) :
    ∃ i0 ∈ c0, ∃ i1 ∈ c1, ∃ i2 ∈ c2, m = fromColumns i0.c i1.c i2.c ∧ m.det.natAbs = 1 := by
  simp only [collect, pairItems, List.mem_filterMap, List.mem_flatMap] at h
  obtain ⟨it, ⟨i0, h0, i1, h1, hit⟩, hm⟩ := h
  refine ⟨i0, h0, i1, h1, ?_⟩
  split at hit
  · rcases List.mem_cons.mp hit with rfl | hit
    · cases hm
    · simp only [tripleItems, List.mem_map] at hit
      obtain ⟨i2, h2, rfl⟩ := hit
      refine ⟨i2, h2, ?_⟩
      split at hm
      · cases hm
      · rename_i hdet
        split at hm
        · cases hm
        · split at hm
          · cases hm
            exact ⟨rfl, Decidable.not_not.mp hdet⟩
          · cases hm
  · rcases List.mem_cons.mp hit with rfl | hit
    · cases hm
    · cases hit

theorem fromColumns_small {a b c : Z3} (ha : a ∈ coeffs27) (hb : b ∈ coeffs27) (hc : c ∈ coeffs27) :
    (fromColumns a b c).small = true := by
  have h1 := coeffs27_small a ha
  have h2 := coeffs27_small b hb
  have h3 := coeffs27_small c hc
  simp [M3.small, M3.toList, fromColumns, h1, h2, h3]

/-- The filter loops over the 27 lattice points, whatever the tests answer. -/
theorem filterWith_sound (lenT : Nat → VInfo → Bool × Bool) (angT : Nat → VInfo → VInfo → Bool × Bool)
    (B : QM3) {m : M3} (h : m ∈ collect (filterWith lenT angT (points B)).1) :
    m.small = true ∧ m.det.natAbs = 1 := by
  simp only [filterWith] at h
  obtain ⟨i0, h0, i1, h1, i2, h2, rfl, hdet⟩ := mem_collect_pairItems h
  exact ⟨fromColumns_small (mem_points_c (mem_collect_candItems h0)) (mem_points_c (mem_collect_candItems h1))
    (mem_points_c (mem_collect_candItems h2)), hdet⟩

/-- **S2, filter.**  Every matrix that passes the filter of `search_bravais_group` (the list `rotations`
handed to `traverse`) has all nine entries in `{-1, 0, 1}` and determinant `±1` — for every basis, every
tolerance and every outcome of the float comparisons. -/
theorem bravais_filter_det (B : QM3) (sp : Rat) (ang : Option Rat) :
    ∀ m ∈ filteredRotations B sp ang, m.small = true ∧ m.det.natAbs = 1 := by
  intro m h
  exact filterWith_sound _ _ B h

/-- `small` spelled out. -/
theorem small_iff (m : M3) : m.small = true ↔
    m.a.natAbs ≤ 1 ∧ m.b.natAbs ≤ 1 ∧ m.c.natAbs ≤ 1 ∧ m.d.natAbs ≤ 1 ∧ m.e.natAbs ≤ 1 ∧ m.f.natAbs ≤ 1 ∧
    m.g.natAbs ≤ 1 ∧ m.h.natAbs ≤ 1 ∧ m.i.natAbs ≤ 1 := by
  simp [M3.small, M3.toList]

/-- The simple cubic lattice `a = 3`, `symprec = 1e-4`-ish, default angle tolerance. -/
def cubicB : QM3 := ⟨3, 0, 0, 0, 3, 0, 0, 0, 3⟩

-- non-vacuity: the filter finds the 48 signed permutation matrices
example : (filteredRotations cubicB (1 / 10000) none).length = 48 := by decide +kernel

/-! ## `traverse` -/

theorem one_mul' (m : M3) : M3.mul M3.one m = m := by
  cases m; simp [M3.mul, M3.one]

theorem nodup_reverse' {l : List M3} (h : l.Nodup) : l.reverse.Nodup := by
  unfold List.Nodup at h ⊢
  rw [List.pairwise_reverse]
  exact h.imp fun hab => Ne.symm hab

/-- Everything already in the group ends up in the output, without repetition; so does everything in the
queue unless the 48-element cap stopped the loop (then the output has 49 elements). -/
theorem bfs_spec (gens : List M3) : ∀ (fuel : Nat) (q group R : List M3), bfs gens fuel q group = some R →
    (R.length ≤ 48 → ∀ x ∈ q, x ∈ R) ∧ (∀ x ∈ group, x ∈ R) ∧ (group.Nodup → R.Nodup) := by
  intro fuel
  induction fuel with
  | zero =>
    intro q group R h
    cases q with
    | nil =>
      simp only [bfs, Option.some.injEq] at h; subst h
      exact ⟨by simp, by simp, fun hn => nodup_reverse' hn⟩
    | cons e q' => simp [bfs] at h
  | succ n ih =>
    intro q group R h
    cases q with
    | nil =>
      simp only [bfs, Option.some.injEq] at h; subst h
      exact ⟨by simp, by simp, fun hn => nodup_reverse' hn⟩
    | cons e q' =>
      simp only [bfs] at h
      split at h
      · rename_i hc
        obtain ⟨h1, h2, h3⟩ := ih _ _ _ h
        refine ⟨?_, h2, h3⟩
        intro hR x hx
        rcases List.mem_cons.mp hx with rfl | hx
        · exact h2 _ (List.contains_iff_mem.mp hc)
        · exact h1 hR _ hx
      · rename_i hc
        have hnd : group.Nodup → (e :: group).Nodup := fun hn =>
          List.nodup_cons.mpr ⟨fun hmem => hc (List.contains_iff_mem.mpr hmem), hn⟩
        split at h
        · rename_i hcap
          simp only [Option.some.injEq] at h; subst h
          refine ⟨?_, ?_, fun hn => nodup_reverse' (hnd hn)⟩
          · intro hR
            simp only [List.length_reverse] at hR
            omega
          · intro x hx
            exact List.mem_reverse.mpr (List.mem_cons_of_mem _ hx)
        · obtain ⟨h1, h2, h3⟩ := ih _ _ _ h
          refine ⟨?_, fun x hx => h2 x (List.mem_cons_of_mem _ hx), fun hn => h3 (hnd hn)⟩
          intro hR x hx
          rcases List.mem_cons.mp hx with rfl | hx
          · exact h2 _ (List.mem_cons_self)
          · exact h1 hR _ (List.mem_append_left _ hx)

/-- The output of `traverse` contains the identity, has no repetition, and — unless the 48-element cap
stopped the loop — contains every generator. -/
theorem traverse_spec {gens R : List M3} (h : traverse gens = some R) :
    M3.one ∈ R ∧ (R.length ≤ 48 → ∀ g ∈ gens, g ∈ R) ∧ R.Nodup := by
  have hf : 2 + 49 * gens.length = (1 + 49 * gens.length) + 1 := by omega
  have h48 : ¬ (0 + 1 > 48) := by omega
  simp only [traverse, hf, bfs, List.contains_nil, Bool.false_eq_true, if_false, List.nil_append,
    List.length_cons, List.length_nil, h48] at h
  obtain ⟨h1, h2, h3⟩ := bfs_spec _ _ _ _ _ h
  refine ⟨h2 _ (List.mem_singleton.mpr rfl), ?_, h3 (List.nodup_cons.mpr ⟨by simp, List.nodup_nil⟩)⟩
  intro hR g hg
  apply h1 hR
  rw [List.mem_map]
  exact ⟨g, hg, one_mul' g⟩

/-- The loop ends within `|queue| + (49 - |group|)·|generators|` pops. -/
theorem bfs_ne_none (gens : List M3) : ∀ (fuel : Nat) (q group : List M3),
    q.length + (49 - group.length) * gens.length ≤ fuel → bfs gens fuel q group ≠ none := by
  intro fuel
  induction fuel with
  | zero =>
    intro q group hf
    cases q with
    | nil => simp [bfs]
    | cons e q' => simp only [List.length_cons] at hf; omega
  | succ n ih =>
    intro q group hf
    cases q with
    | nil => simp [bfs]
    | cons e q' =>
      simp only [bfs]
      simp only [List.length_cons] at hf
      split
      · exact ih _ _ (by omega)
      · split
        · simp
        · rename_i hcap
          simp only [List.length_cons] at hcap
          apply ih
          have h1 : 49 - group.length = (49 - (group.length + 1)) + 1 := by omega
          simp only [List.length_append, List.length_map, List.length_cons]
          rw [h1, Nat.add_mul] at hf
          omega

/-- With the cap, the fuel of `traverse` always suffices. -/
theorem traverse_ne_none (gens : List M3) : traverse gens ≠ none := by
  apply bfs_ne_none
  simp only [List.length_cons, List.length_nil]
  omega

example : (traverse [Moyo.M3.mk 1 1 0 0 1 0 0 0 1]).map List.length = some 49 := by decide +kernel

/-! ## The filtered list has no repetition -/

theorem fromColumns_inj {a b c a' b' c' : Z3} (h : fromColumns a b c = fromColumns a' b' c') :
    a = a' ∧ b = b' ∧ c = c' := by
  cases a; cases b; cases c; cases a'; cases b'; cases c'
  simp only [fromColumns, M3.mk.injEq] at h
  simp only [Z3.mk.injEq]
  omega

theorem collect_flatMap {α β : Type} (l : List α) (f : α → List (Bool × Option β)) :
    collect (l.flatMap f) = l.flatMap fun x => collect (f x) := by
  simp only [collect, List.filterMap_flatMap]

/-- The inner loop for fixed `(i0, i1)`. -/
def inner (test : Nat → VInfo → VInfo → Bool × Bool) (c2 : List VInfo) (i0 i1 : VInfo) : List (Bool × Option M3) :=
  ((test 0 i0 i1).2, none) :: (if (test 0 i0 i1).1 then tripleItems test i0 i1 c2 else [])

theorem pairItems_eq (test : Nat → VInfo → VInfo → Bool × Bool) (c0 c1 c2 : List VInfo) :
    pairItems test c0 c1 c2 = c0.flatMap fun i0 => c1.flatMap fun i1 => inner test c2 i0 i1 := rfl

theorem mem_collect_inner {test : Nat → VInfo → VInfo → Bool × Bool} {c2 : List VInfo} {i0 i1 : VInfo} {m : M3}
    (h : m ∈ collect (inner test c2 i0 i1)) : ∃ i2 ∈ c2, m = fromColumns i0.c i1.c i2.c := by
  have : m ∈ collect (pairItems test [i0] [i1] c2) := by
    simpa [pairItems_eq, collect_flatMap] using h
  obtain ⟨j0, h0, j1, h1, i2, h2, hm, _⟩ := mem_collect_pairItems this
  rw [List.mem_singleton] at h0 h1
  subst h0; subst h1
  exact ⟨i2, h2, hm⟩

theorem nodup_collect_inner (test : Nat → VInfo → VInfo → Bool × Bool) {c2 : List VInfo} (i0 i1 : VInfo)
    (h2 : (c2.map (·.c)).Nodup) : (collect (inner test c2 i0 i1)).Nodup := by
  have hp : c2.Pairwise (fun a b => a.c ≠ b.c) := List.pairwise_map.mp h2
  simp only [inner, collect, List.filterMap_cons_none]
  split
  · simp only [tripleItems, List.filterMap_map]
    refine List.Pairwise.filterMap _ ?_ hp
    intro a a' hne b hb b' hb' hbb
    simp only [Function.comp] at hb hb'
    have e1 : b = fromColumns i0.c i1.c a.c := by
      split at hb
      · cases hb
      · split at hb
        · cases hb
        · split at hb
          · cases hb; rfl
          · cases hb
    have e2 : b' = fromColumns i0.c i1.c a'.c := by
      split at hb'
      · cases hb'
      · split at hb'
        · cases hb'
        · split at hb'
          · cases hb'; rfl
          · cases hb'
    rw [e1, e2] at hbb
    exact hne (fromColumns_inj hbb).2.2
  · simp

theorem nodup_collect_pairItems (test : Nat → VInfo → VInfo → Bool × Bool) {c0 c1 c2 : List VInfo}
    (h0 : (c0.map (·.c)).Nodup) (h1 : (c1.map (·.c)).Nodup) (h2 : (c2.map (·.c)).Nodup) :
    (collect (pairItems test c0 c1 c2)).Nodup := by
  have p0 : c0.Pairwise (fun a b => a.c ≠ b.c) := List.pairwise_map.mp h0
  have p1 : c1.Pairwise (fun a b => a.c ≠ b.c) := List.pairwise_map.mp h1
  rw [pairItems_eq, collect_flatMap]
  simp only [collect_flatMap]
  unfold List.Nodup
  rw [List.pairwise_flatMap]
  refine ⟨?_, ?_⟩
  · intro i0 _
    rw [List.pairwise_flatMap]
    refine ⟨fun i1 _ => nodup_collect_inner test i0 i1 h2, ?_⟩
    refine p1.imp ?_
    intro a b hne x hx y hy hxy
    obtain ⟨_, _, rfl⟩ := mem_collect_inner hx
    obtain ⟨_, _, rfl⟩ := mem_collect_inner hy
    exact hne (fromColumns_inj hxy).2.1
  · refine p0.imp ?_
    intro a b hne x hx y hy hxy
    obtain ⟨i1, _, hx⟩ := List.mem_flatMap.mp hx
    obtain ⟨j1, _, hy⟩ := List.mem_flatMap.mp hy
    obtain ⟨_, _, rfl⟩ := mem_collect_inner hx
    obtain ⟨_, _, rfl⟩ := mem_collect_inner hy
    exact hne (fromColumns_inj hxy).1

theorem coeffs27_nodup : coeffs27.Nodup := by decide

theorem points_c (B : QM3) : (points B).map (·.c) = coeffs27 := by
  simp only [points, List.map_map]
  conv => rhs; rw [← List.map_id coeffs27]
  apply List.map_congr_left
  intro c _
  simp [mkInfo_c]

theorem collect_candItems_sublist (test : VInfo → Bool × Bool) (pts : List VInfo) :
    List.Sublist (collect (candItems test pts)) pts := by
  induction pts with
  | nil => simp [collect, candItems]
  | cons w rest ih =>
    simp only [collect, candItems, List.map_cons, List.filterMap_cons] at ih ⊢
    split
    · exact ih.cons _
    · rename_i b hb
      have : b = w := by
        split at hb
        · cases hb; rfl
        · cases hb
      subst this
      exact ih.cons_cons _

theorem nodup_cand (test : VInfo → Bool × Bool) (B : QM3) :
    ((collect (candItems test (points B))).map (·.c)).Nodup := by
  have hs := (collect_candItems_sublist test (points B)).map (·.c)
  rw [points_c] at hs
  exact coeffs27_nodup.sublist hs

theorem filteredRotations_nodup (B : QM3) (sp : Rat) (ang : Option Rat) : (filteredRotations B sp ang).Nodup := by
  simp only [filteredRotations, filterRun, filterWith]
  exact nodup_collect_pairItems _ (nodup_cand _ B) (nodup_cand _ B) (nodup_cand _ B)

/-! ## The result -/

/-- `finish` answers `ok g` only if `g` is a rearrangement of the (repetition-free) generator list that
starts the traversal: the length test `complemented.len() == rotations.len()` forces equality of sets. -/
theorem finish_ok {rots g : List M3} (hn : rots.Nodup) (h : finish rots = .ok g) :
    g.Perm rots ∧ M3.one ∈ g ∧ g.Nodup ∧ 48 % g.length = 0 := by
  simp only [finish] at h
  split at h
  · cases h
  · rename_i h48
    split at h
    · cases h
    · rename_i g' ht
      split at h
      · cases h
      · rename_i hlen
        cases h
        obtain ⟨h1, h2, h3⟩ := traverse_spec ht
        have hlen' : g.length = rots.length := by simpa using hlen
        simp only [Bool.or_eq_true, List.isEmpty_iff, bne_iff_ne, ne_eq, not_or, Decidable.not_not] at h48
        have hle : g.length ≤ 48 := by
          rw [hlen']
          by_contra hgt
          have := Nat.mod_eq_of_lt (Nat.lt_of_not_le hgt)
          omega
        have hperm : rots.Perm g :=
          (List.subperm_of_subset hn (fun x hx => h2 hle x hx)).perm_of_length_le (by omega)
        refine ⟨hperm.symm, h1, h3, ?_⟩
        rw [hlen']
        exact h48.2

theorem finish_ne_diverged (rots : List M3) : finish rots ≠ .diverged := by
  simp only [finish]
  split
  · simp
  · split
    · rename_i ht; exact absurd ht (traverse_ne_none rots)
    · split <;> simp

/-- The model never answers `err Diverged`. -/
theorem searchBravais_ne_diverged (B : QM3) (sp : Rat) (ang : Option Rat) :
    (searchBravais B sp ang).res ≠ .diverged :=
  finish_ne_diverged _

/-- **S2, result.**  When the model of `search_bravais_group` answers `Ok(rotations)`, the returned list
(`traverse` order) is a rearrangement of the filtered list, has no repetition, contains the identity, its
length divides 48, and every element has all nine entries in `{-1, 0, 1}` and determinant `±1`.
(Closure under multiplication is *not* claimed: the code only tests the number of elements `traverse` found
against the number of filtered matrices, cf. C08.) -/
theorem bravais_result_det (B : QM3) (sp : Rat) (ang : Option Rat) (g : List M3)
    (h : (searchBravais B sp ang).res = .ok g) :
    g.Perm (filteredRotations B sp ang) ∧ g.Nodup ∧ M3.one ∈ g ∧ 48 % g.length = 0 ∧
    ∀ m ∈ g, m.small = true ∧ m.det.natAbs = 1 := by
  have h' : finish (filteredRotations B sp ang) = .ok g := h
  obtain ⟨hp, h1, hn, h48⟩ := finish_ok (filteredRotations_nodup B sp ang) h'
  exact ⟨hp, hn, h1, h48, fun m hm => bravais_filter_det B sp ang m (hp.subset hm)⟩

/-- The primitive orthorhombic lattice `3 × 4 × 5`. -/
def orthoB : QM3 := ⟨3, 0, 0, 0, 4, 0, 0, 0, 5⟩

-- non-vacuity: the model answers `Ok` with the 8 elements of `mmm` (traversal order), for both kinds of
-- angle tolerance
example : (searchBravais orthoB (1 / 10000) none).res = .ok
    [⟨1, 0, 0, 0, 1, 0, 0, 0, 1⟩, ⟨-1, 0, 0, 0, -1, 0, 0, 0, -1⟩, ⟨-1, 0, 0, 0, -1, 0, 0, 0, 1⟩,
     ⟨-1, 0, 0, 0, 1, 0, 0, 0, -1⟩, ⟨-1, 0, 0, 0, 1, 0, 0, 0, 1⟩, ⟨1, 0, 0, 0, -1, 0, 0, 0, -1⟩,
     ⟨1, 0, 0, 0, -1, 0, 0, 0, 1⟩, ⟨1, 0, 0, 0, 1, 0, 0, 0, -1⟩] := by decide +kernel

example : ∃ g, (searchBravais orthoB (1 / 10000) (some (1 / 100))).res = .ok g ∧ g.length = 8 :=
  ⟨[⟨1, 0, 0, 0, 1, 0, 0, 0, 1⟩, ⟨-1, 0, 0, 0, -1, 0, 0, 0, -1⟩, ⟨-1, 0, 0, 0, -1, 0, 0, 0, 1⟩,
    ⟨-1, 0, 0, 0, 1, 0, 0, 0, -1⟩, ⟨-1, 0, 0, 0, 1, 0, 0, 0, 1⟩, ⟨1, 0, 0, 0, -1, 0, 0, 0, -1⟩,
    ⟨1, 0, 0, 0, -1, 0, 0, 0, 1⟩, ⟨1, 0, 0, 0, 1, 0, 0, 0, -1⟩], by decide +kernel, rfl⟩

/-! ## The cache is transparent -/

theorem coeffs27_idx : ∀ c ∈ coeffs27, idxOf c < 27 ∧ coeffs27[idxOf c]? = some c := by decide

theorem points_idx {B : QM3} {a : VInfo} (h : a ∈ points B) :
    idxOf a.c < 27 ∧ (points B).toArray[idxOf a.c]! = a := by
  simp only [points, List.mem_map] at h
  obtain ⟨c, hc, rfl⟩ := h
  rw [mkInfo_c]
  obtain ⟨h1, h2⟩ := coeffs27_idx c hc
  refine ⟨h1, ?_⟩
  simp [points, h2]

/-- On lattice points of `points B` the cached comparison is `angleTest` itself. -/
theorem lookup_eq (B : QM3) (cx : Ctx) (k : Nat) {a b : VInfo} (ha : a ∈ points B) (hb : b ∈ points B) :
    lookup cx (mkTable cx (points B).toArray) k a b = angleTest cx k a b := by
  obtain ⟨hi, hai⟩ := points_idx ha
  obtain ⟨hj, hbj⟩ := points_idx hb
  unfold lookup
  simp only
  split
  · rename_i hk
    have hn : 729 * k + 27 * idxOf a.c + idxOf b.c < 3 * 729 := by omega
    have e1 : (729 * k + 27 * idxOf a.c + idxOf b.c) / 729 = k := by omega
    have e2 : (729 * k + 27 * idxOf a.c + idxOf b.c) % 729 / 27 = idxOf a.c := by omega
    have e3 : (729 * k + 27 * idxOf a.c + idxOf b.c) % 27 = idxOf b.c := by omega
    simp only [mkTable, List.getElem?_toArray, List.getElem?_map, List.getElem?_range hn, Option.map_some,
      Thunk.get, e1, e2, e3, hai, hbj]
  · rfl

/-! ## The square-root enclosure -/

theorem isqrt_spec (n : Nat) : isqrt n * isqrt n ≤ n ∧ n < (isqrt n + 1) * (isqrt n + 1) := by
  unfold isqrt
  split
  · rename_i h
    have : n = 0 ∨ n = 1 := by omega
    rcases this with rfl | rfl <;> simp
  · simp only
    split
    · assumption
    · exact ⟨Nat.sqrt_le n, Nat.lt_succ_sqrt n⟩

/-- `sqrtDy` is a certified enclosure: `lo² ≤ q < hi²`, `0 ≤ lo`, `hi - lo = 2⁻¹⁰⁰`. -/
theorem sqrtDy_sound (q : ℚ) (hq : 0 < q) :
    0 ≤ (sqrtDy q).1 ∧ (sqrtDy q).1 ^ 2 ≤ q ∧ q < (sqrtDy q).2 ^ 2 ∧
    (sqrtDy q).2 - (sqrtDy q).1 = 1 / 2 ^ 100 := by
  unfold sqrtDy
  rw [if_neg (not_le.2 hq)]
  simp only
  have hnum : 0 < q.num := Rat.num_pos.2 hq
  have hden : (0 : ℚ) < (q.den : ℚ) := by exact_mod_cast q.den_pos
  have hqd : ((q.num.toNat : ℕ) : ℚ) = q * (q.den : ℚ) := by
    have h1 : ((q.num.toNat : ℕ) : ℤ) = q.num := Int.toNat_of_nonneg (le_of_lt hnum)
    have h2 : ((q.num.toNat : ℕ) : ℚ) = (q.num : ℚ) := by exact_mod_cast h1
    rw [h2]; exact (Rat.mul_den_eq_num q).symm
  set N : ℕ := q.num.toNat * 2 ^ 200 with hN
  set m : ℕ := N / q.den with hm
  obtain ⟨hlo, hhi⟩ := isqrt_spec m
  set s : ℕ := isqrt m with hs
  have h1 : m * q.den ≤ N := Nat.div_mul_le_self N q.den
  have h2 : N < (m + 1) * q.den := (Nat.div_lt_iff_lt_mul q.den_pos).mp (Nat.lt_succ_self m)
  have hNq : (N : ℚ) = q * 2 ^ 200 * (q.den : ℚ) := by
    rw [hN]; push_cast; rw [hqd]; ring
  have h1q : (m : ℚ) ≤ q * 2 ^ 200 := by
    have : (m : ℚ) * (q.den : ℚ) ≤ (N : ℚ) := by exact_mod_cast h1
    rw [hNq] at this
    exact le_of_mul_le_mul_right this hden
  have h2q : q * 2 ^ 200 < (m : ℚ) + 1 := by
    have : (N : ℚ) < ((m : ℚ) + 1) * (q.den : ℚ) := by exact_mod_cast h2
    rw [hNq] at this
    exact lt_of_mul_lt_mul_right this (le_of_lt hden)
  have hs1 : (s : ℚ) ^ 2 ≤ (m : ℚ) := by
    rw [pow_two]; exact_mod_cast hlo
  have hs2 : (m : ℚ) + 1 ≤ ((s + 1 : ℕ) : ℚ) ^ 2 := by
    have : m + 1 ≤ (s + 1) * (s + 1) := hhi
    rw [pow_two]; exact_mod_cast this
  have hD : ((2 ^ 100 : ℕ) : ℚ) = 2 ^ 100 := by push_cast; rfl
  have hDD : ((2 : ℚ) ^ 100) ^ 2 = 2 ^ 200 := by rw [← pow_mul]
  rw [hD]
  refine ⟨by positivity, ?_, ?_, ?_⟩
  · rw [div_pow, div_le_iff₀ (by positivity), hDD]
    linarith
  · rw [div_pow, lt_div_iff₀ (by positivity), hDD]
    linarith
  · rw [← sub_div]; push_cast; ring

example : (sqrtDy 2).1 ^ 2 ≤ 2 ∧ (2 : ℚ) < (sqrtDy 2).2 ^ 2 :=
  ⟨(sqrtDy_sound 2 (by norm_num)).2.1, (sqrtDy_sound 2 (by norm_num)).2.2.1⟩

end Moyo.SearchBravais
