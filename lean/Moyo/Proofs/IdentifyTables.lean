import Moyo.Proofs.IdentifyTableDefs
/-
Kernel-decided table facts for stage S5 (kept apart from `Props/C03Stages.lean` so that the property
file elaborates quickly): rotation types of the representative point groups, non-emptiness of the
primitive generator lists.
-/
set_option maxRecDepth 100000
namespace Moyo.S5
open Moyo Moyo.Generated

theorem geoRows_ok : geoRows = true := by decide +kernel

theorem arithRows_ok : arithRows = true := by decide +kernel

theorem gensRows_ok : gensRows = true := by decide +kernel

end Moyo.S5
