import Moyo.Proofs.C16Types
import Mathlib.Data.List.Forall2
import Mathlib.Data.List.Nodup
/-
C16 (g) / C17, part 2: `count s src = count s tgt` for affinely conjugate lists of coset
representatives with pairwise different linear parts (`count_eq_of_affConj`).

The conjugating map induces a relation between the elements of `G / mT` and of `G' / mT`
(`CC F m`) that is total (`slot_total`), injective (`slot_inj`), preserves rotation types and
maps solutions of a system to solutions (`sat_of_forall₂`); the count of solutions can therefore
only grow, and the inverse map gives the other inequality.
-/
namespace Moyo.TypeInv
open Moyo Moyo.TableSpec Moyo.Tables Moyo.TypeInvariant

/-! ### frames of affine certificates -/

theorem det_adj_of_det_one {P : M3} (hd : P.det = 1) : P.adj.det = 1 := by
  have hu : P.mul P.adj = M3.one := by
    have := OracleGroup.mul_inv1 (g := P) (Or.inl hd)
    rwa [OracleGroup.inv1, hd, M3.one_smul] at this
  have := congrArg M3.det hu
  rw [M3.det_mul, hd, one_mul, det_one] at this
  exact this

theorem unimod_adj {P : M3} (hd : P.det = 1) : Unimod P P.adj := by
  have hdd : P.det = 1 ∨ P.det = -1 := Or.inl hd
  have hu : Unimod P (OracleGroup.inv1 P) := ⟨OracleGroup.mul_inv1 hdd, OracleGroup.inv1_mul hdd⟩
  rwa [OracleGroup.inv1, hd, M3.one_smul] at hu

/-- The frame of the certificate of an `AffConj`. -/
def frameOf (c : AffCert) (hd : c.P.det = 1) (hpos : 0 < c.den) (h12 : c.den % 12 = 0) : Frame where
  P := c.P
  Q := c.P.adj
  p := c.p
  s := c.den / 12
  unimod := unimod_adj hd
  detQ := det_adj_of_det_one hd
  spos := by omega

/-- The inverse map. -/
def Frame.inv (F : Frame) (hP : F.P.det = 1) : Frame where
  P := F.Q
  Q := F.P
  p := -F.Q.apply F.p
  s := F.s
  unimod := F.unimod.symm
  detQ := hP
  spos := F.spos

theorem cc_of_affMaps {c : AffCert} (hd : c.P.det = 1) (hpos : 0 < c.den) (h12 : c.den % 12 = 0) {o o0 : HOp}
    (h : AffMaps c o o0) : CC (frameOf c hd hpos h12) 1 o o0 := by
  obtain ⟨h1, h2, k, h3⟩ := h
  have hu := unimod_adj hd
  refine ⟨?_, h2, k, ?_⟩
  · show o.rot.mul c.P = c.P.mul o0.rot
    rw [h1, ← M3.mul_assoc, ← M3.mul_assoc, hu.1, M3.one_mul]
  · show o.rot.apply c.p + (c.den / 12) • o.trans =
      c.p + (c.den / 12) • c.P.apply o0.trans + (12 * (c.den / 12) * 1) • k
    have hden : 12 * (c.den / 12) * 1 = c.den := by omega
    rw [hden]
    change (o.rot.apply c.p + (c.den / 12) • o.trans) - (c.p + (c.den / 12) • c.P.apply o0.trans) = c.den • k at h3
    rw [← h3]; module

theorem CC.symm (F : Frame) (hP : F.P.det = 1) {m : Int} {g g0 : HOp} (h : CC F m g g0) :
    CC (F.inv hP) m g0 g := by
  obtain ⟨h1, h2, k, h3⟩ := h
  have hrot : g0.rot.mul F.Q = F.Q.mul g.rot := by
    have : F.Q.mul ((g.rot.mul F.P).mul F.Q) = F.Q.mul ((F.P.mul g0.rot).mul F.Q) := by rw [h1]
    rw [M3.mul_assoc g.rot, F.unimod.1, M3.mul_one, M3.mul_assoc F.P, ← M3.mul_assoc F.Q F.P, F.unimod.2,
      M3.one_mul] at this
    exact this.symm
  refine ⟨hrot, h2.symm, -F.Q.apply k, ?_⟩
  show g0.rot.apply (-F.Q.apply F.p) + F.s • g0.trans =
    -F.Q.apply F.p + F.s • F.Q.apply g.trans + (12 * F.s * m) • (-F.Q.apply k)
  have e1 : g0.rot.apply (F.Q.apply F.p) = F.Q.apply (g.rot.apply F.p) := by
    rw [← apply_mul, ← apply_mul, hrot]
  have e2 : F.Q.apply (g.rot.apply F.p + F.s • g.trans) =
      F.Q.apply (F.p + F.s • F.P.apply g0.trans + (12 * F.s * m) • k) := by rw [h3]
  rw [apply_add', apply_add', apply_add', apply_smul', apply_smul', apply_smul', F.QP] at e2
  rw [apply_neg', e1]
  have e3 : F.Q.apply (g.rot.apply F.p) =
      F.Q.apply F.p + F.s • g0.trans + (12 * F.s * m) • F.Q.apply k - F.s • F.Q.apply g.trans := by
    rw [← e2]; module
  rw [e3]; module

/-! ### the elements of `G / mT` -/

theorem mem_slotElems {m : Nat} {prim : List HOp} {τ : SlotType} {x : HOp} :
    x ∈ slotElems m prim τ ↔ ∃ o ∈ prim, typeIs τ o = true ∧ ∃ n ∈ vecsMod m, x = lift n o := by
  simp only [slotElems, List.mem_flatMap, List.mem_filter, List.mem_map]
  constructor
  · rintro ⟨o, ⟨ho, ht⟩, n, hn, rfl⟩
    exact ⟨o, ho, ht, n, hn, rfl⟩
  · rintro ⟨o, ho, ht, n, hn, rfl⟩
    exact ⟨o, ⟨ho, ht⟩, n, hn, rfl⟩

theorem lift_inj {n n' : Z3} {o : HOp} (h : lift n o = lift n' o) : n = n' := by
  have ht := congrArg HOp.trans h
  change o.trans + (12 : Int) • n = o.trans + (12 : Int) • n' at ht
  exact smul_cancel (by decide) (add_left_cancel ht)

/-- Different elements of the list are incongruent modulo `mT`. -/
theorem lift_eq_of_eqM {m : Nat} {prim : List HOp} (hnd : (prim.map opKey).Nodup) {o o' : HOp}
    (ho : o ∈ prim) (ho' : o' ∈ prim) {n n' : Z3} (hn : n ∈ vecsMod m) (hn' : n' ∈ vecsMod m)
    (h : EqM m (lift n o) (lift n' o')) : lift n o = lift n' o' := by
  obtain ⟨h1, h2, v, hv⟩ := h
  have hoo : o = o' := List.inj_on_of_nodup_map hnd ho ho' (Prod.ext h1 h2 : opKey o = opKey o')
  subst hoo
  change (o.trans + (12 : Int) • n) - (o.trans + (12 : Int) • n') = (12 * (m : Int)) • v at hv
  have h12 : (12 : Int) • n = (12 : Int) • (n' + (m : Int) • v) := by
    have : (12 : Int) • n = ((o.trans + (12 : Int) • n) - (o.trans + (12 : Int) • n')) + (12 : Int) • n' := by module
    rw [this, hv]; module
  have hnn : VEq m n n' := ⟨v, smul_cancel (by decide) h12⟩
  rw [eq_of_veq_reduced hnn ((mem_vecsMod_iff m n).1 hn) ((mem_vecsMod_iff m n').1 hn')]

theorem slotElems_nodup {m : Nat} (hv : (vecsMod m).Nodup) {prim : List HOp} (hnd : (prim.map opKey).Nodup)
    (τ : SlotType) : (slotElems m prim τ).Nodup := by
  have hp : prim.Nodup := List.Nodup.of_map _ hnd
  unfold slotElems
  rw [List.nodup_flatMap]
  refine ⟨fun o _ => hv.map (fun n n' h => lift_inj h), ?_⟩
  have hpw : (prim.filter (typeIs τ)).Pairwise (· ≠ ·) := (hp.filter _)
  refine hpw.imp_of_mem ?_
  intro o o' ho ho' hne
  simp only [Function.onFun, List.disjoint_left, List.mem_map]
  rintro x ⟨n, _, rfl⟩ ⟨n', _, hx⟩
  have hr : (lift n' o').rot = (lift n o).rot := congrArg HOp.rot hx
  have htr : (lift n' o').tr = (lift n o).tr := congrArg HOp.tr hx
  exact hne (List.inj_on_of_nodup_map hnd (List.mem_of_mem_filter ho) (List.mem_of_mem_filter ho')
    (Prod.ext hr.symm htr.symm : opKey o = opKey o'))

theorem typeIs_of_cc (F : Frame) {m : Int} {x y : HOp} (h : CC F m x y) (τ : SlotType) (hx : typeIs τ x = true) :
    typeIs τ y = true := by
  have hy : y.rot = (F.Q.mul x.rot).mul F.P := by
    rw [M3.mul_assoc, h.1, ← M3.mul_assoc, F.unimod.2, M3.one_mul]
  unfold typeIs at hx ⊢
  rw [hy, trace_conj F.unimod, det_conj F.unimod, h.2.1]
  exact hx

/-- Every element of `G / mT` has an image in `G' / mT`. -/
theorem slot_total (F : Frame) {src tgt : List HOp} (h1 : ∀ o ∈ src, ∃ o0 ∈ tgt, CC F 1 o o0) {m : Nat} (τ : SlotType) :
    ∀ x ∈ slotElems m src τ, ∃ y ∈ slotElems m tgt τ, CC F m x y := by
  intro x hx
  obtain ⟨o, ho, ht, n, _, rfl⟩ := mem_slotElems.1 hx
  obtain ⟨o0, ho0, hc⟩ := h1 o ho
  obtain ⟨c1, c2, k, c3⟩ := hc
  by_cases hm : m = 0
  · subst hm
    -- no elements at all
    have : vecsMod 0 = [] := rfl
    rw [mem_slotElems] at hx
    obtain ⟨_, _, _, n', hn', _⟩ := hx
    rw [this] at hn'
    cases hn'
  have hmpos : 0 < m := Nat.pos_of_ne_zero hm
  obtain ⟨q, hq⟩ := VEq.mod_self (m : Int) (F.Q.apply (k + n))
  change (F.Q.apply (k + n)).mod m = F.Q.apply (k + n) + (m : Int) • q at hq
  have hcc : CC F m (lift n o) (lift ((F.Q.apply (k + n)).mod m) o0) := by
    refine ⟨c1, c2, -F.P.apply q, ?_⟩
    show o.rot.apply F.p + F.s • (o.trans + (12 : Int) • n) =
      F.p + F.s • F.P.apply (o0.trans + (12 : Int) • (F.Q.apply (k + n)).mod m) + (12 * F.s * (m : Int)) • (-F.P.apply q)
    rw [hq, apply_add', apply_smul', apply_add', apply_smul', F.PQ]
    have e : o.rot.apply F.p = F.p + F.s • F.P.apply o0.trans + (12 * F.s * 1) • k - F.s • o.trans := by
      rw [← c3]; module
    rw [e]; module
  refine ⟨_, mem_slotElems.2 ⟨o0, ho0, ?_, _, (mem_vecsMod_iff m _).2 (reduced_mod hmpos _), rfl⟩, hcc⟩
  have h1' : CC F 1 o o0 := ⟨c1, c2, k, c3⟩
  exact typeIs_of_cc F h1' τ ht

/-- Two elements with the same image are equal. -/
theorem slot_inj (F : Frame) {src : List HOp} (hnd : (src.map opKey).Nodup) {m : Nat} (τ : SlotType) :
    ∀ x ∈ slotElems m src τ, ∀ x' ∈ slotElems m src τ, ∀ y, CC F m x y → CC F m x' y → x = x' := by
  intro x hx x' hx' y hxy hx'y
  obtain ⟨o, ho, _, n, hn, rfl⟩ := mem_slotElems.1 hx
  obtain ⟨o', ho', _, n', hn', rfl⟩ := mem_slotElems.1 hx'
  have hyy : EqM m y y := ⟨rfl, rfl, 0, by module⟩
  exact lift_eq_of_eqM hnd ho ho' hn hn' ((CC.eqM F hxy hx'y).2 hyy)

/-! ### tuples -/

theorem mem_tuples {ls : List (List HOp)} {t : List HOp} :
    t ∈ tuples ls ↔ List.Forall₂ (fun x l => x ∈ l) t ls := by
  induction ls generalizing t with
  | nil =>
    simp only [tuples, List.mem_singleton]
    constructor
    · rintro rfl; exact List.Forall₂.nil
    · intro h; cases h; rfl
  | cons l rest ih =>
    simp only [tuples, List.mem_flatMap, List.mem_map]
    constructor
    · rintro ⟨x, hx, t', ht', rfl⟩
      exact List.Forall₂.cons hx (ih.1 ht')
    · intro h
      cases h with
      | cons hx ht' => exact ⟨_, hx, _, ih.2 ht', rfl⟩

theorem tuples_nodup {ls : List (List HOp)} (h : ∀ l ∈ ls, l.Nodup) : (tuples ls).Nodup := by
  induction ls with
  | nil => simp [tuples]
  | cons l rest ih =>
    have hrest := ih fun l' hl' => h l' (List.mem_cons_of_mem _ hl')
    have hl : l.Nodup := h l List.mem_cons_self
    simp only [tuples]
    rw [List.nodup_flatMap]
    refine ⟨fun x _ => hrest.map (fun a b hab => (List.cons_injective hab)), ?_⟩
    refine hl.imp ?_
    intro x x' hne
    simp only [Function.onFun, List.disjoint_left, List.mem_map]
    rintro t ⟨a, _, rfl⟩ ⟨b, _, hb⟩
    exact hne (List.head_eq_of_cons_eq hb).symm

theorem tuples_total {R : HOp → HOp → Prop} {f g : SlotType → List HOp}
    (h : ∀ τ, ∀ x ∈ f τ, ∃ y ∈ g τ, R x y) :
    ∀ (types : List SlotType) (t : List HOp), t ∈ tuples (types.map f) →
      ∃ t' ∈ tuples (types.map g), List.Forall₂ R t t' := by
  intro types
  induction types with
  | nil =>
    intro t ht
    rw [List.map_nil, mem_tuples] at ht
    cases ht
    exact ⟨[], by simp [tuples], List.Forall₂.nil⟩
  | cons τ rest ih =>
    intro t ht
    rw [List.map_cons, mem_tuples] at ht
    cases ht with
    | cons hx ht' =>
      obtain ⟨y, hy, hxy⟩ := h τ _ hx
      obtain ⟨t', ht'', hr⟩ := ih _ (mem_tuples.2 ht')
      exact ⟨y :: t', by rw [List.map_cons, mem_tuples]; exact List.Forall₂.cons hy (mem_tuples.1 ht''),
        List.Forall₂.cons hxy hr⟩

theorem tuples_inj {R : HOp → HOp → Prop} {f : SlotType → List HOp}
    (h : ∀ τ, ∀ x ∈ f τ, ∀ x' ∈ f τ, ∀ y, R x y → R x' y → x = x') :
    ∀ (types : List SlotType) (t t' u : List HOp), t ∈ tuples (types.map f) → t' ∈ tuples (types.map f) →
      List.Forall₂ R t u → List.Forall₂ R t' u → t = t' := by
  intro types
  induction types with
  | nil =>
    intro t t' u ht ht' _ _
    rw [List.map_nil, mem_tuples] at ht ht'
    cases ht; cases ht'; rfl
  | cons τ rest ih =>
    intro t t' u ht ht' hr hr'
    rw [List.map_cons, mem_tuples] at ht ht'
    cases ht with
    | cons hx hts =>
      cases ht' with
      | cons hx' hts' =>
        cases hr with
        | cons hxy hru =>
          cases hr' with
          | cons hx'y hru' =>
            rw [h τ _ hx _ hx' _ hxy hx'y, ih _ _ _ (mem_tuples.2 hts) (mem_tuples.2 hts') hru hru']

/-- Counting along a total, injective, property-preserving relation. -/
theorem countP_le_of_rel {α : Type} [Inhabited α] {A B : List α} (pA pB : α → Bool) (ρ : α → α → Prop)
    (hA : A.Nodup) (tot : ∀ x ∈ A, ∃ y ∈ B, ρ x y)
    (inj : ∀ x ∈ A, ∀ x' ∈ A, ∀ y, ρ x y → ρ x' y → x = x')
    (pres : ∀ x ∈ A, ∀ y, ρ x y → pA x = true → pB y = true) : A.countP pA ≤ B.countP pB := by
  choose! f hfB hfρ using tot
  rw [List.countP_eq_length_filter, List.countP_eq_length_filter]
  have hnd : ((A.filter pA).map f).Nodup := by
    refine (hA.filter _).map_on ?_
    intro x hx x' hx' hxx
    have hxA := (List.mem_filter.1 hx).1
    have hxA' := (List.mem_filter.1 hx').1
    exact inj x hxA x' hxA' (f x) (hfρ x hxA) (hxx ▸ hfρ x' hxA')
  have hsub : (A.filter pA).map f ⊆ B.filter pB := by
    intro y hy
    obtain ⟨x, hx, rfl⟩ := List.mem_map.1 hy
    obtain ⟨hxA, hp⟩ := List.mem_filter.1 hx
    exact List.mem_filter.2 ⟨hfB x hxA, pres x hxA _ (hfρ x hxA) hp⟩
  simpa using hnd.length_le_of_subset hsub

/-! ### invariance of the count -/

theorem countSpec_le (s : Spec) (hv : (vecsMod s.m).Nodup) (F : Frame) {src tgt : List HOp}
    (hnd : (src.map opKey).Nodup) (h1 : ∀ o ∈ src, ∃ o0 ∈ tgt, CC F 1 o o0) : countSpec s src ≤ countSpec s tgt := by
  unfold countSpec
  refine countP_le_of_rel (sat s) (sat s) (List.Forall₂ (CC F s.m)) ?_ ?_ ?_ ?_
  · refine tuples_nodup ?_
    intro l hl
    obtain ⟨τ, _, rfl⟩ := List.mem_map.1 hl
    exact slotElems_nodup hv hnd τ
  · exact tuples_total (fun τ => slot_total F h1 τ) s.types
  · intro t ht t' ht' u hr hr'
    exact tuples_inj (fun τ => slot_inj F hnd τ) s.types t t' u ht ht' hr hr'
  · intro t _ u hr hs
    exact sat_of_forall₂ F s hr hs

/-- **Invariance.**  Affinely conjugate lists of coset representatives (pairwise different linear
parts) have the same number of solutions of every system. -/
theorem countSpec_eq_of_affConj (s : Spec) (hv : (vecsMod s.m).Nodup) {src tgt : List HOp}
    (hs : (src.map opKey).Nodup) (ht : (tgt.map opKey).Nodup) (h : AffConj src tgt) :
    countSpec s src = countSpec s tgt := by
  obtain ⟨_, c, hd, hpos, h12, h1, h2⟩ := h
  let F := frameOf c hd hpos h12
  refine Nat.le_antisymm (countSpec_le s hv F hs ?_) (countSpec_le s hv (F.inv hd) ht ?_)
  · intro o ho
    obtain ⟨o0, ho0, hm⟩ := h1 o ho
    exact ⟨o0, ho0, cc_of_affMaps hd hpos h12 hm⟩
  · intro o0 ho0
    obtain ⟨o, ho, hm⟩ := h2 o0 ho0
    exact ⟨o, ho, CC.symm F hd (cc_of_affMaps hd hpos h12 hm)⟩

theorem rotsDistinct_iff (l : List HOp) : rotsDistinct l = true ↔ (l.map (·.rot)).Nodup := by
  induction l with
  | nil => simp [rotsDistinct]
  | cons o rest ih =>
    simp only [rotsDistinct, Bool.and_eq_true, List.all_eq_true, Bool.not_eq_eq_eq_not, Bool.not_true,
      beq_eq_false_iff_ne, ne_eq, ih, List.map_cons, List.nodup_cons, List.mem_map, not_exists, not_and]

theorem keysDistinct_iff (l : List HOp) : keysDistinct l = true ↔ (l.map opKey).Nodup := by
  induction l with
  | nil => simp [keysDistinct]
  | cons o rest ih =>
    simp only [keysDistinct, Bool.and_eq_true, List.all_eq_true, Bool.not_eq_eq_eq_not, Bool.not_true,
      Bool.and_eq_false_imp, beq_iff_eq, beq_eq_false_iff_ne, ne_eq, ih, List.map_cons, List.nodup_cons, List.mem_map,
      not_exists, not_and, opKey, Prod.mk.injEq]

/-- Pairwise different linear parts are in particular pairwise different keys. -/
theorem keyNodup_of_rotNodup {l : List HOp} (h : (l.map (·.rot)).Nodup) : (l.map opKey).Nodup := by
  have : l.map (·.rot) = (l.map opKey).map Prod.fst := by simp [opKey, Function.comp_def]
  rw [this] at h
  exact List.Nodup.of_map _ h

theorem vecsMod_nodup_4 : (vecsMod 4).Nodup := by decide

end Moyo.TypeInv
