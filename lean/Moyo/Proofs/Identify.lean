import Moyo.Model.StageIdentify
import Mathlib.Tactic.Ring
import Mathlib.Tactic.Linarith
/-
Helper lemmas for `Moyo/Props/C03Stages.lean` (stage S5, `SpaceGroup::new`): what a successful
first-success search returns, `det = 1` of every transformation matrix that reaches
`match_origin_shift`, and the reading of `match_origin_shift` / `solve_mod1`.
-/
namespace Moyo.S5
open Moyo Moyo.Generated

/-! ### First-success searches -/

theorem prodFirst_some {α β : Type} : ∀ (cs : List (List α)) (f : List α → Option β) (b : β),
    prodFirst cs f = some b → ∃ xs, xs.length = cs.length ∧ (∀ p ∈ xs.zip cs, p.1 ∈ p.2) ∧ f xs = some b
  | [], f, b, h => ⟨[], rfl, by simp, h⟩
  | c :: cs, f, b, h => by
    unfold prodFirst at h
    obtain ⟨x, hx, hx2⟩ := List.exists_of_findSome?_eq_some h
    obtain ⟨xs, hl, hm, hf⟩ := prodFirst_some cs _ b hx2
    refine ⟨x :: xs, by simp [hl], ?_, hf⟩
    intro p hp
    simp only [List.zip_cons_cons, List.mem_cons] at hp
    rcases hp with rfl | hp
    · exact hx
    · exact hm p hp

theorem unimodularFirst_some {β : Type} (basis : List M3) (g : M3 → Option β) (b : β)
    (h : unimodularFirst basis g = some b) : ∃ P : M3, P.det = 1 ∧ g P = some b := by
  unfold unimodularFirst at h
  simp only at h
  split at h
  · rename_i b' hb'
    obtain ⟨xs, _, _, hf⟩ := prodFirst_some _ _ _ hb'
    simp only [Option.some.injEq] at h
    subst h
    split at hf
    · exact ⟨_, ‹_›, hf⟩
    · simp at hf
  · obtain ⟨xs, _, _, hf⟩ := prodFirst_some _ _ _ h
    split at hf
    · split at hf
      · exact ⟨_, ‹_›, hf⟩
      · simp at hf
    · simp at hf

theorem transMatBasisFirst_some {β : Type} (rots : Array M3) (types : Array Nat) (gens : List M3)
    (g : List M3 → Option β) (b : β) (h : transMatBasisFirst rots types gens g = some b) :
    ∃ basis, g basis = some b := by
  unfold transMatBasisFirst at h
  obtain ⟨xs, _, _, hf⟩ := prodFirst_some _ _ _ h
  simp only [Option.bind_eq_some_iff] at hf
  obtain ⟨basis, _, hg⟩ := hf
  exact ⟨basis, hg⟩

/-! ### 3×3 integer algebra -/

theorem M3.det_mul (p q : M3) : (p.mul q).det = p.det * q.det := by
  simp only [M3.mul, M3.det]; ring

theorem M3.mul_adj_conj (P R : M3) : P.mul ((P.adj.mul R).mul P) = M3.smul P.det (R.mul P) := by
  simp only [M3.mul, M3.adj, M3.smul, M3.det, M3.mk.injEq]
  refine ⟨?_, ?_, ?_, ?_, ?_, ?_, ?_, ?_, ?_⟩ <;> ring

theorem M3.one_smul (p : M3) : M3.smul 1 p = p := by
  simp [M3.smul]

/-- With `det P = 1`: `adj P · R · P = N` implies `P N = R P`. -/
theorem conj_of_adj_det_one {P R N : M3} (hP : P.det = 1) (h : (P.adj.mul R).mul P = N) :
    P.mul N = R.mul P := by
  rw [← h, M3.mul_adj_conj, hP, M3.one_smul]

/-! ### `PointGroup::new` returns a matrix of determinant one -/

theorem cubicStep_det {cands : List (Nat × (List M3 × Centering))} {basis : List M3} {pg : PointGroup}
    (h : cubicStep cands basis = some (.ok pg)) : pg.primTransMat.det = 1 := by
  unfold cubicStep at h
  split at h
  · simp only at h
    split at h
    · simp at h
    · generalize (if _ < (0 : Int) then M3.neg _ else _) = conv at h
      split at h
      · simp at h
      · split at h
        · simp at h
        · rename_i hdet
          simp only [Option.some.injEq, Except.ok.injEq] at h
          subst h
          simpa using hdet
  · simp at h

theorem pointGroupNew_det {rots : List M3} {pg : PointGroup} (h : pointGroupNew rots = .ok pg) :
    pg.primTransMat.det = 1 := by
  unfold pointGroupNew at h
  split at h
  · simp at h
  · split at h
    · simp at h
    · simp only at h
      split at h
      · split at h
        · cases h; decide
        · split at h
          · cases h; decide
          · simp at h
      · split at h
        · -- cubic
          unfold matchWithCubicPointGroup at h
          simp only at h
          split at h
          · simp at h
          · split at h
            · rename_i r hr
              obtain ⟨basis, hb⟩ := transMatBasisFirst_some _ _ _ _ _ hr
              subst h
              exact cubicStep_det hb
            · simp at h
        · unfold matchWithPointGroup at h
          simp only at h
          split at h
          · rename_i pg' hr
            cases h
            obtain ⟨a, _, ha⟩ := List.exists_of_findSome?_eq_some hr
            split at ha
            · simp at ha
            · simp only [Option.map_eq_some_iff] at ha
              obtain ⟨P, hP, rfl⟩ := ha
              obtain ⟨basis, hb⟩ := transMatBasisFirst_some _ _ _ _ _ hP
              obtain ⟨P', hdet, hP'⟩ := unimodularFirst_some _ _ _ hb
              simp only [Option.some.injEq] at hP'
              subst hP'
              exact hdet
          · simp at h

/-! ### `solve_mod1`: the final residual test -/

theorem residualOK_iff {m : Nat} (a : IMat m 3) (b : Vector Rat m) (eps : Rat) (x : Q3) :
    residualOK a b eps x = true ↔ ∀ i : Fin m, ratAbs (ratWrap (rowDot a i x - b[i])) ≤ eps := by
  unfold residualOK
  simp only [List.all_eq_true, List.mem_finRange, forall_const, Bool.not_eq_true', decide_eq_false_iff_not,
    gt_iff_lt, not_lt]

theorem solveMod1_residualOK {m : Nat} {a : IMat m 3} {b : Vector Rat m} {eps : Rat} {x : Q3}
    (h : solveMod1 a b eps = some x) : residualOK a b eps x = true := by
  unfold solveMod1 at h
  split at h
  · simp only at h
    split at h
    · simp at h
    · split at h
      · rename_i hr
        simp only [Option.some.injEq] at h
        subst h
        exact hr
      · simp at h
  · simp at h

/-! ### `match_origin_shift` -/

theorem allSome_some {α β : Type} (f : α → Option β) : ∀ (xs : List α) (ys : List β),
    allSome f xs = some ys → ys.length = xs.length ∧
      ∀ (k : Nat) (h1 : k < xs.length) (h2 : k < ys.length), f xs[k] = some ys[k]
  | [], ys, h => by
    simp only [allSome, Option.some.injEq] at h
    subst h
    exact ⟨rfl, fun k h1 => absurd h1 (by simp)⟩
  | x :: xs, ys, h => by
    unfold allSome at h
    split at h
    · rename_i y ys' hy hys
      simp only [Option.some.injEq] at h
      subst h
      obtain ⟨hl, hk⟩ := allSome_some f xs ys' hys
      refine ⟨by simp [hl], ?_⟩
      intro k h1 h2
      cases k with
      | zero => simpa using hy
      | succ k => simpa using hk k (by simpa using h1) (by simpa using h2)
    · simp at h

theorem hmGet_some {opsRev : List OpQ} {R : M3} {t : Q3} (h : hmGet opsRev R = some t) :
    ∃ o ∈ opsRev, o.rot = R ∧ o.trans = t := by
  unfold hmGet at h
  simp only [Option.map_eq_some_iff] at h
  obtain ⟨o, ho, rfl⟩ := h
  refine ⟨o, List.mem_of_find?_eq_some ho, ?_, rfl⟩
  have := List.find?_some ho
  simpa using this

/-- Componentwise residual of one generator against the conjugated translation `t`:
`(R_db − I) s − (t_db − t)`. -/
def residual (g : Gen) (t s : Q3) : Q3 := ((g.rot.sub M3.one).applyQ s).sub (g.trans.sub t)

/-- Every component is within `eps` of an integer. -/
def Within (v : Q3) (eps : Rat) : Prop :=
  ratAbs (ratWrap v.x) ≤ eps ∧ ratAbs (ratWrap v.y) ≤ eps ∧ ratAbs (ratWrap v.z) ≤ eps

theorem rowDot_shiftMat (gens : Array Gen) (k : Nat) (hk : k < gens.size) (c : Nat) (hc : c < 3) (s : Q3) :
    rowDot (shiftMat gens) ⟨3 * k + c, by omega⟩ s = qget ((gens[k].rot.sub M3.one).applyQ s) c := by
  have h1 : (3 * k + c) / 3 = k := by omega
  have h2 : (3 * k + c) % 3 = c := by omega
  unfold rowDot shiftMat
  simp only [IMat.get_ofFn, h1, h2, Array.getD_eq_getD_getElem?, Array.getElem?_eq_getElem hk, Option.getD_some]
  have : c = 0 ∨ c = 1 ∨ c = 2 := by omega
  rcases this with rfl | rfl | rfl <;>
    simp [mget, qget, M3.applyQ, M3.sub, M3.one]

theorem matchOriginShift_some {ops : List OpQ} {P : M3} {gens : Array Gen} {eps : Rat} {p : Q3}
    (h : matchOriginShift ops P gens eps = some p) :
    ∃ s : Q3, p = (P.applyQ s).map ratTruncFrac ∧
      ∀ g ∈ gens.toList, ∃ o ∈ ops, (P.adj.mul o.rot).mul P = g.rot ∧
        Within (residual g (P.adj.applyQ o.trans) s) eps := by
  unfold matchOriginShift at h
  simp only at h
  split at h
  · simp at h
  · rename_i b hb
    split at h
    · simp at h
    · rename_i s hs
      simp only [Option.some.injEq] at h
      refine ⟨s, h.symm, ?_⟩
      have hres := (residualOK_iff _ _ _ _).1 (solveMod1_residualOK hs)
      unfold shiftRhs at hb
      split at hb
      · simp at hb
      · rename_i bs hbs
        simp only [Option.some.injEq] at hb
        obtain ⟨hlen, hget⟩ := allSome_some _ _ _ hbs
        intro g hg
        obtain ⟨k, hk, rfl⟩ := List.getElem_of_mem hg
        have hk' : k < gens.size := by simpa using hk
        have hkb : k < bs.length := by rw [hlen]; exact hk
        have hgk := hget k hk hkb
        simp only [Option.map_eq_some_iff] at hgk
        obtain ⟨t, ht, htb⟩ := hgk
        obtain ⟨o', ho', hrot, htr⟩ := hmGet_some ht
        rw [List.mem_reverse, List.mem_map] at ho'
        obtain ⟨o, ho, rfl⟩ := ho'
        refine ⟨o, ho, by simpa [transformOp] using hrot, ?_⟩
        have htr' : t = P.adj.applyQ o.trans := by simpa [transformOp] using htr.symm
        -- the three rows of generator k
        have row : ∀ (c : Nat) (hc : c < 3),
            ratAbs (ratWrap (qget (residual gens.toList[k] (P.adj.applyQ o.trans) s) c)) ≤ eps := by
          intro c hc
          have := hres ⟨3 * k + c, by omega⟩
          rw [rowDot_shiftMat gens k hk' c hc] at this
          have hb' : b[(⟨3 * k + c, by omega⟩ : Fin (3 * gens.size))] = qget (gens.toList[k].trans.sub t) c := by
            subst hb
            have h1 : (3 * k + c) / 3 = k := by omega
            have h2 : (3 * k + c) % 3 = c := by omega
            simp [Vector.getElem_ofFn, h1, h2, ← htb, hkb]
          rw [hb', htr'] at this
          have e : qget (residual gens.toList[k] (P.adj.applyQ o.trans) s) c =
              qget ((gens[k].rot.sub M3.one).applyQ s) c - qget (gens.toList[k].trans.sub (P.adj.applyQ o.trans)) c := by
            have : c = 0 ∨ c = 1 ∨ c = 2 := by omega
            rcases this with rfl | rfl | rfl <;> simp [residual, qget, Q3.sub]
          rw [e]; exact this
        exact ⟨row 0 (by omega), row 1 (by omega), row 2 (by omega)⟩

/-! ### One iteration of the loop over the candidate Hall numbers -/

/-- What a successful origin-shift match with a matrix of determinant one means. -/
theorem match_sound {ops : List OpQ} {P : M3} {gens : Array Gen} {eps : Rat} {p : Q3}
    (hP : P.det = 1) (h : matchOriginShift ops P gens eps = some p) :
    ∃ s : Q3, p = (P.applyQ s).map ratTruncFrac ∧
      ∀ g ∈ gens.toList, ∃ o ∈ ops, P.mul g.rot = o.rot.mul P ∧
        Within (residual g (P.adj.applyQ o.trans) s) eps := by
  obtain ⟨s, hs, hg⟩ := matchOriginShift_some h
  refine ⟨s, hs, fun g hgm => ?_⟩
  obtain ⟨o, ho, hr, hw⟩ := hg g hgm
  exact ⟨o, ho, conj_of_adj_det_one hP hr, hw⟩

/-- A successful iteration of the Hall-number loop: the answer carries the iterated Hall number, the
tabulated space-group number, a matrix of determinant one, and the origin shift that
`match_origin_shift` found for this matrix and the tabulated primitive generators. -/
theorem tryHall_match {ops : List OpQ} {setting : SettingQ} {eps : Rat} {pg : PointGroup} {hi : Int}
    {sg : SpaceGroup} (hpg : pg.primTransMat.det = 1)
    (h : tryHall ops setting eps pg hi = some (.ok sg)) :
    (sg.hall : Int) = hi ∧
    (∃ e, hallEntry? sg.hall = some e ∧ sg.number = e.number) ∧
    sg.linear.det = 1 ∧
    ∃ gens, hallPrimGens? sg.hall = some gens ∧
      matchOriginShift ops sg.linear gens.toArray eps = some sg.shift := by
  unfold tryHall at h
  split at h
  · simp at h
  · rename_i hpos
    simp only at h
    have hnat : ((hi.toNat : Nat) : Int) = hi := by omega
    split at h
    · simp at h
    · rename_i entry hentry
      split at h
      · simp at h
      · split at h
        · simp at h
        · rename_i gensL hgens
          split at h
          · -- matched through a correction matrix
            rename_i P p hcorr
            simp only [Option.some.injEq, Except.ok.injEq] at h
            subst h
            obtain ⟨corr, hcm, hc⟩ := List.exists_of_findSome?_eq_some hcorr
            simp only [Option.map_eq_some_iff, Prod.mk.injEq] at hc
            obtain ⟨p', hp', rfl, rfl⟩ := hc
            have hcd : corr.det = 1 := by
              unfold correctionMatrices at hcm
              split at hcm
              · have := (List.mem_filter.1 hcm).2
                simpa using this
              · simp at hcm
            have hPd : (pg.primTransMat.mul corr).det = 1 := by rw [M3.det_mul, hpg, hcd]; rfl
            exact ⟨hnat, ⟨entry, hentry, rfl⟩, hPd, gensL, hgens, hp'⟩
          · -- fallback for a requested Hall number
            split at h
            · split at h
              · rename_i P p hnorm
                simp only [Option.some.injEq, Except.ok.injEq] at h
                subst h
                unfold normalizerFirst at hnorm
                split at hnorm
                · simp at hnorm
                · obtain ⟨basis, hb⟩ := transMatBasisFirst_some _ _ _ _ _ hnorm
                  obtain ⟨P', hPd, hP'⟩ := unimodularFirst_some _ _ _ hb
                  simp only [Option.map_eq_some_iff, Prod.mk.injEq] at hP'
                  obtain ⟨p', hp', rfl, rfl⟩ := hP'
                  exact ⟨hnat, ⟨entry, hentry, rfl⟩, hPd, gensL, hgens, hp'⟩
              · simp at h
            · simp at h

/-- Reading of a successful `identify`. -/
theorem identify_match {ops : List OpQ} {setting : SettingQ} {eps : Rat} {sg : SpaceGroup}
    (h : identify ops setting eps = .ok sg) :
    (sg.hall : Int) ∈ settingHallNumbers setting ∧
    (∃ e, hallEntry? sg.hall = some e ∧ sg.number = e.number) ∧
    sg.linear.det = 1 ∧
    ∃ gens, hallPrimGens? sg.hall = some gens ∧
      matchOriginShift ops sg.linear gens.toArray eps = some sg.shift := by
  unfold identify identifyFrom at h
  split at h
  · simp at h
  · rename_i pg hpg
    have hdet := pointGroupNew_det hpg
    split at h
    · rename_i r hr
      subst h
      obtain ⟨hi, hmem, hi2⟩ := List.exists_of_findSome?_eq_some hr
      obtain ⟨hh, he, hd, hg⟩ := tryHall_match hdet hi2
      exact ⟨by rw [hh]; exact hmem, he, hd, hg⟩
    · simp at h

end Moyo.S5
