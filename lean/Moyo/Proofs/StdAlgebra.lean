import Moyo.Model.StageStdRun
import Moyo.Proofs.OracleAlgebra
/-
Helper algebra for the stage-S6 theorems (`Props/C05Stages.lean`, `Props/C06Stages.lean`):
matrix–vector identities on the plain structures `M3`, `QM3`, `Q3`.
-/
namespace Moyo

namespace Q3

theorem add_zero (v : Q3) : v.add Q3.zero = v := by
  cases v; simp [Q3.add, Q3.zero]

theorem zero_add (v : Q3) : Q3.zero.add v = v := by
  cases v; simp [Q3.add, Q3.zero]

theorem add_comm (u v : Q3) : u.add v = v.add u := by
  simp only [Q3.add, Q3.mk.injEq]; refine ⟨?_, ?_, ?_⟩ <;> ring

theorem add_assoc (u v w : Q3) : (u.add v).add w = u.add (v.add w) := by
  simp only [Q3.add, Q3.mk.injEq]; refine ⟨?_, ?_, ?_⟩ <;> ring

theorem sub_add_cancel (u v : Q3) : (u.sub v).add v = u := by
  cases u; cases v; simp [Q3.add, Q3.sub]

theorem add_sub_cancel (u v : Q3) : (u.add v).sub v = u := by
  cases u; cases v; simp [Q3.add, Q3.sub]

end Q3

namespace M3

theorem applyQ_mul (p q : M3) (v : Q3) : (p.mul q).applyQ v = p.applyQ (q.applyQ v) := by
  simp only [M3.applyQ, M3.mul, Q3.mk.injEq]
  refine ⟨?_, ?_, ?_⟩ <;> push_cast <;> ring

theorem applyQ_sub (p : M3) (u v : Q3) : p.applyQ (u.sub v) = (p.applyQ u).sub (p.applyQ v) := by
  simp only [M3.applyQ, Q3.sub, Q3.mk.injEq]
  refine ⟨?_, ?_, ?_⟩ <;> ring

theorem applyQ_smul_one (k : Int) (v : Q3) : (M3.smul k M3.one).applyQ v = Q3.smul (k : Rat) v := by
  simp only [M3.applyQ, M3.smul, M3.one, Q3.smul, Q3.mk.injEq]
  refine ⟨?_, ?_, ?_⟩ <;> push_cast <;> ring

theorem applyQ_one (v : Q3) : M3.one.applyQ v = v := by
  cases v; simp [M3.applyQ, M3.one]

theorem one_smul_Q3 (v : Q3) : Q3.smul 1 v = v := by
  cases v; simp [Q3.smul]

/-- `adj P (P v) = v` when `det P = 1`. -/
theorem adj_applyQ_cancel (p : M3) (h : p.det = 1) (v : Q3) : p.adj.applyQ (p.applyQ v) = v := by
  rw [← applyQ_mul, M3.adj_mul, h, applyQ_smul_one]
  simpa using one_smul_Q3 v

/-- `P (adj P v) = v` when `det P = 1`. -/
theorem applyQ_adj_cancel (p : M3) (h : p.det = 1) (v : Q3) : p.applyQ (p.adj.applyQ v) = v := by
  rw [← applyQ_mul, M3.mul_adj, h, applyQ_smul_one]
  simpa using one_smul_Q3 v

theorem adj_mul_rev (p q : M3) : (p.mul q).adj = q.adj.mul p.adj := by
  simp only [M3.adj, M3.mul, M3.mk.injEq]
  refine ⟨?_, ?_, ?_, ?_, ?_, ?_, ?_, ?_, ?_⟩ <;> ring

end M3

namespace QM3

theorem apply_mul (p q : QM3) (v : Q3) : (p.mul q).apply v = p.apply (q.apply v) := by
  simp only [QM3.apply, QM3.mul, Q3.mk.injEq]
  refine ⟨?_, ?_, ?_⟩ <;> ring

theorem apply_one (v : Q3) : QM3.one.apply v = v := by
  cases v; simp [QM3.apply, QM3.one]

theorem apply_add (p : QM3) (u v : Q3) : p.apply (u.add v) = (p.apply u).add (p.apply v) := by
  simp only [QM3.apply, Q3.add, Q3.mk.injEq]
  refine ⟨?_, ?_, ?_⟩ <;> ring

theorem apply_sub (p : QM3) (u v : Q3) : p.apply (u.sub v) = (p.apply u).sub (p.apply v) := by
  simp only [QM3.apply, Q3.sub, Q3.mk.injEq]
  refine ⟨?_, ?_, ?_⟩ <;> ring

/-- `p⁻¹ (p w) = w`. -/
theorem inv_apply_apply (p : QM3) (h : p.det ≠ 0) (w : Q3) : p.inv.apply (p.apply w) = w := by
  rw [← apply_mul, inv_mul_cancel p h, apply_one]

/-- For `det = 1` the rational inverse of an integer matrix is its adjugate. -/
theorem inv_ofM3_of_det_one (p : M3) (h : p.det = 1) : (QM3.ofM3 p).inv = QM3.ofM3 p.adj := by
  unfold QM3.inv
  rw [QM3.ofM3_det, h, QM3.ofM3_adj]
  obtain ⟨a, b, c, d, e, f, g, hh, i⟩ := QM3.ofM3 p
  simp [QM3.smul, QM3.adj]

end QM3

end Moyo
