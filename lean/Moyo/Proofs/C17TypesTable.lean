import Moyo.Proofs.C16TypesEval
import Moyo.Proofs.Tables
import Moyo.Tables.MagAll
import Moyo.Tables.RangeAll
import Moyo.Tables.MagTypesAll
/-
C17, inequivalence inside a UNI range: from the Boolean row checkers of
`Moyo/Tables/MagTypeInv.lean` (decided in `Moyo/Tables/MagTypesC*.lean`, `MagTypesAll.lean`) to
statements.
-/
namespace Moyo.Tables
open Moyo Moyo.Generated Moyo.TableSpec Moyo.TypeInvariant Moyo.TypeInv

theorem vecsMod_nodup_of_magSpecsOK {n : Nat} (h : magSpecsOK n = true) :
    ∀ s ∈ magSpecs n, (vecsMod s.m).Nodup := by
  intro s hs
  have := List.all_eq_true.1 h s hs
  simp only [Bool.or_eq_true, beq_iff_eq] at this
  rcases this with (h2 | h3) | h4
  · rw [h2]; exact vecsMod_nodup_2
  · rw [h3]; exact vecsMod_nodup_3
  · rw [h4]; exact vecsMod_nodup_4

/-- **Invariance of the range vector** (time-reversal flags are part of the rotation types). -/
theorem magInvOf_eq_of_affConj {n : Nat} (hn : magSpecsOK n = true) {src tgt : List HOp}
    (hs : (src.map opKey).Nodup) (ht : (tgt.map opKey).Nodup) (h : AffConj src tgt) :
    magInvOf n src = magInvOf n tgt := by
  unfold magInvOf
  rw [invVecT_eq_of_affConj _ (vecsMod_nodup_of_magSpecsOK hn) hs ht h]
  congr 1
  refine List.flatMap_congr fun s _ => ?_
  exact rotInv_eq_of_affConj rotTypes s hs ht h

structure MagTypeRowFacts (u : Nat) : Prop where
  specs : magSpecsOK (magNumberOf u) = true
  keys : ((magPrimOps u).map opKey).Nodup
  inv : magInvOf (magNumberOf u) (magPrimOps u) = magCert u

theorem magTypeRow_facts (u : Nat) (h1 : 1 ≤ u) (h2 : u ≤ 1651) : MagTypeRowFacts u := by
  have := mag_types_rows u h1 h2
  simp only [magTypeRowOK, Bool.and_eq_true, beq_iff_eq, decide_eq_true_eq] at this
  exact ⟨this.1.1.2, (keysDistinct_iff _).1 this.1.2, this.2⟩

theorem magNumberOf_eq {u : Nat} {t : MagTypeEntry} (ht : magTypeEntry u = some t) : magNumberOf u = t.number := by
  simp only [magNumberOf, chunkGet_magType]
  rw [show magTypeTableList[u - 1]? = some t from ht]
  rfl

/-- The certificate list is what the model computes for UNI number `u`. -/
theorem magPrimitive_eq (u : Nat) (h1 : 1 ≤ u) (h2 : u ≤ 1651) : magPrimitive u = some (magPrimOps u) := by
  obtain ⟨r, hs, g⟩ := magRow_facts (mag_rows u h1 h2)
  obtain ⟨mh, _, hmh, _, hsym, _, _, _, _, _, _, _, hprim, _⟩ := magRowIn_spec g.row
  have hp := g.parse
  rw [hsym] at hp
  simp only [magPrimitive, magSymbolOf, hmh, Option.bind_some, hp, g.prim, magPrimOps, hprim]

theorem magCert_ne_of_range {n lo hi : Nat} (h1 : 1 ≤ n) (h2 : n ≤ 230) (hr : magRanges[n - 1]? = some (lo, hi))
    {u v : Nat} (hu1 : lo ≤ u) (hu2 : u ≤ hi) (hv1 : lo ≤ v) (hv2 : v ≤ hi) (huv : u ≠ v) : magCert u ≠ magCert v := by
  have := List.all_eq_true.1 mag_types_distinct n (List.mem_range'_1.2 ⟨h1, by omega⟩)
  simp only [magRangeDistinctOK, hr] at this
  have hnd := (pairwiseDistinct_iff _).1 this
  have hinj := List.inj_on_of_nodup_map hnd
  intro heq
  exact huv (hinj (List.mem_range'_1.2 ⟨hu1, by omega⟩) (List.mem_range'_1.2 ⟨hv1, by omega⟩) heq)

end Moyo.Tables
