import Moyo.Model.HNF
import Mathlib.LinearAlgebra.Matrix.Determinant.Basic
import Mathlib.LinearAlgebra.Matrix.NonsingularInverse
import Mathlib.LinearAlgebra.Matrix.Rank
import Mathlib.Data.Int.Interval
import Mathlib.Data.Fintype.BigOperators
import Mathlib.Data.Int.NatAbs
import Mathlib.Tactic.Ring
import Mathlib.Tactic.Linarith
/-
Helper lemmas for `Moyo/Props/C15.lean` (Hermite / Smith normal form model).
-/
namespace Moyo
namespace NF
open IMat

/-! ### Bridge `IMat` ↔ `Matrix` -/

/-- View an `IMat` as a Mathlib matrix. -/
def toM {m n : Nat} (A : IMat m n) : Matrix (Fin m) (Fin n) ℤ := Matrix.of fun i j => A.get i j

@[simp] theorem toM_apply {m n : Nat} (A : IMat m n) (i : Fin m) (j : Fin n) :
    toM A i j = A.get i j := rfl

theorem toM_inj {m n : Nat} {A B : IMat m n} (h : toM A = toM B) : A = B :=
  IMat.ext fun i j => by
    have := congrFun (congrFun h i) j
    simpa using this

theorem sumFin_eq_sum {n : Nat} (f : Fin n → Int) : sumFin f = ∑ k, f k := by
  unfold sumFin
  induction n with
  | zero => simp [Fin.foldl_zero]
  | succ n ih =>
    rw [Fin.foldl_succ_last, Fin.sum_univ_castSucc, ← ih]

theorem toM_mul {m n p : Nat} (A : IMat m n) (B : IMat n p) : toM (A.mul B) = toM A * toM B := by
  ext i j
  simp [IMat.mul, sumFin_eq_sum, Matrix.mul_apply]

theorem toM_one (n : Nat) : toM (IMat.one n) = 1 := by
  ext i j
  simp [IMat.one, Matrix.one_apply]

/-! ### Elementary operations commute with multiplication -/

theorem mul_swapCols {m n p : Nat} (A : IMat m n) (R : IMat n p) (a b : Fin p) :
    A.mul (swapCols R a b) = swapCols (A.mul R) a b := by
  apply IMat.ext; intro i j
  simp only [IMat.mul, swapCols, get_ofFn]
  by_cases h1 : j = a
  · simp [h1]
  · by_cases h2 : j = b
    · subst h2; simp [h1]
    · simp [h1, h2]

theorem mul_negCol {m n p : Nat} (A : IMat m n) (R : IMat n p) (s : Fin p) :
    A.mul (negCol R s) = negCol (A.mul R) s := by
  apply IMat.ext; intro i j
  simp only [IMat.mul, negCol, get_ofFn, sumFin_eq_sum]
  by_cases h1 : j = s
  · simp [h1]
  · simp [h1]

theorem mul_subColMultiples {m n p : Nat} (A : IMat m n) (R : IMat n p) (s : Fin p)
    (k : Fin p → Int) :
    A.mul (subColMultiples R s k) = subColMultiples (A.mul R) s k := by
  apply IMat.ext; intro i j
  simp only [IMat.mul, subColMultiples, get_ofFn, sumFin_eq_sum]
  by_cases h1 : j = s
  · simp [h1]
  · simp only [h1, if_false, Finset.mul_sum, ← Finset.sum_sub_distrib]
    apply Finset.sum_congr rfl; intro x _; ring

theorem swapRows_mul {m n p : Nat} (L : IMat m n) (X : IMat n p) (a b : Fin m) :
    (swapRows L a b).mul X = swapRows (L.mul X) a b := by
  apply IMat.ext; intro i j
  simp only [IMat.mul, swapRows, get_ofFn]
  by_cases h1 : i = a
  · simp [h1]
  · by_cases h2 : i = b
    · subst h2; simp [h1]
    · simp [h1, h2]

theorem subRowMultiples_mul {m n p : Nat} (L : IMat m n) (X : IMat n p) (s : Fin m)
    (k : Fin m → Int) :
    (subRowMultiples L s k).mul X = subRowMultiples (L.mul X) s k := by
  apply IMat.ext; intro i j
  simp only [IMat.mul, subRowMultiples, get_ofFn, sumFin_eq_sum]
  by_cases h1 : i = s
  · simp [h1]
  · simp only [h1, if_false, Finset.mul_sum, ← Finset.sum_sub_distrib]
    apply Finset.sum_congr rfl; intro x _; ring

/-! ### Determinants of elementary operations -/

theorem toM_swapCols {m n : Nat} (A : IMat m n) (a b : Fin n) :
    toM (swapCols A a b) = (toM A).submatrix id (Equiv.swap a b) := by
  ext i j
  simp only [toM_apply, swapCols, get_ofFn, Matrix.submatrix_apply, id, Equiv.swap_apply_def]
  split_ifs <;> rfl

theorem toM_swapRows {m n : Nat} (A : IMat m n) (a b : Fin m) :
    toM (swapRows A a b) = (toM A).submatrix (Equiv.swap a b) id := by
  ext i j
  simp only [toM_apply, swapRows, get_ofFn, Matrix.submatrix_apply, id, Equiv.swap_apply_def]
  split_ifs <;> rfl

/-- A square integer matrix is unimodular when its determinant is a unit. -/
def Unimod {n : Nat} (R : IMat n n) : Prop := IsUnit (toM R).det

theorem unimod_one (n : Nat) : Unimod (IMat.one n) := by
  simp [Unimod, toM_one]

theorem unimod_swapCols {n : Nat} {R : IMat n n} (h : Unimod R) (a b : Fin n) :
    Unimod (swapCols R a b) := by
  unfold Unimod at *
  rw [toM_swapCols, Matrix.det_permute']
  refine IsUnit.mul ?_ h
  rcases Int.units_eq_one_or (Equiv.Perm.sign (Equiv.swap a b)) with h1 | h1 <;> simp [h1]

theorem unimod_swapRows {n : Nat} {R : IMat n n} (h : Unimod R) (a b : Fin n) :
    Unimod (swapRows R a b) := by
  unfold Unimod at *
  rw [toM_swapRows, Matrix.det_permute]
  refine IsUnit.mul ?_ h
  rcases Int.units_eq_one_or (Equiv.Perm.sign (Equiv.swap a b)) with h1 | h1 <;> simp [h1]

theorem unimod_negCol {n : Nat} {R : IMat n n} (h : Unimod R) (s : Fin n) :
    Unimod (negCol R s) := by
  unfold Unimod at *
  have e : toM (negCol R s) =
      Matrix.of fun i j => (if j = s then (-1 : ℤ) else 1) * toM R i j := by
    ext i j
    simp only [toM_apply, negCol, get_ofFn, Matrix.of_apply]
    split_ifs <;> simp
  rw [e, Matrix.det_mul_row]
  refine IsUnit.mul ?_ h
  rw [Finset.prod_ite_eq' Finset.univ s (fun _ => (-1 : ℤ))]
  simp

theorem unimod_subRowMultiples {n : Nat} {R : IMat n n} (h : Unimod R) (s : Fin n)
    (k : Fin n → Int) : Unimod (subRowMultiples R s k) := by
  unfold Unimod at *
  have e : (toM (subRowMultiples R s k)).det = (toM R).det := by
    apply Matrix.det_eq_of_forall_row_eq_smul_add_const (fun i => if i = s then 0 else - k i) s
    · simp
    · intro i j
      simp only [toM_apply, subRowMultiples, get_ofFn]
      split_ifs <;> ring
  rw [e]; exact h

theorem unimod_subColMultiples {n : Nat} {R : IMat n n} (h : Unimod R) (s : Fin n)
    (k : Fin n → Int) : Unimod (subColMultiples R s k) := by
  unfold Unimod at *
  have e : (toM (subColMultiples R s k)).det = (toM R).det := by
    rw [← Matrix.det_transpose, ← Matrix.det_transpose (toM R)]
    apply Matrix.det_eq_of_forall_row_eq_smul_add_const (fun i => if i = s then 0 else - k i) s
    · simp
    · intro i j
      simp only [Matrix.transpose_apply, toM_apply, subColMultiples, get_ofFn]
      split_ifs <;> ring
  rw [e]; exact h

theorem Unimod.exists_inv {n : Nat} {R : IMat n n} (h : Unimod R) :
    ∃ R' : IMat n n, R.mul R' = IMat.one n ∧ R'.mul R = IMat.one n := by
  refine ⟨IMat.ofFn fun i j => (toM R)⁻¹ i j, ?_, ?_⟩
  · apply toM_inj
    rw [toM_mul, toM_one]
    have : toM (IMat.ofFn fun i j => (toM R)⁻¹ i j) = (toM R)⁻¹ := by ext i j; simp
    rw [this]
    exact Matrix.mul_nonsing_inv _ h
  · apply toM_inj
    rw [toM_mul, toM_one]
    have : toM (IMat.ofFn fun i j => (toM R)⁻¹ i j) = (toM R)⁻¹ := by ext i j; simp
    rw [this]
    exact Matrix.nonsing_inv_mul _ h

/-! ### Invariants preserved by the HNF loops -/

section HNFInv
variable {m n : Nat}

/-- A predicate on `(h, r)` closed under the three simultaneous column operations. -/
structure ColClosed (P : IMat m n → IMat n n → Prop) : Prop where
  swap : ∀ h r a b, P h r → P (swapCols h a b) (swapCols r a b)
  neg : ∀ h r a, P h r → P (negCol h a) (negCol r a)
  sub : ∀ h r a k, P h r → P (subColMultiples h a k) (subColMultiples r a k)

/-- Candidate pivot columns of row `row` from column `s` on. -/
def hnfCands (s : Nat) (row : Fin m) (h : IMat m n) : List (Fin n) :=
  (List.finRange n).filter fun j => decide (s ≤ j.val) && (h.get row j != 0)

def hnfNeg (h : IMat m n) (row : Fin m) (sc pivot : Fin n) : Bool :=
  decide ((swapCols h sc pivot).get row sc < 0)

/-- `h` after the pivot swap and sign normalisation. -/
def hnfH2 (h : IMat m n) (row : Fin m) (sc pivot : Fin n) : IMat m n :=
  if hnfNeg h row sc pivot then negCol (swapCols h sc pivot) sc else swapCols h sc pivot

def hnfR2 (h : IMat m n) (r : IMat n n) (row : Fin m) (sc pivot : Fin n) : IMat n n :=
  if hnfNeg h row sc pivot then negCol (swapCols r sc pivot) sc else swapCols r sc pivot

def hnfK (h : IMat m n) (row : Fin m) (sc pivot : Fin n) : Fin n → Int :=
  fun j => if j = sc then 0 else (hnfH2 h row sc pivot).get row j / (hnfH2 h row sc pivot).get row sc

theorem hnfIter_eq (s : Nat) (hs : s < m) (h : IMat m n) (r : IMat n n) :
    hnfIter s hs h r =
      match argminBy (hnfCands s ⟨s, hs⟩ h) (fun j => (h.get ⟨s, hs⟩ j).natAbs) with
      | none => none
      | some pivot =>
        if hsn : s < n then
          some (subColMultiples (hnfH2 h ⟨s, hs⟩ ⟨s, hsn⟩ pivot) ⟨s, hsn⟩ (hnfK h ⟨s, hs⟩ ⟨s, hsn⟩ pivot),
            subColMultiples (hnfR2 h r ⟨s, hs⟩ ⟨s, hsn⟩ pivot) ⟨s, hsn⟩ (hnfK h ⟨s, hs⟩ ⟨s, hsn⟩ pivot),
            (List.finRange n).any fun j => hnfK h ⟨s, hs⟩ ⟨s, hsn⟩ pivot j != 0)
        else none := rfl

/-- Inversion of `hnfIter … = some …`. -/
theorem hnfIter_some {s : Nat} {hs : s < m} {h : IMat m n} {r : IMat n n} {h' : IMat m n}
    {r' : IMat n n} {u : Bool} (e : hnfIter s hs h r = some (h', r', u)) :
    ∃ (hsn : s < n) (pivot : Fin n),
      argminBy (hnfCands s ⟨s, hs⟩ h) (fun j => (h.get ⟨s, hs⟩ j).natAbs) = some pivot ∧
      h' = subColMultiples (hnfH2 h ⟨s, hs⟩ ⟨s, hsn⟩ pivot) ⟨s, hsn⟩ (hnfK h ⟨s, hs⟩ ⟨s, hsn⟩ pivot) ∧
      r' = subColMultiples (hnfR2 h r ⟨s, hs⟩ ⟨s, hsn⟩ pivot) ⟨s, hsn⟩ (hnfK h ⟨s, hs⟩ ⟨s, hsn⟩ pivot) ∧
      u = (List.finRange n).any fun j => hnfK h ⟨s, hs⟩ ⟨s, hsn⟩ pivot j != 0 := by
  rw [hnfIter_eq] at e
  split at e
  · cases e
  · rename_i pivot hp
    by_cases hsn : s < n
    · rw [dif_pos hsn] at e
      simp only [Option.some.injEq, Prod.mk.injEq] at e
      obtain ⟨e1, e2, e3⟩ := e
      exact ⟨hsn, pivot, hp, e1.symm, e2.symm, e3.symm⟩
    · rw [dif_neg hsn] at e; cases e

theorem hnfIter_preserves {P : IMat m n → IMat n n → Prop} (hP : ColClosed P)
    {s : Nat} {hs : s < m} {h : IMat m n} {r : IMat n n} {h' : IMat m n} {r' : IMat n n} {u : Bool}
    (hp : P h r) (e : hnfIter s hs h r = some (h', r', u)) : P h' r' := by
  obtain ⟨hsn, pivot, _, rfl, rfl, _⟩ := hnfIter_some e
  apply hP.sub
  unfold hnfH2 hnfR2
  split
  · exact hP.neg _ _ _ (hP.swap _ _ _ _ hp)
  · exact hP.swap _ _ _ _ hp

theorem hnfRow_preserves {P : IMat m n → IMat n n → Prop} (hP : ColClosed P)
    {s : Nat} {hs : s < m} : ∀ (fuel : Nat) (h : IMat m n) (r : IMat n n), P h r →
      P (hnfRow s hs fuel (h, r)).1 (hnfRow s hs fuel (h, r)).2.1
  | 0, h, r, hp => by simpa [hnfRow] using hp
  | fuel + 1, h, r, hp => by
    rw [hnfRow]
    split
    · exact hp
    · rename_i h' r' u e
      split
      · exact hnfRow_preserves hP fuel h' r' (hnfIter_preserves hP hp e)
      · exact hnfIter_preserves hP hp e

theorem hnfRows_preserves {P : IMat m n → IMat n n → Prop} (hP : ColClosed P) :
    ∀ (s todo : Nat) (hm : s + todo = m) (st : HNFResult m n), P st.h st.r →
      P (hnfRows s todo hm st).h (hnfRows s todo hm st).r
  | _, 0, _, st, hp => by simpa [hnfRows] using hp
  | s, todo + 1, hm, st, hp => by
    rw [hnfRows]
    have hs : s < m := by omega
    have := hnfRow_preserves hP (s := s) (hs := hs) (hnfFuel s hs st.h) st.h st.r hp
    generalize hnfRow s hs (hnfFuel s hs st.h) (st.h, st.r) = q at this ⊢
    obtain ⟨h', r', ok⟩ := q
    exact hnfRows_preserves hP (s + 1) todo (by omega) _ this

theorem hnf_preserves {P : IMat m n → IMat n n → Prop} (hP : ColClosed P) (A : IMat m n)
    (h0 : P A (IMat.one n)) : P (hnf A).h (hnf A).r :=
  hnfRows_preserves hP 0 m (by omega) _ h0

theorem mul_one_right (A : IMat m n) : A.mul (IMat.one n) = A := by
  apply toM_inj; rw [toM_mul, toM_one, Matrix.mul_one]

theorem one_mul_left (A : IMat m n) : (IMat.one m).mul A = A := by
  apply toM_inj; rw [toM_mul, toM_one, Matrix.one_mul]

theorem colClosed_decomp (A : IMat m n) : ColClosed fun h r => h = A.mul r where
  swap := by intro h r a b hp; rw [mul_swapCols, ← hp]
  neg := by intro h r a hp; rw [mul_negCol, ← hp]
  sub := by intro h r a k hp; rw [mul_subColMultiples, ← hp]

theorem colClosed_unimod : ColClosed fun (_ : IMat m n) r => Unimod r where
  swap := by intro h r a b hp; exact unimod_swapCols hp a b
  neg := by intro h r a hp; exact unimod_negCol hp a
  sub := by intro h r a k hp; exact unimod_subColMultiples hp a k

end HNFInv

/-! ### Invariants preserved by the SNF loops -/

section SNFInv
variable {m n : Nat}

/-- A predicate on `(d, l, r)` closed under the row / column operations used by `snfIter`. -/
structure RCClosed (P : IMat m n → IMat m m → IMat n n → Prop) : Prop where
  swapR : ∀ d l r a b, P d l r → P (swapRows d a b) (swapRows l a b) r
  swapC : ∀ d l r a b, P d l r → P (swapCols d a b) l (swapCols r a b)
  neg : ∀ d l r a, P d l r → P (negCol d a) l (negCol r a)
  subR : ∀ d l r a k, P d l r → P (subRowMultiples d a k) (subRowMultiples l a k) r
  subC : ∀ d l r a k, P d l r → P (subColMultiples d a k) l (subColMultiples r a k)

def snfCands (s : Nat) (d : IMat m n) : List (Fin m × Fin n) :=
  ((List.finRange m).flatMap fun i => (List.finRange n).map fun j => (i, j)).filter
    fun (i, j) => decide (s ≤ i.val) && decide (s ≤ j.val) && (d.get i j != 0)

def snfD1 (d : IMat m n) (sr pi : Fin m) (sc pj : Fin n) : IMat m n :=
  swapCols (swapRows d sr pi) sc pj

def snfNeg (d : IMat m n) (sr pi : Fin m) (sc pj : Fin n) : Bool :=
  decide ((snfD1 d sr pi sc pj).get sr sc < 0)

def snfD2 (d : IMat m n) (sr pi : Fin m) (sc pj : Fin n) : IMat m n :=
  if snfNeg d sr pi sc pj then negCol (snfD1 d sr pi sc pj) sc else snfD1 d sr pi sc pj

def snfR2 (d : IMat m n) (r : IMat n n) (sr pi : Fin m) (sc pj : Fin n) : IMat n n :=
  if snfNeg d sr pi sc pj then negCol (swapCols r sc pj) sc else swapCols r sc pj

def snfKr (s : Nat) (d : IMat m n) (sr pi : Fin m) (sc pj : Fin n) : Fin m → Int :=
  fun i => if s < i.val then
    Int.tdiv ((snfD2 d sr pi sc pj).get i sc) ((snfD2 d sr pi sc pj).get sr sc) else 0

def snfD3 (s : Nat) (d : IMat m n) (sr pi : Fin m) (sc pj : Fin n) : IMat m n :=
  subRowMultiples (snfD2 d sr pi sc pj) sr (snfKr s d sr pi sc pj)

def snfKc (s : Nat) (d : IMat m n) (sr pi : Fin m) (sc pj : Fin n) : Fin n → Int :=
  fun j => if s < j.val then
    Int.tdiv ((snfD3 s d sr pi sc pj).get sr j) ((snfD2 d sr pi sc pj).get sr sc) else 0

theorem snfIter_eq (s : Nat) (hsm : s < m) (hsn : s < n) (d : IMat m n) (l : IMat m m)
    (r : IMat n n) :
    snfIter s hsm hsn d l r =
      match argminBy (snfCands s d) (fun (i, j) => (d.get i j).natAbs) with
      | none => none
      | some (pi, pj) =>
        some (subColMultiples (snfD3 s d ⟨s, hsm⟩ pi ⟨s, hsn⟩ pj) ⟨s, hsn⟩
                (snfKc s d ⟨s, hsm⟩ pi ⟨s, hsn⟩ pj),
              subRowMultiples (swapRows l ⟨s, hsm⟩ pi) ⟨s, hsm⟩ (snfKr s d ⟨s, hsm⟩ pi ⟨s, hsn⟩ pj),
              subColMultiples (snfR2 d r ⟨s, hsm⟩ pi ⟨s, hsn⟩ pj) ⟨s, hsn⟩
                (snfKc s d ⟨s, hsm⟩ pi ⟨s, hsn⟩ pj),
              ((List.finRange m).any fun i => snfKr s d ⟨s, hsm⟩ pi ⟨s, hsn⟩ pj i != 0) ||
              ((List.finRange n).any fun j => snfKc s d ⟨s, hsm⟩ pi ⟨s, hsn⟩ pj j != 0)) := rfl

/-- Inversion of `snfIter … = some …`. -/
theorem snfIter_some {s : Nat} {hsm : s < m} {hsn : s < n} {d : IMat m n} {l : IMat m m}
    {r : IMat n n} {d' : IMat m n} {l' : IMat m m} {r' : IMat n n} {u : Bool}
    (e : snfIter s hsm hsn d l r = some (d', l', r', u)) :
    ∃ (pi : Fin m) (pj : Fin n),
      argminBy (snfCands s d) (fun (i, j) => (d.get i j).natAbs) = some (pi, pj) ∧
      d' = subColMultiples (snfD3 s d ⟨s, hsm⟩ pi ⟨s, hsn⟩ pj) ⟨s, hsn⟩
                (snfKc s d ⟨s, hsm⟩ pi ⟨s, hsn⟩ pj) ∧
      l' = subRowMultiples (swapRows l ⟨s, hsm⟩ pi) ⟨s, hsm⟩ (snfKr s d ⟨s, hsm⟩ pi ⟨s, hsn⟩ pj) ∧
      r' = subColMultiples (snfR2 d r ⟨s, hsm⟩ pi ⟨s, hsn⟩ pj) ⟨s, hsn⟩
                (snfKc s d ⟨s, hsm⟩ pi ⟨s, hsn⟩ pj) ∧
      u = (((List.finRange m).any fun i => snfKr s d ⟨s, hsm⟩ pi ⟨s, hsn⟩ pj i != 0) ||
              ((List.finRange n).any fun j => snfKc s d ⟨s, hsm⟩ pi ⟨s, hsn⟩ pj j != 0)) := by
  rw [snfIter_eq] at e
  split at e
  · cases e
  · rename_i pi pj hp
    simp only [Option.some.injEq, Prod.mk.injEq] at e
    obtain ⟨e1, e2, e3, e4⟩ := e
    exact ⟨pi, pj, hp, e1.symm, e2.symm, e3.symm, e4.symm⟩

theorem snfIter_preserves {P : IMat m n → IMat m m → IMat n n → Prop} (hP : RCClosed P)
    {s : Nat} {hsm : s < m} {hsn : s < n} {d : IMat m n} {l : IMat m m}
    {r : IMat n n} {d' : IMat m n} {l' : IMat m m} {r' : IMat n n} {u : Bool}
    (hp : P d l r) (e : snfIter s hsm hsn d l r = some (d', l', r', u)) : P d' l' r' := by
  obtain ⟨pi, pj, _, rfl, rfl, rfl, _⟩ := snfIter_some e
  apply hP.subC
  unfold snfD3
  apply hP.subR
  unfold snfD2 snfR2 snfD1
  split
  · exact hP.neg _ _ _ _ (hP.swapC _ _ _ _ _ (hP.swapR _ _ _ _ _ hp))
  · exact hP.swapC _ _ _ _ _ (hP.swapR _ _ _ _ _ hp)

theorem snfDiag_preserves {P : IMat m n → IMat m m → IMat n n → Prop} (hP : RCClosed P)
    {s : Nat} {hsm : s < m} {hsn : s < n} :
    ∀ (fuel : Nat) (d : IMat m n) (l : IMat m m) (r : IMat n n), P d l r →
      P (snfDiag s hsm hsn fuel (d, l, r)).1 (snfDiag s hsm hsn fuel (d, l, r)).2.1
        (snfDiag s hsm hsn fuel (d, l, r)).2.2.1
  | 0, d, l, r, hp => by simpa [snfDiag] using hp
  | fuel + 1, d, l, r, hp => by
    rw [snfDiag]
    split
    · exact hp
    · rename_i d' l' r' u e
      split
      · exact snfDiag_preserves hP fuel d' l' r' (snfIter_preserves hP hp e)
      · exact snfIter_preserves hP hp e

theorem snfSteps_preserves {P : IMat m n → IMat m m → IMat n n → Prop} (hP : RCClosed P) :
    ∀ (s todo : Nat) (hm : s + todo = min m n) (st : SNFResult m n), P st.d st.l st.r →
      P (snfSteps s todo hm st).d (snfSteps s todo hm st).l (snfSteps s todo hm st).r
  | _, 0, _, st, hp => by simpa [snfSteps] using hp
  | s, todo + 1, hm, st, hp => by
    rw [snfSteps]
    have hsm : s < m := by omega
    have hsn : s < n := by omega
    have := snfDiag_preserves hP (s := s) (hsm := hsm) (hsn := hsn) (snfFuel st.d) st.d st.l st.r hp
    generalize snfDiag s hsm hsn (snfFuel st.d) (st.d, st.l, st.r) = q at this ⊢
    obtain ⟨d', l', r', ok⟩ := q
    exact snfSteps_preserves hP (s + 1) todo (by omega) _ this

theorem snf_preserves {P : IMat m n → IMat m m → IMat n n → Prop} (hP : RCClosed P) (A : IMat m n)
    (h0 : P A (IMat.one m) (IMat.one n)) : P (snf A).d (snf A).l (snf A).r :=
  snfSteps_preserves hP 0 (min m n) (by omega) _ h0

theorem rcClosed_decomp (A : IMat m n) : RCClosed fun d l r => d = (l.mul A).mul r where
  swapR := by intro d l r a b hp; rw [swapRows_mul, swapRows_mul, ← hp]
  swapC := by intro d l r a b hp; rw [mul_swapCols, ← hp]
  neg := by intro d l r a hp; rw [mul_negCol, ← hp]
  subR := by intro d l r a k hp; rw [subRowMultiples_mul, subRowMultiples_mul, ← hp]
  subC := by intro d l r a k hp; rw [mul_subColMultiples, ← hp]

theorem rcClosed_unimod_l : RCClosed fun (_ : IMat m n) l (_ : IMat n n) => Unimod l where
  swapR := by intro d l r a b hp; exact unimod_swapRows hp a b
  swapC := by intro d l r a b hp; exact hp
  neg := by intro d l r a hp; exact hp
  subR := by intro d l r a k hp; exact unimod_subRowMultiples hp a k
  subC := by intro d l r a k hp; exact hp

theorem rcClosed_unimod_r : RCClosed fun (_ : IMat m n) (_ : IMat m m) r => Unimod r where
  swapR := by intro d l r a b hp; exact hp
  swapC := by intro d l r a b hp; exact unimod_swapCols hp a b
  neg := by intro d l r a hp; exact unimod_negCol hp a
  subR := by intro d l r a k hp; exact hp
  subC := by intro d l r a k hp; exact unimod_subColMultiples hp a k

end SNFInv

/-! ### Entry formulas -/

section Entries
variable {m n : Nat}

theorem get_swapCols (A : IMat m n) (a b : Fin n) (i : Fin m) (j : Fin n) :
    (swapCols A a b).get i j =
      if j = a then A.get i b else if j = b then A.get i a else A.get i j := by
  simp [swapCols]

theorem get_swapRows (A : IMat m n) (a b : Fin m) (i : Fin m) (j : Fin n) :
    (swapRows A a b).get i j =
      if i = a then A.get b j else if i = b then A.get a j else A.get i j := by
  simp [swapRows]

theorem get_negCol (A : IMat m n) (s : Fin n) (i : Fin m) (j : Fin n) :
    (negCol A s).get i j = if j = s then - A.get i j else A.get i j := by
  simp [negCol]

theorem get_subColMultiples (A : IMat m n) (s : Fin n) (k : Fin n → Int) (i : Fin m) (j : Fin n) :
    (subColMultiples A s k).get i j =
      if j = s then A.get i j else A.get i j - k j * A.get i s := by
  simp [subColMultiples]

theorem get_subRowMultiples (A : IMat m n) (s : Fin m) (k : Fin m → Int) (i : Fin m) (j : Fin n) :
    (subRowMultiples A s k).get i j =
      if i = s then A.get i j else A.get i j - k i * A.get s j := by
  simp [subRowMultiples]

end Entries

/-! ### `argminBy` -/

section Argmin
variable {α : Type}

/-- The fold step of `argminBy`. -/
def amStep (key : α → Nat) (best : Option α) (x : α) : Option α :=
  match best with
  | none => some x
  | some b => if key x < key b then some x else some b

theorem argminBy_eq (xs : List α) (key : α → Nat) :
    argminBy xs key = xs.foldl (amStep key) none := rfl

theorem amStep_foldl_some (key : α → Nat) : ∀ (xs : List α) (b x : α),
    xs.foldl (amStep key) (some b) = some x →
    (x = b ∧ ∀ y ∈ xs, key b ≤ key y) ∨
    (∃ pre post, xs = pre ++ x :: post ∧ key x < key b ∧ (∀ y ∈ pre, key x < key y) ∧
      ∀ y ∈ post, key x ≤ key y)
  | [], b, x, e => by
    simp only [List.foldl_nil, Option.some.injEq] at e
    exact Or.inl ⟨e.symm, by simp⟩
  | a :: t, b, x, e => by
    rw [List.foldl_cons] at e
    by_cases hab : key a < key b
    · have e' : t.foldl (amStep key) (some a) = some x := by
        simpa [amStep, hab] using e
      rcases amStep_foldl_some key t a x e' with ⟨rfl, hmin⟩ | ⟨pre, post, rfl, hlt, hpre, hpost⟩
      · exact Or.inr ⟨[], t, rfl, hab, by simp, hmin⟩
      · refine Or.inr ⟨a :: pre, post, rfl, by omega, ?_, hpost⟩
        intro y hy
        rcases List.mem_cons.mp hy with rfl | hy
        · exact hlt
        · exact hpre y hy
    · have e' : t.foldl (amStep key) (some b) = some x := by
        simpa [amStep, hab] using e
      rcases amStep_foldl_some key t b x e' with ⟨rfl, hmin⟩ | ⟨pre, post, rfl, hlt, hpre, hpost⟩
      · refine Or.inl ⟨rfl, ?_⟩
        intro y hy
        rcases List.mem_cons.mp hy with rfl | hy
        · omega
        · exact hmin y hy
      · refine Or.inr ⟨a :: pre, post, rfl, hlt, ?_, hpost⟩
        intro y hy
        rcases List.mem_cons.mp hy with rfl | hy
        · omega
        · exact hpre y hy

theorem amStep_foldl_ne_none (key : α → Nat) : ∀ (xs : List α) (b : α),
    xs.foldl (amStep key) (some b) ≠ none
  | [], b => by simp
  | a :: t, b => by
    rw [List.foldl_cons]
    by_cases hab : key a < key b
    · simpa [amStep, hab] using amStep_foldl_ne_none key t a
    · simpa [amStep, hab] using amStep_foldl_ne_none key t b

theorem argminBy_none {xs : List α} {key : α → Nat} (e : argminBy xs key = none) : xs = [] := by
  cases xs with
  | nil => rfl
  | cons a t =>
    rw [argminBy_eq, List.foldl_cons] at e
    exact absurd e (amStep_foldl_ne_none key t a)

/-- `argminBy` returns the *first* minimiser. -/
theorem argminBy_some {xs : List α} {key : α → Nat} {x : α} (e : argminBy xs key = some x) :
    ∃ pre post, xs = pre ++ x :: post ∧ (∀ y ∈ pre, key x < key y) ∧ ∀ y ∈ post, key x ≤ key y := by
  cases xs with
  | nil => simp [argminBy_eq] at e
  | cons a t =>
    rw [argminBy_eq, List.foldl_cons] at e
    have e' : t.foldl (amStep key) (some a) = some x := e
    rcases amStep_foldl_some key t a x e' with ⟨rfl, hmin⟩ | ⟨pre, post, rfl, hlt, hpre, hpost⟩
    · exact ⟨[], t, rfl, by simp, hmin⟩
    · refine ⟨a :: pre, post, rfl, ?_, hpost⟩
      intro y hy
      rcases List.mem_cons.mp hy with rfl | hy
      · exact hlt
      · exact hpre y hy

theorem argminBy_mem {xs : List α} {key : α → Nat} {x : α} (e : argminBy xs key = some x) :
    x ∈ xs := by
  obtain ⟨pre, post, rfl, _, _⟩ := argminBy_some e
  simp

theorem argminBy_le {xs : List α} {key : α → Nat} {x : α} (e : argminBy xs key = some x) :
    ∀ y ∈ xs, key x ≤ key y := by
  obtain ⟨pre, post, rfl, h1, h2⟩ := argminBy_some e
  intro y hy
  rcases List.mem_append.mp hy with hy | hy
  · exact Nat.le_of_lt (h1 y hy)
  · rcases List.mem_cons.mp hy with rfl | hy
    · exact Nat.le_refl _
    · exact h2 y hy

end Argmin

/-! ### HNF: shape and termination -/

section HNFShape
variable {m n : Nat}

theorem mem_hnfCands {s : Nat} {row : Fin m} {h : IMat m n} {j : Fin n} :
    j ∈ hnfCands s row h ↔ s ≤ j.val ∧ h.get row j ≠ 0 := by
  simp [hnfCands]

theorem hnfH2_get (h : IMat m n) (row : Fin m) (sc pivot : Fin n) (i : Fin m) (j : Fin n) :
    (hnfH2 h row sc pivot).get i j =
      if j = sc then (if h.get row pivot < 0 then - h.get i pivot else h.get i pivot)
      else if j = pivot then h.get i sc else h.get i j := by
  unfold hnfH2 hnfNeg
  by_cases hlt : h.get row pivot < 0
  · simp only [get_swapCols, if_true, hlt, decide_true, get_negCol]
    split_ifs <;> rfl
  · simp only [get_swapCols, if_true, hlt, decide_false, Bool.false_eq_true, if_false]

theorem hnfH2_pivot (h : IMat m n) (row : Fin m) (sc pivot : Fin n) :
    (hnfH2 h row sc pivot).get row sc = ((h.get row pivot).natAbs : Int) := by
  rw [hnfH2_get]; simp only [if_true]
  split_ifs <;> omega

/-- Row `row` is reduced w.r.t. the pivot `p` sitting in column `sc`. -/
def HRed (h : IMat m n) (row : Fin m) (sc : Fin n) (p : Int) : Prop :=
  h.get row sc = p ∧ 0 < p ∧ ∀ j, j ≠ sc → 0 ≤ h.get row j ∧ h.get row j < p

theorem hnfK_zero_of_any_false {h : IMat m n} {row : Fin m} {sc pivot : Fin n}
    (e : ((List.finRange n).any fun j => hnfK h row sc pivot j != 0) = false) (j : Fin n) :
    hnfK h row sc pivot j = 0 := by
  rw [List.any_eq_false] at e
  have := e j (List.mem_finRange j)
  simpa using this

theorem sub_ediv_mul_bounds (a p : Int) (hp : 0 < p) :
    0 ≤ a - a / p * p ∧ a - a / p * p < p := by
  have h1 := Int.emod_nonneg a (Int.ne_of_gt hp)
  have h2 := Int.emod_lt_of_pos a hp
  rw [Int.emod_def] at h1 h2
  constructor <;> linarith

theorem bounds_of_ediv_eq_zero {a p : Int} (hp : 0 < p) (h0 : a / p = 0) : 0 ≤ a ∧ a < p := by
  have := sub_ediv_mul_bounds a p hp
  rw [h0] at this
  omega

/-- Everything we need to know about an `hnfIter` call that returned `some`. -/
theorem hnfIter_core {s : Nat} {hs : s < m} {h : IMat m n} {r : IMat n n} {h' : IMat m n}
    {r' : IMat n n} {u : Bool} (e : hnfIter s hs h r = some (h', r', u)) :
    ∃ (hsn : s < n) (pivot : Fin n),
      s ≤ pivot.val ∧ h.get ⟨s, hs⟩ pivot ≠ 0 ∧
      (∀ j : Fin n, s ≤ j.val → h.get ⟨s, hs⟩ j ≠ 0 →
        (h.get ⟨s, hs⟩ pivot).natAbs ≤ (h.get ⟨s, hs⟩ j).natAbs) ∧
      h' = subColMultiples (hnfH2 h ⟨s, hs⟩ ⟨s, hsn⟩ pivot) ⟨s, hsn⟩ (hnfK h ⟨s, hs⟩ ⟨s, hsn⟩ pivot) ∧
      u = ((List.finRange n).any fun j => hnfK h ⟨s, hs⟩ ⟨s, hsn⟩ pivot j != 0) ∧
      HRed h' ⟨s, hs⟩ ⟨s, hsn⟩ ((h.get ⟨s, hs⟩ pivot).natAbs : Int) := by
  obtain ⟨hsn, pivot, ha, eh, _, eu⟩ := hnfIter_some e
  have hmem := mem_hnfCands.mp (argminBy_mem ha)
  have hmin := argminBy_le ha
  refine ⟨hsn, pivot, hmem.1, hmem.2, ?_, eh, eu, ?_, ?_, ?_⟩
  · intro j hj hne
    exact hmin j (mem_hnfCands.mpr ⟨hj, hne⟩)
  · rw [eh, get_subColMultiples, if_pos rfl, hnfH2_pivot]
  · have := hmem.2; omega
  · intro j hj
    have hp : (0 : Int) < ((h.get ⟨s, hs⟩ pivot).natAbs : Int) := by have := hmem.2; omega
    rw [eh, get_subColMultiples, if_neg hj]
    unfold hnfK
    rw [if_neg hj, hnfH2_pivot]
    exact sub_ediv_mul_bounds _ _ hp

theorem hnfIter_none {s : Nat} {hs : s < m} {h : IMat m n} {r : IMat n n}
    (e : hnfIter s hs h r = none) : ∀ j : Fin n, s ≤ j.val → h.get ⟨s, hs⟩ j = 0 := by
  intro j hj
  rw [hnfIter_eq] at e
  split at e
  · rename_i ha
    have := argminBy_none ha
    by_contra hne
    have hm : j ∈ hnfCands s ⟨s, hs⟩ h := mem_hnfCands.mpr ⟨hj, hne⟩
    rw [this] at hm
    simp at hm
  · have hsn : s < n := by have := j.isLt; omega
    rw [dif_pos hsn] at e
    cases e

/-- Rows that vanish from column `s` on are untouched by `hnfIter s`. -/
theorem hnfIter_row_fixed {s : Nat} {hs : s < m} {h : IMat m n} {r : IMat n n} {h' : IMat m n}
    {r' : IMat n n} {u : Bool} (e : hnfIter s hs h r = some (h', r', u)) (i : Fin m)
    (hz : ∀ j : Fin n, s ≤ j.val → h.get i j = 0) (j : Fin n) : h'.get i j = h.get i j := by
  obtain ⟨hsn, pivot, hps, _, _, eh, _, _⟩ := hnfIter_core e
  have hz1 : h.get i pivot = 0 := hz pivot hps
  have hz2 : h.get i ⟨s, hsn⟩ = 0 := hz ⟨s, hsn⟩ (Nat.le_refl _)
  have hsc : (hnfH2 h ⟨s, hs⟩ ⟨s, hsn⟩ pivot).get i ⟨s, hsn⟩ = 0 := by
    rw [hnfH2_get, if_pos rfl, hz1]; simp
  rw [eh, get_subColMultiples]
  by_cases hj : j = ⟨s, hsn⟩
  · rw [if_pos hj, hj, hsc, hz2]
  · rw [if_neg hj, hsc, hnfH2_get, if_neg hj]
    by_cases hjp : j = pivot
    · rw [if_pos hjp, hz2, hjp, hz1]; simp
    · rw [if_neg hjp]; simp

/-- When `update = false` the result row vanishes right of the diagonal. -/
theorem hnfIter_exit {s : Nat} {hs : s < m} {h : IMat m n} {r : IMat n n} {h' : IMat m n}
    {r' : IMat n n} (e : hnfIter s hs h r = some (h', r', false)) (j : Fin n) (hj : s < j.val) :
    h'.get ⟨s, hs⟩ j = 0 := by
  obtain ⟨hsn, pivot, hps, hpne, hmin, eh, eu, hred⟩ := hnfIter_core e
  have hjs : j ≠ ⟨s, hsn⟩ := by intro h; rw [h] at hj; simp at hj
  have hk := hnfK_zero_of_any_false eu.symm j
  have hb := hred.2.2 j hjs
  -- the entry is unchanged by the (trivial) column subtraction
  have e1 : h'.get ⟨s, hs⟩ j = (hnfH2 h ⟨s, hs⟩ ⟨s, hsn⟩ pivot).get ⟨s, hs⟩ j := by
    rw [eh, get_subColMultiples, if_neg hjs, hk]; simp
  rw [e1] at hb ⊢
  rw [hnfH2_get, if_neg hjs] at hb ⊢
  by_cases hjp : j = pivot
  · rw [if_pos hjp] at hb ⊢
    by_contra hne
    have := hmin ⟨s, hsn⟩ (Nat.le_refl _) hne
    omega
  · rw [if_neg hjp] at hb ⊢
    by_contra hne
    have := hmin j (Nat.le_of_lt hj) hne
    omega

/-- Strict decrease of the pivot on every iteration (after the first) that reports `update`. -/
theorem hnfIter_progress {s : Nat} {hs : s < m} {hsn : s < n} {h : IMat m n} {r : IMat n n}
    {h' : IMat m n} {r' : IMat n n} {p0 : Int} (hred0 : HRed h ⟨s, hs⟩ ⟨s, hsn⟩ p0)
    (e : hnfIter s hs h r = some (h', r', true)) :
    ∃ p' : Int, HRed h' ⟨s, hs⟩ ⟨s, hsn⟩ p' ∧ p' < p0 := by
  obtain ⟨_, pivot, hps, hpne, hmin, eh, eu, hred⟩ := hnfIter_core e
  refine ⟨_, hred, ?_⟩
  by_cases hpv : pivot = ⟨s, hsn⟩
  · exfalso
    have : ((List.finRange n).any fun j => hnfK h ⟨s, hs⟩ ⟨s, hsn⟩ pivot j != 0) = false := by
      rw [List.any_eq_false]
      intro j _
      have : hnfK h ⟨s, hs⟩ ⟨s, hsn⟩ pivot j = 0 := by
        unfold hnfK
        by_cases hj : j = ⟨s, hsn⟩
        · rw [if_pos hj]
        · rw [if_neg hj, hnfH2_pivot, hnfH2_get, if_neg hj, if_neg (by rw [hpv]; exact hj)]
          have hb := hred0.2.2 j hj
          apply Int.ediv_eq_zero_of_lt hb.1
          rw [hpv, hred0.1]
          have := hred0.2.1
          omega
      simp [this]
    rw [this] at eu
    cases eu
  · have hb := hred0.2.2 pivot hpv
    omega

theorem hnfRow_completed_of_red {s : Nat} {hs : s < m} {hsn : s < n} :
    ∀ (fuel : Nat) (h : IMat m n) (r : IMat n n) (p : Int), HRed h ⟨s, hs⟩ ⟨s, hsn⟩ p →
      p + 1 ≤ (fuel : Int) → (hnfRow s hs fuel (h, r)).2.2 = true
  | 0, h, r, p, hred, hf => by have := hred.2.1; omega
  | fuel + 1, h, r, p, hred, hf => by
    rw [hnfRow]
    split
    · rfl
    · rename_i h' r' u e
      cases u
      · simp
      · simp only [if_true]
        obtain ⟨p', hred', hlt⟩ := hnfIter_progress hred e
        exact hnfRow_completed_of_red fuel h' r' p' hred' (by omega)

theorem foldl_max_le {α : Type} (f : α → Nat) : ∀ (l : List α) (a : Nat),
    a ≤ l.foldl (fun acc j => max acc (f j)) a ∧
      ∀ x ∈ l, f x ≤ l.foldl (fun acc j => max acc (f j)) a
  | [], a => by simp
  | y :: t, a => by
    rw [List.foldl_cons]
    have ih := foldl_max_le f t (max a (f y))
    refine ⟨by omega, ?_⟩
    intro x hx
    rcases List.mem_cons.mp hx with rfl | hx
    · omega
    · exact ih.2 x hx

theorem natAbs_le_hnfFuel (s : Nat) (hs : s < m) (h : IMat m n) (j : Fin n) :
    (h.get ⟨s, hs⟩ j).natAbs + 2 ≤ hnfFuel s hs h := by
  unfold hnfFuel
  have := (foldl_max_le (fun j => (h.get ⟨s, hs⟩ j).natAbs) (List.finRange n) 0).2 j
    (List.mem_finRange j)
  omega

/-- The fuel of the model is always sufficient for the row loop. -/
theorem hnfRow_completed (s : Nat) (hs : s < m) (h : IMat m n) (r : IMat n n) :
    (hnfRow s hs (hnfFuel s hs h) (h, r)).2.2 = true := by
  obtain ⟨M, hM⟩ : ∃ M, hnfFuel s hs h = M + 2 := ⟨_, rfl⟩
  have hb := natAbs_le_hnfFuel s hs h
  rw [hM] at hb ⊢
  rw [hnfRow]
  split
  · rfl
  · rename_i h' r' u e
    cases u
    · simp
    · simp only [if_true]
      obtain ⟨hsn, pivot, _, _, _, _, _, hred⟩ := hnfIter_core e
      exact hnfRow_completed_of_red (M + 1) h' r' _ hred (by have := hb pivot; omega)

/-- Final shape of row `i`: zero right of the diagonal, non-negative diagonal, and
entries left of a non-zero diagonal reduced modulo it. -/
def RowOK (h : IMat m n) (i : Fin m) : Prop :=
  (∀ j : Fin n, i.val < j.val → h.get i j = 0) ∧
  (∀ hi : i.val < n, 0 ≤ h.get i ⟨i.val, hi⟩ ∧
    (h.get i ⟨i.val, hi⟩ ≠ 0 → ∀ j : Fin n, j.val < i.val →
      0 ≤ h.get i j ∧ h.get i j < h.get i ⟨i.val, hi⟩))

def HDone (t : Nat) (h : IMat m n) : Prop := ∀ i : Fin m, i.val < t → RowOK h i

theorem RowOK.congr {h h' : IMat m n} {i : Fin m} (hc : ∀ j, h'.get i j = h.get i j)
    (hr : RowOK h i) : RowOK h' i := by
  unfold RowOK at *
  simp only [hc]
  exact hr

theorem hnfIter_HDone {s : Nat} {hs : s < m} {h : IMat m n} {r : IMat n n} {h' : IMat m n}
    {r' : IMat n n} {u : Bool} (e : hnfIter s hs h r = some (h', r', u)) (hd : HDone s h) :
    HDone s h' := by
  intro i hi
  refine (hd i hi).congr (hnfIter_row_fixed e i ?_)
  intro j hj
  exact (hd i hi).1 j (by omega)

theorem rowOK_of_none {s : Nat} {hs : s < m} {h : IMat m n} {r : IMat n n}
    (e : hnfIter s hs h r = none) : RowOK h ⟨s, hs⟩ := by
  have hz := hnfIter_none e
  refine ⟨fun j hj => hz j (Nat.le_of_lt hj), fun hi => ?_⟩
  have : h.get ⟨s, hs⟩ ⟨s, hi⟩ = 0 := hz ⟨s, hi⟩ (Nat.le_refl _)
  simp only [this]
  simp

theorem rowOK_of_exit {s : Nat} {hs : s < m} {h : IMat m n} {r : IMat n n} {h' : IMat m n}
    {r' : IMat n n} (e : hnfIter s hs h r = some (h', r', false)) : RowOK h' ⟨s, hs⟩ := by
  obtain ⟨hsn, pivot, _, _, _, _, _, hred⟩ := hnfIter_core e
  refine ⟨fun j hj => hnfIter_exit e j hj, fun hi => ?_⟩
  have h1 := hred.1
  have h2 := hred.2.1
  refine ⟨by simp only [h1]; omega, fun _ j hj => ?_⟩
  have hjs : j ≠ ⟨s, hsn⟩ := by intro h; rw [h] at hj; simp at hj
  have := hred.2.2 j hjs
  simp only [h1]
  exact this

theorem hnfRow_shape {s : Nat} {hs : s < m} : ∀ (fuel : Nat) (h : IMat m n) (r : IMat n n),
    HDone s h → HDone s (hnfRow s hs fuel (h, r)).1 ∧
      ((hnfRow s hs fuel (h, r)).2.2 = true → RowOK (hnfRow s hs fuel (h, r)).1 ⟨s, hs⟩)
  | 0, h, r, hd => by simp [hnfRow, hd]
  | fuel + 1, h, r, hd => by
    rw [hnfRow]
    split
    · rename_i e
      exact ⟨hd, fun _ => rowOK_of_none e⟩
    · rename_i h' r' u e
      cases u
      · simp only [Bool.false_eq_true, if_false]
        exact ⟨hnfIter_HDone e hd, fun _ => rowOK_of_exit e⟩
      · simp only [if_true]
        exact hnfRow_shape fuel h' r' (hnfIter_HDone e hd)

theorem hnfRows_spec : ∀ (s todo : Nat) (hm : s + todo = m) (st : HNFResult m n),
    HDone s st.h → st.completed = true →
      HDone m (hnfRows s todo hm st).h ∧ (hnfRows s todo hm st).completed = true
  | s, 0, hm, st, hd, hc => by
    rw [hnfRows]
    have : s = m := by omega
    subst this
    exact ⟨hd, hc⟩
  | s, todo + 1, hm, st, hd, hc => by
    rw [hnfRows]
    have hs : s < m := by omega
    have h1 := hnfRow_shape (s := s) (hs := hs) (hnfFuel s hs st.h) st.h st.r hd
    have h2 := hnfRow_completed s hs st.h st.r
    generalize hnfRow s hs (hnfFuel s hs st.h) (st.h, st.r) = q at h1 h2 ⊢
    obtain ⟨h', r', ok⟩ := q
    simp only at h1 h2 ⊢
    apply hnfRows_spec (s + 1) todo (by omega)
    · intro i hi
      by_cases his : i.val < s
      · exact h1.1 i his
      · have : i = ⟨s, hs⟩ := Fin.ext (by simp; omega)
        rw [this]
        exact h1.2 h2
    · simp [hc, h2]

theorem hnf_spec (A : IMat m n) : HDone m (hnf A).h ∧ (hnf A).completed = true :=
  hnfRows_spec 0 m (by omega) _ (fun i hi => absurd hi (Nat.not_lt_zero _)) rfl

end HNFShape

/-! ### SNF: shape and termination -/

section SNFShape
variable {m n : Nat}

/-- Transposition of two indices, as a function. -/
def swp {α : Type} [DecidableEq α] (a b x : α) : α := if x = a then b else if x = b then a else x

theorem swp_self {α : Type} [DecidableEq α] (a x : α) : swp a a x = x := by
  unfold swp; split_ifs with h <;> simp [h]

theorem swp_left {α : Type} [DecidableEq α] (a b : α) : swp a b a = b := by
  unfold swp; simp

theorem swp_ge {k : Nat} {s : Nat} {a b x : Fin k} (ha : s ≤ a.val) (hb : s ≤ b.val)
    (hx : s ≤ x.val) : s ≤ (swp a b x).val := by
  unfold swp; split_ifs <;> assumption

theorem swp_gt {k : Nat} {s : Nat} {b x : Fin k} (hs : s < k) (hb : s ≤ b.val)
    (hx : s < x.val) : s ≤ (swp ⟨s, hs⟩ b x).val := by
  unfold swp; split_ifs <;> first | assumption | exact Nat.le_refl _ | omega

theorem swp_lt {k : Nat} {s : Nat} {a b x : Fin k} (ha : s ≤ a.val) (hb : s ≤ b.val)
    (hx : x.val < s) : swp a b x = x := by
  unfold swp
  rw [if_neg (by intro h; rw [h] at hx; omega), if_neg (by intro h; rw [h] at hx; omega)]

theorem get_swapCols' (A : IMat m n) (a b : Fin n) (i : Fin m) (j : Fin n) :
    (swapCols A a b).get i j = A.get i (swp a b j) := by
  rw [get_swapCols]; unfold swp; split_ifs <;> rfl

theorem get_swapRows' (A : IMat m n) (a b : Fin m) (i : Fin m) (j : Fin n) :
    (swapRows A a b).get i j = A.get (swp a b i) j := by
  rw [get_swapRows]; unfold swp; split_ifs <;> rfl

theorem snfD1_get (d : IMat m n) (sr pi : Fin m) (sc pj : Fin n) (i : Fin m) (j : Fin n) :
    (snfD1 d sr pi sc pj).get i j = d.get (swp sr pi i) (swp sc pj j) := by
  unfold snfD1; rw [get_swapCols', get_swapRows']

theorem snfD2_natAbs (d : IMat m n) (sr pi : Fin m) (sc pj : Fin n) (i : Fin m) (j : Fin n) :
    ((snfD2 d sr pi sc pj).get i j).natAbs = (d.get (swp sr pi i) (swp sc pj j)).natAbs := by
  unfold snfD2
  split
  · rw [get_negCol, snfD1_get]; split_ifs <;> simp
  · rw [snfD1_get]

theorem snfD2_pivot (d : IMat m n) (sr pi : Fin m) (sc pj : Fin n) :
    (snfD2 d sr pi sc pj).get sr sc = ((d.get pi pj).natAbs : Int) := by
  unfold snfD2 snfNeg
  by_cases hlt : (snfD1 d sr pi sc pj).get sr sc < 0
  · simp only [hlt, decide_true, if_true, get_negCol]
    rw [snfD1_get, swp_left, swp_left] at hlt ⊢
    omega
  · simp only [hlt, decide_false, Bool.false_eq_true, if_false]
    rw [snfD1_get, swp_left, swp_left] at hlt ⊢
    omega

theorem snfD2_self (d : IMat m n) (sr : Fin m) (sc : Fin n) (hpos : 0 ≤ d.get sr sc)
    (i : Fin m) (j : Fin n) : (snfD2 d sr sr sc sc).get i j = d.get i j := by
  unfold snfD2 snfNeg
  have : ¬ (snfD1 d sr sr sc sc).get sr sc < 0 := by
    rw [snfD1_get, swp_self, swp_self]; omega
  simp only [this, decide_false, Bool.false_eq_true, if_false]
  rw [snfD1_get, swp_self, swp_self]

theorem natAbs_sub_tdiv_mul_lt (a : Int) (p : Nat) (hp : 0 < p) :
    (a - Int.tdiv a p * p).natAbs < p := by
  have e : a - Int.tdiv a p * p = Int.tmod a p := by rw [Int.tmod_def, Int.mul_comm]
  rw [e, Int.natAbs_tmod]
  simpa using Nat.mod_lt _ hp

theorem tdiv_eq_zero_iff_natAbs_lt (a : Int) (p : Nat) (hp : 0 < p) :
    Int.tdiv a p = 0 ↔ a.natAbs < p := by
  rw [← Int.natAbs_eq_zero, Int.natAbs_tdiv]
  simp only [Int.natAbs_natCast]
  show a.natAbs / p = 0 ↔ _
  rw [Nat.div_eq_zero_iff]
  omega

theorem mem_snfCands {s : Nat} {d : IMat m n} {i : Fin m} {j : Fin n} :
    (i, j) ∈ snfCands s d ↔ s ≤ i.val ∧ s ≤ j.val ∧ d.get i j ≠ 0 := by
  simp [snfCands, and_assoc]

/-- Row-major (lexicographic) order on positions. -/
def lexLt (x y : Fin m × Fin n) : Prop := x.1 < y.1 ∨ (x.1 = y.1 ∧ x.2 < y.2)

theorem snfCands_pairwise (s : Nat) (d : IMat m n) : (snfCands s d).Pairwise lexLt := by
  unfold snfCands
  apply List.Pairwise.filter
  rw [List.pairwise_flatMap]
  constructor
  · intro i _
    rw [List.pairwise_map]
    exact (List.pairwise_lt_finRange n).imp fun h => Or.inr ⟨rfl, h⟩
  · refine (List.pairwise_lt_finRange m).imp ?_
    intro a b hab x hx y hy
    rw [List.mem_map] at hx hy
    obtain ⟨_, _, rfl⟩ := hx
    obtain ⟨_, _, rfl⟩ := hy
    exact Or.inl hab

/-- The key function of `snfIter`, without the pattern-matching lambda. -/
def snfKey (d : IMat m n) (x : Fin m × Fin n) : Nat := (d.get x.1 x.2).natAbs

theorem snfKey_eq (d : IMat m n) :
    (fun (x : Fin m × Fin n) => match x with | (i, j) => (d.get i j).natAbs) = snfKey d := by
  funext x; rcases x with ⟨i, j⟩; rfl

/-- Facts about the pivot chosen by `snfIter`. -/
theorem snf_pivot_facts {s : Nat} (hsm : s < m) (hsn : s < n) {d : IMat m n} {pi : Fin m}
    {pj : Fin n}
    (ha : argminBy (snfCands s d) (fun (i, j) => (d.get i j).natAbs) = some (pi, pj)) :
    s ≤ pi.val ∧ s ≤ pj.val ∧ d.get pi pj ≠ 0 ∧
    (∀ (i : Fin m) (j : Fin n), s ≤ i.val → s ≤ j.val → d.get i j ≠ 0 →
      (d.get pi pj).natAbs ≤ (d.get i j).natAbs) ∧
    (d.get ⟨s, hsm⟩ ⟨s, hsn⟩ ≠ 0 → (pi = ⟨s, hsm⟩ ∧ pj = ⟨s, hsn⟩) ∨
      (d.get pi pj).natAbs < (d.get ⟨s, hsm⟩ ⟨s, hsn⟩).natAbs) := by
  rw [snfKey_eq] at ha
  have hmem := mem_snfCands.mp (argminBy_mem ha)
  have hmin := argminBy_le ha
  refine ⟨hmem.1, hmem.2.1, hmem.2.2, ?_, ?_⟩
  · intro i j hi hj hne
    exact hmin (i, j) (mem_snfCands.mpr ⟨hi, hj, hne⟩)
  · intro hne
    have hss : ((⟨s, hsm⟩ : Fin m), (⟨s, hsn⟩ : Fin n)) ∈ snfCands s d :=
      mem_snfCands.mpr ⟨Nat.le_refl _, Nat.le_refl _, hne⟩
    have hpw := snfCands_pairwise s d
    obtain ⟨pre, post, hx, hpre, hpost⟩ := argminBy_some ha
    rw [hx] at hss hpw
    rcases List.mem_append.mp hss with h1 | h1
    · exact Or.inr (hpre _ h1)
    · rcases List.mem_cons.mp h1 with h1 | h1
      · left
        have h2 := congrArg Prod.fst h1
        have h3 := congrArg Prod.snd h1
        simp only at h2 h3
        exact ⟨h2.symm, h3.symm⟩
      · exfalso
        have := (List.pairwise_cons.mp (List.pairwise_append.mp hpw).2.1).1 _ h1
        unfold lexLt at this
        have h1' := hmem.1
        have h2' := hmem.2.1
        rcases this with h | ⟨h, h'⟩
        · have : pi.val < s := h
          omega
        · have : pj.val < s := h'
          omega

/-- Row `s` / column `s` are reduced w.r.t. the pivot `p` at `(s, s)`. -/
def SRed (s : Nat) (hsm : s < m) (hsn : s < n) (d : IMat m n) (p : Nat) : Prop :=
  d.get ⟨s, hsm⟩ ⟨s, hsn⟩ = (p : Int) ∧ 0 < p ∧
  (∀ i : Fin m, s < i.val → (d.get i ⟨s, hsn⟩).natAbs < p) ∧
  (∀ j : Fin n, s < j.val → (d.get ⟨s, hsm⟩ j).natAbs < p)

theorem snfD3_row (s : Nat) (d : IMat m n) (sr pi : Fin m) (sc pj : Fin n) (j : Fin n) :
    (snfD3 s d sr pi sc pj).get sr j = (snfD2 d sr pi sc pj).get sr j := by
  unfold snfD3; rw [get_subRowMultiples, if_pos rfl]

/-- Everything we need to know about a `snfIter` call that returned `some`. -/
theorem snfIter_core {s : Nat} {hsm : s < m} {hsn : s < n} {d : IMat m n} {l : IMat m m}
    {r : IMat n n} {d' : IMat m n} {l' : IMat m m} {r' : IMat n n} {u : Bool}
    (e : snfIter s hsm hsn d l r = some (d', l', r', u)) :
    ∃ (pi : Fin m) (pj : Fin n),
      (s ≤ pi.val ∧ s ≤ pj.val ∧ d.get pi pj ≠ 0 ∧
        (∀ (i : Fin m) (j : Fin n), s ≤ i.val → s ≤ j.val → d.get i j ≠ 0 →
          (d.get pi pj).natAbs ≤ (d.get i j).natAbs) ∧
        (d.get ⟨s, hsm⟩ ⟨s, hsn⟩ ≠ 0 → (pi = ⟨s, hsm⟩ ∧ pj = ⟨s, hsn⟩) ∨
          (d.get pi pj).natAbs < (d.get ⟨s, hsm⟩ ⟨s, hsn⟩).natAbs)) ∧
      d' = subColMultiples (snfD3 s d ⟨s, hsm⟩ pi ⟨s, hsn⟩ pj) ⟨s, hsn⟩
                (snfKc s d ⟨s, hsm⟩ pi ⟨s, hsn⟩ pj) ∧
      u = (((List.finRange m).any fun i => snfKr s d ⟨s, hsm⟩ pi ⟨s, hsn⟩ pj i != 0) ||
              ((List.finRange n).any fun j => snfKc s d ⟨s, hsm⟩ pi ⟨s, hsn⟩ pj j != 0)) ∧
      SRed s hsm hsn d' (d.get pi pj).natAbs := by
  obtain ⟨pi, pj, ha, ed, _, _, eu⟩ := snfIter_some e
  have hf := snf_pivot_facts hsm hsn ha
  have hp : 0 < (d.get pi pj).natAbs := by have := hf.2.2.1; omega
  have hsc : ∀ i, (snfD3 s d ⟨s, hsm⟩ pi ⟨s, hsn⟩ pj).get i ⟨s, hsn⟩ = d'.get i ⟨s, hsn⟩ := by
    intro i; rw [ed, get_subColMultiples, if_pos rfl]
  refine ⟨pi, pj, hf, ed, eu, ?_, hp, ?_, ?_⟩
  · rw [← hsc, snfD3_row, snfD2_pivot]
  · intro i hi
    have hne : i ≠ ⟨s, hsm⟩ := by intro h; rw [h] at hi; simp at hi
    rw [← hsc]
    unfold snfD3
    rw [get_subRowMultiples, if_neg hne]
    unfold snfKr
    rw [if_pos hi, snfD2_pivot]
    exact natAbs_sub_tdiv_mul_lt _ _ hp
  · intro j hj
    have hne : j ≠ ⟨s, hsn⟩ := by intro h; rw [h] at hj; simp at hj
    rw [ed, get_subColMultiples, if_neg hne]
    unfold snfKc
    rw [if_pos hj, snfD3_row s d ⟨s, hsm⟩ pi ⟨s, hsn⟩ pj ⟨s, hsn⟩, snfD2_pivot]
    exact natAbs_sub_tdiv_mul_lt _ _ hp

theorem snfIter_none {s : Nat} {hsm : s < m} {hsn : s < n} {d : IMat m n} {l : IMat m m}
    {r : IMat n n} (e : snfIter s hsm hsn d l r = none) :
    ∀ (i : Fin m) (j : Fin n), s ≤ i.val → s ≤ j.val → d.get i j = 0 := by
  intro i j hi hj
  rw [snfIter_eq] at e
  split at e
  · rename_i ha
    have := argminBy_none ha
    by_contra hne
    have hm : (i, j) ∈ snfCands s d := mem_snfCands.mpr ⟨hi, hj, hne⟩
    rw [this] at hm
    simp at hm
  · cases e

theorem any_or_false {α β : Type} {l1 : List α} {l2 : List β} {f : α → Bool} {g : β → Bool}
    (h : (l1.any f || l2.any g) = false) : (∀ x ∈ l1, f x = false) ∧ ∀ y ∈ l2, g y = false := by
  rw [Bool.or_eq_false_iff, List.any_eq_false, List.any_eq_false] at h
  exact ⟨fun x hx => by simpa using h.1 x hx, fun y hy => by simpa using h.2 y hy⟩

/-- When `update = false`, column `s` below and row `s` right of the pivot vanish. -/
theorem snfIter_exit {s : Nat} {hsm : s < m} {hsn : s < n} {d : IMat m n} {l : IMat m m}
    {r : IMat n n} {d' : IMat m n} {l' : IMat m m} {r' : IMat n n}
    (e : snfIter s hsm hsn d l r = some (d', l', r', false)) :
    (∀ i : Fin m, s < i.val → d'.get i ⟨s, hsn⟩ = 0) ∧
    (∀ j : Fin n, s < j.val → d'.get ⟨s, hsm⟩ j = 0) := by
  obtain ⟨pi, pj, hf, ed, eu, hred⟩ := snfIter_core e
  obtain ⟨hkr, hkc⟩ := any_or_false eu.symm
  have hkr' : ∀ i, snfKr s d ⟨s, hsm⟩ pi ⟨s, hsn⟩ pj i = 0 := fun i => by
    simpa using hkr i (List.mem_finRange i)
  have hkc' : ∀ j, snfKc s d ⟨s, hsm⟩ pi ⟨s, hsn⟩ pj j = 0 := fun j => by
    simpa using hkc j (List.mem_finRange j)
  constructor
  · intro i hi
    have hb := hred.2.2.1 i hi
    have hne : i ≠ ⟨s, hsm⟩ := by intro h; rw [h] at hi; simp at hi
    have e1 : d'.get i ⟨s, hsn⟩ = (snfD2 d ⟨s, hsm⟩ pi ⟨s, hsn⟩ pj).get i ⟨s, hsn⟩ := by
      rw [ed, get_subColMultiples, if_pos rfl]
      unfold snfD3
      rw [get_subRowMultiples, if_neg hne, hkr']; simp
    rw [e1] at hb ⊢
    rw [snfD2_natAbs, swp_left] at hb
    by_contra hne0
    have hne1 : d.get (swp ⟨s, hsm⟩ pi i) pj ≠ 0 := by
      intro h0
      apply hne0
      rw [← Int.natAbs_eq_zero, snfD2_natAbs, swp_left, h0]; rfl
    have := hf.2.2.2.1 _ pj (swp_gt hsm hf.1 hi) hf.2.1 hne1
    omega
  · intro j hj
    have hb := hred.2.2.2 j hj
    have hne : j ≠ ⟨s, hsn⟩ := by intro h; rw [h] at hj; simp at hj
    have e1 : d'.get ⟨s, hsm⟩ j = (snfD2 d ⟨s, hsm⟩ pi ⟨s, hsn⟩ pj).get ⟨s, hsm⟩ j := by
      rw [ed, get_subColMultiples, if_neg hne, hkc', snfD3_row]; simp
    rw [e1] at hb ⊢
    rw [snfD2_natAbs, swp_left] at hb
    by_contra hne0
    have hne1 : d.get pi (swp ⟨s, hsn⟩ pj j) ≠ 0 := by
      intro h0
      apply hne0
      rw [← Int.natAbs_eq_zero, snfD2_natAbs, swp_left, h0]; rfl
    have := hf.2.2.2.1 pi _ hf.1 (swp_gt hsn hf.2.1 hj) hne1
    omega

/-- Strict decrease of the pivot on every iteration (after the first) that reports `update`. -/
theorem snfIter_progress {s : Nat} {hsm : s < m} {hsn : s < n} {d : IMat m n} {l : IMat m m}
    {r : IMat n n} {d' : IMat m n} {l' : IMat m m} {r' : IMat n n} {p0 : Nat}
    (hred0 : SRed s hsm hsn d p0) (e : snfIter s hsm hsn d l r = some (d', l', r', true)) :
    ∃ p' : Nat, SRed s hsm hsn d' p' ∧ p' < p0 := by
  obtain ⟨pi, pj, hf, ed, eu, hred⟩ := snfIter_core e
  refine ⟨_, hred, ?_⟩
  have hss : d.get ⟨s, hsm⟩ ⟨s, hsn⟩ ≠ 0 := by have := hred0.1; have := hred0.2.1; omega
  rcases hf.2.2.2.2 hss with ⟨rfl, rfl⟩ | hlt
  · exfalso
    have hpos : 0 ≤ d.get ⟨s, hsm⟩ ⟨s, hsn⟩ := by have := hred0.1; omega
    have h1 : ((List.finRange m).any fun i =>
        snfKr s d ⟨s, hsm⟩ ⟨s, hsm⟩ ⟨s, hsn⟩ ⟨s, hsn⟩ i != 0) = false := by
      rw [List.any_eq_false]
      intro i _
      have : snfKr s d ⟨s, hsm⟩ ⟨s, hsm⟩ ⟨s, hsn⟩ ⟨s, hsn⟩ i = 0 := by
        unfold snfKr
        split
        · rename_i hi
          rw [snfD2_self d _ _ hpos, snfD2_self d _ _ hpos, hred0.1]
          exact (tdiv_eq_zero_iff_natAbs_lt _ _ hred0.2.1).mpr (hred0.2.2.1 i hi)
        · rfl
      simp [this]
    have h2 : ((List.finRange n).any fun j =>
        snfKc s d ⟨s, hsm⟩ ⟨s, hsm⟩ ⟨s, hsn⟩ ⟨s, hsn⟩ j != 0) = false := by
      rw [List.any_eq_false]
      intro j _
      have : snfKc s d ⟨s, hsm⟩ ⟨s, hsm⟩ ⟨s, hsn⟩ ⟨s, hsn⟩ j = 0 := by
        unfold snfKc
        split
        · rename_i hj
          rw [snfD3_row, snfD2_self d _ _ hpos, snfD2_self d _ _ hpos, hred0.1]
          exact (tdiv_eq_zero_iff_natAbs_lt _ _ hred0.2.1).mpr (hred0.2.2.2 j hj)
        · rfl
      simp [this]
    rw [h1, h2] at eu
    cases eu
  · have := hred0.1
    omega

theorem snfDiag_completed_of_red {s : Nat} {hsm : s < m} {hsn : s < n} :
    ∀ (fuel : Nat) (d : IMat m n) (l : IMat m m) (r : IMat n n) (p : Nat),
      SRed s hsm hsn d p → p + 1 ≤ fuel → (snfDiag s hsm hsn fuel (d, l, r)).2.2.2 = true
  | 0, d, l, r, p, hred, hf => by omega
  | fuel + 1, d, l, r, p, hred, hf => by
    rw [snfDiag]
    split
    · rfl
    · rename_i d' l' r' u e
      cases u
      · simp
      · simp only [if_true]
        obtain ⟨p', hred', hlt⟩ := snfIter_progress hred e
        exact snfDiag_completed_of_red fuel d' l' r' p' hred' (by omega)

theorem natAbs_le_snfFuel (d : IMat m n) (i : Fin m) (j : Fin n) :
    2 * (d.get i j).natAbs + 2 ≤ snfFuel d := by
  unfold snfFuel
  have key : ∀ (l : List (Fin m)) (a : Nat),
      a ≤ l.foldl (fun acc i =>
        (List.finRange n).foldl (fun acc j => max acc (d.get i j).natAbs) acc) a ∧
      ∀ x ∈ l, ∀ j, (d.get x j).natAbs ≤ l.foldl (fun acc i =>
        (List.finRange n).foldl (fun acc j => max acc (d.get i j).natAbs) acc) a := by
    intro l
    induction l with
    | nil => intro a; simp
    | cons y t ih =>
      intro a
      rw [List.foldl_cons]
      have h1 := foldl_max_le (fun j => (d.get y j).natAbs) (List.finRange n) a
      have h2 := ih ((List.finRange n).foldl (fun acc j => max acc (d.get y j).natAbs) a)
      refine ⟨by omega, ?_⟩
      intro x hx j
      rcases List.mem_cons.mp hx with rfl | hx
      · have := h1.2 j (List.mem_finRange j); omega
      · exact h2.2 x hx j
  have := (key (List.finRange m) 0).2 i (List.mem_finRange i) j
  omega

/-- The fuel of the model is always sufficient for the diagonal loop. -/
theorem snfDiag_completed (s : Nat) (hsm : s < m) (hsn : s < n) (d : IMat m n) (l : IMat m m)
    (r : IMat n n) : (snfDiag s hsm hsn (snfFuel d) (d, l, r)).2.2.2 = true := by
  obtain ⟨M, hM⟩ : ∃ M, snfFuel d = M + 1 := by
    unfold snfFuel; exact ⟨_, rfl⟩
  have hb := natAbs_le_snfFuel d
  rw [hM] at hb ⊢
  rw [snfDiag]
  split
  · rfl
  · rename_i d' l' r' u e
    cases u
    · simp
    · simp only [if_true]
      obtain ⟨pi, pj, _, _, _, hred⟩ := snfIter_core e
      exact snfDiag_completed_of_red M d' l' r' _ hred (by have := hb pi pj; omega)

/-- Off-diagonal entries in the finished rows / columns (`< s`) vanish. -/
def ZO (s : Nat) (d : IMat m n) : Prop :=
  ∀ (i : Fin m) (j : Fin n), (i.val < s ∨ j.val < s) → i.val ≠ j.val → d.get i j = 0

/-- `d'` agrees with `d` on the finished rows / columns. -/
def EqO (s : Nat) (d d' : IMat m n) : Prop :=
  ∀ (i : Fin m) (j : Fin n), (i.val < s ∨ j.val < s) → d'.get i j = d.get i j

theorem EqO.trans {s : Nat} {d d' d'' : IMat m n} (h1 : EqO s d d') (h2 : EqO s d' d'') :
    EqO s d d'' := fun i j ho => (h2 i j ho).trans (h1 i j ho)

theorem ZO.of_eqO {s : Nat} {d d' : IMat m n} (hz : ZO s d) (h : EqO s d d') : ZO s d' :=
  fun i j ho hne => (h i j ho).trans (hz i j ho hne)

theorem eqO_swapRows {s : Nat} {d : IMat m n} (hz : ZO s d) {a b : Fin m} (ha : s ≤ a.val)
    (hb : s ≤ b.val) : EqO s d (swapRows d a b) := by
  intro i j ho
  rw [get_swapRows]
  split_ifs with h1 h2
  · subst h1
    rw [hz b j (by omega) (by omega), hz i j (by omega) (by omega)]
  · subst h2
    rw [hz a j (by omega) (by omega), hz i j (by omega) (by omega)]
  · rfl

theorem eqO_swapCols {s : Nat} {d : IMat m n} (hz : ZO s d) {a b : Fin n} (ha : s ≤ a.val)
    (hb : s ≤ b.val) : EqO s d (swapCols d a b) := by
  intro i j ho
  rw [get_swapCols]
  split_ifs with h1 h2
  · subst h1
    rw [hz i b (by omega) (by omega), hz i j (by omega) (by omega)]
  · subst h2
    rw [hz i a (by omega) (by omega), hz i j (by omega) (by omega)]
  · rfl

theorem eqO_negCol {s : Nat} {d : IMat m n} (hz : ZO s d) {a : Fin n} (ha : s ≤ a.val) :
    EqO s d (negCol d a) := by
  intro i j ho
  rw [get_negCol]
  split_ifs with h1
  · subst h1
    rw [hz i j (by omega) (by omega)]; rfl
  · rfl

theorem eqO_subRowMultiples {s : Nat} {d : IMat m n} (hz : ZO s d) {a : Fin m} (ha : s ≤ a.val)
    {k : Fin m → Int} (hk : ∀ i : Fin m, i.val < s → k i = 0) :
    EqO s d (subRowMultiples d a k) := by
  intro i j ho
  rw [get_subRowMultiples]
  split_ifs with h1
  · rfl
  · by_cases hi : i.val < s
    · rw [hk i hi]; simp
    · rw [hz a j (by omega) (by omega)]; simp

theorem eqO_subColMultiples {s : Nat} {d : IMat m n} (hz : ZO s d) {a : Fin n} (ha : s ≤ a.val)
    {k : Fin n → Int} (hk : ∀ j : Fin n, j.val < s → k j = 0) :
    EqO s d (subColMultiples d a k) := by
  intro i j ho
  rw [get_subColMultiples]
  split_ifs with h1
  · rfl
  · by_cases hj : j.val < s
    · rw [hk j hj]; simp
    · rw [hz i a (by omega) (by omega)]; simp

/-- `snfIter s` does not touch the finished rows / columns. -/
theorem snfIter_frame {s : Nat} {hsm : s < m} {hsn : s < n} {d : IMat m n} {l : IMat m m}
    {r : IMat n n} {d' : IMat m n} {l' : IMat m m} {r' : IMat n n} {u : Bool}
    (e : snfIter s hsm hsn d l r = some (d', l', r', u)) (hz : ZO s d) : EqO s d d' := by
  obtain ⟨pi, pj, hf, ed, _, _⟩ := snfIter_core e
  have hss : s ≤ (⟨s, hsm⟩ : Fin m).val := Nat.le_refl _
  have hsc : s ≤ (⟨s, hsn⟩ : Fin n).val := Nat.le_refl _
  have e1 : EqO s d (swapRows d ⟨s, hsm⟩ pi) := eqO_swapRows hz hss hf.1
  have e2 : EqO s d (snfD1 d ⟨s, hsm⟩ pi ⟨s, hsn⟩ pj) :=
    e1.trans (eqO_swapCols (hz.of_eqO e1) hsc hf.2.1)
  have e3 : EqO s d (snfD2 d ⟨s, hsm⟩ pi ⟨s, hsn⟩ pj) := by
    unfold snfD2
    split
    · exact e2.trans (eqO_negCol (hz.of_eqO e2) hsc)
    · exact e2
  have e4 : EqO s d (snfD3 s d ⟨s, hsm⟩ pi ⟨s, hsn⟩ pj) := by
    unfold snfD3
    refine e3.trans (eqO_subRowMultiples (hz.of_eqO e3) hss ?_)
    intro i hi
    unfold snfKr
    rw [if_neg (by omega)]
  rw [ed]
  refine e4.trans (eqO_subColMultiples (hz.of_eqO e4) hsc ?_)
  intro j hj
  unfold snfKc
  rw [if_neg (by omega)]

/-- Rows / columns `< s` are in final form: off-diagonal zero, diagonal non-negative. -/
def SDone (s : Nat) (d : IMat m n) : Prop :=
  ZO s d ∧ ∀ (i : Fin m) (j : Fin n), i.val = j.val → i.val < s → 0 ≤ d.get i j

theorem SDone.of_eqO {s : Nat} {d d' : IMat m n} (hd : SDone s d) (h : EqO s d d') :
    SDone s d' :=
  ⟨hd.1.of_eqO h, fun i j hij hi => by rw [h i j (Or.inl hi)]; exact hd.2 i j hij hi⟩

/-- What the loop at position `s` establishes on exit. -/
def SExit (s : Nat) (d : IMat m n) : Prop :=
  (∀ (i : Fin m) (j : Fin n), s < i.val → j.val = s → d.get i j = 0) ∧
  (∀ (i : Fin m) (j : Fin n), i.val = s → s < j.val → d.get i j = 0) ∧
  (∀ (i : Fin m) (j : Fin n), i.val = s → j.val = s → 0 ≤ d.get i j)

theorem SDone.succ {s : Nat} {d : IMat m n} (hd : SDone s d) (he : SExit s d) :
    SDone (s + 1) d := by
  refine ⟨?_, ?_⟩
  · intro i j ho hne
    by_cases h : i.val < s ∨ j.val < s
    · exact hd.1 i j h hne
    · by_cases hi : i.val = s
      · exact he.2.1 i j hi (by omega)
      · exact he.1 i j (by omega) (by omega)
  · intro i j hij hi
    by_cases h : i.val < s
    · exact hd.2 i j hij h
    · exact he.2.2 i j (by omega) (by omega)

theorem sExit_of_none {s : Nat} {hsm : s < m} {hsn : s < n} {d : IMat m n} {l : IMat m m}
    {r : IMat n n} (e : snfIter s hsm hsn d l r = none) : SExit s d := by
  have hz := snfIter_none e
  refine ⟨fun i j hi hj => hz i j (by omega) (by omega),
    fun i j hi hj => hz i j (by omega) (by omega),
    fun i j hi hj => by rw [hz i j (by omega) (by omega)]⟩

theorem sExit_of_exit {s : Nat} {hsm : s < m} {hsn : s < n} {d : IMat m n} {l : IMat m m}
    {r : IMat n n} {d' : IMat m n} {l' : IMat m m} {r' : IMat n n}
    (e : snfIter s hsm hsn d l r = some (d', l', r', false)) : SExit s d' := by
  obtain ⟨h1, h2⟩ := snfIter_exit e
  obtain ⟨pi, pj, _, _, _, hred⟩ := snfIter_core e
  refine ⟨?_, ?_, ?_⟩
  · intro i j hi hj
    have : j = ⟨s, hsn⟩ := Fin.ext hj
    rw [this]; exact h1 i hi
  · intro i j hi hj
    have : i = ⟨s, hsm⟩ := Fin.ext hi
    rw [this]; exact h2 j hj
  · intro i j hi hj
    have hi' : i = ⟨s, hsm⟩ := Fin.ext hi
    have hj' : j = ⟨s, hsn⟩ := Fin.ext hj
    rw [hi', hj', hred.1]
    omega

theorem snfDiag_shape {s : Nat} {hsm : s < m} {hsn : s < n} :
    ∀ (fuel : Nat) (d : IMat m n) (l : IMat m m) (r : IMat n n), SDone s d →
      SDone s (snfDiag s hsm hsn fuel (d, l, r)).1 ∧
      ((snfDiag s hsm hsn fuel (d, l, r)).2.2.2 = true →
        SExit s (snfDiag s hsm hsn fuel (d, l, r)).1)
  | 0, d, l, r, hd => by simp [snfDiag, hd]
  | fuel + 1, d, l, r, hd => by
    rw [snfDiag]
    split
    · rename_i e
      exact ⟨hd, fun _ => sExit_of_none e⟩
    · rename_i d' l' r' u e
      have hd' : SDone s d' := hd.of_eqO (snfIter_frame e hd.1)
      cases u
      · simp only [Bool.false_eq_true, if_false]
        exact ⟨hd', fun _ => sExit_of_exit e⟩
      · simp only [if_true]
        exact snfDiag_shape fuel d' l' r' hd'

theorem snfSteps_spec : ∀ (s todo : Nat) (hm : s + todo = min m n) (st : SNFResult m n),
    SDone s st.d → st.completed = true →
      SDone (min m n) (snfSteps s todo hm st).d ∧ (snfSteps s todo hm st).completed = true
  | s, 0, hm, st, hd, hc => by
    rw [snfSteps]
    have : s = min m n := by omega
    rw [← this]
    exact ⟨hd, hc⟩
  | s, todo + 1, hm, st, hd, hc => by
    rw [snfSteps]
    have hsm : s < m := by omega
    have hsn : s < n := by omega
    have h1 := snfDiag_shape (s := s) (hsm := hsm) (hsn := hsn) (snfFuel st.d) st.d st.l st.r hd
    have h2 := snfDiag_completed s hsm hsn st.d st.l st.r
    generalize snfDiag s hsm hsn (snfFuel st.d) (st.d, st.l, st.r) = q at h1 h2 ⊢
    obtain ⟨d', l', r', ok⟩ := q
    simp only at h1 h2 ⊢
    apply snfSteps_spec (s + 1) todo (by omega)
    · exact h1.1.succ (h1.2 h2)
    · simp [hc, h2]

theorem snf_spec (A : IMat m n) : SDone (min m n) (snf A).d ∧ (snf A).completed = true :=
  snfSteps_spec 0 (min m n) (by omega) _
    ⟨fun i j ho => by omega, fun i j _ hi => absurd hi (Nat.not_lt_zero _)⟩ rfl

end SNFShape

/-! ### Rank -/

section Rank
variable {m n : Nat}

/-- View an `IMat` as a rational Mathlib matrix. -/
def toQ (A : IMat m n) : Matrix (Fin m) (Fin n) ℚ := Matrix.of fun i j => ((A.get i j : ℤ) : ℚ)

theorem toQ_eq_map (A : IMat m n) : toQ A = (toM A).map (Int.castRingHom ℚ) := by
  ext i j; simp [toQ]

theorem toQ_mul {p : Nat} (A : IMat m n) (B : IMat n p) : toQ (A.mul B) = toQ A * toQ B := by
  rw [toQ_eq_map, toQ_eq_map, toQ_eq_map, toM_mul, Matrix.map_mul]

theorem Unimod.isUnit_det_toQ {R : IMat n n} (h : Unimod R) : IsUnit (toQ R).det := by
  rw [toQ_eq_map]
  have := (Int.castRingHom ℚ).map_det (toM R)
  rw [RingHom.mapMatrix_apply] at this
  rw [← this]
  exact h.map _

theorem rank_toQ_of_decomp {A D : IMat m n} {L : IMat m m} {R : IMat n n}
    (hd : D = (L.mul A).mul R) (hL : Unimod L) (hR : Unimod R) :
    (toQ D).rank = (toQ A).rank := by
  rw [hd, toQ_mul, toQ_mul, Matrix.rank_mul_eq_left_of_isUnit_det _ _ hR.isUnit_det_toQ,
    Matrix.rank_mul_eq_right_of_isUnit_det _ _ hL.isUnit_det_toQ]

theorem toQ_mul_transpose_diag {D : IMat m n}
    (hz : ∀ (i : Fin m) (j : Fin n), i.val ≠ j.val → D.get i j = 0) :
    toQ D * (toQ D).transpose = Matrix.diagonal (fun i : Fin m =>
      if h : i.val < n then ((D.get i ⟨i.val, h⟩ : ℤ) : ℚ) ^ 2 else 0) := by
  ext i i'
  rw [Matrix.mul_apply, Matrix.diagonal_apply]
  by_cases hii : i = i'
  · subst hii
    rw [if_pos rfl]
    by_cases h : i.val < n
    · rw [dif_pos h, Finset.sum_eq_single (⟨i.val, h⟩ : Fin n)]
      · simp [toQ, pow_two]
      · intro j _ hj
        have : i.val ≠ j.val := fun e => hj (Fin.ext e.symm)
        simp [toQ, hz i j this]
      · intro h'; exact absurd (Finset.mem_univ _) h'
    · rw [dif_neg h]
      apply Finset.sum_eq_zero
      intro j _
      have : i.val ≠ j.val := by have := j.isLt; omega
      simp [toQ, hz i j this]
  · rw [if_neg hii]
    apply Finset.sum_eq_zero
    intro j _
    by_cases h1 : i.val = j.val
    · have : i'.val ≠ j.val := fun e => hii (Fin.ext (h1.trans e.symm))
      simp [toQ, hz i' j this]
    · simp [toQ, hz i j h1]

theorem length_filter_range_eq_card (k : Nat) (q : Nat → Bool) :
    ((List.range k).filter q).length = ((Finset.range k).filter fun i => q i = true).card := by
  simp only [Finset.card, Finset.filter, Finset.range, Multiset.range, Multiset.filter_coe,
    Multiset.coe_card]
  congr 1
  apply List.filter_congr
  intro x _
  simp

theorem rank_toQ_diag (res : SNFResult m n)
    (hz : ∀ (i : Fin m) (j : Fin n), i.val ≠ j.val → res.d.get i j = 0) :
    (toQ res.d).rank = res.rank := by
  rw [← Matrix.rank_self_mul_transpose, toQ_mul_transpose_diag hz, Matrix.rank_diagonal,
    Fintype.card_subtype]
  unfold SNFResult.rank
  rw [length_filter_range_eq_card]
  apply Finset.card_bij (fun i _ => i.val)
  · intro i hi
    rw [Finset.mem_filter] at hi ⊢
    have hw := hi.2
    by_cases h : i.val < n
    · rw [dif_pos h] at hw
      have hne : res.d.get i ⟨i.val, h⟩ ≠ 0 := by
        intro h0; apply hw; rw [h0]; simp
      refine ⟨Finset.mem_range.mpr (by have := i.isLt; omega), ?_⟩
      rw [dif_pos ⟨i.isLt, h⟩]
      simpa using hne
    · rw [dif_neg h] at hw; exact absurd rfl hw
  · intro a _ b _ hab; exact Fin.ext hab
  · intro k hk
    rw [Finset.mem_filter] at hk
    by_cases h : k < m ∧ k < n
    · rw [dif_pos h] at hk
      refine ⟨⟨k, h.1⟩, ?_, rfl⟩
      rw [Finset.mem_filter]
      refine ⟨Finset.mem_univ _, ?_⟩
      rw [dif_pos h.2]
      have : res.d.get ⟨k, h.1⟩ ⟨k, h.2⟩ ≠ 0 := by simpa using hk.2
      simpa using this
    · rw [dif_neg h] at hk; exact absurd hk.2 (by simp)

end Rank

theorem snf_unimod_l {m n : Nat} (A : IMat m n) : Unimod (snf A).l :=
  snf_preserves rcClosed_unimod_l A (unimod_one m)

theorem snf_unimod_r {m n : Nat} (A : IMat m n) : Unimod (snf A).r :=
  snf_preserves rcClosed_unimod_r A (unimod_one n)

/-! ### Coset representatives from the SNF -/

section Cosets
open Matrix
variable {n : Nat}

/-- Abstract coset statement for a diagonalisation `D = L·M·R` with unimodular `L`, `R`. -/
theorem cosets_of_diag {Mm Lm Rm Li : Matrix (Fin n) (Fin n) ℤ} {d : Fin n → ℤ}
    (hD : Matrix.diagonal d = Lm * Mm * Rm) (hL : IsUnit Lm.det) (hR : IsUnit Rm.det)
    (hLi : Lm * Li = 1) (hd : ∀ i, 0 ≤ d i) (hdet : Mm.det ≠ 0) :
    ((Fintype.piFinset fun i => Finset.Ico (0 : ℤ) (d i)).card = Mm.det.natAbs) ∧
    (∀ f ∈ Fintype.piFinset fun i => Finset.Ico (0 : ℤ) (d i),
      ∀ g ∈ Fintype.piFinset fun i => Finset.Ico (0 : ℤ) (d i),
      (∃ z : Fin n → ℤ, Li *ᵥ f - Li *ᵥ g = Mm *ᵥ z) → f = g) ∧
    (∀ v : Fin n → ℤ, ∃ f ∈ Fintype.piFinset fun i => Finset.Ico (0 : ℤ) (d i),
      ∃ z : Fin n → ℤ, v - Li *ᵥ f = Mm *ᵥ z) := by
  have hLi' : Li * Lm = 1 := mul_eq_one_comm.mp hLi
  obtain ⟨Ri, hRi, hRi'⟩ : ∃ Ri, Rm * Ri = 1 ∧ Ri * Rm = 1 :=
    ⟨Rm⁻¹, Matrix.mul_nonsing_inv _ hR, Matrix.nonsing_inv_mul _ hR⟩
  have hdetD : (∏ i, d i).natAbs = Mm.det.natAbs := by
    have := congrArg Matrix.det hD
    rw [Matrix.det_diagonal, Matrix.det_mul, Matrix.det_mul] at this
    rw [this, Int.natAbs_mul, Int.natAbs_mul, Int.natAbs_of_isUnit hL, Int.natAbs_of_isUnit hR]
    omega
  have hprod : (∏ i, d i) ≠ 0 := by
    intro h0; rw [h0] at hdetD
    exact hdet (Int.natAbs_eq_zero.mp hdetD.symm)
  have hpos : ∀ i, 0 < d i := by
    intro i
    have := (Finset.prod_ne_zero_iff.mp hprod) i (Finset.mem_univ i)
    have := hd i
    omega
  have hLM : Lm * Mm = Matrix.diagonal d * Ri := by
    rw [hD, Matrix.mul_assoc (Lm * Mm), hRi, Matrix.mul_one]
  have hMM : Mm * Rm = Li * Matrix.diagonal d := by
    rw [hD, ← Matrix.mul_assoc, ← Matrix.mul_assoc, hLi', Matrix.one_mul]
  refine ⟨?_, ?_, ?_⟩
  · have hp : (∏ i, d i).natAbs = ∏ i, (d i).natAbs := map_prod Int.natAbsHom d Finset.univ
    rw [Fintype.card_piFinset, ← hdetD, hp]
    apply Finset.prod_congr rfl
    intro i _
    rw [Int.card_Ico]
    have := hd i
    omega
  · intro f hf g hg ⟨z, hz⟩
    rw [Fintype.mem_piFinset] at hf hg
    have h1 := congrArg (fun v => Lm *ᵥ v) hz
    simp only [Matrix.mulVec_sub, Matrix.mulVec_mulVec, hLi, Matrix.one_mulVec, hLM] at h1
    rw [← Matrix.mulVec_mulVec] at h1
    funext i
    have h2 := congrFun h1 i
    rw [Matrix.mulVec_diagonal, Pi.sub_apply] at h2
    have hfi := Finset.mem_Ico.mp (hf i)
    have hgi := Finset.mem_Ico.mp (hg i)
    generalize (Ri *ᵥ z) i = w at h2
    have hp := hpos i
    by_contra hne
    have hw : w ≥ 1 ∨ w ≤ -1 := by
      by_contra hc
      have : w = 0 := by omega
      rw [this] at h2
      omega
    rcases hw with hw | hw
    · nlinarith
    · nlinarith
  · intro v
    obtain ⟨u, hu⟩ : ∃ u, u = Lm *ᵥ v := ⟨_, rfl⟩
    have hv : v = Li *ᵥ u := by
      rw [hu, Matrix.mulVec_mulVec, hLi', Matrix.one_mulVec]
    refine ⟨fun i => u i % d i, ?_, Rm *ᵥ (fun i => u i / d i), ?_⟩
    · rw [Fintype.mem_piFinset]
      intro i
      rw [Finset.mem_Ico]
      exact ⟨Int.emod_nonneg _ (Int.ne_of_gt (hpos i)), Int.emod_lt_of_pos _ (hpos i)⟩
    · rw [Matrix.mulVec_mulVec, hMM, ← Matrix.mulVec_mulVec, hv, ← Matrix.mulVec_sub]
      congr 1
      funext i
      rw [Matrix.mulVec_diagonal, Pi.sub_apply]
      have := Int.emod_add_mul_ediv (u i) (d i)
      linarith

theorem snf_cosets (M : IMat n n) (hdet : (toM M).det ≠ 0) (Linv : IMat n n)
    (hLinv : (snf M).l.mul Linv = IMat.one n) :
    ((Fintype.piFinset fun i : Fin n => Finset.Ico (0 : ℤ) ((snf M).d.get i i)).card
        = (toM M).det.natAbs) ∧
    (∀ f ∈ Fintype.piFinset fun i : Fin n => Finset.Ico (0 : ℤ) ((snf M).d.get i i),
      ∀ g ∈ Fintype.piFinset fun i : Fin n => Finset.Ico (0 : ℤ) ((snf M).d.get i i),
      (∃ z : Fin n → ℤ, toM Linv *ᵥ f - toM Linv *ᵥ g = toM M *ᵥ z) → f = g) ∧
    (∀ v : Fin n → ℤ,
      ∃ f ∈ Fintype.piFinset fun i : Fin n => Finset.Ico (0 : ℤ) ((snf M).d.get i i),
      ∃ z : Fin n → ℤ, v - toM Linv *ᵥ f = toM M *ᵥ z) := by
  have hsp := (snf_spec M).1
  have hdiag : Matrix.diagonal (fun i : Fin n => (snf M).d.get i i) = toM (snf M).d := by
    ext i j
    rw [Matrix.diagonal_apply, toM_apply]
    by_cases hij : i = j
    · rw [if_pos hij, hij]
    · rw [if_neg hij]
      have hne : i.val ≠ j.val := fun e => hij (Fin.ext e)
      exact (hsp.1 i j (by have := i.isLt; have := j.isLt; omega) hne).symm
  have hdec : (snf M).d = ((snf M).l.mul M).mul (snf M).r :=
    snf_preserves (rcClosed_decomp M) M (by rw [one_mul_left, mul_one_right])
  refine cosets_of_diag (Lm := toM (snf M).l) (Rm := toM (snf M).r) ?_
    (snf_unimod_l M) (snf_unimod_r M) ?_ ?_ hdet
  · rw [hdiag, hdec, toM_mul, toM_mul]
  · rw [← toM_mul, hLinv, toM_one]
  · intro i
    exact hsp.2 i i rfl (by have := i.isLt; omega)

end Cosets

/-! ### Concrete matrices for the non-vacuity examples in `Props/C15.lean` -/

/-- First matrix of `test_hnf_small` in `moyo/src/math/hnf.rs`. -/
def exH : IMat 3 3 := IMat.ofFlat 3 3 #[-1, 0, 0, 1, 2, 2, 0, -1, -2]

/-- Matrix of `test_smith_normal_form_small` in `moyo/src/math/snf.rs`. -/
def exS : IMat 3 3 := IMat.ofFlat 3 3 #[2, 4, 4, -6, 6, 12, 10, -4, -16]

end NF
end Moyo
