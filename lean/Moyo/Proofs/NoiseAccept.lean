import Moyo.Proofs.SearchAccept
import Mathlib.Tactic.Positivity
import Mathlib.Tactic.LinearCombination
import Mathlib.Tactic.IntervalCases
/-
Why noise that is small against `symprec` does not change what the candidate loop accepts (C09):
lemmas for Props/C09Noise.lean.

* `LenLe v r` : "`|v| ≤ r`" without square roots (`0 ≤ r ∧ |v|² ≤ r²`), with the triangle inequality
  (`LenLe.add`, via Cauchy–Schwarz), scaling, sums and means.
* `IsIsometry A R` : `Rᵀ (AᵀA) R = AᵀA` (decidable matrix identity) and its meaning `|A R v| = |A v|`;
  `NearIso A R κ` : `|A R v| ≤ κ |A v|` (what is left of the isometry on a strained lattice);
  `Strained A₀ A η` : `(1-η)|A₀ v| ≤ |A v| ≤ (1+η)|A₀ v|`; `strained_of_matrix`: `A = S·A₀`, `‖S - I‖_F ≤ η`.
* `NoWrap A r` : a Cartesian length `≤ r` forces every fractional component into `(-½, ½)`
  (`r · |row_i A⁻¹| < ½`), so `e - e.round()` does not touch such a vector (`small_of_lenLe`, `roundV_zq_add`).
* `noise_core` : the least-squares translation and the residuals of the stage model
  (`Search.symTranslation`, `Search.residual`) for a noisy copy of an exactly symmetric crystal.
* `site_unique`, `sep_transfer` : a point has at most one same-species atom within `ρ` when the same-species
  separation exceeds `2ρ`; the separation of the noisy crystal from that of the ideal one.
-/
namespace Moyo.Noise
open Moyo Moyo.Search Moyo.Spec Moyo.Oracle

/-! ### lengths without square roots -/

/-- `|v| ≤ r` : `r` is non-negative and `|v|² ≤ r²`. -/
def LenLe (v : Q3) (r : Rat) : Prop := 0 ≤ r ∧ v.normSq ≤ r * r

instance (v : Q3) (r : Rat) : Decidable (LenLe v r) := by unfold LenLe; infer_instance

theorem normSq_nonneg (v : Q3) : 0 ≤ v.normSq := by
  simp only [Q3.normSq, Q3.dot]
  nlinarith [mul_self_nonneg v.x, mul_self_nonneg v.y, mul_self_nonneg v.z]

theorem LenLe.of_eq {v : Q3} {r r' : Rat} (h : LenLe v r) (e : r = r') : LenLe v r' := e ▸ h

theorem LenLe.mono {v : Q3} {r r' : Rat} (h : LenLe v r) (e : r ≤ r') : LenLe v r' :=
  ⟨le_trans h.1 e, le_trans h.2 (mul_le_mul e e h.1 (le_trans h.1 e))⟩

theorem LenLe.zero : LenLe Q3.zero 0 := ⟨le_refl _, by simp [Q3.zero, Q3.normSq, Q3.dot]⟩

/-- Cauchy–Schwarz in the form used for the triangle inequality: `u·v ≤ |u||v|`. -/
theorem dot_le {u v : Q3} {a b : Rat} (hu : LenLe u a) (hv : LenLe v b) : u.dot v ≤ a * b := by
  obtain ⟨ha, hu⟩ := hu
  obtain ⟨hb, hv⟩ := hv
  have hcs : u.dot v * u.dot v ≤ u.normSq * v.normSq := by
    simp only [Q3.normSq, Q3.dot]; exact Moyo.Periodic.cs3 ..
  have hm : u.normSq * v.normSq ≤ (a * a) * (b * b) :=
    mul_le_mul hu hv (normSq_nonneg v) (mul_nonneg ha ha)
  by_contra hcon
  have hcon' : a * b < u.dot v := not_le.mp hcon
  have := mul_self_lt_mul_self (mul_nonneg ha hb) hcon'
  nlinarith

/-- Triangle inequality: `|u| ≤ a`, `|v| ≤ b` ⇒ `|u + v| ≤ a + b`. -/
theorem LenLe.add {u v : Q3} {a b : Rat} (hu : LenLe u a) (hv : LenLe v b) : LenLe (u.add v) (a + b) := by
  have hd := dot_le hu hv
  refine ⟨add_nonneg hu.1 hv.1, ?_⟩
  have : (u.add v).normSq = u.normSq + 2 * u.dot v + v.normSq := by
    simp only [Q3.normSq, Q3.dot, Q3.add]; ring
  rw [this]
  nlinarith [hu.2, hv.2]

theorem LenLe.neg {u : Q3} {a : Rat} (hu : LenLe u a) : LenLe u.neg a := by
  refine ⟨hu.1, ?_⟩
  have : u.neg.normSq = u.normSq := by simp only [Q3.normSq, Q3.dot, Q3.neg]; ring
  rw [this]; exact hu.2

theorem sub_eq_add_neg' (u v : Q3) : u.sub v = u.add v.neg := by
  apply Q3.ext' <;> simp [Q3.sub, Q3.add, Q3.neg] <;> ring

/-- `|u| ≤ a`, `|v| ≤ b` ⇒ `|u - v| ≤ a + b`. -/
theorem LenLe.sub {u v : Q3} {a b : Rat} (hu : LenLe u a) (hv : LenLe v b) : LenLe (u.sub v) (a + b) := by
  rw [sub_eq_add_neg']; exact hu.add hv.neg

theorem LenLe.smul {u : Q3} {a k : Rat} (hk : 0 ≤ k) (hu : LenLe u a) : LenLe (Q3.smul k u) (k * a) := by
  refine ⟨mul_nonneg hk hu.1, ?_⟩
  have : (Q3.smul k u).normSq = k * k * u.normSq := by simp only [Q3.normSq, Q3.dot, Q3.smul]; ring
  rw [this]
  have := mul_le_mul_of_nonneg_left hu.2 (mul_nonneg hk hk)
  nlinarith

/-! ### linearity -/

theorem apply_add (A : QM3) (u v : Q3) : A.apply (u.add v) = (A.apply u).add (A.apply v) := by
  apply Q3.ext' <;> simp [QM3.apply, Q3.add] <;> ring

theorem apply_smul (A : QM3) (k : Rat) (u : Q3) : A.apply (Q3.smul k u) = Q3.smul k (A.apply u) := by
  apply Q3.ext' <;> simp [QM3.apply, Q3.smul] <;> ring

theorem apply_zero (A : QM3) : A.apply Q3.zero = Q3.zero := by
  apply Q3.ext' <;> simp [QM3.apply, Q3.zero]

theorem apply_mul (S A : QM3) (v : Q3) : (S.mul A).apply v = S.apply (A.apply v) := by
  apply Q3.ext' <;> simp [QM3.apply, QM3.mul] <;> ring

theorem applyQ_sub (R : M3) (u v : Q3) : R.applyQ (u.sub v) = (R.applyQ u).sub (R.applyQ v) := by
  apply Q3.ext' <;> simp [M3.applyQ, Q3.sub] <;> ring

/-! ### sums and means -/

theorem foldl_add (l : List Q3) (a : Q3) : l.foldl Q3.add a = a.add (sumQ3 l) := by
  induction l generalizing a with
  | nil => apply Q3.ext' <;> simp [sumQ3, Q3.add, Q3.zero]
  | cons v l ih =>
    simp only [sumQ3, List.foldl_cons]
    rw [ih (a.add v), ih (Q3.zero.add v)]
    apply Q3.ext' <;> simp [Q3.add, Q3.zero] <;> ring

theorem sumQ3_cons (v : Q3) (l : List Q3) : sumQ3 (v :: l) = v.add (sumQ3 l) := by
  simp only [sumQ3, List.foldl_cons]
  rw [foldl_add]
  apply Q3.ext' <;> simp [Q3.add, Q3.zero, sumQ3]

theorem sumQ3_nil : sumQ3 [] = Q3.zero := rfl

theorem sumQ3_map_add (a : Q3) (f : Nat → Q3) (l : List Nat) :
    sumQ3 (l.map fun i => a.add (f i)) = (Q3.smul (l.length : Rat) a).add (sumQ3 (l.map f)) := by
  induction l with
  | nil => apply Q3.ext' <;> simp [sumQ3_nil, Q3.smul, Q3.add, Q3.zero]
  | cons i l ih =>
    simp only [List.map_cons, sumQ3_cons, ih, List.length_cons]
    apply Q3.ext' <;> simp [Q3.add, Q3.smul] <;> ring

theorem lenLe_sum (A : QM3) (f : Nat → Q3) {r : Rat} (l : List Nat)
    (h : ∀ i ∈ l, LenLe (A.apply (f i)) r) : LenLe (A.apply (sumQ3 (l.map f))) ((l.length : Rat) * r) := by
  induction l with
  | nil => simpa [sumQ3_nil, apply_zero] using LenLe.zero
  | cons i l ih =>
    simp only [List.map_cons, sumQ3_cons, apply_add]
    have h1 := h i (by simp)
    have h2 := ih (fun j hj => h j (by simp [hj]))
    refine (h1.add h2).of_eq ?_
    simp only [List.length_cons]; push_cast; ring

/-- mean of `f 0 … f (n-1)` -/
def meanQ3 (n : Nat) (f : Nat → Q3) : Q3 := Q3.smul (1 / (n : Rat)) (sumQ3 ((List.range n).map f))

/-- A mean of vectors of length `≤ r` has length `≤ r`. -/
theorem lenLe_mean (A : QM3) (f : Nat → Q3) {r : Rat} {n : Nat} (hn : 0 < n)
    (h : ∀ i, i < n → LenLe (A.apply (f i)) r) : LenLe (A.apply (meanQ3 n f)) r := by
  have hs := lenLe_sum A f (List.range n) (fun i hi => h i (List.mem_range.mp hi))
  have hn' : (0 : Rat) < n := by exact_mod_cast hn
  have hk : (0 : Rat) ≤ 1 / (n : Rat) := by positivity
  unfold meanQ3
  rw [apply_smul]
  refine (hs.smul hk).of_eq ?_
  simp only [List.length_range]
  field_simp

theorem meanQ3_add_const (a : Q3) (f : Nat → Q3) {n : Nat} (hn : 0 < n) :
    meanQ3 n (fun i => a.add (f i)) = a.add (meanQ3 n f) := by
  have hn' : (n : Rat) ≠ 0 := by exact_mod_cast (Nat.pos_iff_ne_zero.mp hn)
  unfold meanQ3
  rw [sumQ3_map_add]
  simp only [List.length_range]
  apply Q3.ext' <;> simp [Q3.add, Q3.smul] <;> field_simp

theorem meanQ3_congr {n : Nat} {f g : Nat → Q3} (h : ∀ i, i < n → f i = g i) : meanQ3 n f = meanQ3 n g := by
  unfold meanQ3
  congr 2
  exact List.map_congr_left (fun i hi => h i (List.mem_range.mp hi))

/-! ### rounding does not touch small vectors -/

theorem ratRound_int_add (m : Int) (f : Rat) (h1 : -(1 / 2) < f) (h2 : f < 1 / 2) :
    ratRound ((m : Rat) + f) = m := by
  obtain ⟨ha, hb⟩ := Moyo.Periodic.ratRound_close ((m : Rat) + f)
  have h3 : ((ratRound ((m : Rat) + f) - m : Int) : Rat) < 1 := by push_cast; linarith
  have h4 : (-1 : Rat) < ((ratRound ((m : Rat) + f) - m : Int) : Rat) := by push_cast; linarith
  have h3' : ratRound ((m : Rat) + f) - m < 1 := by exact_mod_cast h3
  have h4' : -1 < ratRound ((m : Rat) + f) - m := by exact_mod_cast h4
  omega

/-- every component lies in the open interval `(-½, ½)` -/
def Small (f : Q3) : Prop :=
  (-(1 / 2) < f.x ∧ f.x < 1 / 2) ∧ (-(1 / 2) < f.y ∧ f.y < 1 / 2) ∧ (-(1 / 2) < f.z ∧ f.z < 1 / 2)

instance (f : Q3) : Decidable (Small f) := by unfold Small; infer_instance

/-- `e - e.round()` applied to (integer vector + small vector) removes exactly the integer vector. -/
theorem roundV_zq_add (m : Z3) (f : Q3) (h : Small f) : Q3.roundV ((zq m).add f) = zq m := by
  obtain ⟨⟨a1, a2⟩, ⟨b1, b2⟩, ⟨c1, c2⟩⟩ := h
  apply Q3.ext' <;> simp only [Q3.roundV, zq, Q3.add]
  · rw [ratRound_int_add _ _ a1 a2]
  · rw [ratRound_int_add _ _ b1 b2]
  · rw [ratRound_int_add _ _ c1 c2]

/-- `r` is short against the cell: `r · |row_i A⁻¹| < ½` for the three rows of `A⁻¹` (on squares), i.e.
`2r` is smaller than each of the three interplanar spacings `d_100`, `d_010`, `d_001`. -/
def NoWrap (A : QM3) (r : Rat) : Prop :=
  r * r * (ginvDiag A).x < 1 / 4 ∧ r * r * (ginvDiag A).y < 1 / 4 ∧ r * r * (ginvDiag A).z < 1 / 4

instance (A : QM3) (r : Rat) : Decidable (NoWrap A r) := by unfold NoWrap; infer_instance

theorem lt_half_of_sq {x b : Rat} (h : x * x ≤ b) (hb : b < 1 / 4) : -(1 / 2) < x ∧ x < 1 / 2 := by
  constructor
  · by_contra hc
    have hc' : x ≤ -(1 / 2) := not_lt.mp hc
    nlinarith
  · by_contra hc
    have hc' : 1 / 2 ≤ x := not_lt.mp hc
    nlinarith

/-- A fractional vector whose Cartesian length is `≤ r` with `NoWrap A r` has all components in `(-½, ½)`. -/
theorem small_of_lenLe {A : QM3} {v : Q3} {r : Rat} (hA : A.det ≠ 0) (hw : NoWrap A r)
    (h : LenLe (A.apply v) r) : Small v := by
  obtain ⟨bx, by', bz⟩ := Moyo.Periodic.cauchy_schwarz_box A hA v
  obtain ⟨gx, gy, gz⟩ := Moyo.Periodic.ginvDiag_nonneg A
  obtain ⟨wx, wy, wz⟩ := hw
  obtain ⟨_, hN⟩ := h
  refine ⟨lt_half_of_sq (le_trans bx (mul_le_mul_of_nonneg_right hN gx)) wx,
    lt_half_of_sq (le_trans by' (mul_le_mul_of_nonneg_right hN gy)) wy,
    lt_half_of_sq (le_trans bz (mul_le_mul_of_nonneg_right hN gz)) wz⟩

/-! ### isometries, near-isometries, strain -/

/-- metric tensor `AᵀA` -/
def metric (A : QM3) : QM3 := A.transpose.mul A

/-- `Rᵀ G R = G` for the metric `G = AᵀA` of the lattice `A`: the integer matrix `R` is an exact isometry. -/
def IsIsometry (A : QM3) (R : M3) : Prop :=
  (QM3.ofM3 R).transpose.mul ((metric A).mul (QM3.ofM3 R)) = metric A

instance (A : QM3) (R : M3) : Decidable (IsIsometry A R) := by unfold IsIsometry; infer_instance

theorem IsIsometry.normSq {A : QM3} {R : M3} (h : IsIsometry A R) (v : Q3) :
    (A.apply (R.applyQ v)).normSq = (A.apply v).normSq := by
  obtain ⟨x, y, z⟩ := v
  simp only [IsIsometry, metric, QM3.mul, QM3.transpose, QM3.ofM3, QM3.mk.injEq] at h
  obtain ⟨h1, h2, h3, h4, h5, h6, h7, h8, h9⟩ := h
  simp only [QM3.apply, M3.applyQ, Q3.normSq, Q3.dot]
  linear_combination x * x * h1 + x * y * h2 + x * z * h3 + y * x * h4 + y * y * h5 + y * z * h6 +
    z * x * h7 + z * y * h8 + z * z * h9

/-- `|A R v| ≤ κ |A v|` for every `v`. -/
def NearIso (A : QM3) (R : M3) (κ : Rat) : Prop :=
  0 ≤ κ ∧ ∀ v : Q3, (A.apply (R.applyQ v)).normSq ≤ κ * κ * (A.apply v).normSq

theorem IsIsometry.nearIso {A : QM3} {R : M3} (h : IsIsometry A R) : NearIso A R 1 :=
  ⟨zero_le_one, fun v => by rw [h.normSq v]; linarith⟩

theorem NearIso.lenLe {A : QM3} {R : M3} {κ r : Rat} {v : Q3} (h : NearIso A R κ)
    (hv : LenLe (A.apply v) r) : LenLe (A.apply (R.applyQ v)) (κ * r) := by
  refine ⟨mul_nonneg h.1 hv.1, le_trans (h.2 v) ?_⟩
  have := mul_le_mul_of_nonneg_left hv.2 (mul_nonneg h.1 h.1)
  nlinarith

/-- The actual lattice `A` is the ideal lattice `A₀` strained by relative `≤ η`:
`(1-η)|A₀ v| ≤ |A v| ≤ (1+η)|A₀ v|` for every `v` (on squares). -/
def Strained (A0 A : QM3) (η : Rat) : Prop :=
  0 ≤ η ∧ η < 1 ∧ ∀ v : Q3,
    (1 - η) * (1 - η) * (A0.apply v).normSq ≤ (A.apply v).normSq ∧
    (A.apply v).normSq ≤ (1 + η) * (1 + η) * (A0.apply v).normSq

/-- An exact isometry of the ideal metric is a `(1+η)/(1-η)`-near-isometry of the strained one. -/
theorem nearIso_of_strained {A0 A : QM3} {R : M3} {η : Rat} (hiso : IsIsometry A0 R)
    (hs : Strained A0 A η) : NearIso A R ((1 + η) / (1 - η)) := by
  obtain ⟨h0, h1, hv⟩ := hs
  have hpos : 0 < 1 - η := by linarith
  refine ⟨by positivity, fun v => ?_⟩
  have hup := (hv (R.applyQ v)).2
  rw [hiso.normSq v] at hup
  have hlo := (hv v).1
  have hd : (1 + η) / (1 - η) * ((1 + η) / (1 - η)) * (A.apply v).normSq =
      (1 + η) * (1 + η) * ((A.apply v).normSq / ((1 - η) * (1 - η))) := by
    field_simp
  rw [hd]
  refine le_trans hup (mul_le_mul_of_nonneg_left ?_ (by positivity))
  rw [le_div_iff₀ (by positivity)]
  linarith

/-- squared Frobenius norm -/
def frobSq (M : QM3) : Rat :=
  M.a * M.a + M.b * M.b + M.c * M.c + M.d * M.d + M.e * M.e + M.f * M.f + M.g * M.g + M.h * M.h + M.i * M.i

theorem frob_bound (M : QM3) (w : Q3) : (M.apply w).normSq ≤ frobSq M * w.normSq := by
  obtain ⟨a, b, c, d, e, f, g, h, i⟩ := M
  obtain ⟨x, y, z⟩ := w
  simp only [QM3.apply, Q3.normSq, Q3.dot, frobSq]
  have r1 := Moyo.Periodic.cs3 a b c x y z
  have r2 := Moyo.Periodic.cs3 d e f x y z
  have r3 := Moyo.Periodic.cs3 g h i x y z
  nlinarith

/-- `w + e` with `|e| ≤ η |w|` has `(1-η)|w| ≤ |w + e| ≤ (1+η)|w|` (on squares). -/
theorem perturb_bounds {w e : Q3} {η : Rat} (h0 : 0 ≤ η) (h1 : η < 1)
    (he : e.normSq ≤ η * η * w.normSq) :
    (1 - η) * (1 - η) * w.normSq ≤ (w.add e).normSq ∧ (w.add e).normSq ≤ (1 + η) * (1 + η) * w.normSq := by
  have ha := normSq_nonneg w
  have hb := normSq_nonneg e
  have hexp : (w.add e).normSq = w.normSq + 2 * w.dot e + e.normSq := by
    simp only [Q3.normSq, Q3.dot, Q3.add]; ring
  have hcs : w.dot e * w.dot e ≤ w.normSq * e.normSq := by
    simp only [Q3.normSq, Q3.dot]; exact Moyo.Periodic.cs3 ..
  -- `|w·e| ≤ η |w|²`
  have hsq : w.dot e * w.dot e ≤ (η * w.normSq) * (η * w.normSq) := by
    have := mul_le_mul_of_nonneg_left he ha
    nlinarith
  have hηa : 0 ≤ η * w.normSq := mul_nonneg h0 ha
  have habs := abs_le_of_sq_le_sq' (by simpa [sq] using hsq) hηa
  rw [hexp]
  constructor
  · -- lower bound: `a + 2c + b ≥ (1-η)² a`, using `c² ≤ a b`, `b ≤ η² a`
    generalize w.normSq = a at *
    generalize e.normSq = b at *
    generalize w.dot e = c at *
    by_cases hη : η = 0
    · subst hη
      have hb0 : b = 0 := by nlinarith
      have hc0 : c = 0 := by
        have : c * c ≤ 0 := by rw [hb0] at hcs; simpa using hcs
        nlinarith [mul_self_nonneg c]
      rw [hb0, hc0]; simp
    · have hηpos : 0 < η := lt_of_le_of_ne h0 (Ne.symm hη)
      -- AM–GM: `(2c)² ≤ 4ab ≤ (b/η + ηa)²`
      have hq : 0 ≤ b / η + η * a := by positivity
      have hsq2 : (2 * c) * (2 * c) ≤ (b / η + η * a) * (b / η + η * a) := by
        have hid : (b / η + η * a) * (b / η + η * a) - 4 * (a * b) = (b / η - η * a) * (b / η - η * a) := by
          field_simp; ring
        nlinarith [mul_self_nonneg (b / η - η * a)]
      have h2c := abs_le_of_sq_le_sq' (by simpa [sq] using hsq2) hq
      have hbη : b / η ≤ η * a := by
        rw [div_le_iff₀ hηpos]; nlinarith
      -- `a + 2c + b ≥ a + b - b/η - ηa = (1-η)(a - b/η) ≥ (1-η)(a - ηa)`
      have key : (1 - η) * (a - b / η) ≥ (1 - η) * (a - η * a) :=
        mul_le_mul_of_nonneg_left (by linarith) (by linarith)
      have hbb : b = η * (b / η) := by field_simp
      nlinarith [h2c.1]
  · nlinarith [habs.2]

/-- `A = S·A₀` with `‖S - I‖_F ≤ η < 1` is a strain of relative size `≤ η`. -/
theorem strained_of_matrix {A0 S : QM3} {η : Rat} (h0 : 0 ≤ η) (h1 : η < 1)
    (hS : frobSq (S.sub QM3.one) ≤ η * η) : Strained A0 (S.mul A0) η := by
  refine ⟨h0, h1, fun v => ?_⟩
  rw [apply_mul]
  generalize A0.apply v = w
  have hsplit : S.apply w = w.add ((S.sub QM3.one).apply w) := by
    apply Q3.ext' <;> simp [QM3.apply, QM3.sub, QM3.one, Q3.add] <;> ring
  rw [hsplit]
  exact perturb_bounds h0 h1
    (le_trans (frob_bound _ w) (mul_le_mul_of_nonneg_right hS (normSq_nonneg w)))

/-! ### the noisy crystal -/

/-- displacement of atom `i` of the cell from its ideal position `y i` (fractional) -/
def dsp (c : CellQ) (y : Nat → Q3) (i : Nat) : Q3 := (posAt c i).sub (y i)

/-- `e_i = d_{π(i)} - R d_i` : what the noise adds to the translation seen by atom `i` -/
def eVec (c : CellQ) (y : Nat → Q3) (R : M3) (p : Perm) (i : Nat) : Q3 :=
  (dsp c y (papply p i)).sub (R.applyQ (dsp c y i))

/-- `x_{π(i)} - R x_i = t₀ - n_i + e_i` -/
theorem diff_eq {c : CellQ} {y : Nat → Q3} {R : M3} {t0 : Q3} {p : Perm} {ni : Z3} {i : Nat}
    (hsym : (R.applyQ (y i)).add t0 = (y (papply p i)).add (zq ni)) :
    (posAt c (papply p i)).sub (R.applyQ (posAt c i)) = (t0.sub (zq ni)).add (eVec c y R p i) := by
  have hx := congrArg Q3.x hsym
  have hy := congrArg Q3.y hsym
  have hz := congrArg Q3.z hsym
  simp only [Q3.add, M3.applyQ, zq] at hx hy hz
  apply Q3.ext' <;> simp only [eVec, dsp, Q3.add, Q3.sub, M3.applyQ, zq]
  · linear_combination -hx
  · linear_combination -hy
  · linear_combination -hz

theorem eVec_lenLe {c : CellQ} {y : Nat → Q3} {R : M3} {p : Perm} {κ δ : Rat}
    (hperm : ∀ i, i < c.n → papply p i < c.n) (hiso : NearIso c.lat R κ)
    (hδ : ∀ i, i < c.n → LenLe (c.lat.apply (dsp c y i)) δ) {i : Nat} (hi : i < c.n) :
    LenLe (c.lat.apply (eVec c y R p i)) ((1 + κ) * δ) := by
  unfold eVec
  rw [apply_sub]
  exact ((hδ _ (hperm i hi)).sub (hiso.lenLe (hδ i hi))).of_eq (by ring)

/-- The least-squares translation and the residuals of the stage model for a noisy copy of a crystal with the
exact symmetry `(R, t₀, π)`: if the rough translation is `t₀ + k + u` (`k` integer, `|A u| ≤ ρ`) and neither
`(1+κ)δ + ρ` nor `2(1+κ)δ` can wrap, then
* `symTranslation = t₀ + k + mean_i e_i` with `e_i = d_{π(i)} - R d_i`,
* the (wrapped) residual of atom `i` is `mean e - e_i`, of Cartesian length `≤ 2(1+κ)δ`. -/
theorem noise_core {c : CellQ} {y : Nat → Q3} {R : M3} {t0 : Q3} {p : Perm} {nn : Nat → Z3} {k : Z3}
    {u rough : Q3} {κ δ ρ : Rat}
    (hdet : c.lat.det ≠ 0) (hn : 0 < c.n)
    (hperm : ∀ i, i < c.n → papply p i < c.n)
    (hsym : ∀ i, i < c.n → (R.applyQ (y i)).add t0 = (y (papply p i)).add (zq (nn i)))
    (hiso : NearIso c.lat R κ)
    (hδ : ∀ i, i < c.n → LenLe (c.lat.apply (dsp c y i)) δ)
    (hrough : rough = (t0.add (zq k)).add u) (hu : LenLe (c.lat.apply u) ρ)
    (hw1 : NoWrap c.lat ((1 + κ) * δ + ρ)) (hw2 : NoWrap c.lat (2 * ((1 + κ) * δ))) :
    symTranslation c p R rough = (t0.add (zq k)).add (meanQ3 c.n (eVec c y R p)) ∧
    ∀ i, i < c.n →
      residual c p R (symTranslation c p R rough) i = (meanQ3 c.n (eVec c y R p)).sub (eVec c y R p i) ∧
      LenLe (c.lat.apply (residual c p R (symTranslation c p R rough) i)) (2 * ((1 + κ) * δ)) := by
  have he : ∀ i, i < c.n → LenLe (c.lat.apply (eVec c y R p i)) ((1 + κ) * δ) :=
    fun i hi => eVec_lenLe hperm hiso hδ hi
  -- every summand of the least-squares translation is the unwrapped one
  have hdisp : ∀ i, i < c.n → symDisp c p R rough i = (t0.add (zq k)).add (eVec c y R p i) := by
    intro i hi
    have hsm : Small ((eVec c y R p i).sub u) :=
      small_of_lenLe hdet hw1 (by rw [apply_sub]; exact (he i hi).sub hu)
    have hdd : ((posAt c (papply p i)).sub (R.applyQ (posAt c i))).sub rough =
        (zq ⟨-(nn i).x - k.x, -(nn i).y - k.y, -(nn i).z - k.z⟩).add ((eVec c y R p i).sub u) := by
      rw [diff_eq (hsym i hi), hrough]
      apply Q3.ext' <;> simp [Q3.add, Q3.sub, zq] <;> ring
    simp only [symDisp]
    rw [hdd, roundV_zq_add _ _ hsm, hrough]
    apply Q3.ext' <;> simp [Q3.add, Q3.sub, zq] <;> ring
  have htr : symTranslation c p R rough = (t0.add (zq k)).add (meanQ3 c.n (eVec c y R p)) := by
    have : symTranslation c p R rough = meanQ3 c.n (symDisp c p R rough) := rfl
    rw [this, meanQ3_congr hdisp, meanQ3_add_const _ _ hn]
  refine ⟨htr, fun i hi => ?_⟩
  have hm : LenLe (c.lat.apply (meanQ3 c.n (eVec c y R p))) ((1 + κ) * δ) := lenLe_mean _ _ hn he
  have hres : LenLe (c.lat.apply ((meanQ3 c.n (eVec c y R p)).sub (eVec c y R p i))) (2 * ((1 + κ) * δ)) := by
    rw [apply_sub]; exact (hm.sub (he i hi)).of_eq (by ring)
  have hsm : Small ((meanQ3 c.n (eVec c y R p)).sub (eVec c y R p i)) := small_of_lenLe hdet hw2 hres
  have hd : ((R.applyQ (posAt c i)).add (symTranslation c p R rough)).sub (posAt c (papply p i)) =
      (zq ⟨(nn i).x + k.x, (nn i).y + k.y, (nn i).z + k.z⟩).add
        ((meanQ3 c.n (eVec c y R p)).sub (eVec c y R p i)) := by
    have hD := diff_eq (c := c) (hsym i hi)
    have hx := congrArg Q3.x hD
    have hy := congrArg Q3.y hD
    have hz := congrArg Q3.z hD
    simp only [Q3.add, Q3.sub, zq] at hx hy hz
    rw [htr]
    apply Q3.ext' <;> simp only [Q3.add, Q3.sub, zq] <;> push_cast
    · linear_combination -hx
    · linear_combination -hy
    · linear_combination -hz
  have hr : residual c p R (symTranslation c p R rough) i =
      (meanQ3 c.n (eVec c y R p)).sub (eVec c y R p i) := by
    simp only [residual]
    rw [hd, roundV_zq_add _ _ hsm]
    apply Q3.ext' <;> simp [Q3.add, Q3.sub]
  exact ⟨hr, hr ▸ hres⟩

/-- The rough translation the candidate loop computes from the pivot atom `src` and its ideal partner,
`x_{π(src)} - R x_src`, is `t₀ - n_src + e_src`. -/
theorem rough_pivot {c : CellQ} {y : Nat → Q3} {R : M3} {t0 : Q3} {p : Perm} {nn : Nat → Z3} {src : Nat}
    (hsym : (R.applyQ (y src)).add t0 = (y (papply p src)).add (zq (nn src))) :
    roughTranslation c R src (papply p src) =
      (t0.add (zq ⟨-(nn src).x, -(nn src).y, -(nn src).z⟩)).add (eVec c y R p src) := by
  unfold roughTranslation
  rw [diff_eq hsym]
  apply Q3.ext' <;> simp [Q3.add, Q3.sub, zq] <;> ring

/-- From bounded residuals to the acceptance test. -/
theorem accept_of_residuals {c : CellQ} {p : Perm} {R : M3} {t : Q3} {r s : Rat} (hrs : r < s)
    (h : ∀ i, i < c.n → LenLe (c.lat.apply (residual c p R t i)) r) (hn : 0 < c.n) :
    accept c s p R t = true := by
  have hr0 : 0 ≤ r := (h 0 hn).1
  rw [accept_iff]
  refine ⟨lt_of_le_of_lt hr0 hrs, fun i hi => ?_⟩
  have := (h i hi).2
  unfold dist2
  nlinarith

/-! ### uniqueness of the rough correspondence -/

/-- Same-species atoms of the cell are farther apart than `√r2` (periodically): no lattice translate of
`x_j - x_k` (`j ≠ k`, same species) has squared Cartesian length `≤ r2`. -/
def SepGt (A : QM3) (n : Nat) (num : Nat → Int) (x : Nat → Q3) (r2 : Rat) : Prop :=
  ∀ j k, j < n → k < n → j ≠ k → num j = num k → ¬ PeriodicWithin A ((x j).sub (x k)) r2

/-- If the point `pt` is within `√ρ2` of atom `j` and of atom `k` (periodically), then `x_j` and `x_k` are within
`2√ρ2` of each other (periodically). -/
theorem within_of_common {A : QM3} {pt xj xk : Q3} {ρ2 : Rat}
    (h1 : PeriodicWithin A (pt.sub xj) ρ2) (h2 : PeriodicWithin A (pt.sub xk) ρ2) :
    PeriodicWithin A (xj.sub xk) (4 * ρ2) := by
  obtain ⟨n1, h1⟩ := h1
  obtain ⟨n2, h2⟩ := h2
  refine ⟨⟨n2.x - n1.x, n2.y - n1.y, n2.z - n1.z⟩, ?_⟩
  set a : Q3 := ⟨(pt.sub xk).x + n2.x, (pt.sub xk).y + n2.y, (pt.sub xk).z + n2.z⟩ with ha
  set b : Q3 := ⟨(pt.sub xj).x + n1.x, (pt.sub xj).y + n1.y, (pt.sub xj).z + n1.z⟩ with hb
  have : (⟨(xj.sub xk).x + ((n2.x - n1.x : Int) : Rat), (xj.sub xk).y + ((n2.y - n1.y : Int) : Rat),
      (xj.sub xk).z + ((n2.z - n1.z : Int) : Rat)⟩ : Q3) = a.sub b := by
    apply Q3.ext' <;> simp [ha, hb, Q3.sub] <;> ring
  rw [this, apply_sub]
  exact normSq_sub_le _ _ _ h2 h1

theorem site_unique {A : QM3} {n : Nat} {num : Nat → Int} {x : Nat → Q3} {ρ2 : Rat}
    (hsep : SepGt A n num x (4 * ρ2)) (pt : Q3) {j k : Nat} (hj : j < n) (hk : k < n) (hnum : num j = num k)
    (h1 : PeriodicWithin A (pt.sub (x j)) ρ2) (h2 : PeriodicWithin A (pt.sub (x k)) ρ2) : j = k := by
  by_contra hne
  exact hsep j k hj hk hne hnum (within_of_common h1 h2)

/-- From `LenLe` to `PeriodicWithin`. -/
theorem periodicWithin_of_lenLe {A : QM3} {d w : Q3} {r r2 : Rat} (m : Z3)
    (hw : w = ⟨d.x + m.x, d.y + m.y, d.z + m.z⟩) (h : LenLe (A.apply w) r) (hr : r * r ≤ r2) :
    PeriodicWithin A d r2 := ⟨m, hw ▸ le_trans h.2 hr⟩

/-- Separation of the noisy crystal from that of the ideal one: ideal separation `> r + 2δ` and displacements
`≤ δ` give actual separation `> r`. -/
theorem sep_transfer {A : QM3} {n : Nat} {num : Nat → Int} {x y : Nat → Q3} {r δ : Rat} (hr : 0 ≤ r)
    (hδ : ∀ i, i < n → LenLe (A.apply ((x i).sub (y i))) δ)
    (hsep : SepGt A n num y ((r + 2 * δ) * (r + 2 * δ))) : SepGt A n num x (r * r) := by
  intro j k hj hk hne hnum ⟨m, hm⟩
  refine hsep j k hj hk hne hnum ⟨m, ?_⟩
  set w : Q3 := ⟨((x j).sub (x k)).x + m.x, ((x j).sub (x k)).y + m.y, ((x j).sub (x k)).z + m.z⟩ with hw
  have hwl : LenLe (A.apply w) r := ⟨hr, hm⟩
  have : (⟨((y j).sub (y k)).x + (m.x : Rat), ((y j).sub (y k)).y + (m.y : Rat),
      ((y j).sub (y k)).z + (m.z : Rat)⟩ : Q3) = (w.sub ((x j).sub (y j))).add ((x k).sub (y k)) := by
    apply Q3.ext' <;> simp [hw, Q3.sub, Q3.add] <;> ring
  rw [this, apply_add, apply_sub]
  exact (((hwl.sub (hδ j hj)).add (hδ k hk)).of_eq (by ring)).2

/-- With the pivot rough translation `x_{π(src)} - R x_src`, the ideal partner `π(i)` of every atom is found
within `2(1+κ)δ` of `R x_i + rough` (modulo the lattice): the displacement is `e_src - e_i`. -/
theorem ideal_within_rough {c : CellQ} {y : Nat → Q3} {R : M3} {t0 : Q3} {p : Perm} {nn : Nat → Z3}
    {κ δ : Rat} {src : Nat} (hsrc : src < c.n)
    (hperm : ∀ i, i < c.n → papply p i < c.n)
    (hsym : ∀ i, i < c.n → (R.applyQ (y i)).add t0 = (y (papply p i)).add (zq (nn i)))
    (hiso : NearIso c.lat R κ)
    (hδ : ∀ i, i < c.n → LenLe (c.lat.apply (dsp c y i)) δ) {i : Nat} (hi : i < c.n) {r2 : Rat}
    (hr : (2 * ((1 + κ) * δ)) * (2 * ((1 + κ) * δ)) ≤ r2) :
    PeriodicWithin c.lat
      (((R.applyQ (posAt c i)).add (roughTranslation c R src (papply p src))).sub (posAt c (papply p i))) r2 := by
  refine periodicWithin_of_lenLe (w := (eVec c y R p src).sub (eVec c y R p i))
    ⟨(nn src).x - (nn i).x, (nn src).y - (nn i).y, (nn src).z - (nn i).z⟩ ?_ ?_ hr
  · have hD := diff_eq (c := c) (hsym i hi)
    have hx := congrArg Q3.x hD
    have hy := congrArg Q3.y hD
    have hz := congrArg Q3.z hD
    simp only [Q3.add, Q3.sub, zq] at hx hy hz
    rw [rough_pivot (c := c) (hsym src hsrc)]
    apply Q3.ext' <;> simp only [Q3.add, Q3.sub, zq] <;> push_cast
    · linear_combination hx
    · linear_combination hy
    · linear_combination hz
  · rw [apply_sub]
    exact ((eVec_lenLe hperm hiso hδ hsrc).sub (eVec_lenLe hperm hiso hδ hi)).of_eq (by ring)

/-! ### a concrete noisy crystal for the non-vacuity examples

Monoclinic cell, columns `a = (4,0,0)`, `b = (0,5,0)`, `c = (1,0,6)`; mirror `y ↦ -y`; ideal atoms of one species
at `(0,¼,0)`, `(0,¾,0)` (exchanged by the mirror, `n_i = (0,-1,0)`); displacements `d₀ = (1/1000, 0, -1/2000)`
(`|A d₀|² = 21.25e-6`), `d₁ = (0, 1/1000, 0)` (`|A d₁| = 0.005`); `δ = 1/200 = symprec/20`, `symprec = 1/10`. -/

def exCell : CellQ :=
  ⟨⟨4, 0, 1, 0, 5, 0, 0, 0, 6⟩, #[⟨1 / 1000, 1 / 4, -1 / 2000⟩, ⟨0, 3 / 4 + 1 / 1000, 0⟩], #[1, 1]⟩
def exY (i : Nat) : Q3 := if i = 0 then ⟨0, 1 / 4, 0⟩ else ⟨0, 3 / 4, 0⟩
def exR : M3 := ⟨1, 0, 0, 0, -1, 0, 0, 0, 1⟩
def exN (_ : Nat) : Z3 := ⟨0, -1, 0⟩
def exP : Perm := [1, 0]

theorem ex_det : exCell.lat.det ≠ 0 := by decide +kernel
theorem ex_perm : ∀ i, i < exCell.n → papply exP i < exCell.n := by decide +kernel
theorem ex_spec : ∀ i, i < exCell.n → numAt exCell (papply exP i) = numAt exCell i := by decide +kernel
theorem ex_sym : ∀ i, i < exCell.n →
    (exR.applyQ (exY i)).add ⟨0, 0, 0⟩ = (exY (papply exP i)).add (zq (exN i)) := by decide +kernel
theorem ex_iso : IsIsometry exCell.lat exR := by decide +kernel
theorem ex_noise : ∀ i, i < exCell.n → LenLe (exCell.lat.apply (dsp exCell exY i)) (1 / 200) := by
  decide +kernel
theorem ex_nowrap : NoWrap exCell.lat (4 * (1 / 200)) := by decide +kernel

/-- The example cell is the orthogonal-`c` cell `A₀` (columns `(4,0,0)`, `(0,5,0)`, `(0,0,6)`) sheared by
`S = I + E_13/6`, `‖S - I‖_F = 1/6`. -/
def exA0 : QM3 := ⟨4, 0, 0, 0, 5, 0, 0, 0, 6⟩
def exS : QM3 := ⟨1, 0, 1 / 6, 0, 1, 0, 0, 0, 1⟩

/-- separation of the example crystal: ideal and actual atoms are `2.5` apart, far more than `4·symprec + 2δ` -/
theorem ex_sep_ideal : SepGt exCell.lat exCell.n (numAt exCell) exY
    ((4 * (1 / 10) + 2 * (1 / 200)) * (4 * (1 / 10) + 2 * (1 / 200))) := by
  intro j k hj hk hne _ h
  have hj' : j < 2 := hj
  have hk' : k < 2 := hk
  have hb := Moyo.Periodic.withinPeriodic_complete (A := exCell.lat) ex_det
    (by unfold Window; decide +kernel) h
  interval_cases j <;> interval_cases k <;>
    first
    | exact absurd rfl hne
    | exact absurd hb (by decide +kernel)

theorem ex_sep_actual : SepGt exCell.lat exCell.n (numAt exCell) (posAt exCell)
    ((4 * (1 / 10)) * (4 * (1 / 10))) := by
  intro j k hj hk hne _ h
  have hj' : j < 2 := hj
  have hk' : k < 2 := hk
  have hb := Moyo.Periodic.withinPeriodic_complete (A := exCell.lat) ex_det
    (by unfold Window; decide +kernel) h
  interval_cases j <;> interval_cases k <;>
    first
    | exact absurd rfl hne
    | exact absurd hb (by decide +kernel)

end Moyo.Noise
