import Moyo.Model.StageMagStd
import Moyo.Proofs.StdReynolds
/-
Helper lemmas for `Props/C13Stages.lean`: the moment action of a magnetic operation is linear and multiplicative, and the
Reynolds average of `symmetrize_magnetic_moments` over a compatible magnetic action is exactly equivariant.
-/
namespace Moyo.S6m
open Moyo Moyo.StageStd

/-! ### rational 3×3 algebra (local names: several helper files of the project prove the same facts under clashing names) -/

theorem qmul_assoc (p q r : QM3) : (p.mul q).mul r = p.mul (q.mul r) := by
  simp only [QM3.mul, QM3.mk.injEq]
  refine ⟨?_, ?_, ?_, ?_, ?_, ?_, ?_, ?_, ?_⟩ <;> ring

theorem qdet_mul (p q : QM3) : (p.mul q).det = p.det * q.det := by
  simp only [QM3.mul, QM3.det]; ring

theorem qapply_mul (p q : QM3) (v : Q3) : (p.mul q).apply v = p.apply (q.apply v) := by
  simp only [QM3.mul, QM3.apply, Q3.mk.injEq]
  refine ⟨?_, ?_, ?_⟩ <;> ring

theorem qmul_one (p : QM3) : p.mul QM3.one = p := by
  simp [QM3.mul, QM3.one]

theorem qone_mul (p : QM3) : QM3.one.mul p = p := by
  simp [QM3.mul, QM3.one]

theorem qadj_mul (p : QM3) : p.adj.mul p = QM3.smul p.det QM3.one := by
  simp only [QM3.adj, QM3.mul, QM3.smul, QM3.one, QM3.det, QM3.mk.injEq]
  refine ⟨?_, ?_, ?_, ?_, ?_, ?_, ?_, ?_, ?_⟩ <;> ring

theorem qmul_adj (p : QM3) : p.mul p.adj = QM3.smul p.det QM3.one := by
  simp only [QM3.adj, QM3.mul, QM3.smul, QM3.one, QM3.det, QM3.mk.injEq]
  refine ⟨?_, ?_, ?_, ?_, ?_, ?_, ?_, ?_, ?_⟩ <;> ring

theorem qsmul_mul (k : Rat) (p q : QM3) : (QM3.smul k p).mul q = QM3.smul k (p.mul q) := by
  simp only [QM3.mul, QM3.smul, QM3.mk.injEq]
  refine ⟨?_, ?_, ?_, ?_, ?_, ?_, ?_, ?_, ?_⟩ <;> ring

theorem qmul_smul (k : Rat) (p q : QM3) : p.mul (QM3.smul k q) = QM3.smul k (p.mul q) := by
  simp only [QM3.mul, QM3.smul, QM3.mk.injEq]
  refine ⟨?_, ?_, ?_, ?_, ?_, ?_, ?_, ?_, ?_⟩ <;> ring

theorem qsmul_smul_one (k d : Rat) (h : k * d = 1) : QM3.smul k (QM3.smul d QM3.one) = QM3.one := by
  simp only [QM3.smul, QM3.one, QM3.mk.injEq, mul_one, mul_zero]
  exact ⟨h, trivial, trivial, trivial, h, trivial, trivial, trivial, h⟩

theorem qinv_mul_self (p : QM3) (h : p.det ≠ 0) : p.inv.mul p = QM3.one := by
  unfold QM3.inv
  rw [qsmul_mul, qadj_mul]
  exact qsmul_smul_one _ _ (by field_simp)

theorem qmul_inv_self (p : QM3) (h : p.det ≠ 0) : p.mul p.inv = QM3.one := by
  unfold QM3.inv
  rw [qmul_smul, qmul_adj]
  exact qsmul_smul_one _ _ (by field_simp)

theorem qdet_one : QM3.one.det = 1 := by
  simp [QM3.det, QM3.one]

theorem qdet_inv (p : QM3) (h : p.det ≠ 0) : p.inv.det = 1 / p.det := by
  have e := qdet_mul p.inv p
  rw [qinv_mul_self p h, qdet_one] at e
  field_simp
  linarith

theorem qofM3_mul (p q : M3) : QM3.ofM3 (p.mul q) = (QM3.ofM3 p).mul (QM3.ofM3 q) := by
  simp only [QM3.ofM3, M3.mul, QM3.mul, QM3.mk.injEq]
  refine ⟨?_, ?_, ?_, ?_, ?_, ?_, ?_, ?_, ?_⟩ <;> push_cast <;> ring

theorem qofM3_det (p : M3) : (QM3.ofM3 p).det = (p.det : Rat) := by
  simp only [QM3.ofM3, QM3.det, M3.det]; push_cast; ring

/-- Conjugation `A R A⁻¹` is multiplicative. -/
theorem cartRot_mul (A : QM3) (hA : A.det ≠ 0) (R S : M3) :
    cartRot A (R.mul S) = (cartRot A R).mul (cartRot A S) := by
  unfold cartRot
  rw [qofM3_mul]
  calc ((A.mul ((QM3.ofM3 R).mul (QM3.ofM3 S))).mul A.inv)
      = (A.mul (QM3.ofM3 R)).mul ((QM3.one.mul (QM3.ofM3 S)).mul A.inv) := by
        rw [qone_mul]; simp only [qmul_assoc]
    _ = (A.mul (QM3.ofM3 R)).mul (((A.inv.mul A).mul (QM3.ofM3 S)).mul A.inv) := by rw [qinv_mul_self A hA]
    _ = ((A.mul (QM3.ofM3 R)).mul A.inv).mul ((A.mul (QM3.ofM3 S)).mul A.inv) := by simp only [qmul_assoc]

/-- `det (A R A⁻¹) = det R`. -/
theorem cartRot_det (A : QM3) (hA : A.det ≠ 0) (R : M3) : (cartRot A R).det = (R.det : Rat) := by
  unfold cartRot
  rw [qdet_mul, qdet_mul, qdet_inv A hA, qofM3_det]
  field_simp

/-- Conjugation by an invertible `Q` does not change the determinant. -/
theorem conj_det (Q C : QM3) (hQ : Q.det ≠ 0) : ((Q.mul C).mul Q.inv).det = C.det := by
  rw [qdet_mul, qdet_mul, qdet_inv Q hQ]
  field_simp

theorem ratRound_int (n : ℤ) : ratRound (n : ℚ) = n := by
  unfold ratRound
  split
  · have h1 := Rat.floor_le ((n : ℚ) + 1 / 2)
    have h2 := Rat.lt_floor_add_one ((n : ℚ) + 1 / 2)
    push_cast at h2
    have a : (((n : ℚ) + 1 / 2).floor : ℚ) < (n : ℚ) + 1 := by linarith
    have b : (n : ℚ) < (((n : ℚ) + 1 / 2).floor : ℚ) + 1 := by linarith
    have a' : ((n : ℚ) + 1 / 2).floor < n + 1 := by exact_mod_cast a
    have b' : n < ((n : ℚ) + 1 / 2).floor + 1 := by exact_mod_cast b
    omega
  · have h1 := Rat.floor_le (-(n : ℚ) + 1 / 2)
    have h2 := Rat.lt_floor_add_one (-(n : ℚ) + 1 / 2)
    push_cast at h2
    have a : ((-(n : ℚ) + 1 / 2).floor : ℚ) < -(n : ℚ) + 1 := by linarith
    have b : -(n : ℚ) < ((-(n : ℚ) + 1 / 2).floor : ℚ) + 1 := by linarith
    have a' : (-(n : ℚ) + 1 / 2).floor < -n + 1 := by exact_mod_cast a
    have b' : -n < (-(n : ℚ) + 1 / 2).floor + 1 := by exact_mod_cast b
    omega

theorem ratRound_one : ratRound (1 : Rat) = 1 := by simpa using ratRound_int 1
theorem ratRound_neg_one : ratRound (-1 : Rat) = -1 := by simpa using ratRound_int (-1)

/-! ### the moment action is linear -/

theorem qapply_add (p : QM3) (u v : Q3) : p.apply (u.add v) = (p.apply u).add (p.apply v) := by
  simp only [QM3.apply, Q3.add, Q3.mk.injEq]
  refine ⟨?_, ?_, ?_⟩ <;> ring

theorem qapply_smul (p : QM3) (q : Rat) (v : Q3) : p.apply (Q3.smul q v) = Q3.smul q (p.apply v) := by
  simp only [QM3.apply, Q3.smul, Q3.mk.injEq]
  refine ⟨?_, ?_, ?_⟩ <;> ring

/-- The scalar form of the action: `ρ v = σ · L v` with `σ = ±(round det)^{[axial]}` and `L = C` (collinear: `L = 1`). -/
def scal (axial : Bool) (C : QM3) (tr : Bool) : Rat :=
  (if tr then -1 else 1) * (if axial then (ratRound C.det : Rat) else 1)

def lin (collinear : Bool) (C : QM3) (v : Q3) : Q3 := if collinear then v else C.apply v

theorem actMOp_eq (collinear axial : Bool) (C : QM3) (tr : Bool) (v : Q3) :
    actMOp collinear axial C tr v = Q3.smul (scal axial C tr) (lin collinear C v) := by
  unfold actMOp actTR actRot scal lin
  obtain ⟨x, y, z⟩ := v
  cases collinear <;> cases axial <;> cases tr <;>
    simp only [Bool.false_eq_true, if_false, if_true, QM3.apply, Q3.smul, Q3.neg, Q3.mk.injEq] <;>
    refine ⟨?_, ?_, ?_⟩ <;> ring

theorem lin_add (collinear : Bool) (C : QM3) (u v : Q3) : lin collinear C (u.add v) = (lin collinear C u).add (lin collinear C v) := by
  unfold lin
  cases collinear
  · simp only [Bool.false_eq_true, if_false]; exact qapply_add C u v
  · simp

theorem lin_smul (collinear : Bool) (C : QM3) (q : Rat) (v : Q3) : lin collinear C (Q3.smul q v) = Q3.smul q (lin collinear C v) := by
  unfold lin
  cases collinear
  · simp only [Bool.false_eq_true, if_false]; exact qapply_smul C q v
  · simp

theorem smul_add (q : Rat) (u v : Q3) : Q3.smul q (u.add v) = (Q3.smul q u).add (Q3.smul q v) := by
  simp only [Q3.smul, Q3.add, Q3.mk.injEq]
  refine ⟨?_, ?_, ?_⟩ <;> ring

theorem smul_smul (p q : Rat) (v : Q3) : Q3.smul p (Q3.smul q v) = Q3.smul (p * q) v := by
  simp only [Q3.smul, Q3.mk.injEq]
  refine ⟨?_, ?_, ?_⟩ <;> ring

theorem smul_zero (q : Rat) : Q3.smul q Q3.zero = Q3.zero := by
  simp [Q3.smul, Q3.zero]

theorem actMOp_add (collinear axial : Bool) (C : QM3) (tr : Bool) (u v : Q3) :
    actMOp collinear axial C tr (u.add v) = (actMOp collinear axial C tr u).add (actMOp collinear axial C tr v) := by
  rw [actMOp_eq, actMOp_eq, actMOp_eq, lin_add, smul_add]

theorem actMOp_smul (collinear axial : Bool) (C : QM3) (tr : Bool) (q : Rat) (v : Q3) :
    actMOp collinear axial C tr (Q3.smul q v) = Q3.smul q (actMOp collinear axial C tr v) := by
  rw [actMOp_eq, actMOp_eq, lin_smul, smul_smul, smul_smul, mul_comm]

theorem actMOp_zero (collinear axial : Bool) (C : QM3) (tr : Bool) : actMOp collinear axial C tr Q3.zero = Q3.zero := by
  have := actMOp_smul collinear axial C tr 0 Q3.zero
  simpa [Q3.smul, Q3.zero] using this

theorem actMOp_sum (collinear axial : Bool) (C : QM3) (tr : Bool) (l : List Q3) :
    actMOp collinear axial C tr (sumQ3 l) = sumQ3 (l.map (actMOp collinear axial C tr)) := by
  induction l with
  | nil => exact actMOp_zero collinear axial C tr
  | cons a l ih => rw [List.map_cons, sumQ3_cons, sumQ3_cons, actMOp_add, ih]

/-! ### the moment action is multiplicative on Cartesian rotations of unimodular matrices -/

theorem scal_cart (axial : Bool) (A : QM3) (hA : A.det ≠ 0) (R : M3) (hR : R.det = 1 ∨ R.det = -1) (tr : Bool) :
    scal axial (cartRot A R) tr = (if tr then -1 else 1) * (if axial then (R.det : Rat) else 1) := by
  unfold scal
  rw [cartRot_det A hA]
  rcases hR with h | h <;> rw [h] <;> simp [ratRound_one, ratRound_neg_one]

theorem m3_det_mul (p q : M3) : (p.mul q).det = p.det * q.det := by
  simp only [M3.mul, M3.det]; ring

/-- `ρ_{(R_k, θ_k)} ∘ ρ_{(R_l, θ_l)} = ρ_{(R_k R_l, θ_k xor θ_l)}`. -/
theorem actMOp_comp (collinear axial : Bool) (A : QM3) (hA : A.det ≠ 0) (Rk Rl : M3)
    (hk : Rk.det = 1 ∨ Rk.det = -1) (hl : Rl.det = 1 ∨ Rl.det = -1) (tk tl : Bool) (v : Q3) :
    actMOp collinear axial (cartRot A Rk) tk (actMOp collinear axial (cartRot A Rl) tl v) =
      actMOp collinear axial (cartRot A (Rk.mul Rl)) (tk != tl) v := by
  have hkl : (Rk.mul Rl).det = 1 ∨ (Rk.mul Rl).det = -1 := by
    rw [m3_det_mul]; rcases hk with h | h <;> rcases hl with h' | h' <;> rw [h, h'] <;> simp
  rw [actMOp_eq, actMOp_eq, actMOp_eq, lin_smul, smul_smul, scal_cart axial A hA Rk hk, scal_cart axial A hA Rl hl,
    scal_cart axial A hA _ hkl, m3_det_mul]
  have hlin : lin collinear (cartRot A Rk) (lin collinear (cartRot A Rl) v) = lin collinear (cartRot A (Rk.mul Rl)) v := by
    unfold lin
    cases collinear
    · simp only [Bool.false_eq_true, if_false]; rw [cartRot_mul A hA, qapply_mul]
    · simp
  rw [hlin]
  congr 1
  cases tk <;> cases tl <;> cases axial <;> simp

/-! ### reading `magCompat` -/

theorem mcomposes_spec {mops : List MOpQ} {perms : List (List Nat)} {n k l c : Nat}
    (h : mcomposes mops perms n k l c = true) :
    (mopAt mops c).rot = (mopAt mops k).rot.mul (mopAt mops l).rot ∧
    (mopAt mops c).tr = ((mopAt mops k).tr != (mopAt mops l).tr) ∧
    ∀ i, i < n → (permAt perms c).getD i 0 = (permAt perms k).getD ((permAt perms l).getD i 0) 0 := by
  unfold mcomposes at h
  simp only [Bool.and_eq_true, beq_iff_eq, List.all_eq_true, List.mem_range] at h
  exact ⟨h.1.1, h.1.2, h.2⟩

theorem magCompat_spec {mops : List MOpQ} {perms : List (List Nat)} {n : Nat} (h : magCompat mops perms n = true) :
    perms.length = mops.length ∧ 0 < mops.length ∧
    (∀ k, k < mops.length → isPerm n (permAt perms k) = true) ∧
    (mops.map fun o => (o.rot, o.tr)).Nodup ∧
    (∀ k, k < mops.length → ((mopAt mops k).rot.det = 1 ∨ (mopAt mops k).rot.det = -1)) ∧
    ∀ k, k < mops.length → ∀ l, l < mops.length → ∃ c, c < mops.length ∧ mcomposes mops perms n k l c = true := by
  unfold magCompat at h
  simp only [Bool.and_eq_true, beq_iff_eq, List.all_eq_true, decide_eq_true_eq, List.mem_range,
    List.any_eq_true, Bool.or_eq_true] at h
  obtain ⟨⟨⟨⟨⟨h1, h2⟩, h3⟩, h4⟩, h5⟩, h6⟩ := h
  refine ⟨h1, h2, ?_, h4, ?_, h6⟩
  · intro k hk
    unfold permAt
    rw [getD_of_lt (by omega)]
    exact h3 _ (List.getElem_mem _)
  · intro k hk
    unfold mopAt
    rw [getD_of_lt hk]
    exact h5 _ (List.getElem_mem _)

/-- The composition index. -/
def mcompIdx (mops : List MOpQ) (perms : List (List Nat)) (n k l : Nat) : Nat :=
  ((List.range mops.length).find? fun c => mcomposes mops perms n k l c).getD 0

theorem mcompIdx_spec {mops : List MOpQ} {perms : List (List Nat)} {n : Nat} (hc : magCompat mops perms n = true)
    {k l : Nat} (hk : k < mops.length) (hl : l < mops.length) :
    mcompIdx mops perms n k l < mops.length ∧ mcomposes mops perms n k l (mcompIdx mops perms n k l) = true := by
  obtain ⟨_, _, _, _, _, h6⟩ := magCompat_spec hc
  obtain ⟨c, hcl, hcc⟩ := h6 k hk l hl
  unfold mcompIdx
  cases hf : (List.range mops.length).find? fun c => mcomposes mops perms n k l c with
  | none =>
    rw [List.find?_eq_none] at hf
    exact absurd hcc (by simpa using hf c (List.mem_range.mpr hcl))
  | some c' =>
    simp only [Option.getD_some]
    exact ⟨List.mem_range.mp (List.mem_of_find?_eq_some hf), List.find?_some hf⟩

/-- `l ↦ k∘l` permutes the indices. -/
theorem mcompIdx_perm {mops : List MOpQ} {perms : List (List Nat)} {n : Nat} (hc : magCompat mops perms n = true)
    {k : Nat} (hk : k < mops.length) :
    ((List.range mops.length).map (mcompIdx mops perms n k)).Perm (List.range mops.length) := by
  obtain ⟨_, _, _, hnd, hdet, _⟩ := magCompat_spec hc
  have hinj : ∀ l ∈ List.range mops.length, ∀ l' ∈ List.range mops.length,
      mcompIdx mops perms n k l = mcompIdx mops perms n k l' → l = l' := by
    intro l hl l' hl' he
    rw [List.mem_range] at hl hl'
    obtain ⟨r1, t1, _⟩ := mcomposes_spec (mcompIdx_spec hc hk hl).2
    obtain ⟨r2, t2, _⟩ := mcomposes_spec (mcompIdx_spec hc hk hl').2
    rw [he, r2] at r1
    rw [he, t2] at t1
    have hdk : (mopAt mops k).rot.det ≠ 0 := by rcases hdet k hk with h | h <;> rw [h] <;> decide
    have h3 := M3.mul_left_cancel' hdk r1
    have h4 : (mopAt mops l').tr = (mopAt mops l).tr := by
      revert t1
      cases (mopAt mops k).tr <;> cases (mopAt mops l).tr <;> cases (mopAt mops l').tr <;> simp
    have hl1 : l < (mops.map fun o => (o.rot, o.tr)).length := by simpa using hl
    have hl2 : l' < (mops.map fun o => (o.rot, o.tr)).length := by simpa using hl'
    have : (mops.map fun o => (o.rot, o.tr))[l] = (mops.map fun o => (o.rot, o.tr))[l'] := by
      simp only [List.getElem_map]
      unfold mopAt at h3 h4
      rw [getD_of_lt hl, getD_of_lt hl'] at h3 h4
      rw [h3, h4]
    exact (hnd.getElem_inj_iff).mp this
  have hnodup : ((List.range mops.length).map (mcompIdx mops perms n k)).Nodup :=
    List.Nodup.map_on hinj List.nodup_range
  have hsub : (List.range mops.length).map (mcompIdx mops perms n k) ⊆ List.range mops.length := by
    intro c hcm
    rw [List.mem_map] at hcm
    obtain ⟨l, hl, rfl⟩ := hcm
    exact List.mem_range.mpr (mcompIdx_spec hc hk (List.mem_range.mp hl)).1
  exact (List.subperm_of_subset hnodup hsub).perm_of_length_le (by simp)

/-! ### the Reynolds sum -/

/-- `ρ_l`: the action of the `l`-th operation in the lattice `A`. -/
def rho (collinear axial : Bool) (A : QM3) (mops : List MOpQ) (l : Nat) (v : Q3) : Q3 :=
  actMOp collinear axial (cartRot A (mopAt mops l).rot) (mopAt mops l).tr v

/-- Sum over the operations of the moments equivalent to the one of site `i`. -/
def momSum (collinear axial : Bool) (A : QM3) (mops : List MOpQ) (perms : List (List Nat)) (mom : List Q3) (i : Nat) : Q3 :=
  sumQ3 ((List.range mops.length).map fun l => rho collinear axial A mops l (mom.getD (permInv (permAt perms l) i) Q3.zero))

theorem equivMoments_eq_range (collinear axial : Bool) (A : QM3) {mops : List MOpQ} {perms : List (List Nat)}
    (h : perms.length = mops.length) (mom : List Q3) (i : Nat) :
    equivMoments collinear axial (actsOf A mops) perms mom i =
      (List.range mops.length).map fun l => rho collinear axial A mops l (mom.getD (permInv (permAt perms l) i) Q3.zero) := by
  unfold equivMoments actsOf
  apply List.ext_getElem
  · simp [h]
  · intro l h1 h2
    have hl : l < mops.length := by simpa using h2
    have hl' : l < perms.length := by omega
    simp only [List.getElem_map, List.getElem_zip, List.getElem_range]
    unfold rho mopAt permAt
    rw [getD_of_lt hl, getD_of_lt hl']

theorem symmetrizeMoments_getD (collinear axial : Bool) (A : QM3) {mops : List MOpQ} {perms : List (List Nat)}
    (h : perms.length = mops.length) (mom : List Q3) {i : Nat} (hi : i < mom.length) :
    (symmetrizeMoments collinear axial (actsOf A mops) perms mom).getD i Q3.zero =
      Q3.smul (1 / (mops.length : Rat)) (momSum collinear axial A mops perms mom i) := by
  unfold symmetrizeMoments
  rw [getD_of_lt (by simpa using hi)]
  simp only [List.getElem_map, List.getElem_range]
  unfold average momSum
  rw [equivMoments_eq_range collinear axial A h]
  simp

/-- Core: `ρ_k (S_i) = S_{π_k i}` for the sums. -/
theorem momSum_equivariant (collinear axial : Bool) (A : QM3) (hA : A.det ≠ 0) {mops : List MOpQ} {perms : List (List Nat)}
    {mom : List Q3} (hc : magCompat mops perms mom.length = true) {k i : Nat} (hk : k < mops.length) (hi : i < mom.length) :
    rho collinear axial A mops k (momSum collinear axial A mops perms mom i) =
      momSum collinear axial A mops perms mom ((permAt perms k).getD i 0) := by
  obtain ⟨_, _, hperm, _, hdet, _⟩ := magCompat_spec hc
  unfold momSum
  unfold rho
  rw [actMOp_sum, List.map_map]
  -- term by term: `ρ_k ρ_l m[π_l⁻¹ i] = ρ_c m[π_c⁻¹ (π_k i)]`, `c = k∘l`
  have hterm : ∀ l ∈ List.range mops.length,
      (actMOp collinear axial (cartRot A (mopAt mops k).rot) (mopAt mops k).tr ∘
        fun l => actMOp collinear axial (cartRot A (mopAt mops l).rot) (mopAt mops l).tr
          (mom.getD (permInv (permAt perms l) i) Q3.zero)) l =
      (fun c => actMOp collinear axial (cartRot A (mopAt mops c).rot) (mopAt mops c).tr
          (mom.getD (permInv (permAt perms c) ((permAt perms k).getD i 0)) Q3.zero)) (mcompIdx mops perms mom.length k l) := by
    intro l hl
    rw [List.mem_range] at hl
    obtain ⟨hcl, hcc⟩ := mcompIdx_spec hc hk hl
    obtain ⟨hrot, htr, hpc⟩ := mcomposes_spec hcc
    have hpk := hperm k hk
    have hpl := hperm l hl
    have hpcm := hperm _ hcl
    have ha : permInv (permAt perms l) i < mom.length := permInv_lt hpl hi
    have e1 : permInv (permAt perms (mcompIdx mops perms mom.length k l)) ((permAt perms k).getD i 0) =
        permInv (permAt perms l) i := by
      have := hpc _ ha
      rw [perm_permInv hpl hi] at this
      rw [← this]
      exact permInv_perm hpcm ha
    simp only [Function.comp]
    rw [e1, hrot, htr]
    exact actMOp_comp collinear axial A hA _ _ (hdet k hk) (hdet l hl) _ _ _
  rw [List.map_congr_left hterm]
  have := (mcompIdx_perm hc hk).map fun c => actMOp collinear axial (cartRot A (mopAt mops c).rot) (mopAt mops c).tr
    (mom.getD (permInv (permAt perms c) ((permAt perms k).getD i 0)) Q3.zero)
  rw [List.map_map] at this
  exact sumQ3_perm this

end Moyo.S6m
