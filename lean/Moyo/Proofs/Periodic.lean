import Moyo.Spec.Periodic
import Mathlib.Tactic.Ring
import Mathlib.Tactic.Linarith
import Mathlib.Tactic.FieldSimp
import Mathlib.Tactic.Push
import Mathlib.Tactic.NormNum
/-
The periodic-distance decision procedure `Oracle.withinPeriodic` is sound and complete:
it returns `true` iff some lattice translate of `d` has squared Cartesian length `≤ r2`.
Soundness exhibits the translate; completeness is the Cauchy–Schwarz box
`v_i² ≤ |A v|² · |row_i A⁻¹|²`.
-/
namespace Moyo.Periodic
open Moyo Moyo.Oracle Moyo.Spec

/-! ### Cauchy–Schwarz -/

/-- 3-term Cauchy–Schwarz, by the Lagrange identity. -/
theorem cs3 (a1 a2 a3 b1 b2 b3 : Rat) :
    (a1 * b1 + a2 * b2 + a3 * b3) * (a1 * b1 + a2 * b2 + a3 * b3) ≤
      (a1 * a1 + a2 * a2 + a3 * a3) * (b1 * b1 + b2 * b2 + b3 * b3) := by
  nlinarith [sq_nonneg (a1 * b2 - a2 * b1), sq_nonneg (a1 * b3 - a3 * b1), sq_nonneg (a2 * b3 - a3 * b2)]

/-- `A⁻¹ (A v) = v` for `QM3.inv = adj / det`. -/
theorem inv_apply_apply (A : QM3) (h : A.det ≠ 0) (v : Q3) : A.inv.apply (A.apply v) = v := by
  obtain ⟨a, b, c, d, e, f, g, hh, i⟩ := A
  obtain ⟨x, y, z⟩ := v
  simp only [QM3.det] at h
  simp only [QM3.inv, QM3.smul, QM3.adj, QM3.apply, QM3.det, Q3.mk.injEq]
  generalize hD : a * (e * i - f * hh) - b * (d * i - f * g) + c * (d * hh - e * g) = D at h
  refine ⟨?_, ?_, ?_⟩ <;> field_simp <;> rw [← hD] <;> ring

theorem ginvDiag_nonneg (A : QM3) : 0 ≤ (ginvDiag A).x ∧ 0 ≤ (ginvDiag A).y ∧ 0 ≤ (ginvDiag A).z := by
  simp only [ginvDiag]
  refine ⟨?_, ?_, ?_⟩ <;> nlinarith [mul_self_nonneg A.inv.a, mul_self_nonneg A.inv.b, mul_self_nonneg A.inv.c,
    mul_self_nonneg A.inv.d, mul_self_nonneg A.inv.e, mul_self_nonneg A.inv.f,
    mul_self_nonneg A.inv.g, mul_self_nonneg A.inv.h, mul_self_nonneg A.inv.i]

/-- Key lemma: each fractional coordinate of `v` is bounded by the Cartesian length of `A v`
times the length of the corresponding row of `A⁻¹`. -/
theorem cauchy_schwarz_box (A : QM3) (h : A.det ≠ 0) (v : Q3) :
    v.x * v.x ≤ (A.apply v).normSq * (ginvDiag A).x ∧
    v.y * v.y ≤ (A.apply v).normSq * (ginvDiag A).y ∧
    v.z * v.z ≤ (A.apply v).normSq * (ginvDiag A).z := by
  have hv := inv_apply_apply A h v
  generalize A.apply v = w at hv
  have hx : v.x = A.inv.a * w.x + A.inv.b * w.y + A.inv.c * w.z := by rw [← hv]; rfl
  have hy : v.y = A.inv.d * w.x + A.inv.e * w.y + A.inv.f * w.z := by rw [← hv]; rfl
  have hz : v.z = A.inv.g * w.x + A.inv.h * w.y + A.inv.i * w.z := by rw [← hv]; rfl
  simp only [ginvDiag, Q3.normSq, Q3.dot]
  refine ⟨?_, ?_, ?_⟩
  · rw [hx, mul_comm (w.x * w.x + w.y * w.y + w.z * w.z)]; exact cs3 ..
  · rw [hy, mul_comm (w.x * w.x + w.y * w.y + w.z * w.z)]; exact cs3 ..
  · rw [hz, mul_comm (w.x * w.x + w.y * w.y + w.z * w.z)]; exact cs3 ..

/-! ### Rounding -/

theorem ratRound_close (q : Rat) : (ratRound q : Rat) - q ≤ 1 / 2 ∧ q - ratRound q ≤ 1 / 2 := by
  unfold ratRound
  split
  · have h1 := Rat.floor_le (q + 1 / 2)
    have h2 := Rat.lt_floor_add_one (q + 1 / 2)
    push_cast at h2
    constructor <;> linarith
  · have h1 := Rat.floor_le (-q + 1 / 2)
    have h2 := Rat.lt_floor_add_one (-q + 1 / 2)
    push_cast at h2 ⊢
    constructor <;> linarith

/-! ### `axisCands` -/

theorem mem_down (ok : Int → Bool) : ∀ (fuel : Nat) (n : Int) (acc : List Int) (m : Int),
    m ∈ axisCands.down ok fuel n acc ↔
      m ∈ acc ∨ (n - fuel < m ∧ m ≤ n ∧ ∀ k, m ≤ k → k ≤ n → ok k = true) := by
  intro fuel
  induction fuel with
  | zero =>
    intro n acc m
    rw [axisCands.down]
    constructor
    · exact Or.inl
    · rintro (h | ⟨h1, h2, _⟩)
      · exact h
      · simp at h1; omega
  | succ fuel ih =>
    intro n acc m
    rw [axisCands.down]
    by_cases hn : ok n = true
    · rw [if_pos hn, ih]
      simp only [List.mem_cons]
      constructor
      · rintro ((h | h) | ⟨h1, h2, h3⟩)
        · subst h
          refine Or.inr ⟨by push_cast; omega, le_refl _, fun k hk1 hk2 => ?_⟩
          have : k = m := by omega
          subst this; exact hn
        · exact Or.inl h
        · refine Or.inr ⟨by push_cast; omega, by omega, fun k hk1 hk2 => ?_⟩
          by_cases hk : k = n
          · subst hk; exact hn
          · exact h3 k hk1 (by omega)
      · rintro (h | ⟨h1, h2, h3⟩)
        · exact Or.inl (Or.inr h)
        · by_cases hm : m = n
          · exact Or.inl (Or.inl hm)
          · refine Or.inr ⟨by push_cast at h1; omega, by omega, fun k hk1 hk2 => h3 k hk1 (by omega)⟩
    · rw [if_neg hn]
      constructor
      · exact Or.inl
      · rintro (h | ⟨_, h2, h3⟩)
        · exact h
        · exact absurd (h3 n h2 (le_refl _)) hn

theorem mem_up (ok : Int → Bool) : ∀ (fuel : Nat) (n : Int) (acc : List Int) (m : Int),
    m ∈ axisCands.up ok fuel n acc ↔
      m ∈ acc ∨ (n ≤ m ∧ m < n + fuel ∧ ∀ k, n ≤ k → k ≤ m → ok k = true) := by
  intro fuel
  induction fuel with
  | zero =>
    intro n acc m
    rw [axisCands.up]
    constructor
    · exact Or.inl
    · rintro (h | ⟨h1, h2, _⟩)
      · exact h
      · simp at h2; omega
  | succ fuel ih =>
    intro n acc m
    rw [axisCands.up]
    by_cases hn : ok n = true
    · rw [if_pos hn, ih]
      simp only [List.mem_cons]
      constructor
      · rintro ((h | h) | ⟨h1, h2, h3⟩)
        · subst h
          refine Or.inr ⟨le_refl _, by push_cast; omega, fun k hk1 hk2 => ?_⟩
          have : k = m := by omega
          subst this; exact hn
        · exact Or.inl h
        · refine Or.inr ⟨by omega, by push_cast; omega, fun k hk1 hk2 => ?_⟩
          by_cases hk : k = n
          · subst hk; exact hn
          · exact h3 k (by omega) hk2
      · rintro (h | ⟨h1, h2, h3⟩)
        · exact Or.inl (Or.inr h)
        · by_cases hm : m = n
          · exact Or.inl (Or.inl hm)
          · refine Or.inr ⟨by omega, by push_cast at h2; omega, fun k hk1 hk2 => h3 k (by omega) hk2⟩
    · rw [if_neg hn]
      constructor
      · exact Or.inl
      · rintro (h | ⟨h1, _, h3⟩)
        · exact h
        · exact absurd (h3 n (le_refl _) h1) hn

theorem mem_ite_singleton (c : Bool) (a m : Int) :
    (m ∈ if c = true then [a] else []) ↔ (m = a ∧ c = true) := by
  cases c <;> simp

/-- Membership in `axisCands`, in terms of the scanned window and the test `ok`. -/
theorem mem_axisCands (d b : Rat) (m : Int) :
    m ∈ axisCands d b ↔ ¬ b < 0 ∧
      let n0 := ratRound (-d)
      let ok : Int → Bool := fun n => decide (((n : Rat) + d) * ((n : Rat) + d) ≤ b)
      ((n0 - 1 - 64 < m ∧ m ≤ n0 - 1 ∧ ∀ k, m ≤ k → k ≤ n0 - 1 → ok k = true) ∨
       (m = n0 ∧ ok n0 = true) ∨
       (n0 + 1 ≤ m ∧ m < n0 + 1 + 64 ∧ ∀ k, n0 + 1 ≤ k → k ≤ m → ok k = true)) := by
  unfold axisCands
  by_cases hb : b < 0
  · simp [hb]
  · simp only [hb, if_false, not_false_eq_true, true_and, List.mem_append, List.mem_reverse, mem_down, mem_up,
      List.not_mem_nil, false_or, mem_ite_singleton]
    simp only [Nat.cast_ofNat, or_assoc]

/-- Every element of `axisCands d b` satisfies `(n + d)² ≤ b`. -/
theorem axisCands_sound {d b : Rat} {n : Int} (h : n ∈ axisCands d b) :
    ((n : Rat) + d) * ((n : Rat) + d) ≤ b := by
  rw [mem_axisCands] at h
  obtain ⟨_, h⟩ := h
  simp only at h
  rcases h with ⟨_, h2, h3⟩ | ⟨rfl, h⟩ | ⟨h1, _, h3⟩
  · exact of_decide_eq_true (h3 n (le_refl _) h2)
  · exact of_decide_eq_true h
  · exact of_decide_eq_true (h3 n h1 (le_refl _))

/-- Every integer `n` with `(n + d)² ≤ b` inside the scanned window (64 to each side of the
integer nearest to `-d`) is listed. -/
theorem axisCands_complete {d b : Rat} {n : Int} (h : ((n : Rat) + d) * ((n : Rat) + d) ≤ b)
    (hlo : ratRound (-d) - 64 ≤ n) (hhi : n ≤ ratRound (-d) + 64) : n ∈ axisCands d b := by
  rw [mem_axisCands]
  have hb : ¬ b < 0 := by nlinarith [mul_self_nonneg ((n : Rat) + d)]
  refine ⟨hb, ?_⟩
  simp only
  obtain ⟨c1, c2⟩ := ratRound_close (-d)
  generalize ratRound (-d) = n0 at *
  rcases lt_trichotomy n n0 with hlt | heq | hgt
  · refine Or.inl ⟨by omega, by omega, fun k hk1 hk2 => decide_eq_true ?_⟩
    have e1 : (n : Rat) ≤ k := by exact_mod_cast hk1
    have e2 : (k : Rat) ≤ n0 - 1 := by exact_mod_cast hk2
    nlinarith
  · subst heq
    exact Or.inr (Or.inl ⟨rfl, decide_eq_true h⟩)
  · refine Or.inr (Or.inr ⟨by omega, by omega, fun k hk1 hk2 => decide_eq_true ?_⟩)
    have e1 : (k : Rat) ≤ n := by exact_mod_cast hk2
    have e2 : (n0 : Rat) + 1 ≤ k := by exact_mod_cast hk1
    nlinarith

/-- The window hypothesis is implied by `b < 64²`. -/
theorem axisCands_complete' {d b : Rat} {n : Int} (h : ((n : Rat) + d) * ((n : Rat) + d) ≤ b)
    (hb : b < 4096) : n ∈ axisCands d b := by
  obtain ⟨c1, c2⟩ := ratRound_close (-d)
  have h1 : (n : Rat) + d < 64 := by nlinarith
  have h2 : -64 < (n : Rat) + d := by nlinarith
  apply axisCands_complete h
  · have : ((ratRound (-d) - 65 : Int) : Rat) < n := by push_cast; linarith
    have := Int.cast_lt.mp this
    omega
  · have : (n : Rat) < ((ratRound (-d) + 65 : Int) : Rat) := by push_cast; linarith
    have := Int.cast_lt.mp this
    omega

/-! ### `withinPeriodic` -/

theorem withinPeriodic_sound {A : QM3} {gi d : Q3} {r2 : Rat}
    (h : withinPeriodic A gi d r2 = true) : PeriodicWithin A d r2 := by
  unfold withinPeriodic at h
  split at h
  · rename_i h0
    refine ⟨⟨-ratRound d.x, -ratRound d.y, -ratRound d.z⟩, ?_⟩
    simpa [Q3.wrap, Q3.map, ratWrap, sub_eq_add_neg] using h0
  · simp only at h
    split at h
    · cases h
    split at h
    · cases h
    simp only [List.any_eq_true, decide_eq_true_eq] at h
    obtain ⟨nx, _, ny, _, nz, _, hle⟩ := h
    exact ⟨⟨nx, ny, nz⟩, hle⟩

theorem withinPeriodic_complete {A : QM3} {d : Q3} {r2 : Rat} (hA : A.det ≠ 0)
    (hw : Window A r2) (h : PeriodicWithin A d r2) : withinPeriodic A (ginvDiag A) d r2 = true := by
  obtain ⟨n, hn⟩ := h
  obtain ⟨bx, by', bz⟩ := cauchy_schwarz_box A hA ⟨d.x + n.x, d.y + n.y, d.z + n.z⟩
  obtain ⟨gx, gy, gz⟩ := ginvDiag_nonneg A
  obtain ⟨wx, wy, wz⟩ := hw
  simp only at bx by' bz
  have mx : n.x ∈ axisCands d.x (r2 * (ginvDiag A).x) :=
    axisCands_complete' (by nlinarith) wx
  have my : n.y ∈ axisCands d.y (r2 * (ginvDiag A).y) :=
    axisCands_complete' (by nlinarith) wy
  have mz : n.z ∈ axisCands d.z (r2 * (ginvDiag A).z) :=
    axisCands_complete' (by nlinarith) wz
  unfold withinPeriodic
  split
  · rfl
  · simp only
    have ex : (axisCands d.x (r2 * (ginvDiag A).x)).isEmpty = false := by
      cases hh : axisCands d.x (r2 * (ginvDiag A).x) with
      | nil => rw [hh] at mx; cases mx
      | cons _ _ => rfl
    have ey : (axisCands d.y (r2 * (ginvDiag A).y)).isEmpty = false := by
      cases hh : axisCands d.y (r2 * (ginvDiag A).y) with
      | nil => rw [hh] at my; cases my
      | cons _ _ => rfl
    rw [ex, ey]
    simp only [Bool.false_eq_true, if_false, List.any_eq_true, decide_eq_true_eq]
    exact ⟨n.x, mx, n.y, my, n.z, mz, hn⟩

/-- The checker decides periodic distance exactly. -/
theorem withinPeriodic_iff {A : QM3} {d : Q3} {r2 : Rat} (hA : A.det ≠ 0) (hw : Window A r2) :
    withinPeriodic A (ginvDiag A) d r2 = true ↔ PeriodicWithin A d r2 :=
  ⟨withinPeriodic_sound, withinPeriodic_complete hA hw⟩

/-! ### Non-vacuity -/

/-- A sheared cell (columns `(1,0,0)`, `(10,1,0)`, `(0,0,1)`) where the component-wise minimum image
of `d` is *not* the nearest image: the fast path fails and the box search finds `n = (-1,0,0)`. -/
def exA : QM3 := ⟨1, 10, 0, 0, 1, 0, 0, 0, 1⟩
def exD : Q3 := ⟨3 / 10, 3 / 100, 0⟩

example : ¬ (exA.apply exD.wrap).normSq ≤ 1 / 5 := by decide +kernel
example : withinPeriodic exA (ginvDiag exA) exD (1 / 5) = true := by decide +kernel
example : withinPeriodic exA (ginvDiag exA) exD (1 / 10) = false := by decide +kernel
/-- hypotheses of `withinPeriodic_complete` / `withinPeriodic_iff` hold here -/
example : exA.det ≠ 0 ∧ Window exA (1 / 5) ∧ PeriodicWithin exA exD (1 / 5) :=
  ⟨by decide +kernel, by unfold Window; decide +kernel, ⟨⟨-1, 0, 0⟩, by decide +kernel⟩⟩
/-- and the complete search refutes the looser radius: no lattice translate is within `1/10`. -/
example : ¬ PeriodicWithin exA exD (1 / 10) := fun h => by
  have := withinPeriodic_complete (A := exA) (by decide +kernel) (by unfold Window; decide +kernel) h
  exact absurd this (by decide +kernel)
example : (5 : Int) ∈ axisCands (-24 / 5) 1 ∧ (4 : Int) ∈ axisCands (-24 / 5) 1 ∧ (6 : Int) ∉ axisCands (-24 / 5) 1 := by
  decide +kernel

end Moyo.Periodic
