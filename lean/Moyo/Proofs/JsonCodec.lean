import Moyo.Model.Json
/-
Helper lemmas for property C19 (serialization round trip): the column-major layout is inverted by
`cmUnflatten`, and `decode ∘ encode = some` on well-typed values, by mutual structural recursion
over `Val`.  Core Lean only.  The property theorems themselves are in `Moyo/Props/C19.lean`.
-/
namespace Moyo.Json

theorem cmFlatten_length {α : Type} [Inhabited α] (r c : Nat) (M : List (List α)) :
    (cmFlatten r c M).length = r * c := by
  simp [cmFlatten]

/-- `M` is an `r × c` matrix given by rows. -/
def Rect {α : Type} (r c : Nat) (M : List (List α)) : Prop :=
  M.length = r ∧ ∀ row ∈ M, row.length = c

theorem idx_lt {r c i j : Nat} (hi : i < r) (hj : j < c) : j * r + i < r * c := by
  have : (j + 1) * r ≤ c * r := Nat.mul_le_mul_right r hj
  rw [Nat.add_mul, Nat.one_mul] at this
  rw [Nat.mul_comm r c]
  omega

theorem idx_mod {r i j : Nat} (hi : i < r) : (j * r + i) % r = i := by
  rw [Nat.add_comm, Nat.add_mul_mod_self_right]
  exact Nat.mod_eq_of_lt hi

theorem idx_div {r i j : Nat} (hi : i < r) : (j * r + i) / r = j := by
  have hr : 0 < r := by omega
  rw [Nat.add_comm, Nat.add_mul_div_right _ _ hr, Nat.div_eq_of_lt hi, Nat.zero_add]

theorem cmFlatten_getD {α : Type} [Inhabited α] {r c : Nat} (M : List (List α)) {k : Nat} (hk : k < r * c) :
    (cmFlatten r c M).getD k default = (M.getD (k % r) []).getD (k / r) default := by
  simp [cmFlatten, List.getD_eq_getElem?_getD, hk]

theorem cmUnflatten_cmFlatten {α : Type} [Inhabited α] {r c : Nat} {M : List (List α)} (h : Rect r c M) :
    cmUnflatten r c (cmFlatten r c M) = M := by
  obtain ⟨hlen, hrow⟩ := h
  apply List.ext_getElem
  · simp [cmUnflatten, hlen]
  · intro i h1 h2
    have hi : i < r := by simpa [cmUnflatten] using h1
    have hrl : (M[i]).length = c := hrow _ (List.getElem_mem h2)
    simp only [cmUnflatten, List.getElem_map, List.getElem_range]
    apply List.ext_getElem
    · simp [hrl]
    · intro j h3 h4
      have hj : j < c := by simpa using h3
      simp only [List.getElem_map, List.getElem_range]
      rw [cmFlatten_getD M (idx_lt hi hj), idx_mod hi, idx_div hi]
      simp [List.getD_eq_getElem?_getD, h2, h4]

theorem div_lt_of_lt_mul' {r c k : Nat} (hk : k < r * c) : k / r < c := by
  have hr : 0 < r := by
    rcases Nat.eq_zero_or_pos r with h | h
    · subst h; simp at hk
    · exact h
  exact (Nat.div_lt_iff_lt_mul hr).2 (by rwa [Nat.mul_comm c r])

theorem mod_lt_of_lt_mul' {r c k : Nat} (hk : k < r * c) : k % r < r := by
  apply Nat.mod_lt
  rcases Nat.eq_zero_or_pos r with h | h
  · subst h; simp at hk
  · exact h

theorem cmFlatten_map {α β : Type} [Inhabited α] [Inhabited β] {r c : Nat} {M : List (List α)} (f : α → β)
    (h : Rect r c M) : cmFlatten r c (M.map (List.map f)) = (cmFlatten r c M).map f := by
  obtain ⟨hlen, hrow⟩ := h
  simp only [cmFlatten, List.map_map]
  apply List.map_congr_left
  intro k hk
  have hk : k < r * c := by simpa using hk
  have h1 : k % r < M.length := by rw [hlen]; exact mod_lt_of_lt_mul' hk
  have h2 : k / r < (M[k % r]).length := by rw [hrow _ (List.getElem_mem h1)]; exact div_lt_of_lt_mul' hk
  simp [List.getD_eq_getElem?_getD, h1, h2]

theorem mem_cmFlatten {α : Type} [Inhabited α] {r c : Nat} {M : List (List α)} (h : Rect r c M) {x : α}
    (hx : x ∈ cmFlatten r c M) : ∃ row ∈ M, x ∈ row := by
  obtain ⟨hlen, hrow⟩ := h
  simp only [cmFlatten, List.mem_map, List.mem_range] at hx
  obtain ⟨k, hk, rfl⟩ := hx
  have h1 : k % r < M.length := by rw [hlen]; exact mod_lt_of_lt_mul' hk
  have h2 : k / r < (M[k % r]).length := by rw [hrow _ (List.getElem_mem h1)]; exact div_lt_of_lt_mul' hk
  refine ⟨M[k % r], List.getElem_mem h1, ?_⟩
  simp [List.getD_eq_getElem?_getD, h1, h2]

theorem encodeList_eq_map (t : Ty) (vs : List Val) : encodeList t vs = vs.map (encode t) := by
  induction vs with
  | nil => simp [encodeList]
  | cons v vs ih => simp [encodeList, ih]

theorem decodeList_map_encode (t : Ty) (L : List Val) (h : ∀ v ∈ L, decode t (encode t v) = some v) :
    decodeList t (L.map (encode t)) = some L := by
  induction L with
  | nil => simp [decodeList]
  | cons v vs ih =>
    have h1 := h v (by simp)
    have h2 := ih (fun w hw => h w (by simp [hw]))
    simp [decodeList, h1, h2]

/-- content of a row value -/
def unlist : Val → List Val
  | .list es => es
  | _ => []

theorem encodeRows_eq (t : Ty) (rows : List Val) :
    encodeRows t rows = (rows.map unlist).map (List.map (encode t)) := by
  induction rows with
  | nil => simp [encodeRows]
  | cons v vs ih =>
    cases v <;> simp [encodeRows, unlist, ih, encodeList_eq_map]

theorem matrix_case (r c : Nat) (t : Ty) (rows : List Val) (hlen : rows.length = r)
    (hrows : ∀ row ∈ rows, ∃ es, row = .list es ∧ es.length = c ∧ ∀ e ∈ es, decode t (encode t e) = some e) :
    decode (.matrix r c t) (encode (.matrix r c t) (.list rows)) = some (.list rows) := by
  have hrect : Rect r c (rows.map unlist) := by
    refine ⟨by simpa using hlen, ?_⟩
    intro row hrow
    obtain ⟨v, hv, rfl⟩ := List.mem_map.1 hrow
    obtain ⟨es, rfl, hl, _⟩ := hrows v hv
    simpa [unlist] using hl
  have hdec : decodeList t (cmFlatten r c (encodeRows t rows)) = some (cmFlatten r c (rows.map unlist)) := by
    rw [encodeRows_eq, cmFlatten_map _ hrect]
    apply decodeList_map_encode
    intro v hv
    obtain ⟨row, hrow, hvr⟩ := mem_cmFlatten hrect hv
    obtain ⟨w, hw, rfl⟩ := List.mem_map.1 hrow
    obtain ⟨es, rfl, _, hes⟩ := hrows w hw
    exact hes v (by simpa [unlist] using hvr)
  have hback : (rows.map unlist).map Val.list = rows := by
    rw [List.map_map]
    conv => rhs; rw [← List.map_id rows]
    apply List.map_congr_left
    intro v hv
    obtain ⟨es, rfl, _, _⟩ := hrows v hv
    simp [unlist]
  simp only [encode, decode, hdec, cmFlatten_length, cmUnflatten_cmFlatten hrect, hback, if_true]

mutual
theorem de_val : ∀ (v : Val) (t : Ty), wt t v = true → decode t (encode t v) = some v
  | .int i, t, h => by
    cases t <;> simp [wt] at h
    simp [encode, decode, h]
  | .float tok, t, h => by
    cases t <;> simp [wt] at h
    simp [encode, decode]
  | .str s, t, h => by
    cases t <;> simp [wt] at h
    simp [encode, decode]
  | .char ch, t, h => by
    cases t <;> simp [wt] at h
    simp [encode, decode]
  | .bool b, t, h => by
    cases t <;> simp [wt] at h
    simp [encode, decode]
  | .list xs, t, h => by
    cases t <;> simp [wt] at h
    case seq t' => simp [encode, decode, de_list xs t' h]
    case array n t' => simp [encode, decode, de_list xs t' h.2, h.1]
    case matrix r c t' => exact matrix_case r c t' xs h.1 (de_rows xs c t' h.2)
  | .struct vs, t, h => by
    cases t <;> simp [wt] at h
    case struct fs => simp [encode, decode, de_fields vs fs h]
  | .variant n none, t, h => by
    cases t <;> simp [wt] at h
    case enum vars =>
      split at h <;> simp_all [encode, decode]
  | .variant n (some p), t, h => by
    cases t <;> simp [wt] at h
    case enum vars =>
      split at h
      next t' heq => simp [encode, decode, heq, de_val p t' h]
      next => simp at h
  | .newtype v, t, h => by
    cases t <;> simp [wt] at h
    case newtype t' => simp [encode, decode, de_val v t' h]
theorem de_list : ∀ (vs : List Val) (t : Ty), wtList t vs = true → decodeList t (encodeList t vs) = some vs
  | [], t, _ => by simp [encodeList, decodeList]
  | v :: vs, t, h => by
    simp [wtList] at h
    simp [encodeList, decodeList, de_val v t h.1, de_list vs t h.2]
theorem de_mem : ∀ (vs : List Val) (t : Ty), wtList t vs = true → ∀ e ∈ vs, decode t (encode t e) = some e
  | [], _, _ => by simp
  | v :: vs, t, h => by
    simp [wtList] at h
    intro e he
    rcases List.mem_cons.1 he with heq | he
    · rw [heq]; exact de_val v t h.1
    · exact de_mem vs t h.2 e he
theorem de_rows : ∀ (rows : List Val) (c : Nat) (t : Ty), wtRows c t rows = true →
    ∀ row ∈ rows, ∃ es, row = .list es ∧ es.length = c ∧ ∀ e ∈ es, decode t (encode t e) = some e
  | [], _, _, _ => by simp
  | .list es :: vs, c, t, h => by
    simp [wtRows] at h
    intro row hrow
    rcases List.mem_cons.1 hrow with heq | hrow
    · exact ⟨es, heq, h.1.1, de_mem es t h.1.2⟩
    · exact de_rows vs c t h.2 row hrow
  | .int _ :: _, _, _, h => by simp [wtRows] at h
  | .float _ :: _, _, _, h => by simp [wtRows] at h
  | .str _ :: _, _, _, h => by simp [wtRows] at h
  | .char _ :: _, _, _, h => by simp [wtRows] at h
  | .bool _ :: _, _, _, h => by simp [wtRows] at h
  | .struct _ :: _, _, _, h => by simp [wtRows] at h
  | .variant _ _ :: _, _, _, h => by simp [wtRows] at h
  | .newtype _ :: _, _, _, h => by simp [wtRows] at h
theorem de_fields : ∀ (vs : List (String × Val)) (fs : List (String × Ty)), wtFields fs vs = true →
    decodeFields fs (encodeFields fs vs) = some vs
  | [], fs, h => by
    cases fs <;> simp [wtFields] at h
    simp [encodeFields, decodeFields]
  | (k, v) :: vs, fs, h => by
    cases fs with
    | nil => simp [wtFields] at h
    | cons f fs =>
      obtain ⟨n, t⟩ := f
      simp [wtFields] at h
      obtain ⟨⟨rfl, h1⟩, h2⟩ := h
      simp [encodeFields, decodeFields, de_val v t h1, de_fields vs fs h2]
end

/-! ### the decoder accepts exactly the schema's fields -/

theorem decodeFields_keys : ∀ (fs : List (String × Ty)) (kvs : List (String × Json)) (vs : List (String × Val)),
    decodeFields fs kvs = some vs → kvs.map Prod.fst = fs.map Prod.fst ∧ vs.map Prod.fst = fs.map Prod.fst
  | [], [], vs, h => by
    simp [decodeFields] at h
    subst h
    simp
  | [], _ :: _, _, h => by simp [decodeFields] at h
  | _ :: _, [], _, h => by simp [decodeFields] at h
  | (n, t) :: fs, (k, j) :: kvs, vs, h => by
    simp only [decodeFields] at h
    split at h
    next hnk =>
      split at h
      next v vs' hv hvs =>
        have ih := decodeFields_keys fs kvs vs' hvs
        simp at h
        subst h
        simp [hnk, ih.1, ih.2]
      next => simp at h
    next => simp at h

theorem decode_struct_inv (fs : List (String × Ty)) (j : Json) (v : Val) (h : decode (.struct fs) j = some v) :
    ∃ kvs vs, j = .obj kvs ∧ v = .struct vs ∧ decodeFields fs kvs = some vs := by
  cases j <;> simp [decode] at h
  case obj kvs =>
    obtain ⟨vs, h1, h2⟩ := h
    exact ⟨kvs, vs, rfl, h2.symm, h1⟩

/-! ### converse: the decoder accepts only encodings of well-typed values -/


theorem singleton_of_toList {s : String} {c : Char} (h : s.toList = [c]) : String.singleton c = s := by
  rw [← String.ofList_toList (s := s), h, ← String.toList_singleton c, String.ofList_toList]

theorem cmUnflatten_rect {α : Type} [Inhabited α] (r c : Nat) (xs : List α) : Rect r c (cmUnflatten r c xs) := by
  refine ⟨by simp [cmUnflatten], ?_⟩
  intro row hrow
  simp only [cmUnflatten, List.mem_map, List.mem_range] at hrow
  obtain ⟨i, _, rfl⟩ := hrow
  simp

theorem cmFlatten_cmUnflatten {α : Type} [Inhabited α] {r c : Nat} {xs : List α} (h : xs.length = r * c) :
    cmFlatten r c (cmUnflatten r c xs) = xs := by
  apply List.ext_getElem
  · simp [cmFlatten, h]
  · intro k h1 h2
    have hk : k < r * c := by simpa [cmFlatten] using h1
    have hm := mod_lt_of_lt_mul' hk
    have hd := div_lt_of_lt_mul' hk
    simp only [cmFlatten, cmUnflatten, List.getElem_map, List.getElem_range]
    have e : k / r * r + k % r = k := by rw [Nat.mul_comm]; exact Nat.div_add_mod k r
    simp [List.getD_eq_getElem?_getD, hm, hd, e, h2]

theorem map_list_unlist (M : List (List Val)) : (M.map Val.list).map unlist = M := by
  induction M with
  | nil => rfl
  | cons a M ih => simp [unlist, ih]

theorem wtRows_of (c : Nat) (t : Ty) (M : List (List Val)) (h : ∀ row ∈ M, row.length = c ∧ wtList t row = true) :
    wtRows c t (M.map Val.list) = true := by
  induction M with
  | nil => simp [wtRows]
  | cons a M ih =>
    have ha := h a (by simp)
    simp [wtRows, ha.1, ha.2, ih (fun row hr => h row (by simp [hr]))]

theorem wtList_iff (t : Ty) (vs : List Val) : wtList t vs = true ↔ ∀ v ∈ vs, wt t v = true := by
  induction vs with
  | nil => simp [wtList]
  | cons a vs ih => simp [wtList, ih]

mutual
theorem ed_val : ∀ (t : Ty) (j : Json) (v : Val), decode t j = some v → encode t v = j ∧ wt t v = true
  | .int lo hi, j, v, h => by
    cases j <;> simp [decode] at h
    obtain ⟨h1, rfl⟩ := h
    simp [encode, wt, h1]
  | .float, j, v, h => by
    cases j <;> simp [decode] at h
    subst h; simp [encode, wt]
  | .string, j, v, h => by
    cases j <;> simp [decode] at h
    subst h; simp [encode, wt]
  | .char, j, v, h => by
    cases j <;> simp [decode] at h
    split at h <;> simp at h
    next c hc => subst h; simp [encode, wt, singleton_of_toList hc]
  | .bool, j, v, h => by
    cases j <;> simp [decode] at h
    subst h; simp [encode, wt]
  | .seq t, j, v, h => by
    cases j <;> simp [decode] at h
    case arr xs =>
      obtain ⟨vs, hvs, rfl⟩ := h
      have := ed_list t xs vs hvs
      simp [encode, wt, this.1, this.2]
  | .array n t, j, v, h => by
    cases j <;> simp [decode] at h
    case arr xs =>
      split at h <;> simp at h
      next vs hvs =>
        obtain ⟨hl, rfl⟩ := h
        have := ed_list t xs vs hvs
        simp [encode, wt, this.1, this.2, hl]
  | .matrix r c t, j, v, h => by
    cases j <;> simp [decode] at h
    case arr xs =>
      split at h <;> simp at h
      next vs hvs =>
        obtain ⟨hl, rfl⟩ := h
        have hed := ed_list t xs vs hvs
        have hrect := cmUnflatten_rect r c vs
        have hwt : ∀ v ∈ vs, wt t v = true := (wtList_iff t vs).1 hed.2
        constructor
        · simp only [encode]
          rw [encodeRows_eq, map_list_unlist, cmFlatten_map _ hrect, cmFlatten_cmUnflatten hl, ← encodeList_eq_map, hed.1]
        · simp only [wt]
          have h1 : ((cmUnflatten r c vs).map Val.list).length = r := by simp [cmUnflatten]
          simp only [h1, decide_true, Bool.true_and]
          apply wtRows_of
          intro row hrow
          refine ⟨hrect.2 row hrow, (wtList_iff t row).2 ?_⟩
          intro e he
          simp only [cmUnflatten, List.mem_map, List.mem_range] at hrow
          obtain ⟨i, hi, rfl⟩ := hrow
          simp only [List.mem_map, List.mem_range] at he
          obtain ⟨jj, hj, rfl⟩ := he
          have hlt : jj * r + i < vs.length := by rw [hl]; exact idx_lt hi hj
          rw [List.getD_eq_getElem?_getD, List.getElem?_eq_getElem hlt]
          exact hwt _ (List.getElem_mem hlt)
  | .struct fs, j, v, h => by
    cases j <;> simp [decode] at h
    case obj kvs =>
      obtain ⟨vs, hvs, rfl⟩ := h
      have := ed_fields fs kvs vs hvs
      simp [encode, wt, this.1, this.2]
  | .enum vars, .str n, v, h => by
    simp only [decode] at h
    split at h <;> simp at h
    next heq => subst h; simp [encode, wt, heq]
  | .enum vars, .obj [(n, j')], v, h => by
    simp only [decode] at h
    split at h <;> simp at h
    next t' heq =>
      obtain ⟨p, hp, rfl⟩ := h
      have := ed_val t' j' p hp
      simp [encode, wt, heq, this.1, this.2]
  | .enum vars, .obj [], v, h => by simp [decode] at h
  | .enum vars, .obj (_ :: _ :: _), v, h => by simp [decode] at h
  | .enum vars, .null, v, h => by simp [decode] at h
  | .enum vars, .bool _, v, h => by simp [decode] at h
  | .enum vars, .int _, v, h => by simp [decode] at h
  | .enum vars, .dec _, v, h => by simp [decode] at h
  | .enum vars, .arr _, v, h => by simp [decode] at h
  | .newtype t, j, v, h => by
    have h' : ∃ w, decode t j = some w ∧ Val.newtype w = v := by
      cases j <;> simpa [decode] using h
    obtain ⟨w, hw, rfl⟩ := h'
    have := ed_val t j w hw
    simp [encode, wt, this.1, this.2]
termination_by t j _ _ => (sizeOf j, sizeOf t)
theorem ed_list : ∀ (t : Ty) (js : List Json) (vs : List Val), decodeList t js = some vs →
    encodeList t vs = js ∧ wtList t vs = true
  | t, [], vs, h => by
    simp [decodeList] at h
    subst h; simp [encodeList, wtList]
  | t, j :: js, vs, h => by
    simp only [decodeList] at h
    split at h <;> simp at h
    next v vs' hv hvs =>
      subst h
      have h1 := ed_val t j v hv
      have h2 := ed_list t js vs' hvs
      simp [encodeList, wtList, h1.1, h1.2, h2.1, h2.2]
termination_by t js _ _ => (sizeOf js, sizeOf t)
theorem ed_fields : ∀ (fs : List (String × Ty)) (kvs : List (String × Json)) (vs : List (String × Val)),
    decodeFields fs kvs = some vs → encodeFields fs vs = kvs ∧ wtFields fs vs = true
  | [], [], vs, h => by
    simp [decodeFields] at h
    subst h; simp [encodeFields, wtFields]
  | [], _ :: _, _, h => by simp [decodeFields] at h
  | _ :: _, [], _, h => by simp [decodeFields] at h
  | (n, t) :: fs, (k, j) :: kvs, vs, h => by
    simp only [decodeFields] at h
    split at h
    next hnk =>
      split at h <;> simp at h
      next v vs' hv hvs =>
        subst h
        subst hnk
        have h1 := ed_val t j v hv
        have h2 := ed_fields fs kvs vs' hvs
        simp [encodeFields, wtFields, h1.1, h1.2, h2.1, h2.2]
    next => simp at h
termination_by fs kvs _ _ => (sizeOf kvs, sizeOf fs)
end

end Moyo.Json
