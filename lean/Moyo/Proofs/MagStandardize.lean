import Moyo.Model.MagOracle
import Mathlib.Algebra.BigOperators.Group.Finset.Basic
import Mathlib.Algebra.Module.Rat
/-
Moment symmetrisation of `moyo/src/symmetrize/magnetic_standardize.rs`:
* the abstract Reynolds-operator lemma (`reynolds_sum`, `reynolds_average`);
* an executable model, over exact rationals, of `symmetrize_magnetic_moments` and of the two ways
  `StandardizedMagneticCell::new` can feed it (`pinnedPrimMoments`: the formula of the pinned tree;
  `framedPrimMoments`: symmetrise in the frame the Cartesian rotations are expressed in, then rotate);
* an executable model of the position formula of `Transformation::transform_cell`.
Used by `Props/C13.lean`.
-/
namespace Moyo.MagStd
open Moyo Moyo.MagOracle

/-! ### Reynolds operator -/

/-- Summing `ρ_g (m (π_g⁻¹ i))` over a finite group `G`, with `ρ` a linear representation **on the
space the moments `m` live in** and `π` an action on the sites, gives a family of vectors that is
equivariant: `ρ_h (M i) = M (π_h i)`. -/
theorem reynolds_sum {G ι V : Type*} [Group G] [Fintype G] [AddCommMonoid V]
    (ρ : G → V →+ V) (hρ : ∀ g h v, ρ (g * h) v = ρ g (ρ h v))
    (π : G → ι → ι) (hπ : ∀ g h i, π (g * h) i = π g (π h i)) (hπ1 : ∀ i, π 1 i = i)
    (m : ι → V) (h : G) (i : ι) :
    ρ h (∑ g, ρ g (m (π g⁻¹ i))) = ∑ g, ρ g (m (π g⁻¹ (π h i))) := by
  rw [map_sum]
  apply Fintype.sum_equiv (Equiv.mulLeft h)
  intro g
  simp only [Equiv.coe_mulLeft]
  rw [hρ, mul_inv_rev, hπ g⁻¹ h⁻¹, ← hπ h⁻¹ h, inv_mul_cancel, hπ1]

/-- The same for the average, or any rational multiple `c` of the sum (`c = 1/|G|`; rational vector spaces). -/
theorem reynolds_average {G ι V : Type*} [Group G] [Fintype G] [AddCommGroup V] [Module ℚ V]
    (ρ : G → V →+ V) (hρ : ∀ g h v, ρ (g * h) v = ρ g (ρ h v))
    (π : G → ι → ι) (hπ : ∀ g h i, π (g * h) i = π g (π h i)) (hπ1 : ∀ i, π 1 i = i)
    (m : ι → V) (c : ℚ) (h : G) (i : ι) :
    ρ h (c • ∑ g, ρ g (m (π g⁻¹ i))) = c • ∑ g, ρ g (m (π g⁻¹ (π h i))) := by
  rw [map_rat_smul, reynolds_sum ρ hρ π hπ hπ1]

/-! ### executable model -/

/-- `Permutation::inverse().apply(i)` for a permutation given as the list of its images. -/
def invApply (perm : List Nat) (i : Nat) : Nat := perm.idxOf i

/-- `MagneticMoment::average`. -/
def average (vs : List Q3) : Q3 := (vs.foldl Q3.add Q3.zero).smul (1 / (vs.length : Rat))

/-- Model of `symmetrize_magnetic_moments`: site `i` gets the average over the operations
`(cart, θ, perm)` of `act_magnetic_operation(cart, θ)` applied to the moment of site `perm⁻¹(i)`. -/
def symmetrizeMoments (collinear axial : Bool) (ops : List (QM3 × Bool × List Nat)) (moms : List Q3) : List Q3 :=
  (List.range moms.length).map fun i =>
    average (ops.map fun o => actMagneticOperation collinear axial o.1 o.2.1 (moms.getD (invApply o.2.2 i) Q3.zero))

/-- The moment part of `StandardizedMagneticCell::new` **as pinned**: the primitive moments are read
through `site_mapping` (the conventional cell's site map), rotated by `Q0 = rotation_matrix` into the
standardized frame, and then symmetrised with the Cartesian rotations of the *unrotated* input frame. -/
def pinnedPrimMoments (collinear axial : Bool) (Q0 : QM3) (siteMap : List Nat)
    (ops : List (QM3 × Bool × List Nat)) (moms : List Q3) : List Q3 :=
  symmetrizeMoments collinear axial ops
    ((List.range moms.length).map fun i => actRotation collinear axial Q0 (moms.getD (siteMap.getD i 0) Q3.zero))

/-- Symmetrise in the frame the Cartesian rotations are expressed in, then rotate by `Q0`. -/
def framedPrimMoments (collinear axial : Bool) (Q0 : QM3) (ops : List (QM3 × Bool × List Nat)) (moms : List Q3) : List Q3 :=
  (symmetrizeMoments collinear axial ops moms).map (actRotation collinear axial Q0)

/-- Position formula of `Transformation::transform_cell` **as pinned** for lattice point `l`:
`L⁻¹ (x + l)` — the origin shift `p` of the transformation does not occur. -/
def pinnedConvPosition (Linv : QM3) (_p x l : Q3) : Q3 := Linv.apply (x.add l)

/-- `(P, p)⁻¹ x = P⁻¹ (x − p)` (as `UnimodularTransformation::transform_cell` does). -/
def shiftedConvPosition (Linv : QM3) (p x l : Q3) : Q3 := Linv.apply ((x.sub p).add l)

/-! ### the witnesses (the inputs of `moyo_harness mag-defect …`) -/

def diag (a b c : Rat) : QM3 := ⟨a, 0, 0, 0, b, 0, 0, 0, c⟩

/-- The point group 222 as reported for the witnesses, in the order `1, 2_z, 2_x, 2_y`, with the
permutations it induces on the orbit `x, 2_z x, 2_x x, 2_y x` (no time reversal). -/
def ops222 : List (QM3 × Bool × List Nat) :=
  [(diag 1 1 1, false, [0, 1, 2, 3]), (diag (-1) (-1) 1, false, [1, 0, 3, 2]),
   (diag 1 (-1) (-1), false, [2, 3, 0, 1]), (diag (-1) 1 (-1), false, [3, 2, 1, 0])]

/-- Moments `g·m0` of the orbit, `m0 = (1/4, 1/2, 3/4)` (axial = polar for proper rotations). -/
def moms222 : List Q3 := [⟨1/4, 1/2, 3/4⟩, ⟨-1/4, -1/2, 3/4⟩, ⟨1/4, -1/2, -3/4⟩, ⟨-1/4, 1/2, -3/4⟩]

/-- `std_rotation_matrix` returned for the axis-aligned `P 2 2` crystal (UNI 99): axes `(b, a, −c)`. -/
def Qswap : QM3 := ⟨0, -1, 0, -1, 0, 0, 0, 0, -1⟩

end Moyo.MagStd
