import Moyo.Proofs.PipelineS1
import Moyo.Props.C01Stages
import Moyo.Props.C02Stages
import Mathlib.Tactic.LinearCombination
/-
Assembly of the end-to-end theorem of C01: the abstract lift (`Pipeline.lift`) instantiated with the facts that the
stage models S1 (`PipelineS1.lean`), S3 (`C02.prim_ops_sound`) and S4 (`C01.operationsInCell_mem`,
`C01.transformOp_conj`) establish, under the decidable hypotheses of `Model/PipelineOps.lean`.
-/
namespace Moyo.Pipeline
open Moyo Moyo.Search Moyo.Stage Moyo.PipelineOps Moyo.Spec

/-! ### F5 / F6: the accepted translations and the primitive lattice -/

theorem Z3.ext' {u v : Z3} (hx : u.x = v.x) (hy : u.y = v.y) (hz : u.z = v.z) : u = v := by
  cases u; cases v; simp_all

/-- If `adj(L)(z' − c)` is divisible by `d = det L ≠ 0` and `z ≡ z'` modulo `d`, then `z − c ∈ L ℤ³`. -/
theorem coset_rep {L : M3} {d : Int} (hd : d = L.det) (hne : d ≠ 0) {z z' c : Z3}
    (hc : congMod L d z' c = true)
    (hx : z'.x = z.x % d) (hy : z'.y = z.y % d) (hz : z'.z = z.z % d) : ∃ m : Z3, z.sub c = L.apply m := by
  simp only [congMod, Bool.and_eq_true, beq_iff_eq] at hc
  obtain ⟨⟨c1, c2⟩, c3⟩ := hc
  obtain ⟨mx, e1⟩ := Int.dvd_of_emod_eq_zero c1
  obtain ⟨my, e2⟩ := Int.dvd_of_emod_eq_zero c2
  obtain ⟨mz, e3⟩ := Int.dvd_of_emod_eq_zero c3
  have qx := Int.mul_ediv_add_emod z.x d
  have qy := Int.mul_ediv_add_emod z.y d
  have qz := Int.mul_ediv_add_emod z.z d
  rw [← hx] at qx; rw [← hy] at qy; rw [← hz] at qz
  obtain ⟨l1, l2, l3, l4, l5, l6, l7, l8, l9⟩ := L
  obtain ⟨zx, zy, zz⟩ := z
  obtain ⟨zx', zy', zz'⟩ := z'
  obtain ⟨cx, cy, cz⟩ := c
  simp only [M3.adj, M3.apply, Z3.sub, M3.det] at *
  -- `L (m₁) = z' − c`
  have h1 : l1 * mx + l2 * my + l3 * mz = zx' - cx := by
    apply mul_left_cancel₀ hne
    rw [hd]; rw [hd] at e1 e2 e3
    linear_combination (-l1) * e1 + (-l2) * e2 + (-l3) * e3
  have h2 : l4 * mx + l5 * my + l6 * mz = zy' - cy := by
    apply mul_left_cancel₀ hne
    rw [hd]; rw [hd] at e1 e2 e3
    linear_combination (-l4) * e1 + (-l5) * e2 + (-l6) * e3
  have h3 : l7 * mx + l8 * my + l9 * mz = zz' - cz := by
    apply mul_left_cancel₀ hne
    rw [hd]; rw [hd] at e1 e2 e3
    linear_combination (-l7) * e1 + (-l8) * e2 + (-l9) * e3
  set ax := zx / d
  set ay := zy / d
  set az := zz / d
  refine ⟨⟨mx + ((l5 * l9 - l6 * l8) * ax + (l3 * l8 - l2 * l9) * ay + (l2 * l6 - l3 * l5) * az),
           my + ((l6 * l7 - l4 * l9) * ax + (l1 * l9 - l3 * l7) * ay + (l3 * l4 - l1 * l6) * az),
           mz + ((l4 * l8 - l5 * l7) * ax + (l2 * l7 - l1 * l8) * ay + (l1 * l5 - l2 * l4) * az)⟩, ?_⟩
  rw [hd] at qx qy qz
  apply Z3.ext'
  · simp only; linear_combination (-1 : Int) * h1 + (-1 : Int) * qx
  · simp only; linear_combination (-1 : Int) * h2 + (-1 : Int) * qy
  · simp only; linear_combination (-1 : Int) * h3 + (-1 : Int) * qz

theorem mem_box {d : Int} (hpos : 0 < d) (x : Int) :
    x % d ∈ (List.range d.toNat).map fun (k : Nat) => (k : Int) := by
  have h0 := Int.emod_nonneg x (ne_of_gt hpos)
  have h1 := Int.emod_lt_of_pos x hpos
  refine List.mem_map.mpr ⟨(x % d).toNat, List.mem_range.mpr ?_, ?_⟩
  · omega
  · omega

/-- (H-r): every integer vector is congruent modulo `L ℤ³` to the rounded image of an accepted translation. -/
theorem cosetsCovered_sound {r : PrimRes} (h : cosetsCovered r = true) (z : Z3) :
    ∃ t ∈ r.translations, ∃ m : Z3, z.sub (latticePoint r.linear t) = r.linear.apply m := by
  simp only [cosetsCovered, Bool.and_eq_true, decide_eq_true_eq, List.all_eq_true, List.any_eq_true] at h
  obtain ⟨hpos, hall⟩ := h
  obtain ⟨t, ht, hc⟩ := hall _ (mem_box hpos z.x) _ (mem_box hpos z.y) _ (mem_box hpos z.z)
  exact ⟨t, ht, coset_rep rfl (ne_of_gt hpos) hc rfl rfl rfl⟩

theorem transNearLattice_sound {r : PrimRes} {tau : Rat} (h : transNearLattice r tau = true) :
    0 ≤ tau ∧ ∀ t ∈ r.translations,
      Ball r.cell.lat ((r.linear.applyQ t).sub (zq (latticePoint r.linear t))) tau := by
  simp only [transNearLattice, Bool.and_eq_true, decide_eq_true_eq, List.all_eq_true] at h
  exact ⟨h.1, fun t ht => ⟨h.1, h.2 t ht⟩⟩

/-! ### the setting of a run -/

/-- The geometric setting (`Pipeline.Setting`) read off the S1 output. -/
def settingOf (c : CellQ) (symprec tau : Rat) (r : PrimRes) : Setting where
  Ap := r.cell.lat
  L := r.linear
  n := c.n
  np := r.cell.n
  u := fun a => r.linear.applyQ (posAt c a)
  num := numAt c
  y := posAt r.cell
  pnum := numAt r.cell
  site := fun a => r.siteMapping.getD a 0
  rep := fun k => (repsOf r).getD k 0
  trs := (r.translations.zip r.perms).map fun tp => (r.linear.applyQ tp.1, papply tp.2)
  s := symprec
  tau := tau

theorem siteOrbitOk_iff (r : PrimRes) : siteOrbitOk r = true ↔
    ∀ i, i < r.reduced.n → r.siteMapping.getD i 0 < (repsOf r).length ∧
      ∃ p ∈ r.perms, papply p i = (repsOf r).getD (r.siteMapping.getD i 0) 0 := by
  simp [siteOrbitOk, List.all_eq_true, List.any_eq_true]

section
variable {c : CellQ} {s : Rat} {cands : List TCand} {T1 T2 M : M3}

theorem trs_eq (tau : Rat) : (settingOf c s tau (primResOf c s cands T1 T2 M)).trs =
    (accOf c s cands T1).map fun a =>
      ((primResOf c s cands T1 T2 M).linear.applyQ (T1.applyQ a.1), papply a.2) := by
  simp only [settingOf, primRes_translations, primRes_perms, List.zip_map', List.map_map]
  rfl

/-- F1, F2, F3, F5, F6 hold of the setting of a successful S1 run, under (H-p), (H-s), (H-ε), (H-r). -/
theorem facts_of_run (d1 : T1.det = 1) (d2 : T2.det = 1)
    (hok : ∀ cd ∈ cands, permOk (redOf c T1) cd.perm = true)
    (hne : (accOf c s cands T1).length ≠ 0) (hM : M.det = ((accOf c s cands T1).length : Int)) (tau : Rat)
    (Hp : permsInvertible (primResOf c s cands T1 T2 M) = true)
    (Hs : siteOrbitOk (primResOf c s cands T1 T2 M) = true)
    (He : transNearLattice (primResOf c s cands T1 T2 M) tau = true)
    (Hr : cosetsCovered (primResOf c s cands T1 T2 M) = true) :
    Facts (settingOf c s tau (primResOf c s cands T1 T2 M)) := by
  have dM : M.det ≠ 0 := by rw [hM]; exact_mod_cast hne
  have hs : 0 < s := acc_pos hne
  obtain ⟨_, hε⟩ := transNearLattice_sound He
  refine ⟨le_of_lt hs, ?_, ?_, ?_, ?_, ?_⟩
  · -- F1
    intro tp htp a ha
    rw [trs_eq] at htp
    obtain ⟨p, hp, rfl⟩ := List.mem_map.mp htp
    exact translation_fact d1 d2 dM hok hp ha
  · -- F2
    intro k hk
    have hk' : k < (repsOf (primResOf c s cands T1 T2 M)).length := by
      rw [← primRes_n]; exact hk
    exact site_fact d1 d2 dM Hp hne hk'
  · -- F3
    intro a ha
    have hred : (primResOf c s cands T1 T2 M).reduced.n = c.n := by rw [primRes_reduced, n_transformCellU]
    obtain ⟨h1, p, hp, hpa⟩ := (siteOrbitOk_iff _).mp Hs a (by rw [hred]; exact ha)
    refine ⟨by show _ < (primResOf c s cands T1 T2 M).cell.n; rw [primRes_n]; exact h1, ?_⟩
    rw [primRes_perms] at hp
    obtain ⟨q, hq, rfl⟩ := List.mem_map.mp hp
    refine ⟨((primResOf c s cands T1 T2 M).linear.applyQ (T1.applyQ q.1), papply q.2), ?_, hpa⟩
    rw [trs_eq]
    exact List.mem_map.mpr ⟨q, hq, rfl⟩
  · -- F5
    intro z
    obtain ⟨t, ht, m, hm⟩ := cosetsCovered_sound Hr z
    rw [primRes_translations] at ht
    obtain ⟨q, hq, rfl⟩ := List.mem_map.mp ht
    refine ⟨_, by rw [trs_eq]; exact List.mem_map.mpr ⟨q, hq, rfl⟩, m, ?_⟩
    have hb := hε (T1.applyQ q.1) (by rw [primRes_translations]; exact List.mem_map.mpr ⟨q, hq, rfl⟩)
    refine ball_congr hb ?_ rfl
    have hz : zq z = (zq (latticePoint (primResOf c s cands T1 T2 M).linear (T1.applyQ q.1))).add
        ((primResOf c s cands T1 T2 M).linear.applyQ (zq m)) := by
      rw [applyQ_zq, ← hm, ← zq_add]
      congr 1
      apply Z3.ext' <;> simp [Z3.add, Z3.sub]
    show ((((primResOf c s cands T1 T2 M).linear.applyQ (T1.applyQ q.1)).sub (zq z)).add
      ((primResOf c s cands T1 T2 M).linear.applyQ (zq m))) = _
    rw [hz]
    apply Q3.ext' <;> simp [Q3.add, Q3.sub] <;> ring
  · -- F6
    intro tp htp
    rw [trs_eq] at htp
    obtain ⟨q, hq, rfl⟩ := List.mem_map.mp htp
    exact ⟨_, hε (T1.applyQ q.1) (by rw [primRes_translations]; exact List.mem_map.mpr ⟨q, hq, rfl⟩)⟩

end

/-! ### F4, F7, F8: one primitive operation -/

theorem strainAll_iff (st : Stages) (lam : Rat) :
    strainAll st lam = true ↔ ∀ e ∈ st.primOps, strainOk st.prim.cell.lat e.rot lam = true := by
  simp [strainAll, List.all_eq_true]

theorem opFacts_of_run {c : CellQ} {s tau : Rat} {r : PrimRes} {brav : Option (List M3)} {cands : List Cand}
    {ops : List Elem} (h : searchModel r.cell s brav cands = .ok ops)
    (Hc : distinctRots (purify r.cell s cands) = true) {e : Elem} (he : e ∈ ops) {N : M3} {lam : Rat}
    (Hη : strainOk r.cell.lat e.rot lam = true) (hN : r.linear.mul N = e.rot.mul r.linear) :
    OpFacts (settingOf c s tau r) e.rot e.trans (papply e.perm) N lam := by
  refine ⟨?_, fun v ρ hb => ball_strain Hη hb, hN⟩
  intro k hk
  obtain ⟨h1, h2, kz, h3⟩ := C02.prim_ops_sound r.cell s brav cands ops h Hc e he k hk
  -- `0 < s`: some candidate was accepted
  obtain ⟨_, _, _, hne, _⟩ := searchModel_ok h
  have hs : 0 < s := by
    obtain ⟨g, hg⟩ := List.exists_mem_of_ne_nil _ hne
    obtain ⟨cd, _, hacc, _⟩ := mem_purify.mp hg
    exact ((accept_iff _ s _ _ _).mp hacc).1
  exact ⟨h1, h2, kz, ⟨le_of_lt hs, le_of_lt h3⟩⟩

/-! ### S4 and the conversion to the input cell -/

theorem truncFrac3_eq (v : Q3) : ∃ z : Z3, truncFrac3 v = v.sub (zq z) := by
  have h1 : ∀ q : Rat, ∃ k : Int, ratTruncFrac q = q - (k : Rat) := by
    intro q
    unfold ratTruncFrac
    split
    · exact ⟨_, rfl⟩
    · exact ⟨_, rfl⟩
  obtain ⟨kx, hx⟩ := h1 v.x
  obtain ⟨ky, hy⟩ := h1 v.y
  obtain ⟨kz, hz⟩ := h1 v.z
  exact ⟨⟨kx, ky, kz⟩, by apply Q3.ext' <;> simp [truncFrac3, Q3.map, Q3.sub, zq, hx, hy, hz]⟩

theorem posBang (c : CellQ) (i : Nat) : c.pos[i]! = posAt c i := by
  unfold posAt
  by_cases h : i < c.pos.size
  · simp [Array.getD, h]
  · simp [Array.getD, h]; rfl

theorem numBang (c : CellQ) (i : Nat) : c.num[i]! = numAt c i := by
  unfold numAt
  by_cases h : i < c.num.size
  · simp [Array.getD, h]
  · simp [Array.getD, h]


/-! ### the composed model -/

theorem runStages_ok {c : CellQ} {s : Rat} {H : Heur} {st : Stages} (h : runStages c s H = .ok st) :
    primitiveModel c s H.mink1 H.tcands H.mink2 = .ok st.prim ∧
    searchModel st.prim.cell s H.brav H.cands = .ok st.primOps ∧
    st.ops = operationsInCell st.prim.linear st.prim.translations (st.primOps.map elemOp) := by
  unfold runStages at h
  split at h
  · cases h
  · rename_i prim h1
    split at h
    · cases h
    · rename_i primOps h3
      cases h
      exact ⟨h1, h3, rfl⟩

theorem reportedOps_ok {c : CellQ} {s : Rat} {H : Heur} {ops : List OpQ} (h : reportedOps c s H = .ok ops) :
    ∃ st, runStages c s H = .ok st ∧ st.ops = ops := by
  unfold reportedOps at h
  split at h
  · cases h
  · rename_i st hst
    cases h
    exact ⟨st, hst, rfl⟩

/-- Every reported operation comes from a primitive operation returned by S3 and an accepted translation of S1. -/
theorem reported_mem {c : CellQ} {s : Rat} {H : Heur} {st : Stages} (h : runStages c s H = .ok st) {q : OpQ}
    (hq : q ∈ st.ops) :
    ∃ e ∈ st.primOps, ∃ s' : Q3, ∃ t1 ∈ st.prim.translations,
      st.prim.linear.det ≠ 0 ∧ st.prim.linear.mul q.rot = e.rot.mul st.prim.linear ∧
      st.prim.linear.applyQ s' = e.trans ∧ q.trans = truncFrac3 (t1.add s') := by
  obtain ⟨_, _, hops⟩ := runStages_ok h
  rw [hops] at hq
  obtain ⟨o, ho, o', hoo', hrot, hconj, t1, ht1, htr⟩ := C01.operationsInCell_mem _ _ _ _ hq
  obtain ⟨e, he, rfl⟩ := List.mem_map.mp ho
  obtain ⟨hdet, _, htrans⟩ := C01.transformOp_conj _ _ _ hoo'
  exact ⟨e, he, o'.trans, t1, ht1, hdet, hconj, htrans, htr⟩

/-- **End-to-end lift** (see `C01.reported_maps_atoms_partial`). -/
theorem reported_maps_atoms {c : CellQ} {s : Rat} {H : Heur} {st : Stages} (hrun : runStages c s H = .ok st)
    {lam tau : Rat} (Hp : permsInvertible st.prim = true) (Hs : siteOrbitOk st.prim = true)
    (Hc : distinctOk st s H = true) (He : transNearLattice st.prim tau = true)
    (Hr : cosetsCovered st.prim = true) (Hη : strainAll st lam = true) :
    ∀ q ∈ st.ops, ∀ i, i < c.n →
      OnSite c ((q.rot.applyQ c.pos[i]!).add q.trans) c.num[i]! (radius s lam tau * radius s lam tau) := by
  intro q hq i hi
  obtain ⟨hS1, hS3, _⟩ := runStages_ok hrun
  obtain ⟨e, he, s', t1, ht1, _, hN, hs', htr⟩ := reported_mem hrun hq
  obtain ⟨prim, primOps, ops⟩ := st
  simp only at *
  obtain ⟨T1, T2, M, d1, d2, _, hok, hne, hM, rfl⟩ := primitiveModel_ok hS1
  have dM : M.det ≠ 0 := by rw [hM]; exact_mod_cast hne
  have F := facts_of_run d1 d2 hok hne hM tau Hp Hs He Hr
  have O := opFacts_of_run (c := c) (tau := tau) hS3 Hc he ((strainAll_iff _ _).mp Hη e he) hN
  -- the accepted translation
  rw [primRes_translations] at ht1
  obtain ⟨q0, hq0, rfl⟩ := List.mem_map.mp ht1
  have htj : ((primResOf c s H.tcands T1 T2 M).linear.applyQ (T1.applyQ q0.1), papply q0.2) ∈
      (settingOf c s tau (primResOf c s H.tcands T1 T2 M)).trs := by
    rw [trs_eq]; exact List.mem_map.mpr ⟨q0, hq0, rfl⟩
  obtain ⟨b, hb, hnum, m, hball⟩ := lift F O i hi _ htj
  obtain ⟨zt, hzt⟩ := truncFrac3_eq ((T1.applyQ q0.1).add s')
  refine ⟨b, hb, by rw [numBang, numBang]; exact hnum, zt.sub m, ?_⟩
  rw [posBang, posBang, htr, hzt]
  set L := (primResOf c s H.tcands T1 T2 M).linear with hL
  -- the vector, in the input basis
  have hW : (⟨(((q.rot.applyQ (posAt c i)).add (((T1.applyQ q0.1).add s').sub (zq zt))).sub (posAt c b)).x + ((zt.sub m).x : Rat),
      (((q.rot.applyQ (posAt c i)).add (((T1.applyQ q0.1).add s').sub (zq zt))).sub (posAt c b)).y + ((zt.sub m).y : Rat),
      (((q.rot.applyQ (posAt c i)).add (((T1.applyQ q0.1).add s').sub (zq zt))).sub (posAt c b)).z + ((zt.sub m).z : Rat)⟩ : Q3) =
      ((((q.rot.applyQ (posAt c i)).add s').add (T1.applyQ q0.1)).sub (posAt c b)).sub (zq m) := by
    apply Q3.ext' <;> simp [Q3.add, Q3.sub, zq, Z3.sub] <;> ring
  rw [hW, ← lat_input (s := s) (cands := H.tcands) (T2 := T2) (M := M) d1 d2 dM, ← hL]
  have hLW : L.applyQ (((((q.rot.applyQ (posAt c i)).add s').add (T1.applyQ q0.1)).sub (posAt c b)).sub (zq m)) =
      ((((e.rot.applyQ (L.applyQ (posAt c i))).add e.trans).add (L.applyQ (T1.applyQ q0.1))).sub
        (L.applyQ (posAt c b))).sub (L.applyQ (zq m)) := by
    rw [applyQ_sub, applyQ_sub, M3.applyQ_add, M3.applyQ_add, ← applyQ_mul, hN, applyQ_mul, hs']
  rw [hLW]
  exact hball.2

/-! ### rotation parts -/

theorem QM3.ext_apply {P Q : QM3} (h : ∀ v, P.apply v = Q.apply v) : P = Q := by
  have h1 := h ⟨1, 0, 0⟩
  have h2 := h ⟨0, 1, 0⟩
  have h3 := h ⟨0, 0, 1⟩
  obtain ⟨a, b, c, d, e, f, g, hh, i⟩ := P
  obtain ⟨a', b', c', d', e', f', g', hh', i'⟩ := Q
  simp only [QM3.apply, Q3.mk.injEq, mul_one, mul_zero, add_zero, zero_add] at h1 h2 h3
  simp only [QM3.mk.injEq]
  exact ⟨h1.1, h2.1, h3.1, h1.2.1, h2.2.1, h3.2.1, h1.2.2, h2.2.2, h3.2.2⟩

/-- The input basis is the primitive basis times `linear`: `A = A_prim · L` (exactly). -/
theorem lat_matrix {c : CellQ} {s : Rat} {H : Heur} {st : Stages} (hrun : runStages c s H = .ok st) :
    c.lat = st.prim.cell.lat.mul (QM3.ofM3 st.prim.linear) := by
  obtain ⟨hS1, _, _⟩ := runStages_ok hrun
  obtain ⟨T1, T2, M, d1, d2, _, _, hne, hM, hr⟩ := primitiveModel_ok hS1
  have dM : M.det ≠ 0 := by rw [hM]; exact_mod_cast hne
  rw [hr]
  apply QM3.ext_apply
  intro v
  rw [apply_mul, ← M3.applyQ_eq, lat_input d1 d2 dM]

theorem det_of_inMonoid {gs : List M3} (hg : ∀ g ∈ gs, g.det = 1 ∨ g.det = -1) {R : M3} (h : InMonoid gs R) :
    R.det = 1 ∨ R.det = -1 := by
  induction h with
  | one => left; rfl
  | mul _ hmem ih =>
    rw [M3.det_mul]
    rcases ih with h1 | h1 <;> rcases hg _ hmem with h2 | h2 <;> rw [h1, h2] <;> simp

/-- Every operation returned by S3 has a rotation part of determinant `±1` when the proposed rotations have. -/
theorem primOps_det {cell : CellQ} {s : Rat} {brav : Option (List M3)} {cands : List Cand} {ops : List Elem}
    (h : searchModel cell s brav cands = .ok ops) (Hd : ∀ cd ∈ cands, cd.rot.det.natAbs = 1) :
    ∀ e ∈ ops, e.rot.det = 1 ∨ e.rot.det = -1 := by
  obtain ⟨_, _, _, _, hb, _, _⟩ := searchModel_ok h
  intro e he
  have hmon := ((C02.bfs_closure _ _ _ _ hb).2.1 e.rot).mp (List.mem_map.mpr ⟨e, he, rfl⟩)
  refine det_of_inMonoid ?_ hmon
  intro g hg
  obtain ⟨x, hx, rfl⟩ := List.mem_map.mp hg
  obtain ⟨cd, hcd, _, rfl⟩ := mem_purify.mp hx
  have := Hd cd hcd
  simp only
  omega

theorem candDetOk_iff (H : Heur) : candDetOk H = true ↔ ∀ cd ∈ H.cands, cd.rot.det.natAbs = 1 := by
  simp [candDetOk, List.all_eq_true]

/-! ### the sharper lift through the sites -/

theorem permsLeftInv_iff (r : PrimRes) : permsLeftInv r = true ↔
    ∀ p ∈ r.perms, ∀ i, i < r.reduced.n → papply (pinv p) (papply p i) = i := by
  simp [permsLeftInv, List.all_eq_true]

section
variable {c : CellQ} {s : Rat} {cands : List TCand} {T1 T2 M : M3}

theorem clusterFacts_of_run (d1 : T1.det = 1) (d2 : T2.det = 1)
    (hok : ∀ cd ∈ cands, permOk (redOf c T1) cd.perm = true)
    (hne : (accOf c s cands T1).length ≠ 0) (hM : M.det = ((accOf c s cands T1).length : Int)) (tau omega : Rat)
    (Hp : permsInvertible (primResOf c s cands T1 T2 M) = true)
    (Hi : permsLeftInv (primResOf c s cands T1 T2 M) = true)
    (Hs : siteOrbitOk (primResOf c s cands T1 T2 M) = true)
    (He : transNearLattice (primResOf c s cands T1 T2 M) tau = true)
    (Hr : cosetsCovered (primResOf c s cands T1 T2 M) = true)
    (Hw : clusterOk (primResOf c s cands T1 T2 M) s cands omega = true) :
    ClusterFacts (settingOf c s tau (primResOf c s cands T1 T2 M)) omega := by
  have dM : M.det ≠ 0 := by rw [hM]; exact_mod_cast hne
  have F := facts_of_run d1 d2 hok hne hM tau Hp Hs He Hr
  refine ⟨F.hs, ?_, ?_, F.f5, F.f6⟩
  · -- G1
    intro k hk tp htp
    rw [trs_eq] at htp
    obtain ⟨q, hq, rfl⟩ := List.mem_map.mp htp
    have hk' : k < (repsOf (primResOf c s cands T1 T2 M)).length := by rw [← primRes_n]; exact hk
    obtain ⟨h1, h2, h3⟩ := cluster_fact d1 d2 dM hok Hp Hw hk' hq
    exact ⟨_, h1, h2, h3⟩
  · -- G2
    intro a ha
    have hred : (primResOf c s cands T1 T2 M).reduced.n = c.n := by rw [primRes_reduced, n_transformCellU]
    obtain ⟨h1, p, hp, hpa⟩ := (siteOrbitOk_iff _).mp Hs a (by rw [hred]; exact ha)
    have hleft := (permsLeftInv_iff _).mp Hi p hp a (by rw [hred]; exact ha)
    rw [primRes_perms] at hp
    obtain ⟨q, hq, rfl⟩ := List.mem_map.mp hp
    obtain ⟨_, g2, g3⟩ := cluster_fact d1 d2 dM hok Hp Hw h1 hq
    rw [← hpa, hleft] at g2 g3
    refine ⟨by show _ < (primResOf c s cands T1 T2 M).cell.n; rw [primRes_n]; exact h1, g2,
      ((primResOf c s cands T1 T2 M).linear.applyQ (T1.applyQ q.1), papply q.2), ?_, g3⟩
    rw [trs_eq]
    exact List.mem_map.mpr ⟨q, hq, rfl⟩

end

/-- **End-to-end lift through the sites** (see `C01.reported_maps_atoms_cluster_partial`). -/
theorem reported_maps_atoms_cluster {c : CellQ} {s : Rat} {H : Heur} {st : Stages}
    (hrun : runStages c s H = .ok st) {lam tau omega : Rat}
    (Hp : permsInvertible st.prim = true) (Hi : permsLeftInv st.prim = true) (Hs : siteOrbitOk st.prim = true)
    (Hc : distinctOk st s H = true) (He : transNearLattice st.prim tau = true)
    (Hr : cosetsCovered st.prim = true) (Hη : strainAll st lam = true)
    (Hw : clusterOk st.prim s H.tcands omega = true) :
    ∀ q ∈ st.ops, ∀ i, i < c.n →
      OnSite c ((q.rot.applyQ c.pos[i]!).add q.trans) c.num[i]!
        (radiusCluster s lam tau omega * radiusCluster s lam tau omega) := by
  intro q hq i hi
  obtain ⟨hS1, hS3, _⟩ := runStages_ok hrun
  obtain ⟨e, he, s', t1, ht1, _, hN, hs', htr⟩ := reported_mem hrun hq
  obtain ⟨prim, primOps, ops⟩ := st
  simp only at *
  obtain ⟨T1, T2, M, d1, d2, _, hok, hne, hM, rfl⟩ := primitiveModel_ok hS1
  have dM : M.det ≠ 0 := by rw [hM]; exact_mod_cast hne
  have F := clusterFacts_of_run d1 d2 hok hne hM tau omega Hp Hi Hs He Hr Hw
  have O := opFacts_of_run (c := c) (tau := tau) hS3 Hc he ((strainAll_iff _ _).mp Hη e he) hN
  rw [primRes_translations] at ht1
  obtain ⟨q0, hq0, rfl⟩ := List.mem_map.mp ht1
  have htj : ((primResOf c s H.tcands T1 T2 M).linear.applyQ (T1.applyQ q0.1), papply q0.2) ∈
      (settingOf c s tau (primResOf c s H.tcands T1 T2 M)).trs := by
    rw [trs_eq]; exact List.mem_map.mpr ⟨q0, hq0, rfl⟩
  obtain ⟨b, hb, hnum, m, hball⟩ := lift_cluster F O i hi _ htj
  obtain ⟨zt, hzt⟩ := truncFrac3_eq ((T1.applyQ q0.1).add s')
  refine ⟨b, hb, by rw [numBang, numBang]; exact hnum, zt.sub m, ?_⟩
  rw [posBang, posBang, htr, hzt]
  set L := (primResOf c s H.tcands T1 T2 M).linear with hL
  have hW : (⟨(((q.rot.applyQ (posAt c i)).add (((T1.applyQ q0.1).add s').sub (zq zt))).sub (posAt c b)).x + ((zt.sub m).x : Rat),
      (((q.rot.applyQ (posAt c i)).add (((T1.applyQ q0.1).add s').sub (zq zt))).sub (posAt c b)).y + ((zt.sub m).y : Rat),
      (((q.rot.applyQ (posAt c i)).add (((T1.applyQ q0.1).add s').sub (zq zt))).sub (posAt c b)).z + ((zt.sub m).z : Rat)⟩ : Q3) =
      ((((q.rot.applyQ (posAt c i)).add s').add (T1.applyQ q0.1)).sub (posAt c b)).sub (zq m) := by
    apply Q3.ext' <;> simp [Q3.add, Q3.sub, zq, Z3.sub] <;> ring
  rw [hW, ← lat_input (s := s) (cands := H.tcands) (T2 := T2) (M := M) d1 d2 dM, ← hL]
  have hLW : L.applyQ (((((q.rot.applyQ (posAt c i)).add s').add (T1.applyQ q0.1)).sub (posAt c b)).sub (zq m)) =
      ((((e.rot.applyQ (L.applyQ (posAt c i))).add e.trans).add (L.applyQ (T1.applyQ q0.1))).sub
        (L.applyQ (posAt c b))).sub (L.applyQ (zq m)) := by
    rw [applyQ_sub, applyQ_sub, M3.applyQ_add, M3.applyQ_add, ← applyQ_mul, hN, applyQ_mul, hs']
  rw [hLW]
  exact hball.2

end Moyo.Pipeline
