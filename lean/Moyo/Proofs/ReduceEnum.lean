import Moyo.Model.ReduceSpec
import Mathlib.Data.Rat.Floor
import Mathlib.Data.Nat.Sqrt
import Mathlib.Tactic.Ring
import Mathlib.Tactic.Linarith
import Mathlib.Tactic.FieldSimp
import Mathlib.Tactic.Positivity
import Mathlib.Algebra.Order.Field.Rat
/-
Completeness of the shortest-vector enumeration of the C14 oracle (`candidates` in
`Moyo/Model/ReduceSpec.lean`): every integer vector `n` with `nᵀGn ≤ r²` (and the `(y,z)` side condition)
is in the enumerated list.  Lagrange decomposition + integer interval lemmas.
-/
namespace Moyo.Reduce
open Moyo

theorem rangeSym_mem (z : ℤ) (n : ℕ) (h : z.natAbs ≤ n) : z ∈ rangeSym n := by
  unfold rangeSym
  rw [List.mem_map]
  refine ⟨(z + n).toNat, ?_, ?_⟩
  · rw [List.mem_range]; omega
  · simp only [Int.ofNat_eq_natCast]; omega

theorem isqrtFloor_bound (z : ℤ) (x : ℚ) (h : (z : ℚ) ^ 2 ≤ x) : z.natAbs ≤ isqrtFloor x := by
  have hx : 0 ≤ x := le_trans (sq_nonneg _) h
  unfold isqrtFloor
  rw [if_neg (not_lt.2 hx), Nat.le_sqrt']
  have h1 : (z ^ 2 : ℤ) ≤ x.floor := by
    rw [Rat.le_floor_iff]; push_cast; exact h
  have h3 : ((z.natAbs ^ 2 : ℕ) : ℤ) ≤ x.floor := by push_cast; rw [sq_abs]; exact h1
  omega

theorem lt_isqrtUp_sq (w : ℚ) (hw : 0 ≤ w) : w < ((isqrtUp w : ℕ) : ℚ) ^ 2 := by
  unfold isqrtUp
  rw [if_neg (not_lt.2 hw)]
  have h0 : (0 : ℤ) ≤ w.ceil := by
    by_contra hneg
    rw [not_le] at hneg
    have : (w.ceil : ℚ) < 0 := by exact_mod_cast hneg
    linarith [(Rat.le_ceil : w ≤ (w.ceil : ℚ))]
  have h1 : w ≤ ((w.ceil.toNat : ℕ) : ℚ) := by
    have e : ((w.ceil.toNat : ℕ) : ℤ) = w.ceil := Int.toNat_of_nonneg h0
    have : ((w.ceil.toNat : ℕ) : ℚ) = (w.ceil : ℚ) := by exact_mod_cast e
    rw [this]; exact Rat.le_ceil
  have h2 : ((w.ceil.toNat : ℕ) : ℚ) < ((Nat.sqrt w.ceil.toNat + 1 : ℕ) : ℚ) ^ 2 := by
    exact_mod_cast Nat.lt_succ_sqrt' w.ceil.toNat
  exact lt_of_le_of_lt h1 h2

theorem intsNear_mem (t : ℤ) (c w : ℚ) (h : ((t : ℚ) - c) ^ 2 ≤ w) : t ∈ intsNear c w := by
  have hw : 0 ≤ w := le_trans (sq_nonneg _) h
  have hs := lt_isqrtUp_sq w hw
  have hs0 : (0 : ℚ) ≤ ((isqrtUp w : ℕ) : ℚ) := Nat.cast_nonneg _
  have hlt : ((t : ℚ) - c) ^ 2 < ((isqrtUp w : ℕ) : ℚ) ^ 2 := lt_of_le_of_lt h hs
  have habs := abs_lt_of_sq_lt_sq hlt hs0
  rw [abs_lt] at habs
  unfold intsNear
  rw [if_neg (not_lt.2 hw)]
  have hlo : (c - ((isqrtUp w : ℕ) : ℚ)).ceil ≤ t := by rw [Rat.ceil_le_iff]; linarith [habs.1]
  have hhi : t ≤ (c + ((isqrtUp w : ℕ) : ℚ)).floor := by rw [Rat.le_floor_iff]; linarith [habs.2]
  simp only
  rw [if_neg (by omega)]
  rw [List.mem_map]
  refine ⟨(t - (c - ((isqrtUp w : ℕ) : ℚ)).ceil).toNat, ?_, ?_⟩
  · rw [List.mem_range]; omega
  · simp only [Int.ofNat_eq_natCast]; omega

/-- Lagrange decomposition of a symmetric ternary form. -/
theorem lagrange3 (G : QM3) (hd : G.d = G.b) (hg : G.g = G.c) (hh : G.h = G.f)
    (h1 : G.a ≠ 0) (h2 : G.a * G.e - G.b * G.b ≠ 0) (n : Z3) :
    qform G n =
      (Lagrange.ofGram G).g11 *
          ((n.x : ℚ) + ((Lagrange.ofGram G).g12 * n.y + (Lagrange.ofGram G).g13 * n.z) / (Lagrange.ofGram G).g11) ^ 2 +
        (Lagrange.ofGram G).m / (Lagrange.ofGram G).g11 *
          ((n.y : ℚ) + (Lagrange.ofGram G).h / (Lagrange.ofGram G).m * n.z) ^ 2 +
        (Lagrange.ofGram G).dt / (Lagrange.ofGram G).m * (n.z : ℚ) ^ 2 := by
  have h2' : G.a * G.e - G.b ^ 2 ≠ 0 := by rw [sq]; exact h2
  simp only [qform, Q3.dot, QM3.apply, Lagrange.ofGram, QM3.det, hd, hg, hh]
  field_simp
  ring

/-- Completeness of the enumeration: for a symmetric positive definite `G` (leading minors positive),
every integer vector with `Q(n) ≤ r2` whose `(y, z)` passes the filter is enumerated. -/
theorem candidates_complete_aux (G : QM3) (hd : G.d = G.b) (hg : G.g = G.c) (hh : G.h = G.f)
    (h1 : 0 < G.a) (h2 : 0 < G.a * G.e - G.b * G.b) (h3 : 0 < G.det) (r2 : ℚ) (okyz : ℤ → ℤ → Bool)
    (n : Z3) (hQ : qform G n ≤ r2) (hok : okyz n.y n.z = true) :
    n ∈ candidates G r2 okyz := by
  have L := lagrange3 G hd hg hh (ne_of_gt h1) (ne_of_gt h2) n
  set Lg := Lagrange.ofGram G with hLg
  have g11 : Lg.g11 = G.a := rfl
  have hm : Lg.m = G.a * G.e - G.b * G.b := rfl
  have hdt : Lg.dt = G.det := rfl
  have p1 : 0 < Lg.g11 := by rw [g11]; exact h1
  have p2 : 0 < Lg.m := by rw [hm]; exact h2
  have p3 : 0 < Lg.dt := by rw [hdt]; exact h3
  set X : ℚ := (n.x : ℚ) + (Lg.g12 * n.y + Lg.g13 * n.z) / Lg.g11 with hX
  set Y : ℚ := (n.y : ℚ) + Lg.h / Lg.m * n.z with hY
  have t1 : 0 ≤ Lg.g11 * X ^ 2 := by positivity
  have t2 : 0 ≤ Lg.m / Lg.g11 * Y ^ 2 := by positivity
  have t3 : 0 ≤ Lg.dt / Lg.m * (n.z : ℚ) ^ 2 := by positivity
  rw [L] at hQ
  -- z
  have hz : n.z ∈ rangeSym (zBound Lg r2) := by
    apply rangeSym_mem
    apply isqrtFloor_bound
    have : Lg.dt / Lg.m * (n.z : ℚ) ^ 2 ≤ r2 := by linarith
    rw [le_div_iff₀ p3]
    have e : Lg.dt / Lg.m * (n.z : ℚ) ^ 2 * Lg.m = (n.z : ℚ) ^ 2 * Lg.dt := by field_simp
    nlinarith [mul_le_mul_of_nonneg_right this (le_of_lt p2)]
  -- y
  have hy : n.y ∈ yRange Lg r2 n.z := by
    unfold yRange
    apply intsNear_mem
    have e : (n.y : ℚ) - -(Lg.h / Lg.m) * n.z = Y := by rw [hY]; ring
    rw [e]
    have : Lg.m / Lg.g11 * Y ^ 2 ≤ r2 - Lg.dt / Lg.m * (n.z : ℚ) ^ 2 := by linarith
    have e2 : (r2 - Lg.dt / Lg.m * n.z * n.z) * Lg.g11 / Lg.m =
        (r2 - Lg.dt / Lg.m * (n.z : ℚ) ^ 2) * (Lg.g11 / Lg.m) := by ring
    rw [e2]
    have e3 : Y ^ 2 = (Lg.m / Lg.g11 * Y ^ 2) * (Lg.g11 / Lg.m) := by field_simp
    rw [e3]
    exact mul_le_mul_of_nonneg_right this (by positivity)
  -- x
  have hx : n.x ∈ xRange Lg r2 n.y n.z := by
    unfold xRange
    apply intsNear_mem
    have e : (n.x : ℚ) - -(Lg.g12 * n.y + Lg.g13 * n.z) / Lg.g11 = X := by rw [hX]; ring
    rw [e]
    have : Lg.g11 * X ^ 2 ≤ r2 - Lg.dt / Lg.m * (n.z : ℚ) ^ 2 - Lg.m / Lg.g11 * Y ^ 2 := by linarith
    have e2 : (r2 - Lg.dt / Lg.m * n.z * n.z - Lg.m / Lg.g11 * ((n.y : ℚ) + Lg.h / Lg.m * n.z) * ((n.y : ℚ) + Lg.h / Lg.m * n.z)) / Lg.g11 =
        (r2 - Lg.dt / Lg.m * (n.z : ℚ) ^ 2 - Lg.m / Lg.g11 * Y ^ 2) / Lg.g11 := by rw [hY]; ring
    rw [e2, le_div_iff₀ p1]
    linarith
  unfold candidates
  simp only [List.mem_flatMap]
  refine ⟨n.z, hz, n.y, hy, ?_⟩
  rw [if_pos hok, List.mem_map]
  exact ⟨n.x, hx, rfl⟩

/-- The fold of `boxMin` returns a value not larger than `Q` at any admissible candidate. -/
theorem boxMin_le_aux (G : QM3) (ok : Z3 → Bool) (l : List Z3) (acc : Option (Z3 × ℚ)) :
    (∀ a m, acc = some (a, m) → ∃ a' m', boxMin.go G ok l acc = some (a', m') ∧ m' ≤ m) ∧
    (∀ n ∈ l, ok n = true → ∃ a' m', boxMin.go G ok l acc = some (a', m') ∧ m' ≤ qform G n) := by
  induction l generalizing acc with
  | nil =>
    refine ⟨fun a m h => ⟨a, m, by simpa [boxMin.go] using h, le_refl _⟩, fun n hn => by simp at hn⟩
  | cons x xs ih =>
    simp only [boxMin.go, List.foldl_cons]
    constructor
    · intro a m hacc
      subst hacc
      by_cases hx : ok x = true
      · simp only [hx, if_true]
        by_cases hq : qform G x < m
        · simp only [hq, if_true]
          obtain ⟨a', m', h1, h2⟩ := (ih (some (x, qform G x))).1 x (qform G x) rfl
          exact ⟨a', m', h1, le_trans h2 (le_of_lt hq)⟩
        · simp only [hq, if_false]
          exact (ih (some (a, m))).1 a m rfl
      · simp only [hx]
        exact (ih (some (a, m))).1 a m rfl
    · intro n hn hokn
      rcases List.mem_cons.1 hn with rfl | hmem
      · simp only [hokn, if_true]
        cases acc with
        | none => exact (ih (some (n, qform G n))).1 n (qform G n) rfl
        | some am =>
          obtain ⟨a, m⟩ := am
          by_cases hq : qform G n < m
          · simp only [hq, if_true]
            exact (ih (some (n, qform G n))).1 n (qform G n) rfl
          · simp only [hq, if_false]
            obtain ⟨a', m', h1, h2⟩ := (ih (some (a, m))).1 a m rfl
            exact ⟨a', m', h1, le_trans h2 (not_lt.1 hq)⟩
      · exact (ih _).2 n hmem hokn

theorem okYZ_of_okVec (k : ℕ) (n : Z3) (h : okVec k n = true) : okYZ k n.y n.z = true := by
  unfold okVec at h
  unfold okYZ
  split <;> simp_all

/-- Positivity of the leading minors of the Gram matrix of a non-singular basis. -/
theorem gram_minors (B : QM3) (hB : B.det ≠ 0) :
    (gram B).d = (gram B).b ∧ (gram B).g = (gram B).c ∧ (gram B).h = (gram B).f ∧
    0 < (gram B).a ∧ 0 < (gram B).a * (gram B).e - (gram B).b * (gram B).b ∧ 0 < (gram B).det := by
  have hdet : (gram B).det = B.det ^ 2 := by
    simp only [gram, QM3.mul, QM3.transpose, QM3.det]; ring
  have hm : (gram B).a * (gram B).e - (gram B).b * (gram B).b =
      (B.d * B.h - B.g * B.e) ^ 2 + (B.g * B.b - B.a * B.h) ^ 2 + (B.a * B.e - B.d * B.b) ^ 2 := by
    simp only [gram, QM3.mul, QM3.transpose]; ring
  have hd3 : B.det = B.c * (B.d * B.h - B.g * B.e) + B.f * (B.g * B.b - B.a * B.h) + B.i * (B.a * B.e - B.d * B.b) := by
    simp only [QM3.det]; ring
  have ha : (gram B).a = B.a ^ 2 + B.d ^ 2 + B.g ^ 2 := by
    simp only [gram, QM3.mul, QM3.transpose]; ring
  refine ⟨?_, ?_, ?_, ?_, ?_, ?_⟩
  · simp only [gram, QM3.mul, QM3.transpose]; ring
  · simp only [gram, QM3.mul, QM3.transpose]; ring
  · simp only [gram, QM3.mul, QM3.transpose]; ring
  · rw [ha]
    by_contra hne
    have h0 : B.a ^ 2 + B.d ^ 2 + B.g ^ 2 = 0 := le_antisymm (not_lt.1 hne) (by positivity)
    have e1 : B.a = 0 := by nlinarith [sq_nonneg B.a, sq_nonneg B.d, sq_nonneg B.g]
    have e2 : B.d = 0 := by nlinarith [sq_nonneg B.a, sq_nonneg B.d, sq_nonneg B.g]
    have e3 : B.g = 0 := by nlinarith [sq_nonneg B.a, sq_nonneg B.d, sq_nonneg B.g]
    apply hB
    rw [hd3, e1, e2, e3]; ring
  · rw [hm]
    by_contra hne
    have h0 : (B.d * B.h - B.g * B.e) ^ 2 + (B.g * B.b - B.a * B.h) ^ 2 + (B.a * B.e - B.d * B.b) ^ 2 = 0 :=
      le_antisymm (not_lt.1 hne) (by positivity)
    have e1 : B.d * B.h - B.g * B.e = 0 := by
      nlinarith [sq_nonneg (B.d * B.h - B.g * B.e), sq_nonneg (B.g * B.b - B.a * B.h), sq_nonneg (B.a * B.e - B.d * B.b)]
    have e2 : B.g * B.b - B.a * B.h = 0 := by
      nlinarith [sq_nonneg (B.d * B.h - B.g * B.e), sq_nonneg (B.g * B.b - B.a * B.h), sq_nonneg (B.a * B.e - B.d * B.b)]
    have e3 : B.a * B.e - B.d * B.b = 0 := by
      nlinarith [sq_nonneg (B.d * B.h - B.g * B.e), sq_nonneg (B.g * B.b - B.a * B.h), sq_nonneg (B.a * B.e - B.d * B.b)]
    apply hB
    rw [hd3, e1, e2, e3]; ring
  · rw [hdet]; positivity

theorem sqrtLoHi_hi_nonneg (p : ℚ) : 0 ≤ (sqrtLoHi p).2 := by
  unfold sqrtLoHi
  split
  · simp
  · simp only
    positivity

theorem qform_gram (B : QM3) (n : Z3) : qform (gram B) n = (comb B n).normSq := by
  simp only [qform, gram, comb, QM3.mul, QM3.transpose, QM3.apply, Q3.normSq, Q3.dot]
  ring

/-- A `none` answer of `minimumViolation` is sound: no admissible integer vector is shorter than the bound. -/
theorem minimumViolation_none (B : QM3) (hB : B.det ≠ 0) (k : ℕ) (τ : ℚ) (hτ : 0 ≤ τ)
    (h : minimumViolation (gram B) k τ = none) (n : Z3) (hn : okVec k n = true) :
    sqMinusTol (radiusSq (gram B) k) τ ≤ qform (gram B) n := by
  by_contra hlt
  rw [not_le] at hlt
  obtain ⟨s1, s2, s3, p1, p2, p3⟩ := gram_minors B hB
  have hb : sqMinusTol (radiusSq (gram B) k) τ ≤ radiusSq (gram B) k := by
    unfold sqMinusTol
    have := sqrtLoHi_hi_nonneg (radiusSq (gram B) k)
    nlinarith [mul_nonneg hτ this]
  have hmem := candidates_complete_aux (gram B) s1 s2 s3 p1 p2 p3 (radiusSq (gram B) k) (okYZ k) n
    (le_trans (le_of_lt hlt) hb) (okYZ_of_okVec k n hn)
  obtain ⟨a', m', hres, hle⟩ := (boxMin_le_aux (gram B) (okVec k) _ none).2 n hmem hn
  unfold minimumViolation at h
  simp only [boxMin, hres] at h
  rw [if_pos (lt_of_le_of_lt hle hlt)] at h
  exact absurd h (by simp)

/-- The square-root enclosure is certified: `lo² ≤ q < hi²` (and `0 ≤ lo < hi`, `hi - lo ≤ 1e-30`). -/
theorem sqrtLoHi_sound (q : ℚ) (hq : 0 < q) :
    0 ≤ (sqrtLoHi q).1 ∧ (sqrtLoHi q).1 ^ 2 ≤ q ∧ q < (sqrtLoHi q).2 ^ 2 ∧
    (sqrtLoHi q).2 - (sqrtLoHi q).1 ≤ 1 / 10 ^ 30 := by
  unfold sqrtLoHi
  rw [if_neg (not_le.2 hq)]
  simp only
  have hnum : 0 < q.num := Rat.num_pos.2 hq
  have hden : (0 : ℚ) < (q.den : ℚ) := by exact_mod_cast q.den_pos
  have hk : ((K30 : ℕ) : ℚ) = 10 ^ 30 := by unfold K30; norm_num
  have hK : (0 : ℚ) < ((K30 : ℕ) : ℚ) := by rw [hk]; positivity
  set N : ℕ := q.num.toNat * q.den * K30 * K30 with hN
  have hqd : ((q.num.toNat : ℕ) : ℚ) = q * (q.den : ℚ) := by
    have h1 : ((q.num.toNat : ℕ) : ℤ) = q.num := Int.toNat_of_nonneg (le_of_lt hnum)
    have h2 : ((q.num.toNat : ℕ) : ℚ) = (q.num : ℚ) := by exact_mod_cast h1
    rw [h2]; exact (Rat.mul_den_eq_num q).symm
  have hden' : (((q.den * K30 : ℕ)) : ℚ) = (q.den : ℚ) * (K30 : ℚ) := by push_cast; ring
  have hNq : (N : ℚ) = q * ((q.den : ℚ) * (K30 : ℚ)) ^ 2 := by
    rw [hN]; push_cast
    rw [hqd]; ring
  have hlo : ((Nat.sqrt N : ℕ) : ℚ) ^ 2 ≤ (N : ℚ) := by exact_mod_cast Nat.sqrt_le' N
  have hhi : (N : ℚ) < ((Nat.sqrt N + 1 : ℕ) : ℚ) ^ 2 := by exact_mod_cast Nat.lt_succ_sqrt' N
  have hD : (0 : ℚ) < (q.den : ℚ) * (K30 : ℚ) := by positivity
  rw [hden']
  refine ⟨div_nonneg (Nat.cast_nonneg _) (le_of_lt hD), ?_, ?_, ?_⟩
  · rw [div_pow, div_le_iff₀ (pow_pos hD 2)]
    rw [← hNq]; exact hlo
  · rw [div_pow, lt_div_iff₀ (pow_pos hD 2)]
    rw [← hNq]; exact hhi
  · rw [← sub_div, div_le_div_iff₀ hD (by norm_num)]
    push_cast
    have : (1 : ℚ) ≤ (q.den : ℚ) := by exact_mod_cast q.den_pos
    rw [hk]
    nlinarith

end Moyo.Reduce
