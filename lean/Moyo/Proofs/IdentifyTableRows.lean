import Moyo.Proofs.IdentifyTableDefs
/-
Kernel-decided rows of the S5 table theorem (separate module: builds in parallel with the rotation tables).
-/
set_option maxRecDepth 100000
namespace Moyo.S5
open Moyo Moyo.Generated

/-- Kernel-decided rows.  The kernel evaluates the model lazily and without sharing: one Smith normal
form of an 18×9 Sylvester system costs about 10 s and several GB, so only the triclinic and primitive
monoclinic P2 / P2₁ rows (Hall numbers 1–8, all three unique-axis settings) are decided here; all 530
rows × 3 setting kinds are covered on every run by the exhaustive model–implementation
correspondence (`s5-table`, compiled model). -/
theorem tableRows_1_8 : ((List.range 8).all fun k => tableRow (k + 1)) = true := by decide +kernel

end Moyo.S5
