import Moyo.Proofs.SearchBfs
import Moyo.Proofs.Periodic
/-
Acceptance test, `check_closure`, pivot enumeration: lemmas for Props/C02Stages.lean and C09Stages.lean.
-/
namespace Moyo.Search
open Moyo Moyo.Spec

/-! ### max / accept -/

theorem maxR_lt_iff (x y b : Rat) : maxR x y < b ↔ x < b ∧ y < b := by
  unfold maxR
  split
  · constructor
    · intro h; exact ⟨by linarith, h⟩
    · intro h; exact h.2
  · constructor
    · intro h; exact ⟨h, by linarith⟩
    · intro h; exact h.1

theorem foldl_maxR_lt_iff (f : Nat → Rat) (b : Rat) (l : List Nat) (m0 : Rat) :
    l.foldl (fun m i => maxR m (f i)) m0 < b ↔ m0 < b ∧ ∀ i ∈ l, f i < b := by
  induction l generalizing m0 with
  | nil => simp
  | cons a l ih =>
    simp only [List.foldl_cons, ih, maxR_lt_iff, List.mem_cons, forall_eq_or_imp]
    tauto

theorem accept_iff (c : CellQ) (s : Rat) (p : Perm) (R : M3) (t : Q3) :
    accept c s p R t = true ↔ 0 < s ∧ ∀ i, i < c.n → dist2 c p R t i < s * s := by
  simp only [accept, maxDist2, Bool.and_eq_true, decide_eq_true_eq, foldl_maxR_lt_iff, List.mem_range]
  constructor
  · rintro ⟨h1, _, h3⟩; exact ⟨h1, h3⟩
  · rintro ⟨h1, h3⟩; exact ⟨h1, by positivity, h3⟩

theorem mem_purify {c : CellQ} {s : Rat} {cands : List Cand} {g : Elem} :
    g ∈ purify c s cands ↔ ∃ cd ∈ cands,
      accept c s cd.perm cd.rot (symTranslation c cd.perm cd.rot cd.rough) = true ∧
      g = ⟨cd.rot, symTranslation c cd.perm cd.rot cd.rough, cd.perm, 1⟩ := by
  simp only [purify, List.mem_filterMap]
  constructor
  · rintro ⟨cd, hcd, h⟩
    split at h
    · rename_i hacc
      exact ⟨cd, hcd, hacc, by simpa using h.symm⟩
    · simp at h
  · rintro ⟨cd, hcd, hacc, rfl⟩
    exact ⟨cd, hcd, by simp [hacc]⟩

theorem permOk_iff (c : CellQ) (p : Perm) :
    permOk c p = true ↔ p.length = c.n ∧ ∀ i, i < c.n → papply p i < c.n ∧ numAt c (papply p i) = numAt c i := by
  simp [permOk, List.all_eq_true]

/-! ### vectors -/

theorem Q3.ext' {u v : Q3} (hx : u.x = v.x) (hy : u.y = v.y) (hz : u.z = v.z) : u = v := by
  cases u; cases v; simp_all

/-- integer vector as a rational one -/
def zq (k : Z3) : Q3 := ⟨(k.x : Rat), (k.y : Rat), (k.z : Rat)⟩

/-- `v.roundV` is an integer vector -/
def roundZ (v : Q3) : Z3 := ⟨ratRound v.x, ratRound v.y, ratRound v.z⟩

theorem roundV_eq (v : Q3) : Q3.roundV v = zq (roundZ v) := rfl

theorem one_applyQ (v : Q3) : M3.one.applyQ v = v := by
  cases v; simp [M3.one, M3.applyQ]

theorem papply_pid {n i : Nat} (h : i < n) : papply (pid n) i = i := by
  simp [papply, pid, List.getD, h]

theorem papply_pmul_pid {n : Nat} (p : Perm) {i : Nat} (hi : i < n) (hp : papply p i < n) :
    papply (pmul (pid n) p) i = papply p i := by
  simp only [pmul, pid, List.length_range]
  unfold papply
  rw [List.getD_eq_getElem?_getD, List.getElem?_map, List.getElem?_range hi]
  simp only [Option.map_some, Option.getD_some]
  have hp' : List.getD p i 0 < n := hp
  rw [List.getD_eq_getElem?_getD, List.getElem?_range hp']
  simp

/-! ### `check_closure` -/

theorem closureGo_true_iff (ops : List Elem) (A : QM3) (r2 : Rat) (pairs : List (Elem × Elem)) :
    closureGo ops A r2 pairs = some true ↔
      ∀ ab ∈ pairs, ∃ t, lastTrans ops (ab.1.rot.mul ab.2.rot) = some t ∧
        (A.apply (closureDiff t ab.1 ab.2)).normSq ≤ r2 := by
  induction pairs with
  | nil => simp [closureGo]
  | cons ab rest ih =>
    obtain ⟨a, b⟩ := ab
    simp only [closureGo, List.mem_cons, forall_eq_or_imp]
    cases hl : lastTrans ops (a.rot.mul b.rot) with
    | none => simp
    | some t =>
      simp only [Option.some.injEq, exists_eq_left']
      split
      · rename_i hgt
        constructor
        · intro h; simp at h
        · rintro ⟨h1, _⟩; exact absurd h1 (not_le.mpr hgt)
      · rename_i hgt
        rw [ih]
        constructor
        · intro h; exact ⟨not_lt.mp hgt, h⟩
        · intro h; exact h.2

theorem mem_allPairs {ops : List Elem} {a b : Elem} : (a, b) ∈ allPairs ops ↔ a ∈ ops ∧ b ∈ ops := by
  simp [allPairs, List.mem_flatMap]

/-! ### `searchModel` -/

theorem searchModel_ok {c : CellQ} {s : Rat} {brav : Option (List M3)} {cands : List Cand} {ops : List Elem}
    (h : searchModel c s brav cands = .ok ops) :
    guardTooLarge (c.lat.col 0).normSq s = false ∧ c.n ≠ 0 ∧
    (∀ cd ∈ cands, permOk c cd.perm = true) ∧ purify c s cands ≠ [] ∧
    bfs (purify c s cands) (bfsFuel (purify c s cands)) [Elem.one c.n] [] = some ops ∧
    ops.length = (purify c s cands).length ∧ checkClosure ops c.lat (4 * s * s) = some true := by
  unfold searchModel at h
  split at h
  · cases h
  · rename_i hg
    split at h
    · cases h
    · split at h
      · cases h
      · rename_i hn
        split at h
        · cases h
        · rename_i hperm
          simp only at h
          split at h
          · cases h
          · rename_i hacc
            split at h
            · cases h
            · rename_i ops' hb
              split at h
              · cases h
              · rename_i hlen
                split at h
                · cases h
                · cases h
                · rename_i hcl
                  cases h
                  refine ⟨by simpa using hg, hn, ?_, ?_, hb, by simpa using hlen, hcl⟩
                  · simpa [List.all_eq_true] using hperm
                  · simpa [List.isEmpty_iff] using hacc

/-- displacement of atom `i` under `e`, relative to the atom the permutation of `e` sends it to -/
def disp (c : CellQ) (e : Elem) (i : Nat) : Q3 :=
  ((e.rot.applyQ (posAt c i)).add e.trans).sub (posAt c (papply e.perm i))

/-- some lattice translate of `d` is strictly shorter than `√r2` -/
def PeriodicLt (A : QM3) (d : Q3) (r2 : Rat) : Prop :=
  ∃ k : Z3, (A.apply ⟨d.x + k.x, d.y + k.y, d.z + k.z⟩).normSq < r2

theorem residual_eq (c : CellQ) (p : Perm) (R : M3) (t : Q3) (i : Nat) :
    residual c p R t i =
      let d := ((R.applyQ (posAt c i)).add t).sub (posAt c (papply p i))
      ⟨d.x - (ratRound d.x : Rat), d.y - (ratRound d.y : Rat), d.z - (ratRound d.z : Rat)⟩ := rfl

/-- An accepted candidate, multiplied onto the identity by the loop, moves every atom within `symprec`. -/
theorem step_one_sound {c : CellQ} {s : Rat} {R : M3} {p : Perm} {t : Q3} (hok : permOk c p = true)
    (hacc : accept c s p R t = true) {i : Nat} (hi : i < c.n) :
    papply ((Elem.one c.n).step ⟨R, t, p, 1⟩).perm i < c.n ∧
    numAt c (papply ((Elem.one c.n).step ⟨R, t, p, 1⟩).perm i) = numAt c i ∧
    PeriodicLt c.lat (disp c ((Elem.one c.n).step ⟨R, t, p, 1⟩) i) (s * s) := by
  obtain ⟨_, hp⟩ := (permOk_iff c p).mp hok
  obtain ⟨hpi, hnum⟩ := hp i hi
  have hperm : papply ((Elem.one c.n).step ⟨R, t, p, 1⟩).perm i = papply p i := papply_pmul_pid p hi hpi
  have hd := ((accept_iff c s _ _ _).mp hacc).2 i hi
  refine ⟨hperm ▸ hpi, hperm ▸ hnum, ?_⟩
  -- the two displacements differ by an integer vector
  let d := ((R.applyQ (posAt c i)).add t).sub (posAt c (papply p i))
  refine ⟨⟨ratRound t.x - ratRound d.x, ratRound t.y - ratRound d.y, ratRound t.z - ratRound d.z⟩, ?_⟩
  have hu : mulTrans (Elem.one c.n) ⟨R, t, p, 1⟩ = t := by
    simp only [mulTrans, Elem.one, one_applyQ]
    cases t; simp [Q3.add, Q3.zero]
  have hrot : ((Elem.one c.n).step ⟨R, t, p, 1⟩).rot = R := by simp [Elem.one, M3.one_mul']
  have htr : ((Elem.one c.n).step ⟨R, t, p, 1⟩).trans = t.sub (Q3.roundV t) := by
    simp only [Elem.step, hu]
  simp only [dist2, residual_eq] at hd
  convert hd using 3
  simp only [disp, hrot, htr, hperm]
  apply Q3.ext' <;> simp [Q3.add, Q3.sub, Q3.roundV, d] <;> ring

/-- The identity operation moves nothing. -/
theorem one_sound {c : CellQ} {s : Rat} (hs : 0 < s) {i : Nat} (hi : i < c.n) :
    papply (Elem.one c.n).perm i < c.n ∧ numAt c (papply (Elem.one c.n).perm i) = numAt c i ∧
      PeriodicLt c.lat (disp c (Elem.one c.n) i) (s * s) := by
  have hp : papply (pid c.n) i = i := papply_pid hi
  have hp' : papply (Elem.one c.n).perm i = i := hp
  refine ⟨by rw [hp']; exact hi, by rw [hp'], ⟨⟨0, 0, 0⟩, ?_⟩⟩
  have : disp c (Elem.one c.n) i = ⟨0, 0, 0⟩ := by
    simp only [disp, Elem.one, one_applyQ, hp]
    apply Q3.ext' <;> simp [Q3.add, Q3.sub, Q3.zero]
  rw [this]
  simp only [QM3.apply, Q3.normSq, Q3.dot]
  have : 0 < s * s := by positivity
  simpa using this

/-! ### pivot enumeration -/

theorem pivot_all_species {c : CellQ} {src : Nat} {rest : List Nat} (hp : pivotSiteIndices c = src :: rest) :
    src < c.n ∧ ∀ j, j < c.n → numAt c j = numAt c src → j ∈ pivotSiteIndices c := by
  unfold pivotSiteIndices at hp ⊢
  split at hp
  · cases hp
  · rename_i sp _
    have hs : src ∈ (List.range c.n).filter fun i => numAt c i == sp := by rw [hp]; simp
    simp only [List.mem_filter, List.mem_range, beq_iff_eq] at hs
    refine ⟨hs.1, fun j hj hnum => ?_⟩
    simp only [List.mem_filter, List.mem_range, beq_iff_eq]
    exact ⟨hj, hnum.trans hs.2⟩

theorem normSq_sub_le (a b : Q3) (m : Rat) (ha : a.normSq ≤ m) (hb : b.normSq ≤ m) :
    (a.sub b).normSq ≤ 4 * m := by
  obtain ⟨a1, a2, a3⟩ := a
  obtain ⟨b1, b2, b3⟩ := b
  simp only [Q3.normSq, Q3.dot, Q3.sub] at *
  have hcs := Moyo.Periodic.cs3 a1 a2 a3 b1 b2 b3
  have hna : 0 ≤ a1 * a1 + a2 * a2 + a3 * a3 := by nlinarith [mul_self_nonneg a1, mul_self_nonneg a2, mul_self_nonneg a3]
  have hnb : 0 ≤ b1 * b1 + b2 * b2 + b3 * b3 := by nlinarith [mul_self_nonneg b1, mul_self_nonneg b2, mul_self_nonneg b3]
  have hm : 0 ≤ m := le_trans hna ha
  have hmm : (a1 * a1 + a2 * a2 + a3 * a3) * (b1 * b1 + b2 * b2 + b3 * b3) ≤ m * m := mul_le_mul ha hb hnb hm
  have hp : -(a1 * b1 + a2 * b2 + a3 * b3) ≤ m := by
    by_contra hcon
    have hcon' : m < -(a1 * b1 + a2 * b2 + a3 * b3) := not_le.mp hcon
    nlinarith
  nlinarith

theorem apply_sub (A : QM3) (u v : Q3) : A.apply (u.sub v) = (A.apply u).sub (A.apply v) := by
  apply Q3.ext' <;> simp [QM3.apply, Q3.sub] <;> ring

theorem apply_neg_normSq (A : QM3) (u : Q3) : (A.apply ⟨-u.x, -u.y, -u.z⟩).normSq = (A.apply u).normSq := by
  simp only [QM3.apply, Q3.normSq, Q3.dot]; ring

/-- If `(R, t)` maps every atom to within `√s2` of an atom of the same species (periodically), then some
destination `dst` of the pivot species gives a rough translation `x_dst - R x_src` which is within `√s2` of `t`
modulo the lattice, and with that rough translation every atom still lands within `2√s2` of its partner. -/
theorem pivot_complete {c : CellQ} {R : M3} {t : Q3} {s2 : Rat} {src : Nat} {rest : List Nat}
    (hp : pivotSiteIndices c = src :: rest)
    (hsym : ∀ i, i < c.n → ∃ j, j < c.n ∧ numAt c j = numAt c i ∧
      PeriodicWithin c.lat (((R.applyQ (posAt c i)).add t).sub (posAt c j)) s2) :
    ∃ dst ∈ pivotSiteIndices c,
      PeriodicWithin c.lat ((roughTranslation c R src dst).sub t) s2 ∧
      ∀ i, i < c.n → ∃ j, j < c.n ∧ numAt c j = numAt c i ∧
        PeriodicWithin c.lat
          (((R.applyQ (posAt c i)).add (roughTranslation c R src dst)).sub (posAt c j)) (4 * s2) := by
  obtain ⟨hsrc, hall⟩ := pivot_all_species hp
  obtain ⟨dst, hdst, hnum, n1, h1⟩ := hsym src hsrc
  -- `v` = displacement of the pivot atom (with its lattice translate)
  set v : Q3 := ⟨(((R.applyQ (posAt c src)).add t).sub (posAt c dst)).x + n1.x,
                 (((R.applyQ (posAt c src)).add t).sub (posAt c dst)).y + n1.y,
                 (((R.applyQ (posAt c src)).add t).sub (posAt c dst)).z + n1.z⟩ with hv
  refine ⟨dst, hall dst hdst hnum, ⟨⟨-n1.x, -n1.y, -n1.z⟩, ?_⟩, ?_⟩
  · have : (⟨((roughTranslation c R src dst).sub t).x + ((-n1.x : Int) : Rat),
             ((roughTranslation c R src dst).sub t).y + ((-n1.y : Int) : Rat),
             ((roughTranslation c R src dst).sub t).z + ((-n1.z : Int) : Rat)⟩ : Q3) = ⟨-v.x, -v.y, -v.z⟩ := by
      apply Q3.ext' <;> simp [hv, roughTranslation, Q3.add, Q3.sub] <;> ring
    rw [this, apply_neg_normSq]
    exact h1
  · intro i hi
    obtain ⟨j, hj, hnj, n2, h2⟩ := hsym i hi
    refine ⟨j, hj, hnj, ⟨n2.x - n1.x, n2.y - n1.y, n2.z - n1.z⟩, ?_⟩
    set u : Q3 := ⟨(((R.applyQ (posAt c i)).add t).sub (posAt c j)).x + n2.x,
                   (((R.applyQ (posAt c i)).add t).sub (posAt c j)).y + n2.y,
                   (((R.applyQ (posAt c i)).add t).sub (posAt c j)).z + n2.z⟩ with hu
    have : (⟨(((R.applyQ (posAt c i)).add (roughTranslation c R src dst)).sub (posAt c j)).x + ((n2.x - n1.x : Int) : Rat),
             (((R.applyQ (posAt c i)).add (roughTranslation c R src dst)).sub (posAt c j)).y + ((n2.y - n1.y : Int) : Rat),
             (((R.applyQ (posAt c i)).add (roughTranslation c R src dst)).sub (posAt c j)).z + ((n2.z - n1.z : Int) : Rat)⟩ : Q3)
           = u.sub v := by
      apply Q3.ext' <;> simp [hu, hv, roughTranslation, Q3.add, Q3.sub] <;> ring
    rw [this, apply_sub]
    exact normSq_sub_le _ _ _ h2 h1

/-! ### what a word product is -/

/-- unreduced affine product `(R, t) * (R_g, t_g) = (R R_g, R t_g + t)` -/
def rawStep (a : M3 × Q3) (g : Elem) : M3 × Q3 := (a.1.mul g.rot, (a.1.applyQ g.trans).add a.2)

/-- unreduced product of a word of operations -/
def rawProd (ws : List Elem) : M3 × Q3 := ws.foldl rawStep (M3.one, Q3.zero)

theorem rawProd_snoc (ws : List Elem) (g : Elem) : rawProd (ws ++ [g]) = rawStep (rawProd ws) g := by
  simp [rawProd, List.foldl_append]

/-- The element the loop computes for a word `ws` of generators: rotation and permutation are the products,
the depth is the length, and the translation is that of the unreduced affine product minus an integer vector. -/
theorem wordProd_spec (n : Nat) (ws : List Elem) :
    (wordProd n ws).rot = (rawProd ws).1 ∧
    (wordProd n ws).perm = ws.foldl (fun p w => pmul p w.perm) (pid n) ∧
    (wordProd n ws).depth = ws.length ∧
    ∃ k : Z3, (wordProd n ws).trans = (rawProd ws).2.sub (zq k) := by
  induction ws using List.reverseRecOn with
  | nil =>
    refine ⟨rfl, rfl, rfl, ⟨0, 0, 0⟩, ?_⟩
    apply Q3.ext' <;> simp [wordProd, Elem.one, rawProd, Q3.sub, Q3.zero, zq]
  | append_singleton ws g ih =>
    obtain ⟨hr, hp, hd, k, hk⟩ := ih
    rw [wordProd_snoc, rawProd_snoc]
    refine ⟨by simp [rawStep, hr], by simp [List.foldl_append, hp], by simp [hd], ?_⟩
    let u := mulTrans (wordProd n ws) g
    refine ⟨⟨k.x + ratRound u.x, k.y + ratRound u.y, k.z + ratRound u.z⟩, ?_⟩
    have hu : u = ((rawProd ws).1.applyQ g.trans).add ((rawProd ws).2.sub (zq k)) := by
      simp only [u, mulTrans, hr, hk]
    have : ((wordProd n ws).step g).trans = u.sub (Q3.roundV u) := rfl
    rw [this]
    apply Q3.ext' <;> simp [hu, rawStep, Q3.sub, Q3.add, Q3.roundV, zq] <;> ring

end Moyo.Search
