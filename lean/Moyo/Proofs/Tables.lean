import Moyo.Tables.Spec
import Moyo.Tables.Misc
import Moyo.Proofs.TablesBasic
import Moyo.Proofs.TablesClosed
import Moyo.Proofs.TablesConj
import Mathlib.Data.List.Sort
/-
From the Boolean row checkers (`hallRowOK`, `arithRowOK`, `magRowOK`, `magRangeOK`) to statements
about the model's objects (`HallSymbol.new`, `traverse`, `primitiveMod`) and the regenerated tables.
-/
namespace Moyo.Tables
open Moyo Moyo.Generated Moyo.TableSpec

/-! ### table access -/

/-- Entry of Hall number `h` (1-based) of the regenerated Hall table. -/
def hallEntry (h : Nat) : Option HallEntry := hallTableList[h - 1]?

/-- Entries of UNI number `u` (1-based) of the two regenerated magnetic tables. -/
def magHallEntry (u : Nat) : Option MagHallEntry := magHallTableList[u - 1]?
def magTypeEntry (u : Nat) : Option MagTypeEntry := magTypeTableList[u - 1]?

theorem chunkGet_hall (i : Nat) : chunkGet hallTableChunks i = hallTableList[i]? := by
  rw [chunkGet_eq_flatten _ _ hallTable_flat.2, hallTable_flat.1]

theorem chunkGet_magType (i : Nat) : chunkGet magTypeTableChunks i = magTypeTableList[i]? := by
  rw [chunkGet_eq_flatten _ _ magTypeTable_flat.2, magTypeTable_flat.1]

theorem chunkGet_magHall (i : Nat) : chunkGet magHallTableChunks i = magHallTableList[i]? := by
  rw [chunkGet_eq_flatten _ _ magHallTable_flat.2, magHallTable_flat.1]

/-! ### model objects of a row -/

/-- `HallSymbol::new` on the Hall string of row `h`. -/
def hallSymbolOf (h : Nat) : Option HallSymbol := (hallEntry h).bind fun e => HallSymbol.new e.hallSymbol

/-- `traverse()` of row `h`: coset representatives modulo the centring lattice. -/
def hallTraverse (h : Nat) : Option (List HOp) := (hallSymbolOf h).bind fun hs => hs.traverse

/-- `primitive_traverse()` of row `h` with translations reduced modulo 1. -/
def hallPrimitive (h : Nat) : Option (List HOp) := (hallSymbolOf h).bind primitiveMod

def magSymbolOf (u : Nat) : Option HallSymbol := (magHallEntry u).bind fun e => HallSymbol.newMagnetic e.symbol
def magTraverse (u : Nat) : Option (List HOp) := (magSymbolOf u).bind fun hs => hs.traverse
def magPrimitive (u : Nat) : Option (List HOp) := (magSymbolOf u).bind primitiveMod

/-! ### unfolding a Hall row -/

/-- Everything clause list (a)–(f) of a Hall row says, in one statement. -/
structure HallRowFacts (h : Nat) (r : HallRowIn) (hs : HallSymbol) : Prop where
  pos : 1 ≤ h
  row : hallRowIn h = some r
  parse : HallSymbol.new r.symbol = some hs
  trav : hs.traverse = some (unpackOps r.opsC)
  prim : primitiveMod hs = some (unpackOps r.primC)
  closed : ClosedMod hs.centering (unpackOps r.opsC)
  order : (unpackOps r.opsC).length = r.geoOrder
  distinct : ((unpackOps r.opsC).map (·.rot)).Nodup
  unprimed : ∀ o ∈ unpackOps r.opsC, o.tr = false
  hist : histogram rotTypes ((unpackOps r.opsC).map (·.rot)) = r.geoHist
  cent : Centering.ofString? r.centering = some hs.centering
  centAllowed : r.centering ∈ r.allowedCentering
  arith : Conjugate ((unpackOps r.primC).map (·.rot)) r.rep
  setting : AffConj (unpackOps r.primC) r.first

theorem hallRow_facts {h : Nat} (hok : hallRowOK h = true) : ∃ r hs, HallRowFacts h r hs := by
  simp only [hallRowOK, Bool.and_eq_true, decide_eq_true_eq, hallRowClausesAt] at hok
  obtain ⟨hpos, hcl⟩ := hok
  cases hr : hallRowIn h with
  | none => simp [hr, allOK] at hcl
  | some r =>
    simp only [hr, hallRowClauses] at hcl
    cases hp : HallSymbol.new r.symbol with
    | none => simp [hp, allOK] at hcl
    | some hs =>
      simp only [hp, allOK, List.all_cons, List.all_nil, Bool.and_true, Bool.and_eq_true,
        decide_eq_true_eq, beq_iff_eq, List.all_eq_true, Bool.not_eq_eq_eq_not, Bool.not_true,
        List.contains_eq_mem] at hcl
      obtain ⟨h1, h2, h3, ⟨⟨⟨h4a, h4b⟩, h4c⟩, _⟩, h5, ⟨h6a, h6b⟩, h7, h8⟩ := hcl
      exact ⟨r, hs, hpos, hr, hp, h1, h2, closed_of_closedCert h3, h4a,
        nodup_of_keys h4b, h4c, h5, h6a, h6b, conjugate_of_arithOK h7, affConj_of_conjOK h8⟩

/-- What `hallRowIn` reads from the tables. -/
theorem hallRowIn_spec {h : Nat} {r : HallRowIn} (hr : hallRowIn h = some r) :
    ∃ e : HallEntry, hallEntry h = some e ∧ r.symbol = e.hallSymbol ∧ r.centering = e.centering ∧
      r.opsC = (chunkGet C16.hallOpsChunks (h - 1)).getD 0 ∧
      r.primC = (chunkGet C16.hallPrimChunks (h - 1)).getD 0 ∧
      r.geoHist = (geoHist[geoIdxOfArith e.arithmeticNumber]?).getD [] ∧
      r.geoOrder = sumList r.geoHist ∧
      r.rep = arithRep e.arithmeticNumber ∧
      r.first = hallPrimOps ((spglibHallNumbers.toList[e.number - 1]?).getD 0) ∧
      r.allowedCentering = allowedCenterings
        ((bravaisNames[(C16.arithBravais[e.arithmeticNumber - 1]?).getD 99]?).getD "") := by
  unfold hallRowIn at hr
  rw [chunkGet_hall] at hr
  cases he : hallTableList[h - 1]? with
  | none => simp [he] at hr
  | some e =>
    simp only [he, Option.some.injEq] at hr
    subst hr
    exact ⟨e, he, rfl, rfl, rfl, rfl, rfl, rfl, rfl, rfl, rfl⟩

/-- The certificate lists are what the model computes for row `h`. -/
theorem hallRow_model {h : Nat} (hok : hallRowOK h = true) :
    hallTraverse h = some (hallOpsCert h) ∧ hallPrimitive h = some (hallPrimOps h) := by
  obtain ⟨r, hs, f⟩ := hallRow_facts hok
  obtain ⟨e, he, hsym, _, hops, hprim, _⟩ := hallRowIn_spec f.row
  have hp := f.parse
  rw [hsym] at hp
  constructor
  · simp only [hallTraverse, hallSymbolOf, he, Option.bind_some, hp, f.trav, hallOpsCert, hops]
  · simp only [hallPrimitive, hallSymbolOf, he, Option.bind_some, hp, f.prim, hallPrimOps, hprim]

/-! ### arithmetic classes -/

structure ArithRowFacts (k : Nat) (a : ArithEntry) : Prop where
  pos : 1 ≤ k
  row : arithTable.toList[k - 1]? = some a
  number : a.arithmeticNumber = k
  geoName : geoNames[geoIdxOfArith k]? = some a.geometricClass
  bravaisName : bravaisNames[(C16.arithBravais[k - 1]?).getD 99]? = some a.bravaisClass
  repArith : (hallEntry ((arithRepHall[k - 1]?).getD 0)).map (·.arithmeticNumber) = some k
  repPos : 1 ≤ (arithRepHall[k - 1]?).getD 0
  distinct : (arithRep k).Nodup
  inv : invVec rotTypes (arithRep k) = (C16.arithInv[k - 1]?).getD []

theorem arithRow_facts {k : Nat} (hok : arithRowOK k = true) : ∃ a, ArithRowFacts k a := by
  simp only [arithRowOK, Bool.and_eq_true, decide_eq_true_eq, arithRowClauses] at hok
  obtain ⟨hpos, hcl⟩ := hok
  cases ha : arithTable.toList[k - 1]? with
  | none => simp [ha, allOK] at hcl
  | some a =>
    simp only [ha, allOK, List.all_cons, List.all_nil, Bool.and_true, Bool.and_eq_true,
      decide_eq_true_eq, beq_iff_eq] at hcl
    obtain ⟨h1, h2, h3, _, ⟨h5, h5'⟩, h6, h7⟩ := hcl
    rw [chunkGet_hall] at h5
    exact ⟨a, hpos, ha, h1, h2, h3, h5, h5', nodup_of_keys h6, h7⟩

/-! ### magnetic rows -/

structure MagRowFacts (u : Nat) (r : MagRowIn) (hs : HallSymbol) : Prop where
  pos : 1 ≤ u
  row : magRowIn u = some r
  parse : HallSymbol.newMagnetic r.symbol = some hs
  trav : hs.traverse = some (unpackOps r.opsC)
  prim : primitiveMod hs = some (unpackOps r.primC)
  closed : ClosedMod hs.centering (unpackOps r.opsC)
  ctype : constructType hs.centering (unpackOps r.opsC) = r.ct
  ctypePos : 1 ≤ r.ct
  refCent : Centering.ofString? r.refCentering = some hs.centering
  ref : AffConj (refOps r.ct (unpackOps r.primC)) r.ref
  uniHall : r.uniHall = r.uni
  uniType : r.uniType = r.uni
  bns : bnsPrefix r.bns = some r.number
  setC : setCode (unpackOps r.primC) = r.setC

theorem magRow_facts {u : Nat} (hok : magRowOK u = true) : ∃ r hs, MagRowFacts u r hs := by
  simp only [magRowOK, Bool.and_eq_true, decide_eq_true_eq, magRowClausesAt] at hok
  obtain ⟨hpos, hcl⟩ := hok
  cases hr : magRowIn u with
  | none => simp [hr, allOK] at hcl
  | some r =>
    simp only [hr, magRowClauses] at hcl
    cases hp : HallSymbol.newMagnetic r.symbol with
    | none => simp [hp, allOK] at hcl
    | some hs =>
      simp only [hp, allOK, List.all_cons, List.all_nil, Bool.and_true, Bool.and_eq_true,
        decide_eq_true_eq, beq_iff_eq] at hcl
      obtain ⟨h1, h2, h3, ⟨h4a, h4b⟩, ⟨h5a, h5b⟩, ⟨⟨h6a, h6b⟩, h6c⟩, h7⟩ := hcl
      exact ⟨r, hs, hpos, hr, hp, h1, h2, closed_of_closedCert h3, h4a, h4b, h5a,
        affConj_of_conjOK h5b, h6a, h6b, h6c, h7⟩

theorem magRowIn_spec {u : Nat} {r : MagRowIn} (hr : magRowIn u = some r) :
    ∃ (mh : MagHallEntry) (mt : MagTypeEntry), magHallEntry u = some mh ∧ magTypeEntry u = some mt ∧
      r.symbol = mh.symbol ∧ r.uni = u ∧ r.uniHall = mh.uniNumber ∧ r.uniType = mt.uniNumber ∧
      r.bns = mt.bnsNumber ∧ r.number = mt.number ∧ r.ct = mt.constructType ∧
      r.opsC = (chunkGet C17.magOpsChunks (u - 1)).getD 0 ∧
      r.primC = (chunkGet C17.magPrimChunks (u - 1)).getD 0 ∧
      r.setC = (chunkGet C17.magSetChunks (u - 1)).getD 0 ∧
      r.refCentering = ((hallEntry ((standardHallNumbers.toList[mt.number - 1]?).getD 0)).map (·.centering)).getD "" ∧
      r.ref = hallPrimOps ((standardHallNumbers.toList[mt.number - 1]?).getD 0) := by
  unfold magRowIn at hr
  rw [chunkGet_magHall, chunkGet_magType] at hr
  cases h1 : magHallTableList[u - 1]? with
  | none => simp [h1] at hr
  | some mh =>
    cases h2 : magTypeTableList[u - 1]? with
    | none => simp [h1, h2] at hr
    | some mt =>
      simp only [h1, h2, Option.some.injEq] at hr
      subst hr
      refine ⟨mh, mt, h1, h2, rfl, rfl, rfl, rfl, rfl, rfl, rfl, rfl, rfl, rfl, ?_, rfl⟩
      simp only [chunkGet_hall, hallEntry]

/-! ### field ranges -/

theorem hallEntry_ranges {h : Nat} {e : HallEntry} (he : hallEntry h = some e) :
    1 ≤ e.number ∧ e.number ≤ 230 ∧ 1 ≤ e.arithmeticNumber ∧ e.arithmeticNumber ≤ 73 := by
  have := List.all_eq_true.1 fields_in_range.1 e (List.mem_of_getElem? he)
  simp only [Bool.and_eq_true, decide_eq_true_eq] at this
  omega

theorem spglib_range {n : Nat} (h1 : 1 ≤ n) (h2 : n ≤ 230) :
    1 ≤ (spglibHallNumbers.toList[n - 1]?).getD 0 ∧ (spglibHallNumbers.toList[n - 1]?).getD 0 ≤ 530 := by
  have hlen : n - 1 < spglibHallNumbers.toList.length := by
    have := table_sizes.2.2.2.2.2.2.2.2.1; omega
  rw [List.getElem?_eq_getElem hlen, Option.getD_some]
  have := List.all_eq_true.1 fields_in_range.2.1 _ (List.getElem_mem hlen)
  simpa only [Bool.and_eq_true, decide_eq_true_eq] using this

theorem standard_range {n : Nat} (h1 : 1 ≤ n) (h2 : n ≤ 230) :
    1 ≤ (standardHallNumbers.toList[n - 1]?).getD 0 ∧ (standardHallNumbers.toList[n - 1]?).getD 0 ≤ 530 := by
  have hlen : n - 1 < standardHallNumbers.toList.length := by
    have := table_sizes.2.2.2.2.2.2.2.2.2.1; omega
  rw [List.getElem?_eq_getElem hlen, Option.getD_some]
  have := List.all_eq_true.1 fields_in_range.2.2.1 _ (List.getElem_mem hlen)
  simpa only [Bool.and_eq_true, decide_eq_true_eq] using this

/-- The Standard-setting Hall entry of type `n` exists and has `number = n`. -/
theorem standard_entry_number (n : Nat) (h1 : 1 ≤ n) (h2 : n ≤ 230) :
    ∃ e : HallEntry, hallEntry ((standardHallNumbers.toList[n - 1]?).getD 0) = some e ∧ e.number = n := by
  have := List.all_eq_true.1 setting_numbers (n - 1) (List.mem_range.2 (by omega))
  simp only [Bool.and_eq_true, beq_iff_eq] at this
  have h := this.2
  rw [show n - 1 + 1 = n by omega] at h
  obtain ⟨e, he, hn⟩ := Option.map_eq_some_iff.1 h
  exact ⟨e, he, hn⟩

theorem magTypeEntry_le {u : Nat} {t : MagTypeEntry} (ht : magTypeEntry u = some t) : u ≤ 1651 := by
  have hlt : u - 1 < magTypeTableList.length := by
    by_contra hc
    rw [magTypeEntry, List.getElem?_eq_none (by omega)] at ht
    cases ht
  rw [table_sizes.2.2.2.2.2.2.1] at hlt
  omega

theorem magTypeEntry_range {u : Nat} {t : MagTypeEntry} (ht : magTypeEntry u = some t) :
    1 ≤ t.number ∧ t.number ≤ 230 := by
  have := List.all_eq_true.1 fields_in_range.2.2.2 t (List.mem_of_getElem? ht)
  simpa only [Bool.and_eq_true, decide_eq_true_eq] using this

/-! ### small list lemmas -/

theorem pairwiseDistinct_iff {α : Type} [BEq α] [LawfulBEq α] (l : List α) :
    pairwiseDistinct l = true ↔ l.Nodup := by
  induction l with
  | nil => simp [pairwiseDistinct]
  | cons a t ih => simp [pairwiseDistinct, ih, List.nodup_cons]

theorem length_flatMap_const {α β : Type} (l : List α) (f : α → List β) (n : Nat)
    (h : ∀ a, (f a).length = n) : (l.flatMap f).length = l.length * n := by
  induction l with
  | nil => simp
  | cons a t ih => simp [List.flatMap_cons, ih, h a, Nat.succ_mul, Nat.add_comm]

/-- `conventionalOps` lists `order(centring)` translates of every coset representative. -/
theorem conventionalOps_length {hs : HallSymbol} {ops : List HOp} (h : hs.traverse = some ops) :
    ∃ all, hs.conventionalOps = some all ∧ all.length = hs.centering.order * ops.length := by
  have e : hs.conventionalOps = some (hs.centering.latticePoints.flatMap fun c =>
      ops.map fun o => { o with trans := (o.trans.add c).mod 12 }) := by
    simp only [HallSymbol.conventionalOps, h, Option.map_some]
  refine ⟨_, e, ?_⟩
  rw [length_flatMap_const _ _ ops.length (fun c => by simp), lattice_order]

theorem constructType_le (c : Centering) (ops : List HOp) : constructType c ops ≤ 4 := by
  unfold constructType
  simp only
  split_ifs
  · omega
  · omega
  · split
    · omega
    · split_ifs <;> omega
    · omega

/-! ### UNI ranges -/

/-- Order-independent set code stored for UNI number `u`. -/
def magSetCert (u : Nat) : Nat := (chunkGet C17.magSetChunks (u - 1)).getD 0

theorem rangesContiguous_ge : ∀ (l : List (Nat × Nat)) (s : Nat), rangesContiguous l s = true →
    ∀ x ∈ l, s ≤ x.1 ∧ x.1 ≤ x.2
  | [], _, _ => by simp
  | (lo, hi) :: rest, s, h => by
    simp only [rangesContiguous, Bool.and_eq_true, beq_iff_eq, decide_eq_true_eq] at h
    obtain ⟨⟨h1, h2⟩, h3⟩ := h
    intro x hx
    rcases List.mem_cons.1 hx with rfl | hx
    · exact ⟨by simp [h1], h2⟩
    · have := rangesContiguous_ge rest (hi + 1) h3 x hx
      omega

structure MagRangeFacts (n lo hi : Nat) : Prop where
  pos : 1 ≤ n
  range : magRanges[n - 1]? = some (lo, hi)
  lo_pos : 1 ≤ lo
  le : lo ≤ hi
  number : ∀ u, lo ≤ u → u ≤ hi → (magTypeEntry u).map (·.number) = some n
  type1 : ((List.range' lo (hi + 1 - lo)).filter fun u => (magTypeEntry u).map (·.constructType) == some 1).length = 1
  type2 : ((List.range' lo (hi + 1 - lo)).filter fun u => (magTypeEntry u).map (·.constructType) == some 2).length = 1
  distinct : ∀ u v, lo ≤ u → u ≤ hi → lo ≤ v → v ≤ hi → u ≠ v → magSetCert u ≠ magSetCert v

theorem magRange_facts {n : Nat} (hok : magRangeOK n = true) : ∃ lo hi, MagRangeFacts n lo hi := by
  unfold magRangeOK at hok
  cases hr : magRanges[n - 1]? with
  | none => simp [hr] at hok
  | some x =>
    obtain ⟨lo, hi⟩ := x
    simp only [hr, Bool.and_eq_true, decide_eq_true_eq, beq_iff_eq, List.all_eq_true, List.mem_map,
      List.mem_range'_1, forall_exists_index, and_imp, chunkGet_magType] at hok
    obtain ⟨⟨hn, hle⟩, ⟨⟨hnum, ht1⟩, ht2⟩, hd⟩ := hok
    have hlo : 1 ≤ lo := (rangesContiguous_ge _ _ mag_ranges.2.1 (lo, hi) (List.mem_of_getElem? hr)).1
    refine ⟨lo, hi, hn, hr, hlo, hle, ?_, ?_, ?_, ?_⟩
    · intro u h1 h2
      exact hnum _ u h1 (by omega) rfl
    · simpa only [List.filter_map, List.length_map, Function.comp_def, magTypeEntry] using ht1
    · simpa only [List.filter_map, List.length_map, Function.comp_def, magTypeEntry] using ht2
    · intro u v hu1 hu2 hv1 hv2 huv
      have hnd := (pairwiseDistinct_iff _).1 hd
      rw [List.map_map] at hnd
      have hinj := List.inj_on_of_nodup_map hnd
      intro heq
      exact huv (hinj (List.mem_range'_1.2 ⟨hu1, by omega⟩) (List.mem_range'_1.2 ⟨hv1, by omega⟩)
        (by simpa [magSetCert] using heq))

/-! ### the set code is a function of the set of operations -/

theorem insertSorted_eq (x : Nat) (l : List Nat) : insertSorted x l = l.orderedInsert (· ≤ ·) x := by
  induction l with
  | nil => rfl
  | cons y t ih => simp only [insertSorted, List.orderedInsert, ih]

theorem sortNat_eq (l : List Nat) : sortNat l = l.insertionSort (· ≤ ·) := by
  induction l with
  | nil => rfl
  | cons x t ih =>
    simp only [sortNat, List.foldr_cons, List.insertionSort_cons] at ih ⊢
    rw [insertSorted_eq, ← ih]

/-- Lists of operations that are permutations of each other have the same set code. -/
theorem setCode_of_perm {l1 l2 : List HOp} (h : l1.Perm l2) : setCode l1 = setCode l2 := by
  unfold setCode
  rw [sortNat_eq, sortNat_eq]
  congr 1
  have hp : (l1.map opCode).Perm (l2.map opCode) := h.map _
  exact List.Perm.eq_of_pairwise' (r := (· ≤ ·)) (List.pairwise_insertionSort _ _) (List.pairwise_insertionSort _ _)
    (((List.perm_insertionSort _ _).trans hp).trans (List.perm_insertionSort _ _).symm)

/-- Geometric-class index (in `geoNames`) and order of the geometric class of arithmetic class `k`. -/
def geoOrderOfArith (k : Nat) : Nat := sumList ((geoHist[geoIdxOfArith k]?).getD [])

end Moyo.Tables
