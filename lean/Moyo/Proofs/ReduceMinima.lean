import Mathlib.Tactic.Ring
import Mathlib.Tactic.Linarith
import Mathlib.Tactic.Positivity
import Mathlib.Tactic.FieldSimp
import Mathlib.Algebra.Order.Field.Basic
/-
Geometry of numbers for C14, over an arbitrary linearly ordered field `K` (ℚ for the model, ℝ for lattices):
* `gauss2`  — a Gauss-reduced binary form attains its first two minima at `e1`, `e2`;
* `mink3`   — a ternary form satisfying the twelve conditions of `is_minkowski_reduced` (EPS = 0)
              attains its three successive minima at `e1`, `e2`, `e3`.
Proof of `mink3` (DESIGN §C14): `z = 0` is `gauss2`; for `z ≠ 0` write `(x, y)` as a non-negative
combination `αu + βv` of two adjacent vectors of the fan `e1, e1+e2, e2, -e1, -e1-e2, -e2` (case `p ≤ 0`;
`p ≥ 0` by the symmetry `y ↦ -y`).  Adjacent fan vectors have non-negative inner product and the linear
part is bounded below on fan vectors by the conditions, which gives
  `g(w) + t·ℓ(w) ≥ A(α² - tα) + B(β² - tβ)`   (`A = g(u)`, `B = g(v)`):
for `|z| = 1` and integers `α² ≥ α`, so `Q ≥ c`; for real `α, β` the right side is `≥ -(A+B)t²/4 ≥ -¾·b·t²`,
so `Q ≥ (c - ¾b)z² ≥ c` when `z² ≥ 4`.
-/
namespace Moyo.Minima

variable {K : Type*} [Field K] [LinearOrder K] [IsStrictOrderedRing K]

/-- Binary quadratic form with Gram entries `a = |b1|²`, `b = |b2|²`, `p = b1·b2`. -/
def Q2 (a b p x y : K) : K := a * x ^ 2 + 2 * p * x * y + b * y ^ 2

/-- Ternary quadratic form with Gram entries `a b c` (diagonal) and `p = b1·b2`, `q = b1·b3`, `r = b2·b3`. -/
def Q3 (a b c p q r x y z : K) : K :=
  a * x ^ 2 + b * y ^ 2 + c * z ^ 2 + 2 * p * x * y + 2 * q * x * z + 2 * r * y * z

theorem int_sq_ge (n : ℤ) : (n : K) ≤ (n : K) ^ 2 := by
  have h : n ≤ n ^ 2 := by nlinarith [sq_nonneg (n - 1), sq_nonneg n, sq_nonneg (n + 1)]
  exact_mod_cast h

theorem int_sq_ge_one (n : ℤ) (h : n ≠ 0) : (1 : K) ≤ (n : K) ^ 2 := by
  have h1 : 1 ≤ n ^ 2 := by
    have : 0 < n ^ 2 := by positivity
    linarith
  exact_mod_cast h1

/-- Gauss: `|b1| ≤ |b2|`, `2|b1·b2| ≤ |b1|²`  ⇒  `b2` is shortest among the lattice vectors independent
of `b1` (`y ≠ 0`), `b1` is a shortest non-zero vector. -/
theorem gauss2 (a b p : K) (hab : a ≤ b) (hp1 : -a ≤ 2 * p) (hp2 : 2 * p ≤ a) (x y : ℤ) :
    (y ≠ 0 → b ≤ Q2 a b p x y) ∧ ((x ≠ 0 ∨ y ≠ 0) → a ≤ Q2 a b p x y) := by
  have ha : 0 ≤ a := by linarith
  have part1 : y ≠ 0 → b ≤ Q2 a b p x y := by
    intro hy
    have i1 : (1 : ℤ) ≤ x ^ 2 - x * y + y ^ 2 := by
      have : 0 < y ^ 2 := by positivity
      nlinarith [sq_nonneg (2 * x - y)]
    have i2 : (1 : ℤ) ≤ x ^ 2 + x * y + y ^ 2 := by
      have : 0 < y ^ 2 := by positivity
      nlinarith [sq_nonneg (2 * x + y)]
    have k1 : (1 : K) ≤ (x : K) ^ 2 - x * y + (y : K) ^ 2 := by exact_mod_cast i1
    have k2 : (1 : K) ≤ (x : K) ^ 2 + x * y + (y : K) ^ 2 := by exact_mod_cast i2
    have k3 : (1 : K) ≤ (y : K) ^ 2 := int_sq_ge_one y hy
    unfold Q2
    rcases le_total 0 ((x : K) * y) with hxy | hxy
    · nlinarith [mul_nonneg ha (sub_nonneg.2 k1), mul_nonneg (sub_nonneg.2 hab) (sub_nonneg.2 k3),
        mul_nonneg (by linarith : (0 : K) ≤ 2 * p + a) hxy]
    · nlinarith [mul_nonneg ha (sub_nonneg.2 k2), mul_nonneg (sub_nonneg.2 hab) (sub_nonneg.2 k3),
        mul_nonneg (by linarith : (0 : K) ≤ a - 2 * p) (neg_nonneg.2 hxy)]
  refine ⟨part1, ?_⟩
  intro hxy
  by_cases hy : y = 0
  · have hx : x ≠ 0 := by
      rcases hxy with h | h
      · exact h
      · exact absurd hy h
    have k : (1 : K) ≤ (x : K) ^ 2 := int_sq_ge_one x hx
    subst hy
    unfold Q2
    push_cast
    nlinarith [mul_nonneg ha (sub_nonneg.2 k)]
  · exact le_trans hab (part1 hy)

/-- The twelve conditions of `is_minkowski_reduced` with `EPS = 0`, on the Gram matrix:
`|b1| ≤ |b2| ≤ |b3|`; `|b1 ± b2| ≥ |b2|`; `|b1 ± b3|, |b2 ± b3|, |b1 ± b2 ± b3| ≥ |b3|`. -/
structure Red (a b c p q r : K) : Prop where
  ab : a ≤ b
  bc : b ≤ c
  p1 : -a ≤ 2 * p
  p2 : 2 * p ≤ a
  q1 : -a ≤ 2 * q
  q2 : 2 * q ≤ a
  r1 : -b ≤ 2 * r
  r2 : 2 * r ≤ b
  s1 : 0 ≤ a + b + 2 * p + 2 * q + 2 * r
  s2 : 0 ≤ a + b + 2 * p - 2 * q - 2 * r
  s3 : 0 ≤ a + b - 2 * p + 2 * q - 2 * r
  s4 : 0 ≤ a + b - 2 * p - 2 * q + 2 * r

namespace Red
variable {a b c p q r : K}

theorem a_nonneg (h : Red a b c p q r) : 0 ≤ a := by linarith [h.p1, h.p2]
theorem b_nonneg (h : Red a b c p q r) : 0 ≤ b := le_trans h.a_nonneg h.ab
theorem c_nonneg (h : Red a b c p q r) : 0 ≤ c := le_trans h.b_nonneg h.bc

/-- Symmetry `b2 ↦ -b2`. -/
theorem negy (h : Red a b c p q r) : Red a b c (-p) q (-r) :=
  ⟨h.ab, h.bc, by linarith [h.p2], by linarith [h.p1], h.q1, h.q2, by linarith [h.r2], by linarith [h.r1],
   by linarith [h.s3], by linarith [h.s4], by linarith [h.s1], by linarith [h.s2]⟩

/-- Symmetry `b3 ↦ -b3`. -/
theorem negz (h : Red a b c p q r) : Red a b c p (-q) (-r) :=
  ⟨h.ab, h.bc, h.p1, h.p2, by linarith [h.q2], by linarith [h.q1], by linarith [h.r2], by linarith [h.r1],
   by linarith [h.s2], by linarith [h.s1], by linarith [h.s4], by linarith [h.s3]⟩

end Red

/-- Sector inequality, real version: `A(α - t/2)² + B(β - t/2)² + 2Cαβ + tα(lu + A) + tβ(lv + B) ≥ 0`. -/
theorem sec_real (A B C α β t lu lv : K) (hA : 0 ≤ A) (hB : 0 ≤ B) (hC : 0 ≤ C) (hα : 0 ≤ α) (hβ : 0 ≤ β)
    (ht : 0 ≤ t) (hu : -A ≤ lu) (hv : -B ≤ lv) :
    0 ≤ A * α ^ 2 + B * β ^ 2 + 2 * C * α * β + t * (α * lu + β * lv) + (A + B) / 4 * t ^ 2 := by
  have e : A * α ^ 2 + B * β ^ 2 + 2 * C * α * β + t * (α * lu + β * lv) + (A + B) / 4 * t ^ 2 =
      A * (α - t / 2) ^ 2 + B * (β - t / 2) ^ 2 + 2 * C * (α * β) + t * α * (lu + A) + t * β * (lv + B) := by
    ring
  rw [e]
  have h1 : 0 ≤ lu + A := by linarith
  have h2 : 0 ≤ lv + B := by linarith
  positivity

/-- Sector inequality, integer version (`t = 1`, `α² ≥ α`, `β² ≥ β`). -/
theorem sec_int (A B C α β lu lv : K) (hA : 0 ≤ A) (hB : 0 ≤ B) (hC : 0 ≤ C) (hα : 0 ≤ α) (hβ : 0 ≤ β)
    (hα2 : α ≤ α ^ 2) (hβ2 : β ≤ β ^ 2) (hu : -A ≤ lu) (hv : -B ≤ lv) :
    0 ≤ A * α ^ 2 + B * β ^ 2 + 2 * C * α * β + (α * lu + β * lv) := by
  have e : A * α ^ 2 + B * β ^ 2 + 2 * C * α * β + (α * lu + β * lv) =
      A * (α ^ 2 - α) + B * (β ^ 2 - β) + 2 * C * (α * β) + α * (lu + A) + β * (lv + B) := by
    ring
  rw [e]
  have h1 : 0 ≤ lu + A := by linarith
  have h2 : 0 ≤ lv + B := by linarith
  have h3 : 0 ≤ α ^ 2 - α := by linarith
  have h4 : 0 ≤ β ^ 2 - β := by linarith
  positivity

section
variable {a b c p q r : K}

/-- Real bound, upper half plane, `p ≤ 0`:  `g(x,y) + t·ℓ(x,y) ≥ -¾·b·t²`. -/
theorem real_half (h : Red a b c p q r) (hp : p ≤ 0) (x y t : K) (ht : 0 ≤ t) (hy : 0 ≤ y) :
    0 ≤ Q2 a b p x y + t * (2 * q * x + 2 * r * y) + 3 / 4 * b * t ^ 2 := by
  have ha := h.a_nonneg
  have hb := h.b_nonneg
  have t2 : 0 ≤ t ^ 2 := sq_nonneg t
  unfold Q2
  rcases le_total x 0 with hx | hx
  · -- sector (e2, -e1): α = y, β = -x
    have s := sec_real b a (-p) y (-x) t (2 * r) (-(2 * q)) hb ha (by linarith) hy (by linarith) ht
      (by linarith [h.r1]) (by linarith [h.q2])
    nlinarith [s, mul_nonneg (by linarith [h.ab] : (0 : K) ≤ 3 * b - (b + a)) t2]
  · rcases le_total y x with hyx | hyx
    · -- sector (e1, e1+e2): α = x - y, β = y
      have s := sec_real a (a + b + 2 * p) (a + p) (x - y) y t (2 * q) (2 * q + 2 * r) ha
        (by linarith [h.p1, h.ab]) (by linarith [h.p1]) (by linarith) hy ht (by linarith [h.q1]) (by linarith [h.s1])
      nlinarith [s, mul_nonneg (by linarith [h.ab] : (0 : K) ≤ 3 * b - (a + (a + b + 2 * p))) t2]
    · -- sector (e1+e2, e2): α = x, β = y - x
      have s := sec_real (a + b + 2 * p) b (b + p) x (y - x) t (2 * q + 2 * r) (2 * r)
        (by linarith [h.p1, h.ab]) hb (by linarith [h.p1, h.ab]) hx (by linarith) ht (by linarith [h.s1])
        (by linarith [h.r1])
      nlinarith [s, mul_nonneg (by linarith [h.ab] : (0 : K) ≤ 3 * b - ((a + b + 2 * p) + b)) t2]

/-- Real bound for all `(x, y)`, `p ≤ 0`. -/
theorem real_neg (h : Red a b c p q r) (hp : p ≤ 0) (x y t : K) (ht : 0 ≤ t) :
    0 ≤ Q2 a b p x y + t * (2 * q * x + 2 * r * y) + 3 / 4 * b * t ^ 2 := by
  rcases le_total 0 y with hy | hy
  · exact real_half h hp x y t ht hy
  · have s := real_half h.negz hp (-x) (-y) t ht (by linarith)
    unfold Q2 at s ⊢
    nlinarith [s]

/-- Real bound for all `(x, y)` and either sign of `p`. -/
theorem real_all (h : Red a b c p q r) (x y t : K) (ht : 0 ≤ t) :
    0 ≤ Q2 a b p x y + t * (2 * q * x + 2 * r * y) + 3 / 4 * b * t ^ 2 := by
  rcases le_total p 0 with hp | hp
  · exact real_neg h hp x y t ht
  · have s := real_neg h.negy (by linarith) x (-y) t ht
    unfold Q2 at s ⊢
    nlinarith [s]

/-- Integer cone lemma, upper half plane, `p ≤ 0`: `g(x,y) + ℓ(x,y) ≥ 0` on `ℤ²`. -/
theorem int_half (h : Red a b c p q r) (hp : p ≤ 0) (x y : ℤ) (hy : 0 ≤ y) :
    0 ≤ Q2 a b p x y + (2 * q * x + 2 * r * y) := by
  have ha := h.a_nonneg
  have hb := h.b_nonneg
  have hyK : (0 : K) ≤ y := by exact_mod_cast hy
  unfold Q2
  rcases le_total x 0 with hx | hx
  · have hxK : (x : K) ≤ 0 := by exact_mod_cast hx
    have s := sec_int b a (-p) y (-x) (2 * r) (-(2 * q)) hb ha (by linarith) hyK (by linarith)
      (int_sq_ge y) (by have := int_sq_ge (K := K) (-x); push_cast at this; exact this)
      (by linarith [h.r1]) (by linarith [h.q2])
    nlinarith [s]
  · have hxK : (0 : K) ≤ x := by exact_mod_cast hx
    rcases le_total y x with hyx | hyx
    · have hyxK : (y : K) ≤ x := by exact_mod_cast hyx
      have s := sec_int a (a + b + 2 * p) (a + p) (x - y) y (2 * q) (2 * q + 2 * r) ha
        (by linarith [h.p1, h.ab]) (by linarith [h.p1]) (by linarith) hyK
        (by have := int_sq_ge (K := K) (x - y); push_cast at this; exact this) (int_sq_ge y)
        (by linarith [h.q1]) (by linarith [h.s1])
      nlinarith [s]
    · have hyxK : (x : K) ≤ y := by exact_mod_cast hyx
      have s := sec_int (a + b + 2 * p) b (b + p) x (y - x) (2 * q + 2 * r) (2 * r)
        (by linarith [h.p1, h.ab]) hb (by linarith [h.p1, h.ab]) hxK (by linarith)
        (int_sq_ge x) (by have := int_sq_ge (K := K) (y - x); push_cast at this; exact this)
        (by linarith [h.s1]) (by linarith [h.r1])
      nlinarith [s]

theorem int_neg (h : Red a b c p q r) (hp : p ≤ 0) (x y : ℤ) :
    0 ≤ Q2 a b p x y + (2 * q * x + 2 * r * y) := by
  rcases le_total 0 y with hy | hy
  · exact int_half h hp x y hy
  · have s := int_half h.negz hp (-x) (-y) (by linarith)
    unfold Q2 at s ⊢
    push_cast at s
    nlinarith [s]

theorem int_all (h : Red a b c p q r) (x y : ℤ) :
    0 ≤ Q2 a b p x y + (2 * q * x + 2 * r * y) := by
  rcases le_total p 0 with hp | hp
  · exact int_neg h hp x y
  · have s := int_neg h.negy (by linarith) x (-y)
    unfold Q2 at s ⊢
    push_cast at s
    nlinarith [s]

/-- `z > 0`: `Q(x, y, z) ≥ c`. -/
theorem third_pos (h : Red a b c p q r) (x y z : ℤ) (hz : 0 < z) : c ≤ Q3 a b c p q r x y z := by
  have hc := h.c_nonneg
  rcases eq_or_lt_of_le (show (1 : ℤ) ≤ z by linarith) with h1 | h2
  · subst h1
    have s := int_all h x y
    unfold Q2 at s
    unfold Q3
    push_cast
    nlinarith [s]
  · have hzK : (2 : K) ≤ z := by exact_mod_cast (show (2 : ℤ) ≤ z by linarith)
    have s := real_all h (x : K) (y : K) (z : K) (by linarith)
    unfold Q2 at s
    unfold Q3
    have hz2 : (4 : K) ≤ (z : K) ^ 2 := by nlinarith
    nlinarith [s, mul_nonneg hc (sub_nonneg.2 hz2), mul_nonneg (sub_nonneg.2 h.bc) (sq_nonneg (z : K))]

/-- `z ≠ 0`: `Q(x, y, z) ≥ c`. -/
theorem third (h : Red a b c p q r) (x y z : ℤ) (hz : z ≠ 0) : c ≤ Q3 a b c p q r x y z := by
  rcases lt_or_gt_of_ne hz with hneg | hpos
  · have s := third_pos h (-x) (-y) (-z) (by linarith)
    unfold Q3 at s ⊢
    push_cast at s
    nlinarith [s]
  · exact third_pos h x y z hpos

/-- The three successive minima of a Minkowski-reduced ternary form. -/
theorem mink3 (h : Red a b c p q r) (x y z : ℤ) :
    (z ≠ 0 → c ≤ Q3 a b c p q r x y z) ∧
    ((y ≠ 0 ∨ z ≠ 0) → b ≤ Q3 a b c p q r x y z) ∧
    ((x ≠ 0 ∨ y ≠ 0 ∨ z ≠ 0) → a ≤ Q3 a b c p q r x y z) := by
  have g := gauss2 a b p h.ab h.p1 h.p2 x y
  have e0 : z = 0 → Q3 a b c p q r x y z = Q2 a b p x y := by
    intro hz; subst hz; unfold Q3 Q2; push_cast; ring
  refine ⟨third h x y z, ?_, ?_⟩
  · intro hyz
    by_cases hz : z = 0
    · rw [e0 hz]
      exact g.1 (by rcases hyz with h' | h'; exact h'; exact absurd hz h')
    · exact le_trans h.bc (third h x y z hz)
  · intro hxyz
    by_cases hz : z = 0
    · rw [e0 hz]
      refine g.2 ?_
      rcases hxyz with h' | h' | h'
      · exact Or.inl h'
      · exact Or.inr h'
      · exact absurd hz h'
    · exact le_trans h.ab (le_trans h.bc (third h x y z hz))

end

end Moyo.Minima
