import Moyo.Model.Wyckoff
import Mathlib.Tactic.Linarith
import Mathlib.Tactic.LinearCombination
import Mathlib.Tactic.IntervalCases
import Mathlib.Tactic.FieldSimp
/-
Lemmas behind the C16(i) table theorems (`Props/C16Wyckoff.lean`):
* `checkHallRange` (one pass over the table per chunk) implies `checkHall` for every Hall number of the range;
* the `Nat` key of an affine map is injective on bounded maps, images of tabulated positions are
  bounded, hence `genericOrbitSize` counts distinct affine maps;
* a disjointness certificate excludes `g(S₁) ⊆ S₂ + ℤ³` — more precisely it confines the parameters
  `y` with `g(L₁ y + o₁) ∈ S₂ + ℤ³` to a countable family of parallel planes (or to nothing).
-/
namespace Moyo.WyckoffP
open Moyo Moyo.Wyckoff Moyo.Generated

/-! ### one pass per chunk -/

theorem filter_inRange_filter (l : List WyckoffEntry) {lo hi h : Nat} (h1 : lo ≤ h) (h2 : h < hi) :
    (l.filter (inRange lo hi)).filter (fun e => e.hallNumber == h) = l.filter (fun e => e.hallNumber == h) := by
  rw [List.filter_filter]
  apply List.filter_congr
  intro e _
  by_cases he : e.hallNumber = h
  · subst he
    simp [inRange, h1, h2]
  · simp [he]

theorem checkHallOn_filter (l : List WyckoffEntry) {lo hi h : Nat} (h1 : lo ≤ h) (h2 : h < hi) :
    checkHallOn (l.filter (inRange lo hi)) h = checkHallOn l h := by
  unfold checkHallOn parsedRowsOn?
  rw [filter_inRange_filter l h1 h2]

/-- A chunk theorem `checkHallRange lo hi = true` gives `checkHall h` for every `h` of the range. -/
theorem checkHall_of_range {lo hi : Nat} (hr : checkHallRange lo hi = true) {h : Nat} (h1 : lo ≤ h) (h2 : h < hi) :
    checkHall h = true := by
  unfold checkHallRange at hr
  simp only [List.all_eq_true, List.mem_range] at hr
  have := hr (h - lo) (by omega)
  rw [show lo + (h - lo) = h by omega, checkHallOn_filter _ h1 h2] at this
  exact this

/-! ### keys -/

theorem AffZ.bounded_iff (a : AffZ) : a.bounded = true ↔
    ((-8 ≤ a.1.a ∧ a.1.a ≤ 8) ∧ (-8 ≤ a.1.b ∧ a.1.b ≤ 8) ∧ (-8 ≤ a.1.c ∧ a.1.c ≤ 8) ∧
     (-8 ≤ a.1.d ∧ a.1.d ≤ 8) ∧ (-8 ≤ a.1.e ∧ a.1.e ≤ 8) ∧ (-8 ≤ a.1.f ∧ a.1.f ≤ 8) ∧
     (-8 ≤ a.1.g ∧ a.1.g ≤ 8) ∧ (-8 ≤ a.1.h ∧ a.1.h ≤ 8) ∧ (-8 ≤ a.1.i ∧ a.1.i ≤ 8)) ∧
    ((0 ≤ a.2.x ∧ a.2.x < 24) ∧ (0 ≤ a.2.y ∧ a.2.y < 24) ∧ (0 ≤ a.2.z ∧ a.2.z < 24)) := by
  simp only [AffZ.bounded, M3.toList, Z3.toList, List.all_cons, List.all_nil, Bool.and_true,
    Bool.and_eq_true, decide_eq_true_eq]
  simp only [entryBound]

theorem radix17 {a b a' b' : Nat} (ha : a < 17) (ha' : a' < 17) (h : a + 17 * b = a' + 17 * b') : a = a' ∧ b = b' := by
  omega

theorem radix24 {a b a' b' : Nat} (ha : a < 24) (ha' : a' < 24) (h : a + 24 * b = a' + 24 * b') : a = a' ∧ b = b' := by
  omega

theorem digit17 {x : Int} (h : -8 ≤ x ∧ x ≤ 8) : dig17 x < 17 := by unfold dig17; omega

theorem digit17_inj {x y : Int} (hx : -8 ≤ x ∧ x ≤ 8) (hy : -8 ≤ y ∧ y ≤ 8) (h : dig17 x = dig17 y) : x = y := by
  unfold dig17 at h; omega

theorem digit24 {x : Int} (h : 0 ≤ x ∧ x < 24) : x.toNat < 24 := by omega

theorem digit24_inj {x y : Int} (hx : 0 ≤ x ∧ x < 24) (hy : 0 ≤ y ∧ y < 24) (h : x.toNat = y.toNat) : x = y := by
  omega

/-- The key is injective on bounded affine maps. -/
theorem AffZ.key_inj {a b : AffZ} (ha : a.bounded = true) (hb : b.bounded = true) (h : a.key = b.key) : a = b := by
  rw [AffZ.bounded_iff] at ha hb
  obtain ⟨⟨p1, p2, p3, p4, p5, p6, p7, p8, p9⟩, u1, u2, u3⟩ := ha
  obtain ⟨⟨q1, q2, q3, q4, q5, q6, q7, q8, q9⟩, v1, v2, v3⟩ := hb
  unfold AffZ.key at h
  obtain ⟨e1, h⟩ := radix24 (digit24 u1) (digit24 v1) h
  obtain ⟨e2, h⟩ := radix24 (digit24 u2) (digit24 v2) h
  obtain ⟨e3, h⟩ := radix24 (digit24 u3) (digit24 v3) h
  obtain ⟨f1, h⟩ := radix17 (digit17 p1) (digit17 q1) h
  obtain ⟨f2, h⟩ := radix17 (digit17 p2) (digit17 q2) h
  obtain ⟨f3, h⟩ := radix17 (digit17 p3) (digit17 q3) h
  obtain ⟨f4, h⟩ := radix17 (digit17 p4) (digit17 q4) h
  obtain ⟨f5, h⟩ := radix17 (digit17 p5) (digit17 q5) h
  obtain ⟨f6, h⟩ := radix17 (digit17 p6) (digit17 q6) h
  obtain ⟨f7, h⟩ := radix17 (digit17 p7) (digit17 q7) h
  obtain ⟨f8, h⟩ := radix17 (digit17 p8) (digit17 q8) h
  have g1 := digit24_inj u1 v1 e1
  have g2 := digit24_inj u2 v2 e2
  have g3 := digit24_inj u3 v3 e3
  have k1 := digit17_inj p1 q1 f1
  have k2 := digit17_inj p2 q2 f2
  have k3 := digit17_inj p3 q3 f3
  have k4 := digit17_inj p4 q4 f4
  have k5 := digit17_inj p5 q5 f5
  have k6 := digit17_inj p6 q6 f6
  have k7 := digit17_inj p7 q7 f7
  have k8 := digit17_inj p8 q8 f8
  have k9 := digit17_inj p9 q9 h
  obtain ⟨⟨a1, a2, a3, a4, a5, a6, a7, a8, a9⟩, ⟨x1, x2, x3⟩⟩ := a
  obtain ⟨⟨b1, b2, b3, b4, b5, b6, b7, b8, b9⟩, ⟨y1, y2, y3⟩⟩ := b
  simp only at g1 g2 g3 k1 k2 k3 k4 k5 k6 k7 k8 k9
  subst g1 g2 g3 k1 k2 k3 k4 k5 k6 k7 k8 k9
  rfl

theorem dot_bound {r1 r2 r3 l1 l2 l3 : Int} (h1 : -1 ≤ r1 ∧ r1 ≤ 1) (h2 : -1 ≤ r2 ∧ r2 ≤ 1) (h3 : -1 ≤ r3 ∧ r3 ≤ 1)
    (k1 : -2 ≤ l1 ∧ l1 ≤ 2) (k2 : -2 ≤ l2 ∧ l2 ≤ 2) (k3 : -2 ≤ l3 ∧ l3 ≤ 2) :
    -8 ≤ r1 * l1 + r2 * l2 + r3 * l3 ∧ r1 * l1 + r2 * l2 + r3 * l3 ≤ 8 := by
  obtain ⟨a1, a2⟩ := h1
  obtain ⟨b1, b2⟩ := h2
  obtain ⟨c1, c2⟩ := h3
  interval_cases r1 <;> interval_cases r2 <;> interval_cases r3 <;> omega

theorem natAbs_le_one_iff (x : Int) : x.natAbs ≤ 1 ↔ (-1 ≤ x ∧ x ≤ 1) := by omega

theorem small_iff (m : M3) : m.small = true ↔
    (-1 ≤ m.a ∧ m.a ≤ 1) ∧ (-1 ≤ m.b ∧ m.b ≤ 1) ∧ (-1 ≤ m.c ∧ m.c ≤ 1) ∧ (-1 ≤ m.d ∧ m.d ≤ 1) ∧
    (-1 ≤ m.e ∧ m.e ≤ 1) ∧ (-1 ≤ m.f ∧ m.f ≤ 1) ∧ (-1 ≤ m.g ∧ m.g ≤ 1) ∧ (-1 ≤ m.h ∧ m.h ≤ 1) ∧
    (-1 ≤ m.i ∧ m.i ≤ 1) := by
  simp only [M3.small, M3.toList, List.all_cons, List.all_nil, Bool.and_true, Bool.and_eq_true,
    decide_eq_true_eq, natAbs_le_one_iff]

theorem linSmall_iff (m : M3) : linSmall m = true ↔
    (-2 ≤ m.a ∧ m.a ≤ 2) ∧ (-2 ≤ m.b ∧ m.b ≤ 2) ∧ (-2 ≤ m.c ∧ m.c ≤ 2) ∧ (-2 ≤ m.d ∧ m.d ≤ 2) ∧
    (-2 ≤ m.e ∧ m.e ≤ 2) ∧ (-2 ≤ m.f ∧ m.f ≤ 2) ∧ (-2 ≤ m.g ∧ m.g ≤ 2) ∧ (-2 ≤ m.h ∧ m.h ≤ 2) ∧
    (-2 ≤ m.i ∧ m.i ≤ 2) := by
  simp [linSmall, M3.toList, and_assoc]

/-- Images of a position with coefficients in `[-2,2]` under rotations with entries in `{-1,0,1}`
are bounded. -/
theorem imageZ_bounded {lin : M3} {org : Z3} {g : HOp} (hl : linSmall lin = true) (hg : g.rot.small = true) :
    (imageZ lin org g).bounded = true := by
  rw [AffZ.bounded_iff]
  rw [linSmall_iff] at hl
  rw [small_iff] at hg
  obtain ⟨l1, l2, l3, l4, l5, l6, l7, l8, l9⟩ := hl
  obtain ⟨r1, r2, r3, r4, r5, r6, r7, r8, r9⟩ := hg
  refine ⟨⟨?_, ?_, ?_, ?_, ?_, ?_, ?_, ?_, ?_⟩, ?_, ?_, ?_⟩
  · exact dot_bound r1 r2 r3 l1 l4 l7
  · exact dot_bound r1 r2 r3 l2 l5 l8
  · exact dot_bound r1 r2 r3 l3 l6 l9
  · exact dot_bound r4 r5 r6 l1 l4 l7
  · exact dot_bound r4 r5 r6 l2 l5 l8
  · exact dot_bound r4 r5 r6 l3 l6 l9
  · exact dot_bound r7 r8 r9 l1 l4 l7
  · exact dot_bound r7 r8 r9 l2 l5 l8
  · exact dot_bound r7 r8 r9 l3 l6 l9
  · exact ⟨Int.emod_nonneg _ (by decide), Int.emod_lt_of_pos _ (by decide)⟩
  · exact ⟨Int.emod_nonneg _ (by decide), Int.emod_lt_of_pos _ (by decide)⟩
  · exact ⟨Int.emod_nonneg _ (by decide), Int.emod_lt_of_pos _ (by decide)⟩

/-- Erasing duplicates commutes with an injective relabelling, as far as the count goes. -/
theorem eraseDups_map_length {α β : Type} [BEq α] [LawfulBEq α] [BEq β] [LawfulBEq β] (f : α → β) :
    ∀ (k : Nat) (l : List α), l.length ≤ k → (∀ x ∈ l, ∀ y ∈ l, f x = f y → x = y) →
      (l.map f).eraseDups.length = l.eraseDups.length := by
  intro k
  induction k with
  | zero =>
    intro l hl _
    have : l = [] := List.length_eq_zero_iff.1 (by omega)
    subst this
    simp
  | succ k ih =>
    intro l hl hinj
    cases l with
    | nil => simp
    | cons a as =>
      rw [List.map_cons, List.eraseDups_cons, List.eraseDups_cons, List.length_cons, List.length_cons]
      have hfm : (as.map f).filter (fun b => !b == f a) = (as.filter (fun x => !x == a)).map f := by
        rw [List.filter_map]
        congr 1
        apply List.filter_congr
        intro x hx
        simp only [Function.comp]
        by_cases hxa : x = a
        · subst hxa; simp
        · have : f x ≠ f a := fun h => hxa (hinj x (List.mem_cons_of_mem _ hx) a (List.mem_cons_self) h)
          simp [hxa, this]
      rw [hfm, ih]
      · have := List.length_filter_le (fun x => !x == a) as
        simp only [List.length_cons] at hl
        omega
      · intro x hx y hy
        exact hinj x (List.mem_cons_of_mem _ (List.mem_of_mem_filter hx)) y (List.mem_cons_of_mem _ (List.mem_of_mem_filter hy))

/-- `genericOrbitSize` is the number of distinct affine maps `(R·L, R·o + t mod 1)`. -/
theorem genericOrbitSize_eq {ops : List HOp} {lin : M3} {org : Z3} (hl : linSmall lin = true)
    (hops : ∀ g ∈ ops, g.rot.small = true) :
    genericOrbitSize ops lin org = (images ops lin org).eraseDups.length := by
  unfold genericOrbitSize
  apply eraseDups_map_length AffZ.key _ _ (Nat.le_refl _)
  intro x hx y hy hxy
  unfold images at hx hy
  obtain ⟨g, hg, rfl⟩ := List.mem_map.1 hx
  obtain ⟨g', hg', rfl⟩ := List.mem_map.1 hy
  exact AffZ.key_inj (imageZ_bounded hl (hops g hg)) (imageZ_bounded hl (hops g' hg')) hxy

/-! ### disjointness certificates -/

/-- The point with parameters `y` of the position `(L, o/24)`. -/
def pointOf (lin : M3) (org : Z3) (y : Q3) : Q3 := (lin.applyQ y).add (org.toQ 24)

/-- `g` carries the point of `S₁` with parameters `y` into `S₂ + ℤ³`. -/
def CarriesInto (lin1 : M3) (org1 : Z3) (lin2 : M3) (org2 : Z3) (g : HOp) (y : Q3) : Prop :=
  ∃ (y' : Q3) (n : Z3),
    (g.rot.applyQ (pointOf lin1 org1 y)).add (g.trans.toQ 12) = (pointOf lin2 org2 y').add ⟨(n.x : Rat), (n.y : Rat), (n.z : Rat)⟩

/-- What a certificate `w` (an integer row vector annihilating `L₂`) proves: if `g` carries the point
with parameters `y` into `S₂ + ℤ³` then `a·y + b/24` is an integer, where `a = w R L₁` and
`b = w·(R o₁ + t − o₂)` in 24ths. -/
theorem certificate_confines {w : Z3} {lin1 lin2 : M3} {org1 org2 : Z3} {g : HOp}
    (hw : rowMul w lin2 = ⟨0, 0, 0⟩) (y : Q3) (hc : CarriesInto lin1 org1 lin2 org2 g y) :
    ∃ m : Int,
      ((rowMul w (g.rot.mul lin1)).x : Rat) * y.x + ((rowMul w (g.rot.mul lin1)).y : Rat) * y.y +
        ((rowMul w (g.rot.mul lin1)).z : Rat) * y.z +
        ((zdot w (((g.rot.apply org1).add (Z3.smul 2 g.trans)).sub org2) : Int) : Rat) / 24 = (m : Rat) := by
  obtain ⟨y', n, h⟩ := hc
  refine ⟨zdot w n, ?_⟩
  simp only [rowMul, Z3.mk.injEq] at hw
  obtain ⟨w1, w2, w3⟩ := hw
  have q1 : ((w.x : Rat) * lin2.a + w.y * lin2.d + w.z * lin2.g) = 0 := by exact_mod_cast w1
  have q2 : ((w.x : Rat) * lin2.b + w.y * lin2.e + w.z * lin2.h) = 0 := by exact_mod_cast w2
  have q3 : ((w.x : Rat) * lin2.c + w.y * lin2.f + w.z * lin2.i) = 0 := by exact_mod_cast w3
  simp only [pointOf, M3.applyQ, Q3.add, Z3.toQ, Q3.mk.injEq] at h
  obtain ⟨hx, hy, hz⟩ := h
  simp only [rowMul, M3.mul, zdot, M3.apply, Z3.add, Z3.sub, Z3.smul]
  push_cast
  linear_combination (w.x : Rat) * hx + (w.y : Rat) * hy + (w.z : Rat) * hz + y'.x * q1 + y'.y * q2 + y'.z * q3

/-- Soundness of `disjointFrom`: for every operation there is an integer vector `a` and an integer
`b`, not both trivial (`a ≠ 0` or `24 ∤ b`), such that every `y` whose point is carried into
`S₂ + ℤ³` satisfies `a·y + b/24 ∈ ℤ`. -/
theorem disjointFrom_sound {ops : List HOp} {r1 r2 : RowZ} (h : disjointFrom ops r1 r2 = true) :
    ∀ g ∈ ops, ∃ (a : Z3) (b : Int), (a ≠ ⟨0, 0, 0⟩ ∨ b % 24 ≠ 0) ∧
      ∀ y : Q3, CarriesInto r1.lin r1.org r2.lin r2.org g y →
        ∃ m : Int, (a.x : Rat) * y.x + (a.y : Rat) * y.y + (a.z : Rat) * y.z + (b : Rat) / 24 = (m : Rat) := by
  intro g hg
  unfold disjointFrom at h
  simp only [List.all_eq_true, List.any_eq_true] at h
  obtain ⟨w, hwmem, hcert⟩ := h g hg
  unfold annihilators at hwmem
  have hw : rowMul w r2.lin = ⟨0, 0, 0⟩ := by
    have := (List.mem_filter.1 hwmem).2
    simpa using this
  refine ⟨rowMul w (g.rot.mul r1.lin), zdot w (((g.rot.apply r1.org).add (Z3.smul 2 g.trans)).sub r2.org), ?_,
    fun y hc => certificate_confines hw y hc⟩
  unfold certifies at hcert
  simp only [Bool.or_eq_true, bne_iff_ne, ne_eq] at hcert
  exact hcert

theorem half_not_int : ¬ ∃ m : Int, (1 / 2 : Rat) = (m : Rat) := by
  rintro ⟨m, hm⟩
  have : (2 * m : Int) = 1 := by
    have : (2 : Rat) * m = 1 := by rw [← hm]; norm_num
    exact_mod_cast this
  omega

theorem mul_div_self {x : Rat} (hx : x ≠ 0) (c : Rat) : x * (c / x) = c := by field_simp

/-- In particular no operation carries *every* point of `S₁` into `S₂ + ℤ³`: an explicit parameter
value escapes. -/
theorem exists_not_carried {a : Z3} {b : Int} (hab : a ≠ ⟨0, 0, 0⟩ ∨ b % 24 ≠ 0) :
    ∃ y : Q3, ¬ ∃ m : Int, (a.x : Rat) * y.x + (a.y : Rat) * y.y + (a.z : Rat) * y.z + (b : Rat) / 24 = (m : Rat) := by
  obtain ⟨ax, ay, az⟩ := a
  by_cases hx : ax = 0
  · by_cases hy : ay = 0
    · by_cases hz : az = 0
      · have hb : b % 24 ≠ 0 := by
          rcases hab with h | h
          · exact absurd (by rw [hx, hy, hz]) h
          · exact h
        refine ⟨⟨0, 0, 0⟩, ?_⟩
        rintro ⟨m, hm⟩
        simp only [mul_zero, zero_add, add_zero] at hm
        have : b = 24 * m := by
          have : (b : Rat) = 24 * m := by linarith
          exact_mod_cast this
        omega
      · have hz' : (az : Rat) ≠ 0 := by exact_mod_cast hz
        refine ⟨⟨0, 0, (1 / 2 - (b : Rat) / 24) / az⟩, ?_⟩
        rintro ⟨m, hm⟩
        simp only [mul_zero, zero_add, add_zero] at hm
        rw [mul_div_self hz'] at hm
        exact half_not_int ⟨m, by linarith⟩
    · have hy' : (ay : Rat) ≠ 0 := by exact_mod_cast hy
      refine ⟨⟨0, (1 / 2 - (b : Rat) / 24) / ay, 0⟩, ?_⟩
      rintro ⟨m, hm⟩
      simp only [mul_zero, zero_add, add_zero] at hm
      rw [mul_div_self hy'] at hm
      exact half_not_int ⟨m, by linarith⟩
  · have hx' : (ax : Rat) ≠ 0 := by exact_mod_cast hx
    refine ⟨⟨(1 / 2 - (b : Rat) / 24) / ax, 0, 0⟩, ?_⟩
    rintro ⟨m, hm⟩
    simp only [mul_zero, add_zero] at hm
    rw [mul_div_self hx'] at hm
    exact half_not_int ⟨m, by linarith⟩

/-! ### plumbing: from `checkHall h = true` to statements about table rows -/

theorem sequence?_some {α : Type} : ∀ {l : List (Option α)} {rs : List α}, sequence? l = some rs → l = rs.map some := by
  intro l
  induction l with
  | nil => intro rs h; simp [sequence?] at h; subst h; rfl
  | cons a as ih =>
    intro rs h
    cases a with
    | none => simp [sequence?] at h
    | some a =>
      simp only [sequence?, Option.map_eq_some_iff] at h
      obtain ⟨rs', h', rfl⟩ := h
      rw [ih h']
      rfl

/-- What `checkHall h = true` contains. -/
structure HallFacts (h : Nat) (ops : List HOp) (rows : List RowZ) : Prop where
  ops_eq : convOps h = some ops
  rows_eq : (rowsOfHall h).map RowZ.ofEntry? = rows.map some
  small : ∀ g ∈ ops, g.rot.small = true
  row_ok : ∀ r ∈ rows, rowOk ops r = true
  letters : lettersOk rows ops.length = true
  disjoint : pairsDisjoint ops rows = true

theorem hallFacts_of_check {h : Nat} (hc : checkHall h = true) : ∃ ops rows, HallFacts h ops rows := by
  unfold checkHall checkHallOn at hc
  split at hc
  swap
  · cases hc
  rename_i ops rows hops hrows
  simp only [Bool.and_eq_true, List.all_eq_true] at hc
  obtain ⟨⟨⟨c1, c2⟩, c3⟩, c4⟩ := hc
  exact ⟨ops, rows, hops, sequence?_some hrows, c1, c2, c3, c4⟩

theorem HallFacts.length_eq {h : Nat} {ops : List HOp} {rows : List RowZ} (f : HallFacts h ops rows) :
    rows.length = (rowsOfHall h).length := by
  have := congrArg List.length f.rows_eq
  simpa using this.symm

/-- Row `k` of the parsed list is the parse of row `k` of the Hall number. -/
theorem HallFacts.get {h : Nat} {ops : List HOp} {rows : List RowZ} (f : HallFacts h ops rows) {k : Nat}
    {e : WyckoffEntry} (he : (rowsOfHall h)[k]? = some e) : ∃ r, rows[k]? = some r ∧ RowZ.ofEntry? e = some r := by
  have := congrArg (fun l => l[k]?) f.rows_eq
  simp only [List.getElem?_map, he, Option.map_some] at this
  cases hr : rows[k]? with
  | none => rw [hr] at this; simp at this
  | some r =>
    rw [hr] at this
    simp only [Option.map_some, Option.some.injEq] at this
    exact ⟨r, rfl, this⟩

theorem ofEntry?_some {e : WyckoffEntry} {r : RowZ} (h : RowZ.ofEntry? e = some r) :
    ∃ sp, Space.new? e.coordinates = some sp ∧ sp.org24? = some r.org ∧ r.lin = sp.linear ∧
      r.mult = e.multiplicity ∧ r.letter = e.letter ∧ r.sym = e.siteSymmetry := by
  unfold RowZ.ofEntry? at h
  split at h
  · cases h
  rename_i sp hsp
  simp only [Option.map_eq_some_iff] at h
  obtain ⟨o, ho, rfl⟩ := h
  exact ⟨sp, hsp, ho, rfl, rfl, rfl, rfl⟩

end Moyo.WyckoffP
