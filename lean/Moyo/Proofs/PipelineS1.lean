import Moyo.Proofs.PipelineLift
import Moyo.Proofs.SearchPrim
/-
What a successful run of the S1 model (`Search.primitiveModel`) establishes, in the form needed by the lift of C01:
the shape of the result, the lattice identity `A_prim · L = A`, and the facts F1 (accepted translations carry atoms
onto atoms within `symprec`) and F2 (every primitive site lies within `symprec` of its representative atom).
-/
namespace Moyo.Pipeline
open Moyo Moyo.Search Moyo.PipelineOps

/-! ### shape of a successful S1 run -/

theorem unimodInv_some {T Ti : M3} (h : unimodInv? T = some Ti) : T.det = 1 ∧ Ti = T.adj := by
  unfold unimodInv? at h
  split at h
  · rename_i hd
    cases h
    exact ⟨hd, rfl⟩
  · cases h

/-- The result of `primitiveModel` in terms of the two Minkowski matrices, the accepted translations and the
transformation matrix. -/
def primResOf (c : CellQ) (symprec : Rat) (cands : List TCand) (T1 T2 M : M3) : PrimRes :=
  let red := transformCellU T1 T1.adj c
  let acc := purifyT red symprec cands
  let parts := primitiveCellFromTransformation red M acc
  { cell := transformCellU T2 T2.adj parts.cell
    linear := (T2.adj.mul M).mul T1.adj
    siteMapping := parts.siteMapping
    translations := acc.map fun a => T1.applyQ a.1
    perms := acc.map (·.2)
    transMat := M
    reduced := red }

theorem primitiveModel_ok {c : CellQ} {s : Rat} {mink1 mink2 : Option M3} {cands : List TCand} {r : PrimRes}
    (h : primitiveModel c s mink1 cands mink2 = .ok r) :
    ∃ T1 T2 M : M3, T1.det = 1 ∧ T2.det = 1 ∧ c.n ≠ 0 ∧
      (∀ cd ∈ cands, permOk (transformCellU T1 T1.adj c) cd.perm = true) ∧
      (purifyT (transformCellU T1 T1.adj c) s cands).length ≠ 0 ∧
      M.det = ((purifyT (transformCellU T1 T1.adj c) s cands).length : Int) ∧
      r = primResOf c s cands T1 T2 M := by
  unfold primitiveModel at h
  split at h
  · cases h
  · rename_i T1
    split at h
    · cases h
    · rename_i T1inv h1
      obtain ⟨d1, rfl⟩ := unimodInv_some h1
      simp only at h
      split at h
      · cases h
      · split at h
        · cases h
        · rename_i hn
          split at h
          · cases h
          · rename_i hperm
            split at h
            · cases h
            · rename_i hsz
              split at h
              · cases h
              · cases h
              · rename_i M hM
                split at h
                · cases h
                · rename_i T2
                  split at h
                  · cases h
                  · rename_i T2inv h2
                    obtain ⟨d2, rfl⟩ := unimodInv_some h2
                    cases h
                    rw [not_or] at hsz
                    have hd := transMat_det hM
                    simp only [List.length_map] at hd
                    refine ⟨T1, T2, M, d1, d2, hn, ?_, hsz.1, hd, rfl⟩
                    simpa [List.all_eq_true] using hperm

/-! ### arrays -/

theorem posAt_map (f : Q3 → Q3) (lat : QM3) (pos : Array Q3) (num : Array Int) (i : Nat) (hi : i < pos.size) :
    posAt ⟨lat, pos.map f, num⟩ i = f (posAt ⟨lat, pos, num⟩ i) := by
  simp [posAt, Array.getD, hi]

theorem posAt_transformCellU (T Ti : M3) (c : CellQ) (i : Nat) (hi : i < c.n) :
    posAt (transformCellU T Ti c) i = Ti.applyQ (posAt c i) := by
  obtain ⟨lat, pos, num⟩ := c
  exact posAt_map _ _ _ _ _ hi

theorem numAt_transformCellU (T Ti : M3) (c : CellQ) (i : Nat) : numAt (transformCellU T Ti c) i = numAt c i := rfl

theorem n_transformCellU (T Ti : M3) (c : CellQ) : (transformCellU T Ti c).n = c.n := by
  simp [transformCellU, CellQ.n]

theorem lat_transformCellU (T Ti : M3) (c : CellQ) : (transformCellU T Ti c).lat = c.lat.mul (QM3.ofM3 T) := rfl


/-! ### the lattice identity `A_prim · L = A` -/

section S1
variable (c : CellQ) (s : Rat) (cands : List TCand) (T1 T2 M : M3)

/-- the reduced input cell -/
abbrev redOf : CellQ := transformCellU T1 T1.adj c
/-- the accepted `(translation, permutation)` pairs (reduced input cell) -/
abbrev accOf : List (Q3 × Perm) := purifyT (redOf c T1) s cands

theorem primRes_lat : (primResOf c s cands T1 T2 M).cell.lat =
    (((c.lat.mul (QM3.ofM3 T1)).mul (QM3.ofM3 M).inv).mul (QM3.ofM3 T2)) := rfl

theorem primRes_linear : (primResOf c s cands T1 T2 M).linear = (T2.adj.mul M).mul T1.adj := rfl

theorem primRes_perms : (primResOf c s cands T1 T2 M).perms = (accOf c s cands T1).map (·.2) := rfl

theorem primRes_translations :
    (primResOf c s cands T1 T2 M).translations = (accOf c s cands T1).map fun a => T1.applyQ a.1 := rfl

theorem primRes_reduced : (primResOf c s cands T1 T2 M).reduced = redOf c T1 := rfl

variable {c s cands T1 T2 M}

/-- `A_prim (T2⁻¹ M w) = A_red w`. -/
theorem lat_red (d2 : T2.det = 1) (dM : M.det ≠ 0) (w : Q3) :
    (primResOf c s cands T1 T2 M).cell.lat.apply (T2.adj.applyQ (M.applyQ w)) = (redOf c T1).lat.apply w := by
  have hq : (QM3.ofM3 M).det ≠ 0 := by rw [QM3.ofM3_det]; exact_mod_cast dM
  rw [primRes_lat, apply_mul, apply_mul, ← M3.applyQ_eq T2, applyQ_adj_cancel d2, M3.applyQ_eq M,
    Moyo.Periodic.inv_apply_apply _ hq]
  rfl

/-- `A_prim (L v) = A v`: the primitive basis times `linear` is the input basis. -/
theorem lat_input (d1 : T1.det = 1) (d2 : T2.det = 1) (dM : M.det ≠ 0) (v : Q3) :
    (primResOf c s cands T1 T2 M).cell.lat.apply ((primResOf c s cands T1 T2 M).linear.applyQ v) = c.lat.apply v := by
  rw [primRes_linear, applyQ_mul, applyQ_mul, lat_red d2 dM, lat_transformCellU, apply_mul, ← M3.applyQ_eq,
    applyQ_adj_cancel d1]

/-- `L (T1 w) = T2⁻¹ M w`. -/
theorem linear_T1 (d1 : T1.det = 1) (w : Q3) :
    (primResOf c s cands T1 T2 M).linear.applyQ (T1.applyQ w) = T2.adj.applyQ (M.applyQ w) := by
  rw [primRes_linear, applyQ_mul, applyQ_mul, adj_applyQ_cancel d1]


/-! ### F1: accepted translations -/

theorem acc_pos (hne : (accOf c s cands T1).length ≠ 0) : 0 < s := by
  obtain ⟨tp, htp⟩ := List.exists_mem_of_ne_nil (accOf c s cands T1) (by intro h; exact hne (by rw [h]; rfl))
  obtain ⟨cd, _, hacc, _⟩ := mem_purifyT.mp htp
  exact ((accept_iff _ s _ _ _).mp hacc).1

/-- Every accepted translation `(t, π)` of the reduced cell, expressed in the primitive basis as `L (T1 t)`, carries
atom `a` of the input cell onto atom `π a` within `symprec`, modulo `L ℤ³`. -/
theorem translation_fact (d1 : T1.det = 1) (d2 : T2.det = 1) (dM : M.det ≠ 0)
    (hok : ∀ cd ∈ cands, permOk (redOf c T1) cd.perm = true)
    {tp : Q3 × Perm} (htp : tp ∈ accOf c s cands T1) {a : Nat} (ha : a < c.n) :
    papply tp.2 a < c.n ∧ numAt c (papply tp.2 a) = numAt c a ∧
    ∃ m : Z3, Ball (primResOf c s cands T1 T2 M).cell.lat
      (((((primResOf c s cands T1 T2 M).linear.applyQ (posAt c a)).add
          ((primResOf c s cands T1 T2 M).linear.applyQ (T1.applyQ tp.1))).sub
          ((primResOf c s cands T1 T2 M).linear.applyQ (posAt c (papply tp.2 a)))).sub
          ((primResOf c s cands T1 T2 M).linear.applyQ (zq m))) s := by
  have hs : 0 < s := acc_pos (c := c) (cands := cands) (T1 := T1) (by have := List.length_pos_of_mem htp; omega)
  have ha' : a < (redOf c T1).n := by rw [n_transformCellU]; exact ha
  obtain ⟨h1, h2, h3⟩ := purifyT_sound hok tp htp a ha'
  rw [n_transformCellU] at h1
  refine ⟨h1, h2, ?_⟩
  set L := (primResOf c s cands T1 T2 M).linear with hL
  set xa := posAt (redOf c T1) a with hxa
  set xb := posAt (redOf c T1) (papply tp.2 a) with hxb
  have exa : posAt c a = T1.applyQ xa := by
    rw [hxa, posAt_transformCellU _ _ _ _ ha, applyQ_adj_cancel d1]
  have exb : posAt c (papply tp.2 a) = T1.applyQ xb := by
    rw [hxb, posAt_transformCellU _ _ _ _ h1, applyQ_adj_cancel d1]
  simp only [dist2, residual_eq, one_applyQ] at h3
  rw [← hxa, ← hxb] at h3
  refine ⟨T1.apply (roundZ ((xa.add tp.1).sub xb)), ?_⟩
  rw [exa, exb, ← applyQ_zq]
  simp only [← M3.applyQ_add, ← applyQ_sub]
  rw [hL, linear_T1 d1]
  refine ⟨le_of_lt hs, ?_⟩
  rw [lat_red d2 dM]
  have e : ((xa.add tp.1).sub xb).sub (zq (roundZ ((xa.add tp.1).sub xb))) =
      ⟨((xa.add tp.1).sub xb).x - (ratRound ((xa.add tp.1).sub xb).x : Rat),
       ((xa.add tp.1).sub xb).y - (ratRound ((xa.add tp.1).sub xb).y : Rat),
       ((xa.add tp.1).sub xb).z - (ratRound ((xa.add tp.1).sub xb).z : Rat)⟩ := rfl
  rw [e]
  exact le_of_lt h3


/-! ### F2: primitive sites -/

theorem getD_map_toArray {α : Type} (f : Nat → α) (l : List Nat) (k : Nat) (hk : k < l.length) (d : α) :
    (l.map f).toArray.getD k d = f (l.getD k 0) := by
  simp [Array.getD, hk, List.getD_eq_getElem?_getD]

theorem primRes_reps : (primitiveCellFromTransformation (redOf c T1) M (accOf c s cands T1)).representatives =
    repsOf (primResOf c s cands T1 T2 M) := rfl

theorem primRes_n : (primResOf c s cands T1 T2 M).cell.n = (repsOf (primResOf c s cands T1 T2 M)).length := by
  rw [← primRes_reps]
  simp only [primResOf, primitiveCellFromTransformation, transformCellU, CellQ.n, Array.size_map, List.size_toArray,
    List.length_map]
  rfl

theorem mem_repsOf {o : Nat} (h : o ∈ repsOf (primResOf c s cands T1 T2 M)) : o < c.n := by
  simp only [repsOf, List.mem_filter, List.mem_range] at h
  have := h.1
  rwa [primRes_reduced, n_transformCellU] at this

theorem getD_mem {l : List Nat} {k : Nat} (hk : k < l.length) : l.getD k 0 ∈ l := by
  rw [List.getD_eq_getElem?_getD, List.getElem?_eq_getElem hk]
  exact List.getElem_mem _

theorem averagedPosition_eq (red : CellQ) (M : M3) (acc : List (Q3 × Perm)) (o : Nat) :
    averagedPosition red M acc (acc.map fun a => pinv a.2) o =
      M.applyQ ((posAt red o).add (Q3.smul (1 / ((acc.map (avgTerm red o)).length : Rat))
        (sumQ3 (acc.map (avgTerm red o))))) := by
  unfold averagedPosition
  simp only [List.zip_map', List.map_map, List.length_map]
  rfl

theorem permsInvertible_iff (r : PrimRes) : permsInvertible r = true ↔
    ∀ p ∈ r.perms, ∀ o, o < r.reduced.n → papply (pinv p) o < r.reduced.n ∧ papply p (papply (pinv p) o) = o := by
  simp [permsInvertible, List.all_eq_true]

/-- Each summand of the average is an accept-test residual, hence shorter than `symprec`. -/
theorem avgTerm_ball (Hp : permsInvertible (primResOf c s cands T1 T2 M) = true) {o : Nat} (ho : o < c.n)
    {a : Q3 × Perm} (ha : a ∈ accOf c s cands T1) : Ball (redOf c T1).lat (avgTerm (redOf c T1) o a) s := by
  obtain ⟨cd, _, hacc, rfl⟩ := mem_purifyT.mp ha
  obtain ⟨hs, hd⟩ := (accept_iff _ s _ _ _).mp hacc
  have hn : (primResOf c s cands T1 T2 M).reduced.n = c.n := by rw [primRes_reduced, n_transformCellU]
  obtain ⟨hi, hpi⟩ := (permsInvertible_iff _).mp Hp cd.perm
    (by rw [primRes_perms]; exact List.mem_map.mpr ⟨_, ha, rfl⟩) o (by rw [hn]; exact ho)
  rw [hn] at hi
  have h3 := hd (papply (pinv cd.perm) o) (by rw [n_transformCellU]; exact hi)
  simp only [dist2, residual_eq, one_applyQ, hpi] at h3
  exact ⟨le_of_lt hs, le_of_lt h3⟩

/-- Primitive site `k` is built from atom `o = reps[k]`: same species, and its position lies within `symprec`
of the position `L x_o` of that atom (no lattice vector needed). -/
theorem site_fact (d1 : T1.det = 1) (d2 : T2.det = 1) (dM : M.det ≠ 0)
    (Hp : permsInvertible (primResOf c s cands T1 T2 M) = true) (hne : (accOf c s cands T1).length ≠ 0)
    {k : Nat} (hk : k < (repsOf (primResOf c s cands T1 T2 M)).length) :
    (repsOf (primResOf c s cands T1 T2 M)).getD k 0 < c.n ∧
    numAt (primResOf c s cands T1 T2 M).cell k = numAt c ((repsOf (primResOf c s cands T1 T2 M)).getD k 0) ∧
    Ball (primResOf c s cands T1 T2 M).cell.lat
      ((posAt (primResOf c s cands T1 T2 M).cell k).sub
        ((primResOf c s cands T1 T2 M).linear.applyQ (posAt c ((repsOf (primResOf c s cands T1 T2 M)).getD k 0)))) s := by
  set reps := repsOf (primResOf c s cands T1 T2 M) with hreps
  set o := reps.getD k 0 with ho
  have hon : o < c.n := mem_repsOf (getD_mem hk)
  refine ⟨hon, ?_, ?_⟩
  · show ((reps.map (numAt (redOf c T1))).toArray).getD k 0 = numAt c o
    rw [getD_map_toArray _ _ _ hk]
    rfl
  · -- position of the site
    have hpos : posAt (primResOf c s cands T1 T2 M).cell k =
        T2.adj.applyQ (averagedPosition (redOf c T1) M (accOf c s cands T1)
          ((accOf c s cands T1).map fun a => pinv a.2) o) := by
      have hk' : k < (primitiveCellFromTransformation (redOf c T1) M (accOf c s cands T1)).cell.n := by
        have := primRes_n (c := c) (s := s) (cands := cands) (T1 := T1) (T2 := T2) (M := M)
        rw [← hreps] at this
        have h2 : (primResOf c s cands T1 T2 M).cell.n =
            (primitiveCellFromTransformation (redOf c T1) M (accOf c s cands T1)).cell.n := n_transformCellU _ _ _
        omega
      have := posAt_transformCellU T2 T2.adj
        (primitiveCellFromTransformation (redOf c T1) M (accOf c s cands T1)).cell k hk'
      refine this.trans ?_
      congr 1
      show ((reps.map _).toArray).getD k Q3.zero = _
      rw [getD_map_toArray _ _ _ hk]
    set xo := posAt (redOf c T1) o with hxo
    have exo : posAt c o = T1.applyQ xo := by
      rw [hxo, posAt_transformCellU _ _ _ _ hon, applyQ_adj_cancel d1]
    rw [hpos, averagedPosition_eq, exo, linear_T1 d1, ← applyQ_sub, ← applyQ_sub]
    set mean := Q3.smul (1 / (((accOf c s cands T1).map (avgTerm (redOf c T1) o)).length : Rat))
      (sumQ3 ((accOf c s cands T1).map (avgTerm (redOf c T1) o))) with hmean
    have hcancel : (xo.add mean).sub xo = mean := by
      apply Q3.ext' <;> simp [Q3.add, Q3.sub]
    rw [← hxo, hcancel]
    have hb : Ball (redOf c T1).lat mean s := by
      apply ball_mean
      · intro v hv
        obtain ⟨a, ha, rfl⟩ := List.mem_map.mp hv
        exact avgTerm_ball Hp hon ha
      · simpa using hne
    exact ⟨hb.1, by rw [lat_red d2 dM]; exact hb.2⟩

end S1

/-! ### G1: atoms of an orbit and the site built from it -/

section S1c
variable {c : CellQ} {s : Rat} {cands : List TCand} {T1 T2 M : M3}

/-- the orbit average of representative `o` (reduced coordinates, relative to `x_o`) -/
def meanOf (red : CellQ) (acc : List (Q3 × Perm)) (o : Nat) : Q3 :=
  Q3.smul (1 / ((acc.map (avgTerm red o)).length : Rat)) (sumQ3 (acc.map (avgTerm red o)))

/-- Position of primitive site `k`: `T2⁻¹ M (x_o + mean)`, `o = reps[k]`. -/
theorem site_pos {k : Nat} (hk : k < (repsOf (primResOf c s cands T1 T2 M)).length) :
    posAt (primResOf c s cands T1 T2 M).cell k =
      T2.adj.applyQ (M.applyQ ((posAt (redOf c T1) ((repsOf (primResOf c s cands T1 T2 M)).getD k 0)).add
        (meanOf (redOf c T1) (accOf c s cands T1) ((repsOf (primResOf c s cands T1 T2 M)).getD k 0)))) := by
  set reps := repsOf (primResOf c s cands T1 T2 M) with hreps
  have hk' : k < (primitiveCellFromTransformation (redOf c T1) M (accOf c s cands T1)).cell.n := by
    have := primRes_n (c := c) (s := s) (cands := cands) (T1 := T1) (T2 := T2) (M := M)
    rw [← hreps] at this
    have h2 : (primResOf c s cands T1 T2 M).cell.n =
        (primitiveCellFromTransformation (redOf c T1) M (accOf c s cands T1)).cell.n := n_transformCellU _ _ _
    omega
  have := posAt_transformCellU T2 T2.adj
    (primitiveCellFromTransformation (redOf c T1) M (accOf c s cands T1)).cell k hk'
  refine this.trans ?_
  congr 1
  show ((reps.map _).toArray).getD k Q3.zero = _
  rw [getD_map_toArray _ _ _ hk, averagedPosition_eq]
  rfl

theorem clusterOk_iff (omega : Rat) : clusterOk (primResOf c s cands T1 T2 M) s cands omega = true ↔
    0 ≤ omega ∧ ∀ o ∈ repsOf (primResOf c s cands T1 T2 M), ∀ a ∈ accOf c s cands T1,
      ((redOf c T1).lat.apply ((avgTerm (redOf c T1) o a).sub
        (meanOf (redOf c T1) (accOf c s cands T1) o))).normSq ≤ omega * omega := by
  simp only [clusterOk, primRes_reduced, Bool.and_eq_true, decide_eq_true_eq, List.all_eq_true, List.mem_map,
    forall_exists_index, and_imp, forall_apply_eq_imp_iff₂, meanOf]
  constructor
  · rintro ⟨h0, h⟩
    exact ⟨h0, fun o ho a ha => of_decide_eq_true (h o ho a ha)⟩
  · rintro ⟨h0, h⟩
    exact ⟨h0, fun o ho a ha => decide_eq_true (h o ho a ha)⟩

/-- For the site `k` built from the representative `o = reps[k]` and an accepted pair `a = (t, π)`: the atom
`b = π⁻¹(o)` has the species of the site and `L x_b + L (T1 t)` lies within `omega` of the site, modulo `L ℤ³`. -/
theorem cluster_fact (d1 : T1.det = 1) (d2 : T2.det = 1) (dM : M.det ≠ 0)
    (hok : ∀ cd ∈ cands, permOk (redOf c T1) cd.perm = true)
    (Hp : permsInvertible (primResOf c s cands T1 T2 M) = true) {omega : Rat}
    (Hw : clusterOk (primResOf c s cands T1 T2 M) s cands omega = true)
    {k : Nat} (hk : k < (repsOf (primResOf c s cands T1 T2 M)).length)
    {a : Q3 × Perm} (ha : a ∈ accOf c s cands T1) :
    papply (pinv a.2) ((repsOf (primResOf c s cands T1 T2 M)).getD k 0) < c.n ∧
    numAt c (papply (pinv a.2) ((repsOf (primResOf c s cands T1 T2 M)).getD k 0)) =
      numAt (primResOf c s cands T1 T2 M).cell k ∧
    ∃ m : Z3, Ball (primResOf c s cands T1 T2 M).cell.lat
      (((((primResOf c s cands T1 T2 M).linear.applyQ
            (posAt c (papply (pinv a.2) ((repsOf (primResOf c s cands T1 T2 M)).getD k 0)))).add
          ((primResOf c s cands T1 T2 M).linear.applyQ (T1.applyQ a.1))).sub
          (posAt (primResOf c s cands T1 T2 M).cell k)).sub
          ((primResOf c s cands T1 T2 M).linear.applyQ (zq m))) omega := by
  set reps := repsOf (primResOf c s cands T1 T2 M) with hreps
  set o := reps.getD k 0 with ho
  have hon : o < c.n := mem_repsOf (getD_mem hk)
  have hn : (primResOf c s cands T1 T2 M).reduced.n = c.n := by rw [primRes_reduced, n_transformCellU]
  obtain ⟨hb, hpb⟩ := (permsInvertible_iff _).mp Hp a.2
    (by rw [primRes_perms]; exact List.mem_map.mpr ⟨_, ha, rfl⟩) o (by rw [hn]; exact hon)
  rw [hn] at hb
  set b := papply (pinv a.2) o with hbdef
  -- species
  obtain ⟨_, hnumb, _⟩ := purifyT_sound hok a ha b (by rw [n_transformCellU]; exact hb)
  rw [hpb] at hnumb
  have hnumk : numAt (primResOf c s cands T1 T2 M).cell k = numAt c o := by
    show ((reps.map (numAt (redOf c T1))).toArray).getD k 0 = numAt c o
    rw [getD_map_toArray _ _ _ hk]
    rfl
  refine ⟨hb, by rw [hnumk]; exact hnumb.symm, ?_⟩
  -- geometry
  obtain ⟨hω, hcl⟩ := (clusterOk_iff omega).mp Hw
  have hw := hcl o (getD_mem hk) a ha
  set xb := posAt (redOf c T1) b with hxb
  set xo := posAt (redOf c T1) o with hxo
  have exb : posAt c b = T1.applyQ xb := by
    rw [hxb, posAt_transformCellU _ _ _ _ hb, applyQ_adj_cancel d1]
  set mean := meanOf (redOf c T1) (accOf c s cands T1) o with hmean
  have hterm : avgTerm (redOf c T1) o a =
      ((xb.add a.1).sub xo).sub (zq (roundZ ((xb.add a.1).sub xo))) := rfl
  refine ⟨T1.apply (roundZ ((xb.add a.1).sub xo)), hω, ?_⟩
  rw [site_pos hk, ← ho, ← hxo, ← hmean, exb, ← applyQ_zq, linear_T1 d1, linear_T1 d1, linear_T1 d1]
  simp only [← M3.applyQ_add, ← applyQ_sub]
  rw [lat_red d2 dM]
  have hv : (((xb.add a.1).sub (xo.add mean)).sub (zq (roundZ ((xb.add a.1).sub xo)))) =
      (avgTerm (redOf c T1) o a).sub mean := by
    rw [hterm]
    apply Q3.ext' <;> simp [Q3.add, Q3.sub] <;> ring
  rw [hv]
  exact hw

end S1c

end Moyo.Pipeline
