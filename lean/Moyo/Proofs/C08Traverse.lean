import Moyo.Model.Traverse
/-
Lemmas about the closure loops of `Moyo/Model/Traverse.lean` (used by `Moyo/Props/C08.lean`).
-/
namespace Moyo.Trav

/-! ## The shear and its powers -/

theorem shearPow_zero : shearPow 0 = M3.one := rfl

theorem shearPow_succ (n : Nat) : (shearPow n).mul shear = shearPow (n + 1) := by
  simp only [shearPow, shear, M3.mul, M3.mk.injEq]
  refine ⟨?_, ?_, ?_, ?_, ?_, ?_, ?_, ?_, ?_⟩ <;> simp <;> omega

theorem shearPow_inj {m n : Nat} (h : shearPow m = shearPow n) : m = n := by
  simp only [shearPow, M3.mk.injEq] at h
  omega

/-- `[shear^(n-1), …, shear^0]`: the visited set after `n` iterations. -/
def shearSeen : Nat → List M3
  | 0 => []
  | n + 1 => shearPow n :: shearSeen n

theorem shearSeen_length (n : Nat) : (shearSeen n).length = n := by
  induction n with
  | zero => rfl
  | succ n ih => simp [shearSeen, ih]

theorem mem_shearSeen {n : Nat} {x : M3} : x ∈ shearSeen n ↔ ∃ k, k < n ∧ x = shearPow k := by
  induction n with
  | zero => simp [shearSeen]
  | succ n ih =>
    simp only [shearSeen, List.mem_cons, ih]
    constructor
    · rintro (h | ⟨k, hk, h⟩)
      · exact ⟨n, by omega, h⟩
      · exact ⟨k, by omega, h⟩
    · rintro ⟨k, hk, h⟩
      by_cases hkn : k = n
      · left; rw [h, hkn]
      · right; exact ⟨k, by omega, h⟩

theorem shearPow_not_mem {n m : Nat} (h : n ≤ m) : shearPow m ∉ shearSeen n := by
  intro hm
  obtain ⟨k, hk, he⟩ := mem_shearSeen.mp hm
  have := shearPow_inj he
  omega

theorem contains_false_of_not_mem {l : List M3} {x : M3} (h : x ∉ l) : l.contains x = false := by
  cases hc : l.contains x with
  | false => rfl
  | true => exact absurd (List.contains_iff_mem.mp hc) h

/-- The loop on the single generator `shear`, with or without the enqueue filter: one new element per
iteration, for ever. -/
theorem run_shear (f : Bool) (n k : Nat) :
    (Sys.run (⟨id, M3.mul, M3.one, f⟩ : Sys M3 M3) [shear] n ⟨[shearPow k], shearSeen k, shearSeen k⟩) =
      ⟨[shearPow (k + n)], shearSeen (k + n), shearSeen (k + n)⟩ := by
  induction n generalizing k with
  | zero => rfl
  | succ n ih =>
    have m1 : shearPow k ∉ shearSeen k := shearPow_not_mem (Nat.le_refl k)
    have m2 : shearPow (k + 1) ≠ shearPow k := fun h => by have := shearPow_inj h; omega
    have m3 : shearPow (k + 1) ∉ shearSeen k := shearPow_not_mem (Nat.le_succ k)
    have hstep : Sys.step (⟨id, M3.mul, M3.one, f⟩ : Sys M3 M3) [shear] ⟨[shearPow k], shearSeen k, shearSeen k⟩ =
        some ⟨[shearPow (k + 1)], shearSeen (k + 1), shearSeen (k + 1)⟩ := by
      cases f <;> simp [Sys.step, m1, m2, m3, shearPow_succ, shearSeen]
    rw [Sys.run, hstep]
    simp only
    rw [ih (k + 1)]
    have : k + 1 + n = k + (n + 1) := by omega
    rw [this]

/-! ## The general invariant: whatever was seen has all its products seen or pending -/

variable {α κ : Type} [DecidableEq κ]

/-- Keys seen are "closed up to the queue". -/
def Inv (S : Sys α κ) (gens : List α) (kmul : κ → κ → κ) (s : St α κ) : Prop :=
  (S.key S.one ∈ s.seen ∨ ∃ x, x ∈ s.queue ∧ S.key x = S.key S.one) ∧
  ∀ k, k ∈ s.seen → ∀ g, g ∈ gens →
    kmul k (S.key g) ∈ s.seen ∨ ∃ x, x ∈ s.queue ∧ S.key x = kmul k (S.key g)

omit [DecidableEq κ] in
theorem inv_init (S : Sys α κ) (gens : List α) (kmul : κ → κ → κ) : Inv S gens kmul S.init := by
  refine ⟨Or.inr ⟨S.one, by simp [Sys.init], rfl⟩, ?_⟩
  intro k hk
  simp [Sys.init] at hk

theorem inv_step (S : Sys α κ) (gens : List α) (kmul : κ → κ → κ)
    (hmul : ∀ a b, S.key (S.mul a b) = kmul (S.key a) (S.key b))
    {s s' : St α κ} (hinv : Inv S gens kmul s) (hs : S.step gens s = some s') : Inv S gens kmul s' := by
  obtain ⟨queue, seen, out⟩ := s
  cases queue with
  | nil => simp [Sys.step] at hs
  | cons q rest =>
    simp only [Sys.step] at hs
    by_cases hq : seen.contains (S.key q) = true
    · -- the popped element was already seen
      rw [if_pos hq] at hs
      cases hs
      have hqm : S.key q ∈ seen := List.contains_iff_mem.mp hq
      -- a witness in `q :: rest` is either `q` (whose key is seen) or stays in `rest`
      have move : ∀ K, (K ∈ seen ∨ ∃ x, x ∈ q :: rest ∧ S.key x = K) → (K ∈ seen ∨ ∃ x, x ∈ rest ∧ S.key x = K) := by
        intro K h
        rcases h with h | ⟨x, hx, hk⟩
        · exact Or.inl h
        · rcases List.mem_cons.mp hx with rfl | hx
          · exact Or.inl (hk ▸ hqm)
          · exact Or.inr ⟨x, hx, hk⟩
      exact ⟨move _ hinv.1, fun k hk g hg => move _ (hinv.2 k hk g hg)⟩
    · -- a new element: its key is recorded and its products are enqueued (unless their key is seen)
      rw [if_neg hq] at hs
      cases hs
      -- every product of `q` is seen or pending afterwards
      have prod : ∀ g, g ∈ gens →
          kmul (S.key q) (S.key g) ∈ S.key q :: seen ∨
          ∃ x, x ∈ rest ++ (if S.filter then (gens.map (S.mul q)).filter (fun p => !(S.key q :: seen).contains (S.key p))
                              else gens.map (S.mul q)) ∧ S.key x = kmul (S.key q) (S.key g) := by
        intro g hg
        by_cases hin : kmul (S.key q) (S.key g) ∈ S.key q :: seen
        · exact Or.inl hin
        · right
          refine ⟨S.mul q g, ?_, hmul q g⟩
          apply List.mem_append_right
          have hmem : S.mul q g ∈ gens.map (S.mul q) := List.mem_map_of_mem hg
          cases S.filter with
          | false => simpa using hmem
          | true =>
            simp only [if_true, List.mem_filter]
            refine ⟨hmem, ?_⟩
            rw [hmul q g]
            simp only [Bool.not_eq_true']
            exact contains_false' hin
      have move : ∀ K, (K ∈ seen ∨ ∃ x, x ∈ q :: rest ∧ S.key x = K) →
          (K ∈ S.key q :: seen ∨ ∃ x, x ∈ rest ++ (if S.filter then (gens.map (S.mul q)).filter (fun p => !(S.key q :: seen).contains (S.key p))
                              else gens.map (S.mul q)) ∧ S.key x = K) := by
        intro K h
        rcases h with h | ⟨x, hx, hk⟩
        · exact Or.inl (List.mem_cons_of_mem _ h)
        · rcases List.mem_cons.mp hx with rfl | hx
          · exact Or.inl (hk ▸ List.mem_cons_self)
          · exact Or.inr ⟨x, List.mem_append_left _ hx, hk⟩
      refine ⟨move _ hinv.1, ?_⟩
      intro k hk g hg
      rcases List.mem_cons.mp hk with rfl | hk
      · exact prod g hg
      · exact move _ (hinv.2 k hk g hg)
where
  contains_false' {l : List κ} {x : κ} (h : x ∉ l) : l.contains x = false := by
    cases hc : l.contains x with
    | false => rfl
    | true => exact absurd (List.contains_iff_mem.mp hc) h

theorem inv_run (S : Sys α κ) (gens : List α) (kmul : κ → κ → κ)
    (hmul : ∀ a b, S.key (S.mul a b) = kmul (S.key a) (S.key b)) :
    ∀ (n : Nat) (s : St α κ), Inv S gens kmul s → Inv S gens kmul (S.run gens n s) := by
  intro n
  induction n with
  | zero => intro s h; exact h
  | succ n ih =>
    intro s h
    simp only [Sys.run]
    cases hs : S.step gens s with
    | none => exact h
    | some s' => exact ih s' (inv_step S gens kmul hmul h hs)

/-- Pigeonhole: a list cannot contain all values of an injective sequence. -/
theorem not_all_mem_of_injective : ∀ (n : Nat) (l : List κ) (f : Nat → κ), l.length = n →
    (∀ i j, f i = f j → i = j) → ¬ ∀ i, f i ∈ l := by
  intro n
  induction n with
  | zero =>
    intro l f hl _ hall
    have : l = [] := List.eq_nil_of_length_eq_zero hl
    have h0 := hall 0
    rw [this] at h0
    cases h0
  | succ n ih =>
    intro l f hl hinj hall
    apply ih (l.erase (f 0)) (fun i => f (i + 1))
    · rw [List.length_erase_of_mem (hall 0), hl]; rfl
    · intro i j h; have := hinj _ _ h; omega
    · intro i
      have hne : f (i + 1) ≠ f 0 := fun h => by have := hinj _ _ h; omega
      exact (List.mem_erase_of_ne hne).mpr (hall (i + 1))

/-- If a generator's key has pairwise distinct powers, the loop never ends: for every number of
iterations the queue is still non-empty. -/
theorem run_queue_nonempty (S : Sys α κ) (gens : List α) (kmul : κ → κ → κ)
    (hmul : ∀ a b, S.key (S.mul a b) = kmul (S.key a) (S.key b))
    (g : α) (hg : g ∈ gens) (pow : Nat → κ) (hpow0 : pow 0 = S.key S.one)
    (hpows : ∀ n, pow (n + 1) = kmul (pow n) (S.key g)) (hinj : ∀ i j, pow i = pow j → i = j)
    (n : Nat) : (S.run gens n S.init).queue ≠ [] := by
  intro hempty
  have hinv := inv_run S gens kmul hmul n S.init (inv_init S gens kmul)
  have hall : ∀ i, pow i ∈ (S.run gens n S.init).seen := by
    intro i
    induction i with
    | zero =>
      rcases hinv.1 with h | ⟨x, hx, _⟩
      · rw [hpow0]; exact h
      · rw [hempty] at hx; cases hx
    | succ i ih =>
      rcases hinv.2 _ ih g hg with h | ⟨x, hx, _⟩
      · rw [hpows]; exact h
      · rw [hempty] at hx; cases hx
  exact not_all_mem_of_injective _ _ pow rfl hinj hall


/-! ## What a terminated loop returns is closed under multiplication -/

/-- product of the keys of a word of generators, starting from the key of the identity -/
def wordKey (S : Sys α κ) (kmul : κ → κ → κ) (w : List α) : κ :=
  w.foldl (fun acc x => kmul acc (S.key x)) (S.key S.one)

/-- Second invariant: every key seen or pending is the key of a word in the generators, and the visited
keys are exactly the keys of the output. -/
def Inv2 (S : Sys α κ) (gens : List α) (kmul : κ → κ → κ) (s : St α κ) : Prop :=
  (∀ k, k ∈ s.seen → ∃ w : List α, (∀ x, x ∈ w → x ∈ gens) ∧ k = wordKey S kmul w) ∧
  (∀ x, x ∈ s.queue → ∃ w : List α, (∀ y, y ∈ w → y ∈ gens) ∧ S.key x = wordKey S kmul w) ∧
  s.seen = s.out.map S.key

omit [DecidableEq κ] in
theorem inv2_init (S : Sys α κ) (gens : List α) (kmul : κ → κ → κ) : Inv2 S gens kmul S.init := by
  refine ⟨by intro k hk; simp [Sys.init] at hk, ?_, by simp [Sys.init]⟩
  intro x hx
  simp only [Sys.init, List.mem_singleton] at hx
  exact ⟨[], by simp, by rw [hx]; rfl⟩

theorem inv2_step (S : Sys α κ) (gens : List α) (kmul : κ → κ → κ)
    (hmul : ∀ a b, S.key (S.mul a b) = kmul (S.key a) (S.key b))
    {s s' : St α κ} (hinv : Inv2 S gens kmul s) (hs : S.step gens s = some s') : Inv2 S gens kmul s' := by
  obtain ⟨queue, seen, out⟩ := s
  cases queue with
  | nil => simp [Sys.step] at hs
  | cons q rest =>
    simp only [Sys.step] at hs
    obtain ⟨hseen, hqueue, hout⟩ := hinv
    by_cases hq : seen.contains (S.key q) = true
    · rw [if_pos hq] at hs
      cases hs
      exact ⟨hseen, fun x hx => hqueue x (List.mem_cons_of_mem _ hx), hout⟩
    · rw [if_neg hq] at hs
      cases hs
      obtain ⟨wq, hwq, hkq⟩ := hqueue q List.mem_cons_self
      refine ⟨?_, ?_, ?_⟩
      · intro k hk
        rcases List.mem_cons.mp hk with rfl | hk
        · exact ⟨wq, hwq, hkq⟩
        · exact hseen k hk
      · intro x hx
        rcases List.mem_append.mp hx with hx | hx
        · exact hqueue x (List.mem_cons_of_mem _ hx)
        · have hx' : x ∈ gens.map (S.mul q) := by
            cases hf : S.filter with
            | false => simpa [hf] using hx
            | true =>
              rw [hf] at hx
              simp only [if_true] at hx
              exact (List.mem_filter.mp hx).1
          obtain ⟨g, hg, rfl⟩ := List.mem_map.mp hx'
          refine ⟨wq ++ [g], ?_, ?_⟩
          · intro y hy
            rcases List.mem_append.mp hy with hy | hy
            · exact hwq y hy
            · rw [List.mem_singleton.mp hy]; exact hg
          · rw [hmul, hkq]
            simp [wordKey, List.foldl_append]
      · show S.key q :: seen = S.key q :: List.map S.key out
        rw [show seen = List.map S.key out from hout]

theorem inv2_run (S : Sys α κ) (gens : List α) (kmul : κ → κ → κ)
    (hmul : ∀ a b, S.key (S.mul a b) = kmul (S.key a) (S.key b)) :
    ∀ (n : Nat) (s : St α κ), Inv2 S gens kmul s → Inv2 S gens kmul (S.run gens n s) := by
  intro n
  induction n with
  | zero => intro s h; exact h
  | succ n ih =>
    intro s h
    simp only [Sys.run]
    cases hs : S.step gens s with
    | none => exact h
    | some s' => exact ih s' (inv2_step S gens kmul hmul h hs)

/-- If the loop has ended, the set of visited keys is closed under multiplication (it is the monoid generated
by the generator keys), provided the key product is associative with the identity's key as right unit. -/
theorem seen_closed_of_terminated (S : Sys α κ) (gens : List α) (kmul : κ → κ → κ)
    (hmul : ∀ a b, S.key (S.mul a b) = kmul (S.key a) (S.key b))
    (hassoc : ∀ a b c, kmul (kmul a b) c = kmul a (kmul b c)) (hone : ∀ a, kmul a (S.key S.one) = a)
    (n : Nat) (hend : (S.run gens n S.init).queue = []) :
    ∀ k1, k1 ∈ (S.run gens n S.init).seen → ∀ k2, k2 ∈ (S.run gens n S.init).seen →
      kmul k1 k2 ∈ (S.run gens n S.init).seen := by
  have h1 := inv_run S gens kmul hmul n S.init (inv_init S gens kmul)
  have h2 := inv2_run S gens kmul hmul n S.init (inv2_init S gens kmul)
  -- at the end the visited keys are closed under right multiplication by generator keys
  have hclosed : ∀ k, k ∈ (S.run gens n S.init).seen → ∀ g, g ∈ gens → kmul k (S.key g) ∈ (S.run gens n S.init).seen := by
    intro k hk g hg
    rcases h1.2 k hk g hg with h | ⟨x, hx, _⟩
    · exact h
    · rw [hend] at hx; cases hx
  -- hence under right multiplication by words
  have hwords : ∀ (w : List α), (∀ x, x ∈ w → x ∈ gens) → ∀ k, k ∈ (S.run gens n S.init).seen →
      w.foldl (fun acc x => kmul acc (S.key x)) k ∈ (S.run gens n S.init).seen := by
    intro w
    induction w with
    | nil => intro _ k hk; exact hk
    | cons g w ih =>
      intro hw k hk
      simp only [List.foldl_cons]
      exact ih (fun x hx => hw x (List.mem_cons_of_mem _ hx)) _ (hclosed k hk g (hw g List.mem_cons_self))
  -- `k1 * (k0 * g1 * ... * gm) = (k1 * k0) * g1 * ... * gm`
  have hshift : ∀ (w : List α) (k1 k0 : κ),
      kmul k1 (w.foldl (fun acc x => kmul acc (S.key x)) k0) = w.foldl (fun acc x => kmul acc (S.key x)) (kmul k1 k0) := by
    intro w
    induction w with
    | nil => intro k1 k0; rfl
    | cons g w ih =>
      intro k1 k0
      simp only [List.foldl_cons]
      rw [ih, hassoc]
  intro k1 hk1 k2 hk2
  obtain ⟨w, hw, rfl⟩ := h2.1 k2 hk2
  simp only [wordKey]
  rw [hshift, hone]
  exact hwords w hw k1 hk1

/-- The visited keys are exactly the keys of the returned elements. -/
theorem seen_eq_out_keys (S : Sys α κ) (gens : List α) (kmul : κ → κ → κ)
    (hmul : ∀ a b, S.key (S.mul a b) = kmul (S.key a) (S.key b)) (n : Nat) :
    (S.run gens n S.init).seen = (S.run gens n S.init).out.map S.key :=
  (inv2_run S gens kmul hmul n S.init (inv2_init S gens kmul)).2.2

/-! ## The capped loop -/

/-- Accounting for `capGo`: dequeues so far + pending + what the not-yet-found elements may still enqueue
never exceeds its initial value. -/
theorem capGo_bound (gens : List M3) (cap : Nat) :
    ∀ (queue visited : List M3) (deq : Nat), visited.length ≤ cap →
      (capGo gens cap queue visited deq).2 ≤ deq + queue.length + gens.length * (cap - visited.length) ∧
      (capGo gens cap queue visited deq).1.length ≤ cap + 1 := by
  intro queue visited deq
  fun_induction capGo gens cap queue visited deq with
  | case1 visited deq => intro h; simp; omega
  | case2 visited deq q rest hc ih =>
    intro h
    have := ih h
    simp only [List.length_cons]
    omega
  | case3 visited deq q rest hc hcap =>
    intro h
    simp only [List.length_cons, List.length_reverse]
    omega
  | case4 visited deq q rest hc hcap ih =>
    intro h
    have hle : (q :: visited).length ≤ cap := by simp only [List.length_cons]; omega
    have := ih hle
    simp only [List.length_cons, List.length_append, products_length] at this ⊢
    have h1 : cap - visited.length = (cap - (visited.length + 1)) + 1 := by omega
    rw [h1, Nat.mul_add]
    omega

end Moyo.Trav
