import Moyo.Proofs.OracleSite
import Moyo.Spec.C05
import Mathlib.Data.List.Perm.Subperm
/-
Helper lemmas for `Props/C05.lean`: `matClose`, list indexing, `List.eraseDups` has no duplicates,
and the counting argument "a duplicate-free sublist of equal length is everything".
-/
namespace Moyo.OracleP
open Moyo Moyo.Oracle Moyo.Spec Moyo.Periodic

theorem one_maxAbs : QM3.one.maxAbs = 1 := by decide +kernel

theorem matClose_sound {p q : QM3} {tol : Rat} (h : matClose p q tol = true) : EntriesClose p q tol := by
  unfold matClose at h
  rw [decide_eq_true_eq, maxAbs_le_iff] at h
  exact h

theorem range_map_getElem! {α : Type} [Inhabited α] (f : Nat → α) {n i : Nat} (hi : i < n) :
    ((List.range n).map f)[i]! = f i := by
  rw [getElem!_pos _ i (by simpa using hi)]
  simp

/-- `List.eraseDups` removes all duplicates. -/
theorem eraseDups_nodup : ∀ (k : Nat) (l : List Nat), l.length ≤ k → l.eraseDups.Nodup := by
  intro k
  induction k with
  | zero =>
    intro l hl
    have : l = [] := List.length_eq_zero_iff.1 (by omega)
    subst this
    simp
  | succ k ih =>
    intro l hl
    cases l with
    | nil => simp
    | cons a as =>
      rw [List.eraseDups_cons, List.nodup_cons]
      refine ⟨?_, ih _ ?_⟩
      · rw [List.mem_eraseDups, List.mem_filter]
        simp
      · have := List.length_filter_le (fun b => !b == a) as
        simp only [List.length_cons] at hl
        omega

theorem nodup_eraseDups (l : List Nat) : l.eraseDups.Nodup := eraseDups_nodup l.length l (Nat.le_refl _)

/-- A duplicate-free list contained in a list of the same length exhausts it. -/
theorem subset_of_nodup_subset_length {js sh : List Nat} (hn : js.Nodup) (hsub : js ⊆ sh)
    (hlen : sh.length = js.length) : sh ⊆ js := by
  have hsp : js.Subperm sh := List.subperm_of_subset hn hsub
  have hp : js.Perm sh := hsp.perm_of_length_le (by omega)
  exact hp.symm.subset

theorem matClose_complete {p q : QM3} {tol : Rat} (h : EntriesClose p q tol) : matClose p q tol = true := by
  unfold matClose
  rw [decide_eq_true_eq, maxAbs_le_iff]
  exact h

theorem matClose_iff {p q : QM3} {tol : Rat} : matClose p q tol = true ↔ EntriesClose p q tol :=
  ⟨matClose_sound, matClose_complete⟩

theorem cap_of_nil {xs : List String} {k : Nat} (h : xs = []) : cap xs k = [] := by subst h; simp [cap]

theorem take_of_nil {α : Type} {xs : List α} {k : Nat} (h : xs = []) : xs.take k = [] := by subst h; simp

/-- When like atoms are separated, the site search returns *the* site the point lies on. -/
theorem find_eq_some_of_separated {c : CellQ} {y : Q3} {sp : Int} {r2 : Rat} {j : Nat}
    (hA : c.lat.det ≠ 0) (hw : Window c.lat r2) (hsep : Separated c r2)
    (hj : j < c.n) (hs : c.num[j]! = sp) (hp : PeriodicWithin c.lat (y.sub c.pos[j]!) r2) :
    (SiteIndex.build c).find y sp r2 = some j := by
  obtain ⟨k, hk⟩ := Option.isSome_iff_exists.1 (find_isSome_complete hA hw ⟨j, hj, hs, hp⟩)
  obtain ⟨k1, k2, k3⟩ := find_sound hk
  rw [hk, hsep y k j k1 hj (k2.trans hs.symm) k3 hp]

/-- `(k + 1/2)² ≥ 1/4` for integers, in the form `k (k + 1) ≥ 0`. -/
theorem int_half_sq (k : Int) : (0 : Rat) ≤ (k : Rat) * ((k : Rat) + 1) := by
  have : (0 : Int) ≤ k * (k + 1) := by
    rcases le_or_gt 0 k with h | h
    · exact Int.mul_nonneg h (by omega)
    · nlinarith
  exact_mod_cast this

end Moyo.OracleP
