import Moyo.Proofs.C16TypesEval
import Moyo.Proofs.Tables
import Moyo.Tables.TypesAll
/-
C16 (g) within an arithmetic class: from the Boolean row checkers of `Moyo/Tables/TypeInv.lean`
(decided in `Moyo/Tables/TypesC*.lean`, `PrimRotC*.lean`, `TypesAll.lean`) to statements.
-/
namespace Moyo.Tables
open Moyo Moyo.Generated Moyo.TableSpec Moyo.TypeInvariant Moyo.TypeInv

theorem vecsMod_nodup_of_specsOK {k : Nat} (h : specsOK k = true) :
    ∀ s ∈ C16.typeSpecs k, (vecsMod s.m).Nodup := by
  intro s hs
  have := List.all_eq_true.1 h s hs
  simp only [Bool.or_eq_true, beq_iff_eq] at this
  rcases this with (h2 | h3) | h4
  · rw [h2]; exact vecsMod_nodup_2
  · rw [h3]; exact vecsMod_nodup_3
  · rw [h4]; exact vecsMod_nodup_4

/-- **Invariance of the class vector.** -/
theorem typeInvOf_eq_of_affConj {k : Nat} (hk : specsOK k = true) {src tgt : List HOp}
    (hs : (src.map (·.rot)).Nodup) (ht : (tgt.map (·.rot)).Nodup) (h : AffConj src tgt) :
    typeInvOf k src = typeInvOf k tgt := by
  unfold typeInvOf
  have hs' := keyNodup_of_rotNodup hs
  have ht' := keyNodup_of_rotNodup ht
  rw [invVecT_eq_of_affConj _ (vecsMod_nodup_of_specsOK hk) hs' ht' h]
  congr 1
  refine List.flatMap_congr fun s _ => ?_
  exact rotInv_eq_of_affConj rotTypes s hs' ht' h

theorem prim_rots_nodup (h : Nat) (h1 : 1 ≤ h) (h2 : h ≤ 530) : ((hallPrimOps h).map (·.rot)).Nodup := by
  have := prim_rots_rows h h1 h2
  simp only [primRotsOK, Bool.and_eq_true] at this
  exact (rotsDistinct_iff _).1 this.2

theorem arithOfHall_eq {h : Nat} {e : HallEntry} (he : hallEntry h = some e) : arithOfHall h = e.arithmeticNumber := by
  simp only [arithOfHall, chunkGet_hall]
  rw [show hallTableList[h - 1]? = some e from he]
  rfl

structure TypeRowFacts (n : Nat) : Prop where
  specs : specsOK (classOfType n) = true
  inv : typeInvOf (classOfType n) (hallPrimOps (firstHall n)) = typeCert n

theorem typeRow_facts (n : Nat) (h1 : 1 ≤ n) (h2 : n ≤ 230) : TypeRowFacts n := by
  have := types_rows n h1 h2
  simp only [typeRowOK, Bool.and_eq_true, beq_iff_eq, decide_eq_true_eq] at this
  exact ⟨this.1.2, this.2⟩

/-- Types with the same arithmetic class and the same certificate vector are equal. -/
theorem type_eq_of_cert_eq {n n' : Nat} (h1 : 1 ≤ n) (h2 : n ≤ 230) (h1' : 1 ≤ n') (h2' : n' ≤ 230)
    (hc : classOfType n = classOfType n') (hv : typeCert n = typeCert n') : n = n' := by
  have hnd := (pairwiseDistinct_iff _).1 types_distinct
  have hinj := List.inj_on_of_nodup_map hnd
  exact hinj (List.mem_range'_1.2 ⟨h1, by omega⟩) (List.mem_range'_1.2 ⟨h1', by omega⟩) (by rw [hc, hv])

end Moyo.Tables
