import Moyo.Proofs.Identify
import Moyo.Props.C15
import Mathlib.Tactic.FieldSimp
/-
`solve_mod1` (stage S5): completeness for exactly solvable systems.
If `a x₀ ≡ b (mod 1)` has an exact rational solution then the Smith-normal-form procedure of
`solve_mod1` returns an exact solution modulo 1, for every `eps ≥ 0`.
Uses `D = L a R` (`C15.snf_decomp`), unimodularity of `L`, `R` and diagonality of `D`.
-/
namespace Moyo.S5
open Moyo Moyo.NF Matrix

/-! ### Integer-valued rationals -/

def IsInt (q : ℚ) : Prop := ∃ n : ℤ, q = (n : ℚ)

theorem IsInt.zero : IsInt 0 := ⟨0, by simp⟩
theorem IsInt.intCast (n : ℤ) : IsInt (n : ℚ) := ⟨n, rfl⟩
theorem IsInt.add {p q : ℚ} (hp : IsInt p) (hq : IsInt q) : IsInt (p + q) := by
  obtain ⟨a, rfl⟩ := hp; obtain ⟨b, rfl⟩ := hq; exact ⟨a + b, by push_cast; rfl⟩
theorem IsInt.sub {p q : ℚ} (hp : IsInt p) (hq : IsInt q) : IsInt (p - q) := by
  obtain ⟨a, rfl⟩ := hp; obtain ⟨b, rfl⟩ := hq; exact ⟨a - b, by push_cast; rfl⟩
theorem IsInt.neg {p : ℚ} (hp : IsInt p) : IsInt (-p) := by
  obtain ⟨a, rfl⟩ := hp; exact ⟨-a, by push_cast; rfl⟩
theorem IsInt.mul {p q : ℚ} (hp : IsInt p) (hq : IsInt q) : IsInt (p * q) := by
  obtain ⟨a, rfl⟩ := hp; obtain ⟨b, rfl⟩ := hq; exact ⟨a * b, by push_cast; rfl⟩

theorem isInt_sum {k : Nat} (f : Fin k → ℚ) (h : ∀ i, IsInt (f i)) : IsInt (∑ i, f i) := by
  classical
  apply Finset.sum_induction f IsInt (fun _ _ => IsInt.add) IsInt.zero
  intro i _; exact h i

def IntVec {k : Nat} (v : Fin k → ℚ) : Prop := ∀ i, IsInt (v i)

theorem toQ_mulVec_int {m n : Nat} (M : IMat m n) {v : Fin n → ℚ} (hv : IntVec v) : IntVec (toQ M *ᵥ v) := by
  intro i
  simp only [Matrix.mulVec, dotProduct]
  exact isInt_sum _ fun j => IsInt.mul (IsInt.intCast _) (hv j)

theorem ratRound_intCast (n : ℤ) : ratRound (n : ℚ) = n := by
  unfold ratRound
  split
  · have h1 := Rat.floor_le ((n : ℚ) + 1 / 2)
    have h2 := Rat.lt_floor_add_one ((n : ℚ) + 1 / 2)
    push_cast at h2
    have a : (((n : ℚ) + 1 / 2).floor : ℚ) < (n : ℚ) + 1 := by linarith
    have b : (n : ℚ) < (((n : ℚ) + 1 / 2).floor : ℚ) + 1 := by linarith
    have a' : ((n : ℚ) + 1 / 2).floor < n + 1 := by exact_mod_cast a
    have b' : n < ((n : ℚ) + 1 / 2).floor + 1 := by exact_mod_cast b
    omega
  · have h1 := Rat.floor_le (-(n : ℚ) + 1 / 2)
    have h2 := Rat.lt_floor_add_one (-(n : ℚ) + 1 / 2)
    push_cast at h2
    have a : ((-(n : ℚ) + 1 / 2).floor : ℚ) < -(n : ℚ) + 1 := by linarith
    have b : -(n : ℚ) < ((-(n : ℚ) + 1 / 2).floor : ℚ) + 1 := by linarith
    have a' : (-(n : ℚ) + 1 / 2).floor < -n + 1 := by exact_mod_cast a
    have b' : -n < (-(n : ℚ) + 1 / 2).floor + 1 := by exact_mod_cast b
    omega

theorem ratWrap_of_isInt {q : ℚ} (h : IsInt q) : ratWrap q = 0 := by
  obtain ⟨n, rfl⟩ := h
  unfold ratWrap
  rw [ratRound_intCast]; simp

theorem ratAbs_wrap_of_isInt {q eps : ℚ} (h : IsInt q) (he : 0 ≤ eps) : ratAbs (ratWrap q) ≤ eps := by
  rw [ratWrap_of_isInt h]
  unfold ratAbs
  simpa using he

theorem ratTruncFrac_isInt (q : ℚ) : IsInt (q - ratTruncFrac q) := by
  unfold ratTruncFrac
  split
  · exact ⟨q.floor, by ring⟩
  · exact ⟨q.ceil, by ring⟩

/-! ### Bridge to Mathlib matrices -/

def vec3 (x : Q3) : Fin 3 → ℚ := ![x.x, x.y, x.z]

theorem rowDot_eq {m : Nat} (a : IMat m 3) (i : Fin m) (x : Q3) : rowDot a i x = (toQ a *ᵥ vec3 x) i := by
  simp [rowDot, Matrix.mulVec, dotProduct, Fin.sum_univ_three, toQ, vec3]

theorem ratSumFin_eq_sum {n : Nat} (f : Fin n → ℚ) : ratSumFin f = ∑ k, f k := by
  unfold ratSumFin
  induction n with
  | zero => simp [Fin.foldl_zero]
  | succ n ih => rw [Fin.foldl_succ_last, Fin.sum_univ_castSucc, ← ih]

theorem smithLb_get {m : Nat} (hm : 3 ≤ m) (l : IMat m m) (b : Vector Rat m) (i : Fin 3) :
    (smithLb hm l b)[i] = (toQ l *ᵥ fun j => b[j]) ⟨i.val, by omega⟩ := by
  simp [smithLb, Vector.getElem_ofFn, ratSumFin_eq_sum, Matrix.mulVec, dotProduct, toQ]

theorem smithDiag_get {m : Nat} (hm : 3 ≤ m) (d : IMat m 3) (i : Fin 3) :
    (smithDiag hm d)[i] = d.get ⟨i.val, by omega⟩ i := by
  simp [smithDiag, Vector.getElem_ofFn]

/-- Product of a diagonal-shaped `m × 3` matrix with a vector. -/
theorem diag_mulVec {m : Nat} (D : Matrix (Fin m) (Fin 3) ℚ)
    (hd : ∀ (i : Fin m) (j : Fin 3), i.val ≠ j.val → D i j = 0) (v : Fin 3 → ℚ) (i : Fin m) :
    (D *ᵥ v) i = if h : i.val < 3 then D i ⟨i.val, h⟩ * v ⟨i.val, h⟩ else 0 := by
  simp only [Matrix.mulVec, dotProduct, Fin.sum_univ_three]
  split
  · rename_i h
    have : i.val = 0 ∨ i.val = 1 ∨ i.val = 2 := by omega
    rcases this with h0 | h0 | h0
    · rw [hd i 1 (by simp [h0]), hd i 2 (by simp [h0])]
      have : (⟨i.val, h⟩ : Fin 3) = 0 := by ext; simp [h0]
      rw [this]; ring
    · rw [hd i 0 (by simp [h0]), hd i 2 (by simp [h0])]
      have : (⟨i.val, h⟩ : Fin 3) = 1 := by ext; simp [h0]
      rw [this]; ring
    · rw [hd i 0 (by simp [h0]), hd i 1 (by simp [h0])]
      have : (⟨i.val, h⟩ : Fin 3) = 2 := by ext; simp [h0]
      rw [this]; ring
  · rename_i h
    rw [hd i 0 (by simp; omega), hd i 1 (by simp; omega), hd i 2 (by simp; omega)]
    ring

/-! ### The algebraic core -/

/-- Smith-form solution of a system that is exactly solvable modulo 1. -/
theorem smith_core {m : Nat} (hm : 3 ≤ m)
    (A D : Matrix (Fin m) (Fin 3) ℚ) (L L' : Matrix (Fin m) (Fin m) ℚ) (R R' : Matrix (Fin 3) (Fin 3) ℚ)
    (hD : D = L * A * R) (hL : L' * L = 1) (hR : R * R' = 1)
    (hLint : ∀ v : Fin m → ℚ, IntVec v → IntVec (L *ᵥ v))
    (hL'int : ∀ v : Fin m → ℚ, IntVec v → IntVec (L' *ᵥ v))
    (hd : ∀ (i : Fin m) (j : Fin 3), i.val ≠ j.val → D i j = 0)
    (b : Fin m → ℚ) (x0 : Fin 3 → ℚ) (hx0 : IntVec (A *ᵥ x0 - b)) :
    (∀ j : Fin 3, D ⟨j.val, by omega⟩ j = 0 → IsInt ((L *ᵥ b) ⟨j.val, by omega⟩)) ∧
    ∀ y : Fin 3 → ℚ,
      (∀ j : Fin 3, D ⟨j.val, by omega⟩ j ≠ 0 → D ⟨j.val, by omega⟩ j * y j = (L *ᵥ b) ⟨j.val, by omega⟩) →
      (∀ j : Fin 3, D ⟨j.val, by omega⟩ j = 0 → y j = 0) →
      IntVec (A *ᵥ (R *ᵥ y) - b) := by
  -- y0 = R' x0 solves the diagonal system up to the integer vector e = L (A x0 - b)
  set e := L *ᵥ (A *ᵥ x0 - b) with he
  have heint : IntVec e := hLint _ hx0
  set y0 := R' *ᵥ x0 with hy0
  have hDy0 : D *ᵥ y0 = L *ᵥ b + e := by
    rw [hy0, he, hD, Matrix.mulVec_mulVec, Matrix.mul_assoc (L * A) R R', hR, Matrix.mul_one,
      ← Matrix.mulVec_mulVec, ← Matrix.mulVec_add]
    congr 1
    ext i; simp
  have hLb : ∀ i, (L *ᵥ b) i = (D *ᵥ y0) i - e i := by
    intro i
    have := congrFun hDy0 i
    simp only [Pi.add_apply] at this
    linarith
  refine ⟨?_, ?_⟩
  · intro j hj
    rw [hLb, diag_mulVec D hd]
    have hlt : (⟨j.val, by omega⟩ : Fin m).val < 3 := j.isLt
    rw [dif_pos hlt]
    have : (⟨(⟨j.val, by omega⟩ : Fin m).val, hlt⟩ : Fin 3) = j := by ext; rfl
    rw [this, hj, zero_mul, zero_sub]
    exact (heint _).neg
  · intro y hy1 hy2
    -- r = D y - L b is an integer vector
    have hr : IntVec (D *ᵥ y - L *ᵥ b) := by
      intro i
      simp only [Pi.sub_apply]
      rw [hLb i, diag_mulVec D hd y i, diag_mulVec D hd y0 i]
      split
      · rename_i h
        have hi : (⟨(⟨i.val, h⟩ : Fin 3).val, by omega⟩ : Fin m) = i := by ext; rfl
        by_cases hz : D i ⟨i.val, h⟩ = 0
        · have hy := hy2 ⟨i.val, h⟩ (by rw [hi]; exact hz)
          rw [hz, hy]
          simpa using heint i
        · have hy := hy1 ⟨i.val, h⟩ (by rw [hi]; exact hz)
          rw [hi] at hy
          rw [hy, hLb i, diag_mulVec D hd y0 i, dif_pos h]
          simpa using IsInt.zero
      · simpa using heint i
    have h1 : L' * D = A * R := by
      rw [hD, ← Matrix.mul_assoc, ← Matrix.mul_assoc, hL, Matrix.one_mul]
    have key : A *ᵥ (R *ᵥ y) - b = L' *ᵥ (D *ᵥ y - L *ᵥ b) := by
      rw [Matrix.mulVec_sub, Matrix.mulVec_mulVec, Matrix.mulVec_mulVec, Matrix.mulVec_mulVec, h1, hL,
        Matrix.one_mulVec]
    rw [key]
    exact hL'int _ hr

/-! ### `solve_mod1` on an exactly solvable system -/

theorem toQ_one (n : Nat) : toQ (IMat.one n) = 1 := by
  ext i j
  simp [toQ, IMat.one, Matrix.one_apply]

theorem smithY_some {d : Vector Int 3} {lb : Vector Rat 3} {eps : Rat}
    (h : ∀ i : Fin 3, d[i] = 0 → ratAbs (ratWrap lb[i]) ≤ eps) :
    ∃ y, smithY d lb eps = some y ∧
      ∀ j : Fin 3, vec3 y j = if d[j] = 0 then 0 else lb[j] / (d[j] : Rat) := by
  unfold smithY
  rw [if_neg]
  · refine ⟨_, rfl, ?_⟩
    intro j
    fin_cases j <;> simp [vec3]
  · simp only [List.any_eq_true, List.mem_finRange, true_and, Bool.and_eq_true, beq_iff_eq, decide_eq_true_eq,
      not_exists, not_and, not_lt]
    intro i hi
    exact h i hi

theorem vec3_smithX (r : IMat 3 3) (y : Q3) : ∃ t : Fin 3 → ℚ, IntVec t ∧ vec3 (smithX r y) = toQ r *ᵥ vec3 y - t := by
  refine ⟨fun i => (toQ r *ᵥ vec3 y) i - vec3 (smithX r y) i, ?_, ?_⟩
  · intro i
    fin_cases i
    · show IsInt ((toQ r *ᵥ vec3 y) 0 - ratTruncFrac (rowDot r 0 y))
      rw [← rowDot_eq]; exact ratTruncFrac_isInt _
    · show IsInt ((toQ r *ᵥ vec3 y) 1 - ratTruncFrac (rowDot r 1 y))
      rw [← rowDot_eq]; exact ratTruncFrac_isInt _
    · show IsInt ((toQ r *ᵥ vec3 y) 2 - ratTruncFrac (rowDot r 2 y))
      rw [← rowDot_eq]; exact ratTruncFrac_isInt _
  · ext i; simp

/-- If `a x₀ − b` is an integer vector for some rational `x₀`, `solve_mod1` (model) returns an `x`
with `a x − b` an integer vector, for every tolerance `eps ≥ 0`. -/
theorem solveMod1_complete {m : Nat} (hm : 3 ≤ m) (a : IMat m 3) (b : Vector Rat m) (eps : Rat)
    (heps : 0 ≤ eps) (x0 : Q3) (hx0 : ∀ i : Fin m, IsInt (rowDot a i x0 - b[i])) :
    ∃ x, solveMod1 a b eps = some x ∧ ∀ i : Fin m, IsInt (rowDot a i x - b[i]) := by
  obtain ⟨L'i, _, hL'i⟩ := C15.snf_unimodular_l a
  obtain ⟨R'i, hR'i, _⟩ := C15.snf_unimodular_r a
  have hD : toQ (snf a).d = toQ (snf a).l * toQ a * toQ (snf a).r := by
    rw [← toQ_mul, ← toQ_mul, ← C15.snf_decomp]
  have hL : toQ L'i * toQ (snf a).l = 1 := by rw [← toQ_mul, hL'i, toQ_one]
  have hR : toQ (snf a).r * toQ R'i = 1 := by rw [← toQ_mul, hR'i, toQ_one]
  have hd : ∀ (i : Fin m) (j : Fin 3), i.val ≠ j.val → toQ (snf a).d i j = 0 := by
    intro i j hij
    simp [toQ, C15.snf_diagonal a i j hij]
  have hx0' : IntVec (toQ a *ᵥ vec3 x0 - fun j => b[j]) := by
    intro i
    simpa [← rowDot_eq] using hx0 i
  obtain ⟨part1, part2⟩ := smith_core hm (toQ a) (toQ (snf a).d) (toQ (snf a).l) (toQ L'i) (toQ (snf a).r)
    (toQ R'i) hD hL hR (fun v hv => toQ_mulVec_int _ hv) (fun v hv => toQ_mulVec_int _ hv) hd
    (fun j => b[j]) (vec3 x0) hx0'
  -- the first loop succeeds
  have hdq : ∀ j : Fin 3, toQ (snf a).d ⟨j.val, by omega⟩ j = ((smithDiag hm (snf a).d)[j] : ℚ) := by
    intro j; rw [smithDiag_get]; rfl
  obtain ⟨y, hY, hyv⟩ := smithY_some (d := smithDiag hm (snf a).d) (lb := smithLb hm (snf a).l b) (eps := eps) (by
    intro i hi
    apply ratAbs_wrap_of_isInt _ heps
    rw [smithLb_get]
    apply part1 i
    rw [hdq i, hi]; simp)
  have hsol := part2 (vec3 y) (by
      intro j hj
      rw [hdq j] at hj ⊢
      have hne : (smithDiag hm (snf a).d)[j] ≠ 0 := by
        intro h0; apply hj; rw [h0]; simp
      rw [hyv j, if_neg hne, ← smithLb_get, mul_div_cancel₀ _ hj]) (by
      intro j hj
      rw [hdq j] at hj
      have h0 : (smithDiag hm (snf a).d)[j] = 0 := by exact_mod_cast hj
      rw [hyv j, if_pos h0])
  obtain ⟨t, htint, htx⟩ := vec3_smithX (snf a).r y
  have hfinal : ∀ i : Fin m, IsInt (rowDot a i (smithX (snf a).r y) - b[i]) := by
    intro i
    rw [rowDot_eq, htx, Matrix.mulVec_sub]
    have h1 := hsol i
    have h2 := toQ_mulVec_int a htint i
    have := h1.sub h2
    simp only [Pi.sub_apply] at this ⊢
    convert this using 1
    ring
  refine ⟨smithX (snf a).r y, ?_, hfinal⟩
  unfold solveMod1
  rw [dif_pos hm]
  simp only [hY]
  rw [if_pos]
  rw [residualOK_iff]
  intro i
  exact ratAbs_wrap_of_isInt (hfinal i) heps

end Moyo.S5
