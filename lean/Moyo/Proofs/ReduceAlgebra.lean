import Moyo.Model.ReduceSpec
import Mathlib.Tactic.Ring
import Mathlib.Tactic.Linarith
import Mathlib.Tactic.FieldSimp
import Mathlib.Algebra.Order.Field.Rat
/-
Helper lemmas for C14: algebra of `M3` / `QM3` (determinant multiplicative, associativity),
determinants of the step matrices, traces.
-/
namespace Moyo.Reduce
open Moyo

theorem M3.det_mul (p q : M3) : (p.mul q).det = p.det * q.det := by
  simp only [M3.mul, M3.det]; ring

theorem M3.det_one : M3.one.det = 1 := by decide

theorem M3.det_neg (p : M3) : p.neg.det = -p.det := by
  simp only [M3.neg, M3.smul, M3.det]; ring

theorem QM3.det_mul (p q : QM3) : (p.mul q).det = p.det * q.det := by
  simp only [QM3.mul, QM3.det]; ring

theorem QM3.mul_assoc (p q r : QM3) : (p.mul q).mul r = p.mul (q.mul r) := by
  simp only [QM3.mul, QM3.mk.injEq]
  refine ⟨?_, ?_, ?_, ?_, ?_, ?_, ?_, ?_, ?_⟩ <;> ring

theorem QM3.mul_one (p : QM3) : p.mul QM3.one = p := by
  cases p; simp [QM3.mul, QM3.one]

theorem QM3.ofM3_mul (p q : M3) : QM3.ofM3 (p.mul q) = (QM3.ofM3 p).mul (QM3.ofM3 q) := by
  simp only [QM3.ofM3, M3.mul, QM3.mul, QM3.mk.injEq]
  refine ⟨?_, ?_, ?_, ?_, ?_, ?_, ?_, ?_, ?_⟩ <;> push_cast <;> ring

theorem QM3.ofM3_one : QM3.ofM3 M3.one = QM3.one := by
  simp [QM3.ofM3, M3.one, QM3.one]

theorem QM3.ofM3_det (p : M3) : (QM3.ofM3 p).det = (p.det : Rat) := by
  simp only [QM3.ofM3, QM3.det, M3.det]; push_cast; ring

theorem QM3.ofM3_neg (p : M3) : QM3.ofM3 p.neg = QM3.smul (-1) (QM3.ofM3 p) := by
  simp only [QM3.ofM3, M3.neg, M3.smul, QM3.smul, QM3.mk.injEq]
  refine ⟨?_, ?_, ?_, ?_, ?_, ?_, ?_, ?_, ?_⟩ <;> push_cast <;> ring

/-- Determinant of a trace is the product of the determinants of its steps. -/
theorem applyTrace_det_aux (ms : List M3) (acc : M3) :
    (ms.foldl M3.mul acc).det = acc.det * (ms.map M3.det).prod := by
  induction ms generalizing acc with
  | nil => simp
  | cons m ms ih => simp [List.foldl, ih, M3.det_mul, mul_assoc]

theorem applyTrace_det (ms : List M3) : (applyTrace ms).det = (ms.map M3.det).prod := by
  simp [applyTrace, applyTrace_det_aux, M3.det_one]

theorem prod_pm_one (ds : List Int) (h : ∀ d ∈ ds, d = 1 ∨ d = -1) : ds.prod = 1 ∨ ds.prod = -1 := by
  induction ds with
  | nil => simp
  | cons d ds ih =>
    have hd := h d (by simp)
    have ht := ih (fun x hx => h x (by simp [hx]))
    rw [List.prod_cons]
    rcases hd with hd | hd <;> rcases ht with ht | ht <;> simp [hd, ht]

theorem prod_one (ds : List Int) (h : ∀ d ∈ ds, d = 1) : ds.prod = 1 := by
  induction ds with
  | nil => simp
  | cons d ds ih =>
    rw [List.prod_cons, h d (by simp), ih (fun x hx => h x (by simp [hx]))]; rfl

theorem MStep.det_mat (s : MStep) :
    s.mat.det = match s with
      | .swap01 => -1
      | .swap12 => -1
      | .sub1 _ => 1
      | .sub2 _ _ => 1 := by
  cases s <;> simp [MStep.mat, M3.det]

theorem step3Mat_det (sx sy sz : Sgn) : ((step3Mat sx sy sz).getD M3.one).det = 1 := by
  cases sx <;> cases sy <;> cases sz <;> decide

theorem step4Mat_det (sx sy sz : Sgn) : ((step4Mat sx sy sz).getD M3.one).det = 1 := by
  cases sx <;> cases sy <;> cases sz <;> decide

theorem NStep.det_mat (s : NStep) : s.mat.det = 1 := by
  cases s with
  | s1 => decide
  | s2 => decide
  | s3 sx sy sz => exact step3Mat_det sx sy sz
  | s4 sx sy sz => exact step4Mat_det sx sy sz
  | s5 sx => simp [NStep.mat, M3.det]
  | s6 sy => simp [NStep.mat, M3.det]
  | s7 sz => simp [NStep.mat, M3.det]
  | s8 => decide

theorem updMat_det : ∀ (i : Fin 3) (j : Fin 4), (updMat i j).det = -1 := by decide

/-- Applying a Minkowski step to the columns of a rational basis is right multiplication by its matrix. -/
theorem MStep.act_eq (B : QM3) (s : MStep) : s.act B = B.mul (QM3.ofM3 s.mat) := by
  cases s <;> simp only [MStep.act, MStep.mat, swapCols01, swapCols12, QM3.mul, QM3.ofM3, QM3.mk.injEq] <;>
    refine ⟨?_, ?_, ?_, ?_, ?_, ?_, ?_, ?_, ?_⟩ <;> push_cast <;> ring

theorem actTrace_eq_aux (tr : List MStep) (B0 : QM3) (acc : M3) :
    tr.foldl MStep.act (B0.mul (QM3.ofM3 acc)) = B0.mul (QM3.ofM3 ((tr.map MStep.mat).foldl M3.mul acc)) := by
  induction tr generalizing acc with
  | nil => simp
  | cons s tr ih =>
    simp only [List.foldl, List.map]
    rw [MStep.act_eq, QM3.mul_assoc, ← QM3.ofM3_mul, ih]

theorem firstGood_spec (l : List (Fin 7 × Fin 7 × Fin 7)) : goodTriple (firstGood l) = true := by
  unfold firstGood
  cases h : l.find? goodTriple with
  | none => decide
  | some t => exact List.find?_some h

theorem selectGuarded_spec (order : List (Fin 7)) :
    (selMat (selectGuarded order).1 (selectGuarded order).2.1 (selectGuarded order).2.2).det.natAbs = 1 := by
  have h := firstGood_spec (triples7.map fun t => (order.getD t.1 0, order.getD t.2.1 0, order.getD t.2.2 0))
  simpa [goodTriple, selectGuarded] using h

end Moyo.Reduce
