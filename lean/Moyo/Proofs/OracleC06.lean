import Moyo.Spec.C06
import Moyo.Proofs.OracleSite
/-
Helper lemmas for the soundness proof of `Oracle.checkC06` (`Moyo/Props/C06.lean`).
-/
namespace Moyo.OracleP
open Moyo Moyo.Oracle Moyo.Spec Moyo.Periodic

/-- `rabs x ≤ b` says `x ∈ [-b, b]`. -/
theorem rabs_le_iff (x b : Rat) : rabs x ≤ b ↔ -b ≤ x ∧ x ≤ b := by
  unfold rabs
  constructor
  · intro h; split at h <;> constructor <;> linarith
  · rintro ⟨h1, h2⟩; split <;> linarith

/-- The determinant of an integer matrix, computed over `ℚ`. -/
theorem det_ofM3 (Z : M3) : (QM3.ofM3 Z).det = (Z.det : Rat) := by
  simp only [QM3.ofM3, QM3.det, M3.det]
  push_cast
  ring

theorem ofM3_injective {p q : M3} (h : QM3.ofM3 p = QM3.ofM3 q) : p = q := by
  cases p; cases q
  simp only [QM3.ofM3, QM3.mk.injEq, Int.cast_inj] at h
  simp only [M3.mk.injEq]
  exact h

end Moyo.OracleP
