import Moyo.Proofs.OracleGroup
import Moyo.Model.Oracle
import Mathlib.Tactic.Ring
import Mathlib.Tactic.Linarith
import Mathlib.Tactic.FieldSimp
import Mathlib.Tactic.Push
/-
Matrix algebra on the plain structures `QM3` / `M3` (all by `ring` after unfolding), the exact
conjugation theorem `conj_exact` (operations found in one cell are symmetries of any other cell
description), and `expectedOps_conj`: what `Oracle.expectedOps` produces.
-/
namespace Moyo

namespace QM3

theorem mul_assoc (p q r : QM3) : (p.mul q).mul r = p.mul (q.mul r) := by
  simp only [QM3.mul, QM3.mk.injEq]
  refine ⟨?_, ?_, ?_, ?_, ?_, ?_, ?_, ?_, ?_⟩ <;> ring

theorem one_mul (p : QM3) : QM3.one.mul p = p := by
  cases p; simp [QM3.mul, QM3.one]

theorem mul_one (p : QM3) : p.mul QM3.one = p := by
  cases p; simp [QM3.mul, QM3.one]

theorem transpose_mul (p q : QM3) : (p.mul q).transpose = q.transpose.mul p.transpose := by
  simp only [QM3.mul, QM3.transpose, QM3.mk.injEq]
  refine ⟨?_, ?_, ?_, ?_, ?_, ?_, ?_, ?_, ?_⟩ <;> ring

theorem mul_sub (p q r : QM3) : p.mul (q.sub r) = (p.mul q).sub (p.mul r) := by
  simp only [QM3.mul, QM3.sub, QM3.mk.injEq]
  refine ⟨?_, ?_, ?_, ?_, ?_, ?_, ?_, ?_, ?_⟩ <;> ring

theorem sub_mul (p q r : QM3) : (p.sub q).mul r = (p.mul r).sub (q.mul r) := by
  simp only [QM3.mul, QM3.sub, QM3.mk.injEq]
  refine ⟨?_, ?_, ?_, ?_, ?_, ?_, ?_, ?_, ?_⟩ <;> ring

theorem det_mul (p q : QM3) : (p.mul q).det = p.det * q.det := by
  simp only [QM3.mul, QM3.det]; ring

theorem ofM3_mul (p q : M3) : QM3.ofM3 (p.mul q) = (QM3.ofM3 p).mul (QM3.ofM3 q) := by
  simp only [QM3.ofM3, M3.mul, QM3.mul, QM3.mk.injEq]
  refine ⟨?_, ?_, ?_, ?_, ?_, ?_, ?_, ?_, ?_⟩ <;> push_cast <;> ring

theorem ofM3_det (p : M3) : (QM3.ofM3 p).det = (p.det : Rat) := by
  simp only [QM3.ofM3, M3.det, QM3.det]; push_cast; ring

theorem mul_inv_cancel (p : QM3) (h : p.det ≠ 0) : p.mul p.inv = QM3.one := by
  obtain ⟨a, b, c, d, e, f, g, hh, i⟩ := p
  simp only [QM3.det] at h
  simp only [QM3.inv, QM3.smul, QM3.adj, QM3.mul, QM3.det, QM3.one, QM3.mk.injEq]
  generalize hD : a * (e * i - f * hh) - b * (d * i - f * g) + c * (d * hh - e * g) = D at h
  refine ⟨?_, ?_, ?_, ?_, ?_, ?_, ?_, ?_, ?_⟩ <;> field_simp <;> rw [← hD] <;> ring

theorem inv_mul_cancel (p : QM3) (h : p.det ≠ 0) : p.inv.mul p = QM3.one := by
  obtain ⟨a, b, c, d, e, f, g, hh, i⟩ := p
  simp only [QM3.det] at h
  simp only [QM3.inv, QM3.smul, QM3.adj, QM3.mul, QM3.det, QM3.one, QM3.mk.injEq]
  generalize hD : a * (e * i - f * hh) - b * (d * i - f * g) + c * (d * hh - e * g) = D at h
  refine ⟨?_, ?_, ?_, ?_, ?_, ?_, ?_, ?_, ?_⟩ <;> field_simp <;> rw [← hD] <;> ring

/-- A right inverse of a non-singular matrix is `QM3.inv`. -/
theorem inv_unique {p q : QM3} (h : p.det ≠ 0) (hq : p.mul q = QM3.one) : q = p.inv := by
  calc q = QM3.one.mul q := (one_mul q).symm
    _ = (p.inv.mul p).mul q := by rw [inv_mul_cancel p h]
    _ = p.inv.mul (p.mul q) := mul_assoc _ _ _
    _ = p.inv := by rw [hq, mul_one]

theorem inv_mul_rev {p q : QM3} (hp : p.det ≠ 0) (hq : q.det ≠ 0) : (p.mul q).inv = q.inv.mul p.inv := by
  symm
  apply inv_unique (by rw [det_mul]; exact mul_ne_zero hp hq)
  calc (p.mul q).mul (q.inv.mul p.inv) = p.mul ((q.mul q.inv).mul p.inv) := by
        rw [mul_assoc, ← mul_assoc q]
    _ = QM3.one := by rw [mul_inv_cancel q hq, one_mul, mul_inv_cancel p hp]

end QM3

namespace OracleP
open Moyo.Oracle

/-- **Exact conjugation.**  Let `R` act in a cell with basis `A` and metric `G`, and let the
input cell have basis `A·P` (`P` integer, `det P ≠ 0`, not necessarily unimodular: supercells).
If the integer matrix `N` satisfies `P N = R P` (i.e. `N = P⁻¹ R P` is integral) then
1. `det N = det R`;
2. the metric defect of `N` in the input cell is the metric defect of `R` conjugated by `P`:
   `NᵀG'N − G' = Pᵀ(RᵀGR − G)P` for `G' = PᵀGP` — in particular `N` preserves `G'` exactly
   when `R` preserves `G`;
3. the Cartesian operators agree: `(A P) N (A P)⁻¹ = A R A⁻¹`.
This is the mechanism by which operations found in the primitive cell are symmetries of the
input cell. -/
theorem conj_exact (P N R : M3) (h : P.mul N = R.mul P) (hP : P.det ≠ 0) :
    N.det = R.det ∧
    (∀ G : QM3,
      let G' := ((QM3.ofM3 P).transpose.mul G).mul (QM3.ofM3 P)
      (((QM3.ofM3 N).transpose.mul G').mul (QM3.ofM3 N)).sub G' =
        ((QM3.ofM3 P).transpose.mul ((((QM3.ofM3 R).transpose.mul G).mul (QM3.ofM3 R)).sub G)).mul
          (QM3.ofM3 P)) ∧
    (∀ A : QM3, A.det ≠ 0 →
      ((A.mul (QM3.ofM3 P)).mul (QM3.ofM3 N)).mul (A.mul (QM3.ofM3 P)).inv =
        (A.mul (QM3.ofM3 R)).mul A.inv) := by
  have hq : (QM3.ofM3 P).mul (QM3.ofM3 N) = (QM3.ofM3 R).mul (QM3.ofM3 P) := by
    rw [← QM3.ofM3_mul, ← QM3.ofM3_mul, h]
  have hPq : (QM3.ofM3 P).det ≠ 0 := by
    rw [QM3.ofM3_det]; exact_mod_cast hP
  refine ⟨?_, ?_, ?_⟩
  · have := congrArg M3.det h
    rw [M3.det_mul, M3.det_mul, mul_comm R.det] at this
    exact mul_left_cancel₀ hP this
  · intro G
    simp only
    generalize QM3.ofM3 P = p at hq
    generalize QM3.ofM3 N = n at hq
    generalize QM3.ofM3 R = r at hq
    have e1 : (n.transpose.mul ((p.transpose.mul G).mul p)).mul n =
        ((p.mul n).transpose.mul G).mul (p.mul n) := by
      rw [QM3.transpose_mul]; simp only [QM3.mul_assoc]
    rw [e1, hq, QM3.transpose_mul, QM3.mul_sub, QM3.sub_mul]
    simp only [QM3.mul_assoc]
  · intro A hA
    generalize QM3.ofM3 P = p at hq hPq
    generalize QM3.ofM3 N = n at hq
    generalize QM3.ofM3 R = r at hq
    rw [QM3.inv_mul_rev hA hPq]
    calc ((A.mul p).mul n).mul (p.inv.mul A.inv)
        = (A.mul (p.mul n)).mul (p.inv.mul A.inv) := by rw [QM3.mul_assoc A p n]
      _ = (A.mul r).mul ((p.mul p.inv).mul A.inv) := by rw [hq]; simp only [QM3.mul_assoc]
      _ = (A.mul r).mul A.inv := by rw [QM3.mul_inv_cancel p hPq, QM3.one_mul]

/-- Non-vacuity of `conj_exact`: the body-centred re-description `P` (det 2) and the fourfold
rotation about z: `N = P⁻¹ R P` is integral. -/
example : ∃ P N R : M3, P.mul N = R.mul P ∧ P.det = 2 ∧ N ≠ R :=
  ⟨⟨0, 1, 1, 1, 0, 1, 1, 1, 0⟩, ⟨1, 1, 1, 0, 0, -1, -1, 0, 0⟩, ⟨0, -1, 0, 1, 0, 0, 0, 0, 1⟩,
    by decide, by decide, by decide⟩

end OracleP

/-! ### `expectedOps` -/

theorem QM3.ofM3_adj (p : M3) : QM3.ofM3 p.adj = (QM3.ofM3 p).adj := by
  simp only [QM3.ofM3, M3.adj, QM3.adj, QM3.mk.injEq]
  refine ⟨?_, ?_, ?_, ?_, ?_, ?_, ?_, ?_, ?_⟩ <;> push_cast <;> ring

/-- `p (p⁻¹ w) = w`. -/
theorem QM3.apply_inv_apply (p : QM3) (h : p.det ≠ 0) (w : Q3) : p.apply (p.inv.apply w) = w := by
  obtain ⟨a, b, c, d, e, f, g, hh, i⟩ := p
  obtain ⟨x, y, z⟩ := w
  simp only [QM3.det] at h
  simp only [QM3.inv, QM3.smul, QM3.adj, QM3.apply, QM3.det, Q3.mk.injEq]
  generalize hD : a * (e * i - f * hh) - b * (d * i - f * g) + c * (d * hh - e * g) = D at h
  refine ⟨?_, ?_, ?_⟩ <;> field_simp <;> rw [← hD] <;> ring

theorem M3.applyQ_eq (p : M3) (v : Q3) : p.applyQ v = (QM3.ofM3 p).apply v := rfl

theorem M3.applyQ_add (p : M3) (u v : Q3) : p.applyQ (u.add v) = (p.applyQ u).add (p.applyQ v) := by
  simp only [M3.applyQ, Q3.add, Q3.mk.injEq]
  refine ⟨?_, ?_, ?_⟩ <;> ring

theorem M3.smul_cancel {k : Int} (hk : k ≠ 0) {p q : M3} (h : M3.smul k p = M3.smul k q) : p = q := by
  obtain ⟨a, b, c, d, e, f, g, hh, i⟩ := p
  obtain ⟨a', b', c', d', e', f', g', hh', i'⟩ := q
  simp only [M3.smul, M3.mk.injEq] at h
  obtain ⟨h1, h2, h3, h4, h5, h6, h7, h8, h9⟩ := h
  simp only [M3.mk.injEq]
  exact ⟨Int.eq_of_mul_eq_mul_left hk h1, Int.eq_of_mul_eq_mul_left hk h2,
    Int.eq_of_mul_eq_mul_left hk h3, Int.eq_of_mul_eq_mul_left hk h4,
    Int.eq_of_mul_eq_mul_left hk h5, Int.eq_of_mul_eq_mul_left hk h6,
    Int.eq_of_mul_eq_mul_left hk h7, Int.eq_of_mul_eq_mul_left hk h8,
    Int.eq_of_mul_eq_mul_left hk h9⟩

/-- `divExact` undoes the scaling when `divisibleBy` holds. -/
theorem M3.smul_divExact {p : M3} {k : Int} (h : p.divisibleBy k = true) :
    M3.smul k (p.divExact k) = p := by
  obtain ⟨a, b, c, d, e, f, g, hh, i⟩ := p
  simp only [M3.divisibleBy, M3.toList, List.all_cons, List.all_nil, Bool.and_true, Bool.and_eq_true,
    beq_iff_eq] at h
  obtain ⟨h1, h2, h3, h4, h5, h6, h7, h8, h9⟩ := h
  simp only [M3.smul, M3.divExact, M3.mk.injEq]
  exact ⟨Int.mul_ediv_cancel' (Int.dvd_of_emod_eq_zero h1), Int.mul_ediv_cancel' (Int.dvd_of_emod_eq_zero h2),
    Int.mul_ediv_cancel' (Int.dvd_of_emod_eq_zero h3), Int.mul_ediv_cancel' (Int.dvd_of_emod_eq_zero h4),
    Int.mul_ediv_cancel' (Int.dvd_of_emod_eq_zero h5), Int.mul_ediv_cancel' (Int.dvd_of_emod_eq_zero h6),
    Int.mul_ediv_cancel' (Int.dvd_of_emod_eq_zero h7), Int.mul_ediv_cancel' (Int.dvd_of_emod_eq_zero h8),
    Int.mul_ediv_cancel' (Int.dvd_of_emod_eq_zero h9)⟩

namespace OracleP
open Moyo.Oracle

/-- If `det P • N = adj P · R · P` then `P N = R P`. -/
theorem conj_of_adj {P N R : M3} (hP : P.det ≠ 0)
    (h : M3.smul P.det N = (P.adj.mul R).mul P) : P.mul N = R.mul P := by
  apply M3.smul_cancel hP
  rw [← M3.mul_smul, h, ← M3.mul_assoc, ← M3.mul_assoc, M3.mul_adj, M3.smul_mul, M3.smul_mul,
    M3.one_mul]

theorem mem_foldl_cond {α : Type} (p : List α → α → Bool) : ∀ (xs acc : List α) (x : α),
    x ∈ xs.foldl (fun acc v => if p acc v then v :: acc else acc) acc → x ∈ acc ∨ x ∈ xs := by
  intro xs
  induction xs with
  | nil => intro acc x h; exact Or.inl h
  | cons y ys ih =>
    intro acc x h
    rw [List.foldl_cons] at h
    rcases ih _ x h with h' | h'
    · split at h'
      · rcases List.mem_cons.1 h' with rfl | h''
        · exact Or.inr (List.mem_cons_self)
        · exact Or.inl h''
      · exact Or.inl h'
    · exact Or.inr (List.mem_cons_of_mem _ h')

/-- Every coset representative is `frac (P⁻¹ v)` for a non-negative integer vector `v`. -/
theorem mem_cosetReps {Pinv : QM3} {m : Nat} {c : Q3} (h : c ∈ cosetReps Pinv m) :
    ∃ i j k : Nat, c = (Pinv.apply ⟨(i : Rat), (j : Rat), (k : Rat)⟩).frac := by
  unfold cosetReps at h
  simp only [List.mem_reverse] at h
  rcases mem_foldl_cond _ _ _ _ h with h' | h'
  · cases h'
  · simp only [List.mem_flatMap, List.mem_map, List.mem_range] at h'
    obtain ⟨i, _, j, _, k, _, rfl⟩ := h'
    exact ⟨i, j, k, rfl⟩

/-- `P (frac (P⁻¹ v))` is an integer vector when `v` is. -/
theorem apply_frac_inv (P : M3) (hP : (QM3.ofM3 P).det ≠ 0) (i j k : Nat) :
    ∃ z : Z3, P.applyQ ((QM3.ofM3 P).inv.apply ⟨(i : Rat), (j : Rat), (k : Rat)⟩).frac =
      ⟨(z.x : Rat), (z.y : Rat), (z.z : Rat)⟩ := by
  have key := QM3.apply_inv_apply (QM3.ofM3 P) hP ⟨(i : Rat), (j : Rat), (k : Rat)⟩
  generalize (QM3.ofM3 P).inv.apply ⟨(i : Rat), (j : Rat), (k : Rat)⟩ = u at key
  refine ⟨⟨i - (P.apply ⟨u.x.floor, u.y.floor, u.z.floor⟩).x, j - (P.apply ⟨u.x.floor, u.y.floor, u.z.floor⟩).y,
    k - (P.apply ⟨u.x.floor, u.y.floor, u.z.floor⟩).z⟩, ?_⟩
  rw [← M3.applyQ_eq] at key
  simp only [M3.applyQ, Q3.mk.injEq] at key
  obtain ⟨k1, k2, k3⟩ := key
  simp only [M3.applyQ, Q3.frac, Q3.map, ratFrac, M3.apply, Q3.mk.injEq]
  push_cast
  refine ⟨?_, ?_, ?_⟩ <;> linarith

/-- **What `expectedOps` produces.**  Every element `(N, s)` of the expected list is the exact
conjugate, by the recorded re-description `(P, p) = (t.p, t.shift)`, of a tabulated operation
`(R, τ)` of the generating Hall setting: `P N = R P` and `P s = R p + τ − p + z` for an integer
vector `z` (so `(N, s)` is `(P,p)⁻¹ (R,τ) (P,p)` modulo translations of the generating lattice). -/
theorem expectedOps_conj {t : TruthQ} {l : List OpQ} (h : expectedOps t = some l) {o : OpQ}
    (ho : o ∈ l) :
    ∃ conv, convOpsOfHall t.hall = some conv ∧ ∃ g ∈ conv,
      t.p.mul o.rot = g.rot.mul t.p ∧
      ∃ z : Z3, t.p.applyQ o.trans =
        (((g.rot.applyQ t.shift).add (g.trans.toQ 12)).sub t.shift).add ⟨(z.x : Rat), (z.y : Rat), (z.z : Rat)⟩ := by
  unfold expectedOps at h
  split at h
  · cases h
  · rename_i conv hconv
    refine ⟨conv, hconv, ?_⟩
    simp only at h
    split at h
    · cases h
    · rename_i hdt
      have hP : t.p.det ≠ 0 := by omega
      have hPq : (QM3.ofM3 t.p).det ≠ 0 := by rw [QM3.ofM3_det]; exact_mod_cast hP
      have hinv : QM3.smul (1 / (t.p.det : Rat)) (QM3.ofM3 t.p.adj) = (QM3.ofM3 t.p).inv := by
        rw [QM3.inv, QM3.ofM3_adj, QM3.ofM3_det]
      rw [hinv] at h
      injection h with h
      subst h
      simp only [List.mem_flatMap, List.mem_map, List.mem_filterMap] at ho
      obtain ⟨c, hc, b, ⟨g, hg, hb⟩, rfl⟩ := ho
      refine ⟨g, hg, ?_⟩
      split at hb
      · rename_i hdiv
        injection hb with hb
        subst hb
        refine ⟨conj_of_adj hP (M3.smul_divExact hdiv), ?_⟩
        obtain ⟨i, j, k, rfl⟩ := mem_cosetReps hc
        obtain ⟨z, hz⟩ := apply_frac_inv t.p hPq i j k
        refine ⟨z, ?_⟩
        simp only
        rw [M3.applyQ_add, hz, M3.applyQ_eq t.p, QM3.apply_inv_apply _ hPq]
      · cases hb

end OracleP
end Moyo
