import Moyo.Model.TypeInvariant
import Moyo.Proofs.TablesConj
import Mathlib.Tactic.Module
import Mathlib.Tactic.Ring
import Mathlib.Tactic.Linarith
/-
C16 (g) / C17: the counting invariants of `Moyo/Model/TypeInvariant.lean` are invariants of the
affine conjugacy class (`AffConj`, proper affine maps `(P, p)`, `P ∈ SL₃(ℤ)`, rational `p`).

Part 1 (this file): the relation "`g · c ≡ c · g₀` modulo `mT`" between operations (`CC`), its
compatibility with products, with congruence modulo `mT`, with lattice-vector differences and
with determinants; satisfaction of a system is preserved (`sat_of_forall₂`).
-/
namespace Moyo.TypeInv
open Moyo Moyo.TableSpec Moyo.Tables Moyo.TypeInvariant

/-! ### `Z3` as a ℤ-module -/

scoped instance instAddCommGroupZ3 : AddCommGroup Z3 where
  add := Z3.add
  zero := Z3.zero
  neg := Z3.neg
  sub := Z3.sub
  nsmul n v := Z3.smul n v
  zsmul k v := Z3.smul k v
  add_assoc a b c := by
    show Z3.add (Z3.add a b) c = Z3.add a (Z3.add b c)
    ext <;> simp only [Z3.add] <;> ring
  zero_add a := by
    show Z3.add Z3.zero a = a
    ext <;> simp [Z3.add, Z3.zero]
  add_zero a := by
    show Z3.add a Z3.zero = a
    ext <;> simp [Z3.add, Z3.zero]
  add_comm a b := by
    show Z3.add a b = Z3.add b a
    ext <;> simp only [Z3.add] <;> ring
  neg_add_cancel a := by
    show Z3.add (Z3.neg a) a = Z3.zero
    ext <;> simp [Z3.add, Z3.neg, Z3.zero]
  sub_eq_add_neg a b := by
    show Z3.sub a b = Z3.add a (Z3.neg b)
    ext <;> simp only [Z3.add, Z3.neg, Z3.sub] <;> ring
  nsmul_zero a := by
    show Z3.smul ((0 : Nat) : Int) a = Z3.zero
    ext <;> simp [Z3.smul, Z3.zero]
  nsmul_succ n a := by
    show Z3.smul ((n + 1 : Nat) : Int) a = Z3.add (Z3.smul (n : Int) a) a
    ext <;> simp only [Z3.add, Z3.smul] <;> push_cast <;> ring
  zsmul_zero' a := by
    show Z3.smul 0 a = Z3.zero
    ext <;> simp [Z3.smul, Z3.zero]
  zsmul_succ' n a := by
    show Z3.smul ((n + 1 : Nat) : Int) a = Z3.add (Z3.smul (n : Int) a) a
    ext <;> simp only [Z3.add, Z3.smul] <;> push_cast <;> ring
  zsmul_neg' n a := by
    show Z3.smul (Int.negSucc n) a = Z3.neg (Z3.smul ((n + 1 : Nat) : Int) a)
    ext <;> simp only [Z3.neg, Z3.smul, Int.negSucc_eq] <;> push_cast <;> ring

theorem add_def (a b : Z3) : Z3.add a b = a + b := rfl
theorem sub_def (a b : Z3) : Z3.sub a b = a - b := rfl
theorem neg_def (a : Z3) : Z3.neg a = -a := rfl
theorem zero_def : Z3.zero = (0 : Z3) := rfl
theorem smul_def (k : Int) (a : Z3) : Z3.smul k a = k • a := rfl

theorem apply_add' (R : M3) (u v : Z3) : R.apply (u + v) = R.apply u + R.apply v := apply_add R u v
theorem apply_smul' (R : M3) (k : Int) (u : Z3) : R.apply (k • u) = k • R.apply u := apply_smul R k u
theorem apply_zero' (R : M3) : R.apply (0 : Z3) = 0 := by
  show R.apply Z3.zero = Z3.zero
  ext <;> simp [M3.apply, Z3.zero]
theorem apply_neg' (R : M3) (u : Z3) : R.apply (-u) = -R.apply u := by
  have h := apply_add' R (-u) u
  rw [neg_add_cancel, apply_zero'] at h
  exact eq_neg_of_add_eq_zero_left h.symm
theorem apply_sub' (R : M3) (u v : Z3) : R.apply (u - v) = R.apply u - R.apply v := by
  rw [sub_eq_add_neg, apply_add', apply_neg', ← sub_eq_add_neg]

theorem smul_cancel {s : Int} (hs : s ≠ 0) {u v : Z3} (h : s • u = s • v) : u = v := by
  have hx := congrArg Z3.x h; have hy := congrArg Z3.y h; have hz := congrArg Z3.z h
  change s * u.x = s * v.x at hx
  change s * u.y = s * v.y at hy
  change s * u.z = s * v.z at hz
  ext
  · exact Int.eq_of_mul_eq_mul_left hs hx
  · exact Int.eq_of_mul_eq_mul_left hs hy
  · exact Int.eq_of_mul_eq_mul_left hs hz

/-! ### the conjugating map -/

/-- The data of a proper affine map `x ↦ P x + p / (12 s)`: `Q = P⁻¹`, `det P = 1`, `s > 0`. -/
structure Frame where
  P : M3
  Q : M3
  p : Z3
  s : Int
  unimod : Unimod P Q
  detQ : Q.det = 1
  spos : 0 < s

variable (F : Frame)

theorem Frame.PQ (v : Z3) : F.P.apply (F.Q.apply v) = v := by
  rw [← apply_mul, F.unimod.1, apply_one]

theorem Frame.QP (v : Z3) : F.Q.apply (F.P.apply v) = v := by
  rw [← apply_mul, F.unimod.2, apply_one]

theorem Frame.cancel_left {X Y : M3} (h : F.P.mul X = F.P.mul Y) : X = Y := by
  have := congrArg (F.Q.mul ·) h
  simpa only [← M3.mul_assoc, F.unimod.2, M3.one_mul] using this

theorem Frame.cancel_right {X Y : M3} (h : X.mul F.P = Y.mul F.P) : X = Y := by
  have := congrArg (·.mul F.Q) h
  simpa only [M3.mul_assoc, F.unimod.1, M3.mul_one] using this

/-- `g · c ≡ c · g₀` modulo `mT`, for `c = (P, p/(12 s))`; translations of `g`, `g₀` in twelfths. -/
def CC (m : Int) (g g0 : HOp) : Prop :=
  g.rot.mul F.P = F.P.mul g0.rot ∧ g0.tr = g.tr ∧
    ∃ k : Z3, g.rot.apply F.p + F.s • g.trans = F.p + F.s • F.P.apply g0.trans + (12 * F.s * m) • k

theorem CC.one (m : Int) : CC F m HOp.one HOp.one := by
  refine ⟨?_, rfl, 0, ?_⟩
  · show M3.one.mul F.P = F.P.mul M3.one
    rw [M3.one_mul, M3.mul_one]
  · show M3.one.apply F.p + F.s • (0 : Z3) = F.p + F.s • F.P.apply (0 : Z3) + (12 * F.s * m) • (0 : Z3)
    rw [apply_one, apply_zero']
    module

theorem CC.mul {m : Int} {g g0 h h0 : HOp} (hg : CC F m g g0) (hh : CC F m h h0) :
    CC F m (g.mul h) (g0.mul h0) := by
  obtain ⟨g1, g2, kg, g3⟩ := hg
  obtain ⟨h1, h2, kh, h3⟩ := hh
  refine ⟨?_, ?_, kg + g.rot.apply kh, ?_⟩
  · show (g.rot.mul h.rot).mul F.P = F.P.mul (g0.rot.mul h0.rot)
    rw [M3.mul_assoc, h1, ← M3.mul_assoc, g1, M3.mul_assoc]
  · show (g0.tr != h0.tr) = (g.tr != h.tr)
    rw [g2, h2]
  · show (g.rot.mul h.rot).apply F.p + F.s • (g.rot.apply h.trans + g.trans) =
      F.p + F.s • F.P.apply (g0.rot.apply h0.trans + g0.trans) + (12 * F.s * m) • (kg + g.rot.apply kh)
    have e1 : (g.rot.mul h.rot).apply F.p + F.s • (g.rot.apply h.trans + g.trans) =
        g.rot.apply (h.rot.apply F.p + F.s • h.trans) + F.s • g.trans := by
      rw [apply_mul, apply_add', apply_smul']; module
    have e2 : g.rot.apply (F.P.apply h0.trans) = F.P.apply (g0.rot.apply h0.trans) := by
      rw [← apply_mul, ← apply_mul, g1]
    rw [e1, h3, apply_add', apply_add', apply_smul', apply_smul', e2, apply_add', ]
    have e3 : g.rot.apply F.p = F.p + F.s • F.P.apply g0.trans + (12 * F.s * m) • kg - F.s • g.trans := by
      rw [← g3]; module
    rw [e3]
    module

theorem slot_rel {R : HOp → HOp → Prop} (h1 : R HOp.one HOp.one) {gs gs0 : List HOp}
    (h : List.Forall₂ R gs gs0) (i : Nat) : R (slot gs i) (slot gs0 i) := by
  induction h generalizing i with
  | nil => simpa [slot] using h1
  | cons hab _ ih =>
    cases i with
    | zero => simpa [slot] using hab
    | succ j => simpa [slot] using ih j

/-! #### the forcing combinators are identities -/

omit F in
theorem forceNat_eq {α : Type} (n : Nat) (k : Nat → α) : forceNat n k = k n := by cases n <;> rfl
omit F in
theorem forceInt_eq {α : Type} (i : Int) (k : Int → α) : forceInt i k = k i := by
  cases i <;> simp only [forceInt, forceNat_eq]
omit F in
theorem forceBool_eq {α : Type} (b : Bool) (k : Bool → α) : forceBool b k = k b := by cases b <;> rfl
omit F in
theorem forceOp_eq {α : Type} (o : HOp) (k : HOp → α) : forceOp o k = k o := by
  simp only [forceOp, forceM3, forceZ3, forceInt_eq, forceBool_eq]
omit F in
theorem forceOps_eq {α : Type} (l : List HOp) (k : List HOp → α) : forceOps l k = k l := by
  induction l generalizing k with
  | nil => rfl
  | cons o rest ih => simp only [forceOps, forceOp_eq, ih]
omit F in
theorem forceLists_eq {α : Type} (ls : List (List HOp)) (k : List (List HOp) → α) : forceLists ls k = k ls := by
  induction ls generalizing k with
  | nil => rfl
  | cons l rest ih => simp only [forceLists, forceOps_eq, ih]

theorem CC.evalAcc {m : Int} {gs gs0 : List HOp} (h : List.Forall₂ (CC F m) gs gs0) (w : Word) :
    ∀ acc acc0, CC F m acc acc0 → CC F m (evalAcc gs acc w) (evalAcc gs0 acc0 w) := by
  induction w with
  | nil => intro acc acc0 ha; exact ha
  | cons i w ih =>
    intro acc acc0 ha
    simp only [TypeInvariant.evalAcc, forceOp_eq]
    exact ih _ _ (CC.mul F ha (slot_rel (CC.one F m) h i))

theorem CC.evalWord {m : Int} {gs gs0 : List HOp} (h : List.Forall₂ (CC F m) gs gs0) (w : Word) :
    CC F m (evalWord gs w) (evalWord gs0 w) :=
  CC.evalAcc F h w _ _ (CC.one F m)

/-! ### congruence modulo `mT` -/

/-- Same linear part and flag, translations differ by `12 m v`. -/
def EqM (m : Int) (a b : HOp) : Prop := a.rot = b.rot ∧ a.tr = b.tr ∧ ∃ v : Z3, a.trans - b.trans = (12 * m) • v

theorem eqMod_iff (m : Int) (a b : HOp) : eqMod m a b = true ↔ EqM m a b := by
  unfold eqMod EqM
  rw [Bool.and_eq_true, Bool.and_eq_true, beq_iff_eq, beq_iff_eq, beq_iff_eq, mod_eq_zero_iff]
  exact ⟨fun ⟨⟨h1, h2⟩, h3⟩ => ⟨h1, h2, h3⟩, fun ⟨h1, h2, h3⟩ => ⟨⟨h1, h2⟩, h3⟩⟩

/-- The translation parts of two related pairs with equal linear parts. -/
theorem CC.diff {m : Int} {a a0 b b0 : HOp} (ha : CC F m a a0) (hb : CC F m b b0) (hr : a.rot = b.rot) :
    ∃ k : Z3, a.trans - b.trans = F.P.apply (a0.trans - b0.trans) + (12 * m) • k := by
  obtain ⟨_, _, ka, a3⟩ := ha
  obtain ⟨_, _, kb, b3⟩ := hb
  refine ⟨ka - kb, ?_⟩
  apply smul_cancel (ne_of_gt F.spos)
  rw [hr] at a3
  have : F.s • a.trans - F.s • b.trans =
      F.s • F.P.apply a0.trans + (12 * F.s * m) • ka - (F.s • F.P.apply b0.trans + (12 * F.s * m) • kb) := by
    have e : F.s • a.trans - F.s • b.trans =
        (b.rot.apply F.p + F.s • a.trans) - (b.rot.apply F.p + F.s • b.trans) := by module
    rw [e, a3, b3]; module
  rw [apply_sub']
  calc F.s • (a.trans - b.trans) = F.s • a.trans - F.s • b.trans := by module
    _ = _ := this
    _ = _ := by module

theorem CC.rot_eq {m : Int} {a a0 b b0 : HOp} (ha : CC F m a a0) (hb : CC F m b b0) :
    a.rot = b.rot ↔ a0.rot = b0.rot := by
  constructor
  · intro h
    apply F.cancel_left
    rw [← ha.1, ← hb.1, h]
  · intro h
    apply F.cancel_right
    rw [ha.1, hb.1, h]

theorem CC.eqM {m : Int} {a a0 b b0 : HOp} (ha : CC F m a a0) (hb : CC F m b b0) :
    EqM m a b ↔ EqM m a0 b0 := by
  constructor
  · rintro ⟨h1, h2, v, hv⟩
    refine ⟨(CC.rot_eq F ha hb).1 h1, by rw [ha.2.1, hb.2.1, h2], ?_⟩
    obtain ⟨k, hk⟩ := CC.diff F ha hb h1
    refine ⟨F.Q.apply (v - k), ?_⟩
    have : F.P.apply (a0.trans - b0.trans) = (12 * m) • (v - k) := by
      have : F.P.apply (a0.trans - b0.trans) = (a.trans - b.trans) - (12 * m) • k := by rw [hk]; module
      rw [this, hv]; module
    rw [← apply_smul', ← this, F.QP]
  · rintro ⟨h1, h2, v, hv⟩
    have hr := (CC.rot_eq F ha hb).2 h1
    refine ⟨hr, by rw [← ha.2.1, ← hb.2.1, h2], ?_⟩
    obtain ⟨k, hk⟩ := CC.diff F ha hb hr
    refine ⟨F.P.apply v + k, ?_⟩
    rw [hk, hv, apply_smul']; module

/-! ### lattice-vector differences and determinants -/

theorem diffVec_eq_some {a b : HOp} {u : Z3} :
    diffVec a b = some u ↔ a.rot = b.rot ∧ a.tr = b.tr ∧ a.trans - b.trans = (12 : Int) • u := by
  unfold diffVec
  simp only []
  constructor
  · intro h
    split at h
    · rename_i hc
      rw [Bool.and_eq_true, Bool.and_eq_true, beq_iff_eq, beq_iff_eq, beq_iff_eq, mod_eq_zero_iff] at hc
      obtain ⟨⟨h1, h2⟩, k, hk⟩ := hc
      refine ⟨h1, h2, ?_⟩
      cases h
      rw [← sub_def, hk]
      ext
      · show 12 * k.x = 12 * ((12 * k.x) / 12); omega
      · show 12 * k.y = 12 * ((12 * k.y) / 12); omega
      · show 12 * k.z = 12 * ((12 * k.z) / 12); omega
    · cases h
  · rintro ⟨h1, h2, h3⟩
    have hc : (a.rot == b.rot && a.tr == b.tr && (a.trans.sub b.trans).mod 12 == Z3.zero) = true := by
      rw [Bool.and_eq_true, Bool.and_eq_true, beq_iff_eq, beq_iff_eq, beq_iff_eq, mod_eq_zero_iff]
      exact ⟨⟨h1, h2⟩, u, h3⟩
    rw [if_pos hc]
    congr 1
    change a.trans - b.trans = (12 : Int) • u at h3
    have hx : (a.trans.sub b.trans).x = 12 * u.x := by rw [sub_def, h3]; rfl
    have hy : (a.trans.sub b.trans).y = 12 * u.y := by rw [sub_def, h3]; rfl
    have hz : (a.trans.sub b.trans).z = 12 * u.z := by rw [sub_def, h3]; rfl
    ext
    · show (a.trans.sub b.trans).x / 12 = u.x; rw [hx]; omega
    · show (a.trans.sub b.trans).y / 12 = u.y; rw [hy]; omega
    · show (a.trans.sub b.trans).z / 12 = u.z; rw [hz]; omega

/-- The lattice-vector difference is carried to `Q u` modulo `m`. -/
theorem CC.diffVec {m : Int} {a a0 b b0 : HOp} (ha : CC F m a a0) (hb : CC F m b b0) {u : Z3}
    (h : diffVec a b = some u) : ∃ x : Z3, TypeInvariant.diffVec a0 b0 = some (F.Q.apply u + m • x) := by
  obtain ⟨h1, h2, h3⟩ := diffVec_eq_some.1 h
  obtain ⟨k, hk⟩ := CC.diff F ha hb h1
  refine ⟨-F.Q.apply k, diffVec_eq_some.2 ⟨(CC.rot_eq F ha hb).1 h1, by rw [ha.2.1, hb.2.1, h2], ?_⟩⟩
  have : a0.trans - b0.trans = F.Q.apply ((a.trans - b.trans) - (12 * m) • k) := by
    rw [hk, add_sub_cancel_right, F.QP]
  rw [this, h3, apply_sub', apply_smul', apply_smul']
  module

theorem det3_apply (A : M3) (u v w : Z3) : det3 (A.apply u) (A.apply v) (A.apply w) = A.det * det3 u v w := by
  simp only [det3, M3.apply, M3.det]; ring

theorem det3_congr (m : Int) (a b c x y z : Z3) :
    ∃ r : Int, det3 (a + m • x) (b + m • y) (c + m • z) = det3 a b c + m * r := by
  refine ⟨det3 x (b + m • y) (c + m • z) + det3 a y (c + m • z) + det3 a b z, ?_⟩
  have ex : ∀ (p : Z3) (q : Z3), (p + m • q).x = p.x + m * q.x := fun _ _ => rfl
  have ey : ∀ (p : Z3) (q : Z3), (p + m • q).y = p.y + m * q.y := fun _ _ => rfl
  have ez : ∀ (p : Z3) (q : Z3), (p + m • q).z = p.z + m * q.z := fun _ _ => rfl
  simp only [det3, ex, ey, ez]; ring

theorem CC.detOK {m : Int} {gs gs0 : List HOp} (h : List.Forall₂ (CC F m) gs gs0) (d : DetCond)
    (hd : detOK m gs d = true) : detOK m gs0 d = true := by
  simp only [TypeInvariant.detOK, forceOp_eq, detOK3] at hd ⊢
  split at hd
  · rename_i u v w hu hv hw
    obtain ⟨x, hx⟩ := CC.diffVec F (CC.evalWord F h d.a1) (CC.evalWord F h d.b1) hu
    obtain ⟨y, hy⟩ := CC.diffVec F (CC.evalWord F h d.a2) (CC.evalWord F h d.b2) hv
    obtain ⟨z, hz⟩ := CC.diffVec F (CC.evalWord F h d.a3) (CC.evalWord F h d.b3) hw
    rw [hx, hy, hz]
    simp only []
    obtain ⟨r, hr⟩ := det3_congr m (F.Q.apply u) (F.Q.apply v) (F.Q.apply w) x y z
    rw [hr, det3_apply, F.detQ, one_mul]
    rw [beq_iff_eq] at hd ⊢
    have : (det3 u v w + m * r - d.c) = (det3 u v w - d.c) + m * r := by ring
    rw [this, Int.add_mul_emod_self_left]
    exact hd
  · cases hd

/-- Solutions are mapped to solutions. -/
theorem sat_of_forall₂ (s : Spec) {gs gs0 : List HOp} (h : List.Forall₂ (CC F s.m) gs gs0)
    (hs : sat s gs = true) : sat s gs0 = true := by
  unfold sat at hs ⊢
  rw [Bool.and_eq_true, List.all_eq_true, List.all_eq_true] at hs ⊢
  refine ⟨fun e he => ?_, fun d hd => CC.detOK F h d (hs.2 d hd)⟩
  have := hs.1 e he
  simp only [eqOK, forceOp_eq] at this ⊢
  rw [eqMod_iff] at this ⊢
  exact (CC.eqM F (CC.evalWord F h e.1) (CC.evalWord F h e.2)).1 this

end Moyo.TypeInv
