import Moyo.Model.TableSpec
/-
Elementary lemmas used to assemble the chunked table theorems of C16 / C17 (core Lean only).
-/
namespace Moyo.Tables
open Moyo.TableSpec

/-- A Bool checker that holds on all of `List.range' lo n` holds at every index of the range. -/
theorem rows_of_all {f : Nat → Bool} {lo n : Nat} (h : (List.range' lo n).all f = true) :
    ∀ i : Nat, lo ≤ i → i < lo + n → f i = true := by
  intro i h1 h2
  rw [List.all_eq_true] at h
  exact h i (by simp [List.mem_range'_1]; omega)

/-- All chunks but the last have exactly 64 rows, the last at most 64. -/
def chunksWF {α : Type} : List (List α) → Bool
  | [] => true
  | [c] => c.length ≤ 64
  | c :: rest => c.length == 64 && chunksWF rest

/-- Chunked access is access to the concatenated table. -/
theorem chunkGet_eq_flatten {α : Type} : ∀ (chunks : List (List α)) (i : Nat),
    chunksWF chunks = true → chunkGet chunks i = chunks.flatten[i]?
  | [], i, _ => by simp [chunkGet]
  | [c], i, h => by
    simp only [chunksWF, decide_eq_true_eq] at h
    simp only [chunkGet, List.flatten_cons, List.flatten_nil, List.append_nil]
    by_cases hi : i < 64
    · have h0 : i / 64 = 0 := by omega
      have h1 : i % 64 = i := by omega
      simp [h0, h1]
    · have h0 : i / 64 = (i / 64 - 1) + 1 := by omega
      rw [h0, List.getElem?_cons_succ]
      simp only [List.getElem?_nil, Option.bind_none]
      exact (List.getElem?_eq_none (by omega)).symm
  | c :: c' :: rest, i, h => by
    simp only [chunksWF, Bool.and_eq_true, beq_iff_eq] at h
    obtain ⟨hc, hrest⟩ := h
    have ih := chunkGet_eq_flatten (c' :: rest)
    rw [List.flatten_cons]
    by_cases hi : i < 64
    · have h0 : i / 64 = 0 := by omega
      have h1 : i % 64 = i := by omega
      rw [List.getElem?_append_left (by omega)]
      simp [chunkGet, h0, h1]
    · rw [List.getElem?_append_right (by omega), hc, ← ih (i - 64) (by simpa [chunksWF] using hrest)]
      have h0 : i / 64 = (i - 64) / 64 + 1 := by omega
      have h1 : i % 64 = (i - 64) % 64 := by omega
      simp only [chunkGet]
      rw [h0, List.getElem?_cons_succ, h1]

end Moyo.Tables
