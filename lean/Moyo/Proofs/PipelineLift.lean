import Moyo.Proofs.PipelineGeom
/-
The lifting argument of C01 in abstract form (pure geometry, no stage model): from

  F1  every accepted pure translation `(τ, π)` carries atom `a` onto atom `π a` (same species) within `s`,
  F2  primitive site `r` lies within `s` of its representative atom `rep r`,
  F3  every atom is carried onto the representative of its site by an accepted translation,
  F4  the primitive operation `(R, sv)` carries site `r` onto site `σ r` (same species) within `s`,
  F5  every integer vector of the primitive basis is, modulo `L ℤ³`, within `tau` of an accepted translation,
  F6  every accepted translation is within `tau` of an integer vector of the primitive basis,
  F7  `R` stretches no vector by more than the factor `lam`,
  F8  `R L = L N`,

all distances Cartesian in the primitive basis `Ap` and modulo the input lattice `L ℤ³`, it follows that
`(R, sv)` followed by any accepted translation carries every atom onto an atom of the same species within
`(3 + 2·lam)·s + (2 + lam)·tau`, modulo `L ℤ³`.  Coordinates: everything is expressed in the primitive basis;
`u a = L x_a` is the position of input atom `a`, `y r` the position of primitive site `r`.
-/
namespace Moyo.Pipeline
open Moyo Moyo.Search Moyo.PipelineOps

/-- The geometric data: a crystal described by atoms `u` (input cell) and by sites `y` (primitive cell). -/
structure Setting where
  /-- primitive basis (columns) -/
  Ap : QM3
  /-- primitive → input -/
  L : M3
  /-- number of atoms / of primitive sites -/
  n : Nat
  np : Nat
  /-- atom positions in the primitive basis, species -/
  u : Nat → Q3
  num : Nat → Int
  /-- primitive sites, species -/
  y : Nat → Q3
  pnum : Nat → Int
  /-- atom ↦ site, site ↦ representative atom -/
  site : Nat → Nat
  rep : Nat → Nat
  /-- accepted pure translations (primitive basis) with their permutations -/
  trs : List (Q3 × (Nat → Nat))
  s : Rat
  tau : Rat

/-- F1, F2, F3, F5, F6. -/
structure Facts (D : Setting) : Prop where
  hs : 0 ≤ D.s
  f1 : ∀ tp ∈ D.trs, ∀ a, a < D.n → tp.2 a < D.n ∧ D.num (tp.2 a) = D.num a ∧
    ∃ m : Z3, Ball D.Ap ((((D.u a).add tp.1).sub (D.u (tp.2 a))).sub (D.L.applyQ (zq m))) D.s
  f2 : ∀ r, r < D.np → D.rep r < D.n ∧ D.pnum r = D.num (D.rep r) ∧ Ball D.Ap ((D.y r).sub (D.u (D.rep r))) D.s
  f3 : ∀ a, a < D.n → D.site a < D.np ∧ ∃ tp ∈ D.trs, tp.2 a = D.rep (D.site a)
  f5 : ∀ z : Z3, ∃ tp ∈ D.trs, ∃ m : Z3, Ball D.Ap ((tp.1.sub (zq z)).add (D.L.applyQ (zq m))) D.tau
  f6 : ∀ tp ∈ D.trs, ∃ c : Z3, Ball D.Ap (tp.1.sub (zq c)) D.tau

/-- F4, F7, F8 for one primitive operation `(R, sv)` with site permutation `σ`, conjugate rotation `N`. -/
structure OpFacts (D : Setting) (R : M3) (sv : Q3) (σ : Nat → Nat) (N : M3) (lam : Rat) : Prop where
  f4 : ∀ r, r < D.np → σ r < D.np ∧ D.pnum (σ r) = D.pnum r ∧
    ∃ z : Z3, Ball D.Ap ((((R.applyQ (D.y r)).add sv).sub (D.y (σ r))).add (zq z)) D.s
  f7 : ∀ v r, Ball D.Ap v r → Ball D.Ap (R.applyQ v) (lam * r)
  f8 : D.L.mul N = R.mul D.L

/-- **The lift.** -/
theorem lift {D : Setting} (F : Facts D) {R : M3} {sv : Q3} {σ : Nat → Nat} {N : M3} {lam : Rat}
    (O : OpFacts D R sv σ N lam) :
    ∀ a, a < D.n → ∀ tj ∈ D.trs, ∃ b, b < D.n ∧ D.num b = D.num a ∧ ∃ m : Z3,
      Ball D.Ap (((((R.applyQ (D.u a)).add sv).add tj.1).sub (D.u b)).sub (D.L.applyQ (zq m)))
        (radius D.s lam D.tau) := by
  intro a ha tj htj
  -- atom `a` → representative `o` of its site `r`
  obtain ⟨hr, tk, htk, hko⟩ := F.f3 a ha
  obtain ⟨_, hnum1, m1, ha1⟩ := F.f1 tk htk a ha
  rw [hko] at hnum1 ha1
  obtain ⟨_, hnum2, ha2⟩ := F.f2 _ hr
  -- primitive operation: site `r` → site `r'`
  obtain ⟨hr', hnum3, z', he⟩ := O.f4 _ hr
  obtain ⟨ho', hnum4, ha3⟩ := F.f2 _ hr'
  -- lattice bookkeeping
  obtain ⟨ck, hek⟩ := F.f6 tk htk
  obtain ⟨cj, hej⟩ := F.f6 tj htj
  obtain ⟨tk', htk', m2, he'⟩ := F.f5 ((cj.sub z').sub (R.apply ck))
  -- representative `o'` → atom `b`
  obtain ⟨hb, hnum5, m3, ha4⟩ := F.f1 tk' htk' _ ho'
  refine ⟨_, hb, ?_, ((N.apply m1).add m2).add m3, ?_⟩
  · rw [hnum5, ← hnum4, hnum3, hnum2, hnum1]
  · -- `R L m1 = L N m1`
    have hLN : R.applyQ (D.L.applyQ (zq m1)) = D.L.applyQ (zq (N.apply m1)) := by
      rw [← applyQ_mul, ← O.f8, applyQ_mul, applyQ_zq]
    have hm : D.L.applyQ (zq (((N.apply m1).add m2).add m3)) =
        ((R.applyQ (D.L.applyQ (zq m1))).add (D.L.applyQ (zq m2))).add (D.L.applyQ (zq m3)) := by
      rw [hLN, zq_add, zq_add, M3.applyQ_add, M3.applyQ_add]
    rw [hm]
    -- the seven error vectors
    have b1 := O.f7 _ _ (ball_sub ha1 ha2)
    have b2 := O.f7 _ _ hek
    have hsum := ball_sub (ball_add (ball_sub (ball_add (ball_add (ball_add ha4 b1) he) ha3) b2) hej) he'
    refine ball_congr hsum ?_ ?_
    · generalize D.u a = ua, D.u (D.rep (D.site a)) = uo, D.u (D.rep (σ (D.site a))) = uo',
        D.u (tk'.2 (D.rep (σ (D.site a)))) = ub, D.y (D.site a) = yr, D.y (σ (D.site a)) = yr',
        tk.1 = τk, tj.1 = τj, tk'.1 = τk', D.L = L
      obtain ⟨l1, l2, l3, l4, l5, l6, l7, l8, l9⟩ := L
      obtain ⟨r1, r2, r3, r4, r5, r6, r7, r8, r9⟩ := R
      apply Q3.ext' <;>
        simp only [Q3.add, Q3.sub, M3.applyQ, M3.apply, zq, Z3.sub] <;> push_cast <;> ring
    · simp only [radius]; ring

/-! ### the sharper lift through the sites (cluster radius `omega`)

Instead of passing through the representative atoms (cost `symprec` each way), go from an atom directly to its
primitive site and from the image site directly to an atom of that site:

  G1  for every site `r` and every accepted translation `(τ, π)` there is an atom `b` of the species of `r` with
      `u_b + τ` within `omega` of `y_r` (the atom `π⁻¹(rep r)`, pulled back by the translation);
  G2  every atom `a` is such a `b` for its own site and some accepted translation.
-/

structure ClusterFacts (D : Setting) (omega : Rat) : Prop where
  hs : 0 ≤ D.s
  g1 : ∀ r, r < D.np → ∀ tp ∈ D.trs, ∃ b, b < D.n ∧ D.num b = D.pnum r ∧
    ∃ m : Z3, Ball D.Ap ((((D.u b).add tp.1).sub (D.y r)).sub (D.L.applyQ (zq m))) omega
  g2 : ∀ a, a < D.n → D.site a < D.np ∧ D.num a = D.pnum (D.site a) ∧ ∃ tp ∈ D.trs,
    ∃ m : Z3, Ball D.Ap ((((D.u a).add tp.1).sub (D.y (D.site a))).sub (D.L.applyQ (zq m))) omega
  f5 : ∀ z : Z3, ∃ tp ∈ D.trs, ∃ m : Z3, Ball D.Ap ((tp.1.sub (zq z)).add (D.L.applyQ (zq m))) D.tau
  f6 : ∀ tp ∈ D.trs, ∃ c : Z3, Ball D.Ap (tp.1.sub (zq c)) D.tau

/-- **The lift through the sites**: radius `s + (1 + lam)·omega + (2 + lam)·tau`. -/
theorem lift_cluster {D : Setting} {omega : Rat} (F : ClusterFacts D omega) {R : M3} {sv : Q3} {σ : Nat → Nat}
    {N : M3} {lam : Rat} (O : OpFacts D R sv σ N lam) :
    ∀ a, a < D.n → ∀ tj ∈ D.trs, ∃ b, b < D.n ∧ D.num b = D.num a ∧ ∃ m : Z3,
      Ball D.Ap (((((R.applyQ (D.u a)).add sv).add tj.1).sub (D.u b)).sub (D.L.applyQ (zq m)))
        (radiusCluster D.s lam D.tau omega) := by
  intro a ha tJ htJ
  obtain ⟨hr, hnum1, tj, htj, m1, hd1⟩ := F.g2 a ha
  obtain ⟨hr', hnum2, z', he⟩ := O.f4 _ hr
  obtain ⟨cj, hej⟩ := F.f6 tj htj
  obtain ⟨cJ, heJ⟩ := F.f6 tJ htJ
  obtain ⟨tl, htl, m2, he'⟩ := F.f5 (((cJ.sub z').sub (R.apply cj)).neg)
  obtain ⟨b, hb, hnum3, m3, hd3⟩ := F.g1 _ hr' tl htl
  refine ⟨b, hb, by rw [hnum3, hnum2, ← hnum1], ((N.apply m1).sub m2).sub m3, ?_⟩
  have hLN : R.applyQ (D.L.applyQ (zq m1)) = D.L.applyQ (zq (N.apply m1)) := by
    rw [← applyQ_mul, ← O.f8, applyQ_mul, applyQ_zq]
  have hm : D.L.applyQ (zq (((N.apply m1).sub m2).sub m3)) =
      ((R.applyQ (D.L.applyQ (zq m1))).sub (D.L.applyQ (zq m2))).sub (D.L.applyQ (zq m3)) := by
    rw [hLN, zq_sub, zq_sub, applyQ_sub, applyQ_sub]
  rw [hm]
  have b1 := O.f7 _ _ hd1
  have b2 := O.f7 _ _ hej
  have hsum := ball_add (ball_sub (ball_add (ball_sub (ball_add he b1) b2) heJ) hd3) he'
  refine ball_congr hsum ?_ ?_
  · generalize D.u a = ua, D.u b = ub, D.y (D.site a) = yr, D.y (σ (D.site a)) = yr',
      tj.1 = τj, tJ.1 = τJ, tl.1 = τl, D.L = L
    obtain ⟨l1, l2, l3, l4, l5, l6, l7, l8, l9⟩ := L
    obtain ⟨r1, r2, r3, r4, r5, r6, r7, r8, r9⟩ := R
    apply Q3.ext' <;>
      simp only [Q3.add, Q3.sub, M3.applyQ, M3.apply, zq, Z3.sub, Z3.neg] <;> push_cast <;> ring
  · simp only [radiusCluster]; ring

end Moyo.Pipeline
